import BeyondVerif.Lemmas.Registry
import BeyondVerif.Lemmas.NodeGraph

/-!
The routing tables of nodes SHARING NAMES are the name-quotient of the tables of the same nodes under distinct names.

`Model/Registry.lean` (`Reg.*`, tables keyed by `nm v`) and `Model/Node.lean` (tables keyed by `v`) run the same
traversal on the same neighbour lists.  `J nm gN gU` relates the two states after the same history: for every node `u`
and every name `x`

* `C1` : an entry `(x, d, k)` of the named table is realised by a node `v` carrying the name `x` whose entry in the
  plain table of `u` is `(v, d, k)` — same direction, same number of steps;
* `C2` : (for `x ≠ nm u`) every node `v` named `x` having an entry `(v, _, k')` in the plain table forces a named entry
  with `k ≤ k'`.

So the named entry is the minimum over the nodes of that name, with the direction of a minimiser.  `sim_refresh`: one
table rebuild keeps `J` (any graph without self-link); `update_lockstep`, `link_lockstep`, `build_lockstep`: the two
models proceed in lockstep (same visited lists, both return or both run out of fuel).
-/
set_option linter.unusedSimpArgs false
set_option linter.unusedVariables false
namespace BeyondVerif.Reg
open BeyondVerif.Node (Route NodeSt Graph get set lookupRoute setRoute addNbr PathRes keys offer candsOf cands
  lookupRoute_setRoute lookupRoute_cons lookupRoute_nil lookupRoute_eq_some lookupRoute_eq_none mem_cands mem_candsOf)

variable (nm : Nat → Nat)

/-! ### the named table rebuild, per target name -/

theorem mergeFrom_eq (u : Nat) (ns : List Nat) (d : Nat) (rs acc : List Route) :
    mergeFrom nm u ns d rs acc = Node.mergeFrom (nm u) (ns.map nm) d rs acc := rfl

/-- the last element of `l` carrying the name `x` -/
def lastNamed (x : Nat) : List Nat → Option Nat
  | [] => none
  | d :: rest =>
    match lastNamed x rest with
    | some e => some e
    | none => if nm d = x then some d else none

theorem lastNamed_cons (x d : Nat) (rest : List Nat) :
    lastNamed nm x (d :: rest) = match lastNamed nm x rest with
      | some e => some e
      | none => if nm d = x then some d else none := rfl

theorem lastNamed_some {x : Nat} : ∀ {l : List Nat} {d : Nat}, lastNamed nm x l = some d → d ∈ l ∧ nm d = x
  | [], d, h => by simp [lastNamed] at h
  | e :: rest, d, h => by
    unfold lastNamed at h
    split at h
    · next e' he =>
      cases h
      obtain ⟨h1, h2⟩ := lastNamed_some he
      exact ⟨List.mem_cons_of_mem _ h1, h2⟩
    · split at h
      · next hn => cases h; exact ⟨List.mem_cons_self, hn⟩
      · cases h

theorem lastNamed_none {x : Nat} : ∀ {l : List Nat}, lastNamed nm x l = none → ∀ d ∈ l, nm d ≠ x
  | [], _, d, hd => by simp at hd
  | e :: rest, h, d, hd => by
    unfold lastNamed at h
    split at h
    · cases h
    · next hr =>
      split at h
      · cases h
      · next hn =>
        rcases List.mem_cons.mp hd with rfl | hd
        · exact hn
        · exact lastNamed_none hr d hd

theorem nodup_keys_refreshRoutes (g : Graph) (u : Nat) : (keys (refreshRoutes nm g u)).Nodup := by
  unfold refreshRoutes
  have key : ∀ (l : List Nat) (acc : List Route), (keys acc).Nodup →
      (keys (l.foldl (fun acc d =>
        let acc := setRoute acc ⟨nm d, d, 1⟩
        mergeFrom nm u (get g u).nbrs d (get g d).routes acc) acc)).Nodup := by
    intro l
    induction l with
    | nil => intro acc h; exact h
    | cons d rest ih =>
      intro acc h
      simp only [List.foldl_cons]
      exact ih _ (Node.nodup_keys_mergeFrom _ _ _ _ _ (Node.nodup_keys_setRoute h _))
  exact key _ _ (by simp [keys])

/-- **the exact content of the rebuilt NAMED table of `u`**, per target name -/
theorem refreshRoutes_spec (g : Graph) (u : Nat) :
    (keys (refreshRoutes nm g u)).Nodup ∧
    (∀ x, x ∈ (get g u).nbrs.map nm →
      ∃ d ∈ (get g u).nbrs, nm d = x ∧ lookupRoute (refreshRoutes nm g u) x = some ⟨x, d, 1⟩) ∧
    (∀ x, x ∉ (get g u).nbrs.map nm → x = nm u → lookupRoute (refreshRoutes nm g u) x = none) ∧
    (∀ x, x ∉ (get g u).nbrs.map nm → x ≠ nm u →
      lookupRoute (refreshRoutes nm g u) x = (cands g u x).foldl (offer x) none) := by
  refine ⟨nodup_keys_refreshRoutes nm g u, ?_, ?_, ?_⟩
  · intro x hx
    have key : ∀ (l : List Nat) (acc : List Route),
        lookupRoute (l.foldl (fun acc d =>
          let acc := setRoute acc ⟨nm d, d, 1⟩
          mergeFrom nm u (get g u).nbrs d (get g d).routes acc) acc) x =
        match lastNamed nm x l with
        | some d => some ⟨x, d, 1⟩
        | none => lookupRoute acc x := by
      intro l
      induction l with
      | nil => intro acc; rfl
      | cons d rest ih =>
        intro acc
        simp only [List.foldl_cons]
        rw [ih, lastNamed_cons]
        cases hl : lastNamed nm x rest with
        | some e => rfl
        | none =>
          simp only
          rw [mergeFrom_eq, Node.mergeFrom_lookup_skip _ _ _ _ _ _ (Or.inr hx), lookupRoute_setRoute]
          by_cases hd : nm d = x
          · simp [hd]
          · simp [hd]
    have hk := key (get g u).nbrs []
    cases hl : lastNamed nm x (get g u).nbrs with
    | some d =>
      obtain ⟨h1, h2⟩ := lastNamed_some nm hl
      refine ⟨d, h1, h2, ?_⟩
      unfold refreshRoutes
      rw [hk, hl]
    | none =>
      exfalso
      obtain ⟨d, hd, hdx⟩ := List.mem_map.mp hx
      exact lastNamed_none nm hl d hd hdx
  · intro x hx hxu
    unfold refreshRoutes
    have key : ∀ (l : List Nat) (acc : List Route), (∀ d ∈ l, d ∈ (get g u).nbrs) →
        lookupRoute (l.foldl (fun acc d =>
          let acc := setRoute acc ⟨nm d, d, 1⟩
          mergeFrom nm u (get g u).nbrs d (get g d).routes acc) acc) x = lookupRoute acc x := by
      intro l
      induction l with
      | nil => intro acc _; rfl
      | cons d rest ih =>
        intro acc hl
        simp only [List.foldl_cons]
        rw [ih _ (fun y hy => hl y (List.mem_cons_of_mem _ hy)), mergeFrom_eq,
          Node.mergeFrom_lookup_skip _ _ _ _ _ _ (Or.inl hxu), lookupRoute_setRoute]
        have : ¬ nm d = x := fun h => hx (List.mem_map.mpr ⟨d, hl d List.mem_cons_self, h⟩)
        simp [this]
    rw [key _ _ (fun d hd => hd)]; rfl
  · intro x hx hxu
    unfold refreshRoutes cands
    have key : ∀ (l : List Nat) (acc : List Route), (∀ d ∈ l, d ∈ (get g u).nbrs) →
        lookupRoute (l.foldl (fun acc d =>
          let acc := setRoute acc ⟨nm d, d, 1⟩
          mergeFrom nm u (get g u).nbrs d (get g d).routes acc) acc) x =
        (l.flatMap (fun d => candsOf x d (get g d).routes)).foldl (offer x) (lookupRoute acc x) := by
      intro l
      induction l with
      | nil => intro acc _; rfl
      | cons d rest ih =>
        intro acc hl
        simp only [List.foldl_cons, List.flatMap_cons, List.foldl_append]
        rw [ih _ (fun y hy => hl y (List.mem_cons_of_mem _ hy)), mergeFrom_eq,
          Node.mergeFrom_lookup _ _ _ _ _ _ hxu hx, lookupRoute_setRoute]
        have : ¬ nm d = x := fun h => hx (List.mem_map.mpr ⟨d, hl d List.mem_cons_self, h⟩)
        simp [this]
    rw [key _ _ (fun d hd => hd)]; rfl

theorem get_refresh_routes (g : Graph) (u v : Nat) :
    (get (refresh nm g u) v).routes = if v = u then refreshRoutes nm g u else (get g v).routes := by
  unfold refresh; rw [Node.get_set]; split <;> rfl

/-! ### candidate lists of tables with unique keys -/

theorem candsOf_of_lookup {rs : List Route} (hk : (keys rs).Nodup) (t d : Nat) :
    candsOf t d rs = match lookupRoute rs t with
      | some r => [(d, r.steps + 1)]
      | none => [] := by
  induction rs with
  | nil => rfl
  | cons y rest ih =>
    simp only [keys, List.map_cons, List.nodup_cons] at hk
    rw [lookupRoute_cons]
    by_cases hy : y.target = t
    · rw [if_pos hy]
      simp only
      have hnil : rest.filter (fun r => r.target = t) = [] := by
        rw [List.filter_eq_nil_iff]
        intro r hr
        simp only [decide_eq_true_eq]
        intro hrt
        apply hk.1
        rw [hy, ← hrt]
        exact List.mem_map_of_mem hr
      unfold candsOf
      simp [List.filter_cons, hy, hnil]
    · rw [if_neg hy]
      have := ih hk.2
      unfold candsOf at this ⊢
      simp only [List.filter_cons, hy, decide_false, Bool.false_eq_true, if_false]
      exact this

/-! ### two folds of `offer` in simulation -/

/-- relation between the best named candidate so far and the best plain candidates so far (one per node `v` named `x`) -/
def SimR (x : Nat) (Vx : Nat → Prop) (bN : Option Route) (bU : Nat → Option Route) : Prop :=
  (∀ r, bN = some r → r.target = x ∧ ∃ v, Vx v ∧ bU v = some ⟨v, r.dir, r.steps⟩) ∧
  (∀ v r, Vx v → bU v = some r → ∃ rN, bN = some rN ∧ rN.steps ≤ r.steps)

theorem offer_some (t : Nat) (old : Route) (c : Nat × Nat) :
    offer t (some old) c = if old.steps < c.2 then some old else some ⟨t, c.1, c.2⟩ := rfl

theorem offer_none (t : Nat) (c : Nat × Nat) : offer t none c = some ⟨t, c.1, c.2⟩ := rfl

theorem sim_step (x : Nat) (Vx : Nat → Prop) (e : Nat) (cN : List (Nat × Nat)) (cU : Nat → List (Nat × Nat))
    (bN : Option Route) (bU : Nat → Option Route)
    (hN : cN = [] ∨ ∃ j, cN = [(e, j)])
    (hU : ∀ v, Vx v → cU v = [] ∨ ∃ j, cU v = [(e, j)])
    (hw : ∀ j, cN = [(e, j)] → ∃ v, Vx v ∧ cU v = [(e, j)])
    (hm : ∀ v j', Vx v → cU v = [(e, j')] → ∃ j, cN = [(e, j)] ∧ j ≤ j')
    (hR : SimR x Vx bN bU) :
    SimR x Vx (cN.foldl (offer x) bN) (fun v => (cU v).foldl (offer v) (bU v)) := by
  obtain ⟨R1, R2⟩ := hR
  rcases hN with hN | ⟨j, hN⟩
  · -- no named candidate: no plain candidate either
    have hUn : ∀ v, Vx v → cU v = [] := by
      intro v hv
      rcases hU v hv with h | ⟨j', h⟩
      · exact h
      · obtain ⟨j, hj, _⟩ := hm v j' hv h
        rw [hN] at hj; cases hj
    subst hN
    refine ⟨?_, ?_⟩
    · intro r hr
      obtain ⟨h1, v, hv, h2⟩ := R1 r hr
      exact ⟨h1, v, hv, by simp only [hUn v hv, List.foldl_nil]; exact h2⟩
    · intro v r hv hr
      simp only [hUn v hv, List.foldl_nil] at hr
      exact R2 v r hv hr
  · subst hN
    simp only [List.foldl_cons, List.foldl_nil]
    -- what a plain fold does, given its candidate list
    have hplain : ∀ v, Vx v → (cU v = [] ∧ (cU v).foldl (offer v) (bU v) = bU v) ∨
        ∃ j', cU v = [(e, j')] ∧ j ≤ j' ∧ (cU v).foldl (offer v) (bU v) = offer v (bU v) (e, j') := by
      intro v hv
      rcases hU v hv with h | ⟨j', h⟩
      · left; exact ⟨h, by rw [h]; rfl⟩
      · right
        obtain ⟨j0, hj0, hle⟩ := hm v j' hv h
        simp only [List.cons.injEq, Prod.mk.injEq, true_and, and_true] at hj0
        subst hj0
        exact ⟨j', h, hle, by rw [h]; rfl⟩
    cases hb : bN with
    | none =>
      -- every plain best is `none` as well
      have hUn : ∀ v, Vx v → bU v = none := by
        intro v hv
        cases hbv : bU v with
        | none => rfl
        | some r =>
          obtain ⟨rN, h, _⟩ := R2 v r hv hbv
          rw [hb] at h; cases h
      rw [offer_none]
      refine ⟨?_, ?_⟩
      · intro r hr
        cases hr
        refine ⟨rfl, ?_⟩
        obtain ⟨v, hv, hcv⟩ := hw j rfl
        refine ⟨v, hv, ?_⟩
        simp only [hcv, List.foldl_cons, List.foldl_nil, hUn v hv, offer_none]
      · intro v r hv hr
        refine ⟨_, rfl, ?_⟩
        rcases hplain v hv with ⟨_, h2⟩ | ⟨j', _, hle, h2⟩
        · simp only at hr
          rw [h2, hUn v hv] at hr; cases hr
        · simp only at hr
          rw [h2, hUn v hv, offer_none] at hr
          cases hr
          exact hle
    | some old =>
      rw [offer_some]
      by_cases hlt : old.steps < j
      · -- the old named best stays
        simp only [hlt, if_true]
        refine ⟨?_, ?_⟩
        · intro r hr
          cases hr
          obtain ⟨h1, v, hv, h2⟩ := R1 old hb
          refine ⟨h1, v, hv, ?_⟩
          rcases hplain v hv with ⟨_, h3⟩ | ⟨j', _, hle, h3⟩
          · simp only; rw [h3]; exact h2
          · simp only
            rw [h3, h2, offer_some]
            have : old.steps < j' := by omega
            simp [this]
        · intro v r hv hr
          refine ⟨old, rfl, ?_⟩
          rcases hplain v hv with ⟨_, h3⟩ | ⟨j', _, hle, h3⟩
          · simp only at hr
            rw [h3] at hr
            obtain ⟨rN, h, hle⟩ := R2 v r hv hr
            rw [hb] at h; cases h; exact hle
          · simp only at hr
            rw [h3] at hr
            cases hbv : bU v with
            | none =>
              rw [hbv, offer_none] at hr
              cases hr
              simp only; omega
            | some r0 =>
              rw [hbv, offer_some] at hr
              obtain ⟨rN, h, hle0⟩ := R2 v r0 hv hbv
              rw [hb] at h; cases h
              split at hr
              · cases hr; exact hle0
              · cases hr; simp only; omega
      · -- the named best is replaced by `(e, j)`
        simp only [hlt, if_false]
        have hjo : j ≤ old.steps := Nat.not_lt.mp hlt
        refine ⟨?_, ?_⟩
        · intro r hr
          cases hr
          refine ⟨rfl, ?_⟩
          obtain ⟨v, hv, hcv⟩ := hw j rfl
          refine ⟨v, hv, ?_⟩
          simp only [hcv, List.foldl_cons, List.foldl_nil]
          cases hbv : bU v with
          | none => rw [offer_none]
          | some r0 =>
            obtain ⟨rN, h, hle0⟩ := R2 v r0 hv hbv
            rw [hb] at h; cases h
            rw [offer_some]
            have : ¬ r0.steps < j := by omega
            simp [this]
        · intro v r hv hr
          refine ⟨_, rfl, ?_⟩
          simp only
          rcases hplain v hv with ⟨_, h3⟩ | ⟨j', _, hle, h3⟩
          · simp only at hr
            rw [h3] at hr
            obtain ⟨rN, h, hle0⟩ := R2 v r hv hr
            rw [hb] at h; cases h; omega
          · simp only at hr
            rw [h3] at hr
            cases hbv : bU v with
            | none =>
              rw [hbv, offer_none] at hr
              cases hr
              exact hle
            | some r0 =>
              rw [hbv, offer_some] at hr
              obtain ⟨rN, h, hle0⟩ := R2 v r0 hv hbv
              rw [hb] at h; cases h
              split at hr
              · cases hr; omega
              · cases hr; exact hle

theorem sim_fold (x : Nat) (Vx : Nat → Prop) (CN : Nat → List (Nat × Nat)) (CU : Nat → Nat → List (Nat × Nat)) :
    ∀ (nb : List Nat) (bN : Option Route) (bU : Nat → Option Route),
      (∀ e ∈ nb, CN e = [] ∨ ∃ j, CN e = [(e, j)]) →
      (∀ e ∈ nb, ∀ v, Vx v → CU v e = [] ∨ ∃ j, CU v e = [(e, j)]) →
      (∀ e ∈ nb, ∀ j, CN e = [(e, j)] → ∃ v, Vx v ∧ CU v e = [(e, j)]) →
      (∀ e ∈ nb, ∀ v j', Vx v → CU v e = [(e, j')] → ∃ j, CN e = [(e, j)] ∧ j ≤ j') →
      SimR x Vx bN bU →
      SimR x Vx ((nb.flatMap CN).foldl (offer x) bN) (fun v => (nb.flatMap (CU v)).foldl (offer v) (bU v)) := by
  intro nb
  induction nb with
  | nil => intro bN bU _ _ _ _ hR; exact hR
  | cons e rest ih =>
    intro bN bU h1 h2 h3 h4 hR
    simp only [List.flatMap_cons, List.foldl_append]
    exact ih _ _ (fun y hy => h1 y (List.mem_cons_of_mem _ hy)) (fun y hy => h2 y (List.mem_cons_of_mem _ hy))
      (fun y hy => h3 y (List.mem_cons_of_mem _ hy)) (fun y hy => h4 y (List.mem_cons_of_mem _ hy))
      (sim_step x Vx e (CN e) (fun v => CU v e) bN bU (h1 e List.mem_cons_self) (h2 e List.mem_cons_self)
        (h3 e List.mem_cons_self) (h4 e List.mem_cons_self) hR)

/-! ### the simulation invariant -/

/-- a named entry is realised by a node of that name with the same direction and steps in the plain table -/
def C1 (gN gU : Graph) (u x : Nat) : Prop :=
  ∀ r, lookupRoute (get gN u).routes x = some r →
    ∃ v, nm v = x ∧ lookupRoute (get gU u).routes v = some ⟨v, r.dir, r.steps⟩

/-- every plain entry for a node named `x` forces a named entry that is not worse -/
def C2 (gN gU : Graph) (u x : Nat) : Prop :=
  ∀ v rv, nm v = x → lookupRoute (get gU u).routes v = some rv →
    ∃ r, lookupRoute (get gN u).routes x = some r ∧ r.steps ≤ rv.steps

def SimAt (gN gU : Graph) (u : Nat) : Prop := ∀ x, C1 nm gN gU u x ∧ (x ≠ nm u → C2 nm gN gU u x)

/-- the named state `gN` and the plain state `gU` after the same history -/
structure J (gN gU : Graph) : Prop where
  nbrs : ∀ v, (get gN v).nbrs = (get gU v).nbrs
  keysN : Node.KeysOk gN
  ginv : Node.GInv gU
  sim : ∀ u, SimAt nm gN gU u

/-- **one table rebuild, in both models, keeps the simulation** -/
theorem sim_refresh {gN gU : Graph} (hJ : J nm gN gU) (u : Nat) : J nm (refresh nm gN u) (Node.refresh gU u) := by
  have hG' := Node.ginv_refresh hJ.ginv u
  have hspecN := refreshRoutes_spec nm gN u
  have hspecU := Node.refreshRoutes_spec gU u
  have hnb : (get gN u).nbrs = (get gU u).nbrs := hJ.nbrs u
  refine ⟨?_, ?_, hG', ?_⟩
  · intro v; rw [get_refresh_nbrs, Node.get_refresh_nbrs]; exact hJ.nbrs v
  · intro v
    rw [get_refresh_routes]
    split
    · exact hspecN.1
    · exact hJ.keysN v
  · intro w
    by_cases hwu : w = u
    · subst hwu
      intro x
      by_cases hx : x ∈ (get gN w).nbrs.map nm
      · obtain ⟨d, hd, hdx, hl⟩ := hspecN.2.1 x hx
        have hdU : d ∈ (get gU w).nbrs := hnb ▸ hd
        refine ⟨?_, ?_⟩
        · intro r hr
          rw [get_refresh_routes, if_pos rfl, hl] at hr
          cases hr
          refine ⟨d, hdx, ?_⟩
          rw [Node.get_refresh_routes, if_pos rfl]
          exact hspecU.2.1 d hdU
        · intro _ v rv hv hrv
          refine ⟨⟨x, d, 1⟩, by rw [get_refresh_routes, if_pos rfl]; exact hl, ?_⟩
          exact (hG'.desc w v rv hrv).2.1
      · by_cases hxu : x = nm w
        · refine ⟨?_, fun h => absurd hxu h⟩
          intro r hr
          rw [get_refresh_routes, if_pos rfl, hspecN.2.2.1 x hx hxu] at hr
          cases hr
        · -- the generic case: both lookups are folds of `offer` over the neighbours' candidates
          have hlN := hspecN.2.2.2 x hx hxu
          have hvU : ∀ v, nm v = x → v ∉ (get gU w).nbrs ∧ v ≠ w := by
            intro v hv
            refine ⟨?_, ?_⟩
            · intro hm
              exact hx (List.mem_map.mpr ⟨v, hnb ▸ hm, hv⟩)
            · intro e; exact hxu (by rw [← hv, e])
          have hlU : ∀ v, nm v = x →
              lookupRoute (Node.refreshRoutes gU w) v = (cands gU w v).foldl (offer v) none :=
            fun v hv => hspecU.2.2.2 v (hvU v hv).1 (hvU v hv).2
          have hne : ∀ e ∈ (get gN w).nbrs, x ≠ nm e :=
            fun e he h => hx (List.mem_map.mpr ⟨e, he, h.symm⟩)
          have hsim := sim_fold x (fun v => nm v = x) (fun e => candsOf x e (get gN e).routes)
            (fun v e => candsOf v e (get gU e).routes) (get gN w).nbrs none (fun _ => none)
            (by
              intro e _
              rw [candsOf_of_lookup (hJ.keysN e)]
              cases lookupRoute (get gN e).routes x with
              | none => exact Or.inl rfl
              | some r => exact Or.inr ⟨_, rfl⟩)
            (by
              intro e _ v _
              rw [candsOf_of_lookup (hJ.ginv.keys e)]
              cases lookupRoute (get gU e).routes v with
              | none => exact Or.inl rfl
              | some r => exact Or.inr ⟨_, rfl⟩)
            (by
              intro e he j hj
              rw [candsOf_of_lookup (hJ.keysN e)] at hj
              cases hl : lookupRoute (get gN e).routes x with
              | none => rw [hl] at hj; cases hj
              | some r =>
                rw [hl] at hj
                simp only [List.cons.injEq, Prod.mk.injEq, true_and, and_true] at hj
                obtain ⟨v, hv, hlv⟩ := ((hJ.sim e) x).1 r hl
                refine ⟨v, hv, ?_⟩
                rw [candsOf_of_lookup (hJ.ginv.keys e), hlv, ← hj])
            (by
              intro e he v j' hv hj'
              rw [candsOf_of_lookup (hJ.ginv.keys e)] at hj'
              cases hl : lookupRoute (get gU e).routes v with
              | none => rw [hl] at hj'; cases hj'
              | some rv =>
                rw [hl] at hj'
                simp only [List.cons.injEq, Prod.mk.injEq, true_and, and_true] at hj'
                obtain ⟨r, hr, hle⟩ := ((hJ.sim e) x).2 (hne e he) v rv hv hl
                refine ⟨r.steps + 1, ?_, by omega⟩
                rw [candsOf_of_lookup (hJ.keysN e), hr])
            (by simp [SimR])
          obtain ⟨S1, S2⟩ := hsim
          have hcN : (get gN w).nbrs.flatMap (fun e => candsOf x e (get gN e).routes) = cands gN w x := rfl
          have hcU : ∀ v, (get gN w).nbrs.flatMap (fun e => candsOf v e (get gU e).routes) = cands gU w v := by
            intro v; rw [hnb]; rfl
          rw [hcN] at S1 S2
          simp only [hcU] at S1 S2
          refine ⟨?_, ?_⟩
          · intro r hr
            rw [get_refresh_routes, if_pos rfl, hlN] at hr
            obtain ⟨_, v, hv, h2⟩ := S1 r hr
            refine ⟨v, hv, ?_⟩
            rw [Node.get_refresh_routes, if_pos rfl, hlU v hv]
            exact h2
          · intro _ v rv hv hrv
            rw [Node.get_refresh_routes, if_pos rfl, hlU v hv] at hrv
            obtain ⟨rN, h1, h2⟩ := S2 v rv hv hrv
            exact ⟨rN, by rw [get_refresh_routes, if_pos rfl, hlN]; exact h1, h2⟩
    · intro x
      have e1 : (get (refresh nm gN u) w).routes = (get gN w).routes := by
        rw [get_refresh_routes, if_neg hwu]
      have e2 : (get (Node.refresh gU u) w).routes = (get gU w).routes := by
        rw [Node.get_refresh_routes, if_neg hwu]
      unfold C1 C2
      rw [e1, e2]
      exact hJ.sim w x

/-! ### the two traversals in lockstep -/

/-- both traversals ran out of fuel, or both returned with the same visited list and related states -/
def Rel (stN stU : Option (Graph × List Nat)) : Prop :=
  (stN = none ∧ stU = none) ∨
    ∃ gN gU vis, stN = some (gN, vis) ∧ stU = some (gU, vis) ∧ J nm gN gU

/-- one step of the neighbour loop of the named `_update` -/
def updStep (fuel : Nat) (st : Option (Graph × List Nat)) (d : Nat) : Option (Graph × List Nat) :=
  match st with
  | none => none
  | some (g, visited) => if visited.contains d then some (g, visited) else update nm fuel g visited d

theorem update_succ (fuel : Nat) (g : Graph) (vis : List Nat) (u : Nat) :
    update nm (fuel + 1) g vis u =
      (get (refresh nm g u) u).nbrs.foldl (updStep nm fuel) (some (refresh nm g u, u :: vis)) := by
  rfl

theorem update_lockstep : ∀ (fuel : Nat) (gN gU : Graph) (vis : List Nat) (u : Nat), J nm gN gU →
    Rel nm (update nm fuel gN vis u) (Node.update fuel gU vis u) := by
  intro fuel
  induction fuel with
  | zero => intro gN gU vis u _; exact Or.inl ⟨rfl, rfl⟩
  | succ fuel ih =>
    intro gN gU vis u hJ
    rw [update_succ, Node.update_succ]
    have hJ1 := sim_refresh nm hJ u
    rw [hJ1.nbrs u]
    have key : ∀ (l : List Nat) (stN stU : Option (Graph × List Nat)), Rel nm stN stU →
        Rel nm (l.foldl (updStep nm fuel) stN) (l.foldl (Node.updStep fuel) stU) := by
      intro l
      induction l with
      | nil => intro stN stU h; exact h
      | cons d rest ihl =>
        intro stN stU h
        simp only [List.foldl_cons]
        apply ihl
        rcases h with ⟨rfl, rfl⟩ | ⟨g1, g2, v1, rfl, rfl, hJ'⟩
        · exact Or.inl ⟨rfl, rfl⟩
        · by_cases hd : d ∈ v1
          · have e1 : updStep nm fuel (some (g1, v1)) d = some (g1, v1) := by simp [updStep, hd]
            rw [e1, Node.updStep_some_mem hd]
            exact Or.inr ⟨g1, g2, v1, rfl, rfl, hJ'⟩
          · have e1 : updStep nm fuel (some (g1, v1)) d = update nm fuel g1 v1 d := by simp [updStep, hd]
            rw [e1, Node.updStep_some_not_mem hd]
            exact ih g1 g2 v1 d hJ'
    exact key _ _ _ (Or.inr ⟨_, _, _, rfl, rfl, hJ1⟩)

/-- both `link`s fail, or both return related states -/
def RelG (oN oU : Option Graph) : Prop :=
  (oN = none ∧ oU = none) ∨ ∃ gN gU, oN = some gN ∧ oU = some gU ∧ J nm gN gU

theorem j_preLink {gN gU : Graph} (hJ : J nm gN gU) {a b : Nat} (hab : a ≠ b) :
    J nm (Node.preLink gN a b) (Node.preLink gU a b) := by
  refine ⟨?_, ?_, Node.ginv_preLink hJ.ginv hab, ?_⟩
  · intro v
    unfold Node.preLink
    simp only
    rw [Node.get_set, Node.get_set, Node.get_set, Node.get_set, Node.get_set, Node.get_set]
    by_cases hvb : v = b
    · subst hvb
      simp only [if_true]
      by_cases hva : v = a
      · subst hva; simp only [if_true, hJ.nbrs]
      · simp only [hva, if_false, hJ.nbrs]
    · simp only [hvb, if_false]
      by_cases hva : v = a
      · subst hva; simp only [if_true, hJ.nbrs]
      · simp only [hva, if_false, hJ.nbrs]
  · intro v; rw [Node.preLink_routes]; exact hJ.keysN v
  · intro u x
    unfold C1 C2
    rw [Node.preLink_routes, Node.preLink_routes]
    exact hJ.sim u x

theorem link_eq (fuel : Nat) (g : Graph) (a b : Nat) :
    link nm fuel g a b = (update nm fuel (Node.preLink g a b) [] a).map (·.1) := rfl

theorem link_lockstep {gN gU : Graph} (hJ : J nm gN gU) (fuel : Nat) {a b : Nat} (hab : a ≠ b) :
    RelG nm (link nm fuel gN a b) (Node.link fuel gU a b) := by
  rw [link_eq, Node.link_eq]
  rcases update_lockstep nm fuel _ _ [] a (j_preLink nm hJ hab) with ⟨h1, h2⟩ | ⟨g1, g2, v, h1, h2, hJ'⟩
  · rw [h1, h2]; exact Or.inl ⟨rfl, rfl⟩
  · rw [h1, h2]; exact Or.inr ⟨g1, g2, rfl, rfl, hJ'⟩

theorem j_nil : J nm ([] : Graph) ([] : Graph) := by
  refine ⟨fun v => rfl, ?_, Node.ginv_nil, ?_⟩
  · intro u; simp [Node.get, keys]
  · intro u x
    refine ⟨?_, fun _ => ?_⟩
    · intro r hr; simp [Node.get, lookupRoute] at hr
    · intro v rv _ hr; simp [Node.get, lookupRoute] at hr

theorem build_snoc (fuel : Nat) (hist : List (Nat × Nat)) (e : Nat × Nat) :
    build nm fuel (hist ++ [e]) = (build nm fuel hist).bind (fun g => link nm fuel g e.1 e.2) := by
  simp [build, List.foldl_append]

/-- **the named and the plain model proceed in lockstep over every history without self-link** (`rh`: latest first) -/
theorem build_lockstep (fuel : Nat) : ∀ (rh : List (Nat × Nat)), (∀ e ∈ rh, e.1 ≠ e.2) →
    RelG nm (build nm fuel rh.reverse) (Node.build fuel rh.reverse) := by
  intro rh
  induction rh with
  | nil => intro _; exact Or.inr ⟨[], [], rfl, rfl, j_nil nm⟩
  | cons e rest ih =>
    obtain ⟨a, b⟩ := e
    intro hns
    rw [List.reverse_cons, build_snoc, Node.build_snoc]
    rcases ih (fun e he => hns e (List.mem_cons_of_mem _ he)) with ⟨h1, h2⟩ | ⟨g1, g2, h1, h2, hJ⟩
    · rw [h1, h2]; exact Or.inl ⟨rfl, rfl⟩
    · rw [h1, h2]
      exact link_lockstep nm hJ fuel (hns (a, b) List.mem_cons_self)

end BeyondVerif.Reg
