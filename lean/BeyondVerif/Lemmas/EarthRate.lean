import BeyondVerif.Lemmas.Kinematics
import Mathlib.Analysis.Calculus.Deriv.Pow
import Mathlib.Analysis.Calculus.Deriv.Comp
import Mathlib.Analysis.Real.Pi.Bounds

/-!
Helper lemmas for the clause "Earth-rotation coupling" of C02: derivatives of the angle formulas translated from the source
(`gmstDeg80`, `era10`, `precAngles80`: Generated/FrameFormulasR.lean) along a differentiable time argument, and the numeric comparison
of these rates with the constant of `rate()` (`rate80`, `rate10`, also translated).
-/
namespace BeyondVerif.R
open BeyondVerif.NumReal

/-- derivative of a cubic along a differentiable argument -/
theorem cubic_hasDerivAt (c0 c1 c2 c3 : ℝ) (T : ℝ → ℝ) (T' t : ℝ) (hT : HasDerivAt T T' t) :
    HasDerivAt (fun s => c0 + c1 * T s + c2 * T s ^ 2 + c3 * T s ^ 3) ((c1 + 2 * c2 * T t + 3 * c3 * T t ^ 2) * T') t := by
  have h2 : HasDerivAt (fun s => T s ^ 2) (2 * T t * T') t := by
    have e : (fun s => T s ^ 2) = fun s => T s * T s := by funext s; ring
    rw [e]
    exact (hT.mul hT).congr_deriv (by ring)
  have h3 : HasDerivAt (fun s => T s ^ 3) (3 * T t ^ 2 * T') t := by
    have e : (fun s => T s ^ 3) = fun s => T s ^ 2 * T s := by funext s; ring
    rw [e]
    exact (h2.mul hT).congr_deriv (by ring)
  have := (((hasDerivAt_const t c0).add (hT.const_mul c1)).add (h2.const_mul c2)).add (h3.const_mul c3)
  exact this.congr_deriv (by ring)

/-- `d/ds GMST(T(s))` in radians, `T` = UT1 Julian centuries: the polynomial of `iau1980._sideral` (translated) differentiated -/
theorem gmst_hasDerivAt (T : ℝ → ℝ) (T' t : ℝ) (hT : HasDerivAt T T' t) :
    HasDerivAt (fun s => deg2rad (gmstDeg80 (T s)))
      (deg2rad (((876600 * 3600 + 8640184.812866) + 2 * 0.093104 * T t - 3 * 6.2e-6 * T t ^ 2) / 240) * T') t := by
  have h := ((cubic_hasDerivAt 67310.54841 (876600 * 3600 + 8640184.812866) 0.093104 (-6.2e-6) T T' t hT).div_const 240).mul_const
    (Real.pi / 180)
  have hf : (fun s => deg2rad (gmstDeg80 (T s))) =
      fun s => (67310.54841 + (876600 * 3600 + 8640184.812866) * T s + 0.093104 * T s ^ 2 + -6.2e-6 * T s ^ 3) / 240 * (Real.pi / 180) := by
    funext s
    simp only [deg2rad, gmstDeg80, powi, pi]
    rw [show (240.0 : ℝ) = 240 by norm_num]
    ring
  rw [hf]
  refine h.congr_deriv ?_
  simp only [deg2rad, pi]
  ring

/-- `d/ds ERA(jd(s))`, `jd` = UT1 Julian date: the linear formula of `iau2010._sideral` (translated) differentiated -/
theorem era_hasDerivAt (jd : ℝ → ℝ) (jd' t : ℝ) (hj : HasDerivAt jd jd' t) :
    HasDerivAt (fun s => era10 (jd s)) (2 * Real.pi * 1.0027378119113546 * jd') t := by
  have h := (((hj.sub_const 2451545.0).const_mul 1.0027378119113546).const_add 0.779057273264).const_mul (2 * Real.pi)
  have hf : (fun s => era10 (jd s)) = fun s => 2 * Real.pi * (0.779057273264 + 1.0027378119113546 * (jd s - 2451545.0)) := by
    funext s
    simp only [era10, pi]
  rw [hf]
  exact h.congr_deriv (by ring)

/-- the three IAU-1976 precession angles (`iau1980._precesion`, translated), in radians, and their derivatives along a differentiable
TT century -/
theorem precAngles_hasDerivAt (T : ℝ → ℝ) (T' t : ℝ) (hT : HasDerivAt T T' t) :
    HasDerivAt (fun s => deg2rad ((precAngles80 (T s)).getD 0 0))
      (deg2rad ((2306.2181 + 2 * 0.30188 * T t + 3 * 0.017998 * T t ^ 2) / 3600) * T') t ∧
    HasDerivAt (fun s => -(deg2rad ((precAngles80 (T s)).getD 1 0)))
      (-(deg2rad ((2004.3109 - 2 * 0.42665 * T t - 3 * 0.041833 * T t ^ 2) / 3600) * T')) t ∧
    HasDerivAt (fun s => deg2rad ((precAngles80 (T s)).getD 2 0))
      (deg2rad ((2306.2181 + 2 * 1.09468 * T t + 3 * 0.018203 * T t ^ 2) / 3600) * T') t := by
  refine ⟨?_, ?_, ?_⟩
  · have h := ((cubic_hasDerivAt 0 2306.2181 0.30188 0.017998 T T' t hT).div_const 3600).mul_const (Real.pi / 180)
    have hf : (fun s => deg2rad ((precAngles80 (T s)).getD 0 0)) =
        fun s => (0 + 2306.2181 * T s + 0.30188 * T s ^ 2 + 0.017998 * T s ^ 3) / 3600 * (Real.pi / 180) := by
      funext s; simp only [deg2rad, precAngles80, powi, pi, List.getD_cons_zero]; rw [show (3600.0 : ℝ) = 3600 by norm_num]; ring
    rw [hf]
    refine h.congr_deriv ?_
    simp only [deg2rad, pi]; ring
  · have h := (((cubic_hasDerivAt 0 2004.3109 (-0.42665) (-0.041833) T T' t hT).div_const 3600).mul_const (Real.pi / 180)).neg
    have hf : (fun s => -(deg2rad ((precAngles80 (T s)).getD 1 0))) =
        fun s => -((0 + 2004.3109 * T s + -0.42665 * T s ^ 2 + -0.041833 * T s ^ 3) / 3600 * (Real.pi / 180)) := by
      funext s; simp only [deg2rad, precAngles80, powi, pi, List.getD_cons_succ, List.getD_cons_zero]; rw [show (3600.0 : ℝ) = 3600 by norm_num]; ring
    rw [hf]
    refine h.congr_deriv ?_
    simp only [deg2rad, pi]; ring
  · have h := ((cubic_hasDerivAt 0 2306.2181 1.09468 0.018203 T T' t hT).div_const 3600).mul_const (Real.pi / 180)
    have hf : (fun s => deg2rad ((precAngles80 (T s)).getD 2 0)) =
        fun s => (0 + 2306.2181 * T s + 1.09468 * T s ^ 2 + 0.018203 * T s ^ 3) / 3600 * (Real.pi / 180) := by
      funext s; simp only [deg2rad, precAngles80, powi, pi, List.getD_cons_succ, List.getD_cons_zero]; rw [show (3600.0 : ℝ) = 3600 by norm_num]; ring
    rw [hf]
    refine h.congr_deriv ?_
    simp only [deg2rad, pi]; ring

/-! ## numeric comparisons (π to 20 decimals: `Real.pi_gt_d20`, `Real.pi_lt_d20`) -/

/-- the mean sidereal rate in rad/s (of UT1) minus the constant of `rate()`: between 7.0e-12 and 7.2e-12 rad/s on |T| ≤ 0.5 century -/
theorem gmst_rate_bounds (T : ℝ) (hT : |T| ≤ 0.5) :
    7.0e-12 < deg2rad (((876600 * 3600 + 8640184.812866) + 2 * 0.093104 * T - 3 * 6.2e-6 * T ^ 2) / 240) / (36525 * 86400)
        - 7.292115146706979e-5 ∧
    deg2rad (((876600 * 3600 + 8640184.812866) + 2 * 0.093104 * T - 3 * 6.2e-6 * T ^ 2) / 240) / (36525 * 86400)
        - 7.292115146706979e-5 < 7.2e-12 := by
  obtain ⟨h1, h2⟩ := abs_le.mp hT
  have hπ1 := Real.pi_gt_d20
  have hπ2 := Real.pi_lt_d20
  have hT2 : T ^ 2 ≤ 0.25 := by nlinarith
  have hT20 : 0 ≤ T ^ 2 := sq_nonneg T
  set x : ℝ := (876600 * 3600 + 8640184.812866) + 2 * 0.093104 * T - 3 * 6.2e-6 * T ^ 2 with hx
  have hx1 : 3164400184.7 ≤ x := by rw [hx]; nlinarith
  have hx2 : x ≤ 3164400184.92 := by rw [hx]; nlinarith
  have hxπ1 : 3164400184.7 * 3.14159265358979323846 ≤ x * Real.pi := by
    apply mul_le_mul hx1 hπ1.le (by norm_num) (by linarith)
  have hxπ2 : x * Real.pi ≤ 3164400184.92 * 3.14159265358979323847 := by
    apply mul_le_mul hx2 hπ2.le Real.pi_pos.le (by norm_num)
  have e : deg2rad (x / 240) / (36525 * 86400) = x * Real.pi / (240 * 180 * (36525 * 86400)) := by
    simp only [deg2rad, pi]; ring
  rw [e]
  constructor
  · rw [lt_sub_iff_add_lt, lt_div_iff₀ (by norm_num)]
    refine lt_of_lt_of_le ?_ hxπ1
    norm_num
  · rw [sub_lt_iff_lt_add, div_lt_iff₀ (by norm_num)]
    refine lt_of_le_of_lt hxπ2 ?_
    norm_num

/-- the Earth-rotation-angle rate per second of UT1 (2π × 1.0027378119113546 / 86400, the constant found in `iau2010._sideral`) equals
the constant of `rate()` to 1e-19 rad/s -/
theorem era_rate_bound : |2 * Real.pi * 1.0027378119113546 / 86400 - 7.292115146706979e-5| < 1e-19 := by
  have hπ1 := Real.pi_gt_d20
  have hπ2 := Real.pi_lt_d20
  rw [abs_lt]
  constructor
  · rw [lt_sub_iff_add_lt, lt_div_iff₀ (by norm_num)]
    nlinarith
  · rw [sub_lt_iff_lt_add, div_lt_iff₀ (by norm_num)]
    nlinarith

/-- the sum of the absolute rates of the three precession angles, rad per century, on |T| ≤ 0.5 -/
theorem prec_rate_bound (T : ℝ) (hT : |T| ≤ 0.5) :
    |deg2rad ((2306.2181 + 2 * 0.30188 * T + 3 * 0.017998 * T ^ 2) / 3600)|
      + |deg2rad ((2004.3109 - 2 * 0.42665 * T - 3 * 0.041833 * T ^ 2) / 3600)|
      + |deg2rad ((2306.2181 + 2 * 1.09468 * T + 3 * 0.018203 * T ^ 2) / 3600)| < 0.03209 := by
  obtain ⟨h1, h2⟩ := abs_le.mp hT
  have hπ1 := Real.pi_gt_d6
  have hπ2 := Real.pi_lt_d6
  have hT2 : T ^ 2 ≤ 0.25 := by nlinarith
  have hT20 : 0 ≤ T ^ 2 := sq_nonneg T
  have hd : 0 < Real.pi / 180 := by positivity
  have a1 : 0 < 2306.2181 + 2 * 0.30188 * T + 3 * 0.017998 * T ^ 2 := by nlinarith
  have a2 : 0 < 2004.3109 - 2 * 0.42665 * T - 3 * 0.041833 * T ^ 2 := by nlinarith
  have a3 : 0 < 2306.2181 + 2 * 1.09468 * T + 3 * 0.018203 * T ^ 2 := by nlinarith
  simp only [deg2rad, pi]
  rw [abs_of_pos (by positivity), abs_of_pos (by positivity), abs_of_pos (by positivity)]
  have hs : (2306.2181 + 2 * 0.30188 * T + 3 * 0.017998 * T ^ 2) + (2004.3109 - 2 * 0.42665 * T - 3 * 0.041833 * T ^ 2)
      + (2306.2181 + 2 * 1.09468 * T + 3 * 0.018203 * T ^ 2) ≤ 6617.8 := by nlinarith
  have : (2306.2181 + 2 * 0.30188 * T + 3 * 0.017998 * T ^ 2) / 3600 * (Real.pi / 180)
      + (2004.3109 - 2 * 0.42665 * T - 3 * 0.041833 * T ^ 2) / 3600 * (Real.pi / 180)
      + (2306.2181 + 2 * 1.09468 * T + 3 * 0.018203 * T ^ 2) / 3600 * (Real.pi / 180)
      = ((2306.2181 + 2 * 0.30188 * T + 3 * 0.017998 * T ^ 2) + (2004.3109 - 2 * 0.42665 * T - 3 * 0.041833 * T ^ 2)
      + (2306.2181 + 2 * 1.09468 * T + 3 * 0.018203 * T ^ 2)) * (Real.pi / (3600 * 180)) := by ring
  rw [this]
  have hp : Real.pi / (3600 * 180) < 3.141593 / (3600 * 180) := by
    apply div_lt_div_of_pos_right hπ2 (by norm_num)
  have hp0 : 0 < Real.pi / (3600 * 180) := by positivity
  calc _ ≤ 6617.8 * (Real.pi / (3600 * 180)) := mul_le_mul_of_nonneg_right hs hp0.le
    _ < 6617.8 * (3.141593 / (3600 * 180)) := mul_lt_mul_of_pos_left hp (by norm_num)
    _ < 0.03209 := by norm_num

end BeyondVerif.R
