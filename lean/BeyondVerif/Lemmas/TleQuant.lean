import BeyondVerif.Model.TleQuant
import BeyondVerif.Lemmas.TleWrite
/-! Lemmas about rounding to the printed grid (`roundDiv`, `fixQ`, `magUp`, `sig5Q`) for `Props/C12Float.lean`. -/
namespace BeyondVerif.Tle

/-- **half-even rounding is within half a unit**: `|roundDiv n d · d − n| ≤ d / 2` -/
theorem roundDiv_bounds (n : Int) (d : Nat) (hd : 0 < d) :
    2 * (roundDiv n d * d) ≤ 2 * n + d ∧ 2 * n ≤ 2 * (roundDiv n d * d) + d := by
  have hd' : (0 : Int) < d := by omega
  have hn : (d : Int) * (n / d) + n % d = n := Int.mul_ediv_add_emod n d
  have hr0 : 0 ≤ n % (d : Int) := Int.emod_nonneg _ (by omega)
  have hr1 : n % (d : Int) < d := Int.emod_lt_of_pos _ hd'
  have hq : (n / (d : Int)) * d = (d : Int) * (n / d) := Int.mul_comm _ _
  have hq1 : (n / (d : Int) + 1) * d = (d : Int) * (n / d) + d := by rw [Int.add_mul, Int.one_mul, hq]
  unfold roundDiv
  simp only
  split
  · rw [hq]; omega
  · split
    · rw [hq1]; omega
    · split
      · rw [hq]; omega
      · rw [hq1]; omega

theorem roundDiv_le_of_le_mul (n : Int) (d : Nat) (m : Int) (hd : 0 < d) (h : n ≤ m * d) : roundDiv n d ≤ m := by
  obtain ⟨h1, _⟩ := roundDiv_bounds n d hd
  refine Decidable.byContradiction fun hc => ?_
  have hge : m + 1 ≤ roundDiv n d := by omega
  have : (m + 1) * (d : Int) ≤ roundDiv n d * d := Int.mul_le_mul_of_nonneg_right hge (by omega)
  rw [Int.add_mul, Int.one_mul] at this
  omega

theorem roundDiv_ge_of_mul_le (n : Int) (d : Nat) (m : Int) (hd : 0 < d) (h : m * d ≤ n) : m ≤ roundDiv n d := by
  obtain ⟨_, h2⟩ := roundDiv_bounds n d hd
  refine Decidable.byContradiction fun hc => ?_
  have hle : roundDiv n d ≤ m - 1 := by omega
  have : roundDiv n d * (d : Int) ≤ (m - 1) * d := Int.mul_le_mul_of_nonneg_right hle (by omega)
  rw [Int.sub_mul, Int.one_mul] at this
  omega

theorem roundDiv_nonneg (n : Int) (d : Nat) (hd : 0 < d) (h : 0 ≤ n) : 0 ≤ roundDiv n d :=
  roundDiv_ge_of_mul_le n d 0 hd (by omega)

/-- an exact multiple is left alone -/
theorem roundDiv_exact (m : Int) (d : Nat) (hd : 0 < d) : roundDiv (m * d) d = m := by
  have h1 := roundDiv_le_of_le_mul (m * d) d m hd (Int.le_refl _)
  have h2 := roundDiv_ge_of_mul_le (m * d) d m hd (Int.le_refl _)
  omega

/-- natural-number forms -/
theorem rdN_ge (n d m : Nat) (hd : 0 < d) (h : m * d ≤ n) : m ≤ (roundDiv (n : Int) d).toNat := by
  have := roundDiv_ge_of_mul_le (n : Int) d (m : Int) hd (by rw [← Int.natCast_mul]; exact Int.ofNat_le.mpr h)
  omega

theorem rdN_le (n d m : Nat) (hd : 0 < d) (h : n ≤ m * d) : (roundDiv (n : Int) d).toNat ≤ m := by
  have := roundDiv_le_of_le_mul (n : Int) d (m : Int) hd (by rw [← Int.natCast_mul]; exact Int.ofNat_le.mpr h)
  omega

theorem pow405 : (10 : Nat) ^ 405 = 10 ^ 400 * 100000 := by
  have h := Nat.pow_add 10 400 5
  have e : (10 : Nat) ^ 5 = 100000 := by decide
  rw [e] at h; exact h

theorem pow404 : (10 : Nat) ^ 404 = 10 ^ 400 * 10000 := by
  have h := Nat.pow_add 10 400 4
  have e : (10 : Nat) ^ 4 = 10000 := by decide
  rw [e] at h; exact h

/-! ### the decimal exponent -/

theorem magUp_spec : ∀ (f j n d : Nat), (j = 0 ∨ ltPow10 n d (j - 1) = false) → ltPow10 n d (j + f) = true →
    ltPow10 n d (magUp f j n d) = true ∧ (magUp f j n d = 0 ∨ ltPow10 n d (magUp f j n d - 1) = false) ∧
    j ≤ magUp f j n d ∧ magUp f j n d ≤ j + f := by
  intro f
  induction f with
  | zero => intro j n d h0 h1; simp only [magUp]; exact ⟨by simpa using h1, h0, Nat.le_refl _, Nat.le_refl _⟩
  | succ f ih =>
    intro j n d h0 h1
    simp only [magUp]
    by_cases hl : ltPow10 n d j = true
    · rw [if_pos hl]; exact ⟨hl, h0, Nat.le_refl _, by omega⟩
    · rw [if_neg hl]
      have hl' : ltPow10 n d j = false := by simpa using hl
      obtain ⟨a, b, c, e⟩ := ih (j + 1) n d (Or.inr (by simpa using hl')) (by rw [show j + 1 + f = j + (f + 1) by omega]; exact h1)
      exact ⟨a, b, by omega, by omega⟩

/-- the five digits in front of the point: between 10000 and 100000 (the latter when 99999.5… is rounded up) -/
theorem sig5Q_range (n d j : Nat) (hd : 0 < d) (hj : 1 ≤ j) (hlt : ltPow10 n d j = true) (hge : ltPow10 n d (j - 1) = false) :
    10000 ≤ sig5Q n d j ∧ sig5Q n d j ≤ 100000 := by
  simp only [ltPow10, decide_eq_true_eq, decide_eq_false_iff_not, Nat.not_lt] at hlt hge
  have hj1 : 10 ^ j = 10 ^ (j - 1) * 10 := by rw [← Nat.pow_succ]; congr 1; omega
  unfold sig5Q
  by_cases h5 : j ≤ 405
  · rw [if_pos h5]
    -- 10^4 · d ≤ n · 10^(405-j) < 10^5 · d, from the two comparisons scaled by 10^(405-j) and 10^400 cancelled
    have hp : 10 ^ 405 = 10 ^ j * 10 ^ (405 - j) := by rw [← Nat.pow_add]; congr 1; omega
    have hp' := pow405
    have up : n * 10 ^ (405 - j) < 100000 * d := by
      have : n * 10 ^ 400 * 10 ^ (405 - j) < 10 ^ j * d * 10 ^ (405 - j) := Nat.mul_lt_mul_of_pos_right hlt (Nat.pow_pos (by omega))
      have e1 : 10 ^ j * d * 10 ^ (405 - j) = 10 ^ 400 * (100000 * d) := by
        rw [Nat.mul_right_comm, ← hp, hp', Nat.mul_assoc]
      have e2 : n * 10 ^ 400 * 10 ^ (405 - j) = 10 ^ 400 * (n * 10 ^ (405 - j)) := by
        rw [Nat.mul_right_comm, Nat.mul_comm]
      rw [e1, e2] at this
      exact Nat.lt_of_mul_lt_mul_left this
    have lo : 10000 * d ≤ n * 10 ^ (405 - j) := by
      have : 10 ^ (j - 1) * d * 10 ^ (405 - j) ≤ n * 10 ^ 400 * 10 ^ (405 - j) := Nat.mul_le_mul_right _ hge
      have hq : 10 ^ 404 = 10 ^ (j - 1) * 10 ^ (405 - j) := by rw [← Nat.pow_add]; congr 1; omega
      have hq' := pow404
      have e1 : 10 ^ (j - 1) * d * 10 ^ (405 - j) = 10 ^ 400 * (10000 * d) := by
        rw [Nat.mul_right_comm, ← hq, hq', Nat.mul_assoc]
      have e2 : n * 10 ^ 400 * 10 ^ (405 - j) = 10 ^ 400 * (n * 10 ^ (405 - j)) := by
        rw [Nat.mul_right_comm, Nat.mul_comm]
      rw [e1, e2] at this
      exact Nat.le_of_mul_le_mul_left this (Nat.pow_pos (by omega))
    exact ⟨rdN_ge _ d 10000 hd lo, rdN_le _ d 100000 hd (Nat.le_of_lt up)⟩
  · rw [if_neg h5]
    have h5' : 405 < j := by omega
    have hp : 10 ^ j = 10 ^ 400 * (100000 * 10 ^ (j - 405)) := by
      have e405 : 405 + (j - 405) = j := by omega
      have : 10 ^ j = 10 ^ 405 * 10 ^ (j - 405) := by rw [← Nat.pow_add 10 405 (j - 405), e405]
      rw [this, pow405, Nat.mul_assoc]
    have hq : 10 ^ (j - 1) = 10 ^ 400 * (10000 * 10 ^ (j - 405)) := by
      have e404 : 404 + (j - 405) = j - 1 := by omega
      have : 10 ^ (j - 1) = 10 ^ 404 * 10 ^ (j - 405) := by rw [← Nat.pow_add 10 404 (j - 405), e404]
      rw [this, pow404, Nat.mul_assoc]
    have up : n < 100000 * (d * 10 ^ (j - 405)) := by
      have e1 : 10 ^ j * d = 10 ^ 400 * (100000 * (d * 10 ^ (j - 405))) := by
        rw [hp, Nat.mul_assoc, Nat.mul_assoc, Nat.mul_comm (10 ^ (j - 405)) d]
      rw [e1, Nat.mul_comm n] at hlt
      exact Nat.lt_of_mul_lt_mul_left hlt
    have lo : 10000 * (d * 10 ^ (j - 405)) ≤ n := by
      have e1 : 10 ^ (j - 1) * d = 10 ^ 400 * (10000 * (d * 10 ^ (j - 405))) := by
        rw [hq, Nat.mul_assoc, Nat.mul_assoc, Nat.mul_comm (10 ^ (j - 405)) d]
      rw [e1, Nat.mul_comm n] at hge
      exact Nat.le_of_mul_le_mul_left hge (Nat.pow_pos (by omega))
    have hdd : 0 < d * 10 ^ (j - 405) := Nat.mul_pos hd (Nat.pow_pos (by omega))
    exact ⟨rdN_ge n _ 10000 hdd lo, rdN_le n _ 100000 hdd (Nat.le_of_lt up)⟩

/-- the rounded quotient of two naturals is within half a unit, in natural numbers -/
theorem rdN_bounds (N D : Nat) (hD : 0 < D) :
    2 * ((roundDiv (N : Int) D).toNat * D) ≤ 2 * N + D ∧ 2 * N ≤ 2 * ((roundDiv (N : Int) D).toNat * D) + D := by
  obtain ⟨b1, b2⟩ := roundDiv_bounds (N : Int) D hD
  have hn := roundDiv_nonneg (N : Int) D hD (by omega)
  have key : (((roundDiv (N : Int) D).toNat * D : Nat) : Int) = roundDiv (N : Int) D * D := by
    rw [Int.natCast_mul, Int.toNat_of_nonneg hn]
  generalize (roundDiv (N : Int) D).toNat * D = K at *
  generalize roundDiv (N : Int) D * (D : Int) = L at *
  omega

/-- the five digits are the integer nearest to `n/d · 10^(405-j)` -/
theorem sig5Q_close (n d j : Nat) (hd : 0 < d) :
    (j ≤ 405 → 2 * (sig5Q n d j * d) ≤ 2 * (n * 10 ^ (405 - j)) + d ∧ 2 * (n * 10 ^ (405 - j)) ≤ 2 * (sig5Q n d j * d) + d) ∧
    (405 < j → 2 * (sig5Q n d j * (d * 10 ^ (j - 405))) ≤ 2 * n + d * 10 ^ (j - 405) ∧
      2 * n ≤ 2 * (sig5Q n d j * (d * 10 ^ (j - 405))) + d * 10 ^ (j - 405)) := by
  constructor
  · intro h
    unfold sig5Q; rw [if_pos h]
    exact rdN_bounds _ d hd
  · intro h
    unfold sig5Q; rw [if_neg (by omega)]
    exact rdN_bounds n _ (Nat.mul_pos hd (Nat.pow_pos (by omega)))

/-- the decimal exponent of every value between 1e-400 and 1e400 is found -/
theorem magQ_spec (n d : Nat) (hlo : ltPow10 n d 0 = false) (hhi : ltPow10 n d 800 = true) :
    1 ≤ magQ n d ∧ magQ n d ≤ 800 ∧ ltPow10 n d (magQ n d) = true ∧ ltPow10 n d (magQ n d - 1) = false := by
  obtain ⟨a, b, _, e⟩ := magUp_spec 800 0 n d (Or.inl rfl) (by simpa using hhi)
  have h1 : 1 ≤ magQ n d := by
    refine Decidable.byContradiction fun hc => ?_
    have : magQ n d = 0 := by omega
    unfold magQ at this
    rw [this] at a
    rw [hlo] at a; cases a
  refine ⟨h1, by unfold magQ; omega, a, ?_⟩
  rcases b with b | b
  · unfold magQ at h1; omega
  · exact b

end BeyondVerif.Tle
