import BeyondVerif.Lemmas.NodeForestBuild
import Mathlib.Data.List.Perm.Subperm

/-!
Further consequences of exactness on forests:
* length bound for simple chains (`fuel' ≥ n - 1` suffices for `path`);
* uniqueness of the simple chain between two nodes of a forest (`forest_chain_unique`);
* a fresh leaf does not change `pathSpec` between old nodes (`pathSpec_fresh`).
-/
set_option linter.unusedSimpArgs false
set_option linter.unusedVariables false
namespace BeyondVerif.Node

theorem nodup_length_le {l : List Nat} {n : Nat} (hd : l.Nodup) (hb : ∀ x ∈ l, x < n) : l.length ≤ n := by
  have hsub : l ⊆ List.range n := fun x hx => List.mem_range.mpr (hb x hx)
  simpa using (hd.subperm hsub).length_le

theorem chain_endpoints {F : List (Nat × Nat)} : ∀ (l : List Nat) (u : Nat),
    (u :: l).IsChain (Lk F) → ∀ x ∈ l, ∃ y, Lk F y x := by
  intro l
  induction l with
  | nil => intro u _ x hx; simp at hx
  | cons v rest ih =>
    intro u hc x hx
    rw [List.isChain_cons_cons] at hc
    rcases List.mem_cons.mp hx with hx | hx
    · subst hx; exact ⟨u, hc.1⟩
    · exact ih v hc.2 x hx

theorem lk_lt {F : List (Nat × Nat)} {n : Nat} (hn : ∀ e ∈ F, e.1 < n ∧ e.2 < n) {y x : Nat}
    (h : Lk F y x) : x < n := by
  rcases h with h | h
  · exact (hn _ h).2
  · exact (hn _ h).1

/-- in a forest on nodes `< n` the chain between two nodes has at most `n - 1` hops -/
theorem dist_lt {F : List (Nat × Nat)} (hf : Forest F) {n : Nat} (hn : ∀ e ∈ F, e.1 < n ∧ e.2 < n)
    {s t : Nat} (hs : s < n) (hc : Conn F s t) : dist F s t + 1 ≤ n := by
  obtain ⟨_, _, p3, p4, p5⟩ := pathChain_props hf hc
  rw [← p5]
  apply nodup_length_le p4
  intro x hx
  rcases List.mem_cons.mp hx with hx | hx
  · rw [hx]; exact hs
  · obtain ⟨y, hy⟩ := chain_endpoints _ s p3 x hx
    exact lk_lt hn hy

/-! ### uniqueness of simple chains in a forest -/

theorem conn_of_chain {F : List (Nat × Nat)} : ∀ (l : List Nat) (u t : Nat),
    (u :: l).IsChain (Lk F) → (u :: l).getLast? = some t → Conn F u t := by
  intro l
  induction l with
  | nil => intro u t _ hl; simp at hl; subst hl; exact Conn.refl _ _
  | cons v rest ih =>
    intro u t hc hl
    rw [List.isChain_cons_cons] at hc
    rw [List.getLast?_cons_cons] at hl
    exact hc.1.conn.trans (ih v t hc.2 hl)

/-- a simple chain that leaves `y` away from `t` (its predecessor `x` is `y`'s first hop) never reaches `t` -/
theorem chain_escape {F : List (Nat × Nat)} (hf : Forest F) (t : Nat) : ∀ (l : List Nat) (x y : Nat),
    (x :: y :: l).IsChain (Lk F) → (x :: y :: l).Nodup → Conn F y t → y ≠ t → hop F y t = x →
    ∀ z ∈ y :: l, z ≠ t := by
  intro l
  induction l with
  | nil => intro x y _ _ _ hyt _ z hz; simp at hz; subst hz; exact hyt
  | cons w rest ih =>
    intro x y hc hnd hcy hyt hh z hz
    rcases List.mem_cons.mp hz with hz | hz
    · subst hz; exact hyt
    · rw [List.isChain_cons_cons, List.isChain_cons_cons] at hc
      have hwx : w ≠ x := by
        intro e
        rw [List.nodup_cons] at hnd
        apply hnd.1; rw [e]; simp
      have hwh : w ≠ hop F y t := by rw [hh]; exact hwx
      obtain ⟨e1, e2⟩ := tree_other hf hcy hyt hc.2.1 hwh
      have hwt : w ≠ t := by
        intro e; rw [e, dist_self] at e2; omega
      have hcw : Conn F w t := hc.2.1.conn.symm.trans hcy
      exact ih y w (List.isChain_cons_cons.mpr hc.2) (List.nodup_cons.mp hnd).2 hcw hwt e1 z hz

/-- **in a forest the simple chain between two nodes is unique** (it is the one `path` returns) -/
theorem forest_chain_unique {F : List (Nat × Nat)} (hf : Forest F) (t : Nat) : ∀ (l : List Nat) (s : Nat),
    (s :: l).IsChain (Lk F) → (s :: l).Nodup → (s :: l).getLast? = some t →
    s :: l = s :: chainTo F t (dist F s t) s := by
  intro l
  induction l with
  | nil =>
    intro s _ _ hl
    simp at hl; subst hl
    rw [dist_self]; rfl
  | cons q rest ih =>
    intro s hc hnd hl
    have hconn : Conn F s t := conn_of_chain _ s t hc hl
    rw [List.isChain_cons_cons] at hc
    rw [List.getLast?_cons_cons] at hl
    have htm : t ∈ q :: rest := List.mem_of_getLast? hl
    have hst : s ≠ t := by
      intro e; rw [List.nodup_cons] at hnd; exact hnd.1 (e ▸ htm)
    have hq : q = hop F s t := by
      by_contra hne
      obtain ⟨e1, e2⟩ := tree_other hf hconn hst hc.1 hne
      have hqt : q ≠ t := by
        intro e; rw [e, dist_self] at e2; omega
      have hcq : Conn F q t := hc.1.conn.symm.trans hconn
      exact chain_escape hf t rest s q (List.isChain_cons_cons.mpr hc) hnd hcq hqt e1 t htm rfl
    have hstep := (tree_step hf hconn hst).2
    have := ih q hc.2 (List.nodup_cons.mp hnd).2 hl
    rw [this, hstep, hq]
    rfl

/-! ### a fresh leaf -/

/-- nodes connected to something else are endpoints of links -/
theorem conn_ne_endpoints {F : List (Nat × Nat)} {f : Nat} (hfresh : ∀ e ∈ F, e.1 ≠ f ∧ e.2 ≠ f)
    {u v : Nat} (hc : Conn F u v) (hne : u ≠ v) : u ≠ f ∧ v ≠ f := by
  have hl : ∀ {x y : Nat}, Lk F x y → x ≠ f ∧ y ≠ f := by
    intro x y h
    rcases h with h | h
    · exact hfresh _ h
    · exact ⟨(hfresh _ h).2, (hfresh _ h).1⟩
  induction hc with
  | refl => exact absurd rfl hne
  | @tail m v hum hmv ih =>
    refine ⟨?_, (hl hmv).2⟩
    by_cases e : u = m
    · rw [e]; exact (hl hmv).1
    · exact (ih e).1

theorem conn_fresh {F : List (Nat × Nat)} {f : Nat} (hfresh : ∀ e ∈ F, e.1 ≠ f ∧ e.2 ≠ f)
    {u : Nat} : (Conn F u f → u = f) ∧ (Conn F f u → f = u) := by
  constructor
  · intro hc; by_contra hne; exact (conn_ne_endpoints hfresh hc hne).2 rfl
  · intro hc; by_contra hne; exact (conn_ne_endpoints hfresh hc hne).1 rfl

theorem chainTo_old {a b : Nat} {F : List (Nat × Nat)} (hf : Forest F) (t : Nat) : ∀ (k u : Nat),
    Conn F u t → dist F u t = k → chainTo ((a, b) :: F) t k u = chainTo F t k u := by
  intro k
  induction k with
  | zero => intro u _ _; rfl
  | succ k ih =>
    intro u hc hd
    have hne : u ≠ t := by
      intro e; subst e; rw [dist_self] at hd; omega
    have hstep := (tree_step hf hc hne).2
    simp only [chainTo]
    rw [hop_old hc, ih _ (tree_hop_conn hf hc hne) (by omega)]

/-- linking a fresh node `f` (one endpoint of the new link `a–b`) changes no route between old nodes -/
theorem pathSpec_fresh {a b f : Nat} {F : List (Nat × Nat)} (hf : Forest F)
    (hfresh : ∀ e ∈ F, e.1 ≠ f ∧ e.2 ≠ f) (hfab : f = a ∨ f = b) (fuel s t : Nat)
    (hs : s ≠ f) (ht : t ≠ f) : pathSpec ((a, b) :: F) fuel s t = pathSpec F fuel s t := by
  have hiff : Conn ((a, b) :: F) s t ↔ Conn F s t := by
    constructor
    · intro hc
      rcases conn_cons.mp hc with h0 | ⟨h1, h2⟩ | ⟨h1, h2⟩
      · exact h0
      · rcases hfab with e | e
        · subst e; exact absurd ((conn_fresh hfresh).1 h1) hs
        · subst e; exact absurd ((conn_fresh hfresh).2 h2).symm ht
      · rcases hfab with e | e
        · subst e; exact absurd ((conn_fresh hfresh).2 h2).symm ht
        · subst e; exact absurd ((conn_fresh hfresh).1 h1) hs
    · exact Conn.mono
  unfold pathSpec
  by_cases hts : t = s
  · rw [if_pos hts, if_pos hts]
  · rw [if_neg hts, if_neg hts]
    by_cases hc : Conn F s t
    · rw [if_pos hc, if_pos (hiff.mpr hc), dist_old hc, chainTo_old hf t _ s hc rfl]
    · rw [if_neg hc, if_neg (fun h => hc (hiff.mp h))]

theorem forest_fresh {a b f : Nat} {F : List (Nat × Nat)} (hf : Forest F)
    (hfresh : ∀ e ∈ F, e.1 ≠ f ∧ e.2 ≠ f) (hfab : f = a ∨ f = b) (hab : a ≠ b) :
    Forest ((a, b) :: F) := by
  refine ⟨?_, hf⟩
  intro hc
  simp only at hc
  rcases hfab with e | e
  · subst e; exact hab ((conn_fresh hfresh).2 hc)
  · subst e; exact hab ((conn_fresh hfresh).1 hc)

end BeyondVerif.Node
