import BeyondVerif.Lemmas.HeapCopy
/-! Full-depth separation of copies: every address stored in a cell created by `copy()` is new or is a maneuver object. -/
namespace BeyondVerif.Heap

/-- an address that a copy may hold: a new cell, or a maneuver object of the old heap -/
def Good (h0 : Heap) (x : Nat) : Prop := h0.length ≤ x ∨ ∃ t, h0[x]? = some (.man t)

/-- well-formed heap: no dangling address, and every `maneuvers` entry is a list of maneuver objects -/
structure WfM (h0 : Heap) : Prop where
  closed : ∀ (a : Nat) (c : Cell), h0[a]? = some c → ∀ x ∈ refsOf c, x < h0.length
  mans : ∀ (d : Nat) (items : Items) (l : Nat), h0[d]? = some (Cell.dict items) → ("maneuvers", Ref.addr l) ∈ items →
      ∃ ms, h0[l]? = some (Cell.list ms) ∧ ∀ x : Nat, Ref.addr x ∈ ms → ∃ t, h0[x]? = some (Cell.man t)

structure Sep (h0 h : Heap) : Prop where
  pres : Pres h0 h
  closed : ClosedP (Good h0) h0 h

theorem Sep.refl (h : Heap) : Sep h h := ⟨Pres.refl h, ClosedP.refl _ h⟩

theorem Sep.al {h0 h : Heap} (s : Sep h0 h) (c : Cell) (hc : ∀ x ∈ refsOf c, Good h0 x) : Sep h0 (alloc h c).1 :=
  ⟨s.pres.alloc c, s.closed.alloc c hc⟩

theorem Sep.wr {h0 h : Heap} (s : Sep h0 h) {a : Nat} (ha : h0.length ≤ a) (c : Cell) (hc : ∀ x ∈ refsOf c, Good h0 x) :
    Sep h0 (write h a c) :=
  ⟨s.pres.wr ha c, s.closed.wr a c hc⟩

theorem Good.new {h0 : Heap} {x : Nat} (hx : h0.length ≤ x) : Good h0 x := Or.inl hx

/-- the `(key, value)` pair is an entry of a dict of the old heap -/
def Src (h0 : Heap) (k : String) (r : Ref) : Prop := ∃ (d : Nat) (items : Items), h0[d]? = some (Cell.dict items) ∧ (k, r) ∈ items

structure CpSep (h0 : Heap) (cp : Heap → String → Ref → Res Ref) : Prop where
  sep : ∀ h k r, Sep h0 h → Src h0 k r → Sep h0 (cp h k r).1
  good : ∀ h k r r' x, Sep h0 h → Src h0 k r → (cp h k r).2 = .ok r' → r' = .addr x → Good h0 x

theorem copyItems_sep {h0 cp} (hcp : CpSep h0 cp) (items : Items) (h : Heap) (s : Sep h0 h)
    (hsrc : ∀ kv ∈ items, Src h0 kv.1 kv.2) :
    Sep h0 (copyItems cp h items).1 ∧
    ∀ items', (copyItems cp h items).2 = .ok items' → ∀ k x, (k, Ref.addr x) ∈ items' → Good h0 x := by
  induction items generalizing h with
  | nil => simp only [copyItems]; exact ⟨s, fun items' h1 k x hm => by simp at h1; subst h1; simp at hm⟩
  | cons kv rest ih =>
    obtain ⟨k0, v⟩ := kv
    have src0 : Src h0 k0 v := hsrc (k0, v) List.mem_cons_self
    have s1 := hcp.sep h k0 v s src0
    have g1 := hcp.good h k0 v
    unfold copyItems
    split
    · exact ih h s (fun kv hkv => hsrc kv (List.mem_cons_of_mem _ hkv))
    split
    · rename_i h1 e he; rw [he] at s1; exact ⟨s1, fun items' h2 => by simp at h2⟩
    · rename_i h1 v' he
      rw [he] at s1 g1
      have h2 := ih h1 s1 (fun kv hkv => hsrc kv (List.mem_cons_of_mem _ hkv))
      split
      · rename_i h2' e he2; rw [he2] at h2; exact ⟨h2.1, fun items' h3 => by simp at h3⟩
      · rename_i h2' rest' he2
        rw [he2] at h2
        refine ⟨h2.1, fun items' h3 k x hm => ?_⟩
        simp at h3; subst h3
        rcases List.mem_cons.mp hm with hhead | htail
        · have hv : v' = Ref.addr x := by injection hhead with _ h4; exact h4.symm ▸ rfl
          exact g1 v' x s src0 rfl hv
        · exact h2.2 rest' rfl k x htail

theorem getSV_cells (h : Heap) (a : Nat) (s : SV) (hg : getSV h a = some s) :
    h[a]? = some (.sv s.orbit s.buf s.data) ∧ h[s.buf]? = some (.buf s.val) ∧ h[s.data]? = some (.dict s.items) := by
  unfold getSV at hg
  split at hg
  · rename_i o b d hc
    split at hg
    · rename_i v items hb hd
      split at hg
      · simp at hg; subst hg; exact ⟨hc, hb, hd⟩
      · simp at hg
    · simp at hg
  · simp at hg

/-- the `_data` of an old state vector is an old dict -/
theorem getSV_src {h0 h : Heap} (wf : WfM h0) (p : Pres h0 h) (a : Nat) (ha : a < h0.length) (s : SV)
    (hg : getSV h a = some s) : h0[s.data]? = some (.dict s.items) ∧ s.data < h0.length := by
  obtain ⟨hc, _, hd⟩ := getSV_cells h a s hg
  have hc0 : h0[a]? = some (.sv s.orbit s.buf s.data) := by rw [← p.2 a ha]; exact hc
  have hlt : s.data < h0.length := wf.closed a _ hc0 s.data (by simp [refsOf])
  exact ⟨by rw [← p.2 _ hlt]; exact hd, hlt⟩

theorem copySVWith_sep {h0 cp} (wf : WfM h0) (hcp : CpSep h0 cp) (h : Heap) (s : Sep h0 h) (a : Nat) (ha : a < h0.length) :
    Sep h0 (copySVWith cp h a).1 := by
  unfold copySVWith
  split
  · exact s
  · rename_i sv hs
    obtain ⟨hd0, _⟩ := getSV_src wf s.pres a ha sv hs
    have hi := copyItems_sep hcp sv.items h s (fun kv hkv => ⟨sv.data, sv.items, hd0, hkv⟩)
    split
    · rename_i h1 e he; rw [he] at hi; exact hi.1
    · rename_i h1 items' he
      rw [he] at hi
      have hlen : h0.length ≤ h1.length := hi.1.pres.1
      refine ((hi.1.al (.buf sv.val) (by simp [refsOf])).al (.dict items') ?_).al _ ?_
      · intro x hx
        obtain ⟨k, hk⟩ := mem_refs_dict.mp hx
        exact hi.2 items' rfl k x hk
      · intro x hx
        simp [refsOf, alloc] at hx
        rcases hx with rfl | rfl
        · exact Good.new hlen
        · exact Good.new (by omega)

theorem refs_insert {k : String} {v : Ref} {items : Items} {x : Nat} (hx : x ∈ refsOf (.dict (insert k v items))) :
    v = .addr x ∨ x ∈ refsOf (.dict items) := by
  obtain ⟨k', hk⟩ := mem_refs_dict.mp hx
  induction items with
  | nil => simp [insert] at hk; left; exact hk.2.symm
  | cons kv rest ih =>
    obtain ⟨k2, v2⟩ := kv
    by_cases h : k2 = k
    · simp [insert, h] at hk
      rcases hk with hk | hk
      · left; exact hk.2.symm
      · right; exact mem_refs_dict.mpr ⟨k', List.mem_cons_of_mem _ hk⟩
    · simp [insert, h] at hk
      rcases hk with hk | hk
      · right; exact mem_refs_dict.mpr ⟨k', by rw [hk.1, hk.2]; exact List.mem_cons_self⟩
      · have hx' : x ∈ refsOf (.dict (insert k v rest)) := mem_refs_dict.mpr ⟨k', hk⟩
        rcases ih hx' hk with h1 | h1
        · left; exact h1
        · right
          obtain ⟨k3, hk3⟩ := mem_refs_dict.mp h1
          exact mem_refs_dict.mpr ⟨k3, List.mem_cons_of_mem _ hk3⟩

theorem refs_erase {k : String} {items : Items} {x : Nat} (hx : x ∈ refsOf (.dict (erase k items))) :
    x ∈ refsOf (.dict items) := by
  obtain ⟨k', hk⟩ := mem_refs_dict.mp hx
  induction items with
  | nil => simp [erase] at hk
  | cons kv rest ih =>
    obtain ⟨k2, v2⟩ := kv
    by_cases h : k2 = k
    · simp [erase, h] at hk
      exact mem_refs_dict.mpr ⟨k', List.mem_cons_of_mem _ hk⟩
    · simp [erase, h] at hk
      rcases hk with hk | hk
      · exact mem_refs_dict.mpr ⟨k', by rw [hk.1, hk.2]; exact List.mem_cons_self⟩
      · obtain ⟨k3, hk3⟩ := mem_refs_dict.mp (ih (mem_refs_dict.mpr ⟨k', hk⟩) hk)
        exact mem_refs_dict.mpr ⟨k3, List.mem_cons_of_mem _ hk3⟩


/-- `deepcopy(v)` under the separation invariant -/
theorem deepVal_sep {h0 : Heap} (h : Heap) (s : Sep h0 h) (r : Ref) :
    Sep h0 (deepVal h r).1 ∧ ∀ r' x, (deepVal h r).2 = .ok r' → r' = .addr x → h0.length ≤ x := by
  have inv0 : DeepInv (Good h0) h0 { h := h } := ⟨s.pres, s.closed, by simp⟩
  have hd := deepRef_ok (P := Good h0) (h0 := h0) (fun _ hx => Good.new hx) deepFuel { h := h } r inv0
  unfold deepVal
  split
  · rename_i st r' he
    rw [he] at hd
    exact ⟨⟨hd.1.pres, hd.1.closed⟩, fun r'' x h1 h2 => by simp at h1; subst h1; subst h2; exact hd.2 x rfl⟩
  · rename_i st he
    rw [he] at hd
    exact ⟨⟨hd.1.pres, hd.1.closed⟩, fun r'' x h1 _ => by simp at h1⟩

theorem isContainer_list (h : Heap) (a : Nat) (items : List Ref) (hc : h[a]? = some (.list items)) :
    isContainer h (.addr a) = true := by simp [isContainer, hc]

theorem isContainer_dict (h : Heap) (a : Nat) (items : Items) (hc : h[a]? = some (.dict items)) :
    isContainer h (.addr a) = true := by simp [isContainer, hc]

theorem copyRef_sep_step {h0 : Heap} (wf : WfM h0) (fuel : Nat) (ih : CpSep h0 (copyRef fuel))
    (h : Heap) (k : String) (r : Ref) (s : Sep h0 h) (src : Src h0 k r) :
    Sep h0 (copyRef (fuel + 1) h k r).1 ∧
    ∀ r' x, (copyRef (fuel + 1) h k r).2 = .ok r' → r' = .addr x → Good h0 x := by
  unfold copyRef
  split
  · have hd := deepVal_sep h s r
    exact ⟨hd.1, fun r' x h1 h2 => Good.new (hd.2 r' x h1 h2)⟩
  · rename_i hcond
    split
    · rename_i a
      obtain ⟨d, items0, hd0, hmem⟩ := src
      have ha : a < h0.length := wf.closed d _ hd0 a (mem_refs_dict.mpr ⟨k, hmem⟩)
      have hold : h[a]? = h0[a]? := s.pres.2 a ha
      have hlen : h0.length ≤ h.length := s.pres.1
      split
      · -- a list that is not deep-copied: the maneuver list
        rename_i items hc
        have hk : k = "maneuvers" := by
          by_cases hk : k = "maneuvers"
          · exact hk
          · exact absurd ⟨hk, isContainer_list h a items hc⟩ hcond
        subst hk
        obtain ⟨ms, hms, hall⟩ := wf.mans d items0 a hd0 hmem
        have : items = ms := by rw [hold, hms] at hc; simp at hc; exact hc.symm
        subst this
        refine ⟨s.al _ (fun x hx => Or.inr (hall x (mem_refs_list.mp hx))), fun r' x h1 h2 => ?_⟩
        simp [alloc] at h1; subst h1; injection h2 with h2; exact Good.new (by omega)
      · rename_i items hc
        have hk : k = "maneuvers" := by
          by_cases hk : k = "maneuvers"
          · exact hk
          · exact absurd ⟨hk, isContainer_dict h a items hc⟩ hcond
        subst hk
        obtain ⟨ms, hms, _⟩ := wf.mans d items0 a hd0 hmem
        rw [hold, hms] at hc; simp at hc
      · refine ⟨s.al _ (by simp [refsOf]), fun r' x h1 h2 => ?_⟩
        simp [alloc] at h1; subst h1; injection h2 with h2; exact Good.new (by omega)
      · refine ⟨s.al _ (by simp [refsOf]), fun r' x h1 h2 => ?_⟩
        simp [alloc] at h1; subst h1; injection h2 with h2; exact Good.new (by omega)
      · rename_i t hc
        refine ⟨s, fun r' x h1 h2 => ?_⟩
        simp at h1; subst h1; injection h2 with h2; subst h2
        exact Or.inr ⟨t, by rw [← hold]; exact hc⟩
      · rename_i cb cfr orb ofr hc
        have horb : orb < h0.length := wf.closed a _ (by rw [← hold]; exact hc) orb (by simp [refsOf])
        split
        · rename_i o cv ho hcb
          have s1 := copySVWith_sep wf ih h s orb horb
          split
          · rename_i h1 e he; rw [he] at s1; exact ⟨s1, fun r' x h1 _ => by simp at h1⟩
          · rename_i h1 o' he
            rw [he] at s1
            split
            · exact ⟨s1, fun r' x h1 _ => by simp at h1⟩
            · rename_i s' hs'
              obtain ⟨hb, hdd, hn, _, _⟩ := copySVWith_getSV (copyRef_ok fuel) h h1 orb o' s' he hs'
              obtain ⟨_, _, hdcell⟩ := getSV_cells h1 o' s' hs'
              have hgood : ∀ x ∈ refsOf (.dict s'.items), Good h0 x :=
                s1.closed s'.data _ (by omega) hdcell
              have s2 := s1.wr (a := s'.buf) (by omega) (.buf (mkConv s'.form "cartesian" s'.val)) (by simp [refsOf])
              have s3 := s2.wr (a := s'.data) (by omega)
                (.dict (insert "cov" .none (insert "form" (.form "cartesian") s'.items))) (by
                  intro x hx
                  rcases refs_insert hx with h1 | h1
                  · simp at h1
                  · rcases refs_insert h1 with h2 | h2
                    · simp at h2
                    · exact hgood x h2)
              have hl1 : h0.length ≤ h1.length := s1.pres.1
              have s4 := s3.al (.buf cv) (by simp [refsOf])
              refine ⟨s4.al _ (by
                intro x hx
                simp [refsOf, alloc, write] at hx
                rcases hx with rfl | rfl
                · exact Good.new (by omega)
                · exact Good.new (by omega)), fun r' x h1' h2 => ?_⟩
              simp [alloc, write] at h1'; subst h1'; injection h2 with h2
              exact Good.new (by omega)
        · exact ⟨s, fun r' x h1 _ => by simp at h1⟩
      · have s1 := copySVWith_sep wf ih h s a ha
        split
        · rename_i h1 e he; rw [he] at s1; exact ⟨s1, fun r' x h1 _ => by simp at h1⟩
        · rename_i h1 n he
          rw [he] at s1
          refine ⟨s1, fun r' x h1' h2 => ?_⟩
          simp at h1'; subst h1'; injection h2 with h2; subst h2
          obtain ⟨_, _, _, _, _, hl, hn, _⟩ := copySVWith_spec (copyRef_ok fuel) h h1 a n he
          exact Good.new (by omega)
      · exact ⟨s, fun r' x h1 _ => by simp at h1⟩
    · rename_i hna
      exact ⟨s, fun r' x h1 h2 => by simp at h1; subst h1; subst h2; exact absurd rfl (hna x)⟩

theorem copyRef_sep {h0 : Heap} (wf : WfM h0) : ∀ fuel, CpSep h0 (copyRef fuel)
  | 0 => ⟨fun h _ _ s _ => by unfold copyRef; exact s, fun h k r r' x _ _ hr _ => by unfold copyRef at hr; simp at hr⟩
  | fuel + 1 =>
    ⟨fun h k r s src => (copyRef_sep_step wf fuel (copyRef_sep wf fuel) h k r s src).1,
     fun h k r r' x s src => (copyRef_sep_step wf fuel (copyRef_sep wf fuel) h k r s src).2 r' x⟩

end BeyondVerif.Heap
