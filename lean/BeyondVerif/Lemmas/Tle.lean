import BeyondVerif.Model.Tle
/-! Helper lemmas about the TLE text model (digits, strings, checksum sums). No Mathlib. -/
namespace BeyondVerif.Tle

/-! ### digits -/

theorem natStrAux_fuel : ∀ (f f' n : Nat), n ≤ f → n ≤ f' → natStrAux f n = natStrAux f' n := by
  intro f
  induction f with
  | zero =>
    intro f' n h _
    have : n = 0 := by omega
    subst this
    cases f' <;> simp [natStrAux]
  | succ f ih =>
    intro f' n h h'
    cases f' with
    | zero =>
      have : n = 0 := by omega
      subst this
      simp [natStrAux]
    | succ f' =>
      simp only [natStrAux]
      split
      · rfl
      · rw [ih f' (n / 10) (by omega) (by omega)]

/-- the defining equation of `natStr` -/
theorem natStr_eq (n : Nat) : natStr n = if n < 10 then [digitChar n] else natStr (n / 10) ++ [digitChar (n % 10)] := by
  unfold natStr
  cases n with
  | zero => simp [natStrAux]
  | succ n =>
    simp only [natStrAux]
    split
    · rfl
    · rw [natStrAux_fuel n ((n + 1) / 10) ((n + 1) / 10) (by omega) (by omega)]

theorem natStr_lt10 {n : Nat} (h : n < 10) : natStr n = [digitChar n] := by
  rw [natStr_eq]; simp [h]

theorem natStr_length_le : ∀ (k n : Nat), 0 < k → n < 10 ^ k → (natStr n).length ≤ k := by
  intro k
  induction k with
  | zero => intro n h; omega
  | succ k ih =>
    intro n _ hn
    rw [natStr_eq]
    split
    · simp
    · next h10 =>
      have hk : 0 < k := by
        cases k with
        | zero => simp at hn; omega
        | succ k => omega
      have : n / 10 < 10 ^ k := by
        rw [Nat.pow_succ] at hn
        omega
      have := ih (n / 10) hk this
      simp
      omega

theorem natStr_length_pos (n : Nat) : 0 < (natStr n).length := by
  rw [natStr_eq]; split <;> simp

theorem fixedDigits_length (k n : Nat) : (fixedDigits k n).length = k := by
  induction k generalizing n with
  | zero => rfl
  | succ k ih => simp [fixedDigits, ih]

theorem isDigit_iff (c : Char) : isDigit c = true ↔ 48 ≤ c.toNat ∧ c.toNat ≤ 57 := by
  unfold isDigit
  simp only [Bool.and_eq_true, decide_eq_true_eq]
  constructor
  · rintro ⟨h1, h2⟩
    exact ⟨h1, h2⟩
  · rintro ⟨h1, h2⟩
    exact ⟨h1, h2⟩

theorem digitVal_lt {c : Char} (h : isDigit c = true) : digitVal c < 10 := by
  have := (isDigit_iff c).1 h
  unfold digitVal; omega

theorem digitChar_digitVal {c : Char} (h : isDigit c = true) : digitChar (digitVal c) = c := by
  have h' := (isDigit_iff c).1 h
  unfold digitChar digitVal
  have : 48 + (c.toNat - 48) = c.toNat := by omega
  rw [this]
  exact Char.ofNat_toNat c

theorem digitVal_digitChar {d : Nat} (h : d < 10) : digitVal (digitChar d) = d := by
  have : ∀ d, d < 10 → digitVal (digitChar d) = d := by decide
  exact this d h

theorem isDigit_digitChar {d : Nat} (h : d < 10) : isDigit (digitChar d) = true := by
  have : ∀ d, d < 10 → isDigit (digitChar d) = true := by decide
  exact this d h

theorem isWs_digitChar {d : Nat} (h : d < 10) : isWs (digitChar d) = false := by
  have : ∀ d, d < 10 → isWs (digitChar d) = false := by decide
  exact this d h

theorem isWs_of_isDigit {c : Char} (h : isDigit c = true) : isWs c = false := by
  rw [← digitChar_digitVal h]; exact isWs_digitChar (digitVal_lt h)

/-- a digit contributes its value to the checksum -/
theorem ckVal_digitChar {d : Nat} (h : d < 10) : ckVal (digitChar d) = some d := by
  have : ∀ d, d < 10 → ckVal (digitChar d) = some d := by decide
  exact this d h

theorem ckVal_of_isDigit {c : Char} (h : isDigit c = true) : ckVal c = some (digitVal c) := by
  have := ckVal_digitChar (digitVal_lt h)
  rwa [digitChar_digitVal h] at this

/-! ### sums -/

/-- replacing the digit at position `i` changes the sum by the difference of the two digit values -/
theorem sumVals_set : ∀ (l : Str) (i : Nat) (c d : Char) (s : Nat),
    l[i]? = some c → isDigit c = true → isDigit d = true → sumVals l = some s →
    digitVal c ≤ s ∧ sumVals (l.set i d) = some (s - digitVal c + digitVal d) := by
  intro l
  induction l with
  | nil => intro i c d s h; simp at h
  | cons x xs ih =>
    intro i c d s hi hc hd hs
    cases i with
    | zero =>
      simp at hi
      subst hi
      simp only [sumVals, ckVal_of_isDigit hc] at hs
      cases hxs : sumVals xs with
      | none => rw [hxs] at hs; simp at hs
      | some b =>
        rw [hxs] at hs
        simp at hs
        subst hs
        refine ⟨by omega, ?_⟩
        simp only [List.set_cons_zero, sumVals, ckVal_of_isDigit hd, hxs]
        congr 1; omega
    | succ i =>
      simp at hi
      simp only [sumVals] at hs
      cases hx : ckVal x with
      | none => rw [hx] at hs; simp at hs
      | some a =>
        cases hxs : sumVals xs with
        | none => rw [hx, hxs] at hs; simp at hs
        | some b =>
          rw [hx, hxs] at hs
          simp at hs
          subst hs
          obtain ⟨hle, hset⟩ := ih i c d b hi hc hd hxs
          refine ⟨by omega, ?_⟩
          simp only [List.set_cons_succ, sumVals, hx, hset]
          congr 1; omega

/-! ### strip -/

theorem length_dropWhile_le (p : Char → Bool) : ∀ (l : Str), (l.dropWhile p).length ≤ l.length := by
  intro l
  induction l with
  | nil => simp
  | cons x xs ih =>
    simp only [List.dropWhile_cons]
    split
    · simp; omega
    · simp

theorem dropWhile_length_eq {p : Char → Bool} : ∀ (l : Str), (l.dropWhile p).length = l.length → l.dropWhile p = l := by
  intro l
  cases l with
  | nil => simp
  | cons x xs =>
    intro h
    simp only [List.dropWhile_cons] at h ⊢
    split
    · next hp =>
      rw [if_pos hp] at h
      have := length_dropWhile_le p xs
      simp at h
      omega
    · rfl

theorem lstrip_length_le (l : Str) : (lstrip l).length ≤ l.length := length_dropWhile_le _ _

theorem rstrip_length_le (l : Str) : (rstrip l).length ≤ l.length := by
  unfold rstrip
  have := length_dropWhile_le isWs l.reverse
  simpa using this

/-- a line that keeps its length under `strip` is not touched by it -/
theorem strip_eq_of_length {l : Str} (h : (strip l).length = l.length) : strip l = l ∧ lstrip l = l := by
  unfold strip at h
  have h1 := rstrip_length_le (lstrip l)
  have h2 := lstrip_length_le l
  have hl : lstrip l = l := dropWhile_length_eq l (by unfold lstrip at h h1 h2; omega)
  refine ⟨?_, hl⟩
  unfold strip
  rw [hl] at h ⊢
  unfold rstrip at h ⊢
  have : (l.reverse.dropWhile isWs) = l.reverse := dropWhile_length_eq _ (by simpa using h)
  rw [this]; simp

theorem lstrip_cons_of_not_ws {c : Char} {l : Str} (h : isWs c = false) : lstrip (c :: l) = c :: l := by
  simp [lstrip, h]

theorem rstrip_concat_of_not_ws {c : Char} {l : Str} (h : isWs c = false) : rstrip (l ++ [c]) = l ++ [c] := by
  simp [rstrip, h]


theorem slice_one (l : Str) (n : Nat) : slice l (n, n + 1) = (l[n]?).toList := by
  unfold slice
  apply List.ext_getElem?
  intro j
  simp only [List.getElem?_drop, List.getElem?_take]
  cases j with
  | zero =>
    simp
    cases l[n]? <;> simp
  | succ j =>
    have : ¬ (n + (j + 1) < n + 1) := by omega
    simp [this]
    cases l[n]? <;> simp

theorem strip_eq_iff (l : Str) : strip l = l ↔
    (∀ c, l[0]? = some c → isWs c = false) ∧ (∀ c, l[l.length - 1]? = some c → isWs c = false) := by
  rcases List.eq_nil_or_concat l with rfl | ⟨init, last, rfl⟩
  · simp [strip, lstrip, rstrip]
  · rw [List.concat_eq_append]
    constructor
    · intro h
      have hlen : (strip (init ++ [last])).length = (init ++ [last]).length := by rw [h]
      obtain ⟨hs, hl⟩ := strip_eq_of_length hlen
      constructor
      · intro c hc
        cases init with
        | nil =>
          simp at hc; subst hc
          simp [lstrip, List.dropWhile_cons] at hl
          cases hw : isWs last <;> simp_all
        | cons x xs =>
          simp at hc; subst hc
          simp [lstrip, List.dropWhile_cons] at hl
          cases hw : isWs x
          · rfl
          · have hl := hl hw
            have := length_dropWhile_le isWs (xs ++ [last])
            have h2 := congrArg List.length hl
            simp at h2 this
            omega
      · intro c hc
        simp at hc
        subst hc
        unfold strip at hs
        rw [hl] at hs
        unfold rstrip at hs
        simp [List.dropWhile_cons] at hs
        cases hw : isWs last
        · rfl
        · have hs := hs hw
          have := length_dropWhile_le isWs init.reverse
          have h2 := congrArg List.length hs
          simp at h2 this
          omega
    · rintro ⟨h0, h1⟩
      have hlast : isWs last = false := h1 last (by simp)
      have hl : lstrip (init ++ [last]) = init ++ [last] := by
        cases init with
        | nil => exact lstrip_cons_of_not_ws hlast
        | cons x xs => exact lstrip_cons_of_not_ws (h0 x (by simp))
      unfold strip
      rw [hl]
      exact rstrip_concat_of_not_ws hlast



/-! ### reading digits back -/

theorem natStr_all_digits (n : Nat) : ∀ c ∈ natStr n, isDigit c = true := by
  induction n using Nat.strongRecOn with
  | _ n ih =>
    rw [natStr_eq]
    split
    · next h => intro c hc; simp at hc; subst hc; exact isDigit_digitChar h
    · next h =>
      intro c hc
      simp at hc
      rcases hc with hc | hc
      · exact ih (n / 10) (by omega) c hc
      · subst hc; exact isDigit_digitChar (by omega)

theorem digitsValAux_snoc (s : Str) (d acc : Nat) (hd : d < 10) :
    digitsValAux (s ++ [digitChar d]) acc = (digitsValAux s acc).map (fun v => v * 10 + d) := by
  induction s generalizing acc with
  | nil => simp [digitsValAux, isDigit_digitChar hd, digitVal_digitChar hd]
  | cons c cs ih =>
    simp only [List.cons_append, digitsValAux]
    split
    · exact ih _
    · rfl

theorem digitsValAux_append (s t : Str) (acc : Nat) :
    digitsValAux (s ++ t) acc = (digitsValAux s acc).bind (fun v => digitsValAux t v) := by
  induction s generalizing acc with
  | nil => simp [digitsValAux]
  | cons c cs ih =>
    simp only [List.cons_append, digitsValAux]
    split
    · exact ih _
    · rfl

theorem digitsValAux_natStr (n : Nat) : digitsValAux (natStr n) 0 = some n := by
  induction n using Nat.strongRecOn with
  | _ n ih =>
    rw [natStr_eq]
    split
    · next h => simp [digitsValAux, isDigit_digitChar h, digitVal_digitChar h]
    · next h =>
      rw [digitsValAux_snoc _ _ _ (by omega), ih (n / 10) (by omega)]
      simp; omega

theorem natStr_ne_nil (n : Nat) : natStr n ≠ [] := by
  intro h; have := natStr_length_pos n; rw [h] at this; simp at this

theorem digitsVal_natStr (n : Nat) : digitsVal (natStr n) = some n := by
  unfold digitsVal
  have := natStr_ne_nil n
  cases h : natStr n with
  | nil => exact absurd h this
  | cons c cs => simp only [List.isEmpty_cons, Bool.false_eq_true, if_false]; rw [← h]; exact digitsValAux_natStr n

theorem digitsValAux_fixedDigits (k n acc : Nat) :
    digitsValAux (fixedDigits k n) acc = some (acc * 10 ^ k + n % 10 ^ k) := by
  induction k generalizing n acc with
  | zero => simp [fixedDigits, digitsValAux, Nat.mod_one]
  | succ k ih =>
    simp only [fixedDigits]
    rw [digitsValAux_snoc _ _ _ (by omega), ih]
    simp only [Option.map_some, Option.some.injEq]
    have h1 : n % 10 ^ (k + 1) = (n / 10 % 10 ^ k) * 10 + n % 10 := by
      rw [Nat.pow_succ, Nat.mul_comm, Nat.mod_mul]; omega
    rw [h1, Nat.pow_succ]
    rw [Nat.add_mul, Nat.mul_assoc, Nat.add_assoc]

theorem fixedDigits_all_digits (k n : Nat) : ∀ c ∈ fixedDigits k n, isDigit c = true := by
  induction k generalizing n with
  | zero => simp [fixedDigits]
  | succ k ih =>
    intro c hc
    simp [fixedDigits] at hc
    rcases hc with hc | hc
    · exact ih _ c hc
    · subst hc; exact isDigit_digitChar (by omega)

theorem natStr_length_eq : ∀ (k n : Nat), 10 ^ k ≤ n → n < 10 ^ (k + 1) → (natStr n).length = k + 1 := by
  intro k
  induction k with
  | zero => intro n _ h2; rw [natStr_lt10 (by simpa using h2)]; rfl
  | succ k ih =>
    intro n h1 h2
    rw [natStr_eq]
    have h10 : ¬ n < 10 := by
      have : 10 ≤ 10 ^ (k + 1) := by
        rw [Nat.pow_succ]; exact Nat.le_mul_of_pos_left 10 (Nat.pow_pos (by omega))
      omega
    rw [if_neg h10]
    have := ih (n / 10) (by rw [Nat.pow_succ] at h1; omega) (by rw [Nat.pow_succ] at h2; omega)
    simp [this]

theorem findIdx?_skip {p : Char → Bool} (A : Str) (x : Char) (B : Str) (hA : ∀ c ∈ A, p c = false) (hx : p x = true) :
    (A ++ x :: B).findIdx? p = some A.length := by
  induction A with
  | nil => simp [List.findIdx?_cons, hx]
  | cons a as ih =>
    simp only [List.cons_append, List.findIdx?_cons, hA a (by simp)]
    rw [ih (fun c hc => hA c (by simp [hc]))]
    simp

theorem rfind_last (P E : Str) (sep : Char) (hE : ∀ c ∈ E, c ≠ sep) : rfind (P ++ sep :: E) sep = some P.length := by
  unfold rfind
  have : (P ++ sep :: E).reverse = E.reverse ++ sep :: P.reverse := by simp
  rw [this, findIdx?_skip E.reverse sep P.reverse (by intro c hc; simp at hc; simpa using hE c hc) (by simp)]
  simp



/-! ### the decimal-point-assumed notation -/

theorem isDigit_not_sign {c : Char} (h : isDigit c = true) : c ≠ '+' ∧ c ≠ '-' ∧ c ≠ '.' := by
  have := (isDigit_iff c).1 h
  refine ⟨?_, ?_, ?_⟩ <;> (intro hc; subst hc; revert this; decide)

theorem contains_plus_false (m e : Nat) : ('.' :: (natStr m ++ '-' :: natStr e)).contains '+' = false := by
  simp
  exact ⟨fun h => (isDigit_not_sign (natStr_all_digits _ _ h)).1 rfl, fun h => (isDigit_not_sign (natStr_all_digits _ _ h)).1 rfl⟩

/-- reading `s . D sep E` (sign, point, mantissa digits, exponent sign, exponent digits) -/
theorem tleFloatSigned_core (s sep : Char) (m e : Nat) (hs : s = '+' ∨ s = '-')
    (hsep : sep = '+' ∨ sep = '-') :
    tleFloatSigned (s :: '.' :: (natStr m ++ sep :: natStr e))
    = .ok ⟨s = '-', m, if sep = '-' then ((natStr m).length : Int) + e else ((natStr m).length : Int) - e⟩ := by
  have hE : ∀ c ∈ natStr e, c ≠ sep := by
    intro c hc
    have := isDigit_not_sign (natStr_all_digits e c hc)
    rcases hsep with h | h <;> subst h <;> simp [this]
  have hr : rfind (s :: '.' :: (natStr m ++ sep :: natStr e)) sep = some (2 + (natStr m).length) := by
    have : (s :: '.' :: (natStr m ++ sep :: natStr e)) = (s :: '.' :: natStr m) ++ sep :: natStr e := by simp
    rw [this, rfind_last _ _ _ hE]
    simp; omega
  have htake : (s :: '.' :: (natStr m ++ sep :: natStr e)).take (2 + (natStr m).length) = s :: '.' :: natStr m := by
    simp [Nat.add_comm 2]
  have hdrop : (s :: '.' :: (natStr m ++ sep :: natStr e)).drop (2 + (natStr m).length + 1) = natStr e := by
    have : (s :: '.' :: (natStr m ++ sep :: natStr e)) = (s :: '.' :: natStr m ++ [sep]) ++ natStr e := by simp
    rw [this]
    apply List.drop_left'
    simp; omega
  have hpf : pyFloatCore (s :: '.' :: natStr m) = .ok ⟨s = '-', m, (natStr m).length⟩ := by
    unfold pyFloatCore
    have hne := natStr_ne_nil m
    rcases hs with h | h <;> subst h <;>
      simp [splitSign, isDigit, digitsValAux_natStr, hne]
  have hc : ((List.drop 1 (s :: '.' :: (natStr m ++ sep :: natStr e))).contains '+' ||
      (List.drop 1 (s :: '.' :: (natStr m ++ sep :: natStr e))).contains '-') = true := by
    rcases hsep with h | h <;> subst h <;> simp
  have hsel : (if (List.drop 1 (s :: '.' :: (natStr m ++ sep :: natStr e))).contains '+' = true then '+' else '-') = sep := by
    rcases hsep with h | h
    · subst h; simp
    · subst h
      show (if ('.' :: (natStr m ++ '-' :: natStr e)).contains '+' = true then '+' else '-') = '-'
      rw [contains_plus_false]; rfl
  unfold tleFloatSigned
  simp only [hc, if_true, hsel, hr, htake, hdrop, hpf, digitsVal_natStr]

/-- reading `s . D sep E` where the mantissa `D` is any non-empty run of digits (leading zeros allowed) -/
theorem tleFloatSigned_digits (s sep : Char) (D : Str) (m e : Nat) (hs : s = '+' ∨ s = '-')
    (hsep : sep = '+' ∨ sep = '-') (hD : ∀ c ∈ D, isDigit c = true) (hne : D ≠ []) (hv : digitsValAux D 0 = some m) :
    tleFloatSigned (s :: '.' :: (D ++ sep :: natStr e))
    = .ok ⟨s = '-', m, if sep = '-' then (D.length : Int) + e else (D.length : Int) - e⟩ := by
  have hE : ∀ c ∈ natStr e, c ≠ sep := by
    intro c hc
    have := isDigit_not_sign (natStr_all_digits e c hc)
    rcases hsep with h | h <;> subst h <;> simp [this]
  have hr : rfind (s :: '.' :: (D ++ sep :: natStr e)) sep = some (2 + D.length) := by
    have : (s :: '.' :: (D ++ sep :: natStr e)) = (s :: '.' :: D) ++ sep :: natStr e := by simp
    rw [this, rfind_last _ _ _ hE]
    simp; omega
  have htake : (s :: '.' :: (D ++ sep :: natStr e)).take (2 + D.length) = s :: '.' :: D := by
    simp [Nat.add_comm 2]
  have hdrop : (s :: '.' :: (D ++ sep :: natStr e)).drop (2 + D.length + 1) = natStr e := by
    have : (s :: '.' :: (D ++ sep :: natStr e)) = (s :: '.' :: D ++ [sep]) ++ natStr e := by simp
    rw [this]
    apply List.drop_left'
    simp; omega
  have hpf : pyFloatCore (s :: '.' :: D) = .ok ⟨s = '-', m, D.length⟩ := by
    unfold pyFloatCore
    rcases hs with h | h <;> subst h <;>
      simp [splitSign, isDigit, hv, hne]
  have hnoplus : ∀ c ∈ D, c ≠ '+' := fun c hc => (isDigit_not_sign (hD c hc)).1
  have hc : ((List.drop 1 (s :: '.' :: (D ++ sep :: natStr e))).contains '+' ||
      (List.drop 1 (s :: '.' :: (D ++ sep :: natStr e))).contains '-') = true := by
    rcases hsep with h | h <;> subst h <;> simp
  have hsel : (if (List.drop 1 (s :: '.' :: (D ++ sep :: natStr e))).contains '+' = true then '+' else '-') = sep := by
    rcases hsep with h | h
    · subst h; simp
    · subst h
      have : ('.' :: (D ++ '-' :: natStr e)).contains '+' = false := by
        simp
        exact ⟨fun h => hnoplus _ h rfl, fun h => (isDigit_not_sign (natStr_all_digits _ _ h)).1 rfl⟩
      show (if ('.' :: (D ++ '-' :: natStr e)).contains '+' = true then '+' else '-') = '-'
      rw [this]; rfl
  unfold tleFloatSigned
  simp only [hc, if_true, hsel, hr, htake, hdrop, hpf, digitsVal_natStr]

theorem strip_of_ends {l : Str} {a z : Char} (h0 : l[0]? = some a) (h1 : l[l.length - 1]? = some z)
    (ha : isWs a = false) (hz : isWs z = false) : strip l = l := by
  rw [strip_eq_iff]
  exact ⟨fun c hc => by rw [h0] at hc; cases hc; exact ha, fun c hc => by rw [h1] at hc; cases hc; exact hz⟩

theorem natStr_last (n : Nat) : ∃ d, d < 10 ∧ (natStr n)[(natStr n).length - 1]? = some (digitChar d) := by
  rw [natStr_eq]
  split
  · next h => exact ⟨n, h, by simp⟩
  · exact ⟨n % 10, by omega, by simp⟩

theorem natStr_head (n : Nat) : ∃ c, isDigit c = true ∧ ∃ t, natStr n = c :: t := by
  cases h : natStr n with
  | nil => exact absurd h (natStr_ne_nil n)
  | cons c t => exact ⟨c, natStr_all_digits n c (by rw [h]; simp), t, rfl⟩


end BeyondVerif.Tle
