import BeyondVerif.Lemmas.Kinematics
import Mathlib.Analysis.SpecialFunctions.Sqrt
import Mathlib.Analysis.Calculus.Deriv.Inv

/-!
Helper lemmas for the clause "the converted velocity is the time derivative of the converted position" of C02 for orbit-attached
local orbital frames: the derivative of the matrices `to_qsw` / `to_tnw` (`lofQsw` / `lofTnw`, translated from beyond/frames/local.py)
along a reference that moves with velocity `v` and acceleration `a` is `−[ω]× P` with `ω = lofRate` (Model/FramesR.lean).

* `V3.DerivAt.norm`, `V3.DerivAt.unit`: derivative of `|u|` and of `u / |u|`;
* `triad_rate`: for an orthonormal triad `(a, w × a, w)` whose first and third rows turn with `ω`, the whole matrix does;
* `qsw_q`, `qsw_w`, `tnw_t`, `tnw_w`: the four row identities, polynomial identities modulo `r² = p·p`, `V² = v·v`, `h² = c·c`;
* `lofQsw_derivAt`, `lofTnw_derivAt`.
-/
namespace BeyondVerif.R
open BeyondVerif.NumReal

theorem V3.DerivAt.norm {u : ℝ → V3} {u' : V3} {t : ℝ} (hu : V3.DerivAt u u' t) (h : V3.dot (u t) (u t) ≠ 0) :
    HasDerivAt (fun s => V3.norm (u s)) (V3.dot (u t) u' / V3.norm (u t)) t := by
  have hd := hu.dot hu
  have hs := hd.sqrt h
  simp only [V3.norm, sqrt]
  refine hs.congr_deriv ?_
  simp only [V3.dot]
  ring

theorem V3.DerivAt.divS {u : ℝ → V3} {u' : V3} {k : ℝ → ℝ} {k' t : ℝ} (hu : V3.DerivAt u u' t) (hk : HasDerivAt k k' t)
    (h : k t ≠ 0) :
    V3.DerivAt (fun s => V3.divS (u s) (k s))
      ⟨(u'.x * k t - (u t).x * k') / k t ^ 2, (u'.y * k t - (u t).y * k') / k t ^ 2, (u'.z * k t - (u t).z * k') / k t ^ 2⟩ t :=
  ⟨hu.x.div hk h, hu.y.div hk h, hu.z.div hk h⟩

/-- the derivative of `u / |u|` when `u` moves with `u'` -/
noncomputable def V3.unitD (u u' : V3) : V3 :=
  V3.sub (V3.divS u' (V3.norm u)) (V3.smul (V3.dot u u' / (V3.norm u * V3.norm u * V3.norm u)) u)

theorem V3.DerivAt.unit {u : ℝ → V3} {u' : V3} {t : ℝ} (hu : V3.DerivAt u u' t) (h : V3.dot (u t) (u t) ≠ 0) :
    V3.DerivAt (fun s => V3.divS (u s) (V3.norm (u s))) (V3.unitD (u t) u') t := by
  have hn0 := V3.norm_ne_zero (u t) h
  refine (hu.divS (hu.norm h) hn0).congr ?_
  unfold V3.unitD
  generalize V3.norm (u t) = n at hn0
  ext <;> simp only [V3.sub, V3.divS, V3.smul] <;> field_simp

theorem V3.cross_self (u : V3) : V3.cross u u = V3.zero := by
  ext <;> simp only [V3.cross, V3.zero] <;> ring

theorem V3.zero_add (u : V3) : V3.add V3.zero u = u := by
  ext <;> simp [V3.add, V3.zero]

/-- **an orthonormal triad `(a, w × a, w)` whose first row moves as `a' = ω₃ s − ω₂ w` and whose third row moves as `w' = ω₂ a − ω₁ s`
turns as a whole with the angular velocity `ω` (components along its own rows): `P' = −[ω]× P`** -/
theorem triad_rate (a w a' w' ω : V3) (ha : V3.dot a a = 1) (hw : V3.dot w w = 1) (haw : V3.dot a w = 0)
    (h1 : a' = V3.sub (V3.smul ω.z (V3.cross w a)) (V3.smul ω.y w))
    (h3 : w' = V3.sub (V3.smul ω.y a) (V3.smul ω.x (V3.cross w a))) :
    M3.ofRows a' (V3.add (V3.cross w' a) (V3.cross w a')) w'
      = M3.neg (M3.mul (M3.skew ω) (M3.ofRows a (V3.cross w a) w)) := by
  subst h1 h3
  simp only [V3.dot] at ha hw haw
  ext <;> simp only [M3.ofRows, M3.neg, M3.mul, M3.skew, V3.add, V3.sub, V3.smul, V3.cross]
  · ring
  · ring
  · ring
  · linear_combination (-ω.x * a.x + ω.z * w.x) * haw + (ω.x * w.x) * ha - (ω.z * a.x) * hw
  · linear_combination (-ω.x * a.y + ω.z * w.y) * haw + (ω.x * w.y) * ha - (ω.z * a.y) * hw
  · linear_combination (-ω.x * a.z + ω.z * w.z) * haw + (ω.x * w.z) * ha - (ω.z * a.z) * hw
  · ring
  · ring
  · ring

/-! ## the four row identities (`c = p × v`, `r = |p|`, `V = |v|`, `h = |c|`) -/

/-- QSW, first row: `d/ds (p/|p|) = (h/r²) s` -/
theorem qsw_q (p v : V3) (r h : ℝ) (hr : r * r = V3.dot p p) (hr0 : r ≠ 0) (hh0 : h ≠ 0) :
    V3.sub (V3.divS v r) (V3.smul (V3.dot p v / (r * r * r)) p)
      = V3.smul (h / (r * r)) (V3.cross (V3.divS (V3.cross p v) h) (V3.divS p r)) := by
  simp only [V3.dot] at hr
  ext <;> simp only [V3.sub, V3.divS, V3.smul, V3.cross, V3.dot] <;> field_simp
  · linear_combination (v.x) * hr
  · linear_combination (v.y) * hr
  · linear_combination (v.z) * hr

/-- QSW, third row: `d/ds (c/|c|) = −(r (a·c)/h²) s` -/
theorem qsw_w (p v a : V3) (r h : ℝ) (hh : h * h = V3.dot (V3.cross p v) (V3.cross p v)) (hr0 : r ≠ 0) (hh0 : h ≠ 0) :
    V3.sub (V3.divS (V3.cross p a) h) (V3.smul (V3.dot (V3.cross p v) (V3.cross p a) / (h * h * h)) (V3.cross p v))
      = V3.smul (-(r * V3.dot a (V3.cross p v) / (h * h))) (V3.cross (V3.divS (V3.cross p v) h) (V3.divS p r)) := by
  simp only [V3.dot, V3.cross] at hh
  ext <;> simp only [V3.sub, V3.divS, V3.smul, V3.cross, V3.dot] <;> field_simp
  · linear_combination (p.y * a.z - p.z * a.y) * hh
  · linear_combination (p.z * a.x - p.x * a.z) * hh
  · linear_combination (p.x * a.y - p.y * a.x) * hh

/-- TNW, first row: `d/ds (v/|v|) = ω₃ n − ω₂ w` -/
theorem tnw_t (p v a : V3) (V h : ℝ) (hV : V * V = V3.dot v v) (hh : h * h = V3.dot (V3.cross p v) (V3.cross p v)) (hV0 : V ≠ 0) (hh0 : h ≠ 0) :
    V3.sub (V3.divS a V) (V3.smul (V3.dot v a / (V * V * V)) v)
      = V3.sub (V3.smul (V3.dot a (V3.cross (V3.cross p v) v) / (h * (V * V))) (V3.cross (V3.divS (V3.cross p v) h) (V3.divS v V)))
          (V3.smul (-(V3.dot a (V3.cross p v) / (h * V))) (V3.divS (V3.cross p v) h)) := by
  simp only [V3.dot, V3.cross] at hh hV
  ext <;> simp only [V3.sub, V3.divS, V3.smul, V3.cross, V3.dot] <;> field_simp
  · linear_combination (a.x * h ^ 2 - (a.x * (p.y * v.z - p.z * v.y) + a.y * (p.z * v.x - p.x * v.z) + a.z * (p.x * v.y - p.y * v.x)) * (p.y * v.z - p.z * v.y)) * hV
      + (a.x * (v.x * v.x + v.y * v.y + v.z * v.z) - (v.x * a.x + v.y * a.y + v.z * a.z) * v.x) * hh
  · linear_combination (a.y * h ^ 2 - (a.x * (p.y * v.z - p.z * v.y) + a.y * (p.z * v.x - p.x * v.z) + a.z * (p.x * v.y - p.y * v.x)) * (p.z * v.x - p.x * v.z)) * hV
      + (a.y * (v.x * v.x + v.y * v.y + v.z * v.z) - (v.x * a.x + v.y * a.y + v.z * a.z) * v.y) * hh
  · linear_combination (a.z * h ^ 2 - (a.x * (p.y * v.z - p.z * v.y) + a.y * (p.z * v.x - p.x * v.z) + a.z * (p.x * v.y - p.y * v.x)) * (p.x * v.y - p.y * v.x)) * hV
      + (a.z * (v.x * v.x + v.y * v.y + v.z * v.z) - (v.x * a.x + v.y * a.y + v.z * a.z) * v.z) * hh

/-- TNW, third row: `d/ds (c/|c|) = ω₂ t − ω₁ n` -/
theorem tnw_w (p v a : V3) (V h : ℝ) (hV : V * V = V3.dot v v) (hh : h * h = V3.dot (V3.cross p v) (V3.cross p v)) (hV0 : V ≠ 0) (hh0 : h ≠ 0) :
    V3.sub (V3.divS (V3.cross p a) h) (V3.smul (V3.dot (V3.cross p v) (V3.cross p a) / (h * h * h)) (V3.cross p v))
      = V3.sub (V3.smul (-(V3.dot a (V3.cross p v) / (h * V))) (V3.divS v V))
          (V3.smul (V3.dot a (V3.cross p v) * V3.dot v p / (h * h * V)) (V3.cross (V3.divS (V3.cross p v) h) (V3.divS v V))) := by
  simp only [V3.dot, V3.cross] at hh hV
  ext <;> simp only [V3.sub, V3.divS, V3.smul, V3.cross, V3.dot] <;> field_simp
  · linear_combination ((p.y * a.z - p.z * a.y) * h ^ 2 - ((p.y * v.z - p.z * v.y) * (p.y * a.z - p.z * a.y) + (p.z * v.x - p.x * v.z) * (p.z * a.x - p.x * a.z) + (p.x * v.y - p.y * v.x) * (p.x * a.y - p.y * a.x)) * (p.y * v.z - p.z * v.y)) * hV + ((p.y * a.z - p.z * a.y) * (v.x * v.x + v.y * v.y + v.z * v.z) + (a.x * (p.y * v.z - p.z * v.y) + a.y * (p.z * v.x - p.x * v.z) + a.z * (p.x * v.y - p.y * v.x)) * v.x) * hh
  · linear_combination ((p.z * a.x - p.x * a.z) * h ^ 2 - ((p.y * v.z - p.z * v.y) * (p.y * a.z - p.z * a.y) + (p.z * v.x - p.x * v.z) * (p.z * a.x - p.x * a.z) + (p.x * v.y - p.y * v.x) * (p.x * a.y - p.y * a.x)) * (p.z * v.x - p.x * v.z)) * hV + ((p.z * a.x - p.x * a.z) * (v.x * v.x + v.y * v.y + v.z * v.z) + (a.x * (p.y * v.z - p.z * v.y) + a.y * (p.z * v.x - p.x * v.z) + a.z * (p.x * v.y - p.y * v.x)) * v.y) * hh
  · linear_combination ((p.x * a.y - p.y * a.x) * h ^ 2 - ((p.y * v.z - p.z * v.y) * (p.y * a.z - p.z * a.y) + (p.z * v.x - p.x * v.z) * (p.z * a.x - p.x * a.z) + (p.x * v.y - p.y * v.x) * (p.x * a.y - p.y * a.x)) * (p.x * v.y - p.y * v.x)) * hV + ((p.x * a.y - p.y * a.x) * (v.x * v.x + v.y * v.y + v.z * v.z) + (a.x * (p.y * v.z - p.z * v.y) + a.y * (p.z * v.x - p.x * v.z) + a.z * (p.x * v.y - p.y * v.x)) * v.z) * hh

/-! ## the matrices of beyond/frames/local.py along a moving reference -/

theorem cross_derivAt_state {p v : ℝ → V3} {a : V3} {t : ℝ} (hp : V3.DerivAt p (v t) t) (hv : V3.DerivAt v a t) :
    V3.DerivAt (fun s => V3.cross (p s) (v s)) (V3.cross (p t) a) t :=
  (hp.cross hv).congr (by rw [V3.cross_self, V3.zero_add])

/-- **`to_qsw` along a reference with velocity `v` and acceleration `a`: `P' = −[ω]× P`, `ω = lofRate false p v a`** -/
theorem lofQsw_derivAt (p v : ℝ → V3) (a : V3) (t : ℝ) (hp : V3.DerivAt p (v t) t) (hv : V3.DerivAt v a t)
    (h : V3.dot (V3.cross (p t) (v t)) (V3.cross (p t) (v t)) ≠ 0) :
    M3.DerivAt (fun s => lofQsw (p s) (v s))
      (M3.neg (M3.mul (M3.skew (lofRate false (p t) (v t) a)) (lofQsw (p t) (v t)))) t := by
  obtain ⟨hpp, _⟩ := V3.dot_ne_zero_of_cross _ _ h
  have hq := hp.unit hpp
  have hw := (cross_derivAt_state hp hv).unit h
  have hM := M3.DerivAt.ofRows hq (hw.cross hq) hw
  refine hM.congr ?_
  have hr := V3.norm_mul_self (p t)
  have hh := V3.norm_mul_self (V3.cross (p t) (v t))
  have hr0 := V3.norm_ne_zero _ hpp
  have hh0 := V3.norm_ne_zero _ h
  simp only [lofQsw]
  refine triad_rate _ _ _ _ (lofRate false (p t) (v t) a) (V3.unit_divS _ hpp) (V3.unit_divS _ h) ?_ ?_ ?_
  · simp only [V3.dot, V3.divS, V3.cross]; ring
  · simp only [V3.unitD, lofRate, Bool.false_eq_true, if_false]
    rw [qsw_q (p t) (v t) _ _ hr hr0 hh0]
    ext <;> simp only [V3.sub, V3.smul] <;> ring
  · simp only [V3.unitD, lofRate, Bool.false_eq_true, if_false]
    rw [qsw_w (p t) (v t) a _ _ hh hr0 hh0]
    ext <;> simp only [V3.sub, V3.smul] <;> ring

/-- **`to_tnw` along a reference with velocity `v` and acceleration `a`: `P' = −[ω]× P`, `ω = lofRate true p v a`** -/
theorem lofTnw_derivAt (p v : ℝ → V3) (a : V3) (t : ℝ) (hp : V3.DerivAt p (v t) t) (hv : V3.DerivAt v a t)
    (h : V3.dot (V3.cross (p t) (v t)) (V3.cross (p t) (v t)) ≠ 0) :
    M3.DerivAt (fun s => lofTnw (p s) (v s))
      (M3.neg (M3.mul (M3.skew (lofRate true (p t) (v t) a)) (lofTnw (p t) (v t)))) t := by
  obtain ⟨_, hvv⟩ := V3.dot_ne_zero_of_cross _ _ h
  have hq := hv.unit hvv
  have hw := (cross_derivAt_state hp hv).unit h
  have hM := M3.DerivAt.ofRows hq (hw.cross hq) hw
  refine hM.congr ?_
  have hV := V3.norm_mul_self (v t)
  have hh := V3.norm_mul_self (V3.cross (p t) (v t))
  have hV0 := V3.norm_ne_zero _ hvv
  have hh0 := V3.norm_ne_zero _ h
  simp only [lofTnw]
  refine triad_rate _ _ _ _ (lofRate true (p t) (v t) a) (V3.unit_divS _ hvv) (V3.unit_divS _ h) ?_ ?_ ?_
  · simp only [V3.dot, V3.divS, V3.cross]; ring
  · simp only [V3.unitD, lofRate, if_true]
    rw [tnw_t (p t) (v t) a _ _ hV hh hV0 hh0]
  · simp only [V3.unitD, lofRate, if_true]
    rw [tnw_w (p t) (v t) a _ _ hV hh hV0 hh0]

/-- the position converted into the local orbital frame, `P(s) d(s)` with `P = to_local` (= the transpose of `lofMat`), has the
derivative `P d' − ω × P d` -/
theorem lof_position_derivAt (tnw : Bool) (p v : ℝ → V3) (a : V3) (d : ℝ → V3) (d' : V3) (t : ℝ)
    (hp : V3.DerivAt p (v t) t) (hv : V3.DerivAt v a t) (hd : V3.DerivAt d d' t)
    (h : V3.dot (V3.cross (p t) (v t)) (V3.cross (p t) (v t)) ≠ 0) :
    V3.DerivAt (fun s => (M3.tr (lofMat tnw (p s) (v s))).apply (d s))
      (V3.sub ((M3.tr (lofMat tnw (p t) (v t))).apply d')
        (V3.cross (lofRate tnw (p t) (v t) a) ((M3.tr (lofMat tnw (p t) (v t))).apply (d t)))) t := by
  cases tnw
  · simp only [lofMat, Bool.false_eq_true, if_false, M3.tr_tr]
    refine ((lofQsw_derivAt p v a t hp hv h).apply hd).congr ?_
    rw [← M3.skew_apply, ← M3.apply_mul]
    ext <;> simp only [V3.add, V3.sub, M3.apply, M3.neg] <;> ring
  · simp only [lofMat, if_true, M3.tr_tr]
    refine ((lofTnw_derivAt p v a t hp hv h).apply hd).congr ?_
    rw [← M3.skew_apply, ← M3.apply_mul]
    ext <;> simp only [V3.add, V3.sub, M3.apply, M3.neg] <;> ring

end BeyondVerif.R
