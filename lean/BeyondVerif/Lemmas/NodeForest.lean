import BeyondVerif.Lemmas.NodeRefresh
import BeyondVerif.Lemmas.NodeTree

/-!
The routing tables built by `link` on a forest history are exact.

`TableExact F g v` : the table of `v` in `g` holds exactly the entries `(t, hop F v t, dist F v t)` for
the targets `t ≠ v` connected to `v` by the links of `F`.

* `refresh_exact`  : one table rebuild yields the exact table of the merged forest, provided every
  neighbour's table is sound for the merged forest and the first hop towards each target holds an
  entry for it.
* `update_inv`     : the recursive `_update` is a depth-first traversal from `a`; visited nodes are
  exact for the merged forest, unvisited ones for the old forest; on return everything reachable
  is visited.
* `update_some`    : `fuel ≥ number of nodes` suffices.
* `link_exact`, `link_some`, `build_exact`, `build_some`.
-/
set_option linter.unusedSimpArgs false
set_option linter.unusedVariables false
namespace BeyondVerif.Node

/-- `r` is the correct table entry of node `v` for its target in the forest `F` -/
def IsSpec (F : List (Nat × Nat)) (v : Nat) (r : Route) : Prop :=
  Conn F v r.target ∧ v ≠ r.target ∧ r.dir = hop F v r.target ∧ r.steps = dist F v r.target

/-- the table of `v` is exactly the next-hop table of `v` in the forest `F` -/
def TableExact (F : List (Nat × Nat)) (g : Graph) (v : Nat) : Prop :=
  ∀ r, r ∈ (get g v).routes ↔ IsSpec F v r

/-- the neighbour lists are exactly the links of `F` -/
def NbrsOk (F : List (Nat × Nat)) (g : Graph) : Prop := ∀ u v, v ∈ (get g u).nbrs ↔ Lk F u v

theorem IsSpec.mono {a b : Nat} {h : List (Nat × Nat)} {v : Nat} {r : Route} (hs : IsSpec h v r) :
    IsSpec ((a, b) :: h) v r := by
  obtain ⟨h1, h2, h3, h4⟩ := hs
  exact ⟨h1.mono, h2, by rw [hop_old h1]; exact h3, by rw [dist_old h1]; exact h4⟩

open Classical in
/-- the entry a table exact for `F` returns for target `t` -/
noncomputable def specLookup (F : List (Nat × Nat)) (v t : Nat) : Option Route :=
  if Conn F v t ∧ v ≠ t then some ⟨t, hop F v t, dist F v t⟩ else none

theorem specLookup_pos {F : List (Nat × Nat)} {v t : Nat} (hc : Conn F v t) (hne : v ≠ t) :
    specLookup F v t = some ⟨t, hop F v t, dist F v t⟩ := by
  unfold specLookup; rw [if_pos ⟨hc, hne⟩]

theorem specLookup_neg {F : List (Nat × Nat)} {v t : Nat} (h : ¬ (Conn F v t ∧ v ≠ t)) :
    specLookup F v t = none := by
  unfold specLookup; rw [if_neg h]

theorem specLookup_eq_some {F : List (Nat × Nat)} {v : Nat} {r : Route} :
    specLookup F v r.target = some r ↔ IsSpec F v r := by
  unfold specLookup
  constructor
  · intro h
    split at h
    · next hc =>
      obtain ⟨rt, rd, rs⟩ := r
      simp only [Option.some.injEq, Route.mk.injEq, true_and] at h
      exact ⟨hc.1, hc.2, h.1.symm, h.2.symm⟩
    · cases h
  · rintro ⟨h1, h2, h3, h4⟩
    rw [if_pos ⟨h1, h2⟩]
    obtain ⟨rt, rd, rs⟩ := r
    simp only at h3 h4
    simp [h3, h4]

theorem lookup_of_exact {F : List (Nat × Nat)} {g : Graph} {v : Nat} (he : TableExact F g v) (t : Nat) :
    lookupRoute (get g v).routes t = specLookup F v t := by
  cases hl : lookupRoute (get g v).routes t with
  | none =>
    by_cases hc : Conn F v t ∧ v ≠ t
    · have hm : (⟨t, hop F v t, dist F v t⟩ : Route) ∈ (get g v).routes :=
        (he _).mpr ⟨hc.1, hc.2, rfl, rfl⟩
      exact absurd rfl (lookupRoute_eq_none hl _ hm)
    · rw [specLookup_neg hc]
  | some r =>
    obtain ⟨hm, ht⟩ := lookupRoute_eq_some hl
    subst ht
    exact (specLookup_eq_some.mpr ((he r).mp hm)).symm

/-- One table rebuild. `hsound`: every table entry present at a neighbour is correct for `F`;
`hcompl`: for every non-adjacent connected target the first hop towards it holds an entry. -/
theorem refresh_exact {F : List (Nat × Nat)} (hf : Forest F) {g : Graph} (hnb : NbrsOk F g) (u : Nat)
    (hsound : ∀ d r, r ∈ (get g d).routes → IsSpec F d r)
    (hcompl : ∀ t, Conn F u t → u ≠ t → ¬ Lk F u t → ∃ r ∈ (get g (hop F u t)).routes, r.target = t) :
    ∀ r, r ∈ refreshRoutes g u ↔ IsSpec F u r := by
  have hspec := refreshRoutes_spec g u
  have L : ∀ t, lookupRoute (refreshRoutes g u) t = specLookup F u t := by
    intro t
    by_cases hn : t ∈ (get g u).nbrs
    · have hl : Lk F u t := (hnb u t).mp hn
      rw [hspec.2.1 t hn, specLookup_pos hl.conn (hf.noloop hl), tree_nbr hf hl, tree_dist_nbr hf hl]
    · have hnl : ¬ Lk F u t := fun hl => hn ((hnb u t).mpr hl)
      by_cases htu : t = u
      · subst htu
        rw [hspec.2.2.1 hn, specLookup_neg (fun hh => hh.2 rfl)]
      · obtain ⟨hnil, hcons⟩ := refreshRoutes_lookup_min g u t hn htu
        have hut : u ≠ t := fun e => htu e.symm
        by_cases hc : Conn F u t
        · rw [specLookup_pos hc hut]
          obtain ⟨hlk, hdist⟩ := tree_step hf hc hut
          obtain ⟨rs, hrs, hrst⟩ := hcompl t hc hut hnl
          have hss := hsound _ _ hrs
          have hmem : (hop F u t, rs.steps + 1) ∈ cands g u t :=
            mem_cands.mpr ⟨_, (hnb u _).mpr hlk, rs, hrs, hrst, rfl⟩
          have hne : cands g u t ≠ [] := fun e => by rw [e] at hmem; simp at hmem
          obtain ⟨d, k, hlook, hdk, hmin⟩ := hcons hne
          rw [hlook]
          obtain ⟨d', hd', r', hr', hrt', hpair⟩ := mem_cands.mp hdk
          simp only [Prod.mk.injEq] at hpair
          obtain ⟨rfl, rfl⟩ := hpair
          have hs' := hsound _ _ hr'
          have hk := hmin _ hmem
          simp only at hk
          have e1 : rs.steps = dist F (hop F u t) t := by
            have := hss.2.2.2; rw [hrst] at this; exact this
          have e2 : r'.steps = dist F d t := by
            have := hs'.2.2.2; rw [hrt'] at this; exact this
          by_cases hdd : d = hop F u t
          · subst hdd
            simp only [Option.some.injEq, Route.mk.injEq, true_and]
            omega
          · have := (tree_other hf hc hut ((hnb u d).mp hd') hdd).2
            omega
        · have hnil' : cands g u t = [] := by
            apply List.eq_nil_iff_forall_not_mem.mpr
            intro c hcm
            obtain ⟨d, hd, r, hr, hrt, _⟩ := mem_cands.mp hcm
            have hs := hsound _ _ hr
            apply hc
            have := hs.1
            rw [hrt] at this
            exact ((hnb u d).mp hd).conn.trans this
          rw [hnil hnil', specLookup_neg (fun hh => hc hh.1)]
  intro r
  rw [mem_iff_lookupRoute hspec.1, L]
  exact specLookup_eq_some

theorem get_refresh_routes (g : Graph) (u v : Nat) :
    (get (refresh g u) v).routes = if v = u then refreshRoutes g u else (get g v).routes := by
  unfold refresh; rw [get_set]; split <;> rfl

/-! ### the traversal invariant -/

/-- State of the traversal started at `a` after inserting the link `a–b` into the forest `h`:
visited nodes are exact for the merged forest, the others still for `h`; the visited set is closed
under "first hop towards `a`". -/
structure TInv (a b : Nat) (h : List (Nat × Nat)) (g : Graph) (vis : List Nat) : Prop where
  nb : NbrsOk ((a, b) :: h) g
  newE : ∀ v, v ∈ vis → TableExact ((a, b) :: h) g v
  oldE : ∀ v, v ∉ vis → TableExact h g v
  anc : ∀ v, v ∈ vis → Conn ((a, b) :: h) v a ∧ (v = a ∨ hop ((a, b) :: h) v a ∈ vis)

theorem tinv_refresh {a b : Nat} {h : List (Nat × Nat)} (hf : Forest ((a, b) :: h)) {g : Graph}
    {vis : List Nat} (inv : TInv a b h g vis) {u : Nat} (hua : Conn ((a, b) :: h) u a)
    (hpar : u = a ∨ hop ((a, b) :: h) u a ∈ vis) : TInv a b h (refresh g u) (u :: vis) := by
  have hsound : ∀ d r, r ∈ (get g d).routes → IsSpec ((a, b) :: h) d r := by
    intro d r hr
    by_cases hd : d ∈ vis
    · exact (inv.newE d hd r).mp hr
    · exact ((inv.oldE d hd r).mp hr).mono
  have hcompl : ∀ t, Conn ((a, b) :: h) u t → u ≠ t → ¬ Lk ((a, b) :: h) u t →
      ∃ r ∈ (get g (hop ((a, b) :: h) u t)).routes, r.target = t := by
    intro t hc hut hnl
    have hdt : hop ((a, b) :: h) u t ≠ t := fun e => hnl (e ▸ (tree_step hf hc hut).1)
    have hnew : hop ((a, b) :: h) u t ∈ vis → ∃ r ∈ (get g (hop ((a, b) :: h) u t)).routes, r.target = t := by
      intro hv
      exact ⟨⟨t, hop ((a, b) :: h) (hop ((a, b) :: h) u t) t, dist ((a, b) :: h) (hop ((a, b) :: h) u t) t⟩,
        (inv.newE _ hv _).mpr ⟨tree_hop_conn hf hc hut, hdt, rfl, rfl⟩, rfl⟩
    rcases hop_new_cases hf hc hut with hold | ⟨hne, he⟩
    · by_cases hv : hop ((a, b) :: h) u t ∈ vis
      · exact hnew hv
      · exact ⟨⟨t, hop h (hop ((a, b) :: h) u t) t, dist h (hop ((a, b) :: h) u t) t⟩,
          (inv.oldE _ hv _).mpr ⟨hold, hdt, rfl, rfl⟩, rfl⟩
    · rcases hpar with hpar | hpar
      · exact absurd hpar hne
      · rw [← he] at hpar; exact hnew hpar
  have hex := refresh_exact hf inv.nb u hsound hcompl
  refine ⟨?_, ?_, ?_, ?_⟩
  · intro x y; rw [get_refresh_nbrs]; exact inv.nb x y
  · intro v hv r
    rw [get_refresh_routes]
    by_cases hvu : v = u
    · subst hvu; rw [if_pos rfl]; exact hex r
    · rw [if_neg hvu]
      rcases List.mem_cons.mp hv with hv | hv
      · exact absurd hv hvu
      · exact inv.newE v hv r
  · intro v hv r
    have hvu : v ≠ u := fun e => hv (e ▸ List.mem_cons_self)
    rw [get_refresh_routes, if_neg hvu]
    exact inv.oldE v (fun hm => hv (List.mem_cons_of_mem _ hm)) r
  · intro v hv
    rcases List.mem_cons.mp hv with hv | hv
    · subst hv
      refine ⟨hua, ?_⟩
      rcases hpar with hpar | hpar
      · exact Or.inl hpar
      · exact Or.inr (List.mem_cons_of_mem _ hpar)
    · obtain ⟨h1, h2⟩ := inv.anc v hv
      refine ⟨h1, ?_⟩
      rcases h2 with h2 | h2
      · exact Or.inl h2
      · exact Or.inr (List.mem_cons_of_mem _ h2)

/-! ### the recursive `_update` as a fold of `updStep` -/

/-- one step of the neighbour loop of `_update` -/
def updStep (fuel : Nat) (st : Option (Graph × List Nat)) (d : Nat) : Option (Graph × List Nat) :=
  match st with
  | none => none
  | some (g, visited) => if visited.contains d then some (g, visited) else update fuel g visited d

theorem update_succ (fuel : Nat) (g : Graph) (vis : List Nat) (u : Nat) :
    update (fuel + 1) g vis u =
      (get (refresh g u) u).nbrs.foldl (updStep fuel) (some (refresh g u, u :: vis)) := by
  rfl

theorem foldl_updStep_none (fuel : Nat) (l : List Nat) : l.foldl (updStep fuel) none = none := by
  induction l with
  | nil => rfl
  | cons d rest ih => simpa [updStep] using ih

theorem updStep_some_mem {fuel : Nat} {g : Graph} {vis : List Nat} {d : Nat} (h : d ∈ vis) :
    updStep fuel (some (g, vis)) d = some (g, vis) := by
  simp [updStep, h]

theorem updStep_some_not_mem {fuel : Nat} {g : Graph} {vis : List Nat} {d : Nat} (h : d ∉ vis) :
    updStep fuel (some (g, vis)) d = update fuel g vis d := by
  simp [updStep, h]

/-- **the traversal**: if `_update` entered at `u` (whose first hop towards the start `a` is already
visited) returns, the invariant holds again, `u` and all previously visited nodes are visited, and
every newly visited node has all its neighbours visited. -/
theorem update_inv {a b : Nat} {h : List (Nat × Nat)} (hf : Forest ((a, b) :: h)) :
    ∀ (fuel : Nat) (g : Graph) (vis : List Nat) (u : Nat) (g' : Graph) (vis' : List Nat),
      update fuel g vis u = some (g', vis') → TInv a b h g vis →
      Conn ((a, b) :: h) u a → (u = a ∨ hop ((a, b) :: h) u a ∈ vis) →
      TInv a b h g' vis' ∧ (∀ v, v ∈ vis → v ∈ vis') ∧ u ∈ vis' ∧
        (∀ v, v ∈ vis' → v ∉ vis → ∀ w, Lk ((a, b) :: h) v w → w ∈ vis') := by
  intro fuel
  induction fuel with
  | zero => intro g vis u g' vis' hu; simp [update] at hu
  | succ fuel ih =>
    intro g vis u g' vis' hu inv hua hpar
    rw [update_succ] at hu
    have inv1 := tinv_refresh hf inv hua hpar
    have key : ∀ (l : List Nat) (g1 : Graph) (vis1 : List Nat) (g' : Graph) (vis' : List Nat),
        l.foldl (updStep fuel) (some (g1, vis1)) = some (g', vis') → TInv a b h g1 vis1 → u ∈ vis1 →
        (∀ d ∈ l, Lk ((a, b) :: h) u d) →
        TInv a b h g' vis' ∧ (∀ v, v ∈ vis1 → v ∈ vis') ∧ (∀ d ∈ l, d ∈ vis') ∧
          (∀ v, v ∈ vis' → v ∉ vis1 → ∀ w, Lk ((a, b) :: h) v w → w ∈ vis') := by
      intro l
      induction l with
      | nil =>
        intro g1 vis1 g' vis' hfold invk hu1 _
        simp only [List.foldl_nil, Option.some.injEq, Prod.mk.injEq] at hfold
        obtain ⟨rfl, rfl⟩ := hfold
        exact ⟨invk, fun v hv => hv, by simp, fun v hv hnv => absurd hv hnv⟩
      | cons d rest ihl =>
        intro g1 vis1 g' vis' hfold invk hu1 hl
        simp only [List.foldl_cons] at hfold
        have hlr : ∀ d ∈ rest, Lk ((a, b) :: h) u d := fun x hx => hl x (List.mem_cons_of_mem _ hx)
        by_cases hd : d ∈ vis1
        · rw [updStep_some_mem hd] at hfold
          obtain ⟨i1, i2, i3, i4⟩ := ihl g1 vis1 g' vis' hfold invk hu1 hlr
          refine ⟨i1, i2, ?_, i4⟩
          intro x hx
          rcases List.mem_cons.mp hx with hx | hx
          · subst hx; exact i2 _ hd
          · exact i3 x hx
        · rw [updStep_some_not_mem hd] at hfold
          cases hup : update fuel g1 vis1 d with
          | none => rw [hup, foldl_updStep_none] at hfold; cases hfold
          | some p =>
            obtain ⟨g2, vis2⟩ := p
            rw [hup] at hfold
            have hlud : Lk ((a, b) :: h) u d := hl d List.mem_cons_self
            obtain ⟨hcu, hpu⟩ := invk.anc u hu1
            have hcd : Conn ((a, b) :: h) d a := hlud.conn.symm.trans hcu
            have hpd : d = a ∨ hop ((a, b) :: h) d a ∈ vis1 := by
              by_cases hda : d = a
              · exact Or.inl hda
              · right
                rcases tree_parent hf hcd hda hlud.symm with e | ⟨hua', e⟩
                · rw [e]; exact hu1
                · exfalso
                  rcases hpu with hpu | hpu
                  · exact hua' hpu
                  · rw [e] at hpu; exact hd hpu
            obtain ⟨j1, j2, j3, j4⟩ := ih g1 vis1 d g2 vis2 hup invk hcd hpd
            obtain ⟨i1, i2, i3, i4⟩ := ihl g2 vis2 g' vis' hfold j1 (j2 _ hu1) hlr
            refine ⟨i1, fun v hv => i2 v (j2 v hv), ?_, ?_⟩
            · intro x hx
              rcases List.mem_cons.mp hx with hx | hx
              · subst hx; exact i2 _ j3
              · exact i3 x hx
            · intro v hv hnv w hw
              by_cases hv2 : v ∈ vis2
              · exact i2 _ (j4 v hv2 hnv w hw)
              · exact i4 v hv hv2 w hw
    have hnb : ∀ d ∈ (get (refresh g u) u).nbrs, Lk ((a, b) :: h) u d :=
      fun d hd => (inv1.nb u d).mp hd
    obtain ⟨i1, i2, i3, i4⟩ := key _ _ _ g' vis' hu inv1 List.mem_cons_self hnb
    refine ⟨i1, fun v hv => i2 v (List.mem_cons_of_mem _ hv), i2 u List.mem_cons_self, ?_⟩
    intro v hv hnv w hw
    by_cases hvu : v = u
    · subst hvu; exact i3 w ((inv1.nb v w).mpr hw)
    · refine i4 v hv ?_ w hw
      intro hm
      rcases List.mem_cons.mp hm with e | e
      · exact hvu e
      · exact hnv e

/-- every call of `_update` conses exactly one entry (the refreshed node) onto the visited list, and
only for an unvisited node: the visited list stays duplicate-free, i.e. each node is refreshed at
most once per `link` (holds for every graph, not only forests) -/
theorem update_nodup : ∀ (fuel : Nat) (g : Graph) (vis : List Nat) (u : Nat) (g' : Graph) (vis' : List Nat),
    update fuel g vis u = some (g', vis') → u ∉ vis → vis.Nodup → vis'.Nodup := by
  intro fuel
  induction fuel with
  | zero => intro g vis u g' vis' hu; simp [update] at hu
  | succ fuel ih =>
    intro g vis u g' vis' hu hnv hnd
    rw [update_succ] at hu
    have key : ∀ (l : List Nat) (g1 : Graph) (vis1 : List Nat) (g' : Graph) (vis' : List Nat),
        l.foldl (updStep fuel) (some (g1, vis1)) = some (g', vis') → vis1.Nodup → vis'.Nodup := by
      intro l
      induction l with
      | nil =>
        intro g1 vis1 g' vis' hfold h1
        simp only [List.foldl_nil, Option.some.injEq, Prod.mk.injEq] at hfold
        obtain ⟨rfl, rfl⟩ := hfold
        exact h1
      | cons d rest ihl =>
        intro g1 vis1 g' vis' hfold h1
        simp only [List.foldl_cons] at hfold
        by_cases hd : d ∈ vis1
        · rw [updStep_some_mem hd] at hfold
          exact ihl g1 vis1 g' vis' hfold h1
        · rw [updStep_some_not_mem hd] at hfold
          cases hup : update fuel g1 vis1 d with
          | none => rw [hup, foldl_updStep_none] at hfold; cases hfold
          | some p =>
            obtain ⟨g2, vis2⟩ := p
            rw [hup] at hfold
            exact ihl g2 vis2 g' vis' hfold (ih g1 vis1 d g2 vis2 hup hd h1)
    exact key _ _ _ g' vis' hu (List.nodup_cons.mpr ⟨hnv, hnd⟩)

/-! ### enough fuel -/

/-- number of (occurrences of) nodes of `nodes` not yet visited -/
def meas (nodes vis : List Nat) : Nat := (nodes.filter (fun x => !vis.contains x)).length

theorem meas_cons (x : Nat) (nodes vis : List Nat) :
    meas (x :: nodes) vis = (if x ∈ vis then 0 else 1) + meas nodes vis := by
  unfold meas
  by_cases hx : x ∈ vis
  · simp [List.filter_cons, hx]
  · simp [List.filter_cons, hx]; omega

theorem meas_mono {nodes vis vis' : List Nat} (hsub : ∀ v, v ∈ vis → v ∈ vis') :
    meas nodes vis' ≤ meas nodes vis := by
  induction nodes with
  | nil => simp [meas]
  | cons x rest ih =>
    rw [meas_cons, meas_cons]
    by_cases hx : x ∈ vis
    · simp only [hx, hsub x hx, if_true]; omega
    · by_cases hx' : x ∈ vis'
      · simp only [hx, hx', if_true, if_false]; omega
      · simp only [hx, hx', if_false]; omega

theorem meas_lt {nodes vis vis' : List Nat} {u : Nat} (hu : u ∈ nodes) (hnv : u ∉ vis) (hv : u ∈ vis')
    (hsub : ∀ v, v ∈ vis → v ∈ vis') : meas nodes vis' < meas nodes vis := by
  induction nodes with
  | nil => simp at hu
  | cons x rest ih =>
    rw [meas_cons, meas_cons]
    have hm := meas_mono (nodes := rest) hsub
    by_cases hxu : x = u
    · subst hxu
      simp only [hnv, hv, if_true, if_false]; omega
    · have hu' : u ∈ rest := by
        rcases List.mem_cons.mp hu with e | e
        · exact absurd e.symm hxu
        · exact e
      have := ih hu'
      by_cases hx : x ∈ vis
      · simp only [hx, hsub x hx, if_true]; omega
      · by_cases hx' : x ∈ vis'
        · simp only [hx, hx', if_true, if_false]; omega
        · simp only [hx, hx', if_false]; omega

theorem meas_nil (nodes : List Nat) : meas nodes [] = nodes.length := by
  induction nodes with
  | nil => rfl
  | cons x rest ih => rw [meas_cons, ih]; simp; omega

/-- `_update` returns as soon as `fuel` is at least the number of unvisited nodes -/
theorem update_some (nodes : List Nat) :
    ∀ (fuel : Nat) (g : Graph) (vis : List Nat) (u : Nat),
      (∀ x d, d ∈ (get g x).nbrs → d ∈ nodes) → u ∈ nodes → u ∉ vis → meas nodes vis ≤ fuel →
      ∃ g' vis', update fuel g vis u = some (g', vis') ∧ (∀ v, v ∈ vis → v ∈ vis') := by
  intro fuel
  induction fuel with
  | zero =>
    intro g vis u _ hu hnv hm
    have := meas_lt hu hnv (List.mem_cons_self (l := vis)) (fun v hv => List.mem_cons_of_mem _ hv)
    omega
  | succ fuel ih =>
    intro g vis u hnodes hu hnv hm
    rw [update_succ]
    have key : ∀ (l : List Nat) (g1 : Graph) (vis1 : List Nat),
        (∀ x d, d ∈ (get g1 x).nbrs → d ∈ nodes) → (∀ d ∈ l, d ∈ nodes) → meas nodes vis1 ≤ fuel →
        ∃ g' vis', l.foldl (updStep fuel) (some (g1, vis1)) = some (g', vis') ∧
          (∀ v, v ∈ vis1 → v ∈ vis') := by
      intro l
      induction l with
      | nil => intro g1 vis1 _ _ _; exact ⟨g1, vis1, rfl, fun v hv => hv⟩
      | cons d rest ihl =>
        intro g1 vis1 hn1 hl hm1
        simp only [List.foldl_cons]
        have hlr : ∀ d ∈ rest, d ∈ nodes := fun x hx => hl x (List.mem_cons_of_mem _ hx)
        by_cases hd : d ∈ vis1
        · rw [updStep_some_mem hd]; exact ihl g1 vis1 hn1 hlr hm1
        · rw [updStep_some_not_mem hd]
          obtain ⟨g2, vis2, hup, hsub⟩ := ih g1 vis1 d hn1 (hl d List.mem_cons_self) hd hm1
          rw [hup]
          have hn2 : ∀ x d, d ∈ (get g2 x).nbrs → d ∈ nodes := by
            intro x y hy
            rw [get_update_nbrs _ _ _ _ _ _ hup x] at hy
            exact hn1 x y hy
          obtain ⟨g3, vis3, hf3, hsub3⟩ :=
            ihl g2 vis2 hn2 hlr (Nat.le_trans (meas_mono hsub) hm1)
          exact ⟨g3, vis3, hf3, fun v hv => hsub3 v (hsub v hv)⟩
    have hn1 : ∀ x d, d ∈ (get (refresh g u) x).nbrs → d ∈ nodes := by
      intro x y hy; rw [get_refresh_nbrs] at hy; exact hnodes x y hy
    have hlt := meas_lt hu hnv (List.mem_cons_self (l := vis)) (fun v hv => List.mem_cons_of_mem _ hv)
    obtain ⟨g', vis', hf', hsub'⟩ := key _ (refresh g u) (u :: vis) hn1
      (fun d hd => hn1 u d hd) (by omega)
    exact ⟨g', vis', hf', fun v hv => hsub' v (List.mem_cons_of_mem _ hv)⟩

end BeyondVerif.Node
