import BeyondVerif.Model.Iter
import Mathlib.Tactic.Ring
import Mathlib.Tactic.Linarith

/-! Helper lemmas for C08: what the Python `while` loops of the iteration code yield. -/
namespace BeyondVerif.Iter

/-- `start + k·step`, `k = 0 … n` -/
def grid (start step : Int) (n : Nat) : List Int := (List.range (n + 1)).map (fun (k : Nat) => start + (k : Int) * step)

theorem grid_zero (start step : Int) : grid start step 0 = [start] := by simp [grid]

theorem grid_succ (start step : Int) (n : Nat) : grid start step (n + 1) = start :: grid (start + step) step n := by
  unfold grid
  rw [List.range_succ_eq_map]
  simp only [List.map_cons, List.map_map]
  congr 1
  · simp
  · apply List.map_congr_left
    intro k _
    simp only [Function.comp]
    push_cast
    ring

theorem mem_grid {start step : Int} {n : Nat} {d : Int} : d ∈ grid start step n ↔ ∃ k : Nat, k ≤ n ∧ d = start + (k : Int) * step := by
  unfold grid
  simp only [List.mem_map, List.mem_range]
  constructor
  · rintro ⟨k, hk, rfl⟩; exact ⟨k, by omega, rfl⟩
  · rintro ⟨k, hk, rfl⟩; exact ⟨k, by omega, rfl⟩

theorem grid_length (start step : Int) (n : Nat) : (grid start step n).length = n + 1 := by simp [grid]

/-- a `while cond(date)` loop whose condition holds on the first `n+1` grid points and fails on the next one
yields exactly those points and ends normally (fuel permitting) -/
theorem loop_exact (cond ok : Int → Bool) (step : Int) (n : Nat) : ∀ (start : Int) (fuel : Nat),
    (∀ k : Nat, k ≤ n → cond (start + (k : Int) * step) = true ∧ ok (start + (k : Int) * step) = true) →
    cond (start + ((n : Int) + 1) * step) = false → n + 1 < fuel →
    loop cond ok step fuel start = ⟨grid start step n, .done⟩ := by
  induction n with
  | zero =>
    intro start fuel h hstop hf
    obtain ⟨f, rfl⟩ : ∃ f, fuel = f + 2 := ⟨fuel - 2, by omega⟩
    have h0 := h 0 (le_refl _)
    simp only [Nat.cast_zero, zero_mul, add_zero] at h0
    simp only [Nat.cast_zero, zero_add, one_mul] at hstop
    simp [loop, h0.1, h0.2, hstop, Run.cons, grid_zero]
  | succ n ih =>
    intro start fuel h hstop hf
    obtain ⟨f, rfl⟩ : ∃ f, fuel = f + 1 := ⟨fuel - 1, by omega⟩
    have h0 := h 0 (Nat.zero_le _)
    simp only [Nat.cast_zero, zero_mul, add_zero] at h0
    have := ih (start + step) f
      (fun k hk => by
        have := h (k + 1) (by omega)
        have e : start + ((k + 1 : Nat) : Int) * step = start + step + (k : Int) * step := by push_cast; ring
        rwa [e] at this)
      (by
        have e : start + (((n + 1 : Nat) : Int) + 1) * step = start + step + ((n : Int) + 1) * step := by push_cast; ring
        rwa [e] at hstop)
      (by omega)
    simp [loop, h0.1, h0.2, this, Run.cons, grid_succ]

theorem loop_none (cond ok : Int → Bool) (step start : Int) (fuel : Nat) (h : cond start = false) (hf : 0 < fuel) :
    loop cond ok step fuel start = ⟨[], .done⟩ := by
  obtain ⟨f, rfl⟩ : ∃ f, fuel = f + 1 := ⟨fuel - 1, by omega⟩
  simp [loop, h]

/-- the first interpolation of a resampling loop fails: nothing is yielded, `ValueError` -/
theorem loop_fail_first (cond ok : Int → Bool) (step start : Int) (fuel : Nat) (h : cond start = true) (ho : ok start = false)
    (hf : 0 < fuel) : loop cond ok step fuel start = Run.fail .value := by
  obtain ⟨f, rfl⟩ : ∃ f, fuel = f + 1 := ⟨fuel - 1, by omega⟩
  simp [loop, h, ho]

theorem listRun_all (ok : Int → Bool) (l : List Int) (h : ∀ d ∈ l, ok d = true) : listRun ok l = ⟨l, .done⟩ := by
  induction l with
  | nil => rfl
  | cons d r ih =>
    have hd := h d (by simp)
    have := ih (fun x hx => h x (by simp [hx]))
    simp [listRun, hd, this, Run.cons]

theorem cast_mul_mono {k n : Nat} (h : k ≤ n) {step : Int} (hs : 0 ≤ step) : (k : Int) * step ≤ (n : Int) * step :=
  Int.mul_le_mul_of_nonneg_right (by exact_mod_cast h) hs

theorem cast_mul_anti {k n : Nat} (h : k ≤ n) {step : Int} (hs : step ≤ 0) : (n : Int) * step ≤ (k : Int) * step := by
  have := cast_mul_mono h (step := -step) (by omega)
  linarith

/-- forward inclusive loop: `n = ⌊(stop − start)/step⌋` expressed by its bracketing inequalities -/
theorem loop_up (ok : Int → Bool) (start stop step : Int) (n fuel : Nat) (hs : 0 < step)
    (h1 : start + (n : Int) * step ≤ stop) (h2 : stop < start + ((n : Int) + 1) * step)
    (hok : ∀ k : Nat, k ≤ n → ok (start + (k : Int) * step) = true) (hf : n + 1 < fuel) :
    loop (fun d => decide (d ≤ stop)) ok step fuel start = ⟨grid start step n, .done⟩ := by
  apply loop_exact _ _ _ _ _ _ _ _ hf
  · intro k hk
    refine ⟨?_, hok k hk⟩
    have := cast_mul_mono hk (le_of_lt hs)
    simp only [decide_eq_true_eq]
    linarith
  · simp only [decide_eq_false_iff_not, not_le]
    exact h2

/-- backward inclusive loop (`step < 0`, `while date >= stop`) -/
theorem loop_down (ok : Int → Bool) (start stop step : Int) (n fuel : Nat) (hs : step < 0)
    (h1 : stop ≤ start + (n : Int) * step) (h2 : start + ((n : Int) + 1) * step < stop)
    (hok : ∀ k : Nat, k ≤ n → ok (start + (k : Int) * step) = true) (hf : n + 1 < fuel) :
    loop (fun d => decide (d ≥ stop)) ok step fuel start = ⟨grid start step n, .done⟩ := by
  apply loop_exact _ _ _ _ _ _ _ _ hf
  · intro k hk
    refine ⟨?_, hok k hk⟩
    have := cast_mul_anti hk (le_of_lt hs)
    simp only [decide_eq_true_eq, ge_iff_le]
    linarith
  · simp only [decide_eq_false_iff_not, ge_iff_le, not_le]
    exact h2

end BeyondVerif.Iter

namespace BeyondVerif.Iter

theorem grid_head (start step : Int) (n : Nat) : (grid start step n).head? = some start := by
  cases n with
  | zero => simp [grid_zero]
  | succ n => simp [grid_succ]

theorem grid_getLast (start step : Int) (n : Nat) : (grid start step n).getLast? = some (start + (n : Int) * step) := by
  simp [grid, List.range_succ]

/-- signed integration steps: `−rs len` when integrating backward -/
def sdelta (backward : Bool) (rs : Nat → Int) : Nat → Int := fun len => if backward then -(rs len) else rs len

/-- the dates of an integration: `date`, then `k` steps of signed lengths `δ len, δ (len+1), …` -/
def path (δ : Nat → Int) : Nat → Int → Nat → List Int
  | _, date, 0 => [date]
  | len, date, k + 1 => date :: path δ (len + 1) (date + δ len) k

/-- the date reached after `k` such steps -/
def endp (δ : Nat → Int) : Nat → Int → Nat → Int
  | _, date, 0 => date
  | len, date, k + 1 => endp δ (len + 1) (date + δ len) k

theorem path_head (δ : Nat → Int) (len : Nat) (date : Int) (k : Nat) : (path δ len date k).head? = some date := by
  cases k <;> simp [path]

theorem path_length (δ : Nat → Int) : ∀ (k len : Nat) (date : Int), (path δ len date k).length = k + 1 := by
  intro k
  induction k with
  | zero => intro len date; simp [path]
  | succ k ih => intro len date; simp [path, ih]

theorem path_getLast (δ : Nat → Int) : ∀ (k len : Nat) (date : Int), (path δ len date k).getLast? = some (endp δ len date k) := by
  intro k
  induction k with
  | zero => intro len date; simp [path, endp]
  | succ k ih =>
    intro len date
    have hne : path δ (len + 1) (date + δ len) k ≠ [] := by
      intro h; have := path_length δ k (len + 1) (date + δ len); rw [h] at this; simp at this
    simp only [path, endp]
    rw [List.getLast?_cons_of_ne_nil hne]
    exact ih (len + 1) (date + δ len)

/-- fixed-step methods: the integration points are the grid `date + k·h` -/
theorem path_const (h : Int) : ∀ (k len : Nat) (date : Int), path (fun _ => h) len date k = grid date h k := by
  intro k
  induction k with
  | zero => intro len date; simp [path, grid_zero]
  | succ k ih => intro len date; simp [path, grid_succ, ih]

theorem endp_const (h : Int) : ∀ (k len : Nat) (date : Int), endp (fun _ => h) len date k = date + (k : Int) * h := by
  intro k
  induction k with
  | zero => intro len date; simp [endp]
  | succ k ih => intro len date; simp only [endp, ih]; push_cast; ring

/-- the marching loop of `KeplerNum._iter` (forward or backward, with or without padding to `order` points, whatever the
lengths of the integration steps) ends within any number `m` of steps after which the loop condition is false; it has then
tabulated the first `m' + 1` dates of the integration, for the first such `m' ≤ m` -/
theorem march_some (backward interp : Bool) (order : Nat) (rs : Nat → Int) (stop : Int) (m : Nat) : ∀ (len : Nat) (date : Int) (fuel : Nat),
    (if backward then decide (endp (sdelta backward rs) len date m > stop) else decide (endp (sdelta backward rs) len date m < stop)) = false →
    (interp = true → order ≤ len + m) → m < fuel →
    ∃ m' : Nat, m' ≤ m ∧ (march backward interp order rs stop fuel len date).map (date :: ·) = some (path (sdelta backward rs) len date m') ∧
      (if backward then decide (endp (sdelta backward rs) len date m' > stop) else decide (endp (sdelta backward rs) len date m' < stop)) = false ∧
      (interp = true → order ≤ len + m') := by
  induction m with
  | zero =>
    intro len date fuel hfar hord hf
    obtain ⟨f, rfl⟩ : ∃ f, fuel = f + 1 := ⟨fuel - 1, by omega⟩
    have hfar0 : (if backward then decide (date > stop) else decide (date < stop)) = false := hfar
    refine ⟨0, le_refl _, ?_, hfar, hord⟩
    have hlen : (interp && decide (len < order)) = false := by
      cases interp with
      | false => rfl
      | true => have := hord rfl; simp; omega
    simp [march, hfar0, hlen, path]
  | succ m ih =>
    intro len date fuel hfar hord hf
    obtain ⟨f, rfl⟩ : ∃ f, fuel = f + 1 := ⟨fuel - 1, by omega⟩
    by_cases hc : ((if backward then decide (date > stop) else decide (date < stop)) || (interp && decide (len < order))) = true
    · obtain ⟨m', hm', hmarch, hfar', hord'⟩ := ih (len + 1) (date + sdelta backward rs len) f hfar (fun hi => by have := hord hi; omega) (by omega)
      refine ⟨m' + 1, by omega, ?_, hfar', fun hi => by have := hord' hi; omega⟩
      simp only [march, hc, if_true, path]
      have e : date + (if backward = true then -(rs len) else rs len) = date + sdelta backward rs len := rfl
      rw [e]
      cases hm : march backward interp order rs stop f (len + 1) (date + sdelta backward rs len) with
      | none => simp [hm] at hmarch
      | some l => simp [hm] at hmarch; simp [hmarch]
    · have hc' : ((if backward then decide (date > stop) else decide (date < stop)) || (interp && decide (len < order))) = false :=
        Bool.eq_false_iff.mpr hc
      rw [Bool.or_eq_false_iff] at hc'
      refine ⟨0, Nat.zero_le _, ?_, hc'.1, ?_⟩
      · simp [march, hc'.1, hc'.2, path]
      · intro hi
        have := hc'.2
        simp [hi] at this
        omega

theorem ownPts_all (lo hi : Int) (l : List Int) (h : ∀ d ∈ l, lo ≤ d ∧ d ≤ hi) : ownPts lo hi l = l := by
  induction l with
  | nil => rfl
  | cons d r ih =>
    have hd := h d (by simp)
    have h1 : ¬ d < lo := by omega
    have h2 : ¬ d > hi := by omega
    simp [ownPts, h1, h2, ih (fun x hx => h x (by simp [hx]))]

theorem ownPts_none (lo hi s h : Int) (m : Nat) (h1 : lo ≤ s) (h2 : hi < s) : ownPts lo hi (grid s h m) = [] := by
  have h1' : ¬ s < lo := by omega
  cases m with
  | zero => simp [grid_zero, ownPts, h1', h2]
  | succ m => simp [grid_succ, ownPts, h1', h2]

/-- the points of an integration grid `start + k·h`, `k ≤ m`, that lie in `[lo, hi]` (`lo ≤ start`) are the first `n + 1`,
`n = ⌊(hi − start)/h⌋ ≤ m` -/
theorem ownPts_grid (lo hi h : Int) (hh : 0 < h) (m : Nat) : ∀ (start : Int) (n : Nat), lo ≤ start → n ≤ m →
    start + (n : Int) * h ≤ hi → hi < start + ((n : Int) + 1) * h → ownPts lo hi (grid start h m) = grid start h n := by
  induction m with
  | zero =>
    intro start n hlo hn h1 h2
    obtain rfl : n = 0 := by omega
    simp only [Nat.cast_zero, zero_mul, add_zero] at h1
    have a1 : ¬ start < lo := by omega
    have a2 : ¬ start > hi := by omega
    simp [grid_zero, ownPts, a1, a2]
  | succ m ih =>
    intro start n hlo hn h1 h2
    have h0 : (0 : Int) ≤ (n : Int) * h := Int.mul_nonneg (by exact_mod_cast Nat.zero_le n) (le_of_lt hh)
    have a1 : ¬ start < lo := by omega
    have a2 : ¬ start > hi := by omega
    rw [grid_succ]
    simp only [ownPts, a1, a2, if_false]
    cases n with
    | zero =>
      simp only [Nat.cast_zero, zero_add, one_mul] at h2
      rw [ownPts_none lo hi (start + h) h m (by omega) h2, grid_zero]
    | succ n =>
      rw [grid_succ]
      congr 1
      apply ih (start + h) n (by omega) (by omega)
      · have e : start + ((n + 1 : Nat) : Int) * h = start + h + (n : Int) * h := by push_cast; ring
        rwa [e] at h1
      · have e : start + (((n + 1 : Nat) : Int) + 1) * h = start + h + ((n : Int) + 1) * h := by push_cast; ring
        rwa [e] at h2

theorem listMin_le (d : Int) (l : List Int) : ∀ x ∈ d :: l, listMin d l ≤ x := by
  induction l generalizing d with
  | nil => intro x hx; simp at hx; simp [listMin, hx]
  | cons y r ih =>
    intro x hx
    have e : listMin d (y :: r) = listMin (min d y) r := rfl
    rw [e]
    have h0 := ih (min d y) (min d y) (by simp)
    simp only [List.mem_cons] at hx
    rcases hx with rfl | rfl | hx
    · have := Int.min_le_left x y; omega
    · have := Int.min_le_right d x; omega
    · exact ih (min d y) x (by simp [hx])

theorem le_listMax (d : Int) (l : List Int) : ∀ x ∈ d :: l, x ≤ listMax d l := by
  induction l generalizing d with
  | nil => intro x hx; simp at hx; simp [listMax, hx]
  | cons y r ih =>
    intro x hx
    have e : listMax d (y :: r) = listMax (max d y) r := rfl
    rw [e]
    have h0 := ih (max d y) (max d y) (by simp)
    simp only [List.mem_cons] at hx
    rcases hx with rfl | rfl | hx
    · have := Int.le_max_left x y; omega
    · have := Int.le_max_right d x; omega
    · exact ih (max d y) x (by simp [hx])

theorem listMin_mem (d : Int) (l : List Int) : listMin d l ∈ d :: l := by
  induction l generalizing d with
  | nil => simp [listMin]
  | cons y r ih =>
    have e : listMin d (y :: r) = listMin (min d y) r := rfl
    rw [e]
    have := ih (min d y)
    simp only [List.mem_cons] at this ⊢
    rcases this with h | h
    · rcases Int.min_def d y ▸ (by split <;> simp : (if d ≤ y then d else y) = d ∨ (if d ≤ y then d else y) = y) with h' | h'
      · left; rw [h, h']
      · right; left; rw [h, h']
    · right; right; exact h

theorem listMax_mem (d : Int) (l : List Int) : listMax d l ∈ d :: l := by
  induction l generalizing d with
  | nil => simp [listMax]
  | cons y r ih =>
    have e : listMax d (y :: r) = listMax (max d y) r := rfl
    rw [e]
    have := ih (max d y)
    simp only [List.mem_cons] at this ⊢
    rcases this with h | h
    · rcases Int.max_def d y ▸ (by split <;> simp : (if d ≤ y then y else d) = d ∨ (if d ≤ y then y else d) = y) with h' | h'
      · left; rw [h, h']
      · right; left; rw [h, h']
    · right; right; exact h

/-! ### `Date.range` loop conditions, `Ephem.iter` special cases, `KeplerNum._iter` reduced to `Ephem.iter` -/

theorem rangeCond_up {stop step : Int} (hs : 0 < step) : rangeCond stop step true = fun d => decide (d ≤ stop) := by
  funext d; simp [rangeCond, hs]

theorem rangeCond_down {stop step : Int} (hs : step < 0) : rangeCond stop step true = fun d => decide (d ≥ stop) := by
  funext d
  have : ¬ (0 < step) := by omega
  simp [rangeCond, this]

theorem interpOk_of {order : Nat} {pts : List Int} {first last d : Int} (hh : pts.head? = some first)
    (hl : pts.getLast? = some last) (hord : order ≤ pts.length) (h1 : first ≤ d) (h2 : d ≤ last) : interpOk order pts d = true := by
  simp [interpOk, hh, hl, hord, h1, h2]

/-- `Ephem.iter(dates=ds, ...)`: only the dates matter -/
theorem ephemIter_dates (fuel order : Nat) (pts : List Int) (ds : Dates) (start : Option Int) (stop : Option Stop)
    (step : Option Int) (strict : Bool) :
    ephemIter fuel order pts (some ds) start stop step strict = ds.run (interpOk order pts) fuel := rfl

/-- `Ephem.iter(stop=stop, step=step)` from the first point: resampling -/
theorem ephemIter_resample_up (fuel order : Nat) (pts : List Int) (first last stop step : Int) (n : Nat)
    (hh : pts.head? = some first) (hl : pts.getLast? = some last) (hord : order ≤ pts.length) (hs : 0 < step)
    (hsl : stop ≤ last) (h1 : first + (n : Int) * step ≤ stop) (h2 : stop < first + ((n : Int) + 1) * step) (hf : n + 1 < fuel) :
    ephemIter fuel order pts none none (some (.at stop)) (some step) true = ⟨grid first step n, .done⟩ := by
  have hng : ¬ stop > last := by omega
  unfold ephemIter
  simp only [hh, hl, hng, Stop.resolve, if_false, Option.getD_none]
  apply loop_up _ first stop step n fuel hs h1 h2 _ hf
  intro k hk
  have := cast_mul_mono hk (le_of_lt hs)
  have : (0 : Int) ≤ (k : Int) * step := Int.mul_nonneg (by exact_mod_cast Nat.zero_le k) (le_of_lt hs)
  exact interpOk_of hh hl hord (by omega) (by linarith)

/-- `Ephem.iter(stop=stop)` from the first point: the tabulated points up to stop -/
theorem ephemIter_own_up (fuel order : Nat) (pts : List Int) (first last stop : Int)
    (hh : pts.head? = some first) (hl : pts.getLast? = some last) (hsl : stop ≤ last) :
    ephemIter fuel order pts none none (some (.at stop)) none true = ⟨ownPts first stop pts, .done⟩ := by
  have hng : ¬ stop > last := by omega
  unfold ephemIter
  simp only [hh, hl, hng, Stop.resolve, if_false, Option.getD_none]

theorem sdelta_false (rs : Nat → Int) : sdelta false rs = rs := by funext k; simp [sdelta]

/-- `KeplerNum._iter`, forward range (or explicit dates spanning `start … stop`), whatever the lengths `rs` of the integration
steps: given fuel for any `m` steps that reach stop and fill the interpolation order, the integration points reach stop, number
at least `order` whenever an output is interpolated, and are handed to `Ephem.iter` with `stop` as its last date -/
theorem numCore_forward (fuel order : Nat) (h : Int) (rs : Nat → Int) (start stop : Int) (kstep : Option Int) (dates : Option Dates)
    (listening : Bool) (m : Nat) (hfw : start ≤ stop) (hm : stop ≤ endp rs 1 start m) (hmo : order ≤ m + 1) (hf : m < fuel) :
    ∃ m' : Nat, stop ≤ endp rs 1 start m' ∧ ((dates.isSome || kstep.isSome || listening) = true → order ≤ m' + 1) ∧
      numCore fuel order h rs start stop kstep dates listening
        = (true, ephemIter fuel order (path rs 1 start m') dates none (if dates.isNone then some (.at stop) else none) kstep true) := by
  have hb : decide (stop < start) = false := by simp; omega
  obtain ⟨m', _, hmarch, hfar, hord⟩ := march_some false (dates.isSome || kstep.isSome || listening) order rs stop m 1 start fuel
    (by rw [sdelta_false]; simp; omega) (fun _ => by omega) hf
  rw [sdelta_false] at hmarch hfar
  simp only [Bool.false_eq_true, if_false, decide_eq_false_iff_not, not_lt] at hfar
  refine ⟨m', hfar, fun hi => by have := hord hi; omega, ?_⟩
  unfold numCore
  simp only [hb, Bool.false_eq_true, if_false, Bool.false_and]
  cases hmm : march false (dates.isSome || kstep.isSome || listening) order rs stop fuel 1 start with
  | none => rw [hmm] at hmarch; simp at hmarch
  | some more =>
    rw [hmm] at hmarch
    simp only [Option.map_some, Option.some.injEq] at hmarch
    simp [hmarch, hfw]

/-- `KeplerNum._iter`, backward range with the (negative) step `s` it receives from `NumericalPropagator.iter`: the integration
runs down to stop and to `order` points, and `Ephem.iter` is given the dates `Date.range(start, stop, s)` -/
theorem numCore_backward (fuel order : Nat) (h : Int) (rs : Nat → Int) (start stop s : Int) (listening : Bool) (m : Nat)
    (hbw : stop < start) (hs : s < 0) (hm : endp (sdelta true rs) 1 start m ≤ stop) (hmo : order ≤ m + 1) (hf : m < fuel) :
    ∃ m' : Nat, endp (sdelta true rs) 1 start m' ≤ stop ∧ order ≤ m' + 1 ∧
      numCore fuel order h rs start stop (some s) none listening
        = (true, ephemIter fuel order (path (sdelta true rs) 1 start m').reverse (some (.range start stop s true)) none none (some s) true) := by
  have hb : decide (stop < start) = true := by simp; omega
  obtain ⟨m', _, hmarch, hfar, hord⟩ := march_some true ((none : Option Dates).isSome || (some s).isSome || listening) order rs stop m 1
    start fuel (by simpa using hm) (fun _ => by omega) hf
  simp only [if_true, decide_eq_false_iff_not, not_lt, gt_iff_lt] at hfar
  refine ⟨m', hfar, by have := hord (by simp); omega, ?_⟩
  have e1 : pySign (stop - start) = -1 := by unfold pySign; rw [if_neg]; omega
  have e2 : pySign s = -1 := by unfold pySign; rw [if_neg]; omega
  unfold numCore
  simp only [hb, if_true]
  cases hmm : march true ((none : Option Dates).isSome || (some s).isSome || listening) order rs stop fuel 1 start with
  | none => rw [hmm] at hmarch; simp at hmarch
  | some more =>
    rw [hmm] at hmarch
    simp only [Option.map_some, Option.some.injEq] at hmarch
    have hne : s ≠ 0 := by omega
    have hnle : ¬ start ≤ stop := by omega
    simp [hmarch, mkRange, hne, e1, e2, Except.map, hnle]

/-! ### own points of a sorted ephemeris; iterating a `DateRange` object -/

/-- `Ephem.__init__` sorts its points by date: the loop `for orb in self: if date < start: continue; if date > stop: break`
yields exactly the tabulated dates within `[start, stop]` -/
theorem ownPts_sorted (lo hi : Int) (l : List Int) (h : l.Pairwise (· ≤ ·)) :
    ownPts lo hi l = l.filter (fun d => decide (lo ≤ d) && decide (d ≤ hi)) := by
  induction l with
  | nil => rfl
  | cons d r ih =>
    rw [List.pairwise_cons] at h
    by_cases h1 : d < lo
    · have : ¬ lo ≤ d := by omega
      simp [ownPts, h1, this, ih h.2]
    · by_cases h2 : d > hi
      · have hn : r.filter (fun d => decide (lo ≤ d) && decide (d ≤ hi)) = [] := by
          rw [List.filter_eq_nil_iff]
          intro x hx
          have := h.1 x hx
          simp only [Bool.and_eq_true, decide_eq_true_eq, not_and, not_le]
          intro _; omega
        have : ¬ d ≤ hi := by omega
        simp [ownPts, h1, h2, this, hn]
      · have a1 : lo ≤ d := by omega
        have a2 : d ≤ hi := by omega
        simp [ownPts, h1, h2, a1, a2, ih h.2]

/-- the backward loop over the reversed (descending) points yields the tabulated dates within `[stop, start]`, last first -/
theorem ownPtsBack_sorted (hi lo : Int) (l : List Int) (h : l.Pairwise (· ≥ ·)) :
    ownPtsBack hi lo l = l.filter (fun d => decide (lo ≤ d) && decide (d ≤ hi)) := by
  induction l with
  | nil => rfl
  | cons d r ih =>
    rw [List.pairwise_cons] at h
    by_cases h1 : d > hi
    · have : ¬ d ≤ hi := by omega
      simp [ownPtsBack, h1, this, ih h.2]
    · by_cases h2 : d < lo
      · have hn : r.filter (fun d => decide (lo ≤ d) && decide (d ≤ hi)) = [] := by
          rw [List.filter_eq_nil_iff]
          intro x hx
          have := h.1 x hx
          simp only [Bool.and_eq_true, decide_eq_true_eq, not_and, not_le]
          intro _; omega
        have : ¬ lo ≤ d := by omega
        simp [ownPtsBack, h1, h2, this, hn]
      · have a1 : lo ≤ d := by omega
        have a2 : d ≤ hi := by omega
        simp [ownPtsBack, h1, h2, a1, a2, ih h.2]

/-- a loop whose `propagate` succeeds on every date the bare loop yields, yields the same -/
theorem loop_ok_of_yes (cond ok : Int → Bool) (step : Int) : ∀ (fuel : Nat) (start : Int),
    (∀ d ∈ (loop cond yes step fuel start).dates, ok d = true) → loop cond ok step fuel start = loop cond yes step fuel start := by
  intro fuel
  induction fuel with
  | zero => intro start _; rfl
  | succ f ih =>
    intro start h
    by_cases hc : cond start = true
    · simp only [loop, hc, if_true, yes] at h ⊢
      have h0 : ok start = true := h start (by simp [Run.cons])
      have := ih (start + step) (fun d hd => h d (by simp [Run.cons, hd]))
      simp [h0, this]
    · simp [loop, hc]

/-- the dates a forward `DateRange` yields lie between its start and its stop -/
theorem loop_range_mem_up (s1 st : Int) (incl : Bool) (hs : 0 < st) : ∀ (fuel : Nat) (start d : Int),
    d ∈ (loop (rangeCond s1 st incl) yes st fuel start).dates → start ≤ d ∧ d ≤ s1 := by
  intro fuel
  induction fuel with
  | zero => intro start d h; simp [loop] at h
  | succ f ih =>
    intro start d h
    by_cases hc : rangeCond s1 st incl start = true
    · simp only [loop, hc, if_true, yes, Run.cons, List.mem_cons] at h
      have hle : start ≤ s1 := by
        unfold rangeCond at hc
        simp only [hs, if_true] at hc
        cases incl <;> simp at hc <;> omega
      rcases h with rfl | h
      · exact ⟨le_refl _, hle⟩
      · have := ih (start + st) d h
        exact ⟨by omega, this.2⟩
    · simp [loop, hc] at h

/-- … and for a backward `DateRange` between its stop and its start -/
theorem loop_range_mem_down (s1 st : Int) (incl : Bool) (hs : st < 0) : ∀ (fuel : Nat) (start d : Int),
    d ∈ (loop (rangeCond s1 st incl) yes st fuel start).dates → s1 ≤ d ∧ d ≤ start := by
  intro fuel
  induction fuel with
  | zero => intro start d h; simp [loop] at h
  | succ f ih =>
    intro start d h
    by_cases hc : rangeCond s1 st incl start = true
    · simp only [loop, hc, if_true, yes, Run.cons, List.mem_cons] at h
      have hle : s1 ≤ start := by
        unfold rangeCond at hc
        have : ¬ st > 0 := by omega
        simp only [this, if_false] at hc
        cases incl <;> simp at hc <;> omega
      rcases h with rfl | h
      · exact ⟨hle, le_refl _⟩
      · have := ih (start + st) d h
        exact ⟨this.1, by omega⟩
    · simp [loop, hc] at h

/-- `KeplerNum._iter` with the dates of a backward `DateRange` (or any dates spanning `stop … start`, `stop < start`): the
integration runs down to stop and to `order` points, the points are sorted, and `Ephem.iter` is given the dates -/
theorem numCore_backward_dates (fuel order : Nat) (h : Int) (rs : Nat → Int) (start stop : Int) (ds : Dates) (listening : Bool) (m : Nat)
    (hbw : stop < start) (hm : endp (sdelta true rs) 1 start m ≤ stop) (hmo : order ≤ m + 1) (hf : m < fuel) :
    ∃ m' : Nat, endp (sdelta true rs) 1 start m' ≤ stop ∧ order ≤ m' + 1 ∧
      numCore fuel order h rs start stop none (some ds) listening
        = (true, ephemIter fuel order (path (sdelta true rs) 1 start m').reverse (some ds) none none none true) := by
  have hb : decide (stop < start) = true := by simp; omega
  obtain ⟨m', _, hmarch, hfar, hord⟩ := march_some true ((some ds).isSome || (none : Option Int).isSome || listening) order rs stop m 1
    start fuel (by simpa using hm) (fun _ => by omega) hf
  simp only [if_true, decide_eq_false_iff_not, not_lt, gt_iff_lt] at hfar
  refine ⟨m', hfar, by have := hord (by simp); omega, ?_⟩
  unfold numCore
  simp only [hb, if_true]
  cases hmm : march true ((some ds).isSome || (none : Option Int).isSome || listening) order rs stop fuel 1 start with
  | none => rw [hmm] at hmarch; simp at hmarch
  | some more =>
    rw [hmm] at hmarch
    simp only [Option.map_some, Option.some.injEq] at hmarch
    simp [hmarch]

end BeyondVerif.Iter
