import BeyondVerif.Model.Iter
import Mathlib.Tactic.Ring
import Mathlib.Tactic.Linarith

/-! Helper lemmas for C08: what the Python `while` loops of the iteration code yield. -/
namespace BeyondVerif.Iter

/-- `start + k·step`, `k = 0 … n` -/
def grid (start step : Int) (n : Nat) : List Int := (List.range (n + 1)).map (fun (k : Nat) => start + (k : Int) * step)

theorem grid_zero (start step : Int) : grid start step 0 = [start] := by simp [grid]

theorem grid_succ (start step : Int) (n : Nat) : grid start step (n + 1) = start :: grid (start + step) step n := by
  unfold grid
  rw [List.range_succ_eq_map]
  simp only [List.map_cons, List.map_map]
  congr 1
  · simp
  · apply List.map_congr_left
    intro k _
    simp only [Function.comp]
    push_cast
    ring

theorem mem_grid {start step : Int} {n : Nat} {d : Int} : d ∈ grid start step n ↔ ∃ k : Nat, k ≤ n ∧ d = start + (k : Int) * step := by
  unfold grid
  simp only [List.mem_map, List.mem_range]
  constructor
  · rintro ⟨k, hk, rfl⟩; exact ⟨k, by omega, rfl⟩
  · rintro ⟨k, hk, rfl⟩; exact ⟨k, by omega, rfl⟩

theorem grid_length (start step : Int) (n : Nat) : (grid start step n).length = n + 1 := by simp [grid]

/-- a `while cond(date)` loop whose condition holds on the first `n+1` grid points and fails on the next one
yields exactly those points and ends normally (fuel permitting) -/
theorem loop_exact (cond ok : Int → Bool) (step : Int) (n : Nat) : ∀ (start : Int) (fuel : Nat),
    (∀ k : Nat, k ≤ n → cond (start + (k : Int) * step) = true ∧ ok (start + (k : Int) * step) = true) →
    cond (start + ((n : Int) + 1) * step) = false → n + 1 < fuel →
    loop cond ok step fuel start = ⟨grid start step n, .done⟩ := by
  induction n with
  | zero =>
    intro start fuel h hstop hf
    obtain ⟨f, rfl⟩ : ∃ f, fuel = f + 2 := ⟨fuel - 2, by omega⟩
    have h0 := h 0 (le_refl _)
    simp only [Nat.cast_zero, zero_mul, add_zero] at h0
    simp only [Nat.cast_zero, zero_add, one_mul] at hstop
    simp [loop, h0.1, h0.2, hstop, Run.cons, grid_zero]
  | succ n ih =>
    intro start fuel h hstop hf
    obtain ⟨f, rfl⟩ : ∃ f, fuel = f + 1 := ⟨fuel - 1, by omega⟩
    have h0 := h 0 (Nat.zero_le _)
    simp only [Nat.cast_zero, zero_mul, add_zero] at h0
    have := ih (start + step) f
      (fun k hk => by
        have := h (k + 1) (by omega)
        have e : start + ((k + 1 : Nat) : Int) * step = start + step + (k : Int) * step := by push_cast; ring
        rwa [e] at this)
      (by
        have e : start + (((n + 1 : Nat) : Int) + 1) * step = start + step + ((n : Int) + 1) * step := by push_cast; ring
        rwa [e] at hstop)
      (by omega)
    simp [loop, h0.1, h0.2, this, Run.cons, grid_succ]

theorem loop_none (cond ok : Int → Bool) (step start : Int) (fuel : Nat) (h : cond start = false) (hf : 0 < fuel) :
    loop cond ok step fuel start = ⟨[], .done⟩ := by
  obtain ⟨f, rfl⟩ : ∃ f, fuel = f + 1 := ⟨fuel - 1, by omega⟩
  simp [loop, h]

/-- the first interpolation of a resampling loop fails: nothing is yielded, `ValueError` -/
theorem loop_fail_first (cond ok : Int → Bool) (step start : Int) (fuel : Nat) (h : cond start = true) (ho : ok start = false)
    (hf : 0 < fuel) : loop cond ok step fuel start = Run.fail .value := by
  obtain ⟨f, rfl⟩ : ∃ f, fuel = f + 1 := ⟨fuel - 1, by omega⟩
  simp [loop, h, ho]

theorem listRun_all (ok : Int → Bool) (l : List Int) (h : ∀ d ∈ l, ok d = true) : listRun ok l = ⟨l, .done⟩ := by
  induction l with
  | nil => rfl
  | cons d r ih =>
    have hd := h d (by simp)
    have := ih (fun x hx => h x (by simp [hx]))
    simp [listRun, hd, this, Run.cons]

theorem cast_mul_mono {k n : Nat} (h : k ≤ n) {step : Int} (hs : 0 ≤ step) : (k : Int) * step ≤ (n : Int) * step :=
  Int.mul_le_mul_of_nonneg_right (by exact_mod_cast h) hs

theorem cast_mul_anti {k n : Nat} (h : k ≤ n) {step : Int} (hs : step ≤ 0) : (n : Int) * step ≤ (k : Int) * step := by
  have := cast_mul_mono h (step := -step) (by omega)
  linarith

/-- forward inclusive loop: `n = ⌊(stop − start)/step⌋` expressed by its bracketing inequalities -/
theorem loop_up (ok : Int → Bool) (start stop step : Int) (n fuel : Nat) (hs : 0 < step)
    (h1 : start + (n : Int) * step ≤ stop) (h2 : stop < start + ((n : Int) + 1) * step)
    (hok : ∀ k : Nat, k ≤ n → ok (start + (k : Int) * step) = true) (hf : n + 1 < fuel) :
    loop (fun d => decide (d ≤ stop)) ok step fuel start = ⟨grid start step n, .done⟩ := by
  apply loop_exact _ _ _ _ _ _ _ _ hf
  · intro k hk
    refine ⟨?_, hok k hk⟩
    have := cast_mul_mono hk (le_of_lt hs)
    simp only [decide_eq_true_eq]
    linarith
  · simp only [decide_eq_false_iff_not, not_le]
    exact h2

/-- backward inclusive loop (`step < 0`, `while date >= stop`) -/
theorem loop_down (ok : Int → Bool) (start stop step : Int) (n fuel : Nat) (hs : step < 0)
    (h1 : stop ≤ start + (n : Int) * step) (h2 : start + ((n : Int) + 1) * step < stop)
    (hok : ∀ k : Nat, k ≤ n → ok (start + (k : Int) * step) = true) (hf : n + 1 < fuel) :
    loop (fun d => decide (d ≥ stop)) ok step fuel start = ⟨grid start step n, .done⟩ := by
  apply loop_exact _ _ _ _ _ _ _ _ hf
  · intro k hk
    refine ⟨?_, hok k hk⟩
    have := cast_mul_anti hk (le_of_lt hs)
    simp only [decide_eq_true_eq, ge_iff_le]
    linarith
  · simp only [decide_eq_false_iff_not, ge_iff_le, not_le]
    exact h2

end BeyondVerif.Iter

namespace BeyondVerif.Iter

theorem grid_head (start step : Int) (n : Nat) : (grid start step n).head? = some start := by
  cases n with
  | zero => simp [grid_zero]
  | succ n => simp [grid_succ]

theorem grid_getLast (start step : Int) (n : Nat) : (grid start step n).getLast? = some (start + (n : Int) * step) := by
  simp [grid, List.range_succ]

/-- the marching loop of `KeplerNum._iter`: `m` steps, `m` the least number with `start + m·h ≥ stop` -/
theorem march_exact (h stop : Int) (m : Nat) : ∀ (start : Int) (fuel : Nat),
    (∀ k : Nat, k < m → start + (k : Int) * h < stop) → stop ≤ start + (m : Int) * h → m < fuel →
    (march h stop fuel start).map (start :: ·) = some (grid start h m) := by
  induction m with
  | zero =>
    intro start fuel _ hhi hf
    obtain ⟨f, rfl⟩ : ∃ f, fuel = f + 1 := ⟨fuel - 1, by omega⟩
    simp only [Nat.cast_zero, zero_mul, add_zero] at hhi
    have : ¬ start < stop := by omega
    simp [march, this, grid_zero]
  | succ m ih =>
    intro start fuel hlo hhi hf
    obtain ⟨f, rfl⟩ : ∃ f, fuel = f + 1 := ⟨fuel - 1, by omega⟩
    have h0 := hlo 0 (by omega)
    simp only [Nat.cast_zero, zero_mul, add_zero] at h0
    have := ih (start + h) f
      (fun k hk => by
        have := hlo (k + 1) (by omega)
        have e : start + ((k + 1 : Nat) : Int) * h = start + h + (k : Int) * h := by push_cast; ring
        rwa [e] at this)
      (by
        have e : start + ((m + 1 : Nat) : Int) * h = start + h + (m : Int) * h := by push_cast; ring
        rwa [e] at hhi)
      (by omega)
    rw [grid_succ]
    simp only [march, h0, if_true]
    cases hm : march h stop f (start + h) with
    | none => simp [hm] at this
    | some l => simp [hm] at this; simp [this]

theorem ownPts_all (lo hi : Int) (l : List Int) (h : ∀ d ∈ l, lo ≤ d ∧ d ≤ hi) : ownPts lo hi l = l := by
  induction l with
  | nil => rfl
  | cons d r ih =>
    have hd := h d (by simp)
    have h1 : ¬ d < lo := by omega
    have h2 : ¬ d > hi := by omega
    simp [ownPts, h1, h2, ih (fun x hx => h x (by simp [hx]))]

end BeyondVerif.Iter
