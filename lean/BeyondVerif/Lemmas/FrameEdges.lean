import BeyondVerif.Lemmas.Mat3
import BeyondVerif.Lemmas.Chain
import Mathlib.Tactic.NormNum
import Mathlib.Tactic.Positivity
import Mathlib.Tactic.Linarith

/-!
Helper lemmas for C02 about the model's concrete edge function (Model/FramesR.lean `edge`, `edgeBuiltin`) and the local orbital
matrices (`lofMat`, on `lofQsw` / `lofTnw` translated from beyond/frames/local.py):

* `edgeBuiltin_oneDir`: class Orientation has no pair of providers in both directions;
* `edgesOK_edge`: the hypothesis `EdgesOK` of the path-independence theorems, for `edge`, from invertibility of the provider matrices
  and a well-formedness condition on the dynamically registered orientations (`ExtrasOK`);
* `triad_isRotation`, `lofMat_isRotation`: `to_local(orient, sv).T` is a proper rotation whenever `pos × vel ≠ 0`.
-/
namespace BeyondVerif.R
open BeyondVerif.NumReal BeyondVerif.Chain

/-- the 6×6 state matrices with the product, unit and inverse used by the model -/
noncomputable def algT6 : Alg T6 := ⟨T6.mul, T6.one, T6.inv, T6.mul_assoc, T6.one_mul, T6.mul_one⟩

/-- **no link of the built-in orientation tree has providers in both directions** -/
theorem edgeBuiltin_oneDir (D : DateArgs) (na nb : String) (M : T6) (h : edgeBuiltin D na nb = some M) :
    edgeBuiltin D nb na = none := by
  unfold edgeBuiltin at h
  split_ifs at h with h1 h2 h3 h4 h5 h6 h7 h8 h9 h10
  all_goals first
    | (obtain ⟨rfl, rfl⟩ := h1; simp [edgeBuiltin])
    | (obtain ⟨rfl, rfl⟩ := h2; simp [edgeBuiltin])
    | (obtain ⟨rfl, rfl⟩ := h3; simp [edgeBuiltin])
    | (obtain ⟨rfl, rfl⟩ := h4; simp [edgeBuiltin])
    | (obtain ⟨rfl, rfl⟩ := h5; simp [edgeBuiltin])
    | (obtain ⟨rfl, rfl⟩ := h6; simp [edgeBuiltin])
    | (obtain ⟨rfl, rfl⟩ := h7; simp [edgeBuiltin])
    | (obtain ⟨rfl, rfl⟩ := h8; simp [edgeBuiltin])
    | (obtain ⟨rfl, rfl⟩ := h9; simp [edgeBuiltin])
    | (obtain ⟨rfl, rfl⟩ := h10; simp [edgeBuiltin])

/-- Dynamically registered orientations (stations, orbit-attached local orbital frames) as the library creates them: the node is new
(its index lies beyond the built-in names), it hangs below an orientation that existed before it, its matrix is invertible. -/
structure ExtrasOK (names : List String) (extras : List Extra) : Prop where
  fresh : ∀ e ∈ extras, names.length ≤ e.child
  order : ∀ e ∈ extras, e.parent < e.child
  inv : ∀ e ∈ extras, M3.det e.m ≠ 0

theorem find_extra {extras : List Extra} {a b : Nat} {e : Extra}
    (h : extras.find? (fun e => e.child = a ∧ e.parent = b) = some e) : e ∈ extras ∧ e.child = a ∧ e.parent = b := by
  refine ⟨List.mem_of_find?_eq_some h, ?_⟩
  have := List.find?_some h
  simpa using this

/-- **`EdgesOK` for the model's own `edge`**: every provided edge matrix is inverted by `T6.inv` and no link has providers in both
directions — given that the built-in provider matrices are invertible (`hB`; Props/C02.lean proves it from `provider_isRotation` and
`const_matrices_invertible`) and the extras are well formed. -/
theorem edgesOK_edge (D : DateArgs) (names : List String) (extras : List Extra)
    (hB : ∀ na nb M, edgeBuiltin D na nb = some M → M3.det M.r ≠ 0) (hX : ExtrasOK names extras) :
    EdgesOK algT6 (edge D names extras) := by
  have hdet : ∀ a b M, edge D names extras a b = some M → M3.det M.r ≠ 0 := by
    intro a b M h
    unfold edge at h
    split at h
    · next e he =>
      obtain ⟨hm, _, _⟩ := find_extra he
      cases h
      simpa [expand] using hX.inv e hm
    · split at h
      · next na nb _ _ => exact hB na nb M h
      · cases h
  refine ⟨fun a b M h => T6.inv_mul M (hdet a b M h), fun a b M h => T6.mul_inv M (hdet a b M h), ?_⟩
  intro a b M h
  unfold edge at h ⊢
  split at h
  · next e he =>
    obtain ⟨hm, hc, hp⟩ := find_extra he
    have hfa : names.length ≤ a := hc ▸ hX.fresh e hm
    have hba : b < a := by have := hX.order e hm; omega
    split
    · next e' he' =>
      obtain ⟨hm', hc', hp'⟩ := find_extra he'
      have := hX.order e' hm'
      omega
    · have hna : names[a]? = none := List.getElem?_eq_none hfa
      split
      · next na nb h1 h2 => rw [hna] at h2; cases h2
      · rfl
  · split at h
    · next hnone na nb h1 h2 =>
      have ha : a < names.length := by
        by_contra hh
        rw [List.getElem?_eq_none (by omega)] at h1
        cases h1
      have hb : b < names.length := by
        by_contra hh
        rw [List.getElem?_eq_none (by omega)] at h2
        cases h2
      split
      · next e' he' =>
        obtain ⟨hm', hc', hp'⟩ := find_extra he'
        have := hX.fresh e' hm'
        omega
      · rw [h2, h1]
        exact edgeBuiltin_oneDir D na nb M h
    · cases h

/-! ## local orbital frames -/

/-- left inverse = right inverse for 3×3 matrices: orthonormal rows ⇒ orthonormal columns -/
theorem M3.tr_mul_self_of_mul_tr (m : M3) (h : M3.mul m (M3.tr m) = M3.one) : M3.mul (M3.tr m) m = M3.one := by
  have hd : M3.det m ≠ 0 := by
    have := congrArg M3.det h
    rw [M3.det_mul, M3.det_tr, M3.det_one] at this
    intro h0
    rw [h0] at this
    norm_num at this
  have ht : M3.tr m = M3.inv m := by
    calc M3.tr m = M3.mul M3.one (M3.tr m) := (M3.one_mul _).symm
      _ = M3.mul (M3.mul (M3.inv m) m) (M3.tr m) := by rw [M3.inv_mul m hd]
      _ = M3.mul (M3.inv m) (M3.mul m (M3.tr m)) := M3.mul_assoc _ _ _
      _ = M3.inv m := by rw [h, M3.mul_one]
  rw [ht, M3.inv_mul m hd]

/-- `a`, `w` unit and orthogonal ⇒ the matrix with rows `a, w × a, w` is a proper rotation -/
theorem triad_isRotation (a w : V3) (ha : V3.dot a a = 1) (hw : V3.dot w w = 1) (haw : V3.dot a w = 0) :
    M3.IsRotation (M3.ofRows a (V3.cross w a) w) := by
  simp only [V3.dot] at ha hw haw
  have h1 : M3.mul (M3.ofRows a (V3.cross w a) w) (M3.tr (M3.ofRows a (V3.cross w a) w)) = M3.one := by
    ext <;> simp only [M3.mul, M3.tr, M3.ofRows, M3.one, V3.cross]
    · linear_combination ha
    · ring
    · linear_combination haw
    · ring
    · linear_combination (a.x * a.x + a.y * a.y + a.z * a.z) * hw + ha - (a.x * w.x + a.y * w.y + a.z * w.z) * haw
    · ring
    · linear_combination haw
    · ring
    · linear_combination hw
  refine ⟨h1, M3.tr_mul_self_of_mul_tr _ h1, ?_⟩
  simp only [M3.det, M3.ofRows, V3.cross]
  linear_combination (a.x * a.x + a.y * a.y + a.z * a.z) * hw + ha - (a.x * w.x + a.y * w.y + a.z * w.z) * haw

theorem V3.dot_self_nonneg (u : V3) : 0 ≤ V3.dot u u := by
  simp only [V3.dot]
  nlinarith [mul_self_nonneg u.x, mul_self_nonneg u.y, mul_self_nonneg u.z]

theorem V3.norm_mul_self (u : V3) : V3.norm u * V3.norm u = V3.dot u u := by
  simp only [V3.norm, sqrt]
  exact Real.mul_self_sqrt (V3.dot_self_nonneg u)

theorem V3.norm_ne_zero (u : V3) (h : V3.dot u u ≠ 0) : V3.norm u ≠ 0 := by
  intro h0
  have := V3.norm_mul_self u
  rw [h0] at this
  exact h (by linarith)

/-- `u / |u|` is a unit vector -/
theorem V3.unit_divS (u : V3) (h : V3.dot u u ≠ 0) : V3.dot (V3.divS u (V3.norm u)) (V3.divS u (V3.norm u)) = 1 := by
  have hn := V3.norm_mul_self u
  have hn0 := V3.norm_ne_zero u h
  generalize V3.norm u = n at hn hn0
  simp only [V3.dot, V3.divS] at hn ⊢
  field_simp
  linear_combination (-1 : ℝ) * hn

/-- Lagrange: `|p × v|² = |p|²|v|² − (p·v)²` -/
theorem V3.cross_dot_self (p v : V3) :
    V3.dot (V3.cross p v) (V3.cross p v) = V3.dot p p * V3.dot v v - V3.dot p v * V3.dot p v := by
  simp only [V3.dot, V3.cross]; ring

theorem V3.dot_ne_zero_of_cross (p v : V3) (h : V3.dot (V3.cross p v) (V3.cross p v) ≠ 0) :
    V3.dot p p ≠ 0 ∧ V3.dot v v ≠ 0 := by
  constructor
  · intro h0
    apply h
    have e := V3.cross_dot_self p v
    rw [h0] at e
    have h1 := V3.dot_self_nonneg (V3.cross p v)
    nlinarith [mul_self_nonneg (V3.dot p v)]
  · intro h0
    apply h
    have e := V3.cross_dot_self p v
    rw [h0] at e
    have h1 := V3.dot_self_nonneg (V3.cross p v)
    nlinarith [mul_self_nonneg (V3.dot p v)]

/-- **`to_local(orient, sv, expanded=False).T` (QSW and TNW, the rows translated from beyond/frames/local.py) is a proper rotation for
every state with `pos × vel ≠ 0`**: between an orbit-attached frame and its parent the position map is orthonormal with determinant +1. -/
theorem lofMat_isRotation (tnw : Bool) (p v : V3) (h : V3.dot (V3.cross p v) (V3.cross p v) ≠ 0) :
    M3.IsRotation (lofMat tnw p v) := by
  obtain ⟨hp, hv⟩ := V3.dot_ne_zero_of_cross p v h
  have hw := V3.unit_divS _ h
  unfold lofMat
  apply M3.IsRotation.tr
  cases tnw
  · simp only [Bool.false_eq_true, if_false, lofQsw]
    refine triad_isRotation _ _ (V3.unit_divS p hp) hw ?_
    simp only [V3.dot, V3.divS, V3.cross]; ring
  · simp only [if_true, lofTnw]
    refine triad_isRotation _ _ (V3.unit_divS v hv) hw ?_
    simp only [V3.dot, V3.divS, V3.cross]; ring

end BeyondVerif.R
