import BeyondVerif.Props.C02
import BeyondVerif.Lemmas.CovBridge

/-!
The conversions between the ten built-in orientations, taken from C02's model (`orientConvert` over the orientation
tree regenerated from orient.py, edge matrices translated from the Python source), packaged for C14:

* `builtin_edgesOK`: the hypothesis `EdgesOK` of C02's `convert_compose` / `convert_inverse`, discharged for the
  built-in providers (each provided matrix is inverted by the modelled `np.linalg.inv`; no link is provided both ways);
* `bConv_total`: `convert_to` succeeds between any two of the ten (paths computed by the C20 routing model, `decide`);
* `bConv_self`, `bConv_comp`: identity and composition — C14's `Laws`, no longer hypotheses;
* `bConv_rot`: between frames other than G50 the position block is a proper rotation (G50 ↔ EME2000 is a constant
  matrix of 9 decimals per entry: orthonormal to 1e-15 only, `C02.const_matrices_orthonormal`).
-/
namespace BeyondVerif.C14
open BeyondVerif.R BeyondVerif.Chain

/-- names and link history of the built-in orientation tree (Generated/Graphs.lean, regenerated from orient.py) -/
abbrev bNames : List String := Generated.orientNames
abbrev bHist : List (Nat × Nat) := Generated.orientHist

/-- the CIO provider's `X² + Y² < 1` (C02: `provider_isRotation`; |X|, |Y| < 1e-3 rad in 1973–2050) -/
def CioOK (D : DateArgs) : Prop := (C02.cioXY D).1 ^ 2 + (C02.cioXY D).2 ^ 2 < 1

theorem edgeBuiltin_mem (D : DateArgs) (na nb : String) (M : T6) (h : edgeBuiltin D na nb = some M) :
    (na, nb) ∈ providerNames := by
  unfold edgeBuiltin at h
  split_ifs at h with h1 h2 h3 h4 h5 h6 h7 h8 h9 h10 <;> simp_all [providerNames]

/-- every provided matrix has an invertible 3×3 block, and its link is provided in that direction only -/
theorem edgeBuiltin_ok (D : DateArgs) (hcio : CioOK D) (na nb : String) (M : T6) (h : edgeBuiltin D na nb = some M) :
    M3.det M.r ≠ 0 ∧ edgeBuiltin D nb na = none := by
  have hm := edgeBuiltin_mem D na nb M h
  simp only [providerNames, List.mem_cons, Prod.mk.injEq, List.not_mem_nil, or_false] at hm
  have rot : ∀ p ∈ [("TEME", "TOD"), ("PEF", "TOD"), ("TOD", "MOD"), ("MOD", "EME2000"), ("ITRF", "PEF"), ("ITRF", "TIRF"),
      ("TIRF", "CIRF"), ("CIRF", "GCRF")], (na, nb) = p → M3.det M.r ≠ 0 := by
    intro p hp hpe
    obtain ⟨M', hM', hr⟩ := C02.provider_isRotation D hcio p hp
    rw [← hpe] at hM'
    simp only at hM'
    rw [h] at hM'
    cases hM'
    rw [hr.2.2]; exact one_ne_zero
  rcases hm with ⟨rfl, rfl⟩ | ⟨rfl, rfl⟩ | ⟨rfl, rfl⟩ | ⟨rfl, rfl⟩ | ⟨rfl, rfl⟩ | ⟨rfl, rfl⟩ | ⟨rfl, rfl⟩ | ⟨rfl, rfl⟩ | ⟨rfl, rfl⟩ | ⟨rfl, rfl⟩
  · exact ⟨rot _ (by simp) rfl, by simp [edgeBuiltin]⟩
  · exact ⟨rot _ (by simp) rfl, by simp [edgeBuiltin]⟩
  · exact ⟨rot _ (by simp) rfl, by simp [edgeBuiltin]⟩
  · exact ⟨rot _ (by simp) rfl, by simp [edgeBuiltin]⟩
  · exact ⟨rot _ (by simp) rfl, by simp [edgeBuiltin]⟩
  · exact ⟨rot _ (by simp) rfl, by simp [edgeBuiltin]⟩
  · exact ⟨rot _ (by simp) rfl, by simp [edgeBuiltin]⟩
  · exact ⟨rot _ (by simp) rfl, by simp [edgeBuiltin]⟩
  · refine ⟨?_, by simp [edgeBuiltin]⟩
    simp [edgeBuiltin, expand] at h
    rw [← h]; exact C02.const_matrices_invertible.1
  · refine ⟨?_, by simp [edgeBuiltin]⟩
    simp [edgeBuiltin, expand] at h
    rw [← h]; exact C02.const_matrices_invertible.2

theorem edge_nil_some (D : DateArgs) (names : List String) (a b : Nat) (na nb : String)
    (ha : names[a]? = some na) (hb : names[b]? = some nb) : edge D names [] a b = edgeBuiltin D na nb := by
  simp [edge, ha, hb]

theorem edge_nil_none (D : DateArgs) (names : List String) (a b : Nat) (h : names[a]? = none ∨ names[b]? = none) :
    edge D names [] a b = none := by
  rcases h with h | h
  · simp [edge, h]
  · cases ha : names[a]? <;> simp [edge, h, ha]

/-- **`EdgesOK` for the built-in providers** (any list of names): the hypothesis of C02's composition theorems -/
theorem builtin_edgesOK (D : DateArgs) (hcio : CioOK D) (names : List String) : EdgesOK algT6 (edge D names []) := by
  have key : ∀ a b M, edge D names [] a b = some M → M3.det M.r ≠ 0 ∧ edge D names [] b a = none := by
    intro a b M h
    cases ha : names[a]? with
    | none => rw [edge_nil_none D names a b (Or.inl ha)] at h; cases h
    | some na =>
      cases hb : names[b]? with
      | none => rw [edge_nil_none D names a b (Or.inr hb)] at h; cases h
      | some nb =>
        rw [edge_nil_some D names a b na nb ha hb] at h
        rw [edge_nil_some D names b a nb na hb ha]
        exact edgeBuiltin_ok D hcio na nb M h
  exact ⟨fun a b M h => T6.inv_mul M (key a b M h).1, fun a b M h => T6.mul_inv M (key a b M h).1, fun a b M h => (key a b M h).2⟩

/-! ## totality and the shape of the paths, decided on the regenerated tree -/

/-- the link `u — v` of a path is provided (in one direction) by a rotation-valued provider of class Orientation -/
def rotLink (u v : Nat) : Bool :=
  match bNames[u]?, bNames[v]? with
  | some a, some b =>
    [("TEME", "TOD"), ("PEF", "TOD"), ("TOD", "MOD"), ("MOD", "EME2000"), ("ITRF", "PEF"), ("ITRF", "TIRF"),
      ("TIRF", "CIRF"), ("CIRF", "GCRF")].contains (a, b) ||
    [("TEME", "TOD"), ("PEF", "TOD"), ("TOD", "MOD"), ("MOD", "EME2000"), ("ITRF", "PEF"), ("ITRF", "TIRF"),
      ("TIRF", "CIRF"), ("CIRF", "GCRF")].contains (b, a)
  | _, _ => false

/-- the link is provided by some method (`G50_to_EME2000` included) -/
def anyLink (u v : Nat) : Bool :=
  match bNames[u]?, bNames[v]? with
  | some a, some b => providerNames.contains (a, b) || providerNames.contains (b, a)
  | _, _ => false

/-- index of G50, the only frame hanging on a constant (decimal) matrix -/
def g50 : Nat := 5

/-- for every pair of built-in frames `Node.path` returns a path all of whose links are provided; paths between frames
other than G50 use rotation-valued providers only -/
def pathsOK : Bool :=
  match Node.build (bHist.length + 3) bHist with
  | none => false
  | some g =>
    (List.range 10).all fun a => (List.range 10).all fun b =>
      match Node.path (bHist.length + 3) g a b with
      | .ok p => (Node.steps p).all (fun st => anyLink st.1 st.2) &&
          (a == g50 || b == g50 || (Node.steps p).all (fun st => rotLink st.1 st.2))
      | _ => false

theorem pathsOK_true : pathsOK = true := by decide +kernel

theorem paths_spec (a b : Nat) (ha : a < 10) (hb : b < 10) :
    ∃ g p, Node.build (bHist.length + 3) bHist = some g ∧ Node.path (bHist.length + 3) g a b = .ok p ∧
      (∀ st ∈ Node.steps p, anyLink st.1 st.2 = true) ∧
      (a ≠ g50 → b ≠ g50 → ∀ st ∈ Node.steps p, rotLink st.1 st.2 = true) := by
  have h := pathsOK_true
  unfold pathsOK at h
  split at h
  · cases h
  · next g hg =>
    simp only [List.all_eq_true, List.mem_range] at h
    have h' := h a ha b hb
    split at h'
    · next p hp =>
      simp only [Bool.and_eq_true, List.all_eq_true, Bool.or_eq_true, beq_iff_eq] at h'
      refine ⟨g, p, hg, hp, h'.1, ?_⟩
      intro hna hnb
      rcases h'.2 with (h1 | h1) | h1
      · exact absurd h1 hna
      · exact absurd h1 hnb
      · exact h1
    · cases h'

/-! ## the chain along such a path -/

theorem chain_isSome {α : Type} (mul : α → α → α) (inv : α → α) (edge : Nat → Nat → Option α) :
    ∀ (steps : List (Nat × Nat)) (m : α), (∀ st ∈ steps, (stepElem inv edge st.1 st.2).isSome = true) →
      (chain mul inv edge steps m).isSome = true
  | [], m, _ => rfl
  | (u, v) :: rest, m, h => by
    have h1 := h (u, v) (by simp)
    simp only [chain]
    cases hs : stepElem inv edge u v with
    | none => simp [hs] at h1
    | some M => exact chain_isSome mul inv edge rest _ (fun st hst => h st (by simp [hst]))

theorem chain_invariant {α : Type} (mul : α → α → α) (inv : α → α) (edge : Nat → Nat → Option α) (P : α → Prop)
    (hmul : ∀ a b, P a → P b → P (mul a b)) :
    ∀ (steps : List (Nat × Nat)) (m r : α), P m → (∀ st ∈ steps, ∀ M, stepElem inv edge st.1 st.2 = some M → P M) →
      chain mul inv edge steps m = some r → P r
  | [], m, r, hm, _, h => by simp only [chain, Option.some.injEq] at h; exact h ▸ hm
  | (u, v) :: rest, m, r, hm, hs, h => by
    simp only [chain] at h
    cases hM : stepElem inv edge u v with
    | none => simp [hM] at h
    | some M =>
      simp only [hM] at h
      exact chain_invariant mul inv edge P hmul rest _ r (hmul _ _ (hs (u, v) (by simp) M hM) hm)
        (fun st hst => hs st (by simp [hst])) h

theorem edgeBuiltin_isSome (D : DateArgs) (a b : String) (h : (a, b) ∈ providerNames) : (edgeBuiltin D a b).isSome = true := by
  simp only [providerNames, List.mem_cons, Prod.mk.injEq, List.not_mem_nil, or_false] at h
  rcases h with ⟨rfl, rfl⟩ | ⟨rfl, rfl⟩ | ⟨rfl, rfl⟩ | ⟨rfl, rfl⟩ | ⟨rfl, rfl⟩ | ⟨rfl, rfl⟩ | ⟨rfl, rfl⟩ | ⟨rfl, rfl⟩ | ⟨rfl, rfl⟩ | ⟨rfl, rfl⟩ <;>
    simp [edgeBuiltin]

theorem anyLink_step (D : DateArgs) (u v : Nat) (h : anyLink u v = true) :
    (stepElem T6.inv (edge D bNames []) u v).isSome = true := by
  unfold anyLink at h
  split at h
  · next a b ha hb =>
    simp only [Bool.or_eq_true, List.contains_iff_mem] at h
    unfold stepElem
    rw [edge_nil_some D bNames u v a b ha hb, edge_nil_some D bNames v u b a hb ha]
    rcases h with h | h
    · have := edgeBuiltin_isSome D a b h
      cases he : edgeBuiltin D a b with
      | none => simp [he] at this
      | some M => rfl
    · have := edgeBuiltin_isSome D b a h
      cases he : edgeBuiltin D a b with
      | some M => rfl
      | none =>
        cases he' : edgeBuiltin D b a with
        | none => simp [he'] at this
        | some M => rfl
  · cases h

/-- the 3×3 block of a `T6` is a proper rotation -/
def RotBlock (M : T6) : Prop := M3.IsRotation M.r

theorem RotBlock.mul {a b : T6} (ha : RotBlock a) (hb : RotBlock b) : RotBlock (T6.mul a b) := M3.IsRotation.mul ha hb

theorem RotBlock.inv {a : T6} (ha : RotBlock a) : RotBlock (T6.inv a) := by
  show M3.IsRotation (M3.inv a.r)
  rw [M3.IsRotation.inv_eq_tr ha]; exact M3.IsRotation.tr ha

theorem rotLink_step (D : DateArgs) (hcio : CioOK D) (u v : Nat) (h : rotLink u v = true) (M : T6)
    (hM : stepElem T6.inv (edge D bNames []) u v = some M) : RotBlock M := by
  unfold rotLink at h
  split at h
  · next a b ha hb =>
    simp only [Bool.or_eq_true, List.contains_iff_mem] at h
    unfold stepElem at hM
    rw [edge_nil_some D bNames u v a b ha hb, edge_nil_some D bNames v u b a hb ha] at hM
    rcases h with h | h
    · obtain ⟨M', hM', hr⟩ := C02.provider_isRotation D hcio (a, b) h
      simp only at hM'
      rw [hM'] at hM
      simp only [Option.some.injEq] at hM
      rw [← hM]; exact hr
    · obtain ⟨M', hM', hr⟩ := C02.provider_isRotation D hcio (b, a) h
      simp only at hM'
      have hnone : edgeBuiltin D a b = none := (edgeBuiltin_ok D hcio b a M' hM').2
      rw [hnone, hM'] at hM
      simp only [Option.some.injEq] at hM
      rw [← hM]; exact RotBlock.inv hr
  · cases h

/-! ## `convert_to` between built-in orientations -/

/-- **`a.orientation.convert_to(date, b.orientation)`** for built-in orientations `a`, `b` (indices into the names
regenerated from orient.py), as C02's model computes it -/
noncomputable def bConv (D : DateArgs) (a b : Nat) : T6 := (orientConvert D bNames bHist [] a b).getD T6.one

/-- **the conversion exists between any two built-in frames** -/
theorem bConv_total (D : DateArgs) (a b : Nat) (ha : a < 10) (hb : b < 10) :
    orientConvert D bNames bHist [] a b = some (bConv D a b) := by
  obtain ⟨g, p, hg, hp, hany, _⟩ := paths_spec a b ha hb
  have hs : (orientConvert D bNames bHist [] a b).isSome = true := by
    unfold orientConvert
    simp only [hg, hp]
    exact chain_isSome _ _ _ _ _ (fun st hst => anyLink_step D st.1 st.2 (hany st hst))
  unfold bConv
  cases h : orientConvert D bNames bHist [] a b with
  | none => simp [h] at hs
  | some x => rfl

theorem bConv_self (D : DateArgs) (a : Nat) (ha : a < 10) : bConv D a a = T6.one := by
  obtain ⟨g, p, hg, _, _, _⟩ := paths_spec a a ha ha
  unfold bConv orientConvert
  simp [hg, Node.path, Node.steps, chain]

/-- **`M(b→c) M(a→b) = M(a→c)`** — C02's `orientConvert_compose` with every hypothesis discharged -/
theorem bConv_comp (D : DateArgs) (hcio : CioOK D) (a b c : Nat) (ha : a < 10) (hb : b < 10) (hc : c < 10) :
    T6.mul (bConv D b c) (bConv D a b) = bConv D a c :=
  (C02.orientConvert_compose D bNames bHist [] (builtin_edgesOK D hcio bNames) C02.orient_leafGrown a b c _ _ _
    (bConv_total D a b ha hb) (bConv_total D b c hb hc) (bConv_total D a c ha hc)).symm

/-- **between frames other than G50 the 3×3 block of the conversion is a proper rotation** -/
theorem bConv_rot (D : DateArgs) (hcio : CioOK D) (a b : Nat) (ha : a < 10) (hb : b < 10) (hna : a ≠ g50) (hnb : b ≠ g50) :
    RotBlock (bConv D a b) := by
  obtain ⟨g, p, hg, hp, _, hrot⟩ := paths_spec a b ha hb
  have h := bConv_total D a b ha hb
  unfold orientConvert at h
  simp only [hg, hp] at h
  exact chain_invariant T6.mul T6.inv _ RotBlock (fun _ _ => RotBlock.mul) _ T6.one _ (show RotBlock T6.one from M3.IsRotation.one)
    (fun st hst M hM => rotLink_step D hcio st.1 st.2 (hrot hna hnb st hst) M hM) h

theorem g50_is_G50 : bNames[g50]? = some "G50" ∧ bNames.length = 10 := by decide

end BeyondVerif.C14
