import BeyondVerif.Model.FramesR
import Mathlib.Tactic.Ring
import Mathlib.Tactic.FieldSimp
import Mathlib.Tactic.Linarith
import Mathlib.Tactic.LinearCombination

/-!
Algebra of the 3×3 matrices `M3` and of the 6×6 state matrices `T6 = [[r,0],[b,r]]` over ℝ
(Model/Mat3R.lean): associativity, units, transpose, determinant, inverse.
-/
namespace BeyondVerif.R
open BeyondVerif.NumReal

namespace M3

theorem mul_assoc (a b c : M3) : mul (mul a b) c = mul a (mul b c) := by
  ext <;> simp only [mul] <;> ring
theorem one_mul (a : M3) : mul one a = a := by ext <;> simp [mul, one]
theorem mul_one (a : M3) : mul a one = a := by ext <;> simp [mul, one]
theorem tr_mul (a b : M3) : tr (mul a b) = mul (tr b) (tr a) := by
  ext <;> simp only [mul, tr] <;> ring
theorem tr_tr (a : M3) : tr (tr a) = a := rfl
theorem tr_one : tr one = one := rfl
theorem det_mul (a b : M3) : det (mul a b) = det a * det b := by
  simp only [det, mul]; ring
theorem det_tr (a : M3) : det (tr a) = det a := by simp only [det, tr]; ring
theorem det_one : det one = 1 := by simp [det, one]
theorem mul_adj (a : M3) : mul a (adj a) = smul (det a) one := by
  ext <;> simp only [mul, adj, smul, one, det] <;> ring
theorem adj_mul (a : M3) : mul (adj a) a = smul (det a) one := by
  ext <;> simp only [mul, adj, smul, one, det] <;> ring
theorem mul_smul (k : ℝ) (a b : M3) : mul a (smul k b) = smul k (mul a b) := by
  ext <;> simp only [mul, smul] <;> ring
theorem smul_mul (k : ℝ) (a b : M3) : mul (smul k a) b = smul k (mul a b) := by
  ext <;> simp only [mul, smul] <;> ring
theorem smul_smul (k l : ℝ) (a : M3) : smul k (smul l a) = smul (k * l) a := by
  ext <;> simp only [smul] <;> ring
theorem one_smul (a : M3) : smul 1 a = a := by ext <;> simp [smul]

/-- `np.linalg.inv` of an invertible block is a right inverse … -/
theorem mul_inv (a : M3) (h : det a ≠ 0) : mul a (inv a) = one := by
  unfold inv
  rw [mul_smul, mul_adj, smul_smul, one_div, inv_mul_cancel₀ h, one_smul]
/-- … and a left inverse -/
theorem inv_mul (a : M3) (h : det a ≠ 0) : mul (inv a) a = one := by
  unfold inv
  rw [smul_mul, adj_mul, smul_smul, one_div, inv_mul_cancel₀ h, one_smul]

theorem mul_add (a b c : M3) : mul a (add b c) = add (mul a b) (mul a c) := by
  ext <;> simp only [mul, add] <;> ring
theorem add_mul (a b c : M3) : mul (add a b) c = add (mul a c) (mul b c) := by
  ext <;> simp only [mul, add] <;> ring
theorem mul_neg (a b : M3) : mul a (neg b) = neg (mul a b) := by
  ext <;> simp only [mul, neg] <;> ring
theorem neg_mul (a b : M3) : mul (neg a) b = neg (mul a b) := by
  ext <;> simp only [mul, neg] <;> ring
theorem add_neg_self (a : M3) : add a (neg a) = zero := by ext <;> simp [add, neg, zero]
theorem neg_add_self (a : M3) : add (neg a) a = zero := by ext <;> simp [add, neg, zero]
theorem add_zero (a : M3) : add a zero = a := by ext <;> simp [add, zero]
theorem zero_add (a : M3) : add zero a = a := by ext <;> simp [add, zero]
theorem mul_zero (a : M3) : mul a zero = zero := by ext <;> simp [mul, zero]
theorem zero_mul (a : M3) : mul zero a = zero := by ext <;> simp [mul, zero]
theorem add_assoc (a b c : M3) : add (add a b) c = add a (add b c) := by
  ext <;> simp only [add] <;> ring
theorem apply_mul (a b : M3) (v : V3) : apply (mul a b) v = apply a (apply b v) := by
  ext <;> simp only [apply, mul] <;> ring
theorem apply_one (v : V3) : apply one v = v := by ext <;> simp [apply, one]

/-- proper rotation: orthonormal rows and columns, determinant +1 -/
def IsRotation (a : M3) : Prop := mul a (tr a) = one ∧ mul (tr a) a = one ∧ det a = 1

theorem IsRotation.mul {a b : M3} (ha : IsRotation a) (hb : IsRotation b) : IsRotation (mul a b) := by
  obtain ⟨ha1, ha2, ha3⟩ := ha
  obtain ⟨hb1, hb2, hb3⟩ := hb
  refine ⟨?_, ?_, ?_⟩
  · rw [tr_mul, mul_assoc, ← mul_assoc b, hb1, one_mul, ha1]
  · rw [tr_mul, mul_assoc, ← mul_assoc (tr a), ha2, one_mul, hb2]
  · rw [det_mul, ha3, hb3, _root_.mul_one]

theorem IsRotation.tr {a : M3} (ha : IsRotation a) : IsRotation (M3.tr a) :=
  ⟨by rw [tr_tr]; exact ha.2.1, by rw [tr_tr]; exact ha.1, by rw [det_tr]; exact ha.2.2⟩

theorem IsRotation.one : IsRotation M3.one := ⟨by rw [M3.tr_one, M3.one_mul], by rw [M3.tr_one, M3.one_mul], M3.det_one⟩

/-- the inverse computed by `np.linalg.inv` of a rotation is its transpose -/
theorem IsRotation.inv_eq_tr {a : M3} (ha : IsRotation a) : M3.inv a = M3.tr a := by
  have hd : det a ≠ 0 := by rw [ha.2.2]; exact one_ne_zero
  calc M3.inv a = M3.mul (M3.inv a) M3.one := (M3.mul_one _).symm
    _ = M3.mul (M3.inv a) (M3.mul a (M3.tr a)) := by rw [ha.1]
    _ = M3.mul (M3.mul (M3.inv a) a) (M3.tr a) := (M3.mul_assoc _ _ _).symm
    _ = M3.tr a := by rw [M3.inv_mul a hd, M3.one_mul]

/-- a rotation preserves the Euclidean norm -/
theorem IsRotation.dot_apply {a : M3} (ha : IsRotation a) (u v : V3) : V3.dot (M3.apply a u) (M3.apply a v) = V3.dot u v := by
  have h := ha.2.1
  have e11 := congrArg M3.a11 h; have e12 := congrArg M3.a12 h; have e13 := congrArg M3.a13 h
  have e21 := congrArg M3.a21 h; have e22 := congrArg M3.a22 h; have e23 := congrArg M3.a23 h
  have e31 := congrArg M3.a31 h; have e32 := congrArg M3.a32 h; have e33 := congrArg M3.a33 h
  simp only [M3.mul, M3.tr, M3.one] at e11 e12 e13 e21 e22 e23 e31 e32 e33
  simp only [V3.dot, M3.apply]
  linear_combination (u.x * v.x) * e11 + (u.x * v.y) * e12 + (u.x * v.z) * e13 + (u.y * v.x) * e21 + (u.y * v.y) * e22
    + (u.y * v.z) * e23 + (u.z * v.x) * e31 + (u.z * v.y) * e32 + (u.z * v.z) * e33

end M3

namespace T6

theorem mul_assoc (a b c : T6) : mul (mul a b) c = mul a (mul b c) := by
  simp only [mul]
  congr 1
  · exact M3.mul_assoc _ _ _
  · rw [M3.add_mul, M3.mul_add, M3.mul_assoc, M3.mul_assoc, M3.mul_assoc, M3.add_assoc]
theorem one_mul (a : T6) : mul one a = a := by
  simp only [mul, one, M3.one_mul, M3.zero_mul, M3.zero_add]
theorem mul_one (a : T6) : mul a one = a := by
  simp only [mul, one, M3.mul_one, M3.mul_zero, M3.add_zero]

/-- the closed form standing for `np.linalg.inv` is a left inverse when the 3×3 block is invertible … -/
theorem inv_mul (m : T6) (h : M3.det m.r ≠ 0) : mul (inv m) m = one := by
  simp only [mul, inv, one]
  congr 1
  · exact M3.inv_mul _ h
  · rw [M3.neg_mul, M3.mul_assoc, M3.inv_mul _ h, M3.mul_one, M3.neg_add_self]
/-- … and a right inverse -/
theorem mul_inv (m : T6) (h : M3.det m.r ≠ 0) : mul m (inv m) = one := by
  simp only [mul, inv, one]
  congr 1
  · exact M3.mul_inv _ h
  · rw [M3.mul_neg, ← M3.mul_assoc, ← M3.mul_assoc, M3.mul_inv _ h, M3.one_mul, M3.add_neg_self]

theorem apply_mul (n m : T6) (p v : V3) : apply (mul n m) p v = apply n (apply m p v).1 (apply m p v).2 := by
  simp only [apply, mul]
  refine Prod.ext ?_ ?_
  · exact M3.apply_mul _ _ _
  · ext <;> simp only [V3.add, M3.apply, M3.mul, M3.add] <;> ring
theorem apply_one (p v : V3) : apply one p v = (p, v) := by
  simp only [apply, one]
  refine Prod.ext (M3.apply_one _) ?_
  ext <;> simp [V3.add, M3.apply, M3.one, M3.zero]

end T6
end BeyondVerif.R
