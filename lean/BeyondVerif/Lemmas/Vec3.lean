import BeyondVerif.Model.ManR
import Mathlib.Tactic.Ring
import Mathlib.Tactic.FieldSimp
import Mathlib.Tactic.Linarith
import Mathlib.Tactic.Positivity
import Mathlib.Tactic.LinearCombination

/-! Helper lemmas on `V3` / `M3` over ℝ for C17. -/
namespace BeyondVerif.Lemmas.Vec3
open BeyondVerif.R BeyondVerif.NumReal

theorem sumsq_nonneg (a : V3) : 0 ≤ a.x * a.x + a.y * a.y + a.z * a.z :=
  add_nonneg (add_nonneg (mul_self_nonneg _) (mul_self_nonneg _)) (mul_self_nonneg _)

theorem norm_sq (a : V3) : V3.norm a ^ 2 = V3.dot a a := by
  unfold V3.norm V3.dot
  exact Real.sq_sqrt (sumsq_nonneg a)

theorem norm_nonneg (a : V3) : 0 ≤ V3.norm a := Real.sqrt_nonneg _

theorem norm_eq_zero_iff (a : V3) : V3.norm a = 0 ↔ a = V3.zero := by
  constructor
  · intro h
    unfold V3.norm at h
    have h0 : a.x * a.x + a.y * a.y + a.z * a.z = 0 := by
      have := (Real.sqrt_eq_zero (sumsq_nonneg a)).mp h
      exact this
    have hx : a.x = 0 := by nlinarith [mul_self_nonneg a.x, mul_self_nonneg a.y, mul_self_nonneg a.z]
    have hy : a.y = 0 := by nlinarith [mul_self_nonneg a.x, mul_self_nonneg a.y, mul_self_nonneg a.z]
    have hz : a.z = 0 := by nlinarith [mul_self_nonneg a.x, mul_self_nonneg a.y, mul_self_nonneg a.z]
    ext <;> simp [V3.zero, hx, hy, hz]
  · intro h
    subst h
    simp [V3.norm, V3.zero]

theorem cross_zero_left (b : V3) : V3.cross V3.zero b = V3.zero := by
  ext <;> simp [V3.cross, V3.zero]

theorem cross_zero_right (a : V3) : V3.cross a V3.zero = V3.zero := by
  ext <;> simp [V3.cross, V3.zero]

/-- a normalised non-zero vector has unit length -/
theorem dot_divS_norm (a : V3) (h : V3.norm a ≠ 0) : V3.dot (V3.divS a (V3.norm a)) (V3.divS a (V3.norm a)) = 1 := by
  have hs := norm_sq a
  unfold V3.dot at hs ⊢
  unfold V3.divS
  simp only
  field_simp
  nlinarith [hs]

theorem dot_divS_divS (a b : V3) (s t : ℝ) : V3.dot (V3.divS a s) (V3.divS b t) = V3.dot a b / (s * t) := by
  unfold V3.dot V3.divS
  simp only
  by_cases hs : s = 0
  · simp [hs]
  by_cases ht : t = 0
  · simp [ht]
  field_simp

theorem dot_cross_self_left (a b : V3) : V3.dot a (V3.cross a b) = 0 := by
  unfold V3.dot V3.cross; simp only; ring

theorem dot_cross_self_right (a b : V3) : V3.dot b (V3.cross a b) = 0 := by
  unfold V3.dot V3.cross; simp only; ring

theorem dot_comm (a b : V3) : V3.dot a b = V3.dot b a := by
  unfold V3.dot; ring

/-- Lagrange: |w × q|² = |w|²|q|² − (w·q)² -/
theorem dot_cross_cross (w q : V3) :
    V3.dot (V3.cross w q) (V3.cross w q) = V3.dot w w * V3.dot q q - V3.dot w q ^ 2 := by
  unfold V3.dot V3.cross; simp only; ring

/-- (w × q) × w = q (w·w) − w (w·q) -/
theorem cross_cross_left (w q : V3) :
    V3.cross (V3.cross w q) w = V3.sub (V3.smul (V3.dot w w) q) (V3.smul (V3.dot w q) w) := by
  ext <;> simp only [V3.dot, V3.cross, V3.sub, V3.smul] <;> ring

/-- Cramer's rule in the basis `(a, b, a × b)`: an identity of polynomials -/
theorem cramer (a b x : V3) :
    V3.smul (V3.dot a a * V3.dot b b - V3.dot a b ^ 2) x
      = V3.add (V3.add (V3.smul (V3.dot x a * V3.dot b b - V3.dot x b * V3.dot a b) a)
                       (V3.smul (V3.dot x b * V3.dot a a - V3.dot x a * V3.dot a b) b))
               (V3.smul (V3.dot x (V3.cross a b)) (V3.cross a b)) := by
  ext <;> simp only [V3.dot, V3.cross, V3.add, V3.smul] <;> ring

/-- `q`, `w` unit and perpendicular -/
structure UnitPerp (q w : V3) : Prop where
  hq : V3.dot q q = 1
  hw : V3.dot w w = 1
  hqw : V3.dot q w = 0

/-- the triad `(q, w × q, w)` built on unit perpendicular `q`, `w` -/
def triad (q w : V3) : M3 := ⟨q, V3.cross w q, w⟩

section triad
variable {q w : V3} (h : UnitPerp q w)
include h

theorem triad_s_unit : V3.dot (V3.cross w q) (V3.cross w q) = 1 := by
  rw [dot_cross_cross, h.hq, h.hw, dot_comm w q, h.hqw]; norm_num

omit h in
theorem triad_qs : V3.dot q (V3.cross w q) = 0 := dot_cross_self_right w q
omit h in
theorem triad_sw : V3.dot (V3.cross w q) w = 0 := by rw [dot_comm]; exact dot_cross_self_left w q

theorem triad_det : M3.det (triad q w) = 1 := by
  unfold M3.det triad
  simp only
  rw [cross_cross_left]
  have : V3.dot q (V3.sub (V3.smul (V3.dot w w) q) (V3.smul (V3.dot w q) w))
      = V3.dot w w * V3.dot q q - V3.dot w q * V3.dot q w := by
    unfold V3.dot V3.sub V3.smul; simp only; ring
  rw [this, h.hq, h.hw, h.hqw]; norm_num

/-- completeness: `Mᵀ (M y) = y` for the triad -/
theorem triad_tMul_mul (y : V3) : (triad q w).tMulVec ((triad q w).mulVec y) = y := by
  have c := cramer w q y
  rw [h.hq, h.hw, dot_comm w q, h.hqw] at c
  have e1 := congrArg V3.x c
  have e2 := congrArg V3.y c
  have e3 := congrArg V3.z c
  simp only [V3.add, V3.smul] at e1 e2 e3
  ext
  · simp only [triad, M3.tMulVec, M3.mulVec]; rw [dot_comm q y, dot_comm (V3.cross w q) y, dot_comm w y]; linarith
  · simp only [triad, M3.tMulVec, M3.mulVec]; rw [dot_comm q y, dot_comm (V3.cross w q) y, dot_comm w y]; linarith
  · simp only [triad, M3.tMulVec, M3.mulVec]; rw [dot_comm q y, dot_comm (V3.cross w q) y, dot_comm w y]; linarith

/-- `M (Mᵀ d) = d`: the components of `Mᵀ d` along the three axes are the components of `d` -/
theorem triad_mul_tMul (d : V3) : (triad q w).mulVec ((triad q w).tMulVec d) = d := by
  have hs := triad_s_unit h
  have hqs := triad_qs (q := q) (w := w)
  have hsw := triad_sw (q := q) (w := w)
  have hq := h.hq
  have hw := h.hw
  have hqw := h.hqw
  set s := V3.cross w q with hsdef
  unfold V3.dot at hs hqs hsw hq hw hqw
  ext
  · simp only [triad, M3.tMulVec, M3.mulVec, V3.dot, ← hsdef]
    linear_combination d.x * hq + d.y * hqs + d.z * hqw
  · simp only [triad, M3.tMulVec, M3.mulVec, V3.dot, ← hsdef]
    linear_combination d.x * hqs + d.y * hs + d.z * hsw
  · simp only [triad, M3.tMulVec, M3.mulVec, V3.dot, ← hsdef]
    linear_combination d.x * hqw + d.y * hsw + d.z * hw

/-- `|Mᵀ d|² = |d|²` -/
theorem triad_tMul_dot (d : V3) : V3.dot ((triad q w).tMulVec d) ((triad q w).tMulVec d) = V3.dot d d := by
  have hs := triad_s_unit h
  have hqs := triad_qs (q := q) (w := w)
  have hsw := triad_sw (q := q) (w := w)
  have hq := h.hq
  have hw := h.hw
  have hqw := h.hqw
  set s := V3.cross w q with hsdef
  unfold V3.dot at hs hqs hsw hq hw hqw
  simp only [triad, M3.tMulVec, V3.dot, ← hsdef]
  linear_combination d.x ^ 2 * hq + d.y ^ 2 * hs + d.z ^ 2 * hw + 2 * d.x * d.y * hqs + 2 * d.x * d.z * hqw + 2 * d.y * d.z * hsw

end triad

theorem norm_congr {a b : V3} (h : V3.dot a a = V3.dot b b) : V3.norm a = V3.norm b := by
  unfold V3.norm; unfold V3.dot at h; rw [h]

end BeyondVerif.Lemmas.Vec3
