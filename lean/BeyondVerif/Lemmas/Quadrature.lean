import BeyondVerif.Model.ManWin
import Mathlib.Tactic.Ring
import Mathlib.Tactic.Linarith
import Mathlib.Tactic.Push

/-! Counting lemmas for the quadrature of a burn's on/off switch by the fixed-step loop (C17). -/
namespace BeyondVerif.Lemmas.Quadrature
open BeyondVerif.ManWin BeyondVerif.Generated

/-- `Σ_i w_i · (number of steps whose stage i is on)` -/
def weightedCount (start stop h : Int) (t : Int) (n : Nat) : List (Int × Int) → Int
  | [] => 0
  | (o, w) :: rest => w * stageCount start stop o h t n + weightedCount start stop h t n rest

/-- sum of the weights -/
def weightSum : List (Int × Int) → Int
  | [] => 0
  | (_, w) :: rest => w + weightSum rest

/-- sum of the weights of the stages dated at the end of the step (`c = 1`) -/
def closingWeight (h : Int) : List (Int × Int) → Int
  | [] => 0
  | (o, w) :: rest => (if o = h then w else 0) + closingWeight h rest

theorem thrustUnits_replicate (cs : List (Int × Int)) (ws : List Int) (start stop h : Int) :
    ∀ (n : Nat) (t : Int), thrustUnits cs ws start stop t (List.replicate n h)
      = thrustUnitsFixed (stagesOf cs ws h) start stop h t n
  | 0, _ => rfl
  | n + 1, t => by
    simp only [List.replicate_succ, thrustUnits, thrustUnitsFixed, thrustUnits_replicate cs ws start stop h n (t + h)]

theorem weightedCount_zero (start stop h t : Int) : ∀ sts, weightedCount start stop h t 0 sts = 0
  | [] => rfl
  | (o, w) :: rest => by simp [weightedCount, stageCount, weightedCount_zero start stop h t rest]

theorem weightedCount_succ (start stop h t : Int) (n : Nat) : ∀ sts,
    weightedCount start stop h t (n + 1) sts = stepWeight start stop t sts + weightedCount start stop h (t + h) n sts
  | [] => by simp [weightedCount, stepWeight]
  | (o, w) :: rest => by
    simp only [weightedCount, stepWeight, stageCount, weightedCount_succ start stop h t n rest]
    split <;> ring

/-- exchange of the two sums: the step loop delivers `h · Σ_i w_i N_i`, `N_i` the number of steps whose stage `i` is on -/
theorem thrustUnitsFixed_eq (sts : List (Int × Int)) (start stop h : Int) :
    ∀ (n : Nat) (t : Int), thrustUnitsFixed sts start stop h t n = h * weightedCount start stop h t n sts
  | 0, t => by simp [thrustUnitsFixed, weightedCount_zero]
  | n + 1, t => by
    rw [thrustUnitsFixed, thrustUnitsFixed_eq sts start stop h n (t + h), weightedCount_succ]; ring

section counting
variable {start stop o h : Int}

/-- once the stage dates have passed `stop` no later step sees the burn -/
theorem stageCount_after (hh : 0 < h) : ∀ (n : Nat) (t : Int), stop ≤ t + o → stageCount start stop o h t n = 0
  | 0, _, _ => rfl
  | n + 1, t, hs => by
    have hn : ¬ contCheck start stop (t + o) := by unfold contCheck; omega
    simp [stageCount, hn, stageCount_after hh n (t + h) (by omega)]

theorem stageCount_skip (n : Nat) (t : Int) (hs : t + o < start) :
    stageCount start stop o h t (n + 1) = stageCount start stop o h (t + h) n := by
  have hn : ¬ contCheck start stop (t + o) := by unfold contCheck; omega
  simp [stageCount, hn]

/-- from a stage date inside the window on: exactly the `nb` steps up to `stop` count -/
theorem stageCount_inside (hh : 0 < h) : ∀ (nb n : Nat) (t : Int), nb ≤ n → start ≤ t + o →
    t + o + nb * h < stop + h → stop ≤ t + o + nb * h → stageCount start stop o h t n = nb
  | 0, n, t, _, _, _, h3 => by simpa using stageCount_after hh n t (by simpa using h3)
  | nb + 1, 0, _, hle, _, _, _ => by omega
  | nb + 1, n + 1, t, hle, h1, h2, h3 => by
    have hnn : (0 : Int) ≤ nb * h := Int.mul_nonneg (Int.natCast_nonneg nb) hh.le
    have e : ((nb + 1 : Nat) : Int) * h = nb * h + h := by push_cast; ring
    rw [e] at h2 h3
    have hc : contCheck start stop (t + o) := by unfold contCheck; omega
    have := stageCount_inside hh nb n (t + h) (by omega) (by omega) (by omega) (by omega)
    simp only [stageCount, hc, if_true, this]; push_cast; ring

/-- a burn `[t + p·h, t + (p+nb)·h)` on the grid, a stage strictly inside the step (`0 ≤ o < h`): `nb` steps see it -/
theorem stageCount_whole_lt (hh : 0 < h) (ho : 0 ≤ o) (hoh : o < h) : ∀ (p nb n : Nat) (t : Int), p + nb ≤ n →
    start = t + p * h → stop = start + nb * h → stageCount start stop o h t n = nb
  | 0, nb, n, t, hle, hs, he => by
    simp only [Nat.cast_zero, zero_mul, add_zero] at hs
    exact stageCount_inside hh nb n t (by omega) (by omega) (by omega) (by omega)
  | p + 1, nb, 0, _, hle, _, _ => by omega
  | p + 1, nb, n + 1, t, hle, hs, he => by
    have hnn : (0 : Int) ≤ p * h := Int.mul_nonneg (Int.natCast_nonneg p) hh.le
    have e : ((p + 1 : Nat) : Int) * h = p * h + h := by push_cast; ring
    rw [e] at hs
    rw [stageCount_skip n t (by omega)]
    exact stageCount_whole_lt hh ho hoh p nb n (t + h) (by omega) (by omega) he

/-- a stage dated at the end of its step is the stage dated at the start of the next one -/
theorem stageCount_shift : ∀ (n : Nat) (t : Int),
    stageCount start stop (o + h) h t n = stageCount start stop o h (t + h) n
  | 0, _ => rfl
  | n + 1, t => by
    have e : t + (o + h) = t + h + o := by ring
    simp only [stageCount, e, stageCount_shift n (t + h)]

/-- … so a closing stage (`o = h`) also sees a grid burn `nb` times, provided one step precedes the burn … -/
theorem stageCount_whole_closing (hh : 0 < h) (p nb n : Nat) (t : Int) (hp : 1 ≤ p) (hle : p + nb ≤ n)
    (hs : start = t + p * h) (he : stop = start + nb * h) : stageCount start stop h h t n = nb := by
  have := stageCount_shift (start := start) (stop := stop) (o := 0) (h := h) n t
  rw [zero_add] at this
  rw [this]
  obtain ⟨q, rfl⟩ : ∃ q, p = q + 1 := ⟨p - 1, by omega⟩
  have e : ((q + 1 : Nat) : Int) * h = q * h + h := by push_cast; ring
  exact stageCount_whole_lt hh (le_refl 0) hh q nb n (t + h) (by omega) (by rw [hs, e]; ring) he

/-- … and only `nb − 1` times when the burn starts on the very first date of the propagation -/
theorem stageCount_first_closing (hh : 0 < h) (nb n : Nat) (t : Int) (hnb : 1 ≤ nb) (hle : nb ≤ n + 1)
    (hs : start = t) (he : stop = start + nb * h) : stageCount start stop h h t n = (nb : Int) - 1 := by
  have := stageCount_shift (start := start) (stop := stop) (o := 0) (h := h) n t
  rw [zero_add] at this
  rw [this]
  obtain ⟨q, rfl⟩ : ∃ q, nb = q + 1 := ⟨nb - 1, by omega⟩
  have e : ((q + 1 : Nat) : Int) * h = q * h + h := by push_cast; ring
  rw [e] at he
  have := stageCount_inside (start := start) (stop := stop) (o := 0) hh q n (t + h) (by omega) (by omega) (by omega) (by omega)
  rw [this]; push_cast; ring

/-- window entered: the count brackets the time left to `stop` -/
theorem stageCount_window (hh : 0 < h) : ∀ (n : Nat) (t : Int), start ≤ t + o → stop ≤ t + o + n * h →
    stop - (t + o) ≤ h * stageCount start stop o h t n ∧
    (h * stageCount start stop o h t n < stop - (t + o) + h ∨ stageCount start stop o h t n = 0)
  | 0, t, _, h2 => by
    simp only [stageCount, Nat.cast_zero, zero_mul, add_zero, mul_zero] at h2 ⊢
    exact ⟨by omega, Or.inr trivial⟩
  | n + 1, t, h1, h2 => by
    have e : ((n + 1 : Nat) : Int) * h = n * h + h := by push_cast; ring
    rw [e] at h2
    by_cases hc : t + o < stop
    · have hcc : contCheck start stop (t + o) := by unfold contCheck; omega
      obtain ⟨i1, i2⟩ := stageCount_window hh n (t + h) (by omega) (by omega)
      simp only [stageCount, hcc, if_true]
      have e2 : h * (1 + stageCount start stop o h (t + h) n) = h + h * stageCount start stop o h (t + h) n := by ring
      rw [e2]
      refine ⟨by omega, ?_⟩
      rcases i2 with i2 | i2
      · left; omega
      · left; rw [i2]; omega
    · have hn : ¬ contCheck start stop (t + o) := by unfold contCheck; omega
      have hz := stageCount_after (start := start) hh n (t + h) (by omega : stop ≤ t + h + o)
      simp only [stageCount, hn, if_false, hz]
      exact ⟨by omega, Or.inr (by norm_num)⟩

/-- **any burn, any stage**: if the stage dates begin no later than one step after `start` and run past `stop`, then `h ·`
(number of steps whose stage is on) differs from the duration by at most one step -/
theorem stageCount_bounds (hh : 0 < h) (hse : start ≤ stop) : ∀ (n : Nat) (t : Int), t + o ≤ start + h → stop ≤ t + o + n * h →
    (stop - start) - h ≤ h * stageCount start stop o h t n ∧ h * stageCount start stop o h t n ≤ (stop - start) + h
  | n, t, h1, h2 => by
    by_cases hin : start ≤ t + o
    · obtain ⟨i1, i2⟩ := stageCount_window hh n t hin h2
      refine ⟨by omega, ?_⟩
      rcases i2 with i2 | i2
      · omega
      · rw [i2]; omega
    · match n, h2 with
      | 0, h2 => simp at h2; omega
      | n + 1, h2 =>
        have e : ((n + 1 : Nat) : Int) * h = n * h + h := by push_cast; ring
        rw [e] at h2
        rw [stageCount_skip n t (by omega)]
        exact stageCount_bounds hh hse n (t + h) (by omega) (by omega)

end counting

/-! ### weighted sums over the stages -/

theorem weightedCount_const (start stop h t : Int) (n : Nat) (c : Int) : ∀ sts : List (Int × Int),
    (∀ s ∈ sts, stageCount start stop s.1 h t n = c) → weightedCount start stop h t n sts = weightSum sts * c
  | [], _ => by simp [weightedCount, weightSum]
  | (o, w) :: rest, hc => by
    have h0 := hc (o, w) (by simp)
    have hr := weightedCount_const start stop h t n c rest (fun s hs => hc s (by simp [hs]))
    simp only at h0
    simp only [weightedCount, weightSum, h0, hr]; ring

theorem weightedCount_closing (start stop h t : Int) (n : Nat) (c : Int) : ∀ sts : List (Int × Int),
    (∀ s ∈ sts, stageCount start stop s.1 h t n = if s.1 = h then c - 1 else c) →
    weightedCount start stop h t n sts = weightSum sts * c - closingWeight h sts
  | [], _ => by simp [weightedCount, weightSum, closingWeight]
  | (o, w) :: rest, hc => by
    have h0 := hc (o, w) (by simp)
    have hr := weightedCount_closing start stop h t n c rest (fun s hs => hc s (by simp [hs]))
    simp only at h0
    simp only [weightedCount, weightSum, closingWeight, h0, hr]
    split <;> ring

theorem weightedCount_bounds (start stop h t : Int) (n : Nat) (lo hi : Int) : ∀ sts : List (Int × Int),
    (∀ s ∈ sts, 0 ≤ s.2) → (∀ s ∈ sts, lo ≤ h * stageCount start stop s.1 h t n ∧ h * stageCount start stop s.1 h t n ≤ hi) →
    weightSum sts * lo ≤ h * weightedCount start stop h t n sts ∧ h * weightedCount start stop h t n sts ≤ weightSum sts * hi
  | [], _, _ => by simp [weightedCount, weightSum]
  | (o, w) :: rest, hw, hb => by
    have hw0 : 0 ≤ w := hw (o, w) (by simp)
    obtain ⟨b1, b2⟩ := hb (o, w) (by simp)
    obtain ⟨r1, r2⟩ := weightedCount_bounds start stop h t n lo hi rest (fun s hs => hw s (by simp [hs])) (fun s hs => hb s (by simp [hs]))
    simp only at b1 b2
    simp only [weightedCount, weightSum]
    have m1 := mul_le_mul_of_nonneg_left b1 hw0
    have m2 := mul_le_mul_of_nonneg_left b2 hw0
    constructor <;> nlinarith

/-! ### the stage dates of a tableau with nodes in `[0, 1]` -/

theorem divRound_bounds {a b hmax : Int} (hb : 0 < b) (ha : 0 ≤ a) (hle : a ≤ hmax * b) :
    0 ≤ divRound a b ∧ divRound a b ≤ hmax := by
  have hq0 : 0 ≤ a / b := Int.ediv_nonneg ha hb.le
  have hr0 : 0 ≤ a % b := Int.emod_nonneg a (ne_of_gt hb)
  have hrb : a % b < b := Int.emod_lt_of_pos a hb
  have hdiv : b * (a / b) + a % b = a := Int.mul_ediv_add_emod a b
  have hq1 : a / b ≤ hmax := by
    by_contra hcon
    have : hmax + 1 ≤ a / b := by omega
    have := mul_le_mul_of_nonneg_left this hb.le
    nlinarith
  unfold divRound
  simp only
  split
  · rename_i hc
    refine ⟨by omega, ?_⟩
    have hrpos : 0 < a % b := by rcases hc with hc | hc <;> omega
    by_contra hcon
    have : hmax ≤ a / b := by omega
    have := mul_le_mul_of_nonneg_left this hb.le
    nlinarith
  · exact ⟨hq0, hq1⟩

theorem stageOffset_bounds {c : Int × Int} {h : Int} (hc : 0 ≤ c.1 ∧ c.1 ≤ c.2 ∧ 0 < c.2) (hh : 0 ≤ h) :
    0 ≤ stageOffset c h ∧ stageOffset c h ≤ h := by
  unfold stageOffset
  exact divRound_bounds hc.2.2 (mul_nonneg hh hc.1) (mul_le_mul_of_nonneg_left hc.2.1 hh)

/-- nodes of a tableau all in `[0, 1]` (checked by `decide` on the regenerated tables) -/
def NodesInUnit (cs : List (Int × Int)) : Prop := ∀ c ∈ cs, 0 ≤ c.1 ∧ c.1 ≤ c.2 ∧ 0 < c.2

theorem stagesOf_bounds {cs : List (Int × Int)} (hcs : NodesInUnit cs) (ws : List Int) {h : Int} (hh : 0 ≤ h) :
    ∀ s ∈ stagesOf cs ws h, 0 ≤ s.1 ∧ s.1 ≤ h := by
  intro s hs
  unfold stagesOf at hs
  have h1 := (List.of_mem_zip (a := s.1) (b := s.2) hs).1
  rw [List.mem_map] at h1
  obtain ⟨c, hc, he⟩ := h1
  rw [← he]
  exact stageOffset_bounds (hcs c hc) hh

theorem weightSum_zip : ∀ (os : List Int) (ws : List Int), os.length = ws.length → weightSum (os.zip ws) = ws.sum
  | [], [], _ => rfl
  | [], _ :: _, hl => by simp at hl
  | _ :: _, [], hl => by simp at hl
  | o :: os, w :: ws, hl => by
    simp only [List.zip_cons_cons, weightSum, List.sum_cons, weightSum_zip os ws (by simpa using hl)]

theorem weightSum_stagesOf (cs : List (Int × Int)) (ws : List Int) (h : Int) (hl : cs.length = ws.length) :
    weightSum (stagesOf cs ws h) = ws.sum := by
  unfold stagesOf
  exact weightSum_zip _ ws (by simpa using hl)

theorem weights_nonneg_stagesOf (cs : List (Int × Int)) (ws : List Int) (h : Int) (hw : ∀ w ∈ ws, 0 ≤ w) :
    ∀ s ∈ stagesOf cs ws h, 0 ≤ s.2 := by
  intro s hs
  unfold stagesOf at hs
  exact hw _ (List.of_mem_zip (a := s.1) (b := s.2) hs).2

end BeyondVerif.Lemmas.Quadrature
