import Mathlib.Analysis.SpecialFunctions.Trigonometric.DerivHyp
import Mathlib.Analysis.Complex.Exponential
import Mathlib.Tactic.Linarith
import Mathlib.Tactic.Ring
import Mathlib.Tactic.GCongr

/-!
Elementary second-order bounds for `sinh`/`cosh` used by the hyperbolic Kepler-equation theorems of C01:
the Newton step `H ↦ H + δ` leaves a residual `e (sinh (H+δ) − sinh H − δ cosh H)`, quadratic in `δ`.
-/
namespace BeyondVerif.Hyp

theorem abs_sinh_sub_id_le {d : ℝ} (hd : |d| ≤ 1) : |Real.sinh d - d| ≤ d ^ 2 := by
  have h1 := Real.abs_exp_sub_one_sub_id_le hd
  have h2 := Real.abs_exp_sub_one_sub_id_le (x := -d) (by rwa [abs_neg])
  rw [Real.sinh_eq]
  have key : (Real.exp d - Real.exp (-d)) / 2 - d = ((Real.exp d - 1 - d) - (Real.exp (-d) - 1 - -d)) / 2 := by ring
  rw [key, abs_div, abs_two]
  have := abs_sub (Real.exp d - 1 - d) (Real.exp (-d) - 1 - -d)
  have h3 : (-d) ^ 2 = d ^ 2 := by ring
  rw [h3] at h2
  rw [div_le_iff₀ (by norm_num)]
  linarith

theorem cosh_sub_one_le {d : ℝ} (hd : |d| ≤ 1) : 0 ≤ Real.cosh d - 1 ∧ Real.cosh d - 1 ≤ d ^ 2 := by
  have h1 := Real.abs_exp_sub_one_sub_id_le hd
  have h2 := Real.abs_exp_sub_one_sub_id_le (x := -d) (by rwa [abs_neg])
  have h3 : (-d) ^ 2 = d ^ 2 := by ring
  rw [h3] at h2
  refine ⟨by linarith [Real.one_le_cosh d], ?_⟩
  rw [Real.cosh_eq]
  have := (abs_le.mp h1).2
  have := (abs_le.mp h2).2
  linarith

theorem abs_sinh_le_cosh (x : ℝ) : |Real.sinh x| ≤ Real.cosh x := by
  rw [Real.abs_sinh, ← Real.cosh_abs x]; exact (Real.sinh_lt_cosh |x|).le

/-- remainder of the first-order expansion of `sinh` -/
theorem abs_sinh_add_sub_le {X d : ℝ} (hd : |d| ≤ 1) :
    |Real.sinh (X + d) - Real.sinh X - d * Real.cosh X| ≤ 2 * Real.cosh X * d ^ 2 := by
  have hs := abs_sinh_sub_id_le hd
  obtain ⟨hc0, hc⟩ := cosh_sub_one_le hd
  have hX := abs_sinh_le_cosh X
  have hcX : 0 < Real.cosh X := Real.cosh_pos X
  rw [Real.sinh_add]
  have key : Real.sinh X * Real.cosh d + Real.cosh X * Real.sinh d - Real.sinh X - d * Real.cosh X
      = Real.sinh X * (Real.cosh d - 1) + Real.cosh X * (Real.sinh d - d) := by ring
  rw [key]
  calc |Real.sinh X * (Real.cosh d - 1) + Real.cosh X * (Real.sinh d - d)|
      ≤ |Real.sinh X * (Real.cosh d - 1)| + |Real.cosh X * (Real.sinh d - d)| := abs_add_le _ _
    _ = |Real.sinh X| * (Real.cosh d - 1) + Real.cosh X * |Real.sinh d - d| := by
        rw [abs_mul, abs_mul, abs_of_nonneg hc0, abs_of_pos hcX]
    _ ≤ Real.cosh X * d ^ 2 + Real.cosh X * d ^ 2 := by gcongr
    _ = 2 * Real.cosh X * d ^ 2 := by ring

/-- `cosh` changes by at most a factor 4 over a step of length ≤ 1 -/
theorem cosh_le_four_mul {X R : ℝ} (h : |R - X| ≤ 1) : Real.cosh X ≤ 4 * Real.cosh R := by
  have hd : |X - R| ≤ 1 := by rwa [abs_sub_comm]
  obtain ⟨_, hc⟩ := cosh_sub_one_le hd
  have hs := abs_sinh_sub_id_le hd
  have hd2 : (X - R) ^ 2 ≤ 1 := by
    have := abs_le.mp hd; nlinarith
  have hsd : |Real.sinh (X - R)| ≤ 2 := by
    have h1 : |Real.sinh (X - R)| ≤ |Real.sinh (X - R) - (X - R)| + |X - R| := by
      have := abs_add_le (Real.sinh (X - R) - (X - R)) (X - R); simpa using this
    linarith
  have hR := abs_sinh_le_cosh R
  have hcR : 0 < Real.cosh R := Real.cosh_pos R
  have : Real.cosh X = Real.cosh R * Real.cosh (X - R) + Real.sinh R * Real.sinh (X - R) := by
    rw [← Real.cosh_add]; ring_nf
  rw [this]
  have h2 : Real.sinh R * Real.sinh (X - R) ≤ |Real.sinh R| * |Real.sinh (X - R)| := by
    rw [← abs_mul]; exact le_abs_self _
  have h3 : |Real.sinh R| * |Real.sinh (X - R)| ≤ Real.cosh R * 2 := by gcongr
  have h4 : Real.cosh R * Real.cosh (X - R) ≤ Real.cosh R * 2 := by
    gcongr; linarith
  linarith

/-- `x ↦ e sinh x − x` expands distances by at least `e − 1` (`e ≥ 1`) -/
theorem kepler_hyp_expanding {e a b : ℝ} (he : 1 ≤ e) :
    (e - 1) * |a - b| ≤ |(e * Real.sinh a - a) - (e * Real.sinh b - b)| := by
  wlog hab : b ≤ a generalizing a b
  · have := this (a := b) (b := a) (le_of_not_ge hab)
    rw [abs_sub_comm a b, abs_sub_comm (e * Real.sinh a - a)]; exact this
  have hm := Real.sinh_sub_id_strictMono.monotone hab
  have hsm : Real.sinh b ≤ Real.sinh a := Real.sinh_le_sinh.mpr hab
  have h1 : 0 ≤ (e * Real.sinh a - a) - (e * Real.sinh b - b) - (e - 1) * (a - b) := by
    have : (e * Real.sinh a - a) - (e * Real.sinh b - b) - (e - 1) * (a - b)
        = e * ((Real.sinh a - a) - (Real.sinh b - b)) := by ring
    rw [this]; apply mul_nonneg (by linarith); linarith
  rw [abs_of_nonneg (sub_nonneg.mpr hab)]
  have h0 : 0 ≤ (e - 1) * (a - b) := mul_nonneg (by linarith) (sub_nonneg.mpr hab)
  rw [abs_of_nonneg (by linarith)]
  linarith

end BeyondVerif.Hyp
