import Mathlib.Analysis.SpecialFunctions.Trigonometric.Deriv
import Mathlib.Analysis.SpecialFunctions.Trigonometric.Bounds
import Mathlib.Analysis.Calculus.Deriv.MeanValue
import Mathlib.Topology.Order.IntermediateValue
import Mathlib.Tactic.Ring
import Mathlib.Tactic.FieldSimp
import Mathlib.Tactic.Linarith

/-!
Newton's iteration for Kepler's equation `E − e sin E = M`, `0 ≤ e < 1`, `0 ≤ M`, started at `M + e ≤ π`:
the iterates decrease monotonically towards the root inside `[M, M + e]` (the function is increasing and convex
on `[0, π]`), so after at most `e / tol + 1` passes two consecutive iterates are closer than `tol`.
-/
noncomputable section
namespace BeyondVerif.NewtonKepler
open Real

/-- Kepler's function -/
def F (e M E : ℝ) : ℝ := E - e * sin E - M
/-- the Newton update, in the form written in forms.py (`next_E`) -/
def G (e M E : ℝ) : ℝ := E + (M - E + e * sin E) / (1 - e * cos E)

variable {e M : ℝ}

theorem denom_pos (he0 : 0 ≤ e) (he : e < 1) (u : ℝ) : 0 < 1 - e * cos u := by
  nlinarith [Real.neg_one_le_cos u, Real.cos_le_one u]

theorem F_mono (he0 : 0 ≤ e) (he : e < 1) {a b : ℝ} (hab : a ≤ b) : F e M a ≤ F e M b := by
  have h := Real.abs_sin_sub_sin_le b a
  have h1 : sin b - sin a ≤ b - a := by
    have := le_abs_self (sin b - sin a)
    rw [abs_of_nonneg (sub_nonneg.mpr hab)] at h; linarith
  unfold F
  nlinarith

/-- a root in `[M, M + e]` -/
theorem exists_root (he0 : 0 ≤ e) (hM0 : 0 ≤ M) (hMe : M + e ≤ π) :
    ∃ r, M ≤ r ∧ r ≤ M + e ∧ F e M r = 0 := by
  have hcont : ContinuousOn (F e M) (Set.Icc M (M + e)) := by
    unfold F; fun_prop
  have hlo : F e M M ≤ 0 := by
    have : 0 ≤ sin M := Real.sin_nonneg_of_nonneg_of_le_pi hM0 (by linarith)
    unfold F; nlinarith
  have hhi : 0 ≤ F e M (M + e) := by
    have := Real.sin_le_one (M + e)
    unfold F; nlinarith
  obtain ⟨r, hr, hfr⟩ := intermediate_value_Icc (by linarith : M ≤ M + e) hcont ⟨hlo, hhi⟩
  exact ⟨r, hr.1, hr.2, hfr⟩

/-- concavity of `sin` on `[0, π]` as a tangent bound: `sin E − sin r ≥ cos E · (E − r)` for `0 ≤ r ≤ E ≤ π` -/
theorem sin_tangent {r E : ℝ} (hr0 : 0 ≤ r) (hrE : r ≤ E) (hE : E ≤ π) : cos E * (E - r) ≤ sin E - sin r := by
  rcases eq_or_lt_of_le hrE with h | h
  · subst h; simp
  · obtain ⟨c, hc, hd⟩ := exists_deriv_eq_slope sin h Real.continuous_sin.continuousOn
      Real.differentiable_sin.differentiableOn
    rw [Real.deriv_sin] at hd
    have hcos : cos E ≤ cos c := Real.cos_le_cos_of_nonneg_of_le_pi (by linarith [hc.1]) hE hc.2.le
    have hpos : 0 < E - r := sub_pos.mpr h
    have : sin E - sin r = cos c * (E - r) := by rw [hd]; field_simp
    rw [this]; exact mul_le_mul_of_nonneg_right hcos hpos.le

/-- one Newton step from the right of the root stays between the root and the current iterate -/
theorem step (he0 : 0 ≤ e) (he : e < 1) {r E : ℝ} (hr0 : 0 ≤ r) (hroot : F e M r = 0) (hrE : r ≤ E) (hE : E ≤ π) :
    r ≤ G e M E ∧ G e M E ≤ E := by
  have hD := denom_pos he0 he E
  have hF0 : 0 ≤ F e M E := by have := F_mono (M := M) he0 he hrE; rw [hroot] at this; exact this
  have htan := sin_tangent hr0 hrE hE
  have hFle : F e M E ≤ (1 - e * cos E) * (E - r) := by
    have : F e M E = F e M E - F e M r := by rw [hroot]; ring
    rw [this]; unfold F; nlinarith
  have hG : G e M E = E - F e M E / (1 - e * cos E) := by unfold G F; field_simp; ring
  rw [hG]
  constructor
  · have : F e M E / (1 - e * cos E) ≤ E - r := by rw [div_le_iff₀ hD]; linarith
    linarith
  · have : 0 ≤ F e M E / (1 - e * cos E) := div_nonneg hF0 hD.le
    linarith

/-- the iterates -/
def iter (e M : ℝ) (E0 : ℝ) : ℕ → ℝ
  | 0 => E0
  | n + 1 => G e M (iter e M E0 n)

theorem iter_bounds (he0 : 0 ≤ e) (he : e < 1) {r E0 : ℝ} (hr0 : 0 ≤ r) (hroot : F e M r = 0) (hrE : r ≤ E0) (hE : E0 ≤ π) (n : ℕ) :
    r ≤ iter e M E0 n ∧ iter e M E0 n ≤ π ∧ iter e M E0 (n + 1) ≤ iter e M E0 n := by
  induction n with
  | zero =>
    have := step he0 he hr0 hroot hrE hE
    exact ⟨hrE, hE, this.2⟩
  | succ n ih =>
    have h1 := step he0 he hr0 hroot ih.1 ih.2.1
    have h2 := step he0 he hr0 hroot h1.1 (h1.2.trans ih.2.1)
    exact ⟨h1.1, h1.2.trans ih.2.1, h2.2⟩

/-- if the first `n` steps are all at least `tol` long, the iterates have descended by `n · tol` -/
theorem descent {u : ℕ → ℝ} {tol : ℝ} (n : ℕ) (h : ∀ j < n, tol ≤ u j - u (j + 1)) : n * tol ≤ u 0 - u n := by
  induction n with
  | zero => simp
  | succ n ih =>
    have h1 := ih (fun j hj => h j (Nat.lt_succ_of_lt hj))
    have h2 := h n (Nat.lt_succ_self n)
    push_cast; linarith

/-- **a short step occurs**: there is a first index `n ≤ e / tol` at which two consecutive iterates differ by less
than `tol`, all earlier steps being at least `tol` -/
theorem exists_short_step (he0 : 0 ≤ e) (he : e < 1) (hM0 : 0 ≤ M) (hMe : M + e ≤ π) {tol : ℝ} (htol : 0 < tol) :
    ∃ n : ℕ, (∀ j < n, tol ≤ |iter e M (M + e) (j + 1) - iter e M (M + e) j|) ∧
      |iter e M (M + e) (n + 1) - iter e M (M + e) n| < tol ∧ (n : ℝ) * tol ≤ e := by
  obtain ⟨r, hMr, hrMe, hroot⟩ := exists_root he0 hM0 hMe
  have hb := iter_bounds (M := M) he0 he (hM0.trans hMr) hroot hrMe hMe
  set u := iter e M (M + e) with hu
  have habs : ∀ j, |u (j + 1) - u j| = u j - u (j + 1) := by
    intro j; rw [abs_sub_comm, abs_of_nonneg (sub_nonneg.mpr (hb j).2.2)]
  -- some step is short: otherwise the descent exceeds u 0 - r ≤ e
  have hex : ∃ n : ℕ, u n - u (n + 1) < tol := by
    by_contra hno
    simp only [not_exists, not_lt] at hno
    obtain ⟨N, hN⟩ := exists_nat_gt (e / tol)
    have hd := descent (u := u) (tol := tol) N (fun j _ => hno j)
    have h1 : u 0 - u N ≤ e := by
      have : u 0 = M + e := rfl
      linarith [(hb N).1]
    rw [div_lt_iff₀ htol] at hN
    linarith
  classical
  refine ⟨Nat.find hex, ?_, ?_, ?_⟩
  · intro j hj
    rw [habs]; exact not_lt.mp (Nat.find_min hex hj)
  · rw [habs]; exact Nat.find_spec hex
  · have hd := descent (u := u) (tol := tol) (Nat.find hex) (fun j hj => not_lt.mp (Nat.find_min hex hj))
    have : u 0 = M + e := rfl
    linarith [(hb (Nat.find hex)).1]

theorem iter_shift (e M X : ℝ) (j : ℕ) : iter e M X (j + 1) = iter e M (G e M X) j := by
  induction j with
  | zero => rfl
  | succ j ih => rw [iter, ih]; rfl

end BeyondVerif.NewtonKepler
