import Mathlib.Analysis.InnerProductSpace.Calculus
import Mathlib.Analysis.InnerProductSpace.Dual
import Mathlib.Analysis.Calculus.Gradient.Basic
import Mathlib.Analysis.SpecialFunctions.Sqrt
import Mathlib.Analysis.Calculus.Deriv.Mul
import Mathlib.Analysis.Calculus.Deriv.Inv
import Mathlib.Analysis.Calculus.Deriv.Add
import Mathlib.Tactic.Ring
import Mathlib.Tactic.FieldSimp
import Mathlib.Tactic.Linarith
import Mathlib.Tactic.Positivity
import Mathlib.Tactic.Module

/-!
The Newtonian attraction of a point mass at the origin, in any real inner product space (C06):
it is the gradient of `µ/‖r‖`, it is bounded by `µ/m²` and `2µ/m³`-Lipschitz on the whole exterior `‖r‖ ≥ m` (which is not
convex: the proof is algebraic, not by the mean value theorem), energy and angular momentum are constant along every
solution of `r' = v, v' = grav µ r`.
-/
noncomputable section
namespace BeyondVerif.Gravity
open InnerProductSpace

variable {F : Type*} [NormedAddCommGroup F] [InnerProductSpace ℝ F]

local notation "⟪" x ", " y "⟫" => inner ℝ x y

/-- `−µ r / ‖r‖³` -/
def grav (mu : ℝ) (r : F) : F := (-(mu / ‖r‖ ^ 3)) • r

/-- right-hand side of the two-body equation as a first-order system on (position, velocity) -/
def twoBody (mu : ℝ) (s : F × F) : F × F := (s.2, grav mu s.1)

theorem norm_grav (mu : ℝ) (hmu : 0 ≤ mu) (r : F) (hr : r ≠ 0) : ‖grav mu r‖ = mu / ‖r‖ ^ 2 := by
  have h : 0 < ‖r‖ := norm_pos_iff.2 hr
  rw [grav, norm_smul, Real.norm_eq_abs, abs_neg, abs_of_nonneg (by positivity)]
  field_simp

/-- `‖grav µ r‖ ≤ µ/m²` on `‖r‖ ≥ m > 0` -/
theorem grav_bound (mu m : ℝ) (hmu : 0 ≤ mu) (hm : 0 < m) (r : F) (hr : m ≤ ‖r‖) : ‖grav mu r‖ ≤ mu / m ^ 2 := by
  have h : 0 < ‖r‖ := lt_of_lt_of_le hm hr
  rw [norm_grav mu hmu r (norm_pos_iff.1 h)]
  apply div_le_div_of_nonneg_left hmu (by positivity)
  exact pow_le_pow_left₀ hm.le hr 2

/-- the polynomial core of the Lipschitz estimate -/
private theorem lip_poly (a b m s : ℝ) (hm : 0 < m) (ha : m ≤ a) (hb : m ≤ b) (hs : s ≤ a * b) :
    m ^ 6 * (a ^ 6 * b ^ 2 + a ^ 2 * b ^ 6 - 2 * (a ^ 3 * b ^ 3) * s) ≤ 4 * (a ^ 6 * b ^ 6) * (a ^ 2 + b ^ 2 - 2 * s) := by
  have ha0 : 0 < a := lt_of_lt_of_le hm ha
  have hb0 : 0 < b := lt_of_lt_of_le hm hb
  have hm2 : m ^ 2 ≤ a ^ 2 := pow_le_pow_left₀ hm.le ha 2
  have hm2' : m ^ 2 ≤ b ^ 2 := pow_le_pow_left₀ hm.le hb 2
  have hab2 : m ^ 3 ≤ a * b ^ 2 := by
    calc m ^ 3 = m * m ^ 2 := by ring
      _ ≤ a * b ^ 2 := mul_le_mul ha hm2' (by positivity) ha0.le
  have hba2 : m ^ 3 ≤ a ^ 2 * b := by
    calc m ^ 3 = m ^ 2 * m := by ring
      _ ≤ a ^ 2 * b := mul_le_mul hm2 hb (by positivity) (by positivity)
  have h1 : m ^ 3 * (a + b) ≤ 2 * (a ^ 2 * b ^ 2) := by
    have e1 : m ^ 3 * a ≤ a * b ^ 2 * a := mul_le_mul_of_nonneg_right hab2 ha0.le
    have e2 : m ^ 3 * b ≤ a ^ 2 * b * b := mul_le_mul_of_nonneg_right hba2 hb0.le
    nlinarith [e1, e2]
  have h1' : m ^ 6 * (a + b) ^ 2 ≤ 4 * (a ^ 4 * b ^ 4) := by
    have := pow_le_pow_left₀ (by positivity) h1 2
    calc m ^ 6 * (a + b) ^ 2 = (m ^ 3 * (a + b)) ^ 2 := by ring
      _ ≤ (2 * (a ^ 2 * b ^ 2)) ^ 2 := this
      _ = 4 * (a ^ 4 * b ^ 4) := by ring
  have h2 : m ^ 6 ≤ a ^ 3 * b ^ 3 := by
    calc m ^ 6 = m ^ 3 * m ^ 3 := by ring
      _ ≤ a ^ 3 * b ^ 3 := mul_le_mul (pow_le_pow_left₀ hm.le ha 3) (pow_le_pow_left₀ hm.le hb 3) (by positivity) (by positivity)
  have t1 : 0 ≤ (a ^ 2 * b ^ 2) * ((a - b) ^ 2 * (4 * (a ^ 4 * b ^ 4) - m ^ 6 * (a + b) ^ 2)) :=
    mul_nonneg (by positivity) (mul_nonneg (sq_nonneg _) (sub_nonneg.2 h1'))
  have t2 : 0 ≤ (a ^ 3 * b ^ 3) * ((a * b - s) * (8 * (a ^ 3 * b ^ 3) - 2 * m ^ 6)) :=
    mul_nonneg (by positivity) (mul_nonneg (sub_nonneg.2 hs) (by linarith [pow_pos hm 6]))
  nlinarith [t1, t2]

/-- **the attraction is `2µ/m³`-Lipschitz on the exterior `‖r‖ ≥ m`** — for ANY two points of the exterior (the segment
between them may cross the excluded ball) -/
theorem grav_lipschitz (mu m : ℝ) (hmu : 0 ≤ mu) (hm : 0 < m) (x y : F) (hx : m ≤ ‖x‖) (hy : m ≤ ‖y‖) :
    ‖grav mu x - grav mu y‖ ≤ 2 * mu / m ^ 3 * ‖x - y‖ := by
  set a := ‖x‖ with ha
  set b := ‖y‖ with hb
  have ha0 : 0 < a := lt_of_lt_of_le hm hx
  have hb0 : 0 < b := lt_of_lt_of_le hm hy
  have e : grav mu x - grav mu y = (mu / (a ^ 3 * b ^ 3)) • (a ^ 3 • y - b ^ 3 • x) := by
    simp only [grav, ← ha, ← hb]
    rw [smul_sub, smul_smul, smul_smul]
    have e1 : mu / (a ^ 3 * b ^ 3) * a ^ 3 = mu / b ^ 3 := by field_simp
    have e2 : mu / (a ^ 3 * b ^ 3) * b ^ 3 = mu / a ^ 3 := by field_simp
    rw [e1, e2]
    module
  have key : m ^ 3 * ‖a ^ 3 • y - b ^ 3 • x‖ ≤ 2 * (a ^ 3 * b ^ 3) * ‖x - y‖ := by
    apply le_of_pow_le_pow_left₀ (n := 2) (by norm_num) (by positivity)
    have n1 : ‖a ^ 3 • y - b ^ 3 • x‖ ^ 2 = a ^ 6 * b ^ 2 + a ^ 2 * b ^ 6 - 2 * (a ^ 3 * b ^ 3) * ⟪x, y⟫ := by
      rw [norm_sub_sq_real, norm_smul, norm_smul, real_inner_smul_left, real_inner_smul_right, real_inner_comm,
        Real.norm_of_nonneg (by positivity), Real.norm_of_nonneg (by positivity), ← ha, ← hb]
      ring
    have n2 : ‖x - y‖ ^ 2 = a ^ 2 + b ^ 2 - 2 * ⟪x, y⟫ := by
      rw [norm_sub_sq_real, ← ha, ← hb]; ring
    rw [mul_pow, mul_pow, n1, n2]
    have := lip_poly a b m ⟪x, y⟫ hm hx hy (real_inner_le_norm x y)
    calc (m ^ 3) ^ 2 * (a ^ 6 * b ^ 2 + a ^ 2 * b ^ 6 - 2 * (a ^ 3 * b ^ 3) * ⟪x, y⟫)
        = m ^ 6 * (a ^ 6 * b ^ 2 + a ^ 2 * b ^ 6 - 2 * (a ^ 3 * b ^ 3) * ⟪x, y⟫) := by ring
      _ ≤ 4 * (a ^ 6 * b ^ 6) * (a ^ 2 + b ^ 2 - 2 * ⟪x, y⟫) := this
      _ = (2 * (a ^ 3 * b ^ 3)) ^ 2 * (a ^ 2 + b ^ 2 - 2 * ⟪x, y⟫) := by ring
  rw [e, norm_smul, Real.norm_of_nonneg (by positivity)]
  have hpos : 0 < a ^ 3 * b ^ 3 := by positivity
  have hm3 : 0 < m ^ 3 := by positivity
  calc mu / (a ^ 3 * b ^ 3) * ‖a ^ 3 • y - b ^ 3 • x‖
      = mu / (a ^ 3 * b ^ 3) / m ^ 3 * (m ^ 3 * ‖a ^ 3 • y - b ^ 3 • x‖) := by field_simp
    _ ≤ mu / (a ^ 3 * b ^ 3) / m ^ 3 * (2 * (a ^ 3 * b ^ 3) * ‖x - y‖) :=
        mul_le_mul_of_nonneg_left key (by positivity)
    _ = 2 * mu / m ^ 3 * ‖x - y‖ := by field_simp

/-- `‖twoBody µ s‖ ≤ max V (µ/m²)` on `‖r‖ ≥ m`, `‖v‖ ≤ V` (sup norm on position × velocity) -/
theorem twoBody_bound (mu m V : ℝ) (hmu : 0 ≤ mu) (hm : 0 < m) (s : F × F) (hr : m ≤ ‖s.1‖) (hv : ‖s.2‖ ≤ V) :
    ‖twoBody mu s‖ ≤ max V (mu / m ^ 2) := by
  rw [twoBody, Prod.norm_def]
  exact max_le_max hv (grav_bound mu m hmu hm s.1 hr)

/-- **the two-body right-hand side is `max 1 (2µ/m³)`-Lipschitz on `‖r‖ ≥ m`** -/
theorem twoBody_lipschitz (mu m : ℝ) (hmu : 0 ≤ mu) (hm : 0 < m) (s s' : F × F) (hr : m ≤ ‖s.1‖) (hr' : m ≤ ‖s'.1‖) :
    ‖twoBody mu s - twoBody mu s'‖ ≤ max 1 (2 * mu / m ^ 3) * ‖s - s'‖ := by
  have hd : 0 ≤ ‖s - s'‖ := norm_nonneg _
  have h1 : ‖s.1 - s'.1‖ ≤ ‖s - s'‖ := by rw [Prod.norm_def]; exact le_max_left _ _
  have h2 : ‖s.2 - s'.2‖ ≤ ‖s - s'‖ := by rw [Prod.norm_def]; exact le_max_right _ _
  have hc : 0 ≤ 2 * mu / m ^ 3 := by positivity
  rw [show twoBody mu s - twoBody mu s' = (s.2 - s'.2, grav mu s.1 - grav mu s'.1) from rfl, Prod.norm_def]
  apply max_le
  · calc ‖s.2 - s'.2‖ ≤ 1 * ‖s - s'‖ := by linarith
      _ ≤ max 1 (2 * mu / m ^ 3) * ‖s - s'‖ := mul_le_mul_of_nonneg_right (le_max_left _ _) hd
  · calc ‖grav mu s.1 - grav mu s'.1‖ ≤ 2 * mu / m ^ 3 * ‖s.1 - s'.1‖ := grav_lipschitz mu m hmu hm _ _ hr hr'
      _ ≤ 2 * mu / m ^ 3 * ‖s - s'‖ := mul_le_mul_of_nonneg_left h1 hc
      _ ≤ max 1 (2 * mu / m ^ 3) * ‖s - s'‖ := mul_le_mul_of_nonneg_right (le_max_right _ _) hd

/-! ### the attraction is the gradient of `µ/‖r‖` -/

theorem hasFDerivAt_norm (r : F) (hr : r ≠ 0) : HasFDerivAt (fun x : F => ‖x‖) ((1 / ‖r‖) • innerSL ℝ r) r := by
  have h0 : 0 < ‖r‖ := norm_pos_iff.2 hr
  have h1 : HasFDerivAt (fun x : F => ‖x‖ ^ 2) (2 • innerSL ℝ r) r := (hasStrictFDerivAt_norm_sq r).hasFDerivAt
  have h2 := h1.sqrt (by positivity)
  simp only [Real.sqrt_sq (norm_nonneg _)] at h2
  have e : (1 / ‖r‖) • innerSL ℝ r = (1 / (2 * ‖r‖)) • (2 • innerSL ℝ r) := by
    ext v
    simp only [smul_apply, innerSL_apply_apply, smul_eq_mul, nsmul_eq_mul]
    field_simp
    push_cast
    ring
  rw [e]
  exact h2

/-- **`grav µ` is the gradient of the potential `µ/‖r‖`**, Fréchet form: `D(µ/‖·‖)(r) v = ⟪grav µ r, v⟫` for `r ≠ 0` -/
theorem hasFDerivAt_potential (mu : ℝ) (r : F) (hr : r ≠ 0) :
    HasFDerivAt (fun x : F => mu / ‖x‖) (innerSL ℝ (grav mu r)) r := by
  have h0 : 0 < ‖r‖ := norm_pos_iff.2 hr
  have hg : HasDerivAt (fun u : ℝ => mu / u) (-mu / ‖r‖ ^ 2) ‖r‖ := by
    have := (hasDerivAt_inv h0.ne').const_mul mu
    have e1 : (fun u : ℝ => mu / u) = fun y => mu * y⁻¹ := by funext u; rw [div_eq_mul_inv]
    have e2 : -mu / ‖r‖ ^ 2 = mu * -(‖r‖ ^ 2)⁻¹ := by field_simp
    rw [e1, e2]
    exact this
  have h := hg.comp_hasFDerivAt r (hasFDerivAt_norm r hr)
  have e : innerSL ℝ (grav mu r) = (-mu / ‖r‖ ^ 2) • ((1 / ‖r‖) • innerSL ℝ r) := by
    ext v
    simp only [grav, innerSL_apply_apply, smul_apply, smul_eq_mul, real_inner_smul_left]
    field_simp
  rw [e]
  exact h

/-- the same as a `HasGradientAt` statement (complete spaces) -/
theorem hasGradientAt_potential [CompleteSpace F] (mu : ℝ) (r : F) (hr : r ≠ 0) :
    HasGradientAt (fun x : F => mu / ‖x‖) (grav mu r) r := by
  rw [hasGradientAt_iff_hasFDerivAt]
  have e : toDual ℝ F (grav mu r) = innerSL ℝ (grav mu r) := by
    ext v
    simp only [toDual_apply_apply, innerSL_apply_apply]
  rw [e]
  exact hasFDerivAt_potential mu r hr

/-! ### first integrals along solutions -/

/-- **energy is constant along every solution** of `r' = v`, `v' = grav µ r` (while `r ≠ 0`):
`d/dt (‖v‖²/2 − µ/‖r‖) = 0` -/
theorem energy_hasDerivAt_zero (mu : ℝ) (r v : ℝ → F) (t : ℝ) (hr : HasDerivAt r (v t) t)
    (hv : HasDerivAt v (grav mu (r t)) t) (h0 : r t ≠ 0) :
    HasDerivAt (fun s => ‖v s‖ ^ 2 / 2 - mu / ‖r s‖) 0 t := by
  have h1 : HasDerivAt (fun s => ‖v s‖ ^ 2 / 2) (2 * ⟪v t, grav mu (r t)⟫ / 2) t := hv.norm_sq.div_const 2
  have h2 : HasDerivAt (fun s => mu / ‖r s‖) (innerSL ℝ (grav mu (r t)) (v t)) t :=
    (hasFDerivAt_potential mu (r t) h0).comp_hasDerivAt t hr
  have h3 := h1.sub h2
  have e : 2 * ⟪v t, grav mu (r t)⟫ / 2 - innerSL ℝ (grav mu (r t)) (v t) = 0 := by
    rw [innerSL_apply_apply, real_inner_comm]
    ring
  rw [e] at h3
  exact h3

/-- **angular momentum is constant along every solution of a central field** `r' = v`, `v' = c • r`: every component
`⟪r,e₁⟫⟪v,e₂⟫ − ⟪r,e₂⟫⟪v,e₁⟫` of the bivector `r ∧ v` has derivative 0 (in ℝ³ with `e₁, e₂` basis vectors these are
the components of `r × v`) -/
theorem angular_momentum_hasDerivAt_zero (c : ℝ) (r v : ℝ → F) (t : ℝ) (e₁ e₂ : F) (hr : HasDerivAt r (v t) t)
    (hv : HasDerivAt v (c • r t) t) :
    HasDerivAt (fun s => ⟪r s, e₁⟫ * ⟪v s, e₂⟫ - ⟪r s, e₂⟫ * ⟪v s, e₁⟫) 0 t := by
  have r1 := hr.inner ℝ (hasDerivAt_const t e₁)
  have r2 := hr.inner ℝ (hasDerivAt_const t e₂)
  have v1 := hv.inner ℝ (hasDerivAt_const t e₁)
  have v2 := hv.inner ℝ (hasDerivAt_const t e₂)
  have h := (r1.mul v2).sub (r2.mul v1)
  have e : (⟪r t, (0 : F)⟫ + ⟪v t, e₁⟫) * ⟪v t, e₂⟫ + ⟪r t, e₁⟫ * (⟪v t, (0 : F)⟫ + ⟪c • r t, e₂⟫)
      - ((⟪r t, (0 : F)⟫ + ⟪v t, e₂⟫) * ⟪v t, e₁⟫ + ⟪r t, e₂⟫ * (⟪v t, (0 : F)⟫ + ⟪c • r t, e₁⟫)) = 0 := by
    simp only [inner_zero_right, zero_add, real_inner_smul_left]
    ring
  rw [e] at h
  exact h

/-- the attraction is a central field -/
theorem grav_central (mu : ℝ) (r : F) : grav mu r = (-(mu / ‖r‖ ^ 3)) • r := rfl

end BeyondVerif.Gravity
