import Mathlib.Analysis.SpecialFunctions.Trigonometric.DerivHyp
import Mathlib.Analysis.SpecialFunctions.Sqrt
import Mathlib.Tactic.Ring
import Mathlib.Tactic.FieldSimp
import Mathlib.Tactic.Linarith
import Mathlib.Tactic.LinearCombination
import Mathlib.Analysis.Calculus.Deriv.Inverse
import Mathlib.Topology.MetricSpace.Lipschitz

/-!
Hyperbolic Keplerian motion solves the two-body equation of motion (orbital plane, perifocal axes).
If the hyperbolic anomaly `H(t)` satisfies the hyperbolic Kepler equation `e sinh H − H = M₀ + n t` with a mean anomaly
advancing at the constant rate `n`, then, for `a < 0 < e − 1` (the library's sign convention: `a` negative on a hyperbola),
`(x, y) = (a (cosh H − e), −a √(e²−1) sinh H)` satisfies `r̈ = −µ r / |r|³` with `µ = −n² a³ = n² |a|³`.
Counterpart of Lemmas/TwoBody.lean (ellipse).
-/
noncomputable section
set_option linter.unusedVariables false
namespace BeyondVerif.TwoBodyHyp
open Real

variable {a e n M0 : ℝ} {H : ℝ → ℝ}

theorem denom_pos (he : 1 < e) (u : ℝ) : 0 < e * cosh u - 1 := by
  have := Real.one_le_cosh u
  nlinarith

/-- the hyperbolic Kepler function `u ↦ e sinh u − u` expands distances by at least `e − 1` -/
theorem kepler_expand (he : 1 < e) {u v : ℝ} (huv : v ≤ u) :
    (e - 1) * (u - v) ≤ (e * sinh u - u) - (e * sinh v - v) := by
  have h1 : sinh v - v ≤ sinh u - u := Real.sinh_sub_id_strictMono.monotone huv
  have h2 : 0 ≤ u - v := sub_nonneg.mpr huv
  nlinarith

theorem kepler_unique (he : 1 < e) {u v : ℝ} (h : e * sinh u - u = e * sinh v - v) : u = v := by
  rcases le_total v u with huv | huv
  · have := kepler_expand he huv
    rw [h, sub_self] at this
    have h2 : 0 ≤ u - v := sub_nonneg.mpr huv
    nlinarith
  · have := kepler_expand he huv
    rw [h, sub_self] at this
    have h2 : 0 ≤ v - u := sub_nonneg.mpr huv
    nlinarith

/-! ### a solution of the hyperbolic Kepler equation along `M₀ + n t` is automatically differentiable -/

theorem solution_lipschitz (he : 1 < e) (hH : ∀ t, e * sinh (H t) - H t = M0 + n * t) (s t : ℝ) :
    |H s - H t| ≤ |n| / (e - 1) * |s - t| := by
  have h4 : 0 < e - 1 := by linarith
  rw [div_mul_eq_mul_div, le_div_iff₀ h4]
  have hn : n * (s - t) ≤ |n| * |s - t| := by rw [← abs_mul]; exact le_abs_self _
  have hn' : -(n * (s - t)) ≤ |n| * |s - t| := by rw [← abs_mul]; exact neg_le_abs _
  rcases le_total (H t) (H s) with hle | hle
  · have := kepler_expand he hle
    rw [hH s, hH t] at this
    rw [abs_of_nonneg (sub_nonneg.mpr hle)]
    nlinarith
  · have := kepler_expand he hle
    rw [hH s, hH t] at this
    rw [abs_sub_comm, abs_of_nonneg (sub_nonneg.mpr hle)]
    nlinarith

theorem solution_continuous (he : 1 < e) (hH : ∀ t, e * sinh (H t) - H t = M0 + n * t) : Continuous H :=
  (LipschitzWith.of_dist_le' (K := |n| / (e - 1)) (fun s t => by
    simpa [Real.dist_eq] using solution_lipschitz he hH s t)).continuous

theorem solution_differentiable (he : 1 < e) (hH : ∀ t, e * sinh (H t) - H t = M0 + n * t) :
    Differentiable ℝ H := by
  by_cases hn : n = 0
  · have : H = fun _ => H 0 := by
      funext t; apply kepler_unique he; rw [hH t, hH 0, hn]; ring
    rw [this]; exact differentiable_const _
  · intro t
    have hcont := solution_continuous he hH
    let φ : ℝ → ℝ := fun y => H ((y - M0) / n)
    have hφc : ContinuousAt φ (M0 + n * t) := by
      have : Continuous φ := hcont.comp (by fun_prop)
      exact this.continuousAt
    have hφt : φ (M0 + n * t) = H t := by simp [φ, hn]
    have hg : HasDerivAt (fun u => e * sinh u - u) (e * cosh (H t) - 1) (φ (M0 + n * t)) := by
      rw [hφt]; exact ((Real.hasDerivAt_sinh (H t)).const_mul e).sub (hasDerivAt_id (H t))
    have hinv : ∀ᶠ y in nhds (M0 + n * t), (fun u => e * sinh u - u) (φ y) = y := by
      refine Filter.Eventually.of_forall (fun y => ?_)
      simp only [φ]; rw [hH]; field_simp; ring
    have hφ := HasDerivAt.of_local_left_inverse hφc hg (denom_pos he (H t)).ne' hinv
    have haff : HasDerivAt (fun t => M0 + n * t) n t := by
      simpa using ((hasDerivAt_id t).const_mul n).const_add M0
    have hcomp := hφ.comp t haff
    have : H = φ ∘ fun t => M0 + n * t := by
      funext s; simp [φ, hn]
    rw [this]; exact hcomp.differentiableAt

/-- the rate of the hyperbolic anomaly: `Ḣ = n / (e cosh H − 1)` -/
theorem hasDerivAt_H (he : 1 < e) (hH : ∀ t, e * sinh (H t) - H t = M0 + n * t)
    (hd : Differentiable ℝ H) (t : ℝ) : HasDerivAt H (n / (e * cosh (H t) - 1)) t := by
  have h0 : HasDerivAt H (deriv H t) t := (hd t).hasDerivAt
  have h1 : HasDerivAt (fun t => e * sinh (H t) - H t) (e * (cosh (H t) * deriv H t) - deriv H t) t :=
    ((h0.sinh).const_mul e).sub h0
  have h2 : HasDerivAt (fun t => e * sinh (H t) - H t) n t := by
    have : (fun t => e * sinh (H t) - H t) = fun t => M0 + n * t := funext hH
    rw [this]
    simpa using ((hasDerivAt_id t).const_mul n).const_add M0
  have h3 := h1.unique h2
  have hp := (denom_pos he (H t)).ne'
  have : deriv H t = n / (e * cosh (H t) - 1) := by
    field_simp; linarith
  rw [← this]; exact h0

/-- position in the orbital plane (perifocal axes), `a < 0` -/
def posX (a e : ℝ) (H : ℝ → ℝ) (t : ℝ) : ℝ := a * (cosh (H t) - e)
def posY (a e : ℝ) (H : ℝ → ℝ) (t : ℝ) : ℝ := -a * sqrt (e ^ 2 - 1) * sinh (H t)
/-- velocity -/
def velX (a e n : ℝ) (H : ℝ → ℝ) (t : ℝ) : ℝ := a * (sinh (H t) * (n / (e * cosh (H t) - 1)))
def velY (a e n : ℝ) (H : ℝ → ℝ) (t : ℝ) : ℝ := -a * sqrt (e ^ 2 - 1) * (cosh (H t) * (n / (e * cosh (H t) - 1)))
/-- radius `r = a (1 − e cosh H)` (positive: `a < 0`) -/
def radius (a e : ℝ) (H : ℝ → ℝ) (t : ℝ) : ℝ := a * (1 - e * cosh (H t))

theorem radius_pos (ha : a < 0) (he : 1 < e) (t : ℝ) : 0 < radius a e H t := by
  have := denom_pos he (H t)
  unfold radius
  nlinarith

theorem radius_eq_norm (ha : a < 0) (he : 1 < e) (t : ℝ) :
    radius a e H t = sqrt (posX a e H t ^ 2 + posY a e H t ^ 2) := by
  have h1 : (0 : ℝ) ≤ e ^ 2 - 1 := by nlinarith
  have : posX a e H t ^ 2 + posY a e H t ^ 2 = (radius a e H t) ^ 2 := by
    simp only [posX, posY, radius, mul_pow, neg_sq, Real.sq_sqrt h1]
    have hs := Real.cosh_sq (H t)
    linear_combination (a ^ 2 * (1 - e ^ 2)) * hs
  rw [this, Real.sqrt_sq]
  exact (radius_pos ha he t).le

theorem hasDerivAt_posX (he : 1 < e) (hH : ∀ t, e * sinh (H t) - H t = M0 + n * t)
    (hd : Differentiable ℝ H) (t : ℝ) : HasDerivAt (posX a e H) (velX a e n H t) t :=
  (((hasDerivAt_H he hH hd t).cosh).sub_const e).const_mul a

theorem hasDerivAt_posY (he : 1 < e) (hH : ∀ t, e * sinh (H t) - H t = M0 + n * t)
    (hd : Differentiable ℝ H) (t : ℝ) : HasDerivAt (posY a e H) (velY a e n H t) t :=
  ((hasDerivAt_H he hH hd t).sinh).const_mul (-a * sqrt (e ^ 2 - 1))

theorem hasDerivAt_rate (he : 1 < e) (hH : ∀ t, e * sinh (H t) - H t = M0 + n * t)
    (hd : Differentiable ℝ H) (t : ℝ) :
    HasDerivAt (fun t => n / (e * cosh (H t) - 1))
      (-(n * (e * (sinh (H t) * (n / (e * cosh (H t) - 1))))) / (e * cosh (H t) - 1) ^ 2) t := by
  have hH' := hasDerivAt_H he hH hd t
  have hden : HasDerivAt (fun t => e * cosh (H t) - 1) (e * (sinh (H t) * (n / (e * cosh (H t) - 1)))) t :=
    ((hH'.cosh).const_mul e).sub_const 1
  have := (hasDerivAt_const t n).div hden (denom_pos he (H t)).ne'
  exact this.congr_deriv (by ring)

theorem alg_x (a e n c s : ℝ) (ha : a ≠ 0) (hd : e * c - 1 ≠ 0) (hs : c ^ 2 = s ^ 2 + 1) :
    a * (c * (n / (e * c - 1)) * (n / (e * c - 1)) + s * (-(n * (e * (s * (n / (e * c - 1))))) / (e * c - 1) ^ 2))
      = (n ^ 2 * a ^ 3) * (a * (c - e)) / (a * (1 - e * c)) ^ 3 := by
  have key : c * (e * c - 1) - e * s ^ 2 = e - c := by linear_combination e * hs
  have hd' : 1 - e * c ≠ 0 := fun h => hd (by linarith)
  calc a * (c * (n / (e * c - 1)) * (n / (e * c - 1)) + s * (-(n * (e * (s * (n / (e * c - 1))))) / (e * c - 1) ^ 2))
      = a * n ^ 2 * (c * (e * c - 1) - e * s ^ 2) / (e * c - 1) ^ 3 := by field_simp; ring
    _ = a * n ^ 2 * (e - c) / (e * c - 1) ^ 3 := by rw [key]
    _ = (n ^ 2 * a ^ 3) * (a * (c - e)) / (a * (1 - e * c)) ^ 3 := by
      rw [show (a * (1 - e * c)) ^ 3 = -(a ^ 3 * (e * c - 1) ^ 3) by ring]
      field_simp; ring

theorem alg_y (A a e n c s : ℝ) (ha : a ≠ 0) (hd : e * c - 1 ≠ 0) :
    A * (s * (n / (e * c - 1)) * (n / (e * c - 1)) + c * (-(n * (e * (s * (n / (e * c - 1))))) / (e * c - 1) ^ 2))
      = (n ^ 2 * a ^ 3) * (A * s) / (a * (1 - e * c)) ^ 3 := by
  rw [show (a * (1 - e * c)) ^ 3 = -(a ^ 3 * (e * c - 1) ^ 3) by ring]
  field_simp; ring

/-- **Newton's equation, x component**: `ẍ = −µ x / r³`, `µ = −n² a³` -/
theorem hasDerivAt_velX (ha : a < 0) (he : 1 < e) (hH : ∀ t, e * sinh (H t) - H t = M0 + n * t)
    (hd : Differentiable ℝ H) (t : ℝ) :
    HasDerivAt (velX a e n H) ((n ^ 2 * a ^ 3) * posX a e H t / radius a e H t ^ 3) t := by
  have hH' := hasDerivAt_H he hH hd t
  have hr := hasDerivAt_rate he hH hd t
  have hp := (denom_pos he (H t)).ne'
  have h := ((hH'.sinh).mul hr).const_mul a
  exact h.congr_deriv (alg_x a e n (cosh (H t)) (sinh (H t)) ha.ne hp (Real.cosh_sq (H t)))

/-- **Newton's equation, y component**: `ÿ = −µ y / r³` -/
theorem hasDerivAt_velY (ha : a < 0) (he : 1 < e) (hH : ∀ t, e * sinh (H t) - H t = M0 + n * t)
    (hd : Differentiable ℝ H) (t : ℝ) :
    HasDerivAt (velY a e n H) ((n ^ 2 * a ^ 3) * posY a e H t / radius a e H t ^ 3) t := by
  have hH' := hasDerivAt_H he hH hd t
  have hr := hasDerivAt_rate he hH hd t
  have hp := (denom_pos he (H t)).ne'
  have h := ((hH'.cosh).mul hr).const_mul (-a * sqrt (e ^ 2 - 1))
  exact h.congr_deriv (alg_y (-a * sqrt (e ^ 2 - 1)) a e n (cosh (H t)) (sinh (H t)) ha.ne hp)

end BeyondVerif.TwoBodyHyp
