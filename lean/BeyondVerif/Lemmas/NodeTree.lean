import BeyondVerif.Model.Node
import Mathlib.Logic.Relation
import Mathlib.Tactic.Tauto

/-!
Specification side for routing in forests.

A history is kept here LATEST LINK FIRST (`rh = hist.reverse`).  `Conn rh` is connectivity by the
links of the history, `Forest rh` says every link joined two different components when it was
inserted.  `dist rh u t` / `hop rh u t` are the number of hops / the first hop of the (unique) chain
from `u` to `t`, defined by recursion on the history: a new link `a–b` between two components leaves
everything inside the old components unchanged and sends `u ∈ comp a` to `t ∈ comp b` via
`u ⇝ a – b ⇝ t`.

Proved here (for every forest history): the local characterisation of these two functions
(`tree_step`, `tree_nbr`, `tree_other`) that the table-rebuild argument needs.
-/
set_option linter.unusedSimpArgs false
set_option linter.unusedVariables false
namespace BeyondVerif.Node

/-- `u`,`v` were linked at some point of the history (either orientation of the `+`) -/
def Lk (h : List (Nat × Nat)) (u v : Nat) : Prop := (u, v) ∈ h ∨ (v, u) ∈ h

/-- connected by inserted links -/
def Conn (h : List (Nat × Nat)) : Nat → Nat → Prop := Relation.ReflTransGen (Lk h)

theorem Lk.symm {h : List (Nat × Nat)} {u v : Nat} (hl : Lk h u v) : Lk h v u := Or.symm hl

theorem Conn.refl (h : List (Nat × Nat)) (u : Nat) : Conn h u u := Relation.ReflTransGen.refl

theorem Conn.trans {h : List (Nat × Nat)} {u v w : Nat} (h1 : Conn h u v) (h2 : Conn h v w) :
    Conn h u w := Relation.ReflTransGen.trans h1 h2

theorem Lk.conn {h : List (Nat × Nat)} {u v : Nat} (hl : Lk h u v) : Conn h u v :=
  Relation.ReflTransGen.single hl

theorem Conn.symm {h : List (Nat × Nat)} {u v : Nat} (hc : Conn h u v) : Conn h v u := by
  induction hc with
  | refl => exact Conn.refl _ _
  | tail _ hl ih => exact Relation.ReflTransGen.head hl.symm ih

theorem lk_nil (u v : Nat) : ¬ Lk [] u v := by simp [Lk]

theorem conn_nil {u v : Nat} (hc : Conn [] u v) : u = v := by
  induction hc with
  | refl => rfl
  | tail _ hl _ => exact absurd hl (lk_nil _ _)

theorem lk_cons {a b : Nat} {h : List (Nat × Nat)} {u v : Nat} :
    Lk ((a, b) :: h) u v ↔ Lk h u v ∨ (u = a ∧ v = b) ∨ (u = b ∧ v = a) := by
  unfold Lk
  simp only [List.mem_cons, Prod.mk.injEq]
  tauto

theorem Lk.mono {e : Nat × Nat} {h : List (Nat × Nat)} {u v : Nat} (hl : Lk h u v) : Lk (e :: h) u v := by
  rcases hl with hl | hl
  · exact Or.inl (List.mem_cons_of_mem _ hl)
  · exact Or.inr (List.mem_cons_of_mem _ hl)

theorem Conn.mono {e : Nat × Nat} {h : List (Nat × Nat)} {u v : Nat} (hc : Conn h u v) :
    Conn (e :: h) u v :=
  Relation.ReflTransGen.mono (fun _ _ hl => Lk.mono hl) _ _ hc

theorem conn_new (a b : Nat) (h : List (Nat × Nat)) : Conn ((a, b) :: h) a b :=
  Lk.conn (lk_cons.mpr (Or.inr (Or.inl ⟨rfl, rfl⟩)))

/-- connectivity after one more link -/
theorem conn_cons {a b : Nat} {h : List (Nat × Nat)} {u t : Nat} :
    Conn ((a, b) :: h) u t ↔
      Conn h u t ∨ (Conn h u a ∧ Conn h b t) ∨ (Conn h u b ∧ Conn h a t) := by
  constructor
  · intro hc
    induction hc with
    | refl => exact Or.inl (Conn.refl _ _)
    | @tail m t _ hl ih =>
      rcases lk_cons.mp hl with hl | ⟨rfl, rfl⟩ | ⟨rfl, rfl⟩
      · have hmt := hl.conn
        rcases ih with h0 | ⟨h1, h2⟩ | ⟨h1, h2⟩
        · exact Or.inl (h0.trans hmt)
        · exact Or.inr (Or.inl ⟨h1, h2.trans hmt⟩)
        · exact Or.inr (Or.inr ⟨h1, h2.trans hmt⟩)
      · rcases ih with h0 | ⟨h1, h2⟩ | ⟨h1, h2⟩
        · exact Or.inr (Or.inl ⟨h0, Conn.refl _ _⟩)
        · exact Or.inr (Or.inl ⟨h1, Conn.refl _ _⟩)
        · exact Or.inl (h1.trans (Conn.refl _ _))
      · rcases ih with h0 | ⟨h1, h2⟩ | ⟨h1, h2⟩
        · exact Or.inr (Or.inr ⟨h0, Conn.refl _ _⟩)
        · exact Or.inl (h1.trans (Conn.refl _ _))
        · exact Or.inr (Or.inr ⟨h1, Conn.refl _ _⟩)
  · rintro (h0 | ⟨h1, h2⟩ | ⟨h1, h2⟩)
    · exact h0.mono
    · exact h1.mono.trans ((conn_new a b h).trans h2.mono)
    · exact h1.mono.trans ((conn_new a b h).symm.trans h2.mono)

/-- every link of the history joined two different components when it was inserted -/
def Forest : List (Nat × Nat) → Prop
  | [] => True
  | e :: h => ¬ Conn h e.1 e.2 ∧ Forest h

theorem Forest.noloop {h : List (Nat × Nat)} (hf : Forest h) {u v : Nat} (hl : Lk h u v) : u ≠ v := by
  induction h with
  | nil => exact absurd hl (lk_nil _ _)
  | cons e rest ih =>
    obtain ⟨a, b⟩ := e
    rcases lk_cons.mp hl with hl | ⟨rfl, rfl⟩ | ⟨rfl, rfl⟩
    · exact ih hf.2 hl
    · intro hab; apply hf.1; simp only; rw [hab]; exact Conn.refl _ _
    · intro hab; apply hf.1; simp only; rw [hab]; exact Conn.refl _ _

open Classical in
/-- number of hops of the chain from `u` to `t` (0 when `u = t`; junk 0 when not connected) -/
noncomputable def dist : List (Nat × Nat) → Nat → Nat → Nat
  | [], _, _ => 0
  | e :: h, u, t =>
    if Conn h u t then dist h u t
    else if Conn h u e.1 ∧ Conn h e.2 t then dist h u e.1 + 1 + dist h e.2 t
    else if Conn h u e.2 ∧ Conn h e.1 t then dist h u e.2 + 1 + dist h e.1 t
    else 0

open Classical in
/-- first hop of the chain from `u` to `t` (junk `u` when `u = t` or not connected) -/
noncomputable def hop : List (Nat × Nat) → Nat → Nat → Nat
  | [], u, _ => u
  | e :: h, u, t =>
    if Conn h u t then hop h u t
    else if Conn h u e.1 ∧ Conn h e.2 t then (if u = e.1 then e.2 else hop h u e.1)
    else if Conn h u e.2 ∧ Conn h e.1 t then (if u = e.2 then e.1 else hop h u e.2)
    else u

section eval
variable {a b : Nat} {h : List (Nat × Nat)} {u t : Nat}

theorem dist_old (h0 : Conn h u t) : dist ((a, b) :: h) u t = dist h u t := by
  simp [dist, h0]

theorem hop_old (h0 : Conn h u t) : hop ((a, b) :: h) u t = hop h u t := by
  simp [hop, h0]

theorem not_conn_x1 (hab : ¬ Conn h a b) (h1 : Conn h u a) (h2 : Conn h b t) : ¬ Conn h u t :=
  fun h0 => hab (h1.symm.trans (h0.trans h2.symm))

theorem not_conn_x2 (hab : ¬ Conn h a b) (h1 : Conn h u b) (h2 : Conn h a t) : ¬ Conn h u t :=
  fun h0 => hab (h2.trans (h0.symm.trans h1))

theorem dist_x1 (hab : ¬ Conn h a b) (h1 : Conn h u a) (h2 : Conn h b t) :
    dist ((a, b) :: h) u t = dist h u a + 1 + dist h b t := by
  simp [dist, not_conn_x1 hab h1 h2, h1, h2]

theorem hop_x1 (hab : ¬ Conn h a b) (h1 : Conn h u a) (h2 : Conn h b t) :
    hop ((a, b) :: h) u t = if u = a then b else hop h u a := by
  simp [hop, not_conn_x1 hab h1 h2, h1, h2]

theorem dist_x2 (hab : ¬ Conn h a b) (h1 : Conn h u b) (h2 : Conn h a t) :
    dist ((a, b) :: h) u t = dist h u b + 1 + dist h a t := by
  have : ¬ Conn h u a := fun hc => hab (hc.symm.trans h1)
  simp [dist, not_conn_x2 hab h1 h2, h1, h2, this]

theorem hop_x2 (hab : ¬ Conn h a b) (h1 : Conn h u b) (h2 : Conn h a t) :
    hop ((a, b) :: h) u t = if u = b then a else hop h u b := by
  have : ¬ Conn h u a := fun hc => hab (hc.symm.trans h1)
  simp [hop, not_conn_x2 hab h1 h2, h1, h2, this]

end eval

theorem dist_self (h : List (Nat × Nat)) (u : Nat) : dist h u u = 0 := by
  induction h with
  | nil => rfl
  | cons e rest ih => obtain ⟨a, b⟩ := e; rw [dist_old (Conn.refl _ _), ih]

/-! ### swapping the orientation of the newest link -/

theorem lk_swap {a b : Nat} {h : List (Nat × Nat)} {u v : Nat} :
    Lk ((a, b) :: h) u v ↔ Lk ((b, a) :: h) u v := by
  rw [lk_cons, lk_cons]; tauto

theorem conn_swap {a b : Nat} {h : List (Nat × Nat)} {u v : Nat} :
    Conn ((a, b) :: h) u v ↔ Conn ((b, a) :: h) u v := by
  rw [conn_cons, conn_cons]; tauto

theorem dist_swap {a b : Nat} {h : List (Nat × Nat)} (hab : ¬ Conn h a b) :
    dist ((a, b) :: h) = dist ((b, a) :: h) := by
  have hba : ¬ Conn h b a := fun hc => hab hc.symm
  funext u t
  by_cases h0 : Conn h u t
  · rw [dist_old h0, dist_old h0]
  · by_cases h1 : Conn h u a ∧ Conn h b t
    · rw [dist_x1 hab h1.1 h1.2, dist_x2 hba h1.1 h1.2]
    · by_cases h2 : Conn h u b ∧ Conn h a t
      · rw [dist_x2 hab h2.1 h2.2, dist_x1 hba h2.1 h2.2]
      · simp [dist, h0, h1, h2]

theorem hop_swap {a b : Nat} {h : List (Nat × Nat)} (hab : ¬ Conn h a b) :
    hop ((a, b) :: h) = hop ((b, a) :: h) := by
  have hba : ¬ Conn h b a := fun hc => hab hc.symm
  funext u t
  by_cases h0 : Conn h u t
  · rw [hop_old h0, hop_old h0]
  · by_cases h1 : Conn h u a ∧ Conn h b t
    · rw [hop_x1 hab h1.1 h1.2, hop_x2 hba h1.1 h1.2]
    · by_cases h2 : Conn h u b ∧ Conn h a t
      · rw [hop_x2 hab h2.1 h2.2, hop_x1 hba h2.1 h2.2]
      · simp [hop, h0, h1, h2]

/-! ### the local characterisation of `dist` / `hop` in a forest -/

/-- P1: the first hop is a link and decreases the distance by one -/
def StepP (h : List (Nat × Nat)) : Prop :=
  ∀ u t, Conn h u t → u ≠ t → Lk h u (hop h u t) ∧ dist h u t = dist h (hop h u t) t + 1

/-- P2: towards a neighbour the first hop is that neighbour -/
def NbrP (h : List (Nat × Nat)) : Prop := ∀ u t, Lk h u t → hop h u t = t

/-- P3: every other neighbour `d'` of `u` reaches `t` through `u` -/
def OtherP (h : List (Nat × Nat)) : Prop :=
  ∀ u t d', Conn h u t → u ≠ t → Lk h u d' → d' ≠ hop h u t →
    hop h d' t = u ∧ dist h d' t = dist h u t + 1

theorem step_x1 {a b : Nat} {h : List (Nat × Nat)} (hab : ¬ Conn h a b) (ih : StepP h)
    {u t : Nat} (h1 : Conn h u a) (h2 : Conn h b t) :
    Lk ((a, b) :: h) u (hop ((a, b) :: h) u t) ∧
      dist ((a, b) :: h) u t = dist ((a, b) :: h) (hop ((a, b) :: h) u t) t + 1 := by
  rw [hop_x1 hab h1 h2, dist_x1 hab h1 h2]
  by_cases hu : u = a
  · subst hu
    simp only [if_true]
    rw [dist_old h2, dist_self]
    exact ⟨lk_cons.mpr (Or.inr (Or.inl ⟨rfl, rfl⟩)), by omega⟩
  · rw [if_neg hu]
    obtain ⟨hl, hd⟩ := ih u a h1 hu
    have hw : Conn h (hop h u a) a := hl.conn.symm.trans h1
    rw [dist_x1 hab hw h2]
    exact ⟨hl.mono, by omega⟩

theorem stepP_cons {a b : Nat} {h : List (Nat × Nat)} (hab : ¬ Conn h a b) (ih : StepP h) :
    StepP ((a, b) :: h) := by
  intro u t hc hne
  rcases conn_cons.mp hc with h0 | ⟨h1, h2⟩ | ⟨h1, h2⟩
  · rw [hop_old h0, dist_old h0]
    obtain ⟨hl, hd⟩ := ih u t h0 hne
    have hw : Conn h (hop h u t) t := hl.conn.symm.trans h0
    rw [dist_old hw]
    exact ⟨hl.mono, hd⟩
  · exact step_x1 hab ih h1 h2
  · have hba : ¬ Conn h b a := fun hc => hab hc.symm
    have := step_x1 hba ih h1 h2
    rw [hop_swap hab, dist_swap hab]
    exact ⟨lk_swap.mpr this.1, this.2⟩

theorem nbrP_cons {a b : Nat} {h : List (Nat × Nat)} (hab : ¬ Conn h a b) (ih : NbrP h) :
    NbrP ((a, b) :: h) := by
  intro u t hl
  rcases lk_cons.mp hl with hl | ⟨rfl, rfl⟩ | ⟨rfl, rfl⟩
  · rw [hop_old hl.conn]; exact ih u t hl
  · rw [hop_x1 hab (Conn.refl _ _) (Conn.refl _ _)]; simp
  · rw [hop_x2 hab (Conn.refl _ _) (Conn.refl _ _)]; simp

theorem other_x1 {a b : Nat} {h : List (Nat × Nat)} (hf : Forest h) (hab : ¬ Conn h a b)
    (ih1 : StepP h) (ih2 : NbrP h) (ih3 : OtherP h)
    {u t d' : Nat} (h1 : Conn h u a) (h2 : Conn h b t) (hl : Lk ((a, b) :: h) u d')
    (hd : d' ≠ hop ((a, b) :: h) u t) :
    hop ((a, b) :: h) d' t = u ∧ dist ((a, b) :: h) d' t = dist ((a, b) :: h) u t + 1 := by
  rw [hop_x1 hab h1 h2] at hd
  rw [dist_x1 hab h1 h2]
  by_cases hu : u = a
  · subst hu
    simp only [if_true] at hd
    rcases lk_cons.mp hl with hl | ⟨_, rfl⟩ | ⟨rfl, rfl⟩
    · have hne : d' ≠ u := fun e => hf.noloop hl e.symm
      have hc : Conn h d' u := hl.conn.symm
      rw [hop_x1 hab hc h2, dist_x1 hab hc h2, if_neg hne, ih2 d' u hl.symm]
      obtain ⟨_, hd1⟩ := ih1 d' u hc hne
      rw [ih2 d' u hl.symm, dist_self] at hd1
      rw [dist_self]
      exact ⟨rfl, by omega⟩
    · exact absurd rfl hd
    · exact absurd (Conn.refl _ _) hab
  · rw [if_neg hu] at hd
    rcases lk_cons.mp hl with hl0 | ⟨rfl, _⟩ | ⟨rfl, rfl⟩
    · obtain ⟨e1, e2⟩ := ih3 u a d' h1 hu hl0 hd
      have hne : d' ≠ a := by
        intro e; rw [e] at hl0 hd; exact hd (ih2 u a hl0).symm
      have hc : Conn h d' a := hl0.conn.symm.trans h1
      rw [hop_x1 hab hc h2, dist_x1 hab hc h2, if_neg hne]
      exact ⟨e1, by omega⟩
    · exact absurd rfl hu
    · exact absurd h1.symm hab

theorem otherP_cons {a b : Nat} {h : List (Nat × Nat)} (hf : Forest h) (hab : ¬ Conn h a b)
    (ih1 : StepP h) (ih2 : NbrP h) (ih3 : OtherP h) : OtherP ((a, b) :: h) := by
  have hba : ¬ Conn h b a := fun hc => hab hc.symm
  intro u t d' hc hne hl hd
  rcases conn_cons.mp hc with h0 | ⟨h1, h2⟩ | ⟨h1, h2⟩
  · rw [hop_old h0] at hd
    rw [dist_old h0]
    rcases lk_cons.mp hl with hl | ⟨rfl, rfl⟩ | ⟨rfl, rfl⟩
    · obtain ⟨e1, e2⟩ := ih3 u t d' h0 hne hl hd
      have hc' : Conn h d' t := hl.conn.symm.trans h0
      rw [hop_old hc', dist_old hc']
      exact ⟨e1, e2⟩
    · rw [hop_x2 hab (Conn.refl _ _) h0, dist_x2 hab (Conn.refl _ _) h0, dist_self]
      simp; omega
    · rw [hop_x1 hab (Conn.refl _ _) h0, dist_x1 hab (Conn.refl _ _) h0, dist_self]
      simp; omega
  · exact other_x1 hf hab ih1 ih2 ih3 h1 h2 hl hd
  · rw [hop_swap hab] at hd ⊢
    rw [dist_swap hab]
    exact other_x1 hf hba ih1 ih2 ih3 h1 h2 (lk_swap.mp hl) hd

theorem tree_props {h : List (Nat × Nat)} (hf : Forest h) : StepP h ∧ NbrP h ∧ OtherP h := by
  induction h with
  | nil =>
    refine ⟨?_, ?_, ?_⟩
    · intro u t hc hne; exact absurd (conn_nil hc) hne
    · intro u t hl; exact absurd hl (lk_nil _ _)
    · intro u t d' hc hne; exact absurd (conn_nil hc) hne
  | cons e rest ih =>
    obtain ⟨a, b⟩ := e
    obtain ⟨i1, i2, i3⟩ := ih hf.2
    exact ⟨stepP_cons hf.1 i1, nbrP_cons hf.1 i2, otherP_cons hf.2 hf.1 i1 i2 i3⟩

/-- in a forest, the first hop towards a connected target is a link and decreases the distance -/
theorem tree_step {h : List (Nat × Nat)} (hf : Forest h) {u t : Nat} (hc : Conn h u t) (hne : u ≠ t) :
    Lk h u (hop h u t) ∧ dist h u t = dist h (hop h u t) t + 1 := (tree_props hf).1 u t hc hne

theorem tree_nbr {h : List (Nat × Nat)} (hf : Forest h) {u t : Nat} (hl : Lk h u t) : hop h u t = t :=
  (tree_props hf).2.1 u t hl

theorem tree_other {h : List (Nat × Nat)} (hf : Forest h) {u t d' : Nat} (hc : Conn h u t) (hne : u ≠ t)
    (hl : Lk h u d') (hd : d' ≠ hop h u t) : hop h d' t = u ∧ dist h d' t = dist h u t + 1 :=
  (tree_props hf).2.2 u t d' hc hne hl hd

theorem tree_hop_conn {h : List (Nat × Nat)} (hf : Forest h) {u t : Nat} (hc : Conn h u t) (hne : u ≠ t) :
    Conn h (hop h u t) t := (tree_step hf hc hne).1.conn.symm.trans hc

theorem tree_dist_nbr {h : List (Nat × Nat)} (hf : Forest h) {u t : Nat} (hl : Lk h u t) : dist h u t = 1 := by
  have := (tree_step hf hl.conn (hf.noloop hl)).2
  rw [tree_nbr hf hl, dist_self] at this
  exact this

/-- of two linked nodes in the component of `a`, one is the other's first hop towards `a` -/
theorem tree_parent {h : List (Nat × Nat)} (hf : Forest h) {u d a : Nat} (hc : Conn h d a) (hda : d ≠ a)
    (hl : Lk h d u) : hop h d a = u ∨ (u ≠ a ∧ hop h u a = d) := by
  by_cases e : u = hop h d a
  · exact Or.inl e.symm
  · obtain ⟨e1, e2⟩ := tree_other hf hc hda hl e
    refine Or.inr ⟨?_, e1⟩
    intro hua; subst hua
    rw [dist_self] at e2; omega

/-- where the first hop towards `t` lives when the newest link is `a–b`: either it was already
connected to `t` before the link, or it is the first hop towards `a` (the traversal start) -/
theorem hop_new_cases {a b : Nat} {h : List (Nat × Nat)} (hf : Forest ((a, b) :: h)) {u t : Nat}
    (hc : Conn ((a, b) :: h) u t) (hne : u ≠ t) :
    Conn h (hop ((a, b) :: h) u t) t ∨ (u ≠ a ∧ hop ((a, b) :: h) u t = hop ((a, b) :: h) u a) := by
  have hab : ¬ Conn h a b := hf.1
  rcases conn_cons.mp hc with h0 | ⟨h1, h2⟩ | ⟨h1, h2⟩
  · rw [hop_old h0]; exact Or.inl (tree_hop_conn hf.2 h0 hne)
  · rw [hop_x1 hab h1 h2]
    by_cases hu : u = a
    · simp only [hu, if_true]; exact Or.inl h2
    · rw [if_neg hu, hop_old h1]; exact Or.inr ⟨hu, rfl⟩
  · have hua : u ≠ a := by
      intro e; subst e; exact hab h1
    rw [hop_x2 hab h1 h2, hop_x2 hab h1 (Conn.refl _ _)]
    exact Or.inr ⟨hua, rfl⟩

/-- nodes outside the component of the new link see no change -/
theorem conn_cons_outside {a b : Nat} {h : List (Nat × Nat)} {v t : Nat}
    (hv : ¬ Conn ((a, b) :: h) v a) : Conn ((a, b) :: h) v t ↔ Conn h v t := by
  constructor
  · intro hc
    rcases conn_cons.mp hc with h0 | ⟨h1, _⟩ | ⟨h1, _⟩
    · exact h0
    · exact absurd h1.mono hv
    · exact absurd (h1.mono.trans (conn_new a b h).symm) hv
  · exact Conn.mono

end BeyondVerif.Node
