import BeyondVerif.Model.Sgp4Wrap
import Mathlib.Tactic.IntervalCases
/-!
Calendar lemmas for `Model/Sgp4Wrap.lean`: CPython's `ord2ymd` against three independent readings of a civil date
(CPython's own `ymd2ord`, Hinnant's `days_from_civil`, and the Julian-day formula of the sgp4 library's `jday`).
-/
namespace BeyondVerif.Sgp4Wrap

/-- Gregorian leap year -/
def isLeap (y : Nat) : Prop := y % 4 = 0 ∧ (y % 100 ≠ 0 ∨ y % 400 = 0)
instance (y : Nat) : Decidable (isLeap y) := by unfold isLeap; infer_instance

/-- `_days_before_year(y)` -/
def daysBeforeYear (y : Nat) : Nat := (y - 1) * 365 + (y - 1) / 4 - (y - 1) / 100 + (y - 1) / 400

def daysBeforeMonth (leap : Bool) (m : Nat) : Nat := daysBeforeMonthTbl m + (if m > 2 ∧ leap then 1 else 0)
def daysInMonth (leap : Bool) (m : Nat) : Nat := daysInMonthTbl m + (if m = 2 ∧ leap then 1 else 0)

/-- days before year `400a + 100b + 4c + d + 1` -/
theorem daysBeforeYear_decomp (a b c d : Nat) (hb : b ≤ 3) (hc : c ≤ 24) (hd : d ≤ 3) :
    daysBeforeYear (a * 400 + 1 + b * 100 + c * 4 + d) = 146097 * a + 36524 * b + 1461 * c + 365 * d := by
  unfold daysBeforeYear
  have q4 : (a * 400 + 1 + b * 100 + c * 4 + d - 1) / 4 = 100 * a + 25 * b + c := by omega
  have q100 : (a * 400 + 1 + b * 100 + c * 4 + d - 1) / 100 = 4 * a + b := by omega
  have q400 : (a * 400 + 1 + b * 100 + c * 4 + d - 1) / 400 = a := by omega
  rw [q4, q100, q400]
  omega

theorem isLeap_decomp (a b c d : Nat) (hb : b ≤ 3) (hc : c ≤ 24) (hd : d ≤ 3) :
    isLeap (a * 400 + 1 + b * 100 + c * 4 + d) ↔ (d = 3 ∧ (c ≠ 24 ∨ b = 3)) := by
  unfold isLeap
  constructor
  · intro h; omega
  · intro h; omega

theorem yearDayCore_normal (n a b c d r4 : Nat) (hb : b ≤ 3) (hc : c ≤ 24) (hd : d ≤ 3) (b4 : r4 < 365)
    (hN : n = 146097 * a + 36524 * b + 1461 * c + 365 * d + r4 + 1) :
    n = daysBeforeYear (yearDayCore a b c d r4).1 + (yearDayCore a b c d r4).2.2 + 1
      ∧ (yearDayCore a b c d r4).2.2 < (if (yearDayCore a b c d r4).2.1 then 366 else 365)
      ∧ ((yearDayCore a b c d r4).2.1 = true ↔ isLeap (yearDayCore a b c d r4).1) ∧ 1 ≤ (yearDayCore a b c d r4).1 := by
  have h : ¬ (d = 4 ∨ b = 4) := by omega
  unfold yearDayCore
  rw [if_neg h]
  simp only [decide_eq_true_eq]
  rw [daysBeforeYear_decomp a b c d hb hc hd, isLeap_decomp a b c d hb hc hd]
  refine ⟨by omega, ?_, Iff.rfl, by omega⟩
  split <;> omega

theorem yearDayCore_lastday (n a b c d r4 : Nat) (h : d = 4 ∨ b = 4) (hb : b ≤ 4) (hc : c ≤ 24) (hd : d ≤ 4)
    (hb4 : b = 4 → c = 0 ∧ d = 0 ∧ r4 = 0) (hd4 : d = 4 → r4 = 0 ∧ b ≤ 3 ∧ c ≤ 23)
    (hN : n = 146097 * a + 36524 * b + 1461 * c + 365 * d + r4 + 1) :
    n = daysBeforeYear (yearDayCore a b c d r4).1 + (yearDayCore a b c d r4).2.2 + 1
      ∧ (yearDayCore a b c d r4).2.2 < (if (yearDayCore a b c d r4).2.1 then 366 else 365)
      ∧ ((yearDayCore a b c d r4).2.1 = true ↔ isLeap (yearDayCore a b c d r4).1) ∧ 1 ≤ (yearDayCore a b c d r4).1 := by
  unfold yearDayCore
  rw [if_pos h]
  simp only [if_true, true_iff]
  by_cases hb' : b = 4
  · obtain ⟨hc0, hd0, hr0⟩ := hb4 hb'
    subst hb' hc0 hd0 hr0
    have e : a * 400 + 1 + 4 * 100 + 0 * 4 + 0 - 1 = a * 400 + 1 + 3 * 100 + 24 * 4 + 3 := by omega
    rw [e, daysBeforeYear_decomp a 3 24 3 (by omega) (by omega) (by omega), isLeap_decomp a 3 24 3 (by omega) (by omega) (by omega)]
    omega
  · have hd' : d = 4 := by omega
    obtain ⟨hr0, hb3, hc23⟩ := hd4 hd'
    subst hd' hr0
    have e : a * 400 + 1 + b * 100 + c * 4 + 4 - 1 = a * 400 + 1 + b * 100 + c * 4 + 3 := by omega
    rw [e, daysBeforeYear_decomp a b c 3 hb3 hc (by omega), isLeap_decomp a b c 3 hb3 hc (by omega)]
    refine ⟨by omega, by omega, ?_, by omega⟩
    refine ⟨rfl, ?_⟩
    -- the last 4-year group of a century has at most 1460 days in the divmod chain: c = 24 is impossible here
    left; omega

theorem yearDayCore_spec (n a b c d r1 r2 r3 r4 : Nat) (hn : 1 ≤ n)
    (e0 : n - 1 = 146097 * a + r1) (b1 : r1 < 146097) (e1 : r1 = 36524 * b + r2) (b2 : r2 < 36524)
    (e2 : r2 = 1461 * c + r3) (b3 : r3 < 1461) (e3 : r3 = 365 * d + r4) (b4 : r4 < 365) :
    n = daysBeforeYear (yearDayCore a b c d r4).1 + (yearDayCore a b c d r4).2.2 + 1
      ∧ (yearDayCore a b c d r4).2.2 < (if (yearDayCore a b c d r4).2.1 then 366 else 365)
      ∧ ((yearDayCore a b c d r4).2.1 = true ↔ isLeap (yearDayCore a b c d r4).1) ∧ 1 ≤ (yearDayCore a b c d r4).1 := by
  have hN : n = 146097 * a + 36524 * b + 1461 * c + 365 * d + r4 + 1 := by omega
  have hb : b ≤ 4 := by omega
  have hc : c ≤ 24 := by omega
  have hd : d ≤ 4 := by omega
  by_cases h : d = 4 ∨ b = 4
  · exact yearDayCore_lastday n a b c d r4 h hb hc hd (by omega) (by omega) hN
  · exact yearDayCore_normal n a b c d r4 (by omega) hc (by omega) b4 hN

/-- year part of `ord2ymd`: the ordinal is `daysBeforeYear y + doy + 1`, `doy` within the year, leap flag correct -/
theorem yearDay_spec (n : Nat) (hn : 1 ≤ n) :
    n = daysBeforeYear (yearDay n).1 + (yearDay n).2.2 + 1 ∧ (yearDay n).2.2 < (if (yearDay n).2.1 then 366 else 365)
      ∧ ((yearDay n).2.1 = true ↔ isLeap (yearDay n).1) ∧ 1 ≤ (yearDay n).1 := by
  unfold yearDay
  exact yearDayCore_spec n _ _ _ _ ((n - 1) % 146097) ((n - 1) % 146097 % 36524) ((n - 1) % 146097 % 36524 % 1461) _ hn
    (by omega) (by omega) (by omega) (by omega) (by omega) (by omega) (by omega) (by omega)

/-- month part of `ord2ymd` (all 731 days of a common and of a leap year, by evaluation) -/
theorem monthDay_spec : ∀ (leap : Bool) (n : Fin 366), n.val < (if leap then 366 else 365) →
    1 ≤ (monthDay leap n.val).1 ∧ (monthDay leap n.val).1 ≤ 12 ∧ 1 ≤ (monthDay leap n.val).2
      ∧ (monthDay leap n.val).2 ≤ daysInMonth leap (monthDay leap n.val).1
      ∧ daysBeforeMonth leap (monthDay leap n.val).1 + (monthDay leap n.val).2 = n.val + 1 := by
  decide +kernel

theorem monthDay_spec' (leap : Bool) (k : Nat) (hk : k < (if leap then 366 else 365)) :
    1 ≤ (monthDay leap k).1 ∧ (monthDay leap k).1 ≤ 12 ∧ 1 ≤ (monthDay leap k).2
      ∧ (monthDay leap k).2 ≤ daysInMonth leap (monthDay leap k).1
      ∧ daysBeforeMonth leap (monthDay leap k).1 + (monthDay leap k).2 = k + 1 :=
  monthDay_spec leap ⟨k, by cases leap <;> simp at hk <;> omega⟩ hk

def leapB (y : Nat) : Bool := decide (isLeap y)
theorem leapB_iff (y : Nat) : leapB y = true ↔ isLeap y := by simp [leapB]

/-- CPython's `_ymd2ord` with the leap flag of the year -/
def ymd2ord (y m d : Nat) : Nat := daysBeforeYear y + daysBeforeMonth (leapB y) m + d

/-- `ord2ymd` returns a valid civil date whose `ymd2ord` is the ordinal -/
theorem ord2ymd_spec (n : Nat) (hn : 1 ≤ n) :
    1 ≤ (ord2ymd n).1 ∧ 1 ≤ (ord2ymd n).2.1 ∧ (ord2ymd n).2.1 ≤ 12 ∧ 1 ≤ (ord2ymd n).2.2
      ∧ (ord2ymd n).2.2 ≤ daysInMonth (leapB (ord2ymd n).1) (ord2ymd n).2.1
      ∧ ymd2ord (ord2ymd n).1 (ord2ymd n).2.1 (ord2ymd n).2.2 = n := by
  obtain ⟨h1, h2, h3, h4⟩ := yearDay_spec n hn
  have hl : leapB (yearDay n).1 = (yearDay n).2.1 := by
    cases hb : (yearDay n).2.1
    · have : ¬ isLeap (yearDay n).1 := fun h => by rw [hb] at h3; exact absurd (h3.mpr h) (by simp)
      simpa [leapB] using this
    · have : isLeap (yearDay n).1 := h3.mp hb
      simpa [leapB] using this
  have hm := monthDay_spec' (yearDay n).2.1 (yearDay n).2.2 h2
  simp only [ord2ymd, ymd2ord]
  rw [hl]
  obtain ⟨m1, m2, m3, m4, m5⟩ := hm
  refine ⟨h4, m1, m2, m3, m4, ?_⟩
  omega

/-- integer part of the sgp4 library's `jday(year, mon, day, 0, 0, 0) - 0.5`, with the subtraction moved to the other side:
`367 y - ⌊7 (y + ⌊(m + 9)/12⌋)/4⌋ + ⌊275 m/9⌋ + d + 1721013` -/
def jdayLhs (y m d : Nat) : Nat := 367 * y + 275 * m / 9 + d + 1721013
def jdaySub (y m : Nat) : Nat := 7 * (y + (m + 9) / 12) / 4

/-- For 1901 ≤ y ≤ 2099 the library's Julian-day formula applied to a valid civil date is the Julian day number of
CPython's ordinal of that date (ordinal 1 = 0001-01-01 = JD 1721425.5) -/
theorem jday_aux (y m d c100 c400 : Nat) (lp : Bool) (hm : 1 ≤ m) (hm' : m ≤ 12) (hy : 1901 ≤ y) (hy' : y ≤ 2099)
    (h100 : (y - 1) / 100 = c100) (h400 : (y - 1) / 400 = c400) (hc : c100 = 19 ∧ c400 = 4 ∨ c100 = 20 ∧ c400 = 5)
    (hl : lp = true ↔ y % 4 = 0) :
    367 * y + 275 * m / 9 + d + 1721013
      = (y - 1) * 365 + (y - 1) / 4 - c100 + c400 + (daysBeforeMonthTbl m + (if m > 2 ∧ lp = true then 1 else 0)) + d + 1721424 + 7 * (y + (m + 9) / 12) / 4 := by
  cases lp
  · have h4 : y % 4 ≠ 0 := fun h => by simpa using hl.mpr h
    have h4' : y % 4 = 1 ∨ y % 4 = 2 ∨ y % 4 = 3 := by omega
    rcases h4' with h4' | h4' | h4' <;>
    interval_cases m <;> simp only [daysBeforeMonthTbl, Nat.reduceGT, and_false, and_true, Bool.false_eq_true, if_true, if_false, reduceIte] <;> omega
  · have h4 : y % 4 = 0 := hl.mp rfl
    interval_cases m <;> simp only [daysBeforeMonthTbl, Nat.reduceGT, and_false, and_true, if_true, if_false, reduceIte] <;> omega

theorem jday_ymd2ord (y m d : Nat) (hy : 1901 ≤ y) (hy' : y ≤ 2099) (hm : 1 ≤ m) (hm' : m ≤ 12) :
    jdayLhs y m d = ymd2ord y m d + 1721424 + jdaySub y m := by
  have hleap : leapB y = true ↔ y % 4 = 0 := by rw [leapB_iff]; unfold isLeap; omega
  have := jday_aux y m d ((y - 1) / 100) ((y - 1) / 400) (leapB y) hm hm' hy hy' rfl rfl (by omega) hleap
  unfold jdayLhs jdaySub ymd2ord daysBeforeYear daysBeforeMonth
  omega

end BeyondVerif.Sgp4Wrap
