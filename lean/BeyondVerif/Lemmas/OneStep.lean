import Mathlib.Analysis.Calculus.MeanValue
import Mathlib.Analysis.Calculus.Deriv.Pow
import Mathlib.Analysis.Calculus.Deriv.Mul
import Mathlib.Tactic.Ring
import Mathlib.Tactic.Linarith
import Mathlib.Tactic.Positivity
import Mathlib.Tactic.Module

/-!
Local analysis of one explicit step in a normed space (C06): the local truncation error of Euler's method (Taylor's
formula with first-order remainder, by the mean-value inequality — no integral, no completeness), and the Lipschitz
constants of the Euler and of the classical Runge–Kutta step map.
-/
namespace BeyondVerif.OneStep
open Set

variable {E : Type*} [NormedAddCommGroup E] [NormedSpace ℝ E]

/-- **Taylor with first-order remainder.**  If `y` has derivative `y'` on `[t, t+h]` and `y'` moves away from `y' t` at
most at rate `M` (`‖y' s − y' t‖ ≤ M (s − t)`; implied by `‖y''‖ ≤ M`), then
`‖y (t+h) − (y t + h • y' t)‖ ≤ M h² / 2`. -/
theorem taylor1_remainder (y y' : ℝ → E) (t h M : ℝ) (hh : 0 ≤ h)
    (hy : ∀ s ∈ Icc t (t + h), HasDerivAt y (y' s) s)
    (hM : ∀ s ∈ Icc t (t + h), ‖y' s - y' t‖ ≤ M * (s - t)) :
    ‖y (t + h) - (y t + h • y' t)‖ ≤ M * h ^ 2 / 2 := by
  have hg : ∀ s ∈ Icc t (t + h), HasDerivAt (fun s => y s - y t - (s - t) • y' t) (y' s - y' t) s := by
    intro s hs
    have h2 : HasDerivAt (fun s : ℝ => (s - t) • y' t) ((1 : ℝ) • y' t) s :=
      ((hasDerivAt_id s).sub_const t).smul_const (y' t)
    have h3 := ((hy s hs).sub_const (y t)).sub h2
    rw [one_smul] at h3
    exact h3
  have hB : ∀ s, HasDerivAt (fun s => M * (s - t) ^ 2 / 2) (M * (s - t)) s := by
    intro s
    have h1 : HasDerivAt (fun s : ℝ => (s - t) ^ 2) (2 * (s - t) ^ 1 * 1) s := ((hasDerivAt_id s).sub_const t).pow 2
    have h2 := (h1.const_mul M).div_const 2
    have e : M * (2 * (s - t) ^ 1 * 1) / 2 = M * (s - t) := by ring
    rw [e] at h2
    exact h2
  have hcont : ContinuousOn (fun s => y s - y t - (s - t) • y' t) (Icc t (t + h)) :=
    fun s hs => (hg s hs).continuousAt.continuousWithinAt
  have key := image_norm_le_of_norm_deriv_right_le_deriv_boundary (f := fun s => y s - y t - (s - t) • y' t)
    (f' := fun s => y' s - y' t) (a := t) (b := t + h) (B := fun s => M * (s - t) ^ 2 / 2) (B' := fun s => M * (s - t))
    hcont (fun x hx => (hg x (Ico_subset_Icc_self hx)).hasDerivWithinAt) (by simp) hB
    (fun x hx => hM x (Ico_subset_Icc_self hx)) (right_mem_Icc.2 (by linarith))
  have e1 : y (t + h) - (y t + h • y' t) = y (t + h) - y t - (t + h - t) • y' t := by
    rw [add_sub_cancel_left]; abel
  rw [e1]
  simpa using key

/-- a bound on the second derivative gives the rate hypothesis of `taylor1_remainder` -/
theorem rate_of_second_derivative (y' y'' : ℝ → E) (t h M : ℝ)
    (hy' : ∀ s ∈ Icc t (t + h), HasDerivAt y' (y'' s) s) (hM : ∀ s ∈ Icc t (t + h), ‖y'' s‖ ≤ M) :
    ∀ s ∈ Icc t (t + h), ‖y' s - y' t‖ ≤ M * (s - t) :=
  norm_image_sub_le_of_norm_deriv_right_le_segment
    (fun s hs => (hy' s hs).continuousAt.continuousWithinAt)
    (fun s hs => (hy' s (Ico_subset_Icc_self hs)).hasDerivWithinAt)
    (fun s hs => hM s (Ico_subset_Icc_self hs))

/-- **local truncation error of Euler's method, `C²` form**: `‖y (t+h) − (y t + h y' t)‖ ≤ (h²/2) sup ‖y''‖` -/
theorem euler_local_error_C2 (y y' y'' : ℝ → E) (t h M : ℝ) (hh : 0 ≤ h)
    (hy : ∀ s ∈ Icc t (t + h), HasDerivAt y (y' s) s)
    (hy' : ∀ s ∈ Icc t (t + h), HasDerivAt y' (y'' s) s) (hM : ∀ s ∈ Icc t (t + h), ‖y'' s‖ ≤ M) :
    ‖y (t + h) - (y t + h • y' t)‖ ≤ M * h ^ 2 / 2 :=
  taylor1_remainder y y' t h M hh hy (rate_of_second_derivative y' y'' t h M hy' hM)

/-- **local truncation error of Euler's method along a solution of an autonomous ODE** `y' = F y`: if the solution stays
in a set `K` on `[t, t+h]` on which `‖F‖ ≤ B` and `F` is `L`-Lipschitz, the error of one Euler step started ON the solution
is at most `L B h²/2` (no second derivative is assumed to exist). -/
theorem euler_local_error_ode (F : E → E) (K : Set E) (L B : ℝ) (hL : 0 ≤ L)
    (hB : ∀ x ∈ K, ‖F x‖ ≤ B) (hLip : ∀ x ∈ K, ∀ x' ∈ K, ‖F x - F x'‖ ≤ L * ‖x - x'‖)
    (y : ℝ → E) (t h : ℝ) (hh : 0 ≤ h)
    (hy : ∀ s ∈ Icc t (t + h), HasDerivAt y (F (y s)) s) (hK : ∀ s ∈ Icc t (t + h), y s ∈ K) :
    ‖y (t + h) - (y t + h • F (y t))‖ ≤ (L * B) * h ^ 2 / 2 := by
  have hyt : t ∈ Icc t (t + h) := left_mem_Icc.2 (by linarith)
  have hmove : ∀ s ∈ Icc t (t + h), ‖y s - y t‖ ≤ B * (s - t) :=
    norm_image_sub_le_of_norm_deriv_right_le_segment
      (fun s hs => (hy s hs).continuousAt.continuousWithinAt)
      (fun s hs => (hy s (Ico_subset_Icc_self hs)).hasDerivWithinAt)
      (fun s hs => hB _ (hK s (Ico_subset_Icc_self hs)))
  refine taylor1_remainder y (fun s => F (y s)) t h (L * B) hh hy ?_
  intro s hs
  calc ‖F (y s) - F (y t)‖ ≤ L * ‖y s - y t‖ := hLip _ (hK s hs) _ (hK t hyt)
    _ ≤ L * (B * (s - t)) := mul_le_mul_of_nonneg_left (hmove s hs) hL
    _ = L * B * (s - t) := by ring

/-- **the Euler step map is `(1 + hL)`-Lipschitz** wherever the field is `L`-Lipschitz -/
theorem euler_step_lipschitz (F : E → E) (L h : ℝ) (hh : 0 ≤ h) (a b : E) (hab : ‖F a - F b‖ ≤ L * ‖a - b‖) :
    ‖(a + h • F a) - (b + h • F b)‖ ≤ (1 + h * L) * ‖a - b‖ := by
  have e : (a + h • F a) - (b + h • F b) = (a - b) + h • (F a - F b) := by module
  rw [e]
  calc ‖(a - b) + h • (F a - F b)‖ ≤ ‖a - b‖ + ‖h • (F a - F b)‖ := norm_add_le _ _
    _ = ‖a - b‖ + h * ‖F a - F b‖ := by rw [norm_smul, Real.norm_of_nonneg hh]
    _ ≤ ‖a - b‖ + h * (L * ‖a - b‖) := by gcongr
    _ = (1 + h * L) * ‖a - b‖ := by ring

/-! ### the classical Runge–Kutta step in a normed space -/

/-- the four stages and the weights 1/6, 1/3, 1/3, 1/6 (the tableau of `KeplerNum.BUTCHER["rk4"]`; `Props/C06Conv`
proves that the model's generic step with the regenerated tableau IS this map) -/
noncomputable def rk4 (F : ℝ → E → E) (t : ℝ) (x : E) (h : ℝ) : E :=
  let k1 := F t x
  let k2 := F (t + h / 2) (x + (h / 2) • k1)
  let k3 := F (t + h / 2) (x + (h / 2) • k2)
  let k4 := F (t + h) (x + h • k3)
  x + (h / 6) • k1 + (h / 3) • k2 + (h / 3) • k3 + (h / 6) • k4

/-- **the RK4 step map is `(1 + z + z²/2 + z³/6 + z⁴/24)`-Lipschitz, `z = hL`**, when `F(t, ·)` is globally `L`-Lipschitz:
the amplification is the degree-4 Taylor polynomial of `e^{hL}`, hence `≤ e^{hL}` and of the form `1 + hΛ` with
`Λ = L (1 + z/2 + z²/6 + z³/24)`. -/
theorem rk4_step_lipschitz (F : ℝ → E → E) (L h : ℝ) (hh : 0 ≤ h) (hL : 0 ≤ L)
    (hF : ∀ s a b, ‖F s a - F s b‖ ≤ L * ‖a - b‖) (t : ℝ) (a b : E) :
    ‖rk4 F t a h - rk4 F t b h‖
      ≤ (1 + h * L + (h * L) ^ 2 / 2 + (h * L) ^ 3 / 6 + (h * L) ^ 4 / 24) * ‖a - b‖ := by
  set d := ‖a - b‖ with hd
  have hd0 : 0 ≤ d := norm_nonneg _
  set k1a := F t a; set k1b := F t b
  set k2a := F (t + h / 2) (a + (h / 2) • k1a); set k2b := F (t + h / 2) (b + (h / 2) • k1b)
  set k3a := F (t + h / 2) (a + (h / 2) • k2a); set k3b := F (t + h / 2) (b + (h / 2) • k2b)
  set k4a := F (t + h) (a + h • k3a); set k4b := F (t + h) (b + h • k3b)
  have h2 : (0 : ℝ) ≤ h / 2 := by linarith
  have stage : ∀ (c : ℝ), 0 ≤ c → ∀ (ka kb : E) (D : ℝ), ‖ka - kb‖ ≤ D →
      ‖(a + c • ka) - (b + c • kb)‖ ≤ d + c * D := by
    intro c hc ka kb D hk
    have e : (a + c • ka) - (b + c • kb) = (a - b) + c • (ka - kb) := by module
    rw [e]
    calc ‖(a - b) + c • (ka - kb)‖ ≤ ‖a - b‖ + ‖c • (ka - kb)‖ := norm_add_le _ _
      _ = d + c * ‖ka - kb‖ := by rw [norm_smul, Real.norm_of_nonneg hc]
      _ ≤ d + c * D := by gcongr
  have e1 : ‖k1a - k1b‖ ≤ L * d := hF _ _ _
  have e2 : ‖k2a - k2b‖ ≤ L * (d + h / 2 * (L * d)) :=
    (hF _ _ _).trans (mul_le_mul_of_nonneg_left (stage _ h2 _ _ _ e1) hL)
  have e3 : ‖k3a - k3b‖ ≤ L * (d + h / 2 * (L * (d + h / 2 * (L * d)))) :=
    (hF _ _ _).trans (mul_le_mul_of_nonneg_left (stage _ h2 _ _ _ e2) hL)
  have e4 : ‖k4a - k4b‖ ≤ L * (d + h * (L * (d + h / 2 * (L * (d + h / 2 * (L * d)))))) :=
    (hF _ _ _).trans (mul_le_mul_of_nonneg_left (stage _ hh _ _ _ e3) hL)
  have e : rk4 F t a h - rk4 F t b h
      = (a - b) + (h / 6) • (k1a - k1b) + (h / 3) • (k2a - k2b) + (h / 3) • (k3a - k3b) + (h / 6) • (k4a - k4b) := by
    simp only [rk4]
    module
  have h6 : (0 : ℝ) ≤ h / 6 := by linarith
  have h3 : (0 : ℝ) ≤ h / 3 := by linarith
  rw [e]
  calc ‖(a - b) + (h / 6) • (k1a - k1b) + (h / 3) • (k2a - k2b) + (h / 3) • (k3a - k3b) + (h / 6) • (k4a - k4b)‖
      ≤ ‖a - b‖ + ‖(h / 6) • (k1a - k1b)‖ + ‖(h / 3) • (k2a - k2b)‖ + ‖(h / 3) • (k3a - k3b)‖ + ‖(h / 6) • (k4a - k4b)‖ := by
        refine (norm_add_le _ _).trans (add_le_add_left ?_ _)
        refine (norm_add_le _ _).trans (add_le_add_left ?_ _)
        refine (norm_add_le _ _).trans (add_le_add_left ?_ _)
        exact norm_add_le _ _
    _ = d + h / 6 * ‖k1a - k1b‖ + h / 3 * ‖k2a - k2b‖ + h / 3 * ‖k3a - k3b‖ + h / 6 * ‖k4a - k4b‖ := by
        simp only [norm_smul, Real.norm_of_nonneg h6, Real.norm_of_nonneg h3, hd]
    _ ≤ d + h / 6 * (L * d) + h / 3 * (L * (d + h / 2 * (L * d))) + h / 3 * (L * (d + h / 2 * (L * (d + h / 2 * (L * d)))))
          + h / 6 * (L * (d + h * (L * (d + h / 2 * (L * (d + h / 2 * (L * d))))))) := by gcongr
    _ = (1 + h * L + (h * L) ^ 2 / 2 + (h * L) ^ 3 / 6 + (h * L) ^ 4 / 24) * d := by ring

/-- the amplification factor of RK4 written as `1 + hΛ` -/
theorem rk4_amp_form (L h : ℝ) :
    1 + h * L + (h * L) ^ 2 / 2 + (h * L) ^ 3 / 6 + (h * L) ^ 4 / 24
      = 1 + h * (L * (1 + h * L / 2 + (h * L) ^ 2 / 6 + (h * L) ^ 3 / 24)) := by ring

/-- **RK4 is consistent**: for an autonomous field that is globally `L`-Lipschitz and bounded by `B`, the RK4 step differs
from the Euler step by at most `L B h²/2` (the weights sum to 1 and every stage is within `L B h` of the first) -/
theorem rk4_sub_euler (F : E → E) (L B h : ℝ) (hh : 0 ≤ h) (hL : 0 ≤ L)
    (hF : ∀ a b, ‖F a - F b‖ ≤ L * ‖a - b‖) (hB : ∀ a, ‖F a‖ ≤ B) (t : ℝ) (x : E) :
    ‖rk4 (fun _ => F) t x h - (x + h • F x)‖ ≤ L * B * h ^ 2 / 2 := by
  have hB0 : 0 ≤ B := (norm_nonneg _).trans (hB x)
  set k1 := F x
  set k2 := F (x + (h / 2) • k1)
  set k3 := F (x + (h / 2) • k2)
  set k4 := F (x + h • k3)
  have h2 : (0 : ℝ) ≤ h / 2 := by linarith
  have st : ∀ (c : ℝ), 0 ≤ c → ∀ k : E, ‖k‖ ≤ B → ‖F (x + c • k) - F x‖ ≤ L * (c * B) := by
    intro c hc k hk
    calc ‖F (x + c • k) - F x‖ ≤ L * ‖(x + c • k) - x‖ := hF _ _
      _ = L * (c * ‖k‖) := by rw [add_sub_cancel_left, norm_smul, Real.norm_of_nonneg hc]
      _ ≤ L * (c * B) := by gcongr
  have e2 : ‖k2 - k1‖ ≤ L * (h / 2 * B) := st _ h2 _ (hB _)
  have e3 : ‖k3 - k1‖ ≤ L * (h / 2 * B) := st _ h2 _ (hB _)
  have e4 : ‖k4 - k1‖ ≤ L * (h * B) := st _ hh _ (hB _)
  have e : rk4 (fun _ => F) t x h - (x + h • F x) = (h / 3) • (k2 - k1) + (h / 3) • (k3 - k1) + (h / 6) • (k4 - k1) := by
    simp only [rk4]
    module
  have h6 : (0 : ℝ) ≤ h / 6 := by linarith
  have h3 : (0 : ℝ) ≤ h / 3 := by linarith
  rw [e]
  calc ‖(h / 3) • (k2 - k1) + (h / 3) • (k3 - k1) + (h / 6) • (k4 - k1)‖
      ≤ ‖(h / 3) • (k2 - k1)‖ + ‖(h / 3) • (k3 - k1)‖ + ‖(h / 6) • (k4 - k1)‖ :=
        (norm_add_le _ _).trans (add_le_add_left (norm_add_le _ _) _)
    _ = h / 3 * ‖k2 - k1‖ + h / 3 * ‖k3 - k1‖ + h / 6 * ‖k4 - k1‖ := by
        simp only [norm_smul, Real.norm_of_nonneg h6, Real.norm_of_nonneg h3]
    _ ≤ h / 3 * (L * (h / 2 * B)) + h / 3 * (L * (h / 2 * B)) + h / 6 * (L * (h * B)) := by gcongr
    _ = L * B * h ^ 2 / 2 := by ring

end BeyondVerif.OneStep
