import BeyondVerif.Model.Date
/-!
The lookup semantics of `SimpleEopDatabase.tai_utc` / `SimpleEopDatabase.finals` (model: `taiUtcAt`, `eopRaw`),
for **every** table and every argument: which entry serves an `mjd`, what happens exactly at an entry's own date,
one tick before it, before the first entry.  No Mathlib needed.
-/
namespace BeyondVerif.Date

/-- the test of the reversed scan: `date <= mjd` -/
def leapP (num : Int) : Int × Int → Bool := fun e => decide (e.1 * D ≤ num)

theorem taiUtcAt_def (leap : List (Int × Int)) (num : Int) :
    taiUtcAt leap num = (leap.reverse.find? (leapP num)).map (·.2) := rfl

/-- dates strictly ascending in file order -/
def Sorted (leap : List (Int × Int)) : Prop := (leap.map (·.1)).Pairwise (· < ·)

theorem Sorted.of_cons {e : Int × Int} {l : List (Int × Int)} (h : Sorted (e :: l)) : Sorted l := by
  unfold Sorted at *
  simp only [List.map_cons, List.pairwise_cons] at h
  exact h.2

theorem Sorted.head_lt {e : Int × Int} {l : List (Int × Int)} (h : Sorted (e :: l)) : ∀ e' ∈ l, e.1 < e'.1 := by
  unfold Sorted at h
  simp only [List.map_cons, List.pairwise_cons, List.mem_map, forall_exists_index, and_imp] at h
  intro e' he'
  exact h.1 e'.1 e' he' rfl

/-- in a sorted table, whatever stands before `e` is earlier, whatever stands after is later -/
theorem Sorted.split {l r : List (Int × Int)} {e : Int × Int} (h : Sorted (l ++ e :: r)) :
    (∀ a ∈ l, a.1 < e.1) ∧ (∀ b ∈ r, e.1 < b.1) := by
  induction l with
  | nil =>
    refine ⟨by simp, ?_⟩
    exact Sorted.head_lt (by simpa using h)
  | cons a l ih =>
    have h' : Sorted (l ++ e :: r) := Sorted.of_cons (by simpa using h)
    have hl := Sorted.head_lt (e := a) (l := l ++ e :: r) (by simpa using h)
    obtain ⟨h1, h2⟩ := ih h'
    refine ⟨?_, h2⟩
    intro x hx
    rcases List.mem_cons.mp hx with rfl | hx
    · exact hl e (by simp)
    · exact h1 x hx

/-- a sorted table has one entry per date -/
theorem Sorted.inj {leap : List (Int × Int)} (h : Sorted leap) {a b : Int × Int} (ha : a ∈ leap) (hb : b ∈ leap)
    (hab : a.1 = b.1) : a = b := by
  induction leap with
  | nil => cases ha
  | cons e l ih =>
    have hl := Sorted.head_lt h
    rcases List.mem_cons.mp ha with rfl | ha' <;> rcases List.mem_cons.mp hb with rfl | hb'
    · rfl
    · have := hl b hb'; omega
    · have := hl a ha'; omega
    · exact ih (Sorted.of_cons h) ha' hb'

/-- **no value** exactly when every entry is later than `mjd` (any table, sorted or not) -/
theorem taiUtcAt_eq_none_iff (leap : List (Int × Int)) (num : Int) :
    taiUtcAt leap num = none ↔ ∀ e ∈ leap, num < e.1 * D := by
  rw [taiUtcAt_def]
  simp only [Option.map_eq_none_iff, List.find?_eq_none, List.mem_reverse, leapP, decide_eq_true_eq, Int.not_le]

/-- **file-order semantics** (any table): the value is that of the entry `e` with `date ≤ mjd` after which no entry
with `date ≤ mjd` follows -/
theorem taiUtcAt_eq_some_iff_split (leap : List (Int × Int)) (num v : Int) :
    taiUtcAt leap num = some v ↔
      ∃ l e r, leap = l ++ e :: r ∧ e.2 = v ∧ e.1 * D ≤ num ∧ ∀ b ∈ r, num < b.1 * D := by
  rw [taiUtcAt_def]
  simp only [Option.map_eq_some_iff]
  constructor
  · rintro ⟨e, hf, rfl⟩
    obtain ⟨hp, as, bs, hrev, has⟩ := List.find?_eq_some_iff_append.mp hf
    refine ⟨bs.reverse, e, as.reverse, ?_, rfl, by simpa [leapP] using hp, ?_⟩
    · have := congrArg List.reverse hrev
      simpa using this
    · intro b hb
      have := has b (by simpa using hb)
      simpa [leapP] using this
  · rintro ⟨l, e, r, rfl, rfl, hle, hr⟩
    refine ⟨e, ?_, rfl⟩
    apply List.find?_eq_some_iff_append.mpr
    refine ⟨by simpa [leapP] using hle, r.reverse, l.reverse, by simp, ?_⟩
    intro a ha
    have := hr a (by simpa using ha)
    simp only [leapP, Bool.not_eq_eq_eq_not, Bool.not_true, decide_eq_false_iff_not, Int.not_le]
    exact this

/-- **the lookup of a sorted table**: the value of the entry with the greatest date that is `≤ mjd` -/
theorem taiUtcAt_eq_some_iff {leap : List (Int × Int)} (hs : Sorted leap) (num v : Int) :
    taiUtcAt leap num = some v ↔
      ∃ e ∈ leap, e.2 = v ∧ e.1 * D ≤ num ∧ ∀ e' ∈ leap, e'.1 * D ≤ num → e'.1 ≤ e.1 := by
  rw [taiUtcAt_eq_some_iff_split]
  constructor
  · rintro ⟨l, e, r, rfl, rfl, hle, hr⟩
    obtain ⟨hl, _⟩ := Sorted.split hs
    refine ⟨e, by simp, rfl, hle, ?_⟩
    intro e' he' hle'
    rcases List.mem_append.mp he' with h | h
    · exact Int.le_of_lt (hl e' h)
    · rcases List.mem_cons.mp h with rfl | h
      · exact Int.le_refl _
      · have := hr e' h; omega
  · rintro ⟨e, he, rfl, hle, hmax⟩
    obtain ⟨l, r, rfl⟩ := List.append_of_mem he
    obtain ⟨_, hr⟩ := Sorted.split hs
    refine ⟨l, e, r, rfl, rfl, hle, ?_⟩
    intro b hb
    have h1 := hr b hb
    by_cases hb' : b.1 * D ≤ num
    · have := hmax b (by simp [hb]) hb'; omega
    · omega

/-- **exactly at an entry's own date the entry itself applies** (00:00:00 of the day a leap second takes effect) -/
theorem taiUtcAt_at_entry {leap : List (Int × Int)} (hs : Sorted leap) {e : Int × Int} (he : e ∈ leap) :
    taiUtcAt leap (e.1 * D) = some e.2 := by
  rw [taiUtcAt_eq_some_iff hs]
  refine ⟨e, he, rfl, Int.le_refl _, ?_⟩
  intro e' _ h
  have : (0 : Int) < D := by decide
  exact Int.le_of_mul_le_mul_right h this

/-- **between two consecutive entries the earlier one applies** — from its own date (included) up to the tick before the
next one (`e2.1 * D - 1` included) -/
theorem taiUtcAt_between {l r : List (Int × Int)} {e1 e2 : Int × Int} (hs : Sorted (l ++ e1 :: e2 :: r)) {num : Int}
    (h1 : e1.1 * D ≤ num) (h2 : num < e2.1 * D) : taiUtcAt (l ++ e1 :: e2 :: r) num = some e1.2 := by
  rw [taiUtcAt_eq_some_iff_split]
  refine ⟨l, e1, e2 :: r, rfl, rfl, h1, ?_⟩
  have hs' : Sorted ((l ++ [e1]) ++ e2 :: r) := by simpa using hs
  obtain ⟨_, hr⟩ := Sorted.split hs'
  intro b hb
  rcases List.mem_cons.mp hb with rfl | hb
  · exact h2
  · have := hr b hb
    have hD : (0 : Int) < D := by decide
    have : e2.1 * D < b.1 * D := Int.mul_lt_mul_of_pos_right this hD
    omega

/-- **from the last entry on, the last entry applies** -/
theorem taiUtcAt_after_last {l : List (Int × Int)} {e : Int × Int} {num : Int} (h : e.1 * D ≤ num) :
    taiUtcAt (l ++ [e]) num = some e.2 := by
  rw [taiUtcAt_eq_some_iff_split]
  exact ⟨l, e, [], rfl, rfl, h, by simp⟩

/-- **before the first entry of a sorted table there is no value** (`KeyError`, hence the missing-data policy) -/
theorem taiUtcAt_before_first {e : Int × Int} {l : List (Int × Int)} (hs : Sorted (e :: l)) {num : Int}
    (h : num < e.1 * D) : taiUtcAt (e :: l) num = none := by
  rw [taiUtcAt_eq_none_iff]
  intro b hb
  rcases List.mem_cons.mp hb with rfl | hb
  · exact h
  · have := Sorted.head_lt hs b hb
    have hD : (0 : Int) < D := by decide
    have : e.1 * D < b.1 * D := Int.mul_lt_mul_of_pos_right this hD
    omega

/-! ### `TaiUtc.get_last_next` -/

theorem lastNextRev_cons_neg {e : Int × Int} {r : List (Int × Int)} {num : Int} {fut : Option (Int × Int)}
    (h : ¬ e.1 * D ≤ num) : lastNextRev (e :: r) num fut = lastNextRev r num (some e) := by
  simp [lastNextRev, h]

theorem lastNextRev_cons_pos {e : Int × Int} {r : List (Int × Int)} {num : Int} {fut : Option (Int × Int)}
    (h : e.1 * D ≤ num) : lastNextRev (e :: r) num fut = (some e, fut) := by
  simp [lastNextRev, h]

theorem lastNextRev_fst (l : List (Int × Int)) (num : Int) (fut : Option (Int × Int)) :
    (lastNextRev l num fut).1 = l.find? (leapP num) := by
  induction l generalizing fut with
  | nil => rfl
  | cons e r ih =>
    by_cases h : e.1 * D ≤ num
    · simp [lastNextRev_cons_pos h, h, leapP]
    · simp [lastNextRev_cons_neg h, h, leapP, ih]

/-- **`past` of `get_last_next` is the entry the lookup uses** (`TaiUtc.__getitem__`, `SimpleEopDatabase.tai_utc`) -/
theorem lastNext_past (leap : List (Int × Int)) (num : Int) :
    (lastNext leap num).1.map (·.2) = taiUtcAt leap num := by
  rw [taiUtcAt_def, lastNext, lastNextRev_fst]

theorem lastNextRev_skip (r rest : List (Int × Int)) (num : Int) (fut : Option (Int × Int))
    (h : ∀ b ∈ r, num < b.1 * D) :
    lastNextRev (r ++ rest) num fut = lastNextRev rest num (r.getLast?.or fut) := by
  induction r generalizing fut with
  | nil => simp
  | cons a r ih =>
    have ha : ¬ a.1 * D ≤ num := by have := h a (by simp); omega
    have hr : ∀ b ∈ r, num < b.1 * D := fun b hb => h b (by simp [hb])
    simp only [List.cons_append]
    rw [lastNextRev_cons_neg ha, ih _ hr]
    cases r with
    | nil => simp
    | cons b r' =>
      cases hlast : (b :: r').getLast? with
      | none => simp at hlast
      | some x => simp [List.getLast?_cons_cons, hlast]

/-- **file-order semantics of `get_last_next`**: `past` is the last entry with `date ≤ mjd`, `future` the entry that
follows it in the file (none after the last entry) -/
theorem lastNext_split {l r : List (Int × Int)} {e : Int × Int} {num : Int} (he : e.1 * D ≤ num)
    (hr : ∀ b ∈ r, num < b.1 * D) : lastNext (l ++ e :: r) num = (some e, r.head?) := by
  unfold lastNext
  have : (l ++ e :: r).reverse = r.reverse ++ (e :: l.reverse) := by simp
  rw [this, lastNextRev_skip _ _ _ _ (by simpa using hr), lastNextRev_cons_pos he]
  simp

/-- before the first entry: no `past`, `future` is the first entry -/
theorem lastNext_before {leap : List (Int × Int)} {num : Int} (h : ∀ b ∈ leap, num < b.1 * D) :
    lastNext leap num = (none, leap.head?) := by
  unfold lastNext
  have := lastNextRev_skip leap.reverse [] num none (by simpa using h)
  simp only [List.append_nil] at this
  rw [this]
  simp [lastNextRev]

theorem leapP_day (num : Int) : leapP num = leapP (num / D * D) := by
  funext e
  simp only [leapP, decide_eq_decide]
  have hD : (0 : Int) < D := by decide
  constructor
  · intro h
    have : e.1 ≤ num / D := (Int.le_ediv_iff_mul_le hD).mpr h
    exact Int.mul_le_mul_of_nonneg_right this (Int.le_of_lt hD)
  · intro h
    have : num / D * D ≤ num := Int.ediv_mul_le num (Int.ne_of_gt hD)
    omega

/-- **TAI−UTC is a function of the day number** `⌊mjd⌋` (table dates are whole days): every instant of a day gets the
value found at that day's 00:00:00 -/
theorem taiUtcAt_day (leap : List (Int × Int)) (num : Int) : taiUtcAt leap num = taiUtcAt leap (num / D * D) := by
  rw [taiUtcAt_def, taiUtcAt_def, ← leapP_day]

/-- **the whole record is a function of the day number** (dates after the MJD origin; `int()` truncates) -/
theorem eopRaw_day (env : Env) (num : Int) (h0 : 0 ≤ num) : eopRaw env num = eopRaw env (num / D * D) := by
  have hD : (0 : Int) < D := by decide
  have h1 : 0 ≤ num / D * D := Int.mul_nonneg (Int.ediv_nonneg h0 (Int.le_of_lt hD)) (Int.le_of_lt hD)
  unfold eopRaw
  rw [Int.tdiv_eq_ediv_of_nonneg h0, Int.tdiv_eq_ediv_of_nonneg h1, ← taiUtcAt_day,
    Int.mul_ediv_cancel _ (Int.ne_of_gt hD)]

/-- the day a clock reading `num` falls on, for `day * D ≤ num < (day + 1) * D` -/
theorem day_of_mem {num day : Int} (h1 : day * D ≤ num) (h2 : num < (day + 1) * D) : num / D = day := by
  have hD : (0 : Int) < D := by decide
  apply Int.le_antisymm
  · have : num / D < day + 1 := (Int.ediv_lt_iff_lt_mul hD).mpr h2
    omega
  · exact (Int.le_ediv_iff_mul_le hD).mpr h1

end BeyondVerif.Date
