import Mathlib.Analysis.SpecialFunctions.Trigonometric.Deriv
import Mathlib.Analysis.SpecialFunctions.Trigonometric.Bounds
import Mathlib.Analysis.SpecialFunctions.Sqrt
import Mathlib.Tactic.Ring
import Mathlib.Tactic.FieldSimp
import Mathlib.Tactic.Linarith
import Mathlib.Tactic.LinearCombination

/-!
Elliptic Keplerian motion solves the two-body equation of motion (orbital plane, perifocal axes).
If the eccentric anomaly `E(t)` satisfies Kepler's equation with a mean anomaly advancing at the constant
rate `n`, then `(x, y) = (a (cos E − e), a √(1−e²) sin E)` satisfies `r̈ = −µ r / |r|³` with `µ = n² a³`.
-/
noncomputable section
namespace BeyondVerif.TwoBody
open Real

variable {a e n M0 : ℝ} {E : ℝ → ℝ}

theorem denom_pos (he0 : 0 ≤ e) (he : e < 1) (u : ℝ) : 0 < 1 - e * cos u := by
  have := Real.cos_le_one u
  nlinarith [Real.neg_one_le_cos u]

/-- the rate of the eccentric anomaly: `Ė = n / (1 − e cos E)` -/
theorem hasDerivAt_E (he0 : 0 ≤ e) (he : e < 1) (hE : ∀ t, E t - e * sin (E t) = M0 + n * t)
    (hd : Differentiable ℝ E) (t : ℝ) : HasDerivAt E (n / (1 - e * cos (E t))) t := by
  have h0 : HasDerivAt E (deriv E t) t := (hd t).hasDerivAt
  have h1 : HasDerivAt (fun t => E t - e * sin (E t)) (deriv E t - e * (cos (E t) * deriv E t)) t :=
    h0.sub ((h0.sin).const_mul e)
  have h2 : HasDerivAt (fun t => E t - e * sin (E t)) n t := by
    have : (fun t => E t - e * sin (E t)) = fun t => M0 + n * t := funext hE
    rw [this]
    simpa using ((hasDerivAt_id t).const_mul n).const_add M0
  have h3 := h1.unique h2
  have hp := (denom_pos he0 he (E t)).ne'
  have : deriv E t = n / (1 - e * cos (E t)) := by
    field_simp; linarith
  rw [← this]; exact h0

/-- position in the orbital plane (perifocal axes) -/
def posX (a e : ℝ) (E : ℝ → ℝ) (t : ℝ) : ℝ := a * (cos (E t) - e)
def posY (a e : ℝ) (E : ℝ → ℝ) (t : ℝ) : ℝ := a * sqrt (1 - e ^ 2) * sin (E t)
/-- velocity -/
def velX (a e n : ℝ) (E : ℝ → ℝ) (t : ℝ) : ℝ := a * (-sin (E t) * (n / (1 - e * cos (E t))))
def velY (a e n : ℝ) (E : ℝ → ℝ) (t : ℝ) : ℝ := a * sqrt (1 - e ^ 2) * (cos (E t) * (n / (1 - e * cos (E t))))
/-- radius `r = a (1 − e cos E)` -/
def radius (a e : ℝ) (E : ℝ → ℝ) (t : ℝ) : ℝ := a * (1 - e * cos (E t))

theorem radius_eq_norm (ha : 0 < a) (he0 : 0 ≤ e) (he : e < 1) (t : ℝ) :
    radius a e E t = sqrt (posX a e E t ^ 2 + posY a e E t ^ 2) := by
  have hp := denom_pos he0 he (E t)
  have h1 : (0 : ℝ) ≤ 1 - e ^ 2 := by nlinarith
  have : posX a e E t ^ 2 + posY a e E t ^ 2 = (radius a e E t) ^ 2 := by
    simp only [posX, posY, radius, mul_pow, Real.sq_sqrt h1]
    have hs := Real.sin_sq_add_cos_sq (E t)
    linear_combination (a ^ 2 * (1 - e ^ 2)) * hs
  rw [this, Real.sqrt_sq]
  exact (mul_pos ha hp).le

theorem hasDerivAt_posX (he0 : 0 ≤ e) (he : e < 1) (hE : ∀ t, E t - e * sin (E t) = M0 + n * t)
    (hd : Differentiable ℝ E) (t : ℝ) : HasDerivAt (posX a e E) (velX a e n E t) t :=
  (((hasDerivAt_E he0 he hE hd t).cos).sub_const e).const_mul a

theorem hasDerivAt_posY (he0 : 0 ≤ e) (he : e < 1) (hE : ∀ t, E t - e * sin (E t) = M0 + n * t)
    (hd : Differentiable ℝ E) (t : ℝ) : HasDerivAt (posY a e E) (velY a e n E t) t :=
  ((hasDerivAt_E he0 he hE hd t).sin).const_mul (a * sqrt (1 - e ^ 2))

theorem hasDerivAt_rate (he0 : 0 ≤ e) (he : e < 1) (hE : ∀ t, E t - e * sin (E t) = M0 + n * t)
    (hd : Differentiable ℝ E) (t : ℝ) :
    HasDerivAt (fun t => n / (1 - e * cos (E t)))
      (-(n * (e * (sin (E t) * (n / (1 - e * cos (E t)))))) / (1 - e * cos (E t)) ^ 2) t := by
  have hE' := hasDerivAt_E he0 he hE hd t
  have hden : HasDerivAt (fun t => 1 - e * cos (E t)) (-(e * (-sin (E t) * (n / (1 - e * cos (E t)))))) t :=
    ((hE'.cos).const_mul e).const_sub 1
  have := (hasDerivAt_const t n).div hden (denom_pos he0 he (E t)).ne'
  exact this.congr_deriv (by ring)

theorem alg_x (a e n c s : ℝ) (ha : a ≠ 0) (hd : 1 - e * c ≠ 0) (hs : s ^ 2 + c ^ 2 = 1) :
    a * (-(c * (n / (1 - e * c))) * (n / (1 - e * c)) + -s * (-(n * (e * (s * (n / (1 - e * c))))) / (1 - e * c) ^ 2))
      = -(n ^ 2 * a ^ 3) * (a * (c - e)) / (a * (1 - e * c)) ^ 3 := by
  have key : -c * (1 - e * c) + e * s ^ 2 = -(c - e) := by linear_combination e * hs
  calc a * (-(c * (n / (1 - e * c))) * (n / (1 - e * c)) + -s * (-(n * (e * (s * (n / (1 - e * c))))) / (1 - e * c) ^ 2))
      = a * n ^ 2 * (-c * (1 - e * c) + e * s ^ 2) / (1 - e * c) ^ 3 := by field_simp
    _ = a * n ^ 2 * (-(c - e)) / (1 - e * c) ^ 3 := by rw [key]
    _ = -(n ^ 2 * a ^ 3) * (a * (c - e)) / (a * (1 - e * c)) ^ 3 := by field_simp

theorem alg_y (A a e n c s : ℝ) (ha : a ≠ 0) (hd : 1 - e * c ≠ 0) :
    A * (-s * (n / (1 - e * c)) * (n / (1 - e * c)) + c * (-(n * (e * (s * (n / (1 - e * c))))) / (1 - e * c) ^ 2))
      = -(n ^ 2 * a ^ 3) * (A * s) / (a * (1 - e * c)) ^ 3 := by
  field_simp; ring

/-- **Newton's equation, x component**: `ẍ = −µ x / r³`, `µ = n² a³` -/
theorem hasDerivAt_velX (ha : 0 < a) (he0 : 0 ≤ e) (he : e < 1) (hE : ∀ t, E t - e * sin (E t) = M0 + n * t)
    (hd : Differentiable ℝ E) (t : ℝ) :
    HasDerivAt (velX a e n E) (-(n ^ 2 * a ^ 3) * posX a e E t / radius a e E t ^ 3) t := by
  have hE' := hasDerivAt_E he0 he hE hd t
  have hr := hasDerivAt_rate he0 he hE hd t
  have hp := (denom_pos he0 he (E t)).ne'
  have h := (((hE'.sin).neg).mul hr).const_mul a
  exact h.congr_deriv (alg_x a e n (cos (E t)) (sin (E t)) ha.ne' hp (Real.sin_sq_add_cos_sq (E t)))

/-- **Newton's equation, y component**: `ÿ = −µ y / r³` -/
theorem hasDerivAt_velY (ha : 0 < a) (he0 : 0 ≤ e) (he : e < 1) (hE : ∀ t, E t - e * sin (E t) = M0 + n * t)
    (hd : Differentiable ℝ E) (t : ℝ) :
    HasDerivAt (velY a e n E) (-(n ^ 2 * a ^ 3) * posY a e E t / radius a e E t ^ 3) t := by
  have hE' := hasDerivAt_E he0 he hE hd t
  have hr := hasDerivAt_rate he0 he hE hd t
  have hp := (denom_pos he0 he (E t)).ne'
  have h := ((hE'.cos).mul hr).const_mul (a * sqrt (1 - e ^ 2))
  exact h.congr_deriv (alg_y (a * sqrt (1 - e ^ 2)) a e n (cos (E t)) (sin (E t)) ha.ne' hp)

end BeyondVerif.TwoBody
