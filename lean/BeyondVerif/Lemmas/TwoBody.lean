import Mathlib.Analysis.SpecialFunctions.Trigonometric.Deriv
import Mathlib.Analysis.SpecialFunctions.Trigonometric.Bounds
import Mathlib.Analysis.SpecialFunctions.Sqrt
import Mathlib.Tactic.Ring
import Mathlib.Tactic.FieldSimp
import Mathlib.Tactic.Linarith
import Mathlib.Tactic.LinearCombination
import Mathlib.Analysis.Calculus.Deriv.Inverse
import Mathlib.Topology.MetricSpace.Lipschitz

/-!
Elliptic Keplerian motion solves the two-body equation of motion (orbital plane, perifocal axes).
If the eccentric anomaly `E(t)` satisfies Kepler's equation with a mean anomaly advancing at the constant
rate `n`, then `(x, y) = (a (cos E − e), a √(1−e²) sin E)` satisfies `r̈ = −µ r / |r|³` with `µ = n² a³`.
-/
noncomputable section
set_option linter.unusedVariables false
namespace BeyondVerif.TwoBody
open Real

variable {a e n M0 : ℝ} {E : ℝ → ℝ}

theorem denom_pos (he0 : 0 ≤ e) (he : e < 1) (u : ℝ) : 0 < 1 - e * cos u := by
  have := Real.cos_le_one u
  nlinarith [Real.neg_one_le_cos u]

/-! ### a solution of Kepler's equation along `M₀ + n t` is automatically differentiable -/

theorem kepler_unique (he0 : 0 ≤ e) (he : e < 1) {u v : ℝ} (h : u - e * sin u = v - e * sin v) : u = v := by
  have h1 : u - v = e * (sin u - sin v) := by linarith
  have h2 := Real.abs_sin_sub_sin_le u v
  have h3 : |u - v| = e * |sin u - sin v| := by rw [h1, abs_mul, abs_of_nonneg he0]
  have h4 : |u - v| ≤ e * |u - v| := h3.le.trans (mul_le_mul_of_nonneg_left h2 he0)
  have h5 : |u - v| ≤ 0 := by nlinarith [abs_nonneg (u - v)]
  have := abs_nonpos_iff.mp h5
  linarith

theorem solution_lipschitz (he0 : 0 ≤ e) (he : e < 1) (hE : ∀ t, E t - e * sin (E t) = M0 + n * t) (s t : ℝ) :
    |E s - E t| ≤ |n| / (1 - e) * |s - t| := by
  have h1 : E s - E t = n * (s - t) + e * (sin (E s) - sin (E t)) := by linarith [hE s, hE t]
  have h2 := Real.abs_sin_sub_sin_le (E s) (E t)
  have h3 : |E s - E t| ≤ |n| * |s - t| + e * |E s - E t| := by
    calc |E s - E t| = |n * (s - t) + e * (sin (E s) - sin (E t))| := by rw [h1]
      _ ≤ |n * (s - t)| + |e * (sin (E s) - sin (E t))| := abs_add_le _ _
      _ = |n| * |s - t| + e * |sin (E s) - sin (E t)| := by rw [abs_mul, abs_mul, abs_of_nonneg he0]
      _ ≤ |n| * |s - t| + e * |E s - E t| := by gcongr
  have h4 : 0 < 1 - e := by linarith
  rw [div_mul_eq_mul_div, le_div_iff₀ h4]
  nlinarith

theorem solution_continuous (he0 : 0 ≤ e) (he : e < 1) (hE : ∀ t, E t - e * sin (E t) = M0 + n * t) :
    Continuous E :=
  (LipschitzWith.of_dist_le' (K := |n| / (1 - e)) (fun s t => by
    simpa [Real.dist_eq] using solution_lipschitz he0 he hE s t)).continuous

theorem solution_differentiable (he0 : 0 ≤ e) (he : e < 1) (hE : ∀ t, E t - e * sin (E t) = M0 + n * t) :
    Differentiable ℝ E := by
  by_cases hn : n = 0
  · -- constant
    have : E = fun _ => E 0 := by
      funext t; apply kepler_unique he0 he; rw [hE t, hE 0, hn]; ring
    rw [this]; exact differentiable_const _
  · intro t
    -- φ y := E ((y − M₀)/n) is a continuous right inverse of g u := u − e sin u
    have hcont := solution_continuous he0 he hE
    let φ : ℝ → ℝ := fun y => E ((y - M0) / n)
    have hφc : ContinuousAt φ (M0 + n * t) := by
      have : Continuous φ := hcont.comp (by fun_prop)
      exact this.continuousAt
    have hφt : φ (M0 + n * t) = E t := by simp [φ, hn]
    have hg : HasDerivAt (fun u => u - e * sin u) (1 - e * cos (E t)) (φ (M0 + n * t)) := by
      rw [hφt]; exact (hasDerivAt_id (E t)).sub ((Real.hasDerivAt_sin (E t)).const_mul e)
    have hinv : ∀ᶠ y in nhds (M0 + n * t), (fun u => u - e * sin u) (φ y) = y := by
      refine Filter.Eventually.of_forall (fun y => ?_)
      simp only [φ]; rw [hE]; field_simp; ring
    have hφ := HasDerivAt.of_local_left_inverse hφc hg (denom_pos he0 he (E t)).ne' hinv
    have haff : HasDerivAt (fun t => M0 + n * t) n t := by
      simpa using ((hasDerivAt_id t).const_mul n).const_add M0
    have hcomp := hφ.comp t haff
    have : E = φ ∘ fun t => M0 + n * t := by
      funext s; simp [φ, hn]
    rw [this]; exact hcomp.differentiableAt

/-- the rate of the eccentric anomaly: `Ė = n / (1 − e cos E)` -/
theorem hasDerivAt_E (he0 : 0 ≤ e) (he : e < 1) (hE : ∀ t, E t - e * sin (E t) = M0 + n * t)
    (hd : Differentiable ℝ E) (t : ℝ) : HasDerivAt E (n / (1 - e * cos (E t))) t := by
  have h0 : HasDerivAt E (deriv E t) t := (hd t).hasDerivAt
  have h1 : HasDerivAt (fun t => E t - e * sin (E t)) (deriv E t - e * (cos (E t) * deriv E t)) t :=
    h0.sub ((h0.sin).const_mul e)
  have h2 : HasDerivAt (fun t => E t - e * sin (E t)) n t := by
    have : (fun t => E t - e * sin (E t)) = fun t => M0 + n * t := funext hE
    rw [this]
    simpa using ((hasDerivAt_id t).const_mul n).const_add M0
  have h3 := h1.unique h2
  have hp := (denom_pos he0 he (E t)).ne'
  have : deriv E t = n / (1 - e * cos (E t)) := by
    field_simp; linarith
  rw [← this]; exact h0

/-- position in the orbital plane (perifocal axes) -/
def posX (a e : ℝ) (E : ℝ → ℝ) (t : ℝ) : ℝ := a * (cos (E t) - e)
def posY (a e : ℝ) (E : ℝ → ℝ) (t : ℝ) : ℝ := a * sqrt (1 - e ^ 2) * sin (E t)
/-- velocity -/
def velX (a e n : ℝ) (E : ℝ → ℝ) (t : ℝ) : ℝ := a * (-sin (E t) * (n / (1 - e * cos (E t))))
def velY (a e n : ℝ) (E : ℝ → ℝ) (t : ℝ) : ℝ := a * sqrt (1 - e ^ 2) * (cos (E t) * (n / (1 - e * cos (E t))))
/-- radius `r = a (1 − e cos E)` -/
def radius (a e : ℝ) (E : ℝ → ℝ) (t : ℝ) : ℝ := a * (1 - e * cos (E t))

theorem radius_eq_norm (ha : 0 < a) (he0 : 0 ≤ e) (he : e < 1) (t : ℝ) :
    radius a e E t = sqrt (posX a e E t ^ 2 + posY a e E t ^ 2) := by
  have hp := denom_pos he0 he (E t)
  have h1 : (0 : ℝ) ≤ 1 - e ^ 2 := by nlinarith
  have : posX a e E t ^ 2 + posY a e E t ^ 2 = (radius a e E t) ^ 2 := by
    simp only [posX, posY, radius, mul_pow, Real.sq_sqrt h1]
    have hs := Real.sin_sq_add_cos_sq (E t)
    linear_combination (a ^ 2 * (1 - e ^ 2)) * hs
  rw [this, Real.sqrt_sq]
  exact (mul_pos ha hp).le

theorem hasDerivAt_posX (he0 : 0 ≤ e) (he : e < 1) (hE : ∀ t, E t - e * sin (E t) = M0 + n * t)
    (hd : Differentiable ℝ E) (t : ℝ) : HasDerivAt (posX a e E) (velX a e n E t) t :=
  (((hasDerivAt_E he0 he hE hd t).cos).sub_const e).const_mul a

theorem hasDerivAt_posY (he0 : 0 ≤ e) (he : e < 1) (hE : ∀ t, E t - e * sin (E t) = M0 + n * t)
    (hd : Differentiable ℝ E) (t : ℝ) : HasDerivAt (posY a e E) (velY a e n E t) t :=
  ((hasDerivAt_E he0 he hE hd t).sin).const_mul (a * sqrt (1 - e ^ 2))

theorem hasDerivAt_rate (he0 : 0 ≤ e) (he : e < 1) (hE : ∀ t, E t - e * sin (E t) = M0 + n * t)
    (hd : Differentiable ℝ E) (t : ℝ) :
    HasDerivAt (fun t => n / (1 - e * cos (E t)))
      (-(n * (e * (sin (E t) * (n / (1 - e * cos (E t)))))) / (1 - e * cos (E t)) ^ 2) t := by
  have hE' := hasDerivAt_E he0 he hE hd t
  have hden : HasDerivAt (fun t => 1 - e * cos (E t)) (-(e * (-sin (E t) * (n / (1 - e * cos (E t)))))) t :=
    ((hE'.cos).const_mul e).const_sub 1
  have := (hasDerivAt_const t n).div hden (denom_pos he0 he (E t)).ne'
  exact this.congr_deriv (by ring)

theorem alg_x (a e n c s : ℝ) (ha : a ≠ 0) (hd : 1 - e * c ≠ 0) (hs : s ^ 2 + c ^ 2 = 1) :
    a * (-(c * (n / (1 - e * c))) * (n / (1 - e * c)) + -s * (-(n * (e * (s * (n / (1 - e * c))))) / (1 - e * c) ^ 2))
      = -(n ^ 2 * a ^ 3) * (a * (c - e)) / (a * (1 - e * c)) ^ 3 := by
  have key : -c * (1 - e * c) + e * s ^ 2 = -(c - e) := by linear_combination e * hs
  calc a * (-(c * (n / (1 - e * c))) * (n / (1 - e * c)) + -s * (-(n * (e * (s * (n / (1 - e * c))))) / (1 - e * c) ^ 2))
      = a * n ^ 2 * (-c * (1 - e * c) + e * s ^ 2) / (1 - e * c) ^ 3 := by field_simp
    _ = a * n ^ 2 * (-(c - e)) / (1 - e * c) ^ 3 := by rw [key]
    _ = -(n ^ 2 * a ^ 3) * (a * (c - e)) / (a * (1 - e * c)) ^ 3 := by field_simp

theorem alg_y (A a e n c s : ℝ) (ha : a ≠ 0) (hd : 1 - e * c ≠ 0) :
    A * (-s * (n / (1 - e * c)) * (n / (1 - e * c)) + c * (-(n * (e * (s * (n / (1 - e * c))))) / (1 - e * c) ^ 2))
      = -(n ^ 2 * a ^ 3) * (A * s) / (a * (1 - e * c)) ^ 3 := by
  field_simp; ring

/-- **Newton's equation, x component**: `ẍ = −µ x / r³`, `µ = n² a³` -/
theorem hasDerivAt_velX (ha : 0 < a) (he0 : 0 ≤ e) (he : e < 1) (hE : ∀ t, E t - e * sin (E t) = M0 + n * t)
    (hd : Differentiable ℝ E) (t : ℝ) :
    HasDerivAt (velX a e n E) (-(n ^ 2 * a ^ 3) * posX a e E t / radius a e E t ^ 3) t := by
  have hE' := hasDerivAt_E he0 he hE hd t
  have hr := hasDerivAt_rate he0 he hE hd t
  have hp := (denom_pos he0 he (E t)).ne'
  have h := (((hE'.sin).neg).mul hr).const_mul a
  exact h.congr_deriv (alg_x a e n (cos (E t)) (sin (E t)) ha.ne' hp (Real.sin_sq_add_cos_sq (E t)))

/-- **Newton's equation, y component**: `ÿ = −µ y / r³` -/
theorem hasDerivAt_velY (ha : 0 < a) (he0 : 0 ≤ e) (he : e < 1) (hE : ∀ t, E t - e * sin (E t) = M0 + n * t)
    (hd : Differentiable ℝ E) (t : ℝ) :
    HasDerivAt (velY a e n E) (-(n ^ 2 * a ^ 3) * posY a e E t / radius a e E t ^ 3) t := by
  have hE' := hasDerivAt_E he0 he hE hd t
  have hr := hasDerivAt_rate he0 he hE hd t
  have hp := (denom_pos he0 he (E t)).ne'
  have h := ((hE'.cos).mul hr).const_mul (a * sqrt (1 - e ^ 2))
  exact h.congr_deriv (alg_y (a * sqrt (1 - e ^ 2)) a e n (cos (E t)) (sin (E t)) ha.ne' hp)

end BeyondVerif.TwoBody
