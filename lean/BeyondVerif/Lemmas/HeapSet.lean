import BeyondVerif.Lemmas.HeapSep
/-! The setters under the separation invariant: a setter applied to an object whose buffer and `_data` dict are
new cells writes only new cells and stores only addresses that were already stored in a new cell. -/
namespace BeyondVerif.Heap

theorem lookup_mem_items (k : String) (r : Ref) (items : Items) (hl : lookup k items = some r) : (k, r) ∈ items := by
  induction items with
  | nil => simp [lookup] at hl
  | cons kv rest ih =>
    obtain ⟨k', v⟩ := kv
    by_cases hk : k' = k
    · subst hk; simp [lookup] at hl; subst hl; exact List.mem_cons_self
    · simp [lookup, hk] at hl; exact List.mem_cons_of_mem _ (ih hl)

/-- an address that is `Good` and holds, in a heap extending `h0`, something that is not a maneuver object is new -/
theorem Good.new_of_cell {h0 h : Heap} (p : Pres h0 h) {x : Nat} (g : Good h0 x) {c : Cell} (hc : h[x]? = some c)
    (hnm : ∀ t, c ≠ .man t) : h0.length ≤ x := by
  rcases g with hnew | ⟨t, ht⟩
  · exact hnew
  · exfalso
    have hlt : x < h0.length := (List.getElem?_eq_some_iff.mp ht).1
    rw [p.2 x hlt, ht] at hc
    simp at hc
    exact hnm t hc.symm

theorem setFormTo_sep {h0 h1 : Heap} (sep : Sep h0 h1) (n : Nat) (s' : SV) (hs' : getSV h1 n = some s')
    (hb : h0.length ≤ s'.buf) (hd : h0.length ≤ s'.data) (g : String) : Sep h0 (setFormTo h1 n g).1 := by
  obtain ⟨_, _, hdcell⟩ := getSV_cells h1 n s' hs'
  have hgood : ∀ x ∈ refsOf (.dict s'.items), Good h0 x := sep.closed s'.data _ hd hdcell
  unfold setFormTo
  rw [hs']
  refine (sep.wr hb _ (by simp [refsOf])).wr hd _ ?_
  intro x hx
  rcases refs_insert hx with h | h
  · simp at h
  · exact hgood x h

theorem setForm_sep {h0 h1 : Heap} (sep : Sep h0 h1) (n : Nat) (s' : SV) (hs' : getSV h1 n = some s')
    (hb : h0.length ≤ s'.buf) (hd : h0.length ≤ s'.data) (name : String) : Sep h0 (setForm h1 n name).1 := by
  unfold setForm
  split
  · exact sep
  · exact setFormTo_sep sep n s' hs' hb hd _

theorem setFrameBasic_sep {h0 h1 : Heap} (sep : Sep h0 h1) (n : Nat) (s' : SV) (hs' : getSV h1 n = some s')
    (hb : h0.length ≤ s'.buf) (hd : h0.length ≤ s'.data) (fr : Fr) (env : Env) :
    Sep h0 (setFrameBasic h1 n fr env).1 := by
  obtain ⟨_, _, hdcell⟩ := getSV_cells h1 n s' hs'
  have hgood : ∀ x ∈ refsOf (.dict s'.items), Good h0 x := sep.closed s'.data _ hd hdcell
  have hins : ∀ x ∈ refsOf (.dict (insert "frame" (.frame fr) s'.items)), Good h0 x := by
    intro x hx
    rcases refs_insert hx with h | h
    · simp at h
    · exact hgood x h
  unfold setFrameBasic
  rw [hs']
  simp only
  split
  · exact sep
  · split
    · split
      · exact sep.wr hb _ (by simp [refsOf])
      · exact (sep.wr hb _ (by simp [refsOf])).wr hd _ hins
    · exact sep.wr hb _ (by simp [refsOf])
    · exact sep.wr hb _ (by simp [refsOf])
    · exact sep

/-- `cov.frame = fr` on a covariance object that is a new cell: its buffer is new as well (it is `Good` and holds a
buffer, not a maneuver object), so both writes land in new cells -/
theorem covSetFrame_sep {h0 h : Heap} (sep : Sep h0 h) (c : Nat) (hc : h0.length ≤ c) (fr : Fr) (env : Env := noEnv) :
    Sep h0 (covSetFrame h c fr env).1 := by
  unfold covSetFrame
  split
  · rename_i b cfr orb ofr hcell
    split
    · exact sep
    · split
      · exact sep
      · split
        · rename_i o cv ho hbuf
          have hgood := sep.closed c _ hc hcell
          have hb : h0.length ≤ b := Good.new_of_cell sep.pres (hgood b (by simp [refsOf])) hbuf (by intro t; simp)
          exact (sep.wr hb _ (by simp [refsOf])).wr hc _ (fun x hx => hgood x (by simpa [refsOf] using hx))
        · exact sep
  · exact sep

theorem restoreSV_sep {h0 h : Heap} (sep : Sep h0 h) (s : SV) (hb : h0.length ≤ s.buf) (hd : h0.length ≤ s.data) :
    Sep h0 (restoreSV h s) := by
  unfold restoreSV
  have s1 := sep.wr hb (.buf s.val) (by simp [refsOf])
  simp only
  split
  · rename_i items hc
    refine s1.wr hd _ ?_
    intro x hx
    rcases refs_insert hx with h1 | h1
    · simp at h1
    · exact s1.closed s.data _ hd hc x h1
  · exact s1

/-- the whole frame setter (state vector, then the covariance that follows it) on an object whose buffer and dict are new -/
theorem setFrameTo_sep {h0 h1 : Heap} (sep : Sep h0 h1) (n : Nat) (s' : SV) (hs' : getSV h1 n = some s')
    (hb : h0.length ≤ s'.buf) (hd : h0.length ≤ s'.data) (fr : Fr) (env : Env) :
    Sep h0 (setFrameTo h1 n fr env).1 := by
  have sb := setFrameBasic_sep sep n s' hs' hb hd fr env
  obtain ⟨_, _, hdcell⟩ := getSV_cells h1 n s' hs'
  unfold setFrameTo
  rw [hs']
  simp only
  split
  · rename_i h2 e he; rw [he] at sb; exact sb
  · rename_i h2 he
    rw [he] at sb
    split
    · rename_i c hcov
      have hg : Good h0 c := sep.closed s'.data _ hd hdcell c (mem_refs_dict.mpr ⟨"cov", lookup_mem_items _ _ _ hcov⟩)
      split
      · rename_i cb cfr orb ofr hcell
        split
        · have cs := covSetFrame_sep sb c (Good.new_of_cell sb.pres hg hcell (by intro t; simp)) fr env
          split
          · rename_i h3 e he; rw [he] at cs; exact restoreSV_sep cs s' hb hd
          · rename_i h3 he; rw [he] at cs; exact cs
        · exact sb
      · exact restoreSV_sep sb s' hb hd
    · exact sb

theorem setFrame_sep {h0 h1 : Heap} (sep : Sep h0 h1) (n : Nat) (s' : SV) (hs' : getSV h1 n = some s')
    (hb : h0.length ≤ s'.buf) (hd : h0.length ≤ s'.data) (name : String) (env : Env) :
    Sep h0 (setFrame h1 n name env).1 := by
  unfold setFrame
  split
  · exact sep
  · exact setFrameTo_sep sep n s' hs' hb hd _ env

/-! ### every in-place operation, applied to an object that is a new cell of a separated heap -/

/-- the buffer and the `_data` dict of a new state-vector object are new cells, and what the dict stores is `Good` -/
theorem newSV {h0 h : Heap} (sep : Sep h0 h) {n : Nat} (hn : h0.length ≤ n) {s : SV} (hs : getSV h n = some s) :
    h0.length ≤ s.buf ∧ h0.length ≤ s.data ∧ ∀ x ∈ refsOf (.dict s.items), Good h0 x := by
  obtain ⟨hc, hb, hd⟩ := getSV_cells h n s hs
  have hg := sep.closed n _ hn hc
  have hb' : h0.length ≤ s.buf := Good.new_of_cell sep.pres (hg s.buf (by simp [refsOf])) hb (by intro t; simp)
  have hd' : h0.length ≤ s.data := Good.new_of_cell sep.pres (hg s.data (by simp [refsOf])) hd (by intro t; simp)
  exact ⟨hb', hd', sep.closed s.data _ hd' hd⟩

theorem refs_insert_tok {k : String} {t : Nat} {items : Items} {P : Nat → Prop} (hg : ∀ x ∈ refsOf (.dict items), P x) :
    ∀ x ∈ refsOf (.dict (insert k (.tok t) items)), P x := by
  intro x hx
  rcases refs_insert hx with h | h
  · simp at h
  · exact hg x h

theorem refs_append_tok {t : Nat} {xs : List Ref} {P : Nat → Prop} (hg : ∀ x ∈ refsOf (.list xs), P x) :
    ∀ x ∈ refsOf (.list (xs ++ [.tok t])), P x := by
  intro x hx
  have := mem_refs_list.mp hx
  simp at this
  exact hg x (mem_refs_list.mpr this)

theorem setForm_sep' {h0 h : Heap} (sep : Sep h0 h) {n : Nat} (hn : h0.length ≤ n) (name : String) : Sep h0 (setForm h n name).1 := by
  unfold setForm
  split
  · exact sep
  · rename_i g hg
    unfold setFormTo
    split
    · exact sep
    · rename_i s hs
      obtain ⟨hb, hd, _⟩ := newSV sep hn hs
      have := setFormTo_sep sep n s hs hb hd g
      unfold setFormTo at this; rw [hs] at this; exact this

theorem setFormTo_sep' {h0 h : Heap} (sep : Sep h0 h) {n : Nat} (hn : h0.length ≤ n) (g : String) : Sep h0 (setFormTo h n g).1 := by
  unfold setFormTo
  split
  · exact sep
  · rename_i s hs
    obtain ⟨hb, hd, _⟩ := newSV sep hn hs
    have := setFormTo_sep sep n s hs hb hd g
    unfold setFormTo at this; rw [hs] at this; exact this

theorem setFrame_sep' {h0 h : Heap} (sep : Sep h0 h) {n : Nat} (hn : h0.length ≤ n) (name : String) (env : Env) :
    Sep h0 (setFrame h n name env).1 := by
  unfold setFrame
  split
  · exact sep
  · rename_i fr _
    unfold setFrameTo
    split
    · exact sep
    · rename_i s hs
      obtain ⟨hb, hd, _⟩ := newSV sep hn hs
      have := setFrameTo_sep sep n s hs hb hd fr env
      unfold setFrameTo at this; rw [hs] at this; exact this

theorem setAttr_sep {h0 h : Heap} (sep : Sep h0 h) {n : Nat} (hn : h0.length ≤ n) (name : String) (x : Nat) :
    Sep h0 (setAttr h n name x).1 := by
  unfold setAttr
  split
  · exact sep
  · rename_i s hs
    obtain ⟨hb, hd, hg⟩ := newSV sep hn hs
    split
    · exact sep
    · split
      · exact sep.wr hb _ (by simp [refsOf])
      · exact sep
      · exact sep.wr hd _ (refs_insert_tok hg)

theorem setIdx_sep {h0 h : Heap} (sep : Sep h0 h) {n : Nat} (hn : h0.length ≤ n) (i x : Nat) :
    Sep h0 (setIdx h n i x).1 := by
  unfold setIdx
  split
  · exact sep
  · rename_i s hs
    obtain ⟨hb, _, _⟩ := newSV sep hn hs
    split
    · exact sep.wr hb _ (by simp [refsOf])
    · exact sep

/-- an address stored under a key of the `_data` dict of a new object, holding anything but a maneuver object, is new -/
theorem newEntry {h0 h : Heap} (sep : Sep h0 h) {n : Nat} (hn : h0.length ≤ n) {s : SV} (hs : getSV h n = some s)
    {k : String} {x : Nat} (hl : lookup k s.items = some (.addr x)) {c : Cell} (hc : h[x]? = some c) (hnm : ∀ t, c ≠ .man t) :
    h0.length ≤ x :=
  Good.new_of_cell sep.pres ((newSV sep hn hs).2.2 x (mem_refs_dict.mpr ⟨k, lookup_mem_items _ _ _ hl⟩)) hc hnm

theorem covFrame_sep {h0 h : Heap} (sep : Sep h0 h) {n : Nat} (hn : h0.length ≤ n) (name : String) :
    Sep h0 (covFrame h n name).1 := by
  unfold covFrame
  split
  · exact sep
  · rename_i s hs
    split
    · rename_i c hl
      -- the covariance object is a new cell as soon as it is one (otherwise `covSetFrame` writes nothing)
      have key : ∀ fr, Sep h0 (covSetFrame h c fr).1 := by
        intro fr
        by_cases hcell : ∃ b cfr orb ofr, h[c]? = some (.cov b cfr orb ofr)
        · obtain ⟨b, cfr, orb, ofr, hcell⟩ := hcell
          exact covSetFrame_sep sep c (newEntry sep hn hs hl hcell (by intro t; simp)) fr
        · unfold covSetFrame
          split
          · rename_i b cfr orb ofr hc; exact absurd ⟨b, cfr, orb, ofr, hc⟩ hcell
          · exact sep
      dsimp only
      generalize (if name = "TNW" then some Fr.tnw else if name = "QSW" then some Fr.qsw else resolveFrame name) = ofr
      cases ofr with
      | none => exact sep
      | some fr => exact key fr
    · exact sep

theorem getMans_sep {h0 h : Heap} (sep : Sep h0 h) {n : Nat} (hn : h0.length ≤ n) :
    Sep h0 (getMans h n).1 ∧ ∀ l, (getMans h n).2 = .ok l → ∀ c, (getMans h n).1[l]? = some c → (∀ t, c ≠ .man t) → h0.length ≤ l := by
  unfold getMans
  split
  · exact ⟨sep, fun l hl => by simp at hl⟩
  · rename_i s hs
    obtain ⟨hb, hd, hg⟩ := newSV sep hn hs
    have hlen : h0.length ≤ h.length := sep.pres.1
    split
    · rename_i l hl
      exact ⟨sep, fun l' hl' c hc hnm => by simp at hl'; subst hl'; exact newEntry sep hn hs hl hc hnm⟩
    · exact ⟨sep, fun l hl => by simp at hl⟩
    · refine ⟨(sep.al (.list []) (by simp [refsOf])).wr hd _ ?_, fun l hl _ _ _ => ?_⟩
      · intro x hx
        rcases refs_insert hx with h1 | h1
        · injection h1 with h1; subst h1; exact Good.new (by simp [alloc]; omega)
        · exact hg x h1
      · simp [alloc] at hl; omega

theorem readMan_sep {h0 h : Heap} (sep : Sep h0 h) {n : Nat} (hn : h0.length ≤ n) : Sep h0 (readMan h n).1 := by
  have := (getMans_sep sep hn).1
  unfold readMan
  split
  · rename_i h1 l he; rw [he] at this; exact this
  · rename_i h1 e he; rw [he] at this; exact this

theorem addMan_sep {h0 h : Heap} (sep : Sep h0 h) {n : Nat} (hn : h0.length ≤ n) (t : Nat) : Sep h0 (addMan h n t).1 := by
  have hm := getMans_sep sep hn
  unfold addMan
  split
  · rename_i h1 e he; rw [he] at hm; exact hm.1
  · rename_i h1 l he
    rw [he] at hm
    split
    · rename_i ms hc
      have hl : h0.length ≤ l := hm.2 l rfl _ hc (by intro t; simp)
      have hlen : h0.length ≤ h1.length := hm.1.pres.1
      have hgl := hm.1.closed l _ hl hc
      refine (hm.1.al (.man t) (by simp [refsOf])).wr hl _ ?_
      intro x hx
      have := mem_refs_list.mp hx
      simp at this
      rcases this with h2 | h2
      · exact hgl x (mem_refs_list.mpr h2)
      · subst h2; exact Good.new (by simp [alloc]; omega)
    · exact hm.1

theorem metaAppend_sep {h0 h : Heap} (sep : Sep h0 h) {n : Nat} (hn : h0.length ≤ n) (key : String) (x : Nat) :
    Sep h0 (metaAppend h n key x).1 := by
  unfold metaAppend
  split
  · exact sep
  · rename_i s hs
    split
    · rename_i l hl
      split
      · rename_i xs hc
        have hnew := newEntry sep hn hs hl hc (by intro t; simp)
        exact sep.wr hnew _ (refs_append_tok (sep.closed l _ hnew hc))
      · exact sep
    · exact sep

theorem metaSetItem_sep {h0 h : Heap} (sep : Sep h0 h) {n : Nat} (hn : h0.length ≤ n) (key : String) (x : Nat) :
    Sep h0 (metaSetItem h n key x).1 := by
  unfold metaSetItem
  split
  · exact sep
  · rename_i s hs
    split
    · rename_i d hl
      split
      · rename_i items hc
        have hnew := newEntry sep hn hs hl hc (by intro t; simp)
        exact sep.wr hnew _ (refs_insert_tok (sep.closed d _ hnew hc))
      · exact sep
    · exact sep
    · exact sep

theorem nestedAppend_sep {h0 h : Heap} (sep : Sep h0 h) {n : Nat} (hn : h0.length ≤ n) (x : Nat) :
    Sep h0 (nestedAppend h n x).1 := by
  unfold nestedAppend
  split
  · exact sep
  · rename_i s hs
    split
    · rename_i d hl
      split
      · rename_i items hc
        have hd := newEntry sep hn hs hl hc (by intro t; simp)
        split
        · rename_i l hk
          split
          · rename_i xs hcl
            have hgl : Good h0 l := sep.closed d _ hd hc l (mem_refs_dict.mpr ⟨"k", lookup_mem_items _ _ _ hk⟩)
            have hnew := Good.new_of_cell sep.pres hgl hcl (by intro t; simp)
            exact sep.wr hnew _ (refs_append_tok (sep.closed l _ hnew hcl))
          · exact sep
        · exact sep
      · exact sep
    · exact sep

theorem arrSet_sep {h0 h : Heap} (sep : Sep h0 h) {n : Nat} (hn : h0.length ≤ n) : Sep h0 (arrSet h n).1 := by
  unfold arrSet
  split
  · exact sep
  · rename_i s hs
    split
    · rename_i r hl
      split
      · rename_i t hc
        exact sep.wr (newEntry sep hn hs hl hc (by intro t; simp)) _ (by simp [refsOf])
      · exact sep
    · exact sep

theorem refs_insert_weak {k : String} {v : Ref} (hv : ∀ x, v ≠ .addr x) {items : Items} {P : Nat → Prop} (hg : ∀ x ∈ refsOf (.dict items), P x) :
    ∀ x ∈ refsOf (.dict (insert k v items)), P x := by
  intro x hx
  rcases refs_insert hx with h | h
  · exact absurd h (hv x)
  · exact hg x h

theorem readInfos_sep {h0 h : Heap} (sep : Sep h0 h) {n : Nat} (hn : h0.length ≤ n) : Sep h0 (readInfos h n).1 := by
  have key : ∀ t, Sep h0 (getInfos t h n).1 := by
    intro t
    unfold getInfos
    split
    · exact sep
    · rename_i s hs
      obtain ⟨_, hd, hg⟩ := newSV sep hn hs
      split
      · exact sep
      · exact (sep.al .clone (by simp [refsOf])).wr hd _ (refs_insert_weak (by intro x; simp) hg)
  have := key infosTest
  unfold readInfos
  split
  · rename_i h2 o he; rw [he] at this; exact this
  · rename_i h2 he; rw [he] at this; exact this

/-! ### `copy.deepcopy` -/

/-- `obj._data["maneuvers"] = r` on an object that is `Good` (new as soon as it is a state vector) with `r` new -/
theorem setMans_sep {h0 h : Heap} (sep : Sep h0 h) {x : Nat} (hx : Good h0 x) (r : Ref) (hr : ∀ y, r = .addr y → Good h0 y) :
    Sep h0 (setMans h x r) := by
  unfold setMans
  split
  · rename_i s hs
    obtain ⟨hc, _, _⟩ := getSV_cells h x s hs
    have hxn : h0.length ≤ x := Good.new_of_cell sep.pres hx hc (by intro t; simp)
    obtain ⟨_, hd, hg⟩ := newSV sep hxn hs
    refine sep.wr hd _ ?_
    intro y hy
    rcases refs_insert hy with h1 | h1
    · exact hr y h1
    · exact hg y h1
  · exact sep

/-- a deep copy in progress keeps the separation invariant (the memo may hold entries of an earlier call) -/
theorem deepRef_sep {h0 : Heap} (st : DState) (inv : DeepInv (Good h0) h0 st) (r : Ref) :
    DeepInv (Good h0) h0 (deepRef deepFuel st r).1 ∧ ∀ x, (deepRef deepFuel st r).2 = some (.addr x) → h0.length ≤ x :=
  deepRef_ok (P := Good h0) (h0 := h0) (fun _ hx => Good.new hx) deepFuel st r inv

theorem deepMansOf_sep {h0 : Heap} (st : DState) (inv : DeepInv (Good h0) h0 st) (ol : Option Nat) :
    DeepInv (Good h0) h0 (deepMansOf st ol).1 ∧ ∀ r y, (deepMansOf st ol).2 = some (some r) → r = .addr y → Good h0 y := by
  unfold deepMansOf
  split
  · rename_i l
    have hd := deepRef_sep st inv (.addr l)
    split
    · rename_i st' r he
      rw [he] at hd
      exact ⟨hd.1, fun r' y h1 h2 => by simp at h1; subst h1; subst h2; exact Good.new (hd.2 y rfl)⟩
    · rename_i st' he
      rw [he] at hd
      exact ⟨hd.1, fun r' y h1 _ => by simp at h1⟩
  · exact ⟨inv, fun r y h1 _ => by simp at h1⟩

theorem setMansOpt_sep {h0 h : Heap} (sep : Sep h0 h) (ox : Option Nat) (hx : ∀ x, ox = some x → Good h0 x) (r : Option Ref)
    (hr : ∀ r' y, r = some r' → r' = .addr y → Good h0 y) : Sep h0 (setMansOpt h ox r) := by
  unfold setMansOpt
  split
  · rename_i x r'
    exact setMans_sep sep (hx x rfl) r' (fun y hy => hr r' y rfl hy)
  · exact sep

end BeyondVerif.Heap
