import BeyondVerif.Model.CovHeap
/-!
Frame lemmas about the heap of `Cov` objects (Model/CovHeap.lean), for any matrix type:
an operation addressed to one object leaves the observable state (`Heap.view`: tag, `_orb_frame`,
private state copy, values) of every object that shares neither its memory nor its `_data` dict
unchanged; the objects made by `Cov(...)`, `Cov.copy`, pickling and by numpy with a fresh output
buffer share nothing with the objects that existed before; and the heap run, looked at through one
object, is the single-object run of Model/Cov.lean restricted to the operations addressed to it.
No Mathlib.
-/
namespace BeyondVerif.CovHeap
open BeyondVerif.Cov

set_option linter.unusedSectionVars false

variable {F D Mat Vec : Type} [DecidableEq F]

/-- two objects share neither the memory they look at nor their `_data` dict -/
def Sep (h : Heap F D Mat Vec) (i j : Nat) : Prop :=
  (h.obj i).buf ≠ (h.obj j).buf ∧ (h.obj i).data ≠ (h.obj j).data

/-- every cell named by an existing object has been allocated -/
structure WF (h : Heap F D Mat Vec) : Prop where
  buf : ∀ j, j < h.nobj → (h.obj j).buf < h.nbuf
  data : ∀ j, j < h.nobj → (h.obj j).data < h.ndata
  orb : ∀ k, k < h.ndata → (h.data k).orb < h.norb

/-- the view of `j` only depends on the cells `j` names -/
theorem view_congr (E : HEnv F D Mat Vec) (h h' : Heap F D Mat Vec) (j : Nat)
    (ho : h'.obj j = h.obj j) (hd : h'.data (h.obj j).data = h.data (h.obj j).data)
    (hc : h'.orb (h.data (h.obj j).data).orb = h.orb (h.data (h.obj j).data).orb)
    (hb : h'.buf (h.obj j).buf = h.buf (h.obj j).buf) : h'.view E j = h.view E j := by
  simp only [Heap.view, Heap.readMat, ho, hd, hc, hb]

/-- the single-object semantics of `obj.frame = t` on what is observed of the object, including
the case where the setter raises (nothing changes) -/
def View.set (E : HEnv F D Mat Vec) (v : View F D Mat Vec) (t : Tag F) : View F D Mat Vec :=
  if hopOk v t then
    { v with tag := (setFrame (E.at v.date) v.st t).tag, mat := (setFrame (E.at v.date) v.st t).mat }
  else v

theorem setFrame_same (E : Env F Mat Vec) (s : St F Mat Vec) (t : Tag F) (h : t = s.tag) : setFrame E s t = s := by
  unfold setFrame; rw [if_pos h]

theorem setFrame_tag (E : Env F Mat Vec) (s : St F Mat Vec) (t : Tag F) : (setFrame E s t).tag = t := by
  unfold setFrame
  split
  · rename_i h; exact h.symm
  · rfl

theorem hop_obj (E : HEnv F D Mat Vec) (h : Heap F D Mat Vec) (i : Nat) (t : Tag F) : (h.hop E i t).obj = h.obj := by
  unfold Heap.hop
  simp only
  split
  · rfl
  · split <;> rfl

theorem hop_counters (E : HEnv F D Mat Vec) (h : Heap F D Mat Vec) (i : Nat) (t : Tag F) :
    (h.hop E i t).nobj = h.nobj ∧ (h.hop E i t).nbuf = h.nbuf ∧ (h.hop E i t).ndata = h.ndata ∧ (h.hop E i t).norb = h.norb
      ∧ (h.hop E i t).orb = h.orb ∧ (h.hop E i t).sv = h.sv := by
  unfold Heap.hop
  simp only
  split
  · simp
  · split <;> simp

/-- **A frame change of one covariance leaves every separate covariance as it was** (tag, values,
`_orb_frame`, private state copy). -/
theorem hop_other (E : HEnv F D Mat Vec) (h : Heap F D Mat Vec) (i j : Nat) (t : Tag F) (hs : Sep h i j) :
    (h.hop E i t).view E j = h.view E j := by
  unfold Heap.hop
  simp only
  split
  · rfl
  · split
    · apply view_congr
      · rfl
      · exact upd_other _ _ (Ne.symm hs.2)
      · rfl
      · exact upd_other _ _ (Ne.symm hs.1)
    · rfl

/-- **What a frame change does to the object it is addressed to is the single-object setter**
(Model/Cov.lean) applied to what is observed of that object — whatever else is on the heap.
`htr`: transposition is an involution (a `.T` view writes through transposed strides). -/
theorem hop_self (E : HEnv F D Mat Vec) (htr : ∀ m, E.base.tr (E.base.tr m) = m) (h : Heap F D Mat Vec) (i : Nat) (t : Tag F) :
    (h.hop E i t).view E i = (h.view E i).set E t := by
  unfold Heap.hop View.set
  simp only
  by_cases h1 : t = (h.view E i).tag
  · rw [if_pos h1]
    have hok : hopOk (h.view E i) t = true := by simp [hopOk, h1]
    rw [if_pos hok, setFrame_same _ _ _ (show t = (h.view E i).st.tag from h1)]
    rfl
  · rw [if_neg h1]
    by_cases h2 : hopOk (h.view E i) t = true
    · rw [if_pos h2, if_pos h2, setFrame_tag]
      generalize setFrame (E.at (h.view E i).date) (h.view E i).st t = s
      simp only [Heap.view, Heap.readMat, upd_same]
      cases htrb : (h.obj i).tr
      · simp
      · simp [htr]
    · rw [if_neg h2, if_neg h2]

theorem sep_hop (E : HEnv F D Mat Vec) (h : Heap F D Mat Vec) (i : Nat) (t : Tag F) (a b : Nat) :
    Sep (h.hop E i t) a b ↔ Sep h a b := by
  unfold Sep; rw [hop_obj]

theorem wf_hop (E : HEnv F D Mat Vec) (h : Heap F D Mat Vec) (i : Nat) (t : Tag F) (hw : WF h) : WF (h.hop E i t) := by
  obtain ⟨c1, c2, c3, c4, c5, _⟩ := hop_counters E h i t
  refine ⟨fun j hj => ?_, fun j hj => ?_, fun k hk => ?_⟩
  · rw [hop_obj, c2]; exact hw.buf j (c1 ▸ hj)
  · rw [hop_obj, c3]; exact hw.data j (c1 ▸ hj)
  · rw [c4]
    have hk' : k < h.ndata := c3 ▸ hk
    unfold Heap.hop
    simp only
    split
    · exact hw.orb k hk'
    · split
      · simp only [upd]
        split
        · rename_i hkk; subst hkk; exact hw.orb _ hk'
        · exact hw.orb k hk'
      · exact hw.orb k hk'

/-- the targets addressed to object `j` in an interleaved sequence -/
def targetsOf (ops : List (Nat × Tag F)) (j : Nat) : List (Tag F) :=
  (ops.filter (fun op => op.1 == j)).map (·.2)

/-- **Interleaving does not matter**: run any sequence of frame assignments addressed to several
objects; what is then observed of object `j` is what the single-object setter produces from what
was observed of `j` at the start and the targets addressed to `j`, in their order — provided the
other objects addressed share neither memory nor dict with `j`. -/
theorem hops_project (E : HEnv F D Mat Vec) (htr : ∀ m, E.base.tr (E.base.tr m) = m) (ops : List (Nat × Tag F)) (j : Nat) :
    ∀ (h : Heap F D Mat Vec), (∀ op ∈ ops, op.1 ≠ j → Sep h op.1 j) →
      (h.hops E ops).view E j = (targetsOf ops j).foldl (View.set E) (h.view E j) := by
  induction ops with
  | nil => intro h _; rfl
  | cons op ops ih =>
    intro h hsep
    have hrest : ∀ op' ∈ ops, op'.1 ≠ j → Sep (h.hop E op.1 op.2) op'.1 j := by
      intro op' hm hne
      rw [sep_hop]
      exact hsep op' (List.mem_cons_of_mem _ hm) hne
    have := ih (h.hop E op.1 op.2) hrest
    simp only [Heap.hops, List.foldl_cons] at this ⊢
    rw [this]
    by_cases hj : op.1 = j
    · have : targetsOf (op :: ops) j = op.2 :: targetsOf ops j := by
        simp [targetsOf, hj]
      rw [this, List.foldl_cons, ← hj, hop_self E htr]
    · have : targetsOf (op :: ops) j = targetsOf ops j := by
        simp [targetsOf, hj]
      rw [this, hop_other E h op.1 j op.2 (hsep op (List.mem_cons_self) hj)]

/-- for an object that has its `_orb_frame` (made by `Cov(...)`, `Cov.copy`, unpickling) the
observed run IS `Cov.run` of Model/Cov.lean -/
theorem set_full (E : HEnv F D Mat Vec) (v : View F D Mat Vec) (t : Tag F) (f : F) (hf : v.orbFrame = some f) :
    (v.set E t).st = setFrame (E.at v.date) v.st t ∧ (v.set E t).orbFrame = some f ∧ (v.set E t).date = v.date := by
  have hok : hopOk v t = true := by simp [hopOk, hf]
  unfold View.set
  rw [if_pos hok]
  refine ⟨?_, hf, rfl⟩
  unfold setFrame
  by_cases h1 : t = v.st.tag
  · rw [if_pos h1]; rfl
  · rw [if_neg h1]
    simp only [View.st]

theorem foldl_set_full (E : HEnv F D Mat Vec) (ts : List (Tag F)) :
    ∀ (v : View F D Mat Vec) (f : F), v.orbFrame = some f →
      (ts.foldl (View.set E) v).st = run (E.at v.date) v.st ts ∧ (ts.foldl (View.set E) v).orbFrame = some f := by
  induction ts with
  | nil => intro v f hf; exact ⟨rfl, hf⟩
  | cons t ts ih =>
    intro v f hf
    obtain ⟨h1, h2, h3⟩ := set_full E v t f hf
    obtain ⟨i1, i2⟩ := ih (v.set E t) f h2
    simp only [List.foldl_cons, run]
    refine ⟨?_, i2⟩
    rw [i1, h1, h3]; rfl

/-! ### New objects share nothing with the old ones -/

/-- `Cov(sv, values, tag)` -/
theorem newCov_spec (E : HEnv F D Mat Vec) (h : Heap F D Mat Vec) (hw : WF h) (s : Nat) (tag : Tag F) (c : Mat) :
    let h' := h.newCov s tag c
    WF h' ∧ h'.nobj = h.nobj + 1 ∧ (∀ j, j < h.nobj → h'.view E j = h.view E j) ∧ (∀ j, j < h.nobj → Sep h' h.nobj j) ∧
    h'.view E h.nobj = { tag := tag, orbFrame := some (h.sv s).frame, date := (h.sv s).date, orbCur := (h.sv s).frame, orb := (h.sv s).x, mat := c } := by
  intro h'
  have hobj : ∀ j, j < h.nobj → h'.obj j = h.obj j := fun j hj => upd_other _ _ (Nat.ne_of_lt hj)
  refine ⟨⟨fun j hj => ?_, fun j hj => ?_, fun k hk => ?_⟩, rfl, fun j hj => ?_, fun j hj => ?_, ?_⟩
  · show (h'.obj j).buf < h.nbuf + 1
    by_cases hjn : j = h.nobj
    · subst hjn; simp [h', Heap.newCov]
    · have : j < h.nobj := Nat.lt_of_le_of_ne (Nat.lt_succ_iff.mp hj) hjn
      rw [hobj j this]; exact Nat.lt_succ_of_lt (hw.buf j this)
  · show (h'.obj j).data < h.ndata + 1
    by_cases hjn : j = h.nobj
    · subst hjn; simp [h', Heap.newCov]
    · have : j < h.nobj := Nat.lt_of_le_of_ne (Nat.lt_succ_iff.mp hj) hjn
      rw [hobj j this]; exact Nat.lt_succ_of_lt (hw.data j this)
  · show (h'.data k).orb < h.norb + 1
    by_cases hkn : k = h.ndata
    · subst hkn; simp [h', Heap.newCov]
    · have hk' : k < h.ndata := Nat.lt_of_le_of_ne (Nat.lt_succ_iff.mp hk) hkn
      have : h'.data k = h.data k := upd_other _ _ hkn
      rw [this]; exact Nat.lt_succ_of_lt (hw.orb k hk')
  · apply view_congr
    · exact hobj j hj
    · exact upd_other _ _ (Nat.ne_of_lt (hw.data j hj))
    · exact upd_other _ _ (Nat.ne_of_lt (hw.orb _ (hw.data j hj)))
    · exact upd_other _ _ (Nat.ne_of_lt (hw.buf j hj))
  · have e1 : h'.obj h.nobj = { buf := h.nbuf, tr := false, data := h.ndata, orbFrame := some (h.sv s).frame } := upd_same _ _ _
    unfold Sep
    rw [e1, hobj j hj]
    exact ⟨Ne.symm (Nat.ne_of_lt (hw.buf j hj)), Ne.symm (Nat.ne_of_lt (hw.data j hj))⟩
  · simp [h', Heap.newCov, Heap.view, Heap.readMat]

/-- what `__array_finalize__` gives an array numpy made, whichever memory it looks at: a dict of
its own holding the tag and the private copy of the template, the template's `_orb_frame`; nothing that existed changes -/
theorem finalize_spec (E : HEnv F D Mat Vec) (h : Heap F D Mat Vec) (hw : WF h) (i : Nat) (hi : i < h.nobj) (b : Nat) (tr : Bool) (hb : b < h.nbuf) :
    let h' := h.finalize i b tr
    WF h' ∧ h'.nobj = h.nobj + 1 ∧ (∀ j, j < h.nobj → h'.view E j = h.view E j) ∧
    (∀ j, j < h.nobj → (h'.obj h.nobj).data ≠ (h'.obj j).data) ∧
    (h'.view E h.nobj).tag = (h.view E i).tag ∧ (h'.view E h.nobj).orbFrame = (h.view E i).orbFrame ∧
    (h'.view E h.nobj).date = (h.view E i).date ∧ (h'.view E h.nobj).orbCur = (h.view E i).orbCur ∧ (h'.view E h.nobj).orb = (h.view E i).orb ∧
    (h'.obj h.nobj).buf = b := by
  intro h'
  have hobj : ∀ j, j < h.nobj → h'.obj j = h.obj j := fun j hj => upd_other _ _ (Nat.ne_of_lt hj)
  have e1 : h'.obj h.nobj = { buf := b, tr := tr, data := h.ndata, orbFrame := (h.obj i).orbFrame } := upd_same _ _ _
  have e2 : h'.data h.ndata = h.data (h.obj i).data := upd_same _ _ _
  refine ⟨⟨fun j hj => ?_, fun j hj => ?_, fun k hk => ?_⟩, rfl, fun j hj => ?_, fun j hj => ?_, ?_, ?_, ?_, ?_, ?_, ?_⟩
  · show (h'.obj j).buf < h.nbuf
    by_cases hjn : j = h.nobj
    · subst hjn; rw [e1]; exact hb
    · have : j < h.nobj := Nat.lt_of_le_of_ne (Nat.lt_succ_iff.mp hj) hjn
      rw [hobj j this]; exact hw.buf j this
  · show (h'.obj j).data < h.ndata + 1
    by_cases hjn : j = h.nobj
    · subst hjn; rw [e1]; exact Nat.lt_succ_self _
    · have : j < h.nobj := Nat.lt_of_le_of_ne (Nat.lt_succ_iff.mp hj) hjn
      rw [hobj j this]; exact Nat.lt_succ_of_lt (hw.data j this)
  · show (h'.data k).orb < h.norb
    by_cases hkn : k = h.ndata
    · subst hkn; rw [e2]; exact hw.orb _ (hw.data i hi)
    · have hk' : k < h.ndata := Nat.lt_of_le_of_ne (Nat.lt_succ_iff.mp hk) hkn
      have : h'.data k = h.data k := upd_other _ _ hkn
      rw [this]; exact hw.orb k hk'
  · apply view_congr
    · exact hobj j hj
    · exact upd_other _ _ (Nat.ne_of_lt (hw.data j hj))
    · rfl
    · rfl
  · rw [e1, hobj j hj]; exact Ne.symm (Nat.ne_of_lt (hw.data j hj))
  · simp only [Heap.view, e1, e2]
  · simp only [Heap.view, e1]
  · simp only [Heap.view, e1, e2]; rfl
  · simp only [Heap.view, e1, e2]; rfl
  · simp only [Heap.view, e1, e2]; rfl
  · rw [e1]

/-- **An array numpy derives from a covariance with a fresh output buffer** (`k * c`, `a + b`,
`np.array(c, subok=True)`, `copy.copy(c)`, …) **shares nothing observable with any covariance that
existed**: it is `Sep` from all of them, they are unchanged, and it carries the tag and the state
of its template. -/
theorem derive_spec (E : HEnv F D Mat Vec) (h : Heap F D Mat Vec) (hw : WF h) (i : Nat) (hi : i < h.nobj) (val : Mat) :
    let h' := h.derive i val
    WF h' ∧ h'.nobj = h.nobj + 1 ∧ (∀ j, j < h.nobj → h'.view E j = h.view E j) ∧ (∀ j, j < h.nobj → Sep h' h.nobj j) ∧
    h'.view E h.nobj = { h.view E i with mat := val } := by
  intro h'
  let h0 : Heap F D Mat Vec := { h with buf := upd h.buf h.nbuf val, nbuf := h.nbuf + 1 }
  have hw0 : WF h0 := ⟨fun j hj => Nat.lt_succ_of_lt (hw.buf j hj), hw.data, hw.orb⟩
  have hv0 : ∀ j, j < h.nobj → h0.view E j = h.view E j := by
    intro j hj
    apply view_congr
    · rfl
    · rfl
    · rfl
    · exact upd_other _ _ (Nat.ne_of_lt (hw.buf j hj))
  obtain ⟨w, n, old, dsep, t1, t2, t3, t4, t5, bb⟩ := finalize_spec E h0 hw0 i hi h.nbuf false (Nat.lt_succ_self _)
  have hobj : ∀ j, j < h.nobj → h'.obj j = h.obj j := fun j hj => upd_other _ _ (Nat.ne_of_lt hj)
  refine ⟨w, n, fun j hj => (old j hj).trans (hv0 j hj), fun j hj => ⟨?_, dsep j hj⟩, ?_⟩
  · show (h'.obj h.nobj).buf ≠ (h'.obj j).buf
    have : (h'.obj h.nobj).buf = h.nbuf := bb
    rw [this, hobj j hj]; exact Ne.symm (Nat.ne_of_lt (hw.buf j hj))
  · have e1 : h'.obj h.nobj = { buf := h.nbuf, tr := false, data := h.ndata, orbFrame := (h.obj i).orbFrame } := upd_same _ _ _
    have e2 : h'.data h.ndata = h.data (h.obj i).data := upd_same _ _ _
    have e3 : h'.buf h.nbuf = val := upd_same _ _ _
    simp only [Heap.view, Heap.readMat, e1, e2, e3]
    rfl

/-- a view (`c[:]`, `c.T`, …) looks at the memory of its base — this is numpy's definition of a
view — but has a dict of its own: assigning the frame of the view never relabels the base -/
theorem mkView_spec (E : HEnv F D Mat Vec) (h : Heap F D Mat Vec) (hw : WF h) (i : Nat) (hi : i < h.nobj) (flip : Bool) :
    let h' := h.mkView i flip
    WF h' ∧ (∀ j, j < h.nobj → h'.view E j = h.view E j) ∧ (∀ j, j < h.nobj → (h'.obj h.nobj).data ≠ (h'.obj j).data) ∧
    (h'.obj h.nobj).buf = (h.obj i).buf ∧ (h'.view E h.nobj).tag = (h.view E i).tag := by
  intro h'
  obtain ⟨w, _, old, dsep, t1, _, _, _, _, bb⟩ := finalize_spec E h hw i hi (h.obj i).buf (if flip then !(h.obj i).tr else (h.obj i).tr) (hw.buf i hi)
  exact ⟨w, old, dsep, bb, t1⟩

/-- `Cov.copy()` and unpickling: everything is new -/
theorem copyCov_spec (E : HEnv F D Mat Vec) (h : Heap F D Mat Vec) (hw : WF h) (i : Nat) :
    let h' := h.copyCov E i
    WF h' ∧ h'.nobj = h.nobj + 1 ∧ (∀ j, j < h.nobj → h'.view E j = h.view E j) ∧ (∀ j, j < h.nobj → Sep h' h.nobj j) ∧
    h'.view E h.nobj = { h.view E i with orbFrame := some (h.view E i).orbCur } := by
  intro h'
  have hobj : ∀ j, j < h.nobj → h'.obj j = h.obj j := fun j hj => upd_other _ _ (Nat.ne_of_lt hj)
  refine ⟨⟨fun j hj => ?_, fun j hj => ?_, fun k hk => ?_⟩, rfl, fun j hj => ?_, fun j hj => ?_, ?_⟩
  · show (h'.obj j).buf < h.nbuf + 1
    by_cases hjn : j = h.nobj
    · subst hjn; simp [h', Heap.copyCov]
    · have : j < h.nobj := Nat.lt_of_le_of_ne (Nat.lt_succ_iff.mp hj) hjn
      rw [hobj j this]; exact Nat.lt_succ_of_lt (hw.buf j this)
  · show (h'.obj j).data < h.ndata + 1
    by_cases hjn : j = h.nobj
    · subst hjn; simp [h', Heap.copyCov]
    · have : j < h.nobj := Nat.lt_of_le_of_ne (Nat.lt_succ_iff.mp hj) hjn
      rw [hobj j this]; exact Nat.lt_succ_of_lt (hw.data j this)
  · show (h'.data k).orb < h.norb + 1
    by_cases hkn : k = h.ndata
    · subst hkn; simp [h', Heap.copyCov]
    · have hk' : k < h.ndata := Nat.lt_of_le_of_ne (Nat.lt_succ_iff.mp hk) hkn
      have : h'.data k = h.data k := upd_other _ _ hkn
      rw [this]; exact Nat.lt_succ_of_lt (hw.orb k hk')
  · apply view_congr
    · exact hobj j hj
    · exact upd_other _ _ (Nat.ne_of_lt (hw.data j hj))
    · exact upd_other _ _ (Nat.ne_of_lt (hw.orb _ (hw.data j hj)))
    · exact upd_other _ _ (Nat.ne_of_lt (hw.buf j hj))
  · have e1 : h'.obj h.nobj = { buf := h.nbuf, tr := false, data := h.ndata, orbFrame := some (h.view E i).orbCur } := upd_same _ _ _
    unfold Sep
    rw [e1, hobj j hj]
    exact ⟨Ne.symm (Nat.ne_of_lt (hw.buf j hj)), Ne.symm (Nat.ne_of_lt (hw.data j hj))⟩
  · simp [h', Heap.copyCov, Heap.view, Heap.readMat]

theorem pickle_spec (E : HEnv F D Mat Vec) (h : Heap F D Mat Vec) (hw : WF h) (i : Nat) :
    let h' := h.pickle E i
    WF h' ∧ h'.nobj = h.nobj + 1 ∧ (∀ j, j < h.nobj → h'.view E j = h.view E j) ∧ (∀ j, j < h.nobj → Sep h' h.nobj j) ∧
    h'.view E h.nobj = h.view E i := by
  intro h'
  have hobj : ∀ j, j < h.nobj → h'.obj j = h.obj j := fun j hj => upd_other _ _ (Nat.ne_of_lt hj)
  refine ⟨⟨fun j hj => ?_, fun j hj => ?_, fun k hk => ?_⟩, rfl, fun j hj => ?_, fun j hj => ?_, ?_⟩
  · show (h'.obj j).buf < h.nbuf + 1
    by_cases hjn : j = h.nobj
    · subst hjn; simp [h', Heap.pickle]
    · have : j < h.nobj := Nat.lt_of_le_of_ne (Nat.lt_succ_iff.mp hj) hjn
      rw [hobj j this]; exact Nat.lt_succ_of_lt (hw.buf j this)
  · show (h'.obj j).data < h.ndata + 1
    by_cases hjn : j = h.nobj
    · subst hjn; simp [h', Heap.pickle]
    · have : j < h.nobj := Nat.lt_of_le_of_ne (Nat.lt_succ_iff.mp hj) hjn
      rw [hobj j this]; exact Nat.lt_succ_of_lt (hw.data j this)
  · show (h'.data k).orb < h.norb + 1
    by_cases hkn : k = h.ndata
    · subst hkn; simp [h', Heap.pickle]
    · have hk' : k < h.ndata := Nat.lt_of_le_of_ne (Nat.lt_succ_iff.mp hk) hkn
      have : h'.data k = h.data k := upd_other _ _ hkn
      rw [this]; exact Nat.lt_succ_of_lt (hw.orb k hk')
  · apply view_congr
    · exact hobj j hj
    · exact upd_other _ _ (Nat.ne_of_lt (hw.data j hj))
    · exact upd_other _ _ (Nat.ne_of_lt (hw.orb _ (hw.data j hj)))
    · exact upd_other _ _ (Nat.ne_of_lt (hw.buf j hj))
  · have e1 : h'.obj h.nobj = { buf := h.nbuf, tr := false, data := h.ndata, orbFrame := (h.view E i).orbFrame } := upd_same _ _ _
    unfold Sep
    rw [e1, hobj j hj]
    exact ⟨Ne.symm (Nat.ne_of_lt (hw.buf j hj)), Ne.symm (Nat.ne_of_lt (hw.data j hj))⟩
  · simp [h', Heap.pickle, Heap.view, Heap.readMat]

/-- an in-place numpy operation (`c *= k`) writes the memory of `c` only -/
theorem write_other (E : HEnv F D Mat Vec) (h : Heap F D Mat Vec) (i j : Nat) (g : Mat → Mat) (hs : Sep h i j) :
    (h.write E i g).view E j = h.view E j := by
  apply view_congr
  · rfl
  · rfl
  · rfl
  · exact upd_other _ _ (Ne.symm hs.1)

/-- `sv.cov = obj_i` re-seats the private copy of `obj_i` only -/
theorem attach_other (E : HEnv F D Mat Vec) (h : Heap F D Mat Vec) (hw : WF h) (s i j : Nat) (hj : j < h.nobj) (hs : Sep h i j) :
    (h.attach s i).view E j = h.view E j := by
  have hji : j ≠ i := fun e => hs.1 (e ▸ rfl)
  apply view_congr
  · exact upd_other _ _ hji
  · exact upd_other _ _ (Ne.symm hs.2)
  · exact upd_other _ _ (Nat.ne_of_lt (hw.orb _ (hw.data j hj)))
  · rfl

/-- `sv.cov = obj_i` changes neither the memory nor the dict any object names -/
theorem attach_obj (h : Heap F D Mat Vec) (s i k : Nat) :
    ((h.attach s i).obj k).buf = (h.obj k).buf ∧ ((h.attach s i).obj k).data = (h.obj k).data ∧ ((h.attach s i).obj k).tr = (h.obj k).tr := by
  simp only [Heap.attach, upd]
  split
  · next e => subst e; exact ⟨rfl, rfl, rfl⟩
  · exact ⟨rfl, rfl, rfl⟩

/-- **`sv.cov = obj_i`, looked at through `obj_i`, is `Cov.attach` of Model/Cov.lean**: the private copy becomes the
state as it is expressed now (its frame, its coordinates, its date) and `_orb_frame` the frame of that copy (since /repo
eca9727); tag and values are untouched.  This ties the single-object `attach` the theorems of Props/C14Attach.lean are
about to the heap operation the correspondence runs. -/
theorem attach_self (E : HEnv F D Mat Vec) (h : Heap F D Mat Vec) (s i : Nat) :
    ((h.attach s i).view E i).st = Cov.attach (h.view E i).st (h.sv s).frame (h.sv s).x ∧
    ((h.attach s i).view E i).date = (h.sv s).date ∧ ((h.attach s i).view E i).orbFrame = some (h.sv s).frame := by
  simp only [Heap.attach, Heap.view, upd_same, View.st, Cov.attach, Option.getD_some]
  exact ⟨rfl, trivial, trivial⟩

/-- `sv.frame = g` touches, among the covariances, at most the one attached to `sv` -/
theorem svHop_other (E : HEnv F D Mat Vec) (h : Heap F D Mat Vec) (s j : Nat) (g : F)
    (hs : ∀ i, (h.sv s).cov = some i → Sep h i j) : (h.svHop E s g).view E j = h.view E j := by
  unfold Heap.svHop
  simp only
  have h1v : ∀ (h1 : Heap F D Mat Vec), h1.buf = h.buf → h1.data = h.data → h1.orb = h.orb → h1.obj = h.obj → h1.view E j = h.view E j := by
    intro h1 a b c d
    simp only [Heap.view, Heap.readMat, a, b, c, d]
  cases hc : (h.sv s).cov with
  | none =>
    simp only
    split
    · exact h1v _ rfl rfl rfl rfl
    · rfl
  | some i =>
    simp only
    have hsep := hs i hc
    split
    · split
      · split
        · rw [hop_other]
          · exact h1v _ rfl rfl rfl rfl
          · exact hsep
        · rfl
      · exact h1v _ rfl rfl rfl rfl
    · split
      · split
        · exact hop_other E h i j _ hsep
        · rfl
      · rfl

/-- **A state frame change whose covariance cannot follow changes nothing** (since /repo 45ca5d0 the
state is put back): state, covariance and every other object are as before -/
theorem svHop_atomic (E : HEnv F D Mat Vec) (h : Heap F D Mat Vec) (s i : Nat) (g : F) (hc : (h.sv s).cov = some i)
    (ht : (h.view E i).tag = .frame (h.sv s).frame) (hno : hopOk (h.view E i) (.frame g) = false) : h.svHop E s g = h := by
  have key : ∀ (h1 : Heap F D Mat Vec), h1.view E i = h.view E i →
      (if (h1.view E i).tag = .frame (h.sv s).frame then (if hopOk (h1.view E i) (.frame g) then h1.hop E i (.frame g) else h) else h1) = h := by
    intro h1 e
    rw [e, if_pos ht]
    simp [hno]
  unfold Heap.svHop
  simp only [hc]
  apply key
  split <;> rfl

/-! ### In-place writes to a state the caller keeps using

A `Cov` never looks at the state object it was made for again: what it reads is its private copy.  So whatever the caller
writes into that state in place (components, another form, another date) is invisible to every covariance, now and after
any later sequence of frame changes. -/

/-- no covariance observes an in-place write to a state -/
theorem svSet_view (E : HEnv F D Mat Vec) (h : Heap F D Mat Vec) (s : Nat) (d : D) (x : Vec) (j : Nat) :
    (h.svSet s d x).view E j = h.view E j := rfl

theorem hop_eq_of_same (E : HEnv F D Mat Vec) (h : Heap F D Mat Vec) (i : Nat) (t : Tag F) (e : t = (h.view E i).tag) : h.hop E i t = h :=
  if_pos e

theorem hop_eq_of_refused (E : HEnv F D Mat Vec) (h : Heap F D Mat Vec) (i : Nat) (t : Tag F) (e : ¬ t = (h.view E i).tag)
    (e2 : ¬ hopOk (h.view E i) t = true) : h.hop E i t = h :=
  (if_neg e).trans (if_neg e2)

theorem hop_eq_of_done (E : HEnv F D Mat Vec) (h : Heap F D Mat Vec) (i : Nat) (t : Tag F) (e : ¬ t = (h.view E i).tag)
    (e2 : hopOk (h.view E i) t = true) :
    h.hop E i t = { h with buf := upd h.buf (h.obj i).buf (if (h.obj i).tr then E.base.tr (setFrame (E.at (h.view E i).date) (h.view E i).st t).mat
                                                             else (setFrame (E.at (h.view E i).date) (h.view E i).st t).mat),
                           data := upd h.data (h.obj i).data { h.data (h.obj i).data with tag := t } } :=
  (if_neg e).trans (if_pos e2)

/-- a frame change of a covariance and an in-place write to a state commute -/
theorem hop_svSet (E : HEnv F D Mat Vec) (h : Heap F D Mat Vec) (s i : Nat) (t : Tag F) (d : D) (x : Vec) :
    (h.svSet s d x).hop E i t = (h.hop E i t).svSet s d x := by
  by_cases h1 : t = (h.view E i).tag
  · rw [hop_eq_of_same E (h.svSet s d x) i t h1, hop_eq_of_same E h i t h1]
  · by_cases h2 : hopOk (h.view E i) t = true
    · rw [hop_eq_of_done E (h.svSet s d x) i t h1 h2, hop_eq_of_done E h i t h1 h2]; rfl
    · rw [hop_eq_of_refused E (h.svSet s d x) i t h1 h2, hop_eq_of_refused E h i t h1 h2]

theorem hops_svSet (E : HEnv F D Mat Vec) (h : Heap F D Mat Vec) (s : Nat) (d : D) (x : Vec) (ops : List (Nat × Tag F)) :
    (h.svSet s d x).hops E ops = (h.hops E ops).svSet s d x := by
  induction ops generalizing h with
  | nil => rfl
  | cons op rest ih =>
    show ((h.svSet s d x).hop E op.1 op.2).hops E rest = ((h.hop E op.1 op.2).hops E rest).svSet s d x
    rw [hop_svSet, ih]

/-- **A read after an in-place write to the state returns what it returns without the write**: after `sv[...] = …`,
`sv.form = …`, `sv.date = …` on the state a covariance was made for (or on any other state), every covariance is
observed, after every later sequence of frame changes of any covariances, exactly as if the write had not happened -/
theorem svSet_invisible (E : HEnv F D Mat Vec) (h : Heap F D Mat Vec) (s : Nat) (d : D) (x : Vec) (ops : List (Nat × Tag F)) (j : Nat) :
    ((h.svSet s d x).hops E ops).view E j = (h.hops E ops).view E j := by
  rw [hops_svSet]; rfl

/-! ### One statement for every operation -/

/-- the operations of the heap model (what the correspondence drives the real classes through) -/
inductive Op (F D Mat Vec : Type) where
  | hop (i : Nat) (t : Tag F)
  | svHop (s : Nat) (g : F)
  | svSet (s : Nat) (d : D) (x : Vec)
  | attach (s i : Nat)
  | write (i : Nat) (g : Mat → Mat)
  | newCov (s : Nat) (tag : Tag F) (c : Mat)
  | fromCov (s i : Nat)
  | map (i : Nat) (g : Mat → Mat)
  | map2 (i j : Nat) (g : Mat → Mat → Mat)
  | mkView (i : Nat) (flip : Bool)
  | copyCov (i : Nat)
  | pickle (i : Nat)

def Heap.step (E : HEnv F D Mat Vec) (h : Heap F D Mat Vec) : Op F D Mat Vec → Heap F D Mat Vec
  | .hop i t => h.hop E i t
  | .svHop s g => h.svHop E s g
  | .svSet s d x => h.svSet s d x
  | .attach s i => h.attach s i
  | .write i g => h.write E i g
  | .newCov s tag c => h.newCov s tag c
  | .fromCov s i => h.fromCov E s i
  | .map i g => h.map E i g
  | .map2 i j g => h.map2 E i j g
  | .mkView i flip => h.mkView i flip
  | .copyCov i => h.copyCov E i
  | .pickle i => h.pickle E i

/-- the operation names existing objects only -/
def Op.valid (h : Heap F D Mat Vec) : Op F D Mat Vec → Prop
  | .hop i _ => i < h.nobj
  | .svHop s _ => ∀ i, (h.sv s).cov = some i → i < h.nobj
  | .svSet _ _ _ => True
  | .attach _ i => i < h.nobj
  | .write i _ => i < h.nobj
  | .newCov _ _ _ => True
  | .fromCov _ i => i < h.nobj
  | .map i _ => i < h.nobj
  | .map2 i j _ => i < h.nobj ∧ j < h.nobj
  | .mkView i _ => i < h.nobj
  | .copyCov i => i < h.nobj
  | .pickle i => i < h.nobj

/-- the existing object whose cells the operation may write (none for the operations that only make a new object) -/
def Op.writes (h : Heap F D Mat Vec) : Op F D Mat Vec → Option Nat
  | .hop i _ => some i
  | .svHop s _ => (h.sv s).cov
  | .attach _ i => some i
  | .write i _ => some i
  | _ => none

/-- the operation does not make a numpy view -/
def Op.noView : Op F D Mat Vec → Prop
  | .mkView _ _ => False
  | _ => True

/-- all existing objects are pairwise separate -/
def AllSep (h : Heap F D Mat Vec) : Prop := ∀ a b, a < h.nobj → b < h.nobj → a ≠ b → Sep h a b

theorem wf_write (E : HEnv F D Mat Vec) (h : Heap F D Mat Vec) (i : Nat) (g : Mat → Mat) (hw : WF h) : WF (h.write E i g) :=
  ⟨hw.buf, hw.data, hw.orb⟩

theorem wf_attach (h : Heap F D Mat Vec) (s i : Nat) (hw : WF h) : WF (h.attach s i) := by
  refine ⟨fun j hj => (attach_obj h s i j).1 ▸ hw.buf j hj, fun j hj => (attach_obj h s i j).2.1 ▸ hw.data j hj, fun k hk => ?_⟩
  show ((h.attach s i).data k).orb < h.norb + 1
  simp only [Heap.attach, upd]
  split
  · exact Nat.lt_succ_self _
  · exact Nat.lt_succ_of_lt (hw.orb k hk)

theorem wf_svHop (E : HEnv F D Mat Vec) (h : Heap F D Mat Vec) (s : Nat) (g : F) (hw : WF h) : WF (h.svHop E s g) := by
  unfold Heap.svHop
  simp only
  have hw1 : ∀ (h1 : Heap F D Mat Vec), h1.buf = h.buf → h1.data = h.data → h1.orb = h.orb → h1.obj = h.obj →
      h1.nbuf = h.nbuf → h1.ndata = h.ndata → h1.norb = h.norb → h1.nobj = h.nobj → WF h1 := by
    intro h1 a b c d e f g' i
    exact ⟨fun j hj => by rw [d, e]; exact hw.buf j (i ▸ hj), fun j hj => by rw [d, f]; exact hw.data j (i ▸ hj),
           fun k hk => by rw [b, g']; exact hw.orb k (f ▸ hk)⟩
  cases (h.sv s).cov with
  | none =>
    simp only
    split
    · exact hw1 _ rfl rfl rfl rfl rfl rfl rfl rfl
    · exact hw
  | some i =>
    simp only
    split
    · split
      · split
        · exact wf_hop E _ i _ (hw1 _ rfl rfl rfl rfl rfl rfl rfl rfl)
        · exact hw
      · exact hw1 _ rfl rfl rfl rfl rfl rfl rfl rfl
    · split
      · split
        · exact wf_hop E _ i _ hw
        · exact hw
      · exact hw

theorem svHop_obj (E : HEnv F D Mat Vec) (h : Heap F D Mat Vec) (s : Nat) (g : F) :
    (h.svHop E s g).obj = h.obj ∧ (h.svHop E s g).nobj = h.nobj := by
  unfold Heap.svHop
  simp only
  cases (h.sv s).cov with
  | none => simp only; split <;> exact ⟨rfl, rfl⟩
  | some i =>
    simp only
    split
    · split
      · split
        · exact ⟨by rw [hop_obj], by rw [(hop_counters E _ i _).1]⟩
        · exact ⟨rfl, rfl⟩
      · exact ⟨rfl, rfl⟩
    · split
      · split
        · exact ⟨by rw [hop_obj], by rw [(hop_counters E _ i _).1]⟩
        · exact ⟨rfl, rfl⟩
      · exact ⟨rfl, rfl⟩

/-- well-formedness is an invariant of every operation -/
theorem step_wf (E : HEnv F D Mat Vec) (h : Heap F D Mat Vec) (hw : WF h) (op : Op F D Mat Vec) (hv : op.valid h) : WF (h.step E op) := by
  cases op with
  | hop i t => exact wf_hop E h i t hw
  | svHop s g => exact wf_svHop E h s g hw
  | svSet s d x => exact ⟨hw.buf, hw.data, hw.orb⟩
  | attach s i => exact wf_attach h s i hw
  | write i g => exact wf_write E h i g hw
  | newCov s tag c => exact (newCov_spec E h hw s tag c).1
  | fromCov s i => exact (newCov_spec E h hw s _ _).1
  | map i g => exact (derive_spec E h hw i hv _).1
  | map2 i j g => exact (derive_spec E h hw i hv.1 _).1
  | mkView i flip => exact (mkView_spec E h hw i hv flip).1
  | copyCov i => exact (copyCov_spec E h hw i).1
  | pickle i => exact (pickle_spec E h hw i).1

/-- **Operations on one covariance leave every other covariance's observable state unchanged**:
for EVERY operation of the model, every existing object `j` that shares neither memory nor dict
with the object the operation writes (if it writes one at all) is observed exactly as before —
tag, values, `_orb_frame`, private state copy. -/
theorem step_other (E : HEnv F D Mat Vec) (h : Heap F D Mat Vec) (hw : WF h) (op : Op F D Mat Vec) (hv : op.valid h)
    (j : Nat) (hj : j < h.nobj) (hs : ∀ i, op.writes h = some i → Sep h i j) : (h.step E op).view E j = h.view E j := by
  cases op with
  | hop i t => exact hop_other E h i j t (hs i rfl)
  | svHop s g => exact svHop_other E h s j g hs
  | svSet s d x => rfl
  | attach s i => exact attach_other E h hw s i j hj (hs i rfl)
  | write i g => exact write_other E h i j g (hs i rfl)
  | newCov s tag c => exact (newCov_spec E h hw s tag c).2.2.1 j hj
  | fromCov s i => exact (newCov_spec E h hw s _ _).2.2.1 j hj
  | map i g => exact (derive_spec E h hw i hv _).2.2.1 j hj
  | map2 i j' g => exact (derive_spec E h hw i hv.1 _).2.2.1 j hj
  | mkView i flip => exact (mkView_spec E h hw i hv flip).2.1 j hj
  | copyCov i => exact (copyCov_spec E h hw i).2.2.1 j hj
  | pickle i => exact (pickle_spec E h hw i).2.2.1 j hj

/-- pairwise separation is an invariant of every operation that does not make a numpy view: objects
made by `Cov(...)`, `Cov.copy`, unpickling and by numpy with a fresh output buffer never share
memory or dict with anything — so in a process that takes no views, `step_other` applies to every
pair of covariances at every moment -/
theorem step_allSep (E : HEnv F D Mat Vec) (h : Heap F D Mat Vec) (hw : WF h) (hall : AllSep h) (op : Op F D Mat Vec) (hv : op.valid h)
    (hnv : op.noView) : AllSep (h.step E op) := by
  -- operations that keep the object table
  have keep : ∀ (h' : Heap F D Mat Vec), h'.obj = h.obj → h'.nobj = h.nobj → AllSep h' := by
    intro h' ho hn a b ha hb hab
    unfold Sep; rw [ho]
    exact hall a b (hn ▸ ha) (hn ▸ hb) hab
  -- operations that add one object, separate from the old ones, and keep the old entries
  have grow : ∀ (h' : Heap F D Mat Vec), h'.nobj = h.nobj + 1 → (∀ k, k < h.nobj → h'.obj k = h.obj k) →
      (∀ k, k < h.nobj → Sep h' h.nobj k) → AllSep h' := by
    intro h' hn hold hnew a b ha hb hab
    rw [hn] at ha hb
    by_cases haN : a = h.nobj
    · have hbN : b < h.nobj := Nat.lt_of_le_of_ne (Nat.lt_succ_iff.mp hb) (fun e => hab (haN.trans e.symm))
      rw [haN]; exact hnew b hbN
    · have ha' : a < h.nobj := Nat.lt_of_le_of_ne (Nat.lt_succ_iff.mp ha) haN
      by_cases hbN : b = h.nobj
      · rw [hbN]; exact ⟨Ne.symm (hnew a ha').1, Ne.symm (hnew a ha').2⟩
      · have hb' : b < h.nobj := Nat.lt_of_le_of_ne (Nat.lt_succ_iff.mp hb) hbN
        unfold Sep; rw [hold a ha', hold b hb']
        exact hall a b ha' hb' hab
  have old : ∀ (o : Obj F) (k : Nat), k < h.nobj → upd h.obj h.nobj o k = h.obj k := fun o k hk => upd_other _ _ (Nat.ne_of_lt hk)
  cases op with
  | hop i t => exact keep _ (hop_obj E h i t) (hop_counters E h i t).1
  | svHop s g => exact keep _ (svHop_obj E h s g).1 (svHop_obj E h s g).2
  | svSet s d x => exact keep _ rfl rfl
  | attach s i =>
    intro a b ha hb hab
    unfold Sep
    show ((h.attach s i).obj a).buf ≠ ((h.attach s i).obj b).buf ∧ ((h.attach s i).obj a).data ≠ ((h.attach s i).obj b).data
    rw [(attach_obj h s i a).1, (attach_obj h s i b).1, (attach_obj h s i a).2.1, (attach_obj h s i b).2.1]
    exact hall a b ha hb hab
  | write i g => exact keep _ rfl rfl
  | newCov s tag c => exact grow _ rfl (old _) (newCov_spec E h hw s tag c).2.2.2.1
  | fromCov s i => exact grow _ rfl (old _) (newCov_spec E h hw s _ _).2.2.2.1
  | map i g => exact grow _ rfl (old _) (derive_spec E h hw i hv _).2.2.2.1
  | map2 i j g => exact grow _ rfl (old _) (derive_spec E h hw i hv.1 _).2.2.2.1
  | mkView i flip => exact absurd hnv id
  | copyCov i => exact grow _ rfl (old _) (copyCov_spec E h hw i).2.2.2.1
  | pickle i => exact grow _ rfl (old _) (pickle_spec E h hw i).2.2.2.1

end BeyondVerif.CovHeap
