import BeyondVerif.Generated.DkepR
import Mathlib.Analysis.SpecialFunctions.Trigonometric.Deriv
import Mathlib.Analysis.SpecialFunctions.Complex.Arg
import Mathlib.Tactic.Ring
import Mathlib.Tactic.FieldSimp
import Mathlib.Tactic.Linarith
import Mathlib.Tactic.LinearCombination

/-! Helper lemmas on the translated `dkep2dv` (Generated/DkepR.lean) for C17. -/
namespace BeyondVerif.Lemmas.Dkep
open BeyondVerif.R BeyondVerif.NumReal

variable (μ a i v da di dOmega : ℝ)

/-- the translated definitions in terms of `v_final` and `dangle` (definitional unfolding) -/
theorem dkepVFinal_eq : dkepVFinal μ a i v da di dOmega = v + dkepDvA μ a i v da di dOmega := rfl
theorem dkepDvA_eq : dkepDvA μ a i v da di dOmega = μ * da / (2 * v * a ^ 2) := rfl
theorem dkepDangle_eq : dkepDangle μ a i v da di dOmega = Real.sqrt (di ^ 2 + dOmega ^ 2 * Real.sin i ^ 2) := rfl
theorem dkepDvT_eq : dkepDvT μ a i v da di dOmega
    = dkepVFinal μ a i v da di dOmega * Real.cos (dkepDangle μ a i v da di dOmega) - v := rfl
theorem dkepDvW_eq : dkepDvW μ a i v da di dOmega
    = |dkepVFinal μ a i v da di dOmega * Real.sin (dkepDangle μ a i v da di dOmega)| := rfl

/-- law of cosines = Pythagoras on the two components of the rotated final velocity -/
theorem radicand (vf θ : ℝ) :
    v ^ 2 + vf ^ 2 - 2 * v * vf * Real.cos θ = (vf * Real.cos θ - v) ^ 2 + (vf * Real.sin θ) ^ 2 := by
  have := Real.sin_sq_add_cos_sq θ
  linear_combination (-(vf ^ 2)) * this

/-- with no plane change requested the rotation angle is 0 and the tangential part is `dv_a` -/
theorem dvT_pure_a : dkepDvT μ a i v da 0 0 = μ * da / (2 * v * a ^ 2) := by
  rw [dkepDvT_eq, dkepDangle_eq, dkepVFinal_eq, dkepDvA_eq]
  simp

/-- vis-viva solved for the semi-major axis: `a = µ / (2µ/r − s²)` for speed `s` at radius `r` -/
noncomputable def smaOfSpeed (μ r s : ℝ) : ℝ := μ / (2 * μ / r - s ^ 2)

theorem sma_hasDerivAt (r k : ℝ) (hE : 2 * μ / r - v ^ 2 ≠ 0) :
    HasDerivAt (fun x => smaOfSpeed μ r (v + k * x)) (2 * μ * v * k / (2 * μ / r - v ^ 2) ^ 2) 0 := by
  have hg : HasDerivAt (fun x : ℝ => v + k * x) k 0 := by
    simpa using ((hasDerivAt_id (0 : ℝ)).const_mul k).const_add v
  have hg2 : HasDerivAt (fun x : ℝ => (v + k * x) ^ 2) (2 * (v + k * 0) ^ 1 * k) 0 := by
    simpa using hg.fun_pow 2
  have hden : HasDerivAt (fun x : ℝ => 2 * μ / r - (v + k * x) ^ 2) (-(2 * (v + k * 0) ^ 1 * k)) 0 :=
    hg2.const_sub (2 * μ / r)
  have hne : 2 * μ / r - (v + k * 0) ^ 2 ≠ 0 := by simpa using hE
  have := (hasDerivAt_const (0 : ℝ) μ).div hden hne
  unfold smaOfSpeed
  refine this.congr_deriv ?_
  simp only [mul_zero, add_zero, pow_one]
  field_simp
  ring

/-- `dkep2aol`: at the prescribed argument of latitude `u`, `cos u` and `sin u` are the requested
`di` and `dΩ sin i` divided by the rotation angle `dangle` -/
theorem aol_cos_sin (h : di ≠ 0 ∨ dOmega * Real.sin i ≠ 0) :
    Real.cos (dkep2aol i di dOmega) * dkepDangle μ a i v da di dOmega = di ∧
    Real.sin (dkep2aol i di dOmega) * dkepDangle μ a i v da di dOmega = dOmega * Real.sin i := by
  have hz : (⟨di, dOmega * Real.sin i⟩ : ℂ) ≠ 0 := by
    intro h0
    have h1 := congrArg Complex.re h0
    have h2 := congrArg Complex.im h0
    simp at h1 h2
    rcases h with h | h
    · exact h h1
    · exact h (by simpa using h2)
  have hn : ‖(⟨di, dOmega * Real.sin i⟩ : ℂ)‖ = dkepDangle μ a i v da di dOmega := by
    rw [dkepDangle_eq, Complex.norm_def, Complex.normSq_mk]
    congr 1; ring
  have hn0 : ‖(⟨di, dOmega * Real.sin i⟩ : ℂ)‖ ≠ 0 := by simpa using hz
  unfold dkep2aol atan2
  rw [Complex.cos_arg hz, Complex.sin_arg, ← hn]
  constructor
  · simp only []; field_simp
  · simp only []; field_simp

end BeyondVerif.Lemmas.Dkep
