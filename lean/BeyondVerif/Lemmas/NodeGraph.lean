import BeyondVerif.Lemmas.NodeForestBuild

/-!
Routing in ARBITRARY graphs (cycles, repeated links, any order) — what the incremental tables of
`Node.__add__` / `Node._update` guarantee when the graph is not a forest.

* `GInv`  : the *descent* invariant.  Every table has unique keys, every direction is a neighbour, no node
  is its own neighbour, and every entry `(t, d, k)` of `u` has `t ≠ u`, `k ≥ 1` and either `d = t` or the
  table of `d` holds an entry for `t` with strictly fewer steps.  It is preserved by ONE table rebuild
  (`ginv_refresh`) whatever the state of the neighbours' tables, hence by `_update`, `link`, `build`.
  Consequence (`walk_desc`): the `while True` loop of `path` terminates, within `steps` hops, on a path
  without repeated node.
* `update_traverse` : the recursive `_update` as a depth-first traversal, for a generic invariant.
* `Complete` / `Sound` : after every history each table has an entry for exactly the connected targets
  (`link_complete`, `build_total`) — a route is always found.

The number of steps stored in a table may be stale (larger than the length of the walk actually taken,
which in turn may be larger than the graph distance: `Witness/C20.lean`).
-/
set_option linter.unusedSimpArgs false
set_option linter.unusedVariables false
namespace BeyondVerif.Node

/-! ### the descent invariant -/

def NoSelf (g : Graph) : Prop := ∀ u, u ∉ (get g u).nbrs

def KeysOk (g : Graph) : Prop := ∀ u, (keys (get g u).routes).Nodup

/-- every looked-up entry descends: the direction is the target, or holds an entry for it with fewer steps -/
def Desc (g : Graph) : Prop :=
  ∀ u t r, lookupRoute (get g u).routes t = some r →
    t ≠ u ∧ 1 ≤ r.steps ∧
      (r.dir = t ∨ ∃ r', lookupRoute (get g r.dir).routes t = some r' ∧ r'.steps < r.steps)

structure GInv (g : Graph) : Prop where
  dir : DirInv g
  noself : NoSelf g
  keys : KeysOk g
  desc : Desc g

theorem lookup_of_mem {g : Graph} (hk : KeysOk g) {u : Nat} {r : Route} (h : r ∈ (get g u).routes) :
    lookupRoute (get g u).routes r.target = some r := (mem_iff_lookupRoute (hk u) r).mp h

/-- **one table rebuild keeps the descent invariant** — whatever the neighbours' tables contain -/
theorem ginv_refresh {g : Graph} (hg : GInv g) (u : Nat) : GInv (refresh g u) := by
  have hspec := refreshRoutes_spec g u
  have hnu : u ∉ (get g u).nbrs := hg.noself u
  refine ⟨dirInv_refresh hg.dir u, ?_, ?_, ?_⟩
  · intro v; rw [get_refresh_nbrs]; exact hg.noself v
  · intro v
    rw [get_refresh_routes]
    split
    · exact hspec.1
    · exact hg.keys v
  · -- the new lookup at `u` is never worse than the old one
    have hmono : ∀ t r', lookupRoute (get g u).routes t = some r' →
        ∃ r'', lookupRoute (refreshRoutes g u) t = some r'' ∧ r''.steps ≤ r'.steps := by
      intro t r' hr'
      obtain ⟨htu, hst, hdesc⟩ := hg.desc u t r' hr'
      obtain ⟨hmem, htgt⟩ := lookupRoute_eq_some hr'
      have hdn : r'.dir ∈ (get g u).nbrs := hg.dir u r' hmem
      by_cases hn : t ∈ (get g u).nbrs
      · exact ⟨⟨t, t, 1⟩, hspec.2.1 t hn, hst⟩
      · have hdt : r'.dir ≠ t := fun e => hn (e ▸ hdn)
        rcases hdesc with hdesc | ⟨r3, hr3, hlt⟩
        · exact absurd hdesc hdt
        · obtain ⟨hm3, ht3⟩ := lookupRoute_eq_some hr3
          have hc : (r'.dir, r3.steps + 1) ∈ cands g u t := mem_cands.mpr ⟨_, hdn, r3, hm3, ht3, rfl⟩
          have hne : cands g u t ≠ [] := fun e => by rw [e] at hc; simp at hc
          obtain ⟨d, k, hl, _, hmin⟩ := (refreshRoutes_lookup_min g u t hn htu).2 hne
          refine ⟨_, hl, ?_⟩
          have := hmin _ hc
          simp only at this ⊢
          omega
    intro v t r hr
    rw [get_refresh_routes] at hr
    by_cases hvu : v = u
    · subst hvu
      rw [if_pos rfl] at hr
      by_cases hn : t ∈ (get g v).nbrs
      · rw [hspec.2.1 t hn] at hr
        cases hr
        exact ⟨fun e => hnu (e ▸ hn), Nat.le_refl 1, Or.inl rfl⟩
      · by_cases htu : t = v
        · subst htu
          rw [hspec.2.2.1 hn] at hr; cases hr
        · obtain ⟨hnil, hcons⟩ := refreshRoutes_lookup_min g v t hn htu
          by_cases hne : cands g v t = []
          · rw [hnil hne] at hr; cases hr
          · obtain ⟨d, k, hl, hdk, _⟩ := hcons hne
            rw [hl] at hr
            cases hr
            obtain ⟨d', hd', r0, hr0, hrt0, hpair⟩ := mem_cands.mp hdk
            simp only [Prod.mk.injEq] at hpair
            obtain ⟨rfl, rfl⟩ := hpair
            have hdv : d ≠ v := fun e => hnu (e ▸ hd')
            refine ⟨htu, by simp, Or.inr ⟨r0, ?_, by simp⟩⟩
            simp only
            rw [get_refresh_routes, if_neg hdv, ← hrt0]
            exact lookup_of_mem hg.keys hr0
    · rw [if_neg hvu] at hr
      obtain ⟨htv, hst, hdesc⟩ := hg.desc v t r hr
      refine ⟨htv, hst, ?_⟩
      rcases hdesc with hdesc | ⟨r', hr', hlt⟩
      · exact Or.inl hdesc
      · right
        rw [get_refresh_routes]
        by_cases hdu : r.dir = u
        · rw [if_pos hdu]
          rw [hdu] at hr'
          obtain ⟨r'', h1, h2⟩ := hmono t r' hr'
          exact ⟨r'', h1, by omega⟩
        · rw [if_neg hdu]; exact ⟨r', hr', hlt⟩

theorem ginv_update (fuel : Nat) (g : Graph) (vis : List Nat) (u : Nat) (g' : Graph) (vis' : List Nat)
    (hg : GInv g) (h : update fuel g vis u = some (g', vis')) : GInv g' :=
  update_preserves GInv (fun g u hg => ginv_refresh hg u) fuel g vis u g' vis' hg h

theorem ginv_preLink {g : Graph} (hg : GInv g) {a b : Nat} (hab : a ≠ b) : GInv (preLink g a b) := by
  refine ⟨?_, ?_, ?_, ?_⟩
  · intro u r hr
    rw [preLink_routes] at hr
    exact (preLink_nbrs g a b u r.dir).mpr (Or.inl (hg.dir u r hr))
  · intro u hu
    rcases (preLink_nbrs g a b u u).mp hu with h | ⟨h1, h2⟩ | ⟨h1, h2⟩
    · exact hg.noself u h
    · exact hab (h1.symm.trans h2)
    · exact hab (h2.symm.trans h1)
  · intro u; rw [preLink_routes]; exact hg.keys u
  · intro u t r hr
    rw [preLink_routes] at hr
    obtain ⟨h1, h2, h3⟩ := hg.desc u t r hr
    refine ⟨h1, h2, ?_⟩
    rcases h3 with h3 | ⟨r', hr', hlt⟩
    · exact Or.inl h3
    · exact Or.inr ⟨r', by rw [preLink_routes]; exact hr', hlt⟩

theorem ginv_link {fuel : Nat} {g g' : Graph} {a b : Nat} (hg : GInv g) (hab : a ≠ b)
    (hl : link fuel g a b = some g') : GInv g' := by
  rw [link_eq] at hl
  simp only [Option.map_eq_some_iff] at hl
  obtain ⟨⟨g1, vis⟩, hup, rfl⟩ := hl
  exact ginv_update fuel _ [] a g1 vis (ginv_preLink hg hab) hup

theorem ginv_nil : GInv ([] : Graph) := by
  refine ⟨?_, ?_, ?_, ?_⟩
  · intro u r hr; simp [get] at hr
  · intro u hu; simp [get] at hu
  · intro u; simp [get, keys]
  · intro u t r hr; simp [get, lookupRoute] at hr

/-- **after every history without self-link the descent invariant holds** (`rh`: latest link first) -/
theorem ginv_build (fuel : Nat) : ∀ (rh : List (Nat × Nat)) (g : Graph), (∀ e ∈ rh, e.1 ≠ e.2) →
    build fuel rh.reverse = some g → GInv g := by
  intro rh
  induction rh with
  | nil =>
    intro g _ hb
    simp [build] at hb
    subst hb
    exact ginv_nil
  | cons e rest ih =>
    obtain ⟨a, b⟩ := e
    intro g hns hb
    rw [List.reverse_cons, build_snoc] at hb
    cases hb0 : build fuel rest.reverse with
    | none => rw [hb0] at hb; cases hb
    | some g0 =>
      rw [hb0] at hb
      exact ginv_link (ih g0 (fun e he => hns e (List.mem_cons_of_mem _ he)) hb0)
        (hns (a, b) List.mem_cons_self) hb

/-! ### the walk terminates on a simple path -/

/-- with the descent invariant the loop of `path` returns, within `steps` hops, a list of distinct nodes each
of which (but the last, the goal) holds an entry for the goal with fewer steps than the start -/
theorem walk_desc {g : Graph} (hg : Desc g) (t : Nat) :
    ∀ (fuel cur : Nat) (acc : List Nat) (r : Route), lookupRoute (get g cur).routes t = some r →
      r.steps ≤ fuel →
      ∃ q, walk g t fuel cur acc = .ok (acc.reverse ++ q) ∧ q.getLast? = some t ∧ q.Nodup ∧
        q.length ≤ r.steps ∧
        ∀ x ∈ q, x = t ∨ ∃ rx, lookupRoute (get g x).routes t = some rx ∧ rx.steps < r.steps := by
  intro fuel
  induction fuel with
  | zero =>
    intro cur acc r hr hf
    have := (hg cur t r hr).2.1
    omega
  | succ fuel ih =>
    intro cur acc r hr hf
    obtain ⟨htc, hst, hdesc⟩ := hg cur t r hr
    unfold walk
    rw [hr]
    simp only
    by_cases hd : r.dir = t
    · rw [if_pos hd]
      refine ⟨[t], by simp [hd], by simp, by simp, by simpa using hst, ?_⟩
      intro x hx
      simp at hx
      exact Or.inl hx
    · rw [if_neg hd]
      rcases hdesc with hdesc | ⟨r', hr', hlt⟩
      · exact absurd hdesc hd
      · obtain ⟨q, hw, hlast, hnd, hlen, hall⟩ := ih r.dir (r.dir :: acc) r' hr' (by omega)
        refine ⟨r.dir :: q, by rw [hw]; simp, ?_, ?_, ?_, ?_⟩
        · cases q with
          | nil => simp at hlast
          | cons y ys => rw [List.getLast?_cons_cons]; exact hlast
        · rw [List.nodup_cons]
          refine ⟨?_, hnd⟩
          intro hm
          rcases hall _ hm with e | ⟨rx, hrx, hlt'⟩
          · exact hd e
          · rw [hr'] at hrx; cases hrx; omega
        · simp only [List.length_cons]; omega
        · intro x hx
          rcases List.mem_cons.mp hx with e | hx
          · subst e; exact Or.inr ⟨r', hr', hlt⟩
          · rcases hall x hx with e | ⟨rx, hrx, hlt'⟩
            · exact Or.inl e
            · exact Or.inr ⟨rx, hrx, by omega⟩

/-- the result of the loop does not depend on the fuel once it is at least the number of hops -/
theorem walk_enough (g : Graph) (t : Nat) :
    ∀ (fuel cur : Nat) (acc p : List Nat), walk g t fuel cur acc = .ok p →
      acc.length < p.length ∧ ∀ fuel', p.length ≤ fuel' + acc.length → walk g t fuel' cur acc = .ok p := by
  intro fuel
  induction fuel with
  | zero => intro cur acc p h; simp [walk] at h
  | succ fuel ih =>
    intro cur acc p h
    unfold walk at h
    split at h
    · cases h
    · next r hr =>
      split at h
      · next hd =>
        cases h
        refine ⟨by simp, ?_⟩
        intro fuel' hf
        simp only [List.length_reverse, List.length_cons] at hf
        obtain ⟨f, rfl⟩ : ∃ f, fuel' = f + 1 := ⟨fuel' - 1, by omega⟩
        unfold walk
        rw [hr]
        simp only
        rw [if_pos hd]
      · next hd =>
        obtain ⟨h1, h2⟩ := ih _ _ _ h
        simp only [List.length_cons] at h1 h2
        refine ⟨by omega, ?_⟩
        intro fuel' hf
        obtain ⟨f, rfl⟩ : ∃ f, fuel' = f + 1 := ⟨fuel' - 1, by omega⟩
        unfold walk
        rw [hr]
        simp only
        rw [if_neg hd]
        exact h2 f (by omega)

/-- **`path` on a graph with the descent invariant**: a table entry is enough — the loop terminates on a
path without repeated node; any fuel at least the number of hops gives that same path -/
theorem path_desc {g : Graph} (hg : Desc g) (s t : Nat) (r : Route) (hts : t ≠ s)
    (hr : lookupRoute (get g s).routes t = some r) :
    ∃ p, p.head? = some s ∧ p.getLast? = some t ∧ p.Nodup ∧ p.length ≤ r.steps + 1 ∧
      ∀ fuel', p.length ≤ fuel' + 1 → path fuel' g s t = .ok p := by
  obtain ⟨q, hw, hlast, hnd, hlen, hall⟩ := walk_desc hg t r.steps s [s] r hr (Nat.le_refl _)
  simp only [List.reverse_cons, List.reverse_nil, List.nil_append, List.singleton_append] at hw
  refine ⟨s :: q, rfl, ?_, ?_, by simp only [List.length_cons]; omega, ?_⟩
  · cases q with
    | nil => simp at hlast
    | cons y ys => rw [List.getLast?_cons_cons]; exact hlast
  · rw [List.nodup_cons]
    refine ⟨?_, hnd⟩
    intro hm
    rcases hall s hm with e | ⟨rx, hrx, hlt⟩
    · exact hts e.symm
    · rw [hr] at hrx; cases hrx; omega
  · intro fuel' hf
    unfold path
    rw [if_neg hts, hr]
    simp only
    exact (walk_enough g t _ s [s] _ hw).2 fuel' (by simpa using hf)

/-! ### the recursive `_update` as a depth-first traversal, for a generic invariant -/

/-- `N` is the (fixed) neighbour relation; `I g vis` the invariant; `Pre vis u` what must hold of `u` when
`_update` is entered at `u`.  If one table rebuild at an unvisited `u` satisfying `Pre` re-establishes `I` with
`u` marked, and every unvisited neighbour of a visited node satisfies `Pre`, then the whole traversal keeps `I`,
only adds to the visited list, visits `u`, and every newly visited node has all its neighbours visited. -/
theorem update_traverse (N : Nat → Nat → Prop) (I : Graph → List Nat → Prop) (Pre : List Nat → Nat → Prop)
    (hnb : ∀ g vis, I g vis → ∀ u v, v ∈ (get g u).nbrs ↔ N u v)
    (hstep : ∀ g vis u, I g vis → Pre vis u → u ∉ vis → I (refresh g u) (u :: vis))
    (hpre : ∀ vis u d, u ∈ vis → N u d → d ∉ vis → Pre vis d) :
    ∀ (fuel : Nat) (g : Graph) (vis : List Nat) (u : Nat) (g' : Graph) (vis' : List Nat),
      update fuel g vis u = some (g', vis') → I g vis → Pre vis u → u ∉ vis →
      I g' vis' ∧ (∀ v, v ∈ vis → v ∈ vis') ∧ u ∈ vis' ∧
        (∀ v, v ∈ vis' → v ∉ vis → ∀ w, N v w → w ∈ vis') := by
  intro fuel
  induction fuel with
  | zero => intro g vis u g' vis' hu; simp [update] at hu
  | succ fuel ih =>
    intro g vis u g' vis' hu inv hp hnv
    rw [update_succ] at hu
    have inv1 := hstep g vis u inv hp hnv
    have key : ∀ (l : List Nat) (g1 : Graph) (vis1 : List Nat) (g' : Graph) (vis' : List Nat),
        l.foldl (updStep fuel) (some (g1, vis1)) = some (g', vis') → I g1 vis1 → u ∈ vis1 →
        (∀ d ∈ l, N u d) →
        I g' vis' ∧ (∀ v, v ∈ vis1 → v ∈ vis') ∧ (∀ d ∈ l, d ∈ vis') ∧
          (∀ v, v ∈ vis' → v ∉ vis1 → ∀ w, N v w → w ∈ vis') := by
      intro l
      induction l with
      | nil =>
        intro g1 vis1 g' vis' hfold invk hu1 _
        simp only [List.foldl_nil, Option.some.injEq, Prod.mk.injEq] at hfold
        obtain ⟨rfl, rfl⟩ := hfold
        exact ⟨invk, fun v hv => hv, by simp, fun v hv hnv => absurd hv hnv⟩
      | cons d rest ihl =>
        intro g1 vis1 g' vis' hfold invk hu1 hl
        simp only [List.foldl_cons] at hfold
        have hlr : ∀ d ∈ rest, N u d := fun x hx => hl x (List.mem_cons_of_mem _ hx)
        by_cases hd : d ∈ vis1
        · rw [updStep_some_mem hd] at hfold
          obtain ⟨i1, i2, i3, i4⟩ := ihl g1 vis1 g' vis' hfold invk hu1 hlr
          refine ⟨i1, i2, ?_, i4⟩
          intro x hx
          rcases List.mem_cons.mp hx with hx | hx
          · subst hx; exact i2 _ hd
          · exact i3 x hx
        · rw [updStep_some_not_mem hd] at hfold
          cases hup : update fuel g1 vis1 d with
          | none => rw [hup, foldl_updStep_none] at hfold; cases hfold
          | some p =>
            obtain ⟨g2, vis2⟩ := p
            rw [hup] at hfold
            obtain ⟨j1, j2, j3, j4⟩ := ih g1 vis1 d g2 vis2 hup invk
              (hpre vis1 u d hu1 (hl d List.mem_cons_self) hd) hd
            obtain ⟨i1, i2, i3, i4⟩ := ihl g2 vis2 g' vis' hfold j1 (j2 _ hu1) hlr
            refine ⟨i1, fun v hv => i2 v (j2 v hv), ?_, ?_⟩
            · intro x hx
              rcases List.mem_cons.mp hx with hx | hx
              · subst hx; exact i2 _ j3
              · exact i3 x hx
            · intro v hv hnv w hw
              by_cases hv2 : v ∈ vis2
              · exact i2 _ (j4 v hv2 hnv w hw)
              · exact i4 v hv hv2 w hw
    have hnbu : ∀ d ∈ (get (refresh g u) u).nbrs, N u d :=
      fun d hd => (hnb _ _ inv1 u d).mp hd
    obtain ⟨i1, i2, i3, i4⟩ := key _ _ _ g' vis' hu inv1 List.mem_cons_self hnbu
    refine ⟨i1, fun v hv => i2 v (List.mem_cons_of_mem _ hv), i2 u List.mem_cons_self, ?_⟩
    intro v hv hnv' w hw
    by_cases hvu : v = u
    · subst hvu; exact i3 w ((hnb _ _ inv1 v w).mpr hw)
    · refine i4 v hv ?_ w hw
      intro hm
      rcases List.mem_cons.mp hm with e | e
      · exact hvu e
      · exact hnv' e

/-! ### every connected target has an entry, no other has -/

/-- the table of `u` has an entry for every other node connected to `u` by the links of `F` -/
def CompleteAt (F : List (Nat × Nat)) (g : Graph) (u : Nat) : Prop :=
  ∀ t, Conn F u t → t ≠ u → ∃ r, lookupRoute (get g u).routes t = some r

/-- every entry leads to a node connected to the owner -/
def Sound (F : List (Nat × Nat)) (g : Graph) : Prop :=
  ∀ u t r, lookupRoute (get g u).routes t = some r → Conn F u t

theorem sound_refresh {F : List (Nat × Nat)} {g : Graph} (hnb : NbrsOk F g) (hs : Sound F g) (u : Nat) :
    Sound F (refresh g u) := by
  intro v t r hr
  rw [get_refresh_routes] at hr
  by_cases hvu : v = u
  · subst hvu
    rw [if_pos rfl] at hr
    obtain ⟨hm, ht⟩ := lookupRoute_eq_some hr
    have hd := refreshRoutes_dir g v hm
    by_cases hn : t ∈ (get g v).nbrs
    · exact ((hnb v t).mp hn).conn
    · by_cases htv : t = v
      · subst htv; exact Conn.refl _ _
      · obtain ⟨hnil, hcons⟩ := refreshRoutes_lookup_min g v t hn htv
        by_cases hne : cands g v t = []
        · rw [hnil hne] at hr; cases hr
        · obtain ⟨d, k, _, hdk, _⟩ := hcons hne
          obtain ⟨d', hd', r0, hr0, hrt0, _⟩ := mem_cands.mp hdk
          have hk := nodup_keys_refreshRoutes g v
          -- `d'` is a neighbour holding an entry for `t`
          have : ∃ r1, lookupRoute (get g d').routes t = some r1 := by
            cases hl : lookupRoute (get g d').routes t with
            | none => exact absurd hrt0 (lookupRoute_eq_none hl r0 hr0)
            | some r1 => exact ⟨r1, rfl⟩
          obtain ⟨r1, hr1⟩ := this
          exact ((hnb v d').mp hd').conn.trans (hs d' t r1 hr1)
  · rw [if_neg hvu] at hr
    exact hs v t r hr

/-- state of the traversal started at `a` after inserting the link `a–b`: visited nodes have an entry for every
node of the merged component, the others still for every node of their old component -/
structure CInv (a b : Nat) (h : List (Nat × Nat)) (g : Graph) (vis : List Nat) : Prop where
  nb : NbrsOk ((a, b) :: h) g
  newC : ∀ v, v ∈ vis → CompleteAt ((a, b) :: h) g v
  oldC : ∀ v, v ∉ vis → CompleteAt h g v

/-- the entry point `a` with nothing visited, or a node with a visited neighbour -/
def CPre (a b : Nat) (h : List (Nat × Nat)) (vis : List Nat) (u : Nat) : Prop :=
  (u = a ∧ vis = []) ∨ ∃ p ∈ vis, Lk ((a, b) :: h) u p

theorem conn_head {F : List (Nat × Nat)} {u t : Nat} (hc : Conn F u t) (hne : t ≠ u) :
    ∃ d, Lk F u d ∧ Conn F d t := by
  rcases Relation.ReflTransGen.cases_head hc with e | ⟨d, hl, hc'⟩
  · exact absurd e.symm hne
  · exact ⟨d, hl, hc'⟩

theorem cinv_refresh {a b : Nat} {h : List (Nat × Nat)} {g : Graph} {vis : List Nat}
    (inv : CInv a b h g vis) {u : Nat} (hp : CPre a b h vis u) (hnv : u ∉ vis) :
    CInv a b h (refresh g u) (u :: vis) := by
  have hspec := refreshRoutes_spec g u
  have hu : CompleteAt ((a, b) :: h) (refresh g u) u := by
    intro t hc htu
    rw [get_refresh_routes, if_pos rfl]
    by_cases hn : t ∈ (get g u).nbrs
    · exact ⟨_, hspec.2.1 t hn⟩
    · -- some neighbour of `u` holds an entry for `t`
      have hex : ∃ d, d ∈ (get g u).nbrs ∧ ∃ r, lookupRoute (get g d).routes t = some r := by
        rcases hp with ⟨rfl, rfl⟩ | ⟨p, hpv, hlk⟩
        · have hold : ∀ d, Lk ((u, b) :: h) u d → Conn h d t →
              ∃ d, d ∈ (get g u).nbrs ∧ ∃ r, lookupRoute (get g d).routes t = some r := by
            intro d hl hdt
            have hdn : d ∈ (get g u).nbrs := (inv.nb u d).mpr hl
            have htd : t ≠ d := fun e => hn (e ▸ hdn)
            exact ⟨d, hdn, inv.oldC d (by simp) t hdt htd⟩
          rcases conn_cons.mp hc with h0 | ⟨_, h2⟩ | ⟨_, h2⟩
          · obtain ⟨d, hl, hdt⟩ := conn_head h0 htu
            exact hold d hl.mono hdt
          · exact hold b (lk_cons.mpr (Or.inr (Or.inl ⟨rfl, rfl⟩))) h2
          · obtain ⟨d, hl, hdt⟩ := conn_head h2 htu
            exact hold d hl.mono hdt
        · have hpn : p ∈ (get g u).nbrs := (inv.nb u p).mpr hlk
          have htp : t ≠ p := fun e => hn (e ▸ hpn)
          exact ⟨p, hpn, inv.newC p hpv t (hlk.symm.conn.trans hc) htp⟩
      obtain ⟨d, hdn, r, hr⟩ := hex
      obtain ⟨hm, ht⟩ := lookupRoute_eq_some hr
      have hc' : (d, r.steps + 1) ∈ cands g u t := mem_cands.mpr ⟨d, hdn, r, hm, ht, rfl⟩
      have hne : cands g u t ≠ [] := fun e => by rw [e] at hc'; simp at hc'
      obtain ⟨d', k, hl, _, _⟩ := (refreshRoutes_lookup_min g u t hn htu).2 hne
      exact ⟨_, hl⟩
  refine ⟨?_, ?_, ?_⟩
  · intro x y; rw [get_refresh_nbrs]; exact inv.nb x y
  · intro v hv
    rcases List.mem_cons.mp hv with e | hv
    · subst e; exact hu
    · have hvu : v ≠ u := fun e => hnv (e ▸ hv)
      intro t hc ht
      rw [get_refresh_routes, if_neg hvu]
      exact inv.newC v hv t hc ht
  · intro v hv t hc ht
    have hvu : v ≠ u := fun e => hv (e ▸ List.mem_cons_self)
    rw [get_refresh_routes, if_neg hvu]
    exact inv.oldC v (fun hm => hv (List.mem_cons_of_mem _ hm)) t hc ht

/-- **one link keeps the tables complete** — any graph: the link may close a cycle or repeat an existing link -/
theorem link_complete {a b : Nat} {h : List (Nat × Nat)} {fuel : Nat} {g g' : Graph}
    (hnb : NbrsOk h g) (hc : ∀ v, CompleteAt h g v) (hl : link fuel g a b = some g') :
    NbrsOk ((a, b) :: h) g' ∧ ∀ v, CompleteAt ((a, b) :: h) g' v := by
  rw [link_eq] at hl
  simp only [Option.map_eq_some_iff] at hl
  obtain ⟨⟨g1, vis⟩, hup, rfl⟩ := hl
  have inv0 : CInv a b h (preLink g a b) [] := by
    refine ⟨?_, ?_, ?_⟩
    · intro u v; rw [preLink_nbrs, lk_cons, hnb u v]
    · intro v hv; simp at hv
    · intro v _ t hct ht; rw [preLink_routes]; exact hc v t hct ht
  obtain ⟨inv, _, ha, hclosed⟩ := update_traverse (Lk ((a, b) :: h)) (CInv a b h) (CPre a b h)
    (fun g vis i => i.nb) (fun g vis u i hp hnv => cinv_refresh i hp hnv)
    (fun vis u d hu hl _ => Or.inr ⟨u, hu, hl.symm⟩) fuel _ _ _ _ _ hup inv0 (Or.inl ⟨rfl, rfl⟩) (by simp)
  have hall : ∀ v, Conn ((a, b) :: h) a v → v ∈ vis := by
    intro v hcv
    induction hcv with
    | refl => exact ha
    | tail _ hlk ih => exact hclosed _ ih (by simp) _ hlk
  refine ⟨inv.nb, ?_⟩
  intro v
  by_cases hv : v ∈ vis
  · exact inv.newC v hv
  · have hnc : ¬ Conn ((a, b) :: h) v a := fun hcv => hv (hall v hcv.symm)
    intro t hct ht
    exact inv.oldC v hv t ((conn_cons_outside hnc).mp hct) ht

theorem sound_link {a b : Nat} {h : List (Nat × Nat)} {fuel : Nat} {g g' : Graph}
    (hnb : NbrsOk h g) (hs : Sound h g) (hl : link fuel g a b = some g') : Sound ((a, b) :: h) g' := by
  rw [link_eq] at hl
  simp only [Option.map_eq_some_iff] at hl
  obtain ⟨⟨g1, vis⟩, hup, rfl⟩ := hl
  have hnb' : NbrsOk ((a, b) :: h) (preLink g a b) := by
    intro u v; rw [preLink_nbrs, lk_cons, hnb u v]
  have := update_preserves (fun x => NbrsOk ((a, b) :: h) x ∧ Sound ((a, b) :: h) x)
    (fun x u hx => ⟨fun p q => by rw [get_refresh_nbrs]; exact hx.1 p q, sound_refresh hx.1 hx.2 u⟩)
    fuel _ [] a g1 vis
    ⟨hnb', fun u t r hr => by rw [preLink_routes] at hr; exact (hs u t r hr).mono⟩ hup
  exact this.2

/-- **after EVERY history the tables hold an entry for exactly the connected targets** (`rh`: latest link first) -/
theorem build_total (fuel : Nat) : ∀ (rh : List (Nat × Nat)) (g : Graph),
    build fuel rh.reverse = some g → NbrsOk rh g ∧ (∀ v, CompleteAt rh g v) ∧ Sound rh g := by
  intro rh
  induction rh with
  | nil =>
    intro g hb
    simp [build] at hb
    subst hb
    refine ⟨exact_nil.1, ?_, ?_⟩
    · intro v t hc ht; exact absurd (conn_nil hc).symm ht
    · intro u t r hr; simp [get, lookupRoute] at hr
  | cons e rest ih =>
    obtain ⟨a, b⟩ := e
    intro g hb
    rw [List.reverse_cons, build_snoc] at hb
    cases hb0 : build fuel rest.reverse with
    | none => rw [hb0] at hb; cases hb
    | some g0 =>
      rw [hb0] at hb
      obtain ⟨h1, h2, h3⟩ := ih g0 hb0
      obtain ⟨k1, k2⟩ := link_complete h1 h2 hb
      exact ⟨k1, k2, sound_link h1 h3 hb⟩

/-- **enough fuel for any history**: every endpoint listed in `nodes`, `fuel ≥ nodes.length` -/
theorem build_some_any (nodes : List Nat) {fuel : Nat} (hfuel : nodes.length ≤ fuel) :
    ∀ (rh : List (Nat × Nat)), (∀ e ∈ rh, e.1 ∈ nodes ∧ e.2 ∈ nodes) →
      ∃ g, build fuel rh.reverse = some g := by
  intro rh
  induction rh with
  | nil => intro _; exact ⟨[], rfl⟩
  | cons e rest ih =>
    obtain ⟨a, b⟩ := e
    intro hn
    obtain ⟨g0, hb0⟩ := ih (fun e he => hn e (List.mem_cons_of_mem _ he))
    obtain ⟨g', hl⟩ := link_some nodes hn hfuel (build_total fuel rest g0 hb0).1
    exact ⟨g', by rw [List.reverse_cons, build_snoc, hb0]; exact hl⟩

end BeyondVerif.Node
