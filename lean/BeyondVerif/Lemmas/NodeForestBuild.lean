import BeyondVerif.Lemmas.NodeForest
import BeyondVerif.Model.NodeSpec

/-!
From one `link` to whole histories, and from exact tables to `path`.

* `link_exact` / `link_some` : inserting a link between two components of a forest whose tables are
  exact yields exact tables for the merged forest; `fuel ≥ number of nodes` suffices.
* `build_exact` / `build_some` : the same for a whole forest history.
* `path_of_exact` : with exact tables, `path` is a function of the forest alone (`pathSpec`).
-/
set_option linter.unusedSimpArgs false
set_option linter.unusedVariables false
namespace BeyondVerif.Node

/-- neighbour lists and tables of all nodes are exact for the forest `F` -/
def Exact (F : List (Nat × Nat)) (g : Graph) : Prop := NbrsOk F g ∧ ∀ v, TableExact F g v

/-- the two `neighbors[...] = None` assignments of `__add__` -/
def preLink (g : Graph) (a b : Nat) : Graph :=
  let sa := get g a
  let g := set g a { sa with nbrs := addNbr sa.nbrs b }
  let sb := get g b
  set g b { sb with nbrs := addNbr sb.nbrs a }

theorem link_eq (fuel : Nat) (g : Graph) (a b : Nat) :
    link fuel g a b = (update fuel (preLink g a b) [] a).map (·.1) := rfl

theorem mem_addNbr' {ns : List Nat} {v x : Nat} : x ∈ addNbr ns v ↔ x ∈ ns ∨ x = v := by
  unfold addNbr
  split
  · next h =>
    have hv : v ∈ ns := by simpa using h
    constructor
    · intro hx; exact Or.inl hx
    · rintro (hx | hx)
      · exact hx
      · exact hx ▸ hv
  · simp

theorem preLink_nbrs (g : Graph) (a b u v : Nat) :
    v ∈ (get (preLink g a b) u).nbrs ↔ v ∈ (get g u).nbrs ∨ (u = a ∧ v = b) ∨ (u = b ∧ v = a) := by
  unfold preLink
  simp only
  rw [get_set]
  by_cases hub : u = b
  · subst hub
    simp only [if_true]
    rw [mem_addNbr', get_set]
    by_cases hua : u = a
    · subst hua; simp only [if_true]; rw [mem_addNbr']; tauto
    · simp only [hua, if_false]; tauto
  · simp only [hub, if_false]
    rw [get_set]
    by_cases hua : u = a
    · subst hua; simp only [if_true]; rw [mem_addNbr']; tauto
    · simp only [hua, if_false]; tauto

theorem preLink_routes (g : Graph) (a b u : Nat) :
    (get (preLink g a b) u).routes = (get g u).routes := by
  unfold preLink
  simp only
  rw [get_set]
  split
  · next h =>
    subst h
    simp only
    rw [get_set]; split
    · next h' => subst h'; rfl
    · rfl
  · rw [get_set]; split
    · next h' => subst h'; rfl
    · rfl

theorem isSpec_outside {a b : Nat} {h : List (Nat × Nat)} {v : Nat} (hv : ¬ Conn ((a, b) :: h) v a)
    (r : Route) : IsSpec ((a, b) :: h) v r ↔ IsSpec h v r := by
  constructor
  · rintro ⟨h1, h2, h3, h4⟩
    have hc : Conn h v r.target := (conn_cons_outside hv).mp h1
    rw [hop_old hc] at h3
    rw [dist_old hc] at h4
    exact ⟨hc, h2, h3, h4⟩
  · exact IsSpec.mono

/-- **one link preserves exactness** (forest case) -/
theorem link_exact {a b : Nat} {h : List (Nat × Nat)} (hf : Forest ((a, b) :: h)) {fuel : Nat}
    {g g' : Graph} (hex : Exact h g) (hl : link fuel g a b = some g') : Exact ((a, b) :: h) g' := by
  rw [link_eq] at hl
  simp only [Option.map_eq_some_iff] at hl
  obtain ⟨⟨g1, vis⟩, hup, rfl⟩ := hl
  have inv0 : TInv a b h (preLink g a b) [] := by
    refine ⟨?_, ?_, ?_, ?_⟩
    · intro u v; rw [preLink_nbrs, lk_cons, hex.1 u v]
    · intro v hv; simp at hv
    · intro v _ r; rw [preLink_routes]; exact hex.2 v r
    · intro v hv; simp at hv
  obtain ⟨inv, _, ha, hclosed⟩ := update_inv hf fuel _ _ _ _ _ hup inv0 (Conn.refl _ _) (Or.inl rfl)
  have hall : ∀ v, Conn ((a, b) :: h) a v → v ∈ vis := by
    intro v hc
    induction hc with
    | refl => exact ha
    | tail _ hlk ih => exact hclosed _ ih (by simp) _ hlk
  refine ⟨inv.nb, ?_⟩
  intro v
  by_cases hv : v ∈ vis
  · exact inv.newE v hv
  · have hnc : ¬ Conn ((a, b) :: h) v a := fun hc => hv (hall v hc.symm)
    intro r
    rw [isSpec_outside hnc]
    exact inv.oldE v hv r

/-- **the traversal of one `link` visits exactly the merged component of `a`, each node once** -/
theorem link_visits {a b : Nat} {h : List (Nat × Nat)} (hf : Forest ((a, b) :: h)) {fuel : Nat}
    {g g' : Graph} {vis : List Nat} (hex : Exact h g)
    (hup : update fuel (preLink g a b) [] a = some (g', vis)) :
    vis.Nodup ∧ ∀ v, v ∈ vis ↔ Conn ((a, b) :: h) a v := by
  have inv0 : TInv a b h (preLink g a b) [] := by
    refine ⟨?_, ?_, ?_, ?_⟩
    · intro u v; rw [preLink_nbrs, lk_cons, hex.1 u v]
    · intro v hv; simp at hv
    · intro v _ r; rw [preLink_routes]; exact hex.2 v r
    · intro v hv; simp at hv
  obtain ⟨inv, _, ha, hclosed⟩ := update_inv hf fuel _ _ _ _ _ hup inv0 (Conn.refl _ _) (Or.inl rfl)
  refine ⟨update_nodup fuel _ _ _ _ _ hup (by simp) List.nodup_nil, ?_⟩
  intro v
  constructor
  · intro hv; exact (inv.anc v hv).1.symm
  · intro hc
    induction hc with
    | refl => exact ha
    | tail _ hlk ih => exact hclosed _ ih (by simp) _ hlk

/-- **enough fuel for one link**: every endpoint is listed in `nodes` and `fuel ≥ nodes.length` -/
theorem link_some {a b : Nat} {h : List (Nat × Nat)} (nodes : List Nat)
    (hnodes : ∀ e ∈ (a, b) :: h, e.1 ∈ nodes ∧ e.2 ∈ nodes) {fuel : Nat} (hfuel : nodes.length ≤ fuel)
    {g : Graph} (hnb : NbrsOk h g) : ∃ g', link fuel g a b = some g' := by
  rw [link_eq]
  have hn1 : ∀ x d, d ∈ (get (preLink g a b) x).nbrs → d ∈ nodes := by
    intro x d hd
    rw [preLink_nbrs, hnb x d] at hd
    have hlk : Lk ((a, b) :: h) x d := lk_cons.mpr hd
    rcases hlk with hm | hm
    · exact (hnodes _ hm).2
    · exact (hnodes _ hm).1
  have ha : a ∈ nodes := (hnodes (a, b) List.mem_cons_self).1
  obtain ⟨g', vis', hup, _⟩ := update_some nodes fuel (preLink g a b) [] a hn1 ha (by simp)
    (by rw [meas_nil]; exact hfuel)
  exact ⟨g', by rw [hup]; rfl⟩

theorem build_snoc (fuel : Nat) (hist : List (Nat × Nat)) (e : Nat × Nat) :
    build fuel (hist ++ [e]) = (build fuel hist).bind (fun g => link fuel g e.1 e.2) := by
  simp [build, List.foldl_append]

theorem exact_nil : Exact [] [] := by
  refine ⟨?_, ?_⟩
  · intro u v
    simp [get, lk_nil]
  · intro v r
    constructor
    · intro hr; simp [get] at hr
    · rintro ⟨h1, h2, _, _⟩; exact absurd (conn_nil h1) h2

/-- **every forest history builds exact tables** (`rh` is the history latest link first) -/
theorem build_exact (fuel : Nat) : ∀ (rh : List (Nat × Nat)) (g : Graph), Forest rh →
    build fuel rh.reverse = some g → Exact rh g := by
  intro rh
  induction rh with
  | nil =>
    intro g _ hb
    simp [build] at hb
    subst hb
    exact exact_nil
  | cons e rest ih =>
    obtain ⟨a, b⟩ := e
    intro g hf hb
    rw [List.reverse_cons, build_snoc] at hb
    cases hb0 : build fuel rest.reverse with
    | none => rw [hb0] at hb; cases hb
    | some g0 =>
      rw [hb0] at hb
      exact link_exact hf (ih g0 hf.2 hb0) hb

/-- **enough fuel for a whole forest history** -/
theorem build_some (nodes : List Nat) {fuel : Nat} (hfuel : nodes.length ≤ fuel) :
    ∀ (rh : List (Nat × Nat)), Forest rh → (∀ e ∈ rh, e.1 ∈ nodes ∧ e.2 ∈ nodes) →
      ∃ g, build fuel rh.reverse = some g := by
  intro rh
  induction rh with
  | nil => intro _ _; exact ⟨[], rfl⟩
  | cons e rest ih =>
    obtain ⟨a, b⟩ := e
    intro hf hn
    obtain ⟨g0, hb0⟩ := ih hf.2 (fun e he => hn e (List.mem_cons_of_mem _ he))
    have hex := build_exact fuel rest g0 hf.2 hb0
    obtain ⟨g', hl⟩ := link_some nodes hn hfuel hex.1
    exact ⟨g', by rw [List.reverse_cons, build_snoc, hb0]; exact hl⟩

/-! ### `path` on exact tables -/

/-- the nodes after `u` on the chain from `u` to `t` (`k` hops) -/
noncomputable def chainTo (F : List (Nat × Nat)) (t : Nat) : Nat → Nat → List Nat
  | 0, _ => []
  | k + 1, u => hop F u t :: chainTo F t k (hop F u t)

open Classical in
/-- what `path` returns on exact tables, as a function of the forest only -/
noncomputable def pathSpec (F : List (Nat × Nat)) (fuel s t : Nat) : PathRes :=
  if t = s then .ok [s]
  else if Conn F s t then
    (if fuel < dist F s t then .loop else .ok (s :: chainTo F t (dist F s t) s))
  else .unknown

theorem dist_pos {F : List (Nat × Nat)} (hf : Forest F) {u t : Nat} (hc : Conn F u t) (hne : u ≠ t) :
    0 < dist F u t := by
  have := (tree_step hf hc hne).2; omega

theorem walk_of_exact {F : List (Nat × Nat)} (hf : Forest F) {g : Graph} (hex : Exact F g) (t : Nat) :
    ∀ (fuel cur : Nat) (acc : List Nat), Conn F cur t → cur ≠ t →
      walk g t fuel cur acc =
        if fuel < dist F cur t then .loop else .ok (acc.reverse ++ chainTo F t (dist F cur t) cur) := by
  intro fuel
  induction fuel with
  | zero =>
    intro cur acc hc hne
    rw [if_pos (dist_pos hf hc hne)]; rfl
  | succ fuel ih =>
    intro cur acc hc hne
    unfold walk
    rw [lookup_of_exact (hex.2 cur) t, specLookup_pos hc hne]
    simp only
    obtain ⟨hlk, hd⟩ := tree_step hf hc hne
    by_cases hw : hop F cur t = t
    · rw [if_pos hw]
      rw [hw, dist_self] at hd
      rw [hd, if_neg (by omega)]
      simp [chainTo, hw]
    · rw [if_neg hw, ih _ _ (tree_hop_conn hf hc hne) hw, hd]
      by_cases hfl : fuel < dist F (hop F cur t) t
      · rw [if_pos hfl, if_pos (by omega)]
      · rw [if_neg hfl, if_neg (by omega)]
        simp [chainTo]

/-- with exact tables, `path` depends on the forest only -/
theorem path_of_exact {F : List (Nat × Nat)} (hf : Forest F) {g : Graph} (hex : Exact F g)
    (fuel s t : Nat) : path fuel g s t = pathSpec F fuel s t := by
  unfold path pathSpec
  by_cases hts : t = s
  · rw [if_pos hts, if_pos hts]
  · rw [if_neg hts, if_neg hts, lookup_of_exact (hex.2 s) t]
    have hst : s ≠ t := fun e => hts e.symm
    by_cases hc : Conn F s t
    · rw [specLookup_pos hc hst, if_pos hc]
      simp only
      rw [walk_of_exact hf hex t fuel s [s] hc hst]
      simp
    · rw [specLookup_neg (fun hh => hc hh.1), if_neg hc]

/-- the chain is what it should be: links only, ends at `t`, distances strictly decrease -/
theorem chainTo_props {F : List (Nat × Nat)} (hf : Forest F) (t : Nat) :
    ∀ (k u : Nat), Conn F u t → dist F u t = k →
      (∀ x ∈ chainTo F t k u, dist F x t < k) ∧ (chainTo F t k u).Nodup ∧
      (u :: chainTo F t k u).getLast? = some t ∧ (u :: chainTo F t k u).IsChain (Lk F) ∧
      (chainTo F t k u).length = k := by
  intro k
  induction k with
  | zero =>
    intro u hc hd
    have hut : u = t := by
      by_contra hne
      have := dist_pos hf hc hne; omega
    subst hut
    simp [chainTo]
  | succ k ih =>
    intro u hc hd
    have hne : u ≠ t := by
      intro e; subst e; rw [dist_self] at hd; omega
    obtain ⟨hlk, hstep⟩ := tree_step hf hc hne
    obtain ⟨i1, i2, i3, i4, i5⟩ := ih (hop F u t) (tree_hop_conn hf hc hne) (by omega)
    refine ⟨?_, ?_, ?_, ?_, ?_⟩
    · intro x hx
      simp only [chainTo, List.mem_cons] at hx
      rcases hx with hx | hx
      · subst hx; omega
      · have := i1 x hx; omega
    · simp only [chainTo, List.nodup_cons]
      refine ⟨?_, i2⟩
      intro hm
      have := i1 _ hm; omega
    · simp only [chainTo, List.getLast?_cons_cons]; exact i3
    · simp only [chainTo]; exact List.IsChain.cons_cons hlk i4
    · simp [chainTo, i5]

theorem pathChain_props {F : List (Nat × Nat)} (hf : Forest F) {s t : Nat} (hc : Conn F s t) :
    (s :: chainTo F t (dist F s t) s).head? = some s ∧
    (s :: chainTo F t (dist F s t) s).getLast? = some t ∧
    (s :: chainTo F t (dist F s t) s).IsChain (Lk F) ∧
    (s :: chainTo F t (dist F s t) s).Nodup ∧
    (s :: chainTo F t (dist F s t) s).length = dist F s t + 1 := by
  obtain ⟨i1, i2, i3, i4, i5⟩ := chainTo_props hf t _ s hc rfl
  refine ⟨rfl, i3, i4, ?_, by simp [i5]⟩
  rw [List.nodup_cons]
  refine ⟨?_, i2⟩
  intro hm
  have := i1 _ hm; omega

end BeyondVerif.Node
