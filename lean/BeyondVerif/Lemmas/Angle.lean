import BeyondVerif.NumReal
import Mathlib.Analysis.SpecialFunctions.Trigonometric.Angle
import Mathlib.Analysis.SpecialFunctions.Trigonometric.Bounds
import Mathlib.Tactic.Ring
import Mathlib.Tactic.FieldSimp
import Mathlib.Tactic.Linarith
import Mathlib.Tactic.Positivity
import Mathlib.Tactic.LinearCombination

/-!
Angles as points of the circle: `AngEq x y` (same cosine and same sine), the behaviour of
`atan2 y x := Complex.arg ⟨x, y⟩` and of Python's `%` (`fmod`) with respect to it.
Used by the C01 round-trip theorems.
-/
namespace BeyondVerif.Ang
open BeyondVerif.NumReal

/-- `x` and `y` are the same point of the circle -/
def AngEq (x y : ℝ) : Prop := Real.cos x = Real.cos y ∧ Real.sin x = Real.sin y

theorem AngEq.refl (x : ℝ) : AngEq x x := ⟨rfl, rfl⟩
theorem AngEq.symm {x y : ℝ} (h : AngEq x y) : AngEq y x := ⟨h.1.symm, h.2.symm⟩
theorem AngEq.trans {x y z : ℝ} (h : AngEq x y) (h' : AngEq y z) : AngEq x z := ⟨h.1.trans h'.1, h.2.trans h'.2⟩

theorem AngEq.add {a b c d : ℝ} (h : AngEq a b) (h' : AngEq c d) : AngEq (a + c) (b + d) := by
  unfold AngEq at *
  rw [Real.cos_add, Real.cos_add, Real.sin_add, Real.sin_add, h.1, h.2, h'.1, h'.2]
  exact ⟨rfl, rfl⟩

theorem AngEq.neg {a b : ℝ} (h : AngEq a b) : AngEq (-a) (-b) := by
  unfold AngEq at *
  rw [Real.cos_neg, Real.cos_neg, Real.sin_neg, Real.sin_neg, h.1, h.2]
  exact ⟨rfl, rfl⟩

theorem AngEq.sub {a b c d : ℝ} (h : AngEq a b) (h' : AngEq c d) : AngEq (a - c) (b - d) := by
  rw [sub_eq_add_neg, sub_eq_add_neg]; exact h.add h'.neg

/-- two equal points of the circle differ by a whole number of turns -/
theorem AngEq.exists_int {x y : ℝ} (h : AngEq x y) : ∃ k : ℤ, x - y = 2 * Real.pi * k :=
  Real.Angle.angle_eq_iff_two_pi_dvd_sub.mp (Real.Angle.cos_sin_inj h.1 h.2)

/-- representatives in the same half-open turn are equal -/
theorem AngEq.eq_of_mem_Ico {x y lo : ℝ} (h : AngEq x y) (hx : lo ≤ x ∧ x < lo + 2 * Real.pi)
    (hy : lo ≤ y ∧ y < lo + 2 * Real.pi) : x = y := by
  obtain ⟨k, hk⟩ := h.exists_int
  have hpi := Real.pi_pos
  have h1 : (k : ℝ) < 1 := by
    by_contra hc
    rw [not_lt] at hc
    nlinarith
  have h2 : (-1 : ℝ) < k := by
    by_contra hc
    rw [not_lt] at hc
    nlinarith
  have hk0 : k = 0 := by
    have h1' : k < 1 := by exact_mod_cast h1
    have h2' : -1 < k := by exact_mod_cast h2
    omega
  subst hk0
  simp at hk
  linarith

/-- same for the half-open turn `(lo, lo + 2π]` (the range of `atan2`) -/
theorem AngEq.eq_of_mem_Ioc {x y lo : ℝ} (h : AngEq x y) (hx : lo < x ∧ x ≤ lo + 2 * Real.pi)
    (hy : lo < y ∧ y ≤ lo + 2 * Real.pi) : x = y := by
  obtain ⟨k, hk⟩ := h.exists_int
  have hpi := Real.pi_pos
  have h1 : (k : ℝ) < 1 := by
    by_contra hc
    rw [not_lt] at hc
    nlinarith
  have h2 : (-1 : ℝ) < k := by
    by_contra hc
    rw [not_lt] at hc
    nlinarith
  have hk0 : k = 0 := by
    have h1' : k < 1 := by exact_mod_cast h1
    have h2' : -1 < k := by exact_mod_cast h2
    omega
  subst hk0
  simp at hk
  linarith

/-! ### Python's `%` by a full turn -/

theorem fmod_two_pi_angEq (x : ℝ) : AngEq (fmod x (2 * pi)) x := by
  unfold fmod AngEq
  have h : x - 2 * pi * (⌊x / (2 * pi)⌋ : ℤ) = x - (⌊x / (2 * pi)⌋ : ℤ) * (2 * Real.pi) := by ring
  rw [h, Real.cos_sub_int_mul_two_pi, Real.sin_sub_int_mul_two_pi]
  exact ⟨rfl, rfl⟩

theorem fmod_pi_two_angEq (x : ℝ) : AngEq (fmod x (pi * 2)) x := by
  rw [mul_comm]; exact fmod_two_pi_angEq x

theorem fmod_mem {x m : ℝ} (hm : 0 < m) : 0 ≤ fmod x m ∧ fmod x m < m := by
  unfold fmod
  have h1 := Int.floor_le (x / m)
  have h2 := Int.lt_floor_add_one (x / m)
  have h3 : x / m * m = x := by field_simp
  constructor
  · nlinarith
  · nlinarith

theorem fmod_eq_self {x m : ℝ} (hm : 0 < m) (h0 : 0 ≤ x) (h1 : x < m) : fmod x m = x := by
  unfold fmod
  have : ⌊x / m⌋ = 0 := by
    rw [Int.floor_eq_iff]
    constructor
    · simp; positivity
    · simp; rw [div_lt_one hm]; exact h1
  rw [this]; simp

theorem two_pi_pos : (0 : ℝ) < 2 * pi := by have := Real.pi_pos; simp only [pi]; linarith

/-- `(x % 2π)` is the representative of `x` in `[0, 2π)`; it is `x` itself when `x` is already there -/
theorem fmod_two_pi_eq_of_angEq {x y : ℝ} (h : AngEq x y) (hy : 0 ≤ y ∧ y < 2 * Real.pi) : fmod x (2 * pi) = y := by
  have hm := fmod_mem (x := x) two_pi_pos
  refine AngEq.eq_of_mem_Ico (lo := 0) ((fmod_two_pi_angEq x).trans h) ⟨hm.1, by simpa using hm.2⟩ ⟨hy.1, by simpa using hy.2⟩

/-! ### `atan2` -/

theorem norm_mk (x y : ℝ) : ‖(⟨x, y⟩ : ℂ)‖ = Real.sqrt (x ^ 2 + y ^ 2) := by
  rw [Complex.norm_def, Complex.normSq_mk]; congr 1; ring

theorem cos_atan2 {x y : ℝ} (h : x ^ 2 + y ^ 2 ≠ 0) : Real.cos (atan2 y x) = x / Real.sqrt (x ^ 2 + y ^ 2) := by
  unfold atan2
  have hne : (⟨x, y⟩ : ℂ) ≠ 0 := by
    intro h0
    have hx : x = 0 := by simpa using congrArg Complex.re h0
    have hy : y = 0 := by simpa using congrArg Complex.im h0
    exact h (by rw [hx, hy]; ring)
  rw [Complex.cos_arg hne, norm_mk]

theorem sin_atan2 (x y : ℝ) : Real.sin (atan2 y x) = y / Real.sqrt (x ^ 2 + y ^ 2) := by
  unfold atan2
  rw [Complex.sin_arg, norm_mk]

theorem atan2_mem (x y : ℝ) : -Real.pi < atan2 y x ∧ atan2 y x ≤ Real.pi :=
  ⟨Complex.neg_pi_lt_arg _, Complex.arg_le_pi _⟩

/-- `atan2 (k sin w) (k cos w)` is the angle `w` for every `k > 0` -/
theorem atan2_scaled {k w : ℝ} (hk : 0 < k) : AngEq (atan2 (k * Real.sin w) (k * Real.cos w)) w := by
  have hsq : (k * Real.cos w) ^ 2 + (k * Real.sin w) ^ 2 = k ^ 2 := by
    have := Real.sin_sq_add_cos_sq w
    nlinarith
  have hs : Real.sqrt ((k * Real.cos w) ^ 2 + (k * Real.sin w) ^ 2) = k := by
    rw [hsq, Real.sqrt_sq hk.le]
  constructor
  · rw [cos_atan2 (by rw [hsq]; positivity), hs]; field_simp
  · rw [sin_atan2, hs]; field_simp

/-- if `c² + s² = 1` then `atan2 s c` has cosine `c` and sine `s` -/
theorem atan2_unit {c s : ℝ} (h : c ^ 2 + s ^ 2 = 1) : Real.cos (atan2 s c) = c ∧ Real.sin (atan2 s c) = s := by
  constructor
  · rw [cos_atan2 (by rw [h]; norm_num), h, Real.sqrt_one, div_one]
  · rw [sin_atan2, h, Real.sqrt_one, div_one]

/-- general form: `atan2 y x` has cosine `x/ρ` and sine `y/ρ` for any `ρ > 0` with `ρ² = x² + y²` -/
theorem atan2_of_norm {x y ρ : ℝ} (hρ : 0 < ρ) (h : ρ ^ 2 = x ^ 2 + y ^ 2) :
    Real.cos (atan2 y x) = x / ρ ∧ Real.sin (atan2 y x) = y / ρ := by
  have hs : Real.sqrt (x ^ 2 + y ^ 2) = ρ := by rw [← h, Real.sqrt_sq hρ.le]
  constructor
  · rw [cos_atan2 (by rw [← h]; positivity), hs]
  · rw [sin_atan2, hs]

theorem atan2_sin_cos (w : ℝ) : AngEq (atan2 (Real.sin w) (Real.cos w)) w := by
  simpa using atan2_scaled (k := 1) (w := w) one_pos

theorem sqrt_ecs (e w : ℝ) (he : 0 ≤ e) : Real.sqrt ((e * Real.cos w) ^ 2 + (e * Real.sin w) ^ 2) = e := by
  have : (e * Real.cos w) ^ 2 + (e * Real.sin w) ^ 2 = e ^ 2 := by
    linear_combination (e ^ 2) * Real.sin_sq_add_cos_sq w
  rw [this, Real.sqrt_sq he]

theorem atan2_div_norm {x y : ℝ} (h : x ^ 2 + y ^ 2 ≠ 0) :
    Real.sqrt (x ^ 2 + y ^ 2) * Real.cos (atan2 (y / Real.sqrt (x ^ 2 + y ^ 2)) (x / Real.sqrt (x ^ 2 + y ^ 2))) = x ∧
    Real.sqrt (x ^ 2 + y ^ 2) * Real.sin (atan2 (y / Real.sqrt (x ^ 2 + y ^ 2)) (x / Real.sqrt (x ^ 2 + y ^ 2))) = y := by
  have hpos : 0 < x ^ 2 + y ^ 2 := lt_of_le_of_ne (by positivity) (Ne.symm h)
  have hρ : 0 < Real.sqrt (x ^ 2 + y ^ 2) := Real.sqrt_pos.mpr hpos
  have hsq : Real.sqrt (x ^ 2 + y ^ 2) ^ 2 = x ^ 2 + y ^ 2 := Real.sq_sqrt hpos.le
  generalize Real.sqrt (x ^ 2 + y ^ 2) = ρ at *
  have hu : (x / ρ) ^ 2 + (y / ρ) ^ 2 = 1 := by field_simp; linarith
  obtain ⟨h1, h2⟩ := atan2_unit hu
  rw [h1, h2]; constructor <;> field_simp

end BeyondVerif.Ang
