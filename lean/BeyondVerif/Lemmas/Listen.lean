/-
Helper lemmas for C10: signs of integers, the bisection invariant, the stable insertion sort.
-/
import BeyondVerif.Model.Listen
import Mathlib.Tactic.Linarith
namespace BeyondVerif.Listen

/-! ### signs -/

theorem sign_cases (x : Int) :
    (x < 0 ∧ Int.sign x = -1) ∨ (x = 0 ∧ Int.sign x = 0) ∨ (0 < x ∧ Int.sign x = 1) := by
  rcases Int.lt_trichotomy x 0 with h | h | h
  · exact Or.inl ⟨h, Int.sign_eq_neg_one_of_neg h⟩
  · exact Or.inr (Or.inl ⟨h, by simp [h]⟩)
  · exact Or.inr (Or.inr ⟨h, Int.sign_eq_one_of_pos h⟩)

theorem sign_eq_of_mul_pos {x y : Int} (h : 0 < x * y) : Int.sign y = Int.sign x ∧ x ≠ 0 := by
  rcases sign_cases x with ⟨hx, sx⟩ | ⟨hx, sx⟩ | ⟨hx, sx⟩ <;>
  rcases sign_cases y with ⟨hy, sy⟩ | ⟨hy, sy⟩ | ⟨hy, sy⟩ <;>
  first
    | (subst hx; simp at h)
    | (subst hy; simp at h)
    | (exfalso; nlinarith)
    | (constructor <;> omega)

theorem mul_nonpos_of_sign_ne {x y : Int} (h : Int.sign x ≠ Int.sign y) : x * y ≤ 0 := by
  rcases sign_cases x with ⟨hx, sx⟩ | ⟨hx, sx⟩ | ⟨hx, sx⟩ <;>
  rcases sign_cases y with ⟨hy, sy⟩ | ⟨hy, sy⟩ | ⟨hy, sy⟩ <;>
  first
    | (exfalso; apply h; omega)
    | (subst hx; simp)
    | (subst hy; simp)
    | nlinarith

theorem mul_nonpos_of_sign_eq {x y z : Int} (h : Int.sign y = Int.sign x) (hz : x * z ≤ 0) : y * z ≤ 0 := by
  rcases sign_cases x with ⟨hx, sx⟩ | ⟨hx, sx⟩ | ⟨hx, sx⟩ <;>
  rcases sign_cases y with ⟨hy, sy⟩ | ⟨hy, sy⟩ | ⟨hy, sy⟩ <;>
  first
    | (exfalso; omega)
    | (subst hy; simp)
    | nlinarith

/-- strict version: a non-zero value and a product ≤ 0 mean the other value is on the other side or zero -/
theorem sign_ne_of_mul_nonpos {x y : Int} (hx : x ≠ 0) (h : x * y ≤ 0) : Int.sign y ≠ Int.sign x := by
  rcases sign_cases x with ⟨hx', sx⟩ | ⟨hx', sx⟩ | ⟨hx', sx⟩ <;>
  rcases sign_cases y with ⟨hy, sy⟩ | ⟨hy, sy⟩ | ⟨hy, sy⟩ <;>
  first
    | (exfalso; exact hx hx')
    | (exfalso; nlinarith)
    | omega

/-! ### bisection -/

theorem bisect2wf_unfold_left {f : Int → Int} {b e : Int} (h1 : 1 ≤ (halfEven (e - b)).natAbs)
    (h2 : 0 < f b * f (b + halfEven (e - b))) : bisect2wf f b e = bisect2wf f (b + halfEven (e - b)) e := by
  rw [bisect2wf]; simp [h1, h2]

theorem bisect2wf_unfold_right {f : Int → Int} {b e : Int} (h1 : 1 ≤ (halfEven (e - b)).natAbs)
    (h2 : ¬ 0 < f b * f (b + halfEven (e - b))) : bisect2wf f b e = bisect2wf f b (b + halfEven (e - b)) := by
  rw [bisect2wf]; simp [h1, h2]

theorem bisect2wf_unfold_stop {f : Int → Int} {b e : Int} (h1 : ¬ 1 ≤ (halfEven (e - b)).natAbs) :
    bisect2wf f b e = (b, e) := by
  rw [bisect2wf]; simp [h1]

/-- the invariant of the `while` loop of `_bisect` -/
theorem bisect2wf_spec (f : Int → Int) (b e : Int) :
    (b ≤ e → b ≤ (bisect2wf f b e).1 ∧ (bisect2wf f b e).2 ≤ e ∧ (bisect2wf f b e).2 - (bisect2wf f b e).1 ≤ 1 ∧
        (bisect2wf f b e).1 ≤ (bisect2wf f b e).2 ∧ (b < e → (bisect2wf f b e).1 < (bisect2wf f b e).2)) ∧
    (e ≤ b → e ≤ (bisect2wf f b e).2 ∧ (bisect2wf f b e).1 ≤ b ∧ (bisect2wf f b e).1 - (bisect2wf f b e).2 ≤ 1 ∧
        (bisect2wf f b e).2 ≤ (bisect2wf f b e).1 ∧ (e < b → (bisect2wf f b e).2 < (bisect2wf f b e).1)) ∧
    Int.sign (f (bisect2wf f b e).1) = Int.sign (f b) ∧
    (f b * f e ≤ 0 → f (bisect2wf f b e).1 * f (bisect2wf f b e).2 ≤ 0) := by
  fun_induction bisect2wf f b e with
  | case1 b e h1 h2 ih =>
    have hs := halfEven_spec (e - b)
    obtain ⟨ih1, ih2, ih3, ih4⟩ := ih
    have hsg := sign_eq_of_mul_pos h2
    refine ⟨fun hbe => ?_, fun hbe => ?_, ?_, fun hp => ?_⟩
    · have := ih1 (by omega); omega
    · have := ih2 (by omega); omega
    · rw [ih3]; exact hsg.1
    · exact ih4 (mul_nonpos_of_sign_eq hsg.1 hp)
  | case2 b e h1 h2 ih =>
    have hs := halfEven_spec (e - b)
    obtain ⟨ih1, ih2, ih3, ih4⟩ := ih
    refine ⟨fun hbe => ?_, fun hbe => ?_, ih3, fun _ => ?_⟩
    · have := ih1 (by omega); omega
    · have := ih2 (by omega); omega
    · exact ih4 (by omega)
  | case3 b e h1 =>
    have hs := halfEven_spec (e - b)
    refine ⟨fun hbe => ?_, fun hbe => ?_, rfl, fun hp => hp⟩ <;> simp only <;> omega

/-- the loop of `_bisect` is entered at most `log2 |end − begin| + 1` times: `2^passes + 2 ≤ 2·|end − begin|` -/
theorem bisectStepsWf_bound (f : Int → Int) (b e : Int) :
    bisectStepsWf f b e = 0 ∨ 2 ^ bisectStepsWf f b e + 2 ≤ 2 * (e - b).natAbs := by
  fun_induction bisectStepsWf f b e with
  | case1 b e h1 h2 ih =>
    have hs := halfEven_spec (e - b)
    right
    rcases ih with ih | ih
    · rw [ih]; simp; omega
    · rw [pow_succ]; omega
  | case2 b e h1 h2 ih =>
    have hs := halfEven_spec (e - b)
    right
    rcases ih with ih | ih
    · rw [ih]; simp; omega
    · rw [pow_succ]; omega
  | case3 b e h1 => left; rfl

/-- the fuel-bounded loop with at least `|end − begin|` passes allowed is the loop itself -/
theorem bisectFuel_eq_wf (f : Int → Int) : ∀ (n : Nat) (b e : Int), (e - b).natAbs ≤ n → bisectFuel n f b e = bisect2wf f b e := by
  intro n
  induction n with
  | zero =>
    intro b e h
    have hs := halfEven_spec (e - b)
    rw [bisect2wf_unfold_stop (by omega)]; rfl
  | succ n ih =>
    intro b e h
    have hs := halfEven_spec (e - b)
    by_cases h1 : 1 ≤ (halfEven (e - b)).natAbs
    · by_cases h2 : 0 < f b * f (b + halfEven (e - b))
      · rw [bisect2wf_unfold_left h1 h2]; simp only [bisectFuel, h1, h2, if_true]; exact ih _ _ (by omega)
      · rw [bisect2wf_unfold_right h1 h2]; simp only [bisectFuel, h1, h2, if_true, if_false]; exact ih _ _ (by omega)
    · rw [bisect2wf_unfold_stop h1]; simp only [bisectFuel, h1, if_false]

theorem bisectStepsFuel_eq_wf (f : Int → Int) : ∀ (n : Nat) (b e : Int), (e - b).natAbs ≤ n → bisectStepsFuel n f b e = bisectStepsWf f b e := by
  intro n
  induction n with
  | zero =>
    intro b e h
    have hs := halfEven_spec (e - b)
    rw [bisectStepsWf]; simp only [bisectStepsFuel]; rw [if_neg (by omega)]
  | succ n ih =>
    intro b e h
    have hs := halfEven_spec (e - b)
    rw [bisectStepsWf]
    by_cases h1 : 1 ≤ (halfEven (e - b)).natAbs
    · by_cases h2 : 0 < f b * f (b + halfEven (e - b))
      · simp only [bisectStepsFuel, h1, h2, if_true]; rw [ih _ _ (by omega)]
      · simp only [bisectStepsFuel, h1, h2, if_true, if_false]; rw [ih _ _ (by omega)]
    · simp only [bisectStepsFuel, h1, if_false]

theorem bisect2_eq_wf (f : Int → Int) (b e : Int) : bisect2 f b e = bisect2wf f b e :=
  bisectFuel_eq_wf f _ b e (le_refl _)

theorem bisectSteps_eq_wf (f : Int → Int) (b e : Int) : bisectSteps f b e = bisectStepsWf f b e :=
  bisectStepsFuel_eq_wf f _ b e (le_refl _)

/-- the invariant of the `while` loop of `_bisect`, for the executable definition -/
theorem bisect2_spec (f : Int → Int) (b e : Int) :
    (b ≤ e → b ≤ (bisect2 f b e).1 ∧ (bisect2 f b e).2 ≤ e ∧ (bisect2 f b e).2 - (bisect2 f b e).1 ≤ 1 ∧
        (bisect2 f b e).1 ≤ (bisect2 f b e).2 ∧ (b < e → (bisect2 f b e).1 < (bisect2 f b e).2)) ∧
    (e ≤ b → e ≤ (bisect2 f b e).2 ∧ (bisect2 f b e).1 ≤ b ∧ (bisect2 f b e).1 - (bisect2 f b e).2 ≤ 1 ∧
        (bisect2 f b e).2 ≤ (bisect2 f b e).1 ∧ (e < b → (bisect2 f b e).2 < (bisect2 f b e).1)) ∧
    Int.sign (f (bisect2 f b e).1) = Int.sign (f b) ∧
    (f b * f e ≤ 0 → f (bisect2 f b e).1 * f (bisect2 f b e).2 ≤ 0) := by
  rw [bisect2_eq_wf]; exact bisect2wf_spec f b e

theorem bisectSteps_bound (f : Int → Int) (b e : Int) :
    bisectSteps f b e = 0 ∨ 2 ^ bisectSteps f b e + 2 ≤ 2 * (e - b).natAbs := by
  rw [bisectSteps_eq_wf]; exact bisectStepsWf_bound f b e

/-! ### the stable sort -/

theorem mem_ins {x y : Ev} {l : List Ev} : y ∈ ins x l ↔ y = x ∨ y ∈ l := by
  induction l with
  | nil => simp [ins]
  | cons a l ih =>
    unfold ins
    split
    · simp
    · simp [ih]; tauto

theorem mem_sortEv {y : Ev} {l : List Ev} : y ∈ sortEv l ↔ y ∈ l := by
  induction l with
  | nil => simp [sortEv]
  | cons a l ih => simp [sortEv, mem_ins, ih]

theorem length_ins (x : Ev) (l : List Ev) : (ins x l).length = l.length + 1 := by
  induction l with
  | nil => simp [ins]
  | cons a l ih => unfold ins; split <;> simp [ih]

theorem length_sortEv (l : List Ev) : (sortEv l).length = l.length := by
  induction l with
  | nil => simp [sortEv]
  | cons a l ih => simp [sortEv, length_ins, ih]

theorem perm_ins (x : Ev) (l : List Ev) : (ins x l).Perm (x :: l) := by
  induction l with
  | nil => simp [ins]
  | cons a l ih =>
    unfold ins
    split
    · exact List.Perm.refl _
    · exact (List.Perm.cons a ih).trans (List.Perm.swap x a l)

theorem perm_sortEv (l : List Ev) : (sortEv l).Perm l := by
  induction l with
  | nil => simp [sortEv]
  | cons a l ih => exact (perm_ins a (sortEv l)).trans (List.Perm.cons a ih)

theorem sorted_ins (x : Ev) (l : List Ev) (h : l.Pairwise (fun a b => a.t ≤ b.t)) :
    (ins x l).Pairwise (fun a b => a.t ≤ b.t) := by
  induction l with
  | nil => simp [ins]
  | cons a l ih =>
    unfold ins
    rw [List.pairwise_cons] at h
    split
    · rename_i hxa
      refine List.pairwise_cons.2 ⟨?_, List.pairwise_cons.2 h⟩
      intro y hy
      rcases List.mem_cons.1 hy with rfl | hy
      · exact hxa
      · exact le_trans hxa (h.1 y hy)
    · rename_i hxa
      refine List.pairwise_cons.2 ⟨?_, ih h.2⟩
      intro y hy
      rcases mem_ins.1 hy with rfl | hy
      · omega
      · exact h.1 y hy

theorem sorted_sortEv (l : List Ev) : (sortEv l).Pairwise (fun a b => a.t ≤ b.t) := by
  induction l with
  | nil => simp [sortEv]
  | cons a l ih => exact sorted_ins a _ ih

/-- a list that is already sorted by date is left as it is (stability in its simplest form) -/
theorem sortEv_of_sorted (l : List Ev) (h : l.Pairwise (fun a b => a.t ≤ b.t)) : sortEv l = l := by
  induction l with
  | nil => rfl
  | cons a l ih =>
    rw [List.pairwise_cons] at h
    simp only [sortEv, ih h.2]
    cases l with
    | nil => rfl
    | cons c l => simp [ins, h.1 c (by simp)]

/-! ### the stable sort in descending order (`reverse=True`) -/

theorem mem_insDesc {x y : Ev} {l : List Ev} : y ∈ insDesc x l ↔ y = x ∨ y ∈ l := by
  induction l with
  | nil => simp [insDesc]
  | cons a l ih =>
    unfold insDesc
    split
    · simp
    · simp [ih]; tauto

theorem mem_sortEvDesc {y : Ev} {l : List Ev} : y ∈ sortEvDesc l ↔ y ∈ l := by
  induction l with
  | nil => simp [sortEvDesc]
  | cons a l ih => simp [sortEvDesc, mem_insDesc, ih]

theorem perm_insDesc (x : Ev) (l : List Ev) : (insDesc x l).Perm (x :: l) := by
  induction l with
  | nil => simp [insDesc]
  | cons a l ih =>
    unfold insDesc
    split
    · exact List.Perm.refl _
    · exact (List.Perm.cons a ih).trans (List.Perm.swap x a l)

theorem perm_sortEvDesc (l : List Ev) : (sortEvDesc l).Perm l := by
  induction l with
  | nil => simp [sortEvDesc]
  | cons a l ih => exact (perm_insDesc a (sortEvDesc l)).trans (List.Perm.cons a ih)

theorem sorted_insDesc (x : Ev) (l : List Ev) (h : l.Pairwise (fun a b => b.t ≤ a.t)) :
    (insDesc x l).Pairwise (fun a b => b.t ≤ a.t) := by
  induction l with
  | nil => simp [insDesc]
  | cons a l ih =>
    unfold insDesc
    rw [List.pairwise_cons] at h
    split
    · rename_i hxa
      refine List.pairwise_cons.2 ⟨?_, List.pairwise_cons.2 h⟩
      intro y hy
      rcases List.mem_cons.1 hy with rfl | hy
      · exact hxa
      · exact le_trans (h.1 y hy) hxa
    · rename_i hxa
      refine List.pairwise_cons.2 ⟨?_, ih h.2⟩
      intro y hy
      rcases mem_insDesc.1 hy with rfl | hy
      · omega
      · exact h.1 y hy

theorem sorted_sortEvDesc (l : List Ev) : (sortEvDesc l).Pairwise (fun a b => b.t ≤ a.t) := by
  induction l with
  | nil => simp [sortEvDesc]
  | cons a l ih => exact sorted_insDesc a _ ih

theorem perm_sortDir (bw : Bool) (l : List Ev) : (sortDir bw l).Perm l := by
  cases bw
  · exact perm_sortEv l
  · exact perm_sortEvDesc l

/-! ### stability: events with the same date keep the order of the `listeners` list, in both directions

(`sorted` is stable, and `reverse=True` keeps the original order of equal keys as well) -/

/-- ascending dates, equal dates by increasing listener index -/
def lexAsc (a b : Ev) : Prop := a.t < b.t ∨ (a.t = b.t ∧ a.idx < b.idx)

/-- descending dates, equal dates by increasing listener index -/
def lexDesc (a b : Ev) : Prop := b.t < a.t ∨ (a.t = b.t ∧ a.idx < b.idx)

theorem stable_ins (x : Ev) (l : List Ev) (h : l.Pairwise lexAsc) (hx : ∀ y ∈ l, x.idx < y.idx) :
    (ins x l).Pairwise lexAsc := by
  induction l with
  | nil => simp [ins]
  | cons c l ih =>
    unfold ins
    rw [List.pairwise_cons] at h
    split
    · rename_i hxc
      refine List.pairwise_cons.2 ⟨?_, List.pairwise_cons.2 h⟩
      intro y hy
      have hi := hx y hy
      have hcy : c.t ≤ y.t := by
        rcases List.mem_cons.1 hy with rfl | hy'
        · exact le_refl _
        · rcases h.1 y hy' with h1 | ⟨h1, -⟩ <;> omega
      unfold lexAsc
      omega
    · rename_i hxc
      refine List.pairwise_cons.2 ⟨?_, ih h.2 (fun y hy => hx y (List.mem_cons_of_mem _ hy))⟩
      intro y hy
      rcases mem_ins.1 hy with rfl | hy
      · left; omega
      · exact h.1 y hy

theorem stable_sortEv (l : List Ev) (h : l.Pairwise (fun a b => a.idx < b.idx)) : (sortEv l).Pairwise lexAsc := by
  induction l with
  | nil => simp [sortEv]
  | cons a l ih =>
    rw [List.pairwise_cons] at h
    exact stable_ins a _ (ih h.2) (fun y hy => h.1 y (mem_sortEv.1 hy))

theorem stable_insDesc (x : Ev) (l : List Ev) (h : l.Pairwise lexDesc) (hx : ∀ y ∈ l, x.idx < y.idx) :
    (insDesc x l).Pairwise lexDesc := by
  induction l with
  | nil => simp [insDesc]
  | cons c l ih =>
    unfold insDesc
    rw [List.pairwise_cons] at h
    split
    · rename_i hxc
      refine List.pairwise_cons.2 ⟨?_, List.pairwise_cons.2 h⟩
      intro y hy
      have hi := hx y hy
      have hcy : y.t ≤ c.t := by
        rcases List.mem_cons.1 hy with rfl | hy'
        · exact le_refl _
        · rcases h.1 y hy' with h1 | ⟨h1, -⟩ <;> omega
      unfold lexDesc
      omega
    · rename_i hxc
      refine List.pairwise_cons.2 ⟨?_, ih h.2 (fun y hy => hx y (List.mem_cons_of_mem _ hy))⟩
      intro y hy
      rcases mem_insDesc.1 hy with rfl | hy
      · left; omega
      · exact h.1 y hy

theorem stable_sortEvDesc (l : List Ev) (h : l.Pairwise (fun a b => a.idx < b.idx)) : (sortEvDesc l).Pairwise lexDesc := by
  induction l with
  | nil => simp [sortEvDesc]
  | cons a l ih =>
    rw [List.pairwise_cons] at h
    exact stable_insDesc a _ (ih h.2) (fun y hy => h.1 y (mem_sortEvDesc.1 hy))

end BeyondVerif.Listen
