import BeyondVerif.Lemmas.Tle
/-! Lemmas about the writer side of the TLE model: the two lines as lists of fixed-width chunks (tied to the generated
layout `fmt1`/`fmt2` by `render_fmt1`/`render_fmt2`), the format's ranges `InRange`, chunk widths, checksum definedness. -/
namespace BeyondVerif.Tle

/-! ### the written lines as lists of fixed-width chunks -/

def chunks1 (r : Rec) : List Str :=
  [ ['1', ' '], padLeft '0' 5 (intStr r.norad), ['U'], [' '], padRight ' ' 8 r.cospar, [' '], fixedDigits 2 r.yy,
    fmtFix true 12 8 r.day8, [' '], padLeft ' ' 10 (fmtNdot r.ndotNeg r.ndot8), [' '], padLeft ' ' 8 (unfloat r.ndd), [' '],
    padLeft ' ' 8 (unfloat r.bstar), [' '], ['0'], [' '], padLeft ' ' 4 (intStr r.elnb) ]

def chunks2 (r : Rec) : List Str :=
  [ ['2', ' '], padLeft '0' 5 (intStr r.norad), [' '], fmtFix false 8 4 r.inc4, [' '], fmtFix false 8 4 r.raan4, [' '],
    padRight ' ' 0 (fmtEcc r.ecc7), [' '], fmtFix false 8 4 r.argp4, [' '], fmtFix false 8 4 r.ma4, [' '],
    fmtFix false 11 8 r.mm8, padLeft ' ' 5 (intStr r.revs) ]

theorem render_fmt1 (r : Rec) : render r G.fmt1 = some (chunks1 r).flatten := by
  simp [render, renderSeg, fieldStr, fieldNum, Generated.Tle.fmt1, chunks1]

theorem render_fmt2 (r : Rec) : render r G.fmt2 = some (chunks2 r).flatten := by
  simp [render, renderSeg, fieldStr, fieldNum, Generated.Tle.fmt2, chunks2]


theorem padLeft_length {c : Char} {w : Nat} {s : Str} (h : s.length ≤ w) : (padLeft c w s).length = w := by
  simp [padLeft]; omega

theorem padRight_length {c : Char} {w : Nat} {s : Str} (h : s.length ≤ w) : (padRight c w s).length = w := by
  simp [padRight]; omega

theorem intStr_nonneg {i : Int} (h : 0 ≤ i) : intStr i = natStr i.natAbs := by
  unfold intStr; rw [if_neg (by omega)]

/-- a drag-like term as the writer prints it in canonical form -/
def CanonUnfl (u : Unfl) : Prop :=
  u = .zero ∨ ∃ neg m5 exp, u = .val neg m5 exp ∧ 10000 ≤ m5 ∧ m5 < 100000 ∧ -9 ≤ exp ∧ exp ≤ 9

/-- what `_unfloat` can print in its eight columns: a canonical term or, below 1e-10, a mantissa that is not normalised
with the fixed exponent −9 (`00000-9` … `99999-9`) -/
def WideUnfl (u : Unfl) : Prop := CanonUnfl u ∨ ∃ neg d, u = .small neg d ∧ d < 100000

def fullYear (yy : Nat) : Nat := yy + (if yy ≥ 57 then 1900 else 2000)

/-- the field combinations allowed by the format (the quantifier of C12) -/
structure InRange (r : Rec) : Prop where
  norad : 0 ≤ r.norad ∧ r.norad < 100000
  cospar : r.cospar = [] ∨ ∃ cy piece, cy < 100 ∧ r.cospar = fixedDigits 2 cy ++ piece ∧ piece.length ≤ 6 ∧
    strip piece = piece ∧ ∀ c ∈ piece, (ckVal c).isSome = true
  yy : r.yy < 100
  day : 100000000 ≤ r.day8 ∧ r.day8 < (if isLeap (fullYear r.yy) then 367 else 366) * 100000000
  ndot : r.ndot8 < 100000000
  ndd : CanonUnfl r.ndd
  bstar : CanonUnfl r.bstar
  elnb : 0 ≤ r.elnb ∧ r.elnb < 10000
  inc : r.inc4 < 3600000
  raan : r.raan4 < 3600000
  ecc : r.ecc7 < 10000000
  argp : r.argp4 < 3600000
  ma : r.ma4 < 3600000
  mm : r.mm8 < 10000000000
  revs : 0 ≤ r.revs ∧ r.revs < 100000
  name : r.name = [] ∨ (r.name ≠ [] ∧ strip r.name = r.name ∧ startsWith r.name ['0', ' '] = false)

/-- what the writer can produce from an off-grid orbit inside the domain of the format: `InRange` plus the three values a
rounding carry reaches — an angle printed `360.0000`, the day `(number of days + 1).00000000`, a drag term below
1e-10 — all of which still fill their columns exactly -/
structure WideRange (r : Rec) : Prop where
  norad : 0 ≤ r.norad ∧ r.norad < 100000
  cospar : r.cospar = [] ∨ ∃ cy piece, cy < 100 ∧ r.cospar = fixedDigits 2 cy ++ piece ∧ piece.length ≤ 6 ∧
    strip piece = piece ∧ ∀ c ∈ piece, (ckVal c).isSome = true
  yy : r.yy < 100
  day : 100000000 ≤ r.day8 ∧ r.day8 ≤ (if isLeap (fullYear r.yy) then 367 else 366) * 100000000
  ndot : r.ndot8 < 100000000
  ndd : WideUnfl r.ndd
  bstar : WideUnfl r.bstar
  elnb : 0 ≤ r.elnb ∧ r.elnb < 10000
  inc : r.inc4 ≤ 3600000
  raan : r.raan4 ≤ 3600000
  ecc : r.ecc7 < 10000000
  argp : r.argp4 ≤ 3600000
  ma : r.ma4 ≤ 3600000
  mm : r.mm8 < 10000000000
  revs : 0 ≤ r.revs ∧ r.revs < 100000
  name : r.name = [] ∨ (r.name ≠ [] ∧ strip r.name = r.name ∧ startsWith r.name ['0', ' '] = false)

theorem InRange.wide {r : Rec} (h : InRange r) : WideRange r where
  norad := h.norad
  cospar := h.cospar
  yy := h.yy
  day := ⟨h.day.1, Nat.le_of_lt h.day.2⟩
  ndot := h.ndot
  ndd := Or.inl h.ndd
  bstar := Or.inl h.bstar
  elnb := h.elnb
  inc := Nat.le_of_lt h.inc
  raan := Nat.le_of_lt h.raan
  ecc := h.ecc
  argp := Nat.le_of_lt h.argp
  ma := Nat.le_of_lt h.ma
  mm := h.mm
  revs := h.revs
  name := h.name

theorem natStr_zero : natStr 0 = ['0'] := by rw [natStr_lt10 (by omega)]; rfl

theorem fmtFix_inner_length (p v k : Nat) (hk : 0 < k) (h : v / 10 ^ p < 10 ^ k) :
    (natStr (v / 10 ^ p) ++ '.' :: fixedDigits p v).length ≤ k + 1 + p := by
  have := natStr_length_le k _ hk h
  simp [fixedDigits_length]; omega

theorem fmtFix_length (z : Bool) (w p v k : Nat) (hk : 0 < k) (h : v / 10 ^ p < 10 ^ k) (hw : k + 1 + p ≤ w) :
    (fmtFix z w p v).length = w := by
  unfold fmtFix
  exact padLeft_length (Nat.le_trans (fmtFix_inner_length p v k hk h) hw)

theorem fmtNdot_eq (neg : Bool) (v : Nat) (h : v < 100000000) :
    fmtNdot neg v = (if neg then '-' else ' ') :: '.' :: fixedDigits 8 v := by
  unfold fmtNdot
  have : v / 100000000 = 0 := by omega
  simp [this, natStr_zero]

theorem fmtEcc_eq (v : Nat) (h : v < 10000000) : fmtEcc v = fixedDigits 7 v := by
  unfold fmtEcc
  have : v / 10000000 = 0 := by omega
  simp [this, natStr_zero]

theorem unfloat_canon_length {u : Unfl} (h : CanonUnfl u) : (unfloat u).length ≤ 8 := by
  rcases h with rfl | ⟨neg, m5, exp, rfl, h1, h2, h3, h4⟩
  · simp [unfloat]
  · have hm := natStr_length_eq 4 m5 h1 h2
    have he : (natStr exp.natAbs).length ≤ 1 := natStr_length_le 1 _ (by omega) (by omega)
    simp only [unfloat]
    cases neg <;> by_cases hx : exp < 0 <;> simp [hx, hm] <;> omega

theorem unfloat_wide_length {u : Unfl} (h : WideUnfl u) : (unfloat u).length ≤ 8 := by
  rcases h with h | ⟨neg, d, rfl, hd⟩
  · exact unfloat_canon_length h
  · have hl : (natStr d).length ≤ 5 := natStr_length_le 5 d (by omega) (by omega)
    have hp : (padLeft '0' 5 (natStr d)).length = 5 := padLeft_length hl
    simp only [unfloat, List.length_append, hp]
    cases neg <;> simp

theorem chunks1_lengths (r : Rec) (h : WideRange r) : (chunks1 r).map List.length = [2, 5, 1, 1, 8, 1, 2, 12, 1, 10, 1, 8, 1, 8, 1, 1, 1, 4] := by
  have hn : (intStr r.norad).length ≤ 5 := by
    rw [intStr_nonneg h.norad.1]; exact natStr_length_le 5 _ (by omega) (by have := h.norad; omega)
  have hc : r.cospar.length ≤ 8 := by
    rcases h.cospar with hc | ⟨cy, piece, _, hc, hl, _, _⟩
    · simp [hc]
    · simp [hc, fixedDigits_length]; omega
  have hd : (fmtFix true 12 8 r.day8).length = 12 := by
    apply fmtFix_length true 12 8 r.day8 3 (by omega) _ (by omega)
    have := h.day.2
    split at this <;> omega
  have hnd : (fmtNdot r.ndotNeg r.ndot8).length ≤ 10 := by rw [fmtNdot_eq _ _ h.ndot]; simp [fixedDigits_length]
  have hel : (intStr r.elnb).length ≤ 4 := by
    rw [intStr_nonneg h.elnb.1]; exact natStr_length_le 4 _ (by omega) (by have := h.elnb; omega)
  simp [chunks1, padLeft_length hn, padRight_length hc, fixedDigits_length, hd, padLeft_length hnd,
    padLeft_length (unfloat_wide_length h.ndd), padLeft_length (unfloat_wide_length h.bstar), padLeft_length hel]

theorem chunks2_lengths (r : Rec) (h : WideRange r) : (chunks2 r).map List.length = [2, 5, 1, 8, 1, 8, 1, 7, 1, 8, 1, 8, 1, 11, 5] := by
  have hn : (intStr r.norad).length ≤ 5 := by
    rw [intStr_nonneg h.norad.1]; exact natStr_length_le 5 _ (by omega) (by have := h.norad; omega)
  have ha : ∀ v, v ≤ 3600000 → (fmtFix false 8 4 v).length = 8 := by
    intro v hv; exact fmtFix_length false 8 4 v 3 (by omega) (by omega) (by omega)
  have hm : (fmtFix false 11 8 r.mm8).length = 11 := fmtFix_length false 11 8 r.mm8 2 (by omega) (by have := h.mm; omega) (by omega)
  have hr : (intStr r.revs).length ≤ 5 := by
    rw [intStr_nonneg h.revs.1]; exact natStr_length_le 5 _ (by omega) (by have := h.revs; omega)
  simp [chunks2, padLeft_length hn, ha _ h.inc, ha _ h.raan, ha _ h.argp, ha _ h.ma, hm, padLeft_length hr,
    fmtEcc_eq _ h.ecc, padRight, fixedDigits_length]


/-! ### every written character has a checksum value -/

def okc (c : Char) : Bool := (ckVal c).isSome

theorem okc_digit {c : Char} (h : isDigit c = true) : okc c = true := by simp [okc, ckVal_of_isDigit h]

theorem sumVals_some : ∀ (l : Str), (∀ c ∈ l, okc c = true) → ∃ s, sumVals l = some s := by
  intro l
  induction l with
  | nil => intro _; exact ⟨0, rfl⟩
  | cons x xs ih =>
    intro h
    obtain ⟨s, hs⟩ := ih (fun c hc => h c (by simp [hc]))
    have hx := h x (by simp)
    unfold okc at hx
    cases hv : ckVal x with
    | none => rw [hv] at hx; simp at hx
    | some a => exact ⟨a + s, by simp [sumVals, hv, hs]⟩

theorem okc_natStr (n : Nat) : ∀ c ∈ natStr n, okc c = true := fun c hc => okc_digit (natStr_all_digits n c hc)
theorem okc_fixed (k n : Nat) : ∀ c ∈ fixedDigits k n, okc c = true := fun c hc => okc_digit (fixedDigits_all_digits k n c hc)

theorem okc_padLeft {fill : Char} {w : Nat} {s : Str} (hf : okc fill = true) (hs : ∀ c ∈ s, okc c = true) :
    ∀ c ∈ padLeft fill w s, okc c = true := by
  intro c hc
  simp only [padLeft, List.mem_append, List.mem_replicate] at hc
  rcases hc with ⟨_, rfl⟩ | hc
  · exact hf
  · exact hs c hc

theorem okc_padRight {fill : Char} {w : Nat} {s : Str} (hf : okc fill = true) (hs : ∀ c ∈ s, okc c = true) :
    ∀ c ∈ padRight fill w s, okc c = true := by
  intro c hc
  simp only [padRight, List.mem_append, List.mem_replicate] at hc
  rcases hc with hc | ⟨_, rfl⟩
  · exact hs c hc
  · exact hf

theorem okc_fmtFix (z : Bool) (w p v : Nat) : ∀ c ∈ fmtFix z w p v, okc c = true := by
  unfold fmtFix
  apply okc_padLeft (by cases z <;> decide)
  intro c hc
  simp only [List.mem_append, List.mem_cons] at hc
  rcases hc with hc | rfl | hc
  · exact okc_natStr _ c hc
  · decide
  · exact okc_fixed _ _ c hc

theorem okc_unfloat {u : Unfl} (h : CanonUnfl u) : ∀ c ∈ unfloat u, okc c = true := by
  rcases h with rfl | ⟨neg, m5, exp, rfl, _, _, _, _⟩
  · decide
  · intro c hc
    simp only [unfloat, List.mem_append] at hc
    rcases hc with (hc | hc) | hc
    · cases neg <;> simp at hc; subst hc; decide
    · exact okc_natStr _ c hc
    · split at hc <;> simp only [List.mem_cons] at hc <;> rcases hc with rfl | hc
      · decide
      · exact okc_natStr _ c hc
      · decide
      · exact okc_natStr _ c hc

theorem okc_unfloat_wide {u : Unfl} (h : WideUnfl u) : ∀ c ∈ unfloat u, okc c = true := by
  rcases h with h | ⟨neg, d, rfl, _⟩
  · exact okc_unfloat h
  · intro c hc
    simp only [unfloat, List.mem_append] at hc
    rcases hc with (hc | hc) | hc
    · cases neg <;> simp at hc; subst hc; decide
    · exact okc_padLeft (by decide) (okc_natStr d) c hc
    · simp at hc; rcases hc with rfl | rfl <;> decide

theorem okc_chunks1 (r : Rec) (h : WideRange r) : ∀ c ∈ (chunks1 r).flatten, okc c = true := by
  have hsp : okc ' ' = true := by decide
  have h0 : okc '0' = true := by decide
  intro c hc
  simp only [chunks1, List.flatten_cons, List.flatten_nil, List.append_nil, List.mem_append] at hc
  rcases hc with hc | hc | hc | hc | hc | hc | hc | hc | hc | hc | hc | hc | hc | hc | hc | hc | hc | hc
  · simp at hc; rcases hc with rfl | rfl <;> decide
  · exact okc_padLeft h0 (by rw [intStr_nonneg h.norad.1]; exact okc_natStr _) c hc
  · simp at hc; subst hc; decide
  · simp at hc; subst hc; decide
  · refine okc_padRight hsp ?_ c hc
    rcases h.cospar with he | ⟨cy, piece, _, he, _, _, hp⟩
    · simp [he]
    · intro x hx; rw [he] at hx; simp only [List.mem_append] at hx
      rcases hx with hx | hx
      · exact okc_fixed _ _ x hx
      · exact hp x hx
  · simp at hc; subst hc; decide
  · exact okc_fixed _ _ c hc
  · exact okc_fmtFix _ _ _ _ c hc
  · simp at hc; subst hc; decide
  · refine okc_padLeft hsp ?_ c hc
    rw [fmtNdot_eq _ _ h.ndot]
    intro x hx
    simp only [List.mem_cons] at hx
    rcases hx with rfl | rfl | hx
    · cases r.ndotNeg <;> decide
    · decide
    · exact okc_fixed _ _ x hx
  · simp at hc; subst hc; decide
  · exact okc_padLeft hsp (okc_unfloat_wide h.ndd) c hc
  · simp at hc; subst hc; decide
  · exact okc_padLeft hsp (okc_unfloat_wide h.bstar) c hc
  · simp at hc; subst hc; decide
  · simp at hc; subst hc; decide
  · simp at hc; subst hc; decide
  · exact okc_padLeft hsp (by rw [intStr_nonneg h.elnb.1]; exact okc_natStr _) c hc

theorem okc_chunks2 (r : Rec) (h : WideRange r) : ∀ c ∈ (chunks2 r).flatten, okc c = true := by
  have hsp : okc ' ' = true := by decide
  have h0 : okc '0' = true := by decide
  intro c hc
  simp only [chunks2, List.flatten_cons, List.flatten_nil, List.append_nil, List.mem_append] at hc
  rcases hc with hc | hc | hc | hc | hc | hc | hc | hc | hc | hc | hc | hc | hc | hc | hc
  · simp at hc; rcases hc with rfl | rfl <;> decide
  · exact okc_padLeft h0 (by rw [intStr_nonneg h.norad.1]; exact okc_natStr _) c hc
  · simp at hc; subst hc; decide
  · exact okc_fmtFix _ _ _ _ c hc
  · simp at hc; subst hc; decide
  · exact okc_fmtFix _ _ _ _ c hc
  · simp at hc; subst hc; decide
  · refine okc_padRight hsp ?_ c hc
    rw [fmtEcc_eq _ h.ecc]; exact okc_fixed _ _
  · simp at hc; subst hc; decide
  · exact okc_fmtFix _ _ _ _ c hc
  · simp at hc; subst hc; decide
  · exact okc_fmtFix _ _ _ _ c hc
  · simp at hc; subst hc; decide
  · exact okc_fmtFix _ _ _ _ c hc
  · exact okc_padLeft hsp (by rw [intStr_nonneg h.revs.1]; exact okc_natStr _) c hc

end BeyondVerif.Tle
