import BeyondVerif.Lemmas.Node

/-!
Exact characterisation of the table rebuild `refreshRoutes` (the body of `Node._update` before the
recursion) in terms of the neighbours' tables: `refreshRoutes_spec`.

For a target `t`:
* `t` a neighbour of `u`            → the entry is `(t, t, 1)`;
* `t = u` (and not a neighbour)     → no entry;
* otherwise the candidates are, in iteration order (neighbours in order, each neighbour's table in
  order), the pairs `(d, steps_d(t) + 1)`; the entry is the LAST candidate attaining the minimum
  number of steps (the Python test `old.steps <= route.steps` keeps the old entry only when it is
  strictly better than the new candidate `route.steps + 1`), none when there is no candidate.
-/
set_option linter.unusedSimpArgs false
set_option linter.unusedVariables false
namespace BeyondVerif.Node

theorem lookupRoute_nil (t : Nat) : lookupRoute [] t = none := rfl

theorem lookupRoute_cons (x : Route) (rs : List Route) (t : Nat) :
    lookupRoute (x :: rs) t = if x.target = t then some x else lookupRoute rs t := by
  unfold lookupRoute
  by_cases h : x.target = t <;> simp [List.find?, h]

theorem lookupRoute_setRoute (rs : List Route) (r : Route) (t : Nat) :
    lookupRoute (setRoute rs r) t = if r.target = t then some r else lookupRoute rs t := by
  induction rs with
  | nil => simp [setRoute, lookupRoute_cons, lookupRoute_nil]
  | cons x rest ih =>
    unfold setRoute
    split
    · next hx =>
      rw [lookupRoute_cons, lookupRoute_cons]
      by_cases ht : r.target = t
      · simp [ht]
      · have : ¬ x.target = t := by rw [hx]; exact ht
        simp [ht, this]
    · next hx =>
      rw [lookupRoute_cons, lookupRoute_cons, ih]
      by_cases hxt : x.target = t
      · have : ¬ r.target = t := by intro h; exact hx (by rw [hxt, h])
        simp [hxt, this]
      · simp [hxt]

theorem lookupRoute_eq_some {rs : List Route} {t : Nat} {r : Route} (h : lookupRoute rs t = some r) :
    r ∈ rs ∧ r.target = t := by
  unfold lookupRoute at h
  exact ⟨List.mem_of_find?_eq_some h, by simpa using List.find?_some h⟩

theorem lookupRoute_eq_none {rs : List Route} {t : Nat} (h : lookupRoute rs t = none) :
    ∀ r ∈ rs, r.target ≠ t := by
  unfold lookupRoute at h
  intro r hr
  have := List.find?_eq_none.mp h r hr
  simpa using this

/-! ### keys stay unique -/

def keys (rs : List Route) : List Nat := rs.map (·.target)

theorem keys_setRoute (rs : List Route) (r : Route) :
    keys (setRoute rs r) = if r.target ∈ keys rs then keys rs else keys rs ++ [r.target] := by
  induction rs with
  | nil => simp [setRoute, keys]
  | cons x rest ih =>
    unfold setRoute
    split
    · next hx => simp [keys, hx]
    · next hx =>
      have hx' : ¬ r.target = x.target := fun h => hx h.symm
      show x.target :: keys (setRoute rest r) = _
      rw [ih]
      have : (r.target ∈ keys (x :: rest)) ↔ r.target ∈ keys rest := by simp [keys, hx']
      by_cases hm : r.target ∈ keys rest
      · rw [if_pos hm, if_pos (this.mpr hm)]; rfl
      · rw [if_neg hm, if_neg (fun h => hm (this.mp h))]; rfl

theorem nodup_keys_setRoute {rs : List Route} (h : (keys rs).Nodup) (r : Route) :
    (keys (setRoute rs r)).Nodup := by
  rw [keys_setRoute]
  split
  · exact h
  · next hn =>
    rw [List.nodup_append]
    refine ⟨h, by simp, ?_⟩
    intro a ha b hb
    simp at hb
    subst hb
    intro hab; subst hab; exact hn ha

theorem nodup_keys_mergeFrom (u : Nat) (ns : List Nat) (d : Nat) (rs acc : List Route)
    (h : (keys acc).Nodup) : (keys (mergeFrom u ns d rs acc)).Nodup := by
  unfold mergeFrom
  induction rs generalizing acc with
  | nil => exact h
  | cons x rest ih =>
    simp only [List.foldl_cons]
    apply ih
    split
    · exact h
    · split
      · split
        · exact h
        · exact nodup_keys_setRoute h _
      · exact nodup_keys_setRoute h _

theorem nodup_keys_refreshRoutes (g : Graph) (u : Nat) : (keys (refreshRoutes g u)).Nodup := by
  unfold refreshRoutes
  have key : ∀ (l : List Nat) (acc : List Route), (keys acc).Nodup →
      (keys (l.foldl (fun acc d =>
        let acc := setRoute acc ⟨d, d, 1⟩
        mergeFrom u (get g u).nbrs d (get g d).routes acc) acc)).Nodup := by
    intro l
    induction l with
    | nil => intro acc h; exact h
    | cons d rest ih =>
      intro acc h
      simp only [List.foldl_cons]
      exact ih _ (nodup_keys_mergeFrom _ _ _ _ _ (nodup_keys_setRoute h _))
  exact key _ _ (by simp [keys])

/-- in a table with unique keys, membership is the same as being the looked-up entry -/
theorem mem_iff_lookupRoute {rs : List Route} (h : (keys rs).Nodup) (r : Route) :
    r ∈ rs ↔ lookupRoute rs r.target = some r := by
  induction rs with
  | nil => simp [lookupRoute_nil]
  | cons x rest ih =>
    simp only [keys, List.map_cons, List.nodup_cons] at h
    rw [lookupRoute_cons, List.mem_cons]
    by_cases hx : x.target = r.target
    · simp only [hx, if_true, Option.some.injEq]
      constructor
      · rintro (h1 | h1)
        · exact h1.symm
        · exfalso; apply h.1; rw [hx]; exact List.mem_map_of_mem h1
      · intro h1; exact Or.inl h1.symm
    · simp only [hx, if_false]
      rw [← ih h.2]
      constructor
      · rintro (h1 | h1)
        · exfalso; apply hx; rw [h1]
        · exact h1
      · intro h1; exact Or.inr h1

/-! ### per-target view of the merge loops -/

/-- one candidate `(direction, steps)` offered for target `t` to the current best entry -/
def offer (t : Nat) (b : Option Route) (c : Nat × Nat) : Option Route :=
  match b with
  | some old => if old.steps < c.2 then b else some ⟨t, c.1, c.2⟩
  | none => some ⟨t, c.1, c.2⟩

/-- candidates for target `t` contributed by neighbour `d` whose table is `rs` -/
def candsOf (t d : Nat) (rs : List Route) : List (Nat × Nat) :=
  (rs.filter (fun r => r.target = t)).map (fun r => (d, r.steps + 1))

/-- all candidates for target `t` seen by `refreshRoutes g u`, in iteration order -/
def cands (g : Graph) (u t : Nat) : List (Nat × Nat) :=
  (get g u).nbrs.flatMap (fun d => candsOf t d (get g d).routes)

theorem mem_candsOf {t d : Nat} {rs : List Route} {c : Nat × Nat} :
    c ∈ candsOf t d rs ↔ ∃ r ∈ rs, r.target = t ∧ c = (d, r.steps + 1) := by
  unfold candsOf
  simp only [List.mem_map, List.mem_filter, decide_eq_true_eq]
  constructor
  · rintro ⟨r, ⟨hr, ht⟩, rfl⟩; exact ⟨r, hr, ht, rfl⟩
  · rintro ⟨r, hr, ht, rfl⟩; exact ⟨r, ⟨hr, ht⟩, rfl⟩

theorem mem_cands {g : Graph} {u t : Nat} {c : Nat × Nat} :
    c ∈ cands g u t ↔ ∃ d ∈ (get g u).nbrs, ∃ r ∈ (get g d).routes, r.target = t ∧ c = (d, r.steps + 1) := by
  unfold cands
  simp only [List.mem_flatMap, mem_candsOf]

theorem mergeFrom_lookup_skip (u : Nat) (ns : List Nat) (d : Nat) (rs acc : List Route) (t : Nat)
    (ht : t = u ∨ t ∈ ns) : lookupRoute (mergeFrom u ns d rs acc) t = lookupRoute acc t := by
  unfold mergeFrom
  induction rs generalizing acc with
  | nil => rfl
  | cons x rest ih =>
    simp only [List.foldl_cons]
    rw [ih]
    split
    · rfl
    · next hx =>
      have hxt : ¬ x.target = t := by
        intro h; apply hx; rw [h]
        rcases ht with ht | ht
        · exact Or.inl ht
        · exact Or.inr (by simpa using ht)
      split
      · split
        · rfl
        · rw [lookupRoute_setRoute]; simp [hxt]
      · rw [lookupRoute_setRoute]; simp [hxt]

theorem mergeFrom_lookup (u : Nat) (ns : List Nat) (d : Nat) (rs acc : List Route) (t : Nat)
    (htu : t ≠ u) (htn : t ∉ ns) :
    lookupRoute (mergeFrom u ns d rs acc) t = (candsOf t d rs).foldl (offer t) (lookupRoute acc t) := by
  unfold mergeFrom candsOf
  induction rs generalizing acc with
  | nil => rfl
  | cons x rest ih =>
    simp only [List.foldl_cons]
    rw [ih]
    by_cases hxt : x.target = t
    · subst hxt
      have hcond : ¬ (x.target = u ∨ ns.contains x.target = true) := by simp [htu, htn]
      rw [if_neg hcond]
      simp only [List.filter_cons, decide_true, if_true, List.map_cons, List.foldl_cons]
      congr 1
      cases hl : lookupRoute acc x.target with
      | none => simp [offer, lookupRoute_setRoute]
      | some old =>
        simp only [offer]
        by_cases hs : old.steps ≤ x.steps
        · have : old.steps < x.steps + 1 := Nat.lt_succ_of_le hs
          simp [hs, this, hl]
        · have : ¬ old.steps < x.steps + 1 := fun h => hs (Nat.le_of_lt_succ h)
          simp [hs, this, lookupRoute_setRoute]
    · have hdec : decide (x.target = t) = false := by simpa using hxt
      simp only [List.filter_cons, hdec]
      congr 1
      split
      · rfl
      · split
        · split
          · rfl
          · rw [lookupRoute_setRoute]; simp [hxt]
        · rw [lookupRoute_setRoute]; simp [hxt]

/-! ### folding `offer` -/

theorem foldl_offer_some_stable (t : Nat) (r : Route) (l : List (Nat × Nat))
    (h : ∀ c ∈ l, r.steps < c.2) : l.foldl (offer t) (some r) = some r := by
  induction l with
  | nil => rfl
  | cons c rest ih =>
    simp only [List.foldl_cons]
    have : offer t (some r) c = some r := by simp [offer, h c List.mem_cons_self]
    rw [this]
    exact ih (fun c hc => h c (List.mem_cons_of_mem _ hc))

theorem foldl_offer_ge (t k : Nat) (l : List (Nat × Nat)) (b : Option Route)
    (hb : ∀ o, b = some o → k ≤ o.steps) (h : ∀ c ∈ l, k ≤ c.2) :
    ∀ o, l.foldl (offer t) b = some o → k ≤ o.steps := by
  induction l generalizing b with
  | nil => exact hb
  | cons c rest ih =>
    simp only [List.foldl_cons]
    apply ih
    · intro o ho
      unfold offer at ho
      split at ho
      · next old =>
        split at ho
        · exact hb o ho
        · cases ho; exact h c List.mem_cons_self
      · cases ho; exact h c List.mem_cons_self
    · exact fun c hc => h c (List.mem_cons_of_mem _ hc)

/-- the fold of `offer` returns the LAST candidate attaining the minimum -/
theorem foldl_offer_of_split (t d k : Nat) (l1 l2 : List (Nat × Nat))
    (h1 : ∀ c ∈ l1, k ≤ c.2) (h2 : ∀ c ∈ l2, k < c.2) :
    (l1 ++ (d, k) :: l2).foldl (offer t) none = some ⟨t, d, k⟩ := by
  rw [List.foldl_append, List.foldl_cons]
  have hge := foldl_offer_ge t k l1 none (by intro o ho; cases ho) h1
  have : offer t (l1.foldl (offer t) none) (d, k) = some ⟨t, d, k⟩ := by
    cases hb : l1.foldl (offer t) none with
    | none => rfl
    | some o =>
      have := hge o hb
      have hn : ¬ o.steps < k := Nat.not_lt.mpr this
      simp [offer, hn]
  rw [this]
  exact foldl_offer_some_stable t _ l2 h2

/-- every non-empty candidate list has a last minimum -/
theorem exists_last_min (cs : List (Nat × Nat)) (hne : cs ≠ []) :
    ∃ l1 d k l2, cs = l1 ++ (d, k) :: l2 ∧ (∀ c ∈ l1, k ≤ c.2) ∧ (∀ c ∈ l2, k < c.2) := by
  induction cs with
  | nil => exact absurd rfl hne
  | cons c rest ih =>
    by_cases hr : rest = []
    · subst hr
      exact ⟨[], c.1, c.2, [], by simp, by simp, by simp⟩
    · obtain ⟨l1, d, k, l2, hs, h1, h2⟩ := ih hr
      by_cases hc : c.2 < k
      · refine ⟨[], c.1, c.2, rest, by simp, by simp, ?_⟩
        intro x hx
        rw [hs] at hx
        rcases List.mem_append.mp hx with hx | hx
        · exact Nat.lt_of_lt_of_le hc (h1 x hx)
        · rcases List.mem_cons.mp hx with hx | hx
          · rw [hx]; exact hc
          · exact Nat.lt_trans hc (h2 x hx)
      · refine ⟨c :: l1, d, k, l2, by rw [hs]; rfl, ?_, h2⟩
        intro x hx
        rcases List.mem_cons.mp hx with hx | hx
        · rw [hx]; exact Nat.not_lt.mp hc
        · exact h1 x hx

/-! ### the rebuilt table -/

/-- **`refreshRoutes_spec`** — the exact content of the rebuilt table of `u`, per target, in terms
of the neighbour list of `u` and the neighbours' tables in `g`; and its keys are unique. -/
theorem refreshRoutes_spec (g : Graph) (u : Nat) :
    (keys (refreshRoutes g u)).Nodup ∧
    (∀ t, t ∈ (get g u).nbrs → lookupRoute (refreshRoutes g u) t = some ⟨t, t, 1⟩) ∧
    (u ∉ (get g u).nbrs → lookupRoute (refreshRoutes g u) u = none) ∧
    (∀ t, t ∉ (get g u).nbrs → t ≠ u →
      lookupRoute (refreshRoutes g u) t = (cands g u t).foldl (offer t) none) := by
  refine ⟨nodup_keys_refreshRoutes g u, ?_, ?_, ?_⟩
  · intro t ht
    unfold refreshRoutes
    have key : ∀ (l : List Nat) (acc : List Route),
        lookupRoute (l.foldl (fun acc d =>
          let acc := setRoute acc ⟨d, d, 1⟩
          mergeFrom u (get g u).nbrs d (get g d).routes acc) acc) t =
        if t ∈ l then some ⟨t, t, 1⟩ else lookupRoute acc t := by
      intro l
      induction l with
      | nil => intro acc; simp
      | cons d rest ih =>
        intro acc
        simp only [List.foldl_cons]
        rw [ih, mergeFrom_lookup_skip _ _ _ _ _ _ (Or.inr ht), lookupRoute_setRoute]
        by_cases hr : t ∈ rest
        · simp [hr]
        · by_cases hd : d = t
          · subst hd; simp
          · have : ¬ t = d := fun h => hd h.symm
            simp [hr, hd, this]
    rw [key]; simp [ht]
  · intro hu
    unfold refreshRoutes
    have key : ∀ (l : List Nat) (acc : List Route), (∀ d ∈ l, d ∈ (get g u).nbrs) →
        lookupRoute (l.foldl (fun acc d =>
          let acc := setRoute acc ⟨d, d, 1⟩
          mergeFrom u (get g u).nbrs d (get g d).routes acc) acc) u = lookupRoute acc u := by
      intro l
      induction l with
      | nil => intro acc _; rfl
      | cons d rest ih =>
        intro acc hl
        simp only [List.foldl_cons]
        rw [ih _ (fun x hx => hl x (List.mem_cons_of_mem _ hx)),
          mergeFrom_lookup_skip _ _ _ _ _ _ (Or.inl rfl), lookupRoute_setRoute]
        have : ¬ d = u := by
          intro h; have := hl d List.mem_cons_self; rw [h] at this; exact hu this
        simp [this]
    rw [key _ _ (fun d hd => hd)]; rfl
  · intro t ht htu
    unfold refreshRoutes cands
    have key : ∀ (l : List Nat) (acc : List Route), (∀ d ∈ l, d ∈ (get g u).nbrs) →
        lookupRoute (l.foldl (fun acc d =>
          let acc := setRoute acc ⟨d, d, 1⟩
          mergeFrom u (get g u).nbrs d (get g d).routes acc) acc) t =
        (l.flatMap (fun d => candsOf t d (get g d).routes)).foldl (offer t) (lookupRoute acc t) := by
      intro l
      induction l with
      | nil => intro acc _; rfl
      | cons d rest ih =>
        intro acc hl
        simp only [List.foldl_cons, List.flatMap_cons, List.foldl_append]
        rw [ih _ (fun x hx => hl x (List.mem_cons_of_mem _ hx)),
          mergeFrom_lookup _ _ _ _ _ _ htu ht, lookupRoute_setRoute]
        have : ¬ d = t := by
          intro h; have := hl d List.mem_cons_self; rw [h] at this; exact ht this
        simp [this]
    rw [key _ _ (fun d hd => hd)]; rfl

/-- consumer form of `refreshRoutes_spec` for a non-neighbour target: no candidate → no entry;
otherwise the entry is a candidate with the minimum number of steps. -/
theorem refreshRoutes_lookup_min (g : Graph) (u t : Nat) (ht : t ∉ (get g u).nbrs) (htu : t ≠ u) :
    (cands g u t = [] → lookupRoute (refreshRoutes g u) t = none) ∧
    (cands g u t ≠ [] → ∃ d k, lookupRoute (refreshRoutes g u) t = some ⟨t, d, k⟩ ∧
      (d, k) ∈ cands g u t ∧ ∀ c ∈ cands g u t, k ≤ c.2) := by
  rw [(refreshRoutes_spec g u).2.2.2 t ht htu]
  constructor
  · intro h; rw [h]; rfl
  · intro h
    obtain ⟨l1, d, k, l2, hs, h1, h2⟩ := exists_last_min _ h
    refine ⟨d, k, ?_, ?_, ?_⟩
    · rw [hs]; exact foldl_offer_of_split t d k l1 l2 h1 h2
    · rw [hs]; simp
    · intro c hc
      rw [hs] at hc
      rcases List.mem_append.mp hc with hc | hc
      · exact h1 c hc
      · rcases List.mem_cons.mp hc with hc | hc
        · rw [hc]
        · exact Nat.le_of_lt (h2 c hc)

end BeyondVerif.Node
