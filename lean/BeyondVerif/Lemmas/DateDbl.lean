import BeyondVerif.Model.DateDbl
import Mathlib.Tactic.Linarith
import Mathlib.Tactic.Ring
import Mathlib.Tactic.FieldSimp
import Mathlib.Tactic.NormNum
import Mathlib.Tactic.Positivity
import Mathlib.Algebra.Order.Field.Power
import Mathlib.Data.Rat.Cast.Order
import Mathlib.Data.Nat.Log
import Mathlib.Data.Rat.Floor
/-!
Error bounds for the binary64 rounding `fl` of `Model/DateDbl.lean` and for the two sums of `Date.__init__` that decide the
day number of a date: `fl_err` (half a unit in the last place), `mjdF_err`, `mjdU_err`, and the stability of `int(·)` away
from the day boundary.
-/
namespace BeyondVerif.Date

theorem rneNat_err (n d : Nat) (hd : 0 < d) : |((rneNat n d : Nat) : ℚ) - (n : ℚ) / d| ≤ 1 / 2 := by
  have h := Nat.div_add_mod n d
  have hr := Nat.mod_lt n hd
  have hdq : (0 : ℚ) < d := by exact_mod_cast hd
  have key : (n : ℚ) / d = (n / d : Nat) + ((n % d : Nat) : ℚ) / d := by
    field_simp
    have : ((d * (n / d) + n % d : Nat) : ℚ) = n := by rw [h]
    push_cast at this
    linarith
  have hr0 : (0 : ℚ) ≤ ((n % d : Nat) : ℚ) / d := by positivity
  have hr1 : ((n % d : Nat) : ℚ) / d < 1 := by
    rw [div_lt_one hdq]; exact_mod_cast hr
  unfold rneNat
  simp only
  rw [key, abs_le]
  split
  · next h1 =>
    have : ((n % d : Nat) : ℚ) / d ≤ 1 / 2 := by
      rw [div_le_iff₀ hdq]
      have : ((2 * (n % d) : Nat) : ℚ) < d := by exact_mod_cast h1
      push_cast at this; linarith
    constructor <;> linarith
  · split
    · next h1 h2 =>
      have : 1 / 2 ≤ ((n % d : Nat) : ℚ) / d := by
        rw [le_div_iff₀ hdq]
        have : ((d : Nat) : ℚ) < ((2 * (n % d) : Nat) : ℚ) := by exact_mod_cast h2
        push_cast at this; linarith
      push_cast
      constructor <;> linarith
    · next h1 h2 =>
      have he : 2 * (n % d) = d := by omega
      have : ((n % d : Nat) : ℚ) / d = 1 / 2 := by
        rw [div_eq_iff (ne_of_gt hdq)]
        have : ((2 * (n % d) : Nat) : ℚ) = d := by exact_mod_cast he
        push_cast at this; linarith
      split
      · constructor <;> linarith
      · push_cast; constructor <;> linarith

theorem scale2_eq (m : Nat) (k : Int) : scale2 m k = (m : ℚ) * (2 : ℚ) ^ k := by
  unfold scale2
  split
  · next h =>
    obtain ⟨j, rfl⟩ := Int.eq_ofNat_of_zero_le h
    simp [zpow_natCast]
  · next h =>
    have hk : k = -((-k).toNat : Int) := by omega
    rw [show (2 : ℚ) ^ k = (2 : ℚ) ^ (-((-k).toNat : Int)) by rw [← hk]]
    rw [zpow_neg, zpow_natCast]
    push_cast
    rw [div_eq_mul_inv]

theorem ltPow2_iff (n d : Nat) (hd : 0 < d) (e : Int) : ltPow2 n d e = true ↔ (n : ℚ) / d < (2 : ℚ) ^ e := by
  have hdq : (0 : ℚ) < d := by exact_mod_cast hd
  unfold ltPow2
  split
  · next h =>
    obtain ⟨j, rfl⟩ := Int.eq_ofNat_of_zero_le h
    simp only [Int.toNat_natCast, decide_eq_true_eq, zpow_natCast]
    rw [div_lt_iff₀ hdq]
    constructor
    · intro h; exact_mod_cast h
    · intro h; exact_mod_cast h
  · next h =>
    have hk : e = -((-e).toNat : Int) := by omega
    rw [show (2 : ℚ) ^ e = (2 : ℚ) ^ (-((-e).toNat : Int)) by rw [← hk]]
    rw [zpow_neg, zpow_natCast]
    simp only [decide_eq_true_eq]
    have hp : (0 : ℚ) < (2 : ℚ) ^ (-e).toNat := by positivity
    rw [div_lt_iff₀ hdq, ← div_eq_inv_mul, lt_div_iff₀ hp]
    constructor
    · intro h; exact_mod_cast h
    · intro h; exact_mod_cast h

/-- the binary exponent brackets the value: `2^(e-1) ≤ n/d < 2^e` -/
theorem binExp_spec (n d : Nat) (hn : 0 < n) (hd : 0 < d) :
    (2 : ℚ) ^ (binExp n d - 1) ≤ (n : ℚ) / d ∧ (n : ℚ) / d < (2 : ℚ) ^ binExp n d := by
  have hdq : (0 : ℚ) < d := by exact_mod_cast hd
  have hnq : (0 : ℚ) < n := by exact_mod_cast hn
  have n1 : ((2 ^ n.log2 : Nat) : ℚ) ≤ n := by exact_mod_cast Nat.log2_self_le (Nat.pos_iff_ne_zero.mp hn)
  have n2 : (n : ℚ) < ((2 ^ (n.log2 + 1) : Nat) : ℚ) := by exact_mod_cast (Nat.lt_log2_self (n := n))
  have d1 : ((2 ^ d.log2 : Nat) : ℚ) ≤ d := by exact_mod_cast Nat.log2_self_le (Nat.pos_iff_ne_zero.mp hd)
  have d2 : (d : ℚ) < ((2 ^ (d.log2 + 1) : Nat) : ℚ) := by exact_mod_cast (Nat.lt_log2_self (n := d))
  push_cast at n1 n2 d1 d2
  have two : (0 : ℚ) < 2 := by norm_num
  -- 2^(e0-1) < n/d < 2^(e0+1)
  have lo : (2 : ℚ) ^ ((n.log2 : Int) - (d.log2 : Int) - 1) < (n : ℚ) / d := by
    have : (2 : ℚ) ^ ((n.log2 : Int) - (d.log2 : Int) - 1) = (2 : ℚ) ^ n.log2 / (2 : ℚ) ^ (d.log2 + 1) := by
      rw [show (n.log2 : Int) - (d.log2 : Int) - 1 = (n.log2 : Int) - ((d.log2 + 1 : Nat) : Int) by push_cast; ring]
      rw [zpow_sub₀ (ne_of_gt two), zpow_natCast, zpow_natCast]
    rw [this, div_lt_div_iff₀ (by positivity) hdq]
    have hp : (0 : ℚ) < (2 : ℚ) ^ n.log2 := by positivity
    nlinarith
  have hi : (n : ℚ) / d < (2 : ℚ) ^ ((n.log2 : Int) - (d.log2 : Int) + 1) := by
    have : (2 : ℚ) ^ ((n.log2 : Int) - (d.log2 : Int) + 1) = (2 : ℚ) ^ (n.log2 + 1) / (2 : ℚ) ^ d.log2 := by
      rw [show (n.log2 : Int) - (d.log2 : Int) + 1 = ((n.log2 + 1 : Nat) : Int) - (d.log2 : Int) by push_cast; ring]
      rw [zpow_sub₀ (ne_of_gt two), zpow_natCast, zpow_natCast]
    rw [this, div_lt_div_iff₀ hdq (by positivity)]
    have hp : (0 : ℚ) < (2 : ℚ) ^ (n.log2 + 1) := by positivity
    nlinarith
  unfold binExp
  simp only
  split
  · next h =>
    rw [ltPow2_iff n d hd] at h
    exact ⟨le_of_lt lo, h⟩
  · next h =>
    rw [ltPow2_iff n d hd] at h
    simp only [add_sub_cancel_right]
    exact ⟨not_lt.mp h, hi⟩

theorem sig_err (n d : Nat) (hd : 0 < d) (k : Int) : |(sig n d k : ℚ) * (2 : ℚ) ^ k - (n : ℚ) / d| ≤ (2 : ℚ) ^ k / 2 := by
  have hdq : (0 : ℚ) < d := by exact_mod_cast hd
  have hp : (0 : ℚ) < (2 : ℚ) ^ k := by positivity
  unfold sig
  split
  · next h =>
    obtain ⟨j, rfl⟩ := Int.eq_ofNat_of_zero_le h
    have := rneNat_err n (d * 2 ^ j) (by positivity)
    simp only [Int.toNat_natCast, zpow_natCast] at this ⊢
    push_cast at this
    have hj : (0 : ℚ) < (2 : ℚ) ^ j := by positivity
    have e : (rneNat n (d * 2 ^ j) : ℚ) * (2 : ℚ) ^ j - (n : ℚ) / d = ((rneNat n (d * 2 ^ j) : ℚ) - (n : ℚ) / (d * 2 ^ j)) * 2 ^ j := by
      field_simp
    rw [e, abs_mul, abs_of_pos hj]
    nlinarith
  · next h =>
    have hk : k = -((-k).toNat : Int) := by omega
    have := rneNat_err (n * 2 ^ (-k).toNat) d hd
    push_cast at this
    have hj : (0 : ℚ) < (2 : ℚ) ^ (-k).toNat := by positivity
    have hz : (2 : ℚ) ^ k = ((2 : ℚ) ^ (-k).toNat)⁻¹ := by
      conv_lhs => rw [hk]
      rw [zpow_neg, zpow_natCast]
    rw [hz]
    have e : (rneNat (n * 2 ^ (-k).toNat) d : ℚ) * ((2 : ℚ) ^ (-k).toNat)⁻¹ - (n : ℚ) / d =
        ((rneNat (n * 2 ^ (-k).toNat) d : ℚ) - (n : ℚ) * 2 ^ (-k).toNat / d) * ((2 : ℚ) ^ (-k).toNat)⁻¹ := by
      field_simp
    rw [e, abs_mul, abs_of_pos (inv_pos.mpr hj)]
    have hi : (0 : ℚ) < ((2 : ℚ) ^ (-k).toNat)⁻¹ := inv_pos.mpr hj
    nlinarith

/-- **`fl` is within half a unit in the last place**: for `|x| < 2^E` the rounding error is at most `2^(E-54)` -/
theorem fl_err (x : ℚ) (E : Int) (hx : |x| < (2 : ℚ) ^ E) : |fl x - x| ≤ (2 : ℚ) ^ (E - 54) := by
  have hpos : (0 : ℚ) < (2 : ℚ) ^ (E - 54) := by positivity
  unfold fl
  split
  · next h =>
    have : x = 0 := Rat.zero_of_num_zero h
    subst this; simp; exact le_of_lt hpos
  · next h =>
    simp only
    have hd : 0 < x.den := x.den_pos
    have hn : 0 < x.num.natAbs := Int.natAbs_pos.mpr h
    obtain ⟨b1, b2⟩ := binExp_spec x.num.natAbs x.den hn hd
    have habs : |x| = (x.num.natAbs : ℚ) / x.den := by
      conv_lhs => rw [← Rat.num_div_den x]
      rw [abs_div, abs_of_pos (by exact_mod_cast hd : (0 : ℚ) < x.den)]
      congr 1
      rw [← Int.cast_abs, Int.abs_eq_natAbs]; simp
    have hE : binExp x.num.natAbs x.den ≤ E := by
      by_contra hc
      have : E ≤ binExp x.num.natAbs x.den - 1 := by omega
      have := zpow_le_zpow_right₀ (by norm_num : (1 : ℚ) ≤ 2) this
      rw [habs] at hx
      linarith
    have hs := sig_err x.num.natAbs x.den hd (binExp x.num.natAbs x.den - 53)
    rw [scale2_eq]
    have hk : (2 : ℚ) ^ (binExp x.num.natAbs x.den - 53) / 2 ≤ (2 : ℚ) ^ (E - 54) := by
      have : (2 : ℚ) ^ (binExp x.num.natAbs x.den - 53) / 2 = (2 : ℚ) ^ (binExp x.num.natAbs x.den - 54) := by
        rw [show binExp x.num.natAbs x.den - 54 = binExp x.num.natAbs x.den - 53 - 1 by ring, zpow_sub_one₀ (by norm_num)]
        rw [div_eq_mul_inv]
      rw [this]
      exact zpow_le_zpow_right₀ (by norm_num) (by omega)
    obtain ⟨S, hS⟩ : ∃ S : ℚ, S = (sig x.num.natAbs x.den (binExp x.num.natAbs x.den - 53) : ℚ) * (2 : ℚ) ^ (binExp x.num.natAbs x.den - 53) := ⟨_, rfl⟩
    rw [← hS] at hs ⊢
    obtain ⟨a, ha⟩ : ∃ a : ℚ, a = (x.num.natAbs : ℚ) / x.den := ⟨_, rfl⟩
    rw [← ha] at hs habs
    have hs' := abs_le.mp hs
    split
    · next hneg =>
      have hxn : x = -a := by
        rw [← habs, abs_of_neg (Rat.num_neg.mp hneg)]; ring
      rw [abs_le]
      constructor <;> linarith [hs'.1, hs'.2]
    · next hneg =>
      have hxn : x = a := by
        rw [← habs, abs_of_nonneg]
        have : 0 ≤ x.num := by omega
        exact Rat.num_nonneg.mp this
      rw [abs_le]
      constructor <;> linarith [hs'.1, hs'.2]

/-! ### the two sums of `Date.__init__` -/

theorem two_pow_neg (k : Nat) : (2 : ℚ) ^ (-(k : Int)) = 1 / 2 ^ k := by
  rw [zpow_neg, zpow_natCast, one_div]

/-- `mjd = d + s / 86400.0` in doubles is within `2^-38 + 2^-53` day (0.31 µs) of the exact sum -/
theorem mjdF_err (d : Int) (s : ℚ) (hd : 0 ≤ d ∧ d ≤ 65533) (hs : |s| < 172800) :
    |mjdF d s - ((d : ℚ) + s / 86400)| ≤ 1 / 2 ^ 38 + 1 / 2 ^ 53 := by
  have h1 : |s / 86400| < (2 : ℚ) ^ (1 : Int) := by
    rw [abs_div, abs_of_pos (by norm_num : (0 : ℚ) < 86400), div_lt_iff₀ (by norm_num)]
    norm_num; linarith
  have e1 := fl_err (s / 86400) 1 h1
  rw [show ((1 : Int) - 54) = -((53 : Nat) : Int) by norm_num, two_pow_neg] at e1
  have hdq : (0 : ℚ) ≤ d ∧ (d : ℚ) ≤ 65533 := ⟨by exact_mod_cast hd.1, by exact_mod_cast hd.2⟩
  have a1 := abs_le.mp e1
  have a0 := abs_lt.mp h1
  norm_num at a0
  have h2 : |(d : ℚ) + fl (s / 86400)| < (2 : ℚ) ^ (16 : Int) := by
    rw [abs_lt]; norm_num
    constructor <;> nlinarith [a1.1, a1.2, a0.1, a0.2]
  have e2 := fl_err ((d : ℚ) + fl (s / 86400)) 16 h2
  rw [show ((16 : Int) - 54) = -((38 : Nat) : Int) by norm_num, two_pow_neg] at e2
  have a2 := abs_le.mp e2
  unfold mjdF
  rw [abs_le]
  constructor <;> linarith [a1.1, a1.2, a2.1, a2.2]

/-- `mjd_utc = mjd + offset / 86400.0` in doubles is within `2^-37 + 2^-52` day (0.63 µs) of the exact UTC reading -/
theorem mjdU_err (d : Int) (s o : ℚ) (hd : 0 ≤ d ∧ d ≤ 65533) (hs : |s| < 172800) (ho : |o| < 128) :
    |fl (mjdF d s + fl (o / 86400)) - ((d : ℚ) + s / 86400 + o / 86400)| ≤ 1 / 2 ^ 37 + 1 / 2 ^ 52 := by
  have hm := abs_le.mp (mjdF_err d s hd hs)
  have h1 : |o / 86400| < (2 : ℚ) ^ (-9 : Int) := by
    rw [abs_div, abs_of_pos (by norm_num : (0 : ℚ) < 86400), div_lt_iff₀ (by norm_num)]
    norm_num; linarith
  have e1 := fl_err (o / 86400) (-9) h1
  rw [show ((-9 : Int) - 54) = -((63 : Nat) : Int) by norm_num, two_pow_neg] at e1
  have a1 := abs_le.mp e1
  have a0 := abs_lt.mp h1
  norm_num at a0
  have hdq : (0 : ℚ) ≤ d ∧ (d : ℚ) ≤ 65533 := ⟨by exact_mod_cast hd.1, by exact_mod_cast hd.2⟩
  have s0 := abs_lt.mp hs
  have h2 : |mjdF d s + fl (o / 86400)| < (2 : ℚ) ^ (16 : Int) := by
    rw [abs_lt]; norm_num
    constructor <;> nlinarith [a1.1, a1.2, a0.1, a0.2, hm.1, hm.2, s0.1, s0.2]
  have e2 := fl_err (mjdF d s + fl (o / 86400)) 16 h2
  rw [show ((16 : Int) - 54) = -((38 : Nat) : Int) by norm_num, two_pow_neg] at e2
  have a2 := abs_le.mp e2
  rw [abs_le]
  constructor <;> nlinarith [a1.1, a1.2, a2.1, a2.2, hm.1, hm.2]

/-- `int(x)` of a non-negative double is its floor -/
theorem truncR_eq_floor (x : ℚ) (h : 0 ≤ x) : truncR x = ⌊x⌋ := by
  unfold truncR
  rw [Rat.floor_def', Int.tdiv_eq_ediv_of_nonneg (Rat.num_nonneg.mpr h)]

/-- `int(·)` does not see an error smaller than the distance to the day boundary -/
theorem truncR_stable (m y : ℚ) (day : Int) (ε : ℚ) (h0 : 0 ≤ day) (h : |m - y| ≤ ε) (h1 : (day : ℚ) + ε ≤ y)
    (h2 : y < (day : ℚ) + 1 - ε) : truncR m = day := by
  have a := abs_le.mp h
  have hd : (0 : ℚ) ≤ day := by exact_mod_cast h0
  have hm : 0 ≤ m := by linarith
  rw [truncR_eq_floor m hm, Int.floor_eq_iff]
  constructor <;> linarith

end BeyondVerif.Date
