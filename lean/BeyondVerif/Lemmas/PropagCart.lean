import BeyondVerif.Model.PropagR
import BeyondVerif.Lemmas.Angle
import BeyondVerif.Lemmas.TwoBody3D
import Mathlib.Analysis.SpecialFunctions.Trigonometric.DerivHyp
import Mathlib.Tactic.Ring
import Mathlib.Tactic.FieldSimp
import Mathlib.Tactic.Linarith
import Mathlib.Tactic.LinearCombination

/-!
What the library's `keplerian_eccentric → keplerian → cartesian` conversion (translated from forms.py on every run:
`kpEccToKepl`, `kpKeplToCart` of Generated/PropagR.lean) computes, in closed form: the perifocal coordinates
`(X, Y)` and velocities `(U, V)` of the textbook, placed in space along the constant vectors `P, Q` of Lemmas/TwoBody3D.lean.
These lemmas are about the REGENERATED terms: a changed sign, factor or angle in forms.py breaks them.
-/
noncomputable section
set_option linter.unusedVariables false
namespace BeyondVerif.PropagCart
open BeyondVerif.R BeyondVerif.NumReal BeyondVerif.TwoBody3D

/-- the six components of a state given by planar position `(X, Y)` and velocity `(U, V)` rotated into the frame -/
def place (i Ω ω X Y U V : ℝ) : List ℝ :=
  [X * P1 i Ω ω + Y * Q1 i Ω ω, X * P2 i Ω ω + Y * Q2 i Ω ω, X * P3 i Ω ω + Y * Q3 i Ω ω,
   U * P1 i Ω ω + V * Q1 i Ω ω, U * P2 i Ω ω + V * Q2 i Ω ω, U * P3 i Ω ω + V * Q3 i Ω ω]

/-- **`Form._keplerian_to_cartesian`, closed form** (any conic, any true anomaly with `1 + e cos ν ≠ 0`, `p = a(1−e²) ≠ 0`):
position `r (cos ν P + sin ν Q)`, `r = p/(1 + e cos ν)`; velocity `(h/p) (−sin ν P + (e + cos ν) Q)`, `h = √(µ p)`. -/
theorem kpKeplToCart_eq (mu a e i Ω ω ν : ℝ) (hp : a * (1 - e ^ 2) ≠ 0) (hD : 1 + e * Real.cos ν ≠ 0) :
    kpKeplToCart mu a e i Ω ω ν =
      place i Ω ω
        (a * (1 - e ^ 2) / (1 + e * Real.cos ν) * Real.cos ν) (a * (1 - e ^ 2) / (1 + e * Real.cos ν) * Real.sin ν)
        (Real.sqrt (mu * (a * (1 - e ^ 2))) / (a * (1 - e ^ 2)) * (-Real.sin ν))
        (Real.sqrt (mu * (a * (1 - e ^ 2))) / (a * (1 - e ^ 2)) * (e + Real.cos ν)) := by
  have hsc := Real.sin_sq_add_cos_sq ν
  have hV : e + Real.cos ν = e * (Real.sin ν ^ 2 + Real.cos ν ^ 2) + Real.cos ν := by rw [hsc]; ring
  rw [hV]
  simp only [kpKeplToCart, place, powi, cos, sin, sqrt, Real.cos_add, Real.sin_add, P1, P2, P3, Q1, Q2, Q3]
  generalize Real.sqrt (mu * (a * (1 - e ^ 2))) = h
  generalize a * (1 - e ^ 2) = p at hp ⊢
  generalize Real.cos ν = cν at hD ⊢
  generalize Real.sin ν = sν
  simp only [List.cons.injEq, and_true]
  refine ⟨?_, ?_, ?_, ?_, ?_, ?_⟩ <;> first | (field_simp; ring) | field_simp

/-- the angle `fmod (atan2 s c) (2π)` computed from a unit pair has that cosine and sine -/
theorem cos_sin_nu {c s : ℝ} (h : c ^ 2 + s ^ 2 = 1) :
    Real.cos (fmod (atan2 s c) (pi * 2)) = c ∧ Real.sin (fmod (atan2 s c) (pi * 2)) = s := by
  have h1 := Ang.fmod_pi_two_angEq (atan2 s c)
  have h2 := Ang.atan2_unit h
  exact ⟨h1.1.trans h2.1, h1.2.trans h2.2⟩

/-! ### Ellipse -/

/-- **`Form._keplerian_eccentric_to_keplerian`, ellipse**: the true anomaly returned has
`cos ν = (cos E − e)/(1 − e cos E)`, `sin ν = √(1−e²) sin E/(1 − e cos E)`; the other five elements are handed on. -/
theorem kpEccToKepl_elliptic (mu a e i Ω ω E : ℝ) (h0 : 0 ≤ e) (h1 : e < 1) :
    ∃ ν, kpEccToKepl mu a e i Ω ω E = [a, e, i, Ω, ω, ν] ∧
      Real.cos ν = (Real.cos E - e) / (1 - e * Real.cos E) ∧
      Real.sin ν = Real.sin E * Real.sqrt (1 - e ^ 2) / (1 - e * Real.cos E) := by
  have hD : 0 < 1 - e * Real.cos E := by nlinarith [Real.neg_one_le_cos E, Real.cos_le_one E]
  have hs : (0 : ℝ) ≤ 1 - e ^ 2 := by nlinarith
  have hunit : ((Real.cos E - e) / (1 - e * Real.cos E)) ^ 2
      + (Real.sin E * Real.sqrt (1 - e ^ 2) / (1 - e * Real.cos E)) ^ 2 = 1 := by
    rw [div_pow, div_pow, mul_pow, Real.sq_sqrt hs, ← add_div, div_eq_one_iff_eq (pow_ne_zero 2 hD.ne')]
    linear_combination (1 - e ^ 2) * Real.sin_sq_add_cos_sq E
  obtain ⟨hc, hsn⟩ := cos_sin_nu hunit
  refine ⟨_, ?_, hc, hsn⟩
  simp only [kpEccToKepl, if_pos h1, powi, cos, sin, sqrt]

/-- **mean elements + eccentric anomaly ↦ cartesian, ellipse** (the code's two edges composed): the state is the textbook
perifocal position `(a (cos E − e), a √(1−e²) sin E)` and velocity `(−a n sin E, a n √(1−e²) cos E)/(1 − e cos E)`,
`n² a³ = µ`, rotated by `Ω, i, ω`. -/
theorem cart_elliptic (mu a e i Ω ω E n : ℝ) (ha : 0 < a) (h0 : 0 ≤ e) (h1 : e < 1) (hn : 0 ≤ n) (hmu : n ^ 2 * a ^ 3 = mu) :
    app6 kpKeplToCart mu (app6 kpEccToKepl mu [a, e, i, Ω, ω, E]) =
      place i Ω ω (a * (Real.cos E - e)) (a * Real.sqrt (1 - e ^ 2) * Real.sin E)
        (a * (-Real.sin E * (n / (1 - e * Real.cos E))))
        (a * Real.sqrt (1 - e ^ 2) * (Real.cos E * (n / (1 - e * Real.cos E)))) := by
  obtain ⟨ν, hk, hc, hsn⟩ := kpEccToKepl_elliptic mu a e i Ω ω E h0 h1
  have hD : 0 < 1 - e * Real.cos E := by nlinarith [Real.neg_one_le_cos E, Real.cos_le_one E]
  have hs : (0 : ℝ) < 1 - e ^ 2 := by nlinarith
  have hp : a * (1 - e ^ 2) ≠ 0 := (mul_pos ha hs).ne'
  have h1e : 1 + e * Real.cos ν = (1 - e ^ 2) / (1 - e * Real.cos E) := by
    rw [hc]; field_simp; ring
  have hDν : 1 + e * Real.cos ν ≠ 0 := by rw [h1e]; exact (div_pos hs hD).ne'
  simp only [app6, hk]
  rw [kpKeplToCart_eq mu a e i Ω ω ν hp hDν]
  -- the angular momentum
  obtain ⟨s, hs0, hss⟩ : ∃ s : ℝ, 0 < s ∧ s ^ 2 = 1 - e ^ 2 := ⟨Real.sqrt (1 - e ^ 2), Real.sqrt_pos.mpr hs, Real.sq_sqrt hs.le⟩
  have hsq : Real.sqrt (1 - e ^ 2) = s := by rw [← hss]; exact Real.sqrt_sq hs0.le
  have hh : Real.sqrt (mu * (a * (1 - e ^ 2))) = n * a ^ 2 * s := by
    rw [← hmu, ← hss, show n ^ 2 * a ^ 3 * (a * s ^ 2) = (n * a ^ 2 * s) ^ 2 by ring]
    exact Real.sqrt_sq (by positivity)
  rw [hh, h1e, hc, hsn, hsq, ← hss]
  have hD' := hD.ne'
  have hs' := hs0.ne'
  have ha' := ha.ne'
  unfold place
  simp only [List.cons.injEq, and_true]
  refine ⟨?_, ?_, ?_, ?_, ?_, ?_⟩
  · field_simp
  · field_simp
  · field_simp
  · field_simp; linear_combination (-(n * Real.cos E * Q1 i Ω ω)) * hss
  · field_simp; linear_combination (-(n * Real.cos E * Q2 i Ω ω)) * hss
  · field_simp; linear_combination (-(n * Real.cos E * Q3 i Ω ω)) * hss

/-! ### Hyperbola (`a < 0 < e − 1`) -/

theorem hyp_denom_neg {e : ℝ} (h1 : 1 < e) (H : ℝ) : 1 - e * Real.cosh H < 0 := by
  have := Real.one_le_cosh H
  nlinarith

/-- **`Form._keplerian_eccentric_to_keplerian`, hyperbola**: `cos ν = (cosh H − e)/(1 − e cosh H)`,
`sin ν = −√(e²−1) sinh H/(1 − e cosh H)`. -/
theorem kpEccToKepl_hyperbolic (mu a e i Ω ω H : ℝ) (h1 : 1 < e) :
    ∃ ν, kpEccToKepl mu a e i Ω ω H = [a, e, i, Ω, ω, ν] ∧
      Real.cos ν = (Real.cosh H - e) / (1 - e * Real.cosh H) ∧
      Real.sin ν = -(Real.sinh H * Real.sqrt (e ^ 2 - 1)) / (1 - e * Real.cosh H) := by
  have hD := (hyp_denom_neg h1 H).ne
  have hs : (0 : ℝ) ≤ e ^ 2 - 1 := by nlinarith
  have hunit : ((Real.cosh H - e) / (1 - e * Real.cosh H)) ^ 2
      + (-(Real.sinh H * Real.sqrt (e ^ 2 - 1)) / (1 - e * Real.cosh H)) ^ 2 = 1 := by
    rw [div_pow, div_pow, neg_sq, mul_pow, Real.sq_sqrt hs, ← add_div, div_eq_one_iff_eq (pow_ne_zero 2 hD)]
    linear_combination (1 - e ^ 2) * Real.cosh_sq H
  obtain ⟨hc, hsn⟩ := cos_sin_nu hunit
  refine ⟨_, ?_, hc, hsn⟩
  simp only [kpEccToKepl, if_neg (not_lt.mpr h1.le), powi, cosh, sinh, sqrt]

/-- **mean elements + hyperbolic anomaly ↦ cartesian, hyperbola**: perifocal position `(a (cosh H − e), −a √(e²−1) sinh H)`,
velocity `(a n sinh H, −a n √(e²−1) cosh H)/(e cosh H − 1)`, `−n² a³ = µ`, rotated by `Ω, i, ω`. -/
theorem cart_hyperbolic (mu a e i Ω ω H n : ℝ) (ha : a < 0) (h1 : 1 < e) (hn : 0 ≤ n) (hmu : -(n ^ 2 * a ^ 3) = mu) :
    app6 kpKeplToCart mu (app6 kpEccToKepl mu [a, e, i, Ω, ω, H]) =
      place i Ω ω (a * (Real.cosh H - e)) (-a * Real.sqrt (e ^ 2 - 1) * Real.sinh H)
        (a * (Real.sinh H * (n / (e * Real.cosh H - 1))))
        (-a * Real.sqrt (e ^ 2 - 1) * (Real.cosh H * (n / (e * Real.cosh H - 1)))) := by
  obtain ⟨ν, hk, hc, hsn⟩ := kpEccToKepl_hyperbolic mu a e i Ω ω H h1
  have hD := hyp_denom_neg h1 H
  have hs : (0 : ℝ) < e ^ 2 - 1 := by nlinarith
  have hp : a * (1 - e ^ 2) ≠ 0 := by
    have : 0 < a * (1 - e ^ 2) := by nlinarith
    exact this.ne'
  have hD' : 1 - e * Real.cosh H ≠ 0 := hD.ne
  have h1e : 1 + e * Real.cos ν = (1 - e ^ 2) / (1 - e * Real.cosh H) := by
    rw [hc]; field_simp; ring
  have hDν : 1 + e * Real.cos ν ≠ 0 := by
    rw [h1e]; exact (div_pos_of_neg_of_neg (by linarith) hD).ne'
  simp only [app6, hk]
  rw [kpKeplToCart_eq mu a e i Ω ω ν hp hDν]
  obtain ⟨s, hs0, hss⟩ : ∃ s : ℝ, 0 < s ∧ s ^ 2 = e ^ 2 - 1 := ⟨Real.sqrt (e ^ 2 - 1), Real.sqrt_pos.mpr hs, Real.sq_sqrt hs.le⟩
  have hsq : Real.sqrt (e ^ 2 - 1) = s := by rw [← hss]; exact Real.sqrt_sq hs0.le
  have hh : Real.sqrt (mu * (a * (1 - e ^ 2))) = n * a ^ 2 * s := by
    rw [← hmu, show -(n ^ 2 * a ^ 3) * (a * (1 - e ^ 2)) = (n * a ^ 2) ^ 2 * (e ^ 2 - 1) by ring, ← hss,
      show (n * a ^ 2) ^ 2 * s ^ 2 = (n * a ^ 2 * s) ^ 2 by ring]
    exact Real.sqrt_sq (by positivity)
  have he2 : 1 - e ^ 2 = -(s ^ 2) := by rw [hss]; ring
  rw [hh, h1e, hc, hsn, hsq, he2]
  have hD'' : e * Real.cosh H - 1 ≠ 0 := by intro h; apply hD'; linarith
  have hs' := hs0.ne'
  have ha' := ha.ne
  unfold place
  simp only [List.cons.injEq, and_true]
  have hneg : e * Real.cosh H - 1 = -(1 - e * Real.cosh H) := by ring
  refine ⟨?_, ?_, ?_, ?_, ?_, ?_⟩
  · field_simp
  · field_simp
  · field_simp
  · rw [hneg]; field_simp; linear_combination (-(n * Real.cosh H * Q1 i Ω ω)) * hss
  · rw [hneg]; field_simp; linear_combination (-(n * Real.cosh H * Q2 i Ω ω)) * hss
  · rw [hneg]; field_simp; linear_combination (-(n * Real.cosh H * Q3 i Ω ω)) * hss

end BeyondVerif.PropagCart
