import BeyondVerif.Lemmas.HeapDeep
/-! Framing and freshness lemmas for the copy operations of the heap model. -/
namespace BeyondVerif.Heap

/-- what `copySVWith` needs from the way first-level values are copied -/
structure CpOK (cp : Heap → String → Ref → Res Ref) : Prop where
  pres : ∀ h k r, Pres h (cp h k r).1
  /-- a returned address is new, or it is the address of a maneuver object (returned as it is) -/
  fresh : ∀ h k r r' x, (cp h k r).2 = .ok r' → r' = .addr x → h.length ≤ x ∨ ∃ t, h[x]? = some (.man t)

theorem copyItems_pres {cp} (hcp : CpOK cp) (h : Heap) (items : Items) : Pres h (copyItems cp h items).1 := by
  induction items generalizing h with
  | nil => exact Pres.refl h
  | cons kv rest ih =>
    obtain ⟨k, v⟩ := kv
    unfold copyItems
    have p1 := hcp.pres h k v
    split
    · exact ih h
    split
    · rename_i h1 e he; rw [he] at p1; exact p1
    · rename_i h1 v' he
      rw [he] at p1
      have p2 := ih h1
      split
      · rename_i h2 e he2; rw [he2] at p2; exact p1.trans p2
      · rename_i h2 r' he2; rw [he2] at p2; exact p1.trans p2

/-- every address stored in the copied dict is new, or is a maneuver object of the old heap -/
theorem copyItems_fresh {cp} (hcp : CpOK cp) (h : Heap) (items items' : Items) (h' : Heap)
    (hr : copyItems cp h items = (h', .ok items')) :
    ∀ k x, (k, Ref.addr x) ∈ items' → h.length ≤ x ∨ ∃ t, h[x]? = some (.man t) := by
  induction items generalizing h items' h' with
  | nil =>
    simp [copyItems] at hr
    intro k x hm; rw [hr.2] at hm; simp at hm
  | cons kv rest ih =>
    obtain ⟨k0, v⟩ := kv
    unfold copyItems at hr
    have p1 := hcp.pres h k0 v
    have f1 := hcp.fresh h k0 v
    split at hr
    · exact ih h items' h' hr
    split at hr
    · simp at hr
    · rename_i h1 v' he
      rw [he] at p1 f1
      split at hr
      · simp at hr
      · rename_i h2 rest' he2
        simp at hr
        intro k x hm
        rw [← hr.2] at hm
        rcases List.mem_cons.mp hm with hhead | htail
        · have : v' = Ref.addr x := by injection hhead with _ h2'; exact h2'.symm ▸ rfl
          exact f1 v' x rfl this
        · rcases ih h1 rest' h2 he2 k x htail with hx | ⟨t, ht⟩
          · left; exact Nat.le_trans p1.1 hx
          · by_cases hlt : x < h.length
            · right; exact ⟨t, by rw [← p1.2 x hlt]; exact ht⟩
            · left; omega

theorem copySVWith_pres {cp} (hcp : CpOK cp) (h : Heap) (a : Nat) : Pres h (copySVWith cp h a).1 := by
  unfold copySVWith
  split
  · exact Pres.refl h
  · rename_i s hs
    have p := copyItems_pres hcp h s.items
    split
    · rename_i h1 e he; rw [he] at p; exact p
    · rename_i h1 items' he
      rw [he] at p
      exact ((p.alloc _).alloc _).alloc _

/-- shape of a successful copy: three new cells — buffer, dict, object — after whatever the value copies allocated -/
theorem copySVWith_spec {cp} (hcp : CpOK cp) (h h1 : Heap) (a n : Nat) (hr : copySVWith cp h a = (h1, .ok n)) :
    ∃ s items' h0, getSV h a = some s ∧ copyItems cp h s.items = (h0, .ok items') ∧ h.length ≤ h0.length ∧
      n = h0.length + 2 ∧
      h1 = h0 ++ [.buf s.val] ++ [.dict items'] ++ [.sv s.orbit h0.length (h0.length + 1)] := by
  unfold copySVWith at hr
  split at hr
  · simp at hr
  · rename_i s hs
    have p := copyItems_pres hcp h s.items
    split at hr
    · simp at hr
    · rename_i h0 items' he
      rw [he] at p
      simp [alloc] at hr
      refine ⟨s, items', h0, hs, he, p.1, ?_, ?_⟩
      · omega
      · rw [← hr.1]; simp

/-- reading back the object a successful copy returned -/
theorem copySVWith_getSV {cp} (hcp : CpOK cp) (h h1 : Heap) (a n : Nat) (s' : SV)
    (hr : copySVWith cp h a = (h1, .ok n)) (hg : getSV h1 n = some s') :
    h.length ≤ s'.buf ∧ h.length ≤ s'.data ∧ h.length ≤ n ∧ s'.buf ≠ s'.data ∧
    ∃ s items' h0, getSV h a = some s ∧ copyItems cp h s.items = (h0, .ok items') ∧
      s'.val = s.val ∧ s'.items = items' ∧ s'.orbit = s.orbit := by
  obtain ⟨s, items', h0, hs, hc, hlen, hn, hh⟩ := copySVWith_spec hcp h h1 a n hr
  subst hn hh
  unfold getSV at hg
  simp at hg
  split at hg
  · rename_i f fr hf hfr
    simp at hg
    subst hg
    exact ⟨by simp; omega, by simp; omega, by omega, by simp, s, items', h0, hs, hc, rfl, rfl, rfl⟩
  · simp at hg

end BeyondVerif.Heap

namespace BeyondVerif.Heap

/-- `deepcopy(v)`: the old heap is intact and the result is a new cell -/
theorem deepVal_spec (h : Heap) (r : Ref) :
    Pres h (deepVal h r).1 ∧ ∀ r' x, (deepVal h r).2 = .ok r' → r' = .addr x → h.length ≤ x := by
  have inv0 : DeepInv (fun _ => True) h { h := h } := ⟨Pres.refl h, ClosedP.refl _ h, by simp⟩
  have hd := deepRef_ok (P := fun _ => True) (h0 := h) (fun _ _ => trivial) deepFuel { h := h } r inv0
  unfold deepVal
  split
  · rename_i st r' he
    rw [he] at hd
    exact ⟨hd.1.pres, fun r'' x h1 h2 => by simp at h1; subst h1; subst h2; exact hd.2 x rfl⟩
  · rename_i st he
    rw [he] at hd
    exact ⟨hd.1.pres, fun r'' x h1 _ => by simp at h1⟩

theorem copyRef_pres_step (fuel : Nat) (ih : CpOK (copyRef fuel)) (h : Heap) (k : String) (r : Ref) :
    Pres h (copyRef (fuel + 1) h k r).1 := by
  unfold copyRef
  split
  · exact (deepVal_spec h r).1
  · split
    · rename_i a hcond
      split
      · exact alloc_pres h _
      · exact alloc_pres h _
      · exact alloc_pres h _
      · exact alloc_pres h _
      · exact Pres.refl h
      · rename_i cb cfr orb ofr hc
        split
        · rename_i o cv ho hcb
          have p := copySVWith_pres ih h orb
          split
          · rename_i h1 e he; rw [he] at p; exact p
          · rename_i h1 o' he
            rw [he] at p
            split
            · exact p
            · rename_i s' hs'
              obtain ⟨hb, hd, _, _, _⟩ := copySVWith_getSV ih h h1 orb o' s' he hs'
              exact (((p.wr hb _).wr hd _).alloc _).alloc _
        · exact Pres.refl h
      · have p := copySVWith_pres ih h a
        split
        · rename_i h1 e he; rw [he] at p; exact p
        · rename_i h1 n he; rw [he] at p; exact p
      · exact Pres.refl h
    · exact Pres.refl h

theorem copyRef_fresh_step (fuel : Nat) (ih : CpOK (copyRef fuel)) (h : Heap) (k : String) (r r' : Ref) (x : Nat)
    (hr : (copyRef (fuel + 1) h k r).2 = .ok r') (hx : r' = .addr x) :
    h.length ≤ x ∨ ∃ t, h[x]? = some (.man t) := by
  unfold copyRef at hr
  split at hr
  · left; exact (deepVal_spec h r).2 r' x hr hx
  · split at hr
    · rename_i a hcond
      split at hr
      · simp [alloc] at hr; subst hr; injection hx with hx; left; omega
      · simp [alloc] at hr; subst hr; injection hx with hx; left; omega
      · simp [alloc] at hr; subst hr; injection hx with hx; left; omega
      · simp [alloc] at hr; subst hr; injection hx with hx; left; omega
      · rename_i t hc
        simp at hr; subst hr; injection hx with hx; subst hx; right; exact ⟨t, hc⟩
      · rename_i cb cfr orb ofr hc
        split at hr
        · rename_i o cv ho hcb
          have p := copySVWith_pres ih h orb
          split at hr
          · simp at hr
          · rename_i h1 o' he
            rw [he] at p
            split at hr
            · simp at hr
            · simp [alloc, write] at hr
              subst hr; injection hx with hx; left
              have hp : h.length ≤ h1.length := p.1
              omega
        · simp at hr
      · split at hr
        · simp at hr
        · rename_i h1 n he
          simp at hr; subst hr; injection hx with hx; subst hx
          obtain ⟨s, items', h0, _, _, hlen, hn, _⟩ := copySVWith_spec ih h h1 a n he
          left; omega
      · simp at hr
    · rename_i hna
      simp at hr; subst hr; subst hx
      exact absurd rfl (hna x)

theorem copyRef_ok : ∀ fuel, CpOK (copyRef fuel)
  | 0 => ⟨fun h _ _ => by unfold copyRef; exact Pres.refl h, fun h k r r' x hr _ => by unfold copyRef at hr; simp at hr⟩
  | fuel + 1 => ⟨copyRef_pres_step fuel (copyRef_ok fuel), copyRef_fresh_step fuel (copyRef_ok fuel)⟩

end BeyondVerif.Heap
