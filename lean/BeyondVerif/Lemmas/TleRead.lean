import BeyondVerif.Lemmas.TleWrite
/-! Lemmas about reading back what the writer produced: column slices of chunk lists, `int()` / `float()` of the
padded renderings. No Mathlib. -/
namespace BeyondVerif.Tle

/-! ### slices of chunk lists -/

theorem slice_chunk (pre : List Str) (f : Str) (post : List Str) (tl : Str) (a b : Nat)
    (ha : (pre.map List.length).sum = a) (hb : a + f.length = b) :
    slice ((pre ++ f :: post).flatten ++ tl) (a, b) = f := by
  have hp : pre.flatten.length = a := by
    rw [← ha]; clear ha
    induction pre with
    | nil => rfl
    | cons x xs ih => simp [ih]
  unfold slice
  simp only [List.flatten_append, List.flatten_cons]
  have e : pre.flatten ++ (f ++ post.flatten) ++ tl = (pre.flatten ++ f) ++ (post.flatten ++ tl) := by simp
  rw [e, List.take_left' (by simp; omega), List.drop_left' hp]

/-! ### blanks -/

theorem dropWhile_replicate_ws (k : Nat) (t : Str) : (List.replicate k ' ' ++ t).dropWhile isWs = t.dropWhile isWs := by
  induction k with
  | zero => simp
  | succ k ih =>
    rw [List.replicate_succ, List.cons_append, List.dropWhile_cons]
    have : isWs ' ' = true := by decide
    simp [this, ih]

theorem strip_replicate_left (k : Nat) (s : Str) : strip (List.replicate k ' ' ++ s) = strip s := by
  unfold strip lstrip
  rw [dropWhile_replicate_ws]

theorem rstrip_replicate_right (k : Nat) (s : Str) : rstrip (s ++ List.replicate k ' ') = rstrip s := by
  unfold rstrip
  rw [List.reverse_append, List.reverse_replicate, dropWhile_replicate_ws]

theorem strip_padLeft (w : Nat) (s : Str) : strip (padLeft ' ' w s) = strip s := strip_replicate_left _ _

theorem strip_padRight (w : Nat) (s : Str) (hs : strip s = s) : strip (padRight ' ' w s) = s := by
  unfold padRight
  cases s with
  | nil =>
    have := strip_replicate_left (w - 0) []
    simp at this ⊢
    rw [show List.replicate w ' ' = List.replicate w ' ' ++ [] by simp, strip_replicate_left]; rfl
  | cons c cs =>
    have hc : isWs c = false := ((strip_eq_iff (c :: cs)).1 hs).1 c (by simp)
    unfold strip
    rw [show (c :: cs) ++ List.replicate (w - (c :: cs).length) ' ' = c :: (cs ++ List.replicate (w - (c :: cs).length) ' ') by simp,
      lstrip_cons_of_not_ws hc, ← List.cons_append, rstrip_replicate_right]
    have : lstrip (c :: cs) = c :: cs := lstrip_cons_of_not_ws hc
    unfold strip at hs
    rw [this] at hs
    exact hs

theorem strip_digits {s : Str} (h : ∀ c ∈ s, isDigit c = true) : strip s = s := by
  rw [strip_eq_iff]
  constructor
  · intro c hc; exact isWs_of_isDigit (h c (List.mem_of_getElem? hc))
  · intro c hc; exact isWs_of_isDigit (h c (List.mem_of_getElem? hc))

theorem strip_ends' (a z : Char) (M : Str) (ha : isWs a = false) (hz : isWs z = false) :
    strip (a :: (M ++ [z])) = a :: (M ++ [z]) := by
  apply strip_of_ends (a := a) (z := z) _ _ ha hz
  · simp
  · rw [show a :: (M ++ [z]) = (a :: M) ++ [z] by simp]
    simp

/-! ### `int()` -/

theorem splitSign_digit {c : Char} {t : Str} (h : isDigit c = true) : splitSign (c :: t) = (false, c :: t) := by
  have := isDigit_not_sign h
  unfold splitSign
  split
  · next heq => cases heq; exact absurd rfl this.2.1
  · next heq => cases heq; exact absurd rfl this.1
  · rfl

theorem pyInt_digits {s : Str} {n : Nat} (hne : s ≠ []) (hd : ∀ c ∈ s, isDigit c = true) (hv : digitsValAux s 0 = some n) :
    pyInt s = .ok (n : Int) := by
  unfold pyInt
  rw [strip_digits hd]
  cases s with
  | nil => exact absurd rfl hne
  | cons c t =>
    rw [splitSign_digit (hd c (by simp))]
    simp [digitsVal, hv]

theorem digitsValAux_zeros (k : Nat) (s : Str) : digitsValAux (List.replicate k '0' ++ s) 0 = digitsValAux s 0 := by
  induction k with
  | zero => simp
  | succ k ih =>
    rw [List.replicate_succ, List.cons_append]
    simp only [digitsValAux]
    have : isDigit '0' = true := by decide
    have h0 : digitVal '0' = 0 := by decide
    simp [this, h0, ih]

theorem pyInt_padLeft_zero (w n : Nat) : pyInt (padLeft '0' w (natStr n)) = .ok (n : Int) := by
  apply pyInt_digits
  · simp [padLeft, natStr_ne_nil]
  · intro c hc
    simp only [padLeft, List.mem_append, List.mem_replicate] at hc
    rcases hc with ⟨_, rfl⟩ | hc
    · decide
    · exact natStr_all_digits n c hc
  · unfold padLeft; rw [digitsValAux_zeros, digitsValAux_natStr]

theorem pyInt_padLeft_space (w n : Nat) : pyInt (padLeft ' ' w (natStr n)) = .ok (n : Int) := by
  have h := pyInt_digits (natStr_ne_nil n) (natStr_all_digits n) (digitsValAux_natStr n)
  unfold pyInt at h ⊢
  rw [strip_padLeft]
  exact h

theorem pyInt_fixedDigits (k n : Nat) (hk : 0 < k) : pyInt (fixedDigits k n) = .ok ((n % 10 ^ k : Nat) : Int) := by
  apply pyInt_digits
  · intro h; have := fixedDigits_length k n; rw [h] at this; simp at this; omega
  · exact fixedDigits_all_digits k n
  · rw [digitsValAux_fixedDigits]; simp

/-! ### `float()` -/

theorem takeWhile_digits_dot (D R : Str) (h : ∀ c ∈ D, isDigit c = true) :
    (D ++ '.' :: R).takeWhile isDigit = D ∧ (D ++ '.' :: R).dropWhile isDigit = '.' :: R := by
  induction D with
  | nil =>
    have : isDigit '.' = false := by decide
    simp [this]
  | cons c cs ih =>
    have hc := h c (by simp)
    obtain ⟨i1, i2⟩ := ih (fun x hx => h x (by simp [hx]))
    simp [hc, i1, i2]

/-- `float()` of `digits . digits` (no sign, no blank) -/
theorem pyFloatCore_plain (c : Char) (t F : Str) (hD : ∀ x ∈ c :: t, isDigit x = true) (_hF : ∀ x ∈ F, isDigit x = true)
    (n : Nat) (hv : digitsValAux ((c :: t) ++ F) 0 = some n) :
    pyFloatCore ((c :: t) ++ '.' :: F) = .ok ⟨false, n, F.length⟩ := by
  unfold pyFloatCore
  rw [show (c :: t) ++ '.' :: F = c :: (t ++ '.' :: F) by simp, splitSign_digit (hD c (by simp))]
  obtain ⟨h1, h2⟩ := takeWhile_digits_dot (c :: t) F hD
  rw [show c :: (t ++ '.' :: F) = (c :: t) ++ '.' :: F by simp]
  simp only [h1, h2, hv]
  simp

theorem fmtFix_read (z : Bool) (w p v : Nat) (hp : 0 < p) :
    pyFloat (fmtFix z w p v) = .ok ⟨false, v, p⟩ := by
  have hval : ∀ (Z : Str), (∀ x ∈ Z, x = '0') →
      digitsValAux ((Z ++ natStr (v / 10 ^ p)) ++ fixedDigits p v) 0 = some v := by
    intro Z hZ
    have hz : Z = List.replicate Z.length '0' := List.eq_replicate_iff.2 ⟨rfl, hZ⟩
    rw [List.append_assoc, hz, digitsValAux_zeros, digitsValAux_append, digitsValAux_natStr]
    simp only [Option.bind_some, digitsValAux_fixedDigits, Option.some.injEq]
    have := Nat.div_add_mod v (10 ^ p)
    rw [Nat.mul_comm] at this; exact this
  have hcore : ∀ (Z : Str), (∀ x ∈ Z, x = '0') →
      pyFloatCore ((Z ++ natStr (v / 10 ^ p)) ++ '.' :: fixedDigits p v) = .ok ⟨false, v, p⟩ := by
    intro Z hZ
    have hD : ∀ x ∈ Z ++ natStr (v / 10 ^ p), isDigit x = true := by
      intro x hx; simp only [List.mem_append] at hx
      rcases hx with hx | hx
      · rw [hZ x hx]; decide
      · exact natStr_all_digits _ x hx
    cases hh : Z ++ natStr (v / 10 ^ p) with
    | nil => simp at hh; exact absurd hh.2 (natStr_ne_nil _)
    | cons c t =>
      rw [hh] at hD
      have := pyFloatCore_plain c t (fixedDigits p v) hD (fixedDigits_all_digits p v) v (by rw [← hh]; exact hval Z hZ)
      rw [this, fixedDigits_length]
  unfold pyFloat fmtFix
  cases z with
  | false =>
    simp only [Bool.false_eq_true, if_false]
    rw [strip_padLeft]
    have hs : strip (natStr (v / 10 ^ p) ++ '.' :: fixedDigits p v) = natStr (v / 10 ^ p) ++ '.' :: fixedDigits p v := by
      obtain ⟨c, hc, t, ht⟩ := natStr_head (v / 10 ^ p)
      have hfl := fixedDigits_length p v
      rcases List.eq_nil_or_concat (fixedDigits p v) with hfd | ⟨init, z', hfd⟩
      · rw [hfd] at hfl; simp at hfl; omega
      · rw [List.concat_eq_append] at hfd
        have hz' : isDigit z' = true := fixedDigits_all_digits p v z' (by rw [hfd]; simp)
        rw [hfd]
        apply strip_of_ends (a := c) (z := z') _ _ (isWs_of_isDigit hc) (isWs_of_isDigit hz')
        · rw [ht]; simp
        · simp
    rw [hs]
    have := hcore [] (by simp)
    simpa using this
  | true =>
    simp only [if_true, padLeft]
    have hs : strip (List.replicate (w - (natStr (v / 10 ^ p) ++ '.' :: fixedDigits p v).length) '0' ++ (natStr (v / 10 ^ p) ++ '.' :: fixedDigits p v))
        = List.replicate (w - (natStr (v / 10 ^ p) ++ '.' :: fixedDigits p v).length) '0' ++ (natStr (v / 10 ^ p) ++ '.' :: fixedDigits p v) := by
      obtain ⟨c, hc, t, ht⟩ := natStr_head (v / 10 ^ p)
      have hfl := fixedDigits_length p v
      rcases List.eq_nil_or_concat (fixedDigits p v) with hfd | ⟨init, z', hfd⟩
      · rw [hfd] at hfl; simp at hfl; omega
      · rw [List.concat_eq_append] at hfd
        have hz' : isDigit z' = true := fixedDigits_all_digits p v z' (by rw [hfd]; simp)
        rw [hfd]
        generalize (w - (natStr (v / 10 ^ p) ++ '.' :: (init ++ [z'])).length) = k
        cases k with
        | zero =>
          rw [ht]
          have := strip_ends' c z' (t ++ '.' :: init) (isWs_of_isDigit hc) (isWs_of_isDigit hz')
          simpa using this
        | succ k =>
          have := strip_ends' '0' z' (List.replicate k '0' ++ (natStr (v / 10 ^ p) ++ '.' :: init)) (by decide) (isWs_of_isDigit hz')
          simpa [List.replicate_succ] using this
    rw [hs]
    have := hcore (List.replicate (w - (natStr (v / 10 ^ p) ++ '.' :: fixedDigits p v).length) '0')
      (by intro x hx; exact (List.mem_replicate.1 hx).2)
    simpa using this


theorem fixedDigits_ends (k n : Nat) (hk : 0 < k) : ∃ c t, fixedDigits k n = c :: t ∧ isDigit c = true ∧
    ∃ init z, fixedDigits k n = init ++ [z] ∧ isDigit z = true := by
  have hl := fixedDigits_length k n
  cases h : fixedDigits k n with
  | nil => rw [h] at hl; simp at hl; omega
  | cons c t =>
    refine ⟨c, t, rfl, fixedDigits_all_digits k n c (by rw [h]; simp), ?_⟩
    rcases List.eq_nil_or_concat (c :: t) with h' | ⟨init, z, h'⟩
    · cases h'
    · rw [List.concat_eq_append] at h'
      exact ⟨init, z, h', fixedDigits_all_digits k n z (by rw [h, h']; simp)⟩

theorem strip_fixedDigits (k n : Nat) : strip (fixedDigits k n) = fixedDigits k n := strip_digits (fixedDigits_all_digits k n)

/-- `float(".digits")`, optionally signed -/
theorem pyFloatCore_dot (k n : Nat) (hk : 0 < k) :
    pyFloatCore ('.' :: fixedDigits k n) = .ok ⟨false, n % 10 ^ k, k⟩ ∧
    pyFloatCore ('-' :: '.' :: fixedDigits k n) = .ok ⟨true, n % 10 ^ k, k⟩ ∧
    pyFloatCore ('+' :: '.' :: fixedDigits k n) = .ok ⟨false, n % 10 ^ k, k⟩ := by
  obtain ⟨c, t, hct, _, _⟩ := fixedDigits_ends k n hk
  have hne : fixedDigits k n ≠ [] := by rw [hct]; simp
  have hv := digitsValAux_fixedDigits k n 0
  have hd : isDigit '.' = false := by decide
  refine ⟨?_, ?_, ?_⟩ <;>
    simp [pyFloatCore, splitSign, hd, hne, hv, fixedDigits_length]

theorem ndot_read (neg : Bool) (v : Nat) (h : v < 100000000) :
    pyFloat (padLeft ' ' 10 (fmtNdot neg v)) = .ok ⟨neg, v, 8⟩ := by
  unfold pyFloat
  rw [strip_padLeft, fmtNdot_eq neg v h]
  obtain ⟨_, _, _, _, init, z, hiz, hz⟩ := fixedDigits_ends 8 v (by omega)
  obtain ⟨p1, p2, _⟩ := pyFloatCore_dot 8 v (by omega)
  have hmod : v % 10 ^ 8 = v := Nat.mod_eq_of_lt (by omega)
  cases neg with
  | true =>
    simp only [if_true]
    have : strip ('-' :: '.' :: fixedDigits 8 v) = '-' :: '.' :: fixedDigits 8 v := by
      rw [hiz]; have := strip_ends' '-' z ('.' :: init) (by decide) (isWs_of_isDigit hz); simpa using this
    rw [this, p2, hmod]; rfl
  | false =>
    simp only [Bool.false_eq_true, if_false]
    have : strip (' ' :: '.' :: fixedDigits 8 v) = '.' :: fixedDigits 8 v := by
      have e := strip_replicate_left 1 ('.' :: fixedDigits 8 v)
      simp only [List.replicate_one, List.singleton_append] at e
      rw [e, hiz]; have := strip_ends' '.' z init (by decide) (isWs_of_isDigit hz); simpa using this
    rw [this, p1, hmod]; rfl

theorem ecc_read (v : Nat) : tleFloat (fixedDigits 7 v) = .ok ⟨false, v % 10 ^ 7, 7⟩ := by
  obtain ⟨c, t, hct, hc, init, z, hiz, hz⟩ := fixedDigits_ends 7 v (by omega)
  obtain ⟨_, _, p3⟩ := pyFloatCore_dot 7 v (by omega)
  unfold tleFloat
  rw [strip_fixedDigits, hct]
  have hs := isDigit_not_sign hc
  have hc' : (decide (c = '-') || decide (c = '+')) = false := by simp [hs.1, hs.2.1]
  simp only [hc', Bool.false_eq_true, if_false]
  unfold tleFloatSigned
  have hno : ∀ ch, (ch = '+' ∨ ch = '-') → (List.drop 1 ('+' :: '.' :: c :: t)).contains ch = false := by
    intro ch hch
    simp only [List.drop_succ_cons, List.drop_zero, List.contains_eq_mem, decide_eq_false_iff_not]
    intro hm
    simp only [List.mem_cons] at hm
    rcases hm with rfl | hm
    · rcases hch with h | h <;> cases h
    · have hd : isDigit ch = true := fixedDigits_all_digits 7 v ch (by rw [hct]; simpa using hm)
      have := isDigit_not_sign hd
      rcases hch with h | h
      · exact this.1 h
      · exact this.2.1 h
  simp only [hno '+' (Or.inl rfl), hno '-' (Or.inr rfl), Bool.or_self, Bool.false_eq_true, if_false]
  unfold pyFloat
  have : strip ('+' :: '.' :: c :: t) = '+' :: '.' :: c :: t := by
    rw [← hct, hiz]; have := strip_ends' '+' z ('.' :: init) (by decide) (isWs_of_isDigit hz); simpa using this
  rw [this, ← hct, p3]; rfl

theorem tleFloat_padLeft (w : Nat) (s : Str) : tleFloat (padLeft ' ' w s) = tleFloat s := by
  unfold tleFloat; rw [strip_padLeft]

end BeyondVerif.Tle
