import BeyondVerif.Model.CcsdsExt
/-!
C13 — the clauses about what the written dates *mean*: "epoch(s) to the microsecond in the same time scale" for the
secondary dates of a message (maneuvers, ephemeris points, observations) and "maneuvers (epoch, duration, …)" for
continuous maneuvers given by their median or stop date.  Model: `Model/CcsdsExt.lean`; the flags and attribute names it
uses are regenerated from beyond/io/ccsds on every run and exercised on the real writers by the correspondence run.
-/
namespace BeyondVerif.C13
open BeyondVerif.CcsdsExt BeyondVerif.Generated

/-! ## time scales -/

/-- **Same time scale** (clause "epoch(s) to the microsecond in the same time scale"): a secondary date labelled in the
message's own TIME_SYSTEM comes back as the same clock reading with the same label — whether or not the writer converts. -/
theorem stamp_roundtrip_same_scale (conv : Bool) (off : String → Int) (msg : String) (s : Stamp) (h : s.scale = msg) :
    readBack msg (written conv off msg s) = s := by
  obtain ⟨c, sc⟩ := s
  simp only at h
  subst h
  cases conv <;> simp [readBack, written, instant]

/-- a writer that converts every date to the message's TIME_SYSTEM before printing keeps the *instant* of every date, whatever its label -/
theorem stamp_instant_of_converting (off : String → Int) (msg : String) (s : Stamp) :
    instant off (readBack msg (written true off msg s)) = instant off s := by
  simp [readBack, written, instant]

/-- the instant is kept **iff** the writer converts or the two clocks show the same reading — what a writer that prints each date in
its own scale (the writers before /repo aa1842c) does to a date labelled otherwise -/
theorem stamp_instant_iff (conv : Bool) (off : String → Int) (msg : String) (s : Stamp) :
    instant off (readBack msg (written conv off msg s)) = instant off s ↔ (conv = true ∨ off s.scale = off msg) := by
  cases conv
  · simp only [readBack, written, instant, Bool.false_eq_true, if_false, false_or]
    constructor <;> intro h <;> omega
  · simp [readBack, written, instant]

/-- read from the source: all three writers convert every date of a message to its TIME_SYSTEM before printing (`in_scale`, /repo aa1842c) -/
theorem writers_convert_scale : opmManScaleConv = true ∧ oemPointScaleConv = true ∧ tdmObsScaleConv = true := by decide

/-- **Epochs of a message, any label** (clause "epoch(s) to the microsecond in the same time scale", full statement — until /repo
aa1842c only `…_partial`, for dates labelled like the message): for the OPM maneuver dates, the OEM points (and covariance epochs) and
the TDM observations as the writers are now, whatever the time scale a date is labelled in and whatever the offsets between the clocks,
the date read back designates the same instant, and carries the TIME_SYSTEM of the message. -/
theorem stamp_instant_roundtrip (off : String → Int) (msg : String) (s : Stamp) :
    ∀ conv ∈ [opmManScaleConv, oemPointScaleConv, tdmObsScaleConv],
      instant off (readBack msg (written conv off msg s)) = instant off s ∧ (readBack msg (written conv off msg s)).scale = msg := by
  obtain ⟨h1, h2, h3⟩ := writers_convert_scale
  intro conv hc
  simp only [List.mem_cons, List.not_mem_nil, or_false] at hc
  have : conv = true := by rcases hc with h | h | h <;> simp [h, h1, h2, h3]
  subst this
  exact ⟨stamp_instant_of_converting off msg s, rfl⟩

example : instant (fun s => if s = "TT" then 32184000 else 0) (readBack "UTC" (written true (fun s => if s = "TT" then 32184000 else 0) "UTC" ⟨5, "TT"⟩)) =
    instant (fun s => if s = "TT" then 32184000 else 0) ⟨5, "TT"⟩ := stamp_instant_of_converting _ _ _

/-! ## several segments, each with its own TIME_SYSTEM -/

/-- what dump-then-load makes of one date of a segment, spelled out: the reading of the reference clock at the same instant, under the
label of the segment -/
theorem segsBack_eq (ofSegment : Bool) (off : String → Int) (segs : List (List Stamp)) :
    segsBack true ofSegment off segs =
      segs.map fun seg => seg.map fun s =>
        (⟨instant off s + off (if ofSegment then segLabel seg else msgLabel segs), segLabel seg⟩ : Stamp) := by
  simp [segsBack, readSeg, writeSeg, written, readBack, List.map_map, Function.comp_def]

/-- **Every segment in its own scale** (clause "epoch(s) to the microsecond in the same time scale", messages of several segments): when
the dates of a segment are converted to the label of *that segment*, every date of every segment — whatever the scales of the
segments, whatever the scale of each date, whatever the clock offsets — comes back at the same instant, labelled like its segment. -/
theorem segs_instants_roundtrip (off : String → Int) (segs : List (List Stamp)) :
    (segsBack true true off segs).map (·.map (instant off)) = segs.map (·.map (instant off)) ∧
    (segsBack true true off segs).map (·.map (·.scale)) = segs.map fun seg => seg.map fun _ => segLabel seg := by
  rw [segsBack_eq]
  constructor <;>
    simp [List.map_map, Function.comp_def, instant]

private theorem map_eq_self {α : Type} (f : α → α) (l : List α) (h : ∀ x ∈ l, f x = x) : l.map f = l := by
  induction l with
  | nil => rfl
  | cons a t ih =>
    simp only [List.map_cons, h a (List.mem_cons_self ..)]
    rw [ih (fun x hx => h x (List.mem_cons_of_mem _ hx))]

/-- … and a message whose dates are all labelled like the first date of their segment (each station its own time scale) comes back
identical: same clock readings, same labels — whether or not the writer converts. -/
theorem segs_roundtrip_id (conv : Bool) (off : String → Int) (segs : List (List Stamp))
    (h : ∀ seg ∈ segs, ∀ s ∈ seg, s.scale = segLabel seg) : segsBack conv true off segs = segs := by
  unfold segsBack readSeg writeSeg
  simp only [if_true]
  apply map_eq_self
  intro seg hseg
  simp only [List.map_map]
  apply map_eq_self
  intro s hs
  exact stamp_roundtrip_same_scale conv off (segLabel seg) s (h seg hseg s hs)

/-- a writer that expresses the dates of every segment in the scale of the **whole message** (the scale of its very first date) while each
segment keeps its own label moves every date of a segment by the offset between the two clocks: the instants of a segment are kept
**iff** the clock of its label and the clock of the message show the same reading. -/
theorem segs_message_scale_shifts (off : String → Int) (segs : List (List Stamp)) (seg : List Stamp) (_hseg : seg ∈ segs) (s : Stamp) (_hs : s ∈ seg) :
    instant off (readBack (segLabel seg) (written true off (msgLabel segs) s)) = instant off s ↔ off (segLabel seg) = off (msgLabel segs) := by
  simp only [readBack, written, instant, if_true]
  constructor <;> intro h <;> omega

/-- read from the source: the OEM and the TDM writers convert the dates of a segment to the scale that segment is labelled with
(`in_scale(x.date, <segment>.start.scale)` with `<segment>` the object `TIME_SYSTEM` is taken from) -/
theorem writers_scale_of_segment : oemPointScaleOfSegment = true ∧ tdmObsScaleOfSegment = true := by decide

/-- **Epochs of a message of several segments** (full statement for the OEM and TDM writers as they are): every date of every segment
comes back at the same instant and carries the TIME_SYSTEM of its own segment. -/
theorem segs_roundtrip (off : String → Int) (segs : List (List Stamp)) :
    ∀ cs ∈ [(oemPointScaleConv, oemPointScaleOfSegment), (tdmObsScaleConv, tdmObsScaleOfSegment)],
      (segsBack cs.1 cs.2 off segs).map (·.map (instant off)) = segs.map (·.map (instant off)) ∧
      (segsBack cs.1 cs.2 off segs).map (·.map (·.scale)) = segs.map fun seg => seg.map fun _ => segLabel seg := by
  obtain ⟨_, h2, h3⟩ := writers_convert_scale
  obtain ⟨h4, h5⟩ := writers_scale_of_segment
  intro cs hcs
  simp only [List.mem_cons, List.not_mem_nil, or_false] at hcs
  rcases hcs with h | h <;> subst h <;> simp only [h2, h3, h4, h5] <;> exact segs_instants_roundtrip off segs

/-- station A in UTC, station B in GPS (GPS − TAI = −19 s, UTC − TAI = −37 s): both segments come back as they were -/
example : segsBack true true (fun s => if s = "GPS" then -19000000 else if s = "UTC" then -37000000 else 0)
    [[⟨7, "UTC"⟩, ⟨17, "UTC"⟩], [⟨9, "GPS"⟩, ⟨19, "GPS"⟩]] = [[⟨7, "UTC"⟩, ⟨17, "UTC"⟩], [⟨9, "GPS"⟩, ⟨19, "GPS"⟩]] := by decide

/-- … while with the scale of the whole message as reference the second segment comes back 18 s early, still labelled GPS -/
example : segsBack true false (fun s => if s = "GPS" then -19000000 else if s = "UTC" then -37000000 else 0)
    [[⟨7, "UTC"⟩, ⟨17, "UTC"⟩], [⟨9, "GPS"⟩, ⟨19, "GPS"⟩]] = [[⟨7, "UTC"⟩, ⟨17, "UTC"⟩], [⟨9 - 18000000, "GPS"⟩, ⟨19 - 18000000, "GPS"⟩]] := by decide

/-! ## continuous maneuvers -/

/-- the two facts read from the source: the OPM writers print `man.start` as MAN_EPOCH_IGNITION of a continuous maneuver, the
readers rebuild it with `date_pos="start"` -/
theorem man_ignition_tables : manIgnitionAttr = "start" ∧ manReadDatePos = "start" := by decide

/-- **Thrust window** (clause "maneuvers (epoch, duration, …)"): for every continuous maneuver — dated by its start, its median
or its stop, any date, any duration — dump then load gives a maneuver with the same thrust window `[start, stop)`. -/
theorem thrust_window_roundtrip (m : ManSrc) : manWindowBack m = some (m.start, m.stop) := by
  have h := man_ignition_tables
  simp [manWindowBack, ignitionWritten, manRead, ManSrc.attr, h.1, h.2, DatePos.ofString, ManSrc.start, ManSrc.stop, bind, Option.bind]

example : manWindowBack ⟨1000000, 240000, .stop⟩ = some (760000, 1000000) := by decide

/-- … while printing the `date` argument instead (the attribute an impulsive maneuver has) shifts the window of every maneuver
dated by its median or stop by half / all of its duration -/
theorem date_attr_shifts_window (m : ManSrc) (hd : m.dur ≠ 0) (hp : m.pos = .stop) : m.attr "date" ≠ some m.start := by
  simp [ManSrc.attr, ManSrc.start, hp]
  omega

/-! ## user-defined field names in KVN -/

/-- the constants read from the source fit together: the readers skip exactly the prefix the writers put, and test a prefix of it -/
theorem ud_prefix_tables : udWritePrefix.toList.length = udReadSkip ∧ udReadPrefix.toList.isPrefixOf udWritePrefix.toList = true := by decide

/-- **User-defined fields, KVN, every name** (clause "user-defined fields"): whatever the name — underscores, digits, lower case, a name
that itself starts with `USER_DEFINED_` or `MAN_` — the key the writers print is recognised by the readers and stripped back to the name. -/
theorem ud_key_roundtrip (name : List Char) : udKeyIn (udKeyOut name) = some name := by
  obtain ⟨hlen, hpre⟩ := ud_prefix_tables
  have hp : udReadPrefix.toList.isPrefixOf (udWritePrefix.toList ++ name) = true := by
    rw [List.isPrefixOf_iff_prefix] at hpre ⊢
    exact hpre.trans (List.prefix_append _ _)
  simp only [udKeyIn, udKeyOut, hp, if_true, ← hlen, List.drop_left]

example : udKeyIn (udKeyOut "EARTH_MODEL".toList) = some "EARTH_MODEL".toList := ud_key_roundtrip _

/-! ## centres other than the Earth -/

/-- **CENTER_NAME, KVN** (clause "frame and centre"): for every centre the library can create — the analytical solar-system bodies,
every body of the JPL kernels (one, two and three words: `Mars`, `MarsBarycenter`, `SolarSystemBarycenter`), the Lagrange points of
two one-word bodies (`centerNames`, `lagrangeNames`: regenerated from the live objects) — what the KVN writers print as CENTER_NAME is
not `earth` (so the readers take the centre branch) and `title().replace(" ", "")` gives the name of the frame back. -/
theorem center_name_roundtrip :
    ∀ n ∈ centerNames ++ lagrangeNames,
      centerRead (centerWrite kvnCenterPats n.toList) = n.toList ∧ (centerWrite kvnCenterPats n.toList).map low ≠ "earth".toList := by
  decide

/-- **CENTER_NAME, XML** (full statement; until /repo 1063a10 only `…_partial`, without the Lagrange points): the XML writers split a
centre name under the same patterns as the KVN writers (regenerated), so every centre the library can create — Lagrange points, and
since /repo b15e5e0 those of a body whose own name has two words (`SunEarthBarycenterL2`), included — comes back as the frame name. -/
theorem center_name_roundtrip_xml :
    ∀ n ∈ centerNames ++ lagrangeNames,
      centerRead (centerWrite xmlCenterPats n.toList) = n.toList ∧ (centerWrite xmlCenterPats n.toList).map low ≠ "earth".toList := by
  decide

/-- read from the source: both writers test the same patterns -/
theorem center_pats_agree : xmlCenterPats = kvnCenterPats := by decide

/-- read from the live objects: no centre the library creates has a blank in its name (a blank cannot come back through
`title().replace(" ", "")`; `lagrange()` used to put one for a body such as `Earth Barycenter`) -/
theorem centre_names_have_no_blank : lagrangeBlankNames = [] ∧ ∀ n ∈ centerNames ++ lagrangeNames, ' ' ∉ n.toList := by decide

example : centerRead (centerWrite kvnCenterPats "SolarSystemBarycenter".toList) = "SolarSystemBarycenter".toList := by decide

/-! ## the form of the points of an ephemeris -/

/-- **OEM writers, any form of the points** (quantifier "every message type x {KVN, XML}"): both writers convert the points to cartesian
form before reading their coordinates (KVN always did; XML since /repo 1daca9c) -/
theorem oem_dump_any_form (form : String) : oemDumpForm "kvn" form = true ∧ oemDumpForm "xml" form = true := by
  have h : oemKvnConvertsForm = true ∧ oemXmlConvertsForm = true := by decide
  simp [oemDumpForm, h.1, h.2]

end BeyondVerif.C13
