import BeyondVerif.Props.C14Attach
import BeyondVerif.Lemmas.CovOrient

/-!
# C14 — the sequence theorems for the built-in orientation tree, without hypotheses on the matrices

Props/C14.lean proves path independence, back conversion, the position-block spectrum and "the covariance follows its
state" for an abstract family of conversion matrices satisfying `Laws` / `PosShape` and an abstract `to_local` satisfying
`LocOrth`.  Here the family is the concrete one:

* `conv a b` = `t6Mat (bConv D a b)`: **C02's model of `Orientation.convert_to`** between the ten built-in orientations
  (tree regenerated from orient.py, provider matrices translated from the Python source, `np.linalg.inv` for reverse
  edges), for ANY date arguments `D` — rate blocks of PEF↔TOD and TIRF↔CIRF included;
* `toLocal` = `realLocal`: the R instantiation of templates/Local.tpl (the text the driver runs on floats).

`builtin_laws` (from C02's `convert_compose` via `bConv_comp`), `builtin_locOrth` (from `local_orthonormal`),
`builtin_posShape` (from C02's `provider_isRotation`) discharge the former hypotheses; what remains is `CioOK D`
(X² + Y² < 1 for the CIO series, C02) and `NonDeg x0` (non-zero angular momentum).
-/
namespace BeyondVerif.C14
open BeyondVerif.R BeyondVerif.Cov Matrix

/-- the ten built-in orientations, as indices into the names regenerated from orient.py -/
abbrev BF := Fin 10

/-- the numeric environment of the built-in frames at a date -/
noncomputable def builtinEnv (D : DateArgs) : RealEnv BF I6 where
  conv a b := t6Mat (bConv D a.val b.val)
  toLocal := realLocal

/-- the two generated copies of the orientation names (Generated/Frames.lean by C14's extract, Generated/Graphs.lean by
C20's) agree, and `g50` is the index C14's extract found for G50 -/
theorem names_agree : Generated.covOrientNames = bNames ∧ Generated.g50Index = g50 := by decide

/-- **C02's composition laws hold for the built-in tree**: `Laws` is no longer a hypothesis -/
theorem builtin_laws (D : DateArgs) (hcio : CioOK D) : Laws (builtinEnv D) := by
  refine ⟨fun a => ?_, fun a b c => ?_⟩
  · show t6Mat (bConv D a.val a.val) = 1
    rw [bConv_self D a.val a.isLt, t6Mat_one]
  · show t6Mat (bConv D b.val c.val) * t6Mat (bConv D a.val b.val) = t6Mat (bConv D a.val c.val)
    rw [← t6Mat_mul, bConv_comp D hcio a.val b.val c.val a.isLt b.isLt c.isLt]

/-- **`to_local` is orthogonal at every non-degenerate state**: `LocOrth` is no longer a hypothesis -/
theorem builtin_locOrth (D : DateArgs) (x0 : I6 → ℝ) (hx : NonDeg x0) : LocOrth (builtinEnv D) x0 :=
  fun k => (realLocal_orth k x0 hx).1

/-- **block shape of the conversion matrices** between frames other than G50: zero upper-right block, orthogonal
position block (`PosShape` is no longer a hypothesis) -/
theorem builtin_posShape (D : DateArgs) (hcio : CioOK D) (a b : BF) (ha : a.val ≠ g50) (hb : b.val ≠ g50) :
    PosShape ((builtinEnv D).conv a b) := by
  have hr := bConv_rot D hcio a.val b.val a.isLt b.isLt ha hb
  refine ⟨?_, ?_⟩
  · show (t6Mat (bConv D a.val b.val)).toBlocks₁₂ = 0
    simp [t6Mat]
  · show (t6Mat (bConv D a.val b.val)).toBlocks₁₁ * ((t6Mat (bConv D a.val b.val)).toBlocks₁₁)ᵀ = 1
    simp only [t6Mat, toBlocks_fromBlocks₁₁]
    rw [← m3Mat_tr, ← m3Mat_mul, hr.1, m3Mat_one]

/-- the state re-framing of the model (`m @ x`) is `T6.apply` of C02's model: position by `R`, velocity by
`R v + B p` (`B = −[ω×] R` on the Earth-rotation links, `C02.expand_apply`) -/
theorem builtin_apply (D : DateArgs) (a b : BF) (x : I6 → ℝ) :
    (builtinEnv D).env.apply ((builtinEnv D).conv a b) x = unpv ((bConv D a.val b.val).apply (pv x).1 (pv x).2) :=
  t6Mat_mulVec _ _

/-! ## the clauses of the property, for the built-in frames -/

/-- **Path independence for the built-in frames, inertial or Earth-fixed intermediates alike** (no hypothesis on the
matrices): state `x0` given in any built-in frame `F0`, any covariance `C0`, any sequence `ts` of targets among the ten
frames (ITRF, PEF, TIRF with their rate blocks included) and QSW/TNW, then `t`: the matrix is `Mt C0 Mtᵀ` with `Mt` the
conversion `F0 → t` of C02's model, or `to_local` of the ORIGINAL state for QSW/TNW. -/
theorem builtin_path_independent (D : DateArgs) (hcio : CioOK D) (F0 : BF) (x0 : I6 → ℝ) (hx : NonDeg x0) (C0 : Matrix I6 I6 ℝ)
    (ts : List (Tag BF)) (t : Tag BF) :
    (run (builtinEnv D).env (init F0 x0 C0) (ts ++ [t])).mat = Mt (builtinEnv D) F0 x0 t * C0 * (Mt (builtinEnv D) F0 x0 t)ᵀ :=
  path_independent (builtin_laws D hcio) F0 x0 C0 (builtin_locOrth D x0 hx) ts t

/-- **Converting back restores the original matrix**, built-in frames -/
theorem builtin_back_restores (D : DateArgs) (hcio : CioOK D) (F0 : BF) (x0 : I6 → ℝ) (hx : NonDeg x0) (C0 : Matrix I6 I6 ℝ)
    (ts : List (Tag BF)) : (run (builtinEnv D).env (init F0 x0 C0) (ts ++ [.frame F0])).mat = C0 :=
  back_restores (builtin_laws D hcio) F0 x0 C0 (builtin_locOrth D x0 hx) ts

/-- **The covariance follows its state**, built-in frames -/
theorem builtin_cov_follows_state (D : DateArgs) (hcio : CioOK D) (F0 : BF) (x0 : I6 → ℝ) (hx : NonDeg x0) (C0 : Matrix I6 I6 ℝ)
    (ts : List (Tag BF)) (svf g : BF) :
    let v : Sv BF (Matrix I6 I6 ℝ) (I6 → ℝ) := { frame := svf, cov := run (builtinEnv D).env (init F0 x0 C0) ts }
    (v.cov.tag = .frame svf →
      (svSetFrame (builtinEnv D).env v g).cov.tag = .frame g ∧
      (svSetFrame (builtinEnv D).env v g).cov.mat = (builtinEnv D).conv F0 g * C0 * ((builtinEnv D).conv F0 g)ᵀ) ∧
    (v.cov.tag ≠ .frame svf → (svSetFrame (builtinEnv D).env v g).cov = v.cov) :=
  (cov_follows_state (builtin_laws D hcio) F0 x0 C0 (builtin_locOrth D x0 hx) ts svf g).2

/-- **Eigenvalues of the position block are unchanged**, built-in frames (`_partial`: start frame and current tag other
than G50.  The full statement has G50 too; G50 ↔ EME2000 is a constant matrix given with 9 decimals per entry, orthonormal
to 1e-15 only (`C02.const_matrices_orthonormal`), so through G50 the characteristic polynomial is that of `A C_pp Aᵀ` with
`‖A Aᵀ − 1‖ < 1e-15`, equal only to that accuracy — checked numerically at 1e-9 by the oracle). -/
theorem builtin_pos_block_spectrum_partial (D : DateArgs) (hcio : CioOK D) (F0 : BF) (hF0 : F0.val ≠ g50) (x0 : I6 → ℝ) (hx : NonDeg x0)
    (C0 : Matrix I6 I6 ℝ) (ts : List (Tag BF))
    (hcur : ∀ f, (run (builtinEnv D).env (init F0 x0 C0) ts).tag = .frame f → f.val ≠ g50) :
    ((run (builtinEnv D).env (init F0 x0 C0) ts).mat.toBlocks₁₁).charpoly = C0.toBlocks₁₁.charpoly := by
  obtain ⟨_, _, _, h4⟩ := path_characterised (builtin_laws D hcio) F0 x0 C0 (builtin_locOrth D x0 hx) ts
  have hN : PosShape (Mt (builtinEnv D) F0 x0 (run (builtinEnv D).env (init F0 x0 C0) ts).tag) := by
    cases htag : (run (builtinEnv D).env (init F0 x0 C0) ts).tag with
    | frame f => exact builtin_posShape D hcio F0 f hF0 (hcur f htag)
    | loc k => exact realLocal_posShape k x0 hx
  rw [h4, pos_block_congruence _ _ hN.1, charpoly_orth_conj _ _ hN.2]

/-! ## current frame rotating (Earth-fixed): the hop to QSW/TNW -/

/-- **From ANY current frame `f` — Earth-fixed ones included — the assignment `cov.frame = "QSW"/"TNW"` applies
`to_local(x0) · M(f→F0)`**: the local axes are those of the state in the frame it was given in (`F0`), reached through
the full 6×6 conversion `f → F0`, rate block included. -/
theorem builtin_hop_to_local (D : DateArgs) (hcio : CioOK D) (F0 : BF) (x0 : I6 → ℝ) (hx : NonDeg x0) (C0 : Matrix I6 I6 ℝ)
    (ts : List (Tag BF)) (f : BF) (hf : f ≠ F0) (htag : (run (builtinEnv D).env (init F0 x0 C0) ts).tag = .frame f) (k : Loc) :
    hopM (builtinEnv D) (run (builtinEnv D).env (init F0 x0 C0) ts) (.loc k) = realLocal k x0 * t6Mat (bConv D f.val F0.val) := by
  have hi := inv_run (builtin_laws D hcio) (builtin_locOrth D x0 hx) ts (inv_init (builtin_laws D hcio) F0 x0 C0)
  unfold hopM
  rw [if_neg (by rw [htag]; simp)]
  simp only [hopMat, m1, m2, htag, hi.orbFrame, hi.orb, ne_eq, hf, not_false_eq_true, if_true]
  rfl

/-- the blocks of that matrix: with `to_local(x0) = [[A, 0], [0, A]]` and `M(f→F0) = [[R, 0], [B, R]]` it is
`[[A R, 0], [A B, A R]]` — **the velocity ← position block `A B` carries the rotation rate of the Earth-fixed frame** -/
theorem local_after_rotating_blocks (A : Matrix (Fin 3) (Fin 3) ℝ) (M : T6) :
    fromBlocks A 0 0 A * t6Mat M = fromBlocks (A * m3Mat M.r) 0 (A * m3Mat M.b) (A * m3Mat M.r) := by
  simp [t6Mat, fromBlocks_multiply]

/-- **No block-diagonal matrix (the shape `to_local` returns, whatever state it is evaluated at) is the right one when
the conversion `f → F0` has a rate block**: building the local axes directly from the state as seen in an Earth-fixed
frame — dropping `B` — cannot give `R C Rᵀ` for the required map. -/
theorem direct_local_wrong_of_rate (A A' : Matrix (Fin 3) (Fin 3) ℝ) (hA : Aᵀ * A = 1) (M : T6) (hB : m3Mat M.b ≠ 0) :
    fromBlocks A' 0 0 A' ≠ fromBlocks A 0 0 A * t6Mat M := by
  rw [local_after_rotating_blocks]
  intro h
  have h21 := congrArg Matrix.toBlocks₂₁ h
  simp only [toBlocks_fromBlocks₂₁] at h21
  apply hB
  calc m3Mat M.b = (Aᵀ * A) * m3Mat M.b := by rw [hA, Matrix.one_mul]
    _ = Aᵀ * (A * m3Mat M.b) := Matrix.mul_assoc _ _ _
    _ = 0 := by rw [← h21, Matrix.mul_zero]

/-- **Through a rate-free (inertial → inertial) conversion the local axes can be built in either frame**:
`to_local(k, M x0) · M = to_local(k, x0)` for `M = [[R, 0], [0, R]]`, `R ∈ SO(3)` (the hypothesis `hEq` of
`attach_path_independent`, discharged for every rate-free rotation). -/
theorem builtin_locEquiv (k : Loc) (r : M3) (hr : M3.IsRotation r) (x0 : I6 → ℝ) :
    realLocal k ((t6Mat ⟨r, M3.zero⟩) *ᵥ x0) * t6Mat ⟨r, M3.zero⟩ = realLocal k x0 := by
  rw [realLocal_equivariant k r hr x0, Matrix.mul_assoc]
  have : (t6Mat ⟨r, M3.zero⟩)ᵀ * t6Mat ⟨r, M3.zero⟩ = 1 := by
    simp only [t6Mat, fromBlocks_transpose, fromBlocks_multiply, m3Mat_zero, transpose_zero, Matrix.mul_zero, Matrix.zero_mul,
      add_zero, zero_add]
    rw [← m3Mat_tr, ← m3Mat_mul, hr.2.1, m3Mat_one, fromBlocks_one]
  rw [this, Matrix.mul_one]

/-! ## non-vacuity -/

/-- the hypotheses of `direct_local_wrong_of_rate` are met by a conversion of the shape the Earth-rotation providers
return (`expand(m, rate)` with `rate = (0, 0, w)`, `w ≠ 0`: `C02.earth_rotation_rate`) -/
example : m3Mat (expand M3.one (some ⟨0, 0, 1⟩)).b ≠ 0 := by
  intro h
  have := congrFun (congrFun h 1) 0
  simp [expand, m3Mat, M3.mul, M3.neg, M3.skew, M3.one] at this

/-- date arguments with every field 0: the CIO condition holds -/
def zeroArgs : DateArgs := by
  constructor <;> exact 0

example : CioOK zeroArgs := by
  simp [CioOK, C02.cioXY, zeroArgs, deg2rad]

example (C0 : Matrix I6 I6 ℝ) :
    (run (builtinEnv zeroArgs).env (init 4 (unpv (⟨1, 0, 0⟩, ⟨0, 1, 0⟩)) C0) ([.frame 0, .loc .qsw, .frame 7] ++ [.frame 4])).mat = C0 :=
  builtin_back_restores zeroArgs (by simp [CioOK, C02.cioXY, zeroArgs, deg2rad]) 4 _
    (by refine ⟨?_, ?_, ?_⟩ <;> simp [unpv]) C0 _

end BeyondVerif.C14
