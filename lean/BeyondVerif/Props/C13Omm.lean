import BeyondVerif.Props.C13Opm
/-!
C13, `load_dump_id` for a whole message type: **OMM in XML** — every well-formed orbit with mean
elements (any texts, covariance absent / own frame / QSW / TNW, any number of user-defined fields,
made from a Tle or not) is read back from what the XML writer produced.
-/
namespace BeyondVerif.C13
open BeyondVerif.Ccsds BeyondVerif.Generated

def ommMetaDict (name id center frame scale : String) : Dict :=
  metaDict name id center frame scale ++ [("MEAN_ELEMENT_THEORY", Val.field (.s "SGP/SGP4") [])]

theorem omm_meta_xml (name id center frame scale : String) (h1 : name ≠ "") (h2 : id ≠ "") (h3 : center ≠ "") (h4 : frame ≠ "") (h5 : scale ≠ "") :
    recurse (metaXml name id center frame scale [("MEAN_ELEMENT_THEORY", .s "SGP/SGP4")]) = some (.dict (ommMetaDict name id center frame scale)) := by
  simp [metaXml, ommMetaDict, metaDict, leafS, recurse, recurseKids, addChild, Elem.tag, List.lookup, h1, h2, h3, h4, h5]

def meXml (epoch : Txt) (elems : List Txt) : Elem :=
  Elem.node "meanElements" ([Elem.leaf "EPOCH" [] epoch] ++
    (ommElemKeys.zip elems).map (fun ((k, u), v) => Elem.leaf k (unitAttrib u) v) ++
    [Elem.leaf "GM" [("units", "km**3/s**2")] (.s "398600.8")])

def tpXml (tle : List Txt) : Elem :=
  Elem.node "tleParameters" ([leafS "EPHEMERIS_TYPE" "0", leafS "CLASSIFICATION_TYPE" "U"] ++
    (ommTleKeys.zip tle).map (fun ((k, _), v) => Elem.leaf k [] v))

def meDict (epoch : Txt) (elems : List Txt) : Dict :=
  [("EPOCH", Val.field epoch [])] ++ (ommElemKeys.zip elems).map (fun kuv => (kuv.1.1, Val.field kuv.2 (unitAttrib kuv.1.2))) ++
  [("GM", Val.field (.s "398600.8") [("units", "km**3/s**2")])]

def tpDict (tle : List Txt) : Dict :=
  [("EPHEMERIS_TYPE", Val.field (.s "0") []), ("CLASSIFICATION_TYPE", Val.field (.s "U") [])] ++
  (ommTleKeys.zip tle).map (fun kuv => (kuv.1.1, Val.field kuv.2 []))

structure OmmWf (m : Omm) : Prop where
  frame : m.frame ∈ earthFrames
  name : m.name ≠ ""
  id : m.id ≠ ""
  scale : m.scale ≠ ""
  epoch : m.epoch ≠ .s ""
  elems : ∃ a b c d e f, m.elems = [a, b, c, d, e, f] ∧ a ≠ .s "" ∧ b ≠ .s "" ∧ c ≠ .s "" ∧ d ≠ .s "" ∧ e ≠ .s "" ∧ f ≠ .s ""
  tle : ∃ a b c d e f, m.tle = [a, b, c, d, e, f] ∧ a ≠ .s "" ∧ b ≠ .s "" ∧ c ≠ .s "" ∧ d ≠ .s "" ∧ e ≠ .s "" ∧ f ≠ .s ""
  cov : ∀ c, m.cov = some c → CovWf c
  ud : UdWf m.ud

theorem me_xml (m : Omm) (h : OmmWf m) : recurse (meXml m.epoch m.elems) = some (.dict (meDict m.epoch m.elems)) := by
  obtain ⟨a, b, c, d, e, f, hs, h1, h2, h3, h4, h5, h6⟩ := h.elems
  rw [hs]
  simp [meXml, meDict, ommElemKeys, unitAttrib, recurse, recurseKids, addChild, Elem.tag, List.lookup, h.epoch, h1, h2, h3, h4, h5, h6]

theorem tp_xml (m : Omm) (h : OmmWf m) : recurse (tpXml m.tle) = some (.dict (tpDict m.tle)) := by
  obtain ⟨a, b, c, d, e, f, hs, h1, h2, h3, h4, h5, h6⟩ := h.tle
  rw [hs]
  simp [tpXml, tpDict, ommTleKeys, leafS, recurse, recurseKids, addChild, Elem.tag, List.lookup, h1, h2, h3, h4, h5, h6]

def ommDataDict (m : Omm) : Dict :=
  accD "userDefinedParameters" (udVals m.ud)
   (accD "covarianceMatrix" (m.cov.toList.map fun c => Val.dict (covDict none c))
    (accD "tleParameters" [Val.dict (tpDict m.tle)] (accD "meanElements" [Val.dict (meDict m.epoch m.elems)] [])))

theorem omm_data_kids (m : Omm) (h : OmmWf m) :
    recurseKids ([meXml m.epoch m.elems, tpXml m.tle] ++ m.cov.toList.map (covXml none) ++ udXml m.ud) [] = some (ommDataDict m) := by
  have e1 : ([meXml m.epoch m.elems, tpXml m.tle] ++ m.cov.toList.map (covXml none) ++ udXml m.ud) =
      [meXml m.epoch m.elems] ++ ([tpXml m.tle] ++ (m.cov.toList.map (covXml none) ++ udXml m.ud)) := by simp
  rw [e1]
  rw [recurseKids_group0 "meanElements" [] rfl [meXml m.epoch m.elems] [.dict (meDict m.epoch m.elems)] _
    (by simp [meXml, Elem.tag]) (by simp [me_xml m h]) (by simp [Val.isList])]
  rw [recurseKids_group0 "tleParameters" _ (by simp [lookup_accD_other, List.lookup]) [tpXml m.tle] [.dict (tpDict m.tle)] _
    (by simp [tpXml, Elem.tag]) (by simp [tp_xml m h]) (by simp [Val.isList])]
  rw [recurseKids_group0 "covarianceMatrix" _ (by simp [lookup_accD_other, List.lookup]) (m.cov.toList.map (covXml none))
    (m.cov.toList.map fun c => Val.dict (covDict none c)) _
    (by intro e he; simp only [List.mem_map] at he; obtain ⟨x, _, rfl⟩ := he; rfl)
    (by cases hc : m.cov with
        | none => simp
        | some c => simp [(cov_xml_roundtrip' m.frame (earthFrames_sub _ h.frame) c (h.cov c hc)).1])
    (by intro v hv; simp only [List.mem_map] at hv; obtain ⟨_, _, rfl⟩ := hv; rfl)]
  have hu := ud_elems m.ud h.ud
  have := recurseKids_group0 "userDefinedParameters"
    (accD "covarianceMatrix" (m.cov.toList.map fun c => Val.dict (covDict none c))
      (accD "tleParameters" [Val.dict (tpDict m.tle)] (accD "meanElements" [Val.dict (meDict m.epoch m.elems)] [])))
    (by simp [lookup_accD_other, List.lookup]) (udXml m.ud) (udVals m.ud) [] hu.1 hu.2.1 hu.2.2
  simp only [List.append_nil] at this
  rw [this]
  rfl

/-- **`load_dump_id`, OMM, XML.**  For every well-formed OMM `m` (frame of the table — TEME in practice; name, identifier,
scale, epoch, the six mean elements and the six TLE parameters any non-empty texts; covariance absent or present in the
orbit's frame, QSW or TNW; user-defined fields absent, empty, one or many; made from a `Tle` or not) reading what the
XML writer produced gives `m` back — without the `Tle` object, which no reader restores. -/
theorem omm_xml_load_dump_id (m : Omm) (h : OmmWf m) :
    (ommXml m >>= loadOmmXml) = .ok { m with hasTle := false, ud := normUd m.ud } := by
  obtain ⟨c, r, hfo, _, hc, hr, hrf⟩ := frameOut_ok_earth m.frame h.frame
  have hmeta := omm_meta_xml m.name m.id c r m.scale h.name h.id hc hr h.scale
  have hkids := omm_data_kids m h
  have hx := xml2dict_odm_shape "omm" (metaXml m.name m.id c r m.scale [("MEAN_ELEMENT_THEORY", .s "SGP/SGP4")]) _ _ _ hmeta rfl hkids (by simp)
  have hshape : ommXml m = .ok (.node "omm" [headerXml, .node "body" [.node "segment" [
      metaXml m.name m.id c r m.scale [("MEAN_ELEMENT_THEORY", .s "SGP/SGP4")],
      .node "data" ([meXml m.epoch m.elems, tpXml m.tle] ++ m.cov.toList.map (covXml none) ++ udXml m.ud)]]]) := by
    simp only [ommXml, hfo, bind, Except.bind, pure, Except.pure, meXml, tpXml]
  rw [hshape]
  simp only [bind, Except.bind, loadOmmXml]
  rw [hx]
  have hseg := segPath_odm (ommMetaDict m.name m.id c r m.scale) (ommDataDict m)
  have hme : (ommDataDict m).lookup "meanElements" = some (.dict (meDict m.epoch m.elems)) := by
    simp only [ommDataDict]
    rw [lookup_accD_other _ _ _ _ (by decide), lookup_accD_other _ _ _ _ (by decide), lookup_accD_other _ _ _ _ (by decide),
      lookup_accD_same _ _ _ rfl]
    rfl
  have htp : (ommDataDict m).lookup "tleParameters" = some (.dict (tpDict m.tle)) := by
    simp only [ommDataDict]
    rw [lookup_accD_other _ _ _ _ (by decide), lookup_accD_other _ _ _ _ (by decide),
      lookup_accD_same _ _ _ (by simp [lookup_accD_other, List.lookup])]
    rfl
  have hcv : (ommDataDict m).lookup "covarianceMatrix" = promote (m.cov.toList.map fun c => Val.dict (covDict none c)) := by
    simp only [ommDataDict]
    rw [lookup_accD_other _ _ _ _ (by decide), lookup_accD_same _ _ _ (by simp [lookup_accD_other, List.lookup])]
  have hud : (ommDataDict m).lookup "userDefinedParameters" = promote (udVals m.ud) := by
    simp only [ommDataDict]
    rw [lookup_accD_same _ _ _ (by simp [lookup_accD_other, List.lookup])]
  have hcore : loadOmmCore (ommMetaDict m.name m.id c r m.scale) (meDict m.epoch m.elems) (tpDict m.tle) =
      .ok (m.name, m.id, m.scale, m.frame, m.epoch, m.elems, m.tle) := by
    obtain ⟨a1, a2, a3, a4, a5, a6, hs, _⟩ := h.elems
    obtain ⟨b1, b2, b3, b4, b5, b6, ht, _⟩ := h.tle
    rw [hs, ht, ← hrf]
    simp [loadOmmCore, ommMetaDict, metaDict, meDict, tpDict, ommElemKeys, ommTleKeys, unitAttrib, ommTheories, unitNames, strOf, textOf,
      getItem, Val.text, decodeUnit, List.lookup, bind, Except.bind, pure, Except.pure, keyErrToCcsds]
  unfold ommFromXmlDict
  dsimp only
  rw [hseg]
  simp only [bind, Except.bind, getItem, hme, htp, asDict, hcore, pure, Except.pure,
    covFromXml_of_lookup m.frame (earthFrames_sub _ h.frame) m.cov h.cov _ hcv, xmlUd_of_lookup wrapOmmUd (by decide) m.ud h.ud _ hud]

end BeyondVerif.C13
