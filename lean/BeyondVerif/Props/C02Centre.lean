import BeyondVerif.Props.C02
import BeyondVerif.Lemmas.Centre

/-!
# C02 — frames with DIFFERENT centres: `Center.convert_to` and the full `Frame.transform`

The model (`centerConvert`, `frameTransform`, Model/FramesR.lean) is built from the glue read off the AST of `Center.convert_to`,
`Center._to_parent` and `Frame.transform` on every run (Generated/FrameGlue.lean): the sign of a direct / a reverse link, the order of
the accumulation, `m @ x + offset`.

* `offset_antisymm`, `offset_chain`: in ONE target orientation the signed sum along the centre route is antisymmetric and additive
  (potential argument of Lemmas/Chain.lean on the additive algebra of states — every centre history grown leaf by leaf);
* `offset_retarget`: across TWO target orientations the offsets are carried by the rotation between them;
* `transform_roundtrip`: `Frame.transform` A→B→A is the identity for any two frames of the model (stations, orbit-attached,
  body-centred … : any centre graph grown leaf by leaf, any orientation graph grown leaf by leaf), ∀ state;
* `transform_compose`: `Frame.transform` A→B→C = A→C for three frames with different centres AND orientations.
-/
namespace BeyondVerif.C02
open BeyondVerif.R BeyondVerif.NumReal BeyondVerif.Chain

/-- **`Center.convert_to` is additive along the route: a→c = (b→c) + (a→b)**, in any one target orientation -/
theorem offset_chain (D : DateArgs) (names : List String) (hist : List (Nat × Nat)) (extras : List Extra)
    (chist : List (Nat × Nat)) (clinks : List CLink) (h1 : CLinksOneDir clinks) (hl : leafGrown chist.reverse = true)
    (a b c T : Nat) (x y z : V3 × V3)
    (hx : centerConvert D names hist extras chist clinks a b T = some x)
    (hy : centerConvert D names hist extras chist clinks b c T = some y)
    (hz : centerConvert D names hist extras chist clinks a c T = some z) : z = S6.add y x := by
  obtain ⟨p, p1, p2, p3, p4⟩ := centerConvert_spec D names hist extras chist clinks a b T x hx
  obtain ⟨q, q1, q2, q3, q4⟩ := centerConvert_spec D names hist extras chist clinks b c T y hy
  obtain ⟨r, r1, r2, r3, r4⟩ := centerConvert_spec D names hist extras chist clinks a c T z hz
  exact convert_compose algS6 _ (edgesOK_cedge D names hist extras clinks T h1) _ hl a b c p q r ⟨p1, p2, p3⟩ ⟨q1, q2, q3⟩
    ⟨r1, r2, r3⟩ x y z p4 q4 r4

/-- **`Center.convert_to` is antisymmetric: (b→a) + (a→b) = 0**, in any one target orientation -/
theorem offset_antisymm (D : DateArgs) (names : List String) (hist : List (Nat × Nat)) (extras : List Extra)
    (chist : List (Nat × Nat)) (clinks : List CLink) (h1 : CLinksOneDir clinks) (hl : leafGrown chist.reverse = true)
    (a b T : Nat) (x y : V3 × V3)
    (hx : centerConvert D names hist extras chist clinks a b T = some x)
    (hy : centerConvert D names hist extras chist clinks b a T = some y) : S6.add y x = S6.zero := by
  obtain ⟨p, p1, p2, p3, p4⟩ := centerConvert_spec D names hist extras chist clinks a b T x hx
  obtain ⟨q, q1, q2, q3, q4⟩ := centerConvert_spec D names hist extras chist clinks b a T y hy
  exact convert_inverse algS6 _ (edgesOK_cedge D names hist extras clinks T h1) _ hl a b p q ⟨p1, p2, p3⟩ ⟨q1, q2, q3⟩ x y p4 q4

/-- a station below the Earth, an orbit below the Earth, a chaser given relative to the orbit: no pair linked both ways, grown leaf by
leaf -/
example : CLinksOneDir [⟨1, 0, 0, ⟨4510e3, 0, 4510e3⟩, ⟨0, 0, 0⟩⟩, ⟨2, 0, 4, ⟨7e6, 0, 0⟩, ⟨0, 7.5e3, 0⟩⟩, ⟨5, 2, 4, ⟨100, 0, 0⟩, ⟨0, 0.1, 0⟩⟩] ∧
    leafGrown [(1, 0), (2, 0), (5, 2)].reverse = true := by
  refine ⟨?_, by decide⟩
  intro a b l h
  simp only [List.find?_cons, List.find?_nil] at h ⊢
  split at h
  · next h' => simp at h'; obtain ⟨rfl, rfl⟩ := h'; simp
  · split at h
    · next h' => simp at h'; obtain ⟨rfl, rfl⟩ := h'; simp
    · split at h
      · next h' => simp at h'; obtain ⟨rfl, rfl⟩ := h'; simp
      · cases h

/-- every centre link's orientation can be converted to the orientation `t` (the orientation graph is connected: every station / local
orbital orientation hangs into the built-in tree) -/
def LinksReach (D : DateArgs) (names : List String) (hist : List (Nat × Nat)) (extras : List Extra) (clinks : List CLink) (t : Nat) : Prop :=
  ∀ l ∈ clinks, (orientConvert D names hist extras l.ori t).isSome = true

/-- **across two target orientations the offsets are carried by the rotation between them**:
`convert_to(a→b, T') = convert_to(T→T') @ convert_to(a→b, T)` -/
theorem offset_retarget (D : DateArgs) (names : List String) (hist : List (Nat × Nat)) (extras : List Extra)
    (hE : EdgesOK algT6 (edge D names extras)) (hl : leafGrown hist.reverse = true)
    (chist : List (Nat × Nat)) (clinks : List CLink) (T T' : Nat) (M : T6)
    (hM : orientConvert D names hist extras T T' = some M)
    (hT : LinksReach D names hist extras clinks T) (hT' : LinksReach D names hist extras clinks T')
    (a b : Nat) (x : V3 × V3) (h : centerConvert D names hist extras chist clinks a b T = some x) :
    centerConvert D names hist extras chist clinks a b T' = some (T6.app M x) := by
  refine centerConvert_retarget D names hist extras chist clinks T T' M ?_ a b x h
  intro l hlm
  obtain ⟨X, hX⟩ := Option.isSome_iff_exists.mp (hT l hlm)
  obtain ⟨Y, hY⟩ := Option.isSome_iff_exists.mp (hT' l hlm)
  refine ⟨X, hX, ?_⟩
  rw [hY, orientConvert_compose D names hist extras hE hl l.ori T T' X M Y hX hM hY]

/-- **`Frame.transform`: A→B→A is the identity for frames with different centres and different orientations** — rotation then offset
composed with its reverse, ∀ state (p, v), for any two frames (oa, ca), (ob, cb) of the model: centre graph and orientation graph
grown leaf by leaf, no centre pair linked both ways, every centre link convertible to the two orientations. -/
theorem transform_roundtrip (D : DateArgs) (names : List String) (hist : List (Nat × Nat)) (extras : List Extra)
    (hE : EdgesOK algT6 (edge D names extras)) (hl : leafGrown hist.reverse = true)
    (chist : List (Nat × Nat)) (clinks : List CLink) (h1 : CLinksOneDir clinks) (hcl : leafGrown chist.reverse = true)
    (oa ca ob cb : Nat)
    (hRa : LinksReach D names hist extras clinks oa) (hRb : LinksReach D names hist extras clinks ob)
    (p v : V3) (y z : V3 × V3)
    (hy : frameTransform D names hist extras chist clinks oa ca ob cb p v = some y)
    (hz : frameTransform D names hist extras chist clinks ob cb oa ca y.1 y.2 = some z) : z = (p, v) := by
  unfold frameTransform at hy hz
  split at hy
  · next offAB Mab hoAB hMab =>
    split at hz
    · next offBA Mba hoBA hMba =>
      simp only [Option.some.injEq, Generated.Glue.transformCombine] at hy hz
      have hinv := orientConvert_inverse D names hist extras hE hl oa ob Mab Mba hMab hMba
      have hre := offset_retarget D names hist extras hE hl chist clinks ob oa Mba hMba hRb hRa ca cb offAB hoAB
      have hanti := offset_antisymm D names hist extras chist clinks h1 hcl ca cb oa _ _ hre hoBA
      rw [← hz, ← hy, T6.app_add, ← T6.app_mul, hinv, T6.app_one, S6.add_assoc, S6.add_comm (T6.app Mba offAB), hanti,
        S6.add_zero]
    · cases hz
  · cases hy

/-- **`Frame.transform`: A→B→C equals A→C for frames with different centres AND orientations**, ∀ state -/
theorem transform_compose (D : DateArgs) (names : List String) (hist : List (Nat × Nat)) (extras : List Extra)
    (hE : EdgesOK algT6 (edge D names extras)) (hl : leafGrown hist.reverse = true)
    (chist : List (Nat × Nat)) (clinks : List CLink) (h1 : CLinksOneDir clinks) (hcl : leafGrown chist.reverse = true)
    (oa ca ob cb oc cc : Nat)
    (hRb : LinksReach D names hist extras clinks ob) (hRc : LinksReach D names hist extras clinks oc)
    (p v : V3) (y z z' : V3 × V3)
    (hy : frameTransform D names hist extras chist clinks oa ca ob cb p v = some y)
    (hz : frameTransform D names hist extras chist clinks ob cb oc cc y.1 y.2 = some z)
    (hz' : frameTransform D names hist extras chist clinks oa ca oc cc p v = some z') : z = z' := by
  unfold frameTransform at hy hz hz'
  split at hy
  · next offAB Mab hoAB hMab =>
    split at hz
    · next offBC Mbc hoBC hMbc =>
      split at hz'
      · next offAC Mac hoAC hMac =>
        simp only [Option.some.injEq, Generated.Glue.transformCombine] at hy hz hz'
        have hcomp := orientConvert_compose D names hist extras hE hl oa ob oc Mab Mbc Mac hMab hMbc hMac
        have hre := offset_retarget D names hist extras hE hl chist clinks ob oc Mbc hMbc hRb hRc ca cb offAB hoAB
        have hch := offset_chain D names hist extras chist clinks h1 hcl ca cb cc oc _ _ _ hre hoBC hoAC
        rw [← hz, ← hz', ← hy, T6.app_add, ← T6.app_mul, ← hcomp, hch, S6.add_assoc, S6.add_comm offBC]
      · cases hz'
    · cases hz
  · cases hy

/-- **the same two theorems without the hypothesis `EdgesOK`**: for the model's own edge function (built-in providers, X² + Y² < 1, any
well-formed stations / orbit-attached orientations) -/
theorem transform_roundtrip_model (D : DateArgs) (hcio : (cioXY D).1 ^ 2 + (cioXY D).2 ^ 2 < 1) (names : List String)
    (hist : List (Nat × Nat)) (extras : List Extra) (hX : ExtrasOK names extras) (hl : leafGrown hist.reverse = true)
    (chist : List (Nat × Nat)) (clinks : List CLink) (h1 : CLinksOneDir clinks) (hcl : leafGrown chist.reverse = true)
    (oa ca ob cb : Nat)
    (hRa : LinksReach D names hist extras clinks oa) (hRb : LinksReach D names hist extras clinks ob)
    (p v : V3) (y z : V3 × V3)
    (hy : frameTransform D names hist extras chist clinks oa ca ob cb p v = some y)
    (hz : frameTransform D names hist extras chist clinks ob cb oa ca y.1 y.2 = some z) : z = (p, v) :=
  transform_roundtrip D names hist extras (edgesOK_model D hcio names extras hX) hl chist clinks h1 hcl oa ca ob cb hRa hRb p v y z hy hz

theorem transform_compose_model (D : DateArgs) (hcio : (cioXY D).1 ^ 2 + (cioXY D).2 ^ 2 < 1) (names : List String)
    (hist : List (Nat × Nat)) (extras : List Extra) (hX : ExtrasOK names extras) (hl : leafGrown hist.reverse = true)
    (chist : List (Nat × Nat)) (clinks : List CLink) (h1 : CLinksOneDir clinks) (hcl : leafGrown chist.reverse = true)
    (oa ca ob cb oc cc : Nat)
    (hRb : LinksReach D names hist extras clinks ob) (hRc : LinksReach D names hist extras clinks oc)
    (p v : V3) (y z z' : V3 × V3)
    (hy : frameTransform D names hist extras chist clinks oa ca ob cb p v = some y)
    (hz : frameTransform D names hist extras chist clinks ob cb oc cc y.1 y.2 = some z)
    (hz' : frameTransform D names hist extras chist clinks oa ca oc cc p v = some z') : z = z' :=
  transform_compose D names hist extras (edgesOK_model D hcio names extras hX) hl chist clinks h1 hcl oa ca ob cb oc cc hRb hRc p v
    y z z' hy hz hz'

/-! ### a concrete scenario in which every hypothesis holds

A station (orientation node 10 below ITRF, centre 1 below the Earth) and an orbit-attached frame with the axes of EME2000 (centre 2 below
the Earth, offset given in EME2000): a state seen from the station, taken to the orbit-attached frame and back, is unchanged. -/

noncomputable def exD : DateArgs := ⟨0.04, 0.04, 2453000.5, 53000, 0.1, 0.3, 0, 0, 1.5, 0, 0, 0, 0, 0, 0, 0, 23.4, 23.4⟩
noncomputable def exExtras : List Extra := [⟨10, 0, topoMat 0.76 0.025⟩]
noncomputable def exCLinks : List CLink := [⟨1, 0, 0, ⟨4510e3, 0, 4510e3⟩, ⟨0, 0, 0⟩⟩, ⟨2, 0, 4, ⟨7e6, 0, 0⟩, ⟨0, 7.5e3, 0⟩⟩]

example (p v : V3) : ∃ y z,
    frameTransform exD Generated.orientNames (Generated.orientHist ++ [(0, 10)]) exExtras [(1, 0), (2, 0)] exCLinks 10 1 4 2 p v = some y ∧
    frameTransform exD Generated.orientNames (Generated.orientHist ++ [(0, 10)]) exExtras [(1, 0), (2, 0)] exCLinks 4 2 10 1 y.1 y.2 = some z ∧
    z = (p, v) := by
  obtain ⟨y, hy⟩ := Option.isSome_iff_exists.mp
    (rfl : (frameTransform exD Generated.orientNames (Generated.orientHist ++ [(0, 10)]) exExtras [(1, 0), (2, 0)] exCLinks 10 1 4 2 p v).isSome = true)
  obtain ⟨z, hz⟩ := Option.isSome_iff_exists.mp
    (rfl : (frameTransform exD Generated.orientNames (Generated.orientHist ++ [(0, 10)]) exExtras [(1, 0), (2, 0)] exCLinks 4 2 10 1 y.1 y.2).isSome = true)
  refine ⟨y, z, hy, hz, ?_⟩
  have hcio : (cioXY exD).1 ^ 2 + (cioXY exD).2 ^ 2 < 1 := by simp [cioXY, exD, deg2rad]
  have hX : ExtrasOK Generated.orientNames exExtras := by
    refine ⟨?_, ?_, ?_⟩ <;> intro e he <;> simp only [exExtras, List.mem_cons, List.not_mem_nil, or_false] at he <;> subst he
    · decide
    · decide
    · rw [(topoMat_isRotation _ _).2.2]; exact one_ne_zero
  have h1 : CLinksOneDir exCLinks := by
    intro a b l h
    simp only [exCLinks, List.find?_cons, List.find?_nil] at h ⊢
    split at h
    · next h' => simp at h'; obtain ⟨rfl, rfl⟩ := h'; simp
    · split at h
      · next h' => simp at h'; obtain ⟨rfl, rfl⟩ := h'; simp
      · cases h
  have hR : ∀ t, t = 4 ∨ t = 10 → LinksReach exD Generated.orientNames (Generated.orientHist ++ [(0, 10)]) exExtras exCLinks t := by
    intro t ht l hl
    simp only [exCLinks, List.mem_cons, List.not_mem_nil, or_false] at hl
    rcases ht with rfl | rfl <;> rcases hl with rfl | rfl <;> rfl
  exact transform_roundtrip_model exD hcio _ _ _ hX (by decide) _ _ h1 (by decide) 10 1 4 2 (hR 10 (Or.inr rfl)) (hR 4 (Or.inl rfl))
    p v y z hy hz

/-- the two calls `Frame.transform` makes are the ones the model makes: the offset towards the NEW frame's centre in the NEW frame's
orientation, the rotation towards the NEW frame's orientation, both at `orbit.date` (read from the AST on every run) -/
theorem transform_calls_pinned : Generated.Glue.transformCalls =
    [("self.center.convert_to", ["orbit.date", "new_frame.center", "new_frame.orientation"]),
     ("self.orientation.convert_to", ["orbit.date", "new_frame.orientation"])] := by decide

end BeyondVerif.C02
