import BeyondVerif.Generated.CWHelperR
import BeyondVerif.Props.C16Helpers
import BeyondVerif.Props.C16Seq

/-!
# C16 — the rendezvous helper as it is written in beyond/utils/cwhelper.py

`helperHohmann`, `helperEccentricBoost`, `helperTangentialBoost`, `helperVbarLinear`, `helperCoelliptic`,
`helperHohmannDistance`, `helperPeriod` (Generated/CWHelperR.lean) are translated from the method bodies of `CWHelper` on every
run; `m3` / `m6` stand for `self._mat3` / `self._mat6` (`id3` / `id6` in QSW, `qsw2tnw` / `qsw2tnw6` in TNW).

* `*_formula`: in QSW the source computes exactly the maneuvers the outcome theorems of Props/C16Helpers.lean start from
  (a changed sign, factor or axis in cwhelper.py breaks these proofs);
* `*_tnw`: in TNW orientation every helper returns the axis permutation (`permMan` / `perm6`) of what it returns in QSW — with
  `propagate_tnw_is_permuted_qsw` the TNW outcome of every helper is the permutation of its QSW outcome;
* `*_end_to_end`: the helper's own maneuver list run through the model of `propagate` from a coelliptic / V-bar start.
-/
namespace BeyondVerif.C16
open BeyondVerif.R BeyondVerif.NumReal

theorem period_formula (n : ℝ) : helperPeriod n = 2 * Real.pi / n := by
  simp only [helperPeriod, pi]; ring

theorem hohmann_distance_formula (r : ℝ) :
    helperHohmannDistance r false = r * 3 * Real.pi / 4 ∧ helperHohmannDistance r true = 2 * (r * 3 * Real.pi / 4) := by
  constructor <;> simp [helperHohmannDistance, pi] <;> ring

/-- `CWHelper.coelliptic` in QSW: `[radial, tangential, 0, 0, -1.5 n radial, 0]` (the start state of `coelliptic_drift`) -/
theorem coelliptic_formula (n d r τ : ℝ) : helperCoelliptic id6 n d r τ = [r, τ, 0, 0, -(1.5 * n * r), 0] := by
  simp [helperCoelliptic, helperCoellipticVelocity, id6, matVec, dot]

theorem coelliptic_tnw (n d r τ : ℝ) : helperCoelliptic qsw2tnw6 n d r τ = perm6 (helperCoelliptic id6 n d r τ) := by
  simp [helperCoelliptic, helperCoellipticVelocity, id6, qsw2tnw6, matVec, dot, perm6]

/-- `CWHelper.hohmann` in QSW, impulsive: the two impulses of `hohmann_moves`, half a period apart -/
theorem hohmann_formula (n : ℝ) (hn : n ≠ 0) (r d : ℝ) :
    helperHohmann id3 n r d false = [Man.imp d [0, r * n / 4, 0], Man.imp (d + Real.pi / n) [0, r * n / 4, 0]] := by
  have h : d + Real.pi * 2 / n / 2 = d + Real.pi / n := by field_simp
  simp [helperHohmann, helperPeriod, pi, id3, matVec, dot, vmuls, vdivs, h]

/-- continuous: the burn of `hohmann_continuous_moves`, one period long -/
theorem hohmann_continuous_formula (n r d : ℝ) :
    helperHohmann id3 n r d true
      = [Man.cont d (d + 2 * Real.pi / n) [0, 2 * (r * n / 4) / (2 * Real.pi / n), 0]] := by
  have h : Real.pi * 2 / n = 2 * Real.pi / n := by ring
  simp [helperHohmann, helperPeriod, pi, id3, matVec, dot, vmuls, vdivs, smulv, h]

theorem hohmann_tnw (n r d : ℝ) (c : Bool) :
    helperHohmann qsw2tnw n r d c = (helperHohmann id3 n r d c).map permMan := by
  cases c <;> simp [helperHohmann, id3, qsw2tnw, matVec, dot, vmuls, vdivs, smulv, permMan, perm3]

/-- `CWHelper.eccentric_boost` in QSW, impulsive: the two radial impulses of `eccentric_boost_moves` -/
theorem eccentric_boost_formula (n : ℝ) (hn : n ≠ 0) (τ d : ℝ) :
    helperEccentricBoost id3 n τ d false
      = [Man.imp d [-(τ * n / 4), 0, 0], Man.imp (d + Real.pi / n) [-(τ * n / 4), 0, 0]] := by
  have h : d + Real.pi * 2 / n / 2 = d + Real.pi / n := by field_simp
  simp [helperEccentricBoost, helperPeriod, pi, id3, matVec, dot, vmuls, vdivs, h]
  ring

theorem eccentric_boost_continuous_formula (n τ d : ℝ) :
    helperEccentricBoost id3 n τ d true
      = [Man.cont d (d + 2 * Real.pi / n) [2 * (-(τ * n / 4)) / (2 * Real.pi / n), 0, 0]] := by
  have h : Real.pi * 2 / n = 2 * Real.pi / n := by ring
  simp [helperEccentricBoost, helperPeriod, pi, id3, matVec, dot, vmuls, vdivs, smulv, h]
  ring

theorem eccentric_boost_tnw (n τ d : ℝ) (c : Bool) :
    helperEccentricBoost qsw2tnw n τ d c = (helperEccentricBoost id3 n τ d c).map permMan := by
  cases c <;> simp [helperEccentricBoost, id3, qsw2tnw, matVec, dot, vmuls, vdivs, smulv, permMan, perm3] <;> ring

/-- `CWHelper.tangential_boost` in QSW: the two opposite along-track impulses of `tangential_boost_moves`, one period apart -/
theorem tangential_boost_formula (n τ d : ℝ) :
    helperTangentialBoost id3 n τ d
      = [Man.imp d [0, -(τ * n / (6 * Real.pi)), 0], Man.imp (d + 2 * Real.pi / n) [0, τ * n / (6 * Real.pi), 0]] := by
  have h : Real.pi * 2 / n = 2 * Real.pi / n := by ring
  simp [helperTangentialBoost, helperPeriod, pi, id3, matVec, dot, vmuls, vdivs, vneg, h]
  constructor <;> ring

theorem tangential_boost_tnw (n τ d : ℝ) :
    helperTangentialBoost qsw2tnw n τ d = (helperTangentialBoost id3 n τ d).map permMan := by
  simp [helperTangentialBoost, id3, qsw2tnw, matVec, dot, vmuls, vdivs, vneg, permMan, perm3]

/-- `CWHelper.vbar_linear` in QSW: with the signed approach speed `v' = sign(tangential)·dv`, the impulse `[0, v', 0]`, the
compensating radial thrust `[-2 n v', 0, 0]` for `|tangential / dv|` seconds, the closing impulse `[0, -v', 0]` — the maneuvers
of `vbar_linear_moves` -/
theorem vbar_linear_formula (n τ d v : ℝ) :
    helperVbarLinear id3 n τ d v
      = [Man.imp d [0, signR τ * v, 0], Man.cont d (d + |τ / v|) [-(2 * n * (signR τ * v)), 0, 0],
         Man.imp (d + |τ / v|) [0, -(signR τ * v), 0]] := by
  simp [helperVbarLinear, absR, id3, matVec, dot, vmuls, vneg]

theorem vbar_linear_tnw (n τ d v : ℝ) :
    helperVbarLinear qsw2tnw n τ d v = (helperVbarLinear id3 n τ d v).map permMan := by
  simp [helperVbarLinear, id3, qsw2tnw, matVec, dot, vmuls, vneg, permMan, perm3]

/-! ## end to end: the helper's own list through the model of `propagate` -/

private theorem z3 : (zero3 : List ℝ) = [0, 0, 0] := rfl

/-- a chaser at rest on the V-bar stays there -/
theorem vbar_rest (n : ℝ) (hn : n ≠ 0) (τ t : ℝ) : cwStepQSW n t [0, τ, 0, 0, 0, 0] [0, 0, 0] = [0, τ, 0, 0, 0, 0] := by
  simp [cwStepQSW, cwMats, matVec, dot, vadd]

private theorem half_period (n : ℝ) (hn : n ≠ 0) (d : ℝ) : d + helperPeriod n / 2 = d + Real.pi / n := by
  rw [period_formula]; field_simp

/-- **Hohmann transfer, impulsive, end to end**: a chaser on the coelliptic orbit `radial` below the target
(`CWHelper.coelliptic(t0, -radial, τ)`), with the maneuvers of `CWHelper.hohmann(radial, d)` (`t0 < d`), propagated to the date
of the second impulse, is at radial distance 0, at rest, and has moved along-track by the coelliptic drift until `d` plus exactly
`CWHelper.hohmann_distance(radial)`. -/
theorem hohmann_end_to_end (n : ℝ) (hn : 0 < n) (r τ d t0 : ℝ) (h0 : t0 < d) :
    cwPropagate false n (helperHohmann id3 n r d false) (d + helperPeriod n / 2) t0 (helperCoelliptic id6 n t0 (-r) τ)
      = [0, τ + 1.5 * n * r * (d - t0) + helperHohmannDistance r false, 0, 0, 0, 0] := by
  have hn' : n ≠ 0 := hn.ne'
  have hp : 0 < Real.pi / n := div_pos Real.pi_pos hn
  rw [hohmann_formula n hn', coelliptic_formula, half_period n hn', (hohmann_distance_formula r).1]
  have c1 : t0 < d ∧ d ≤ d + Real.pi / n := ⟨h0, by linarith⟩
  have c2 : t0 < d + Real.pi / n ∧ d + Real.pi / n ≤ d + Real.pi / n := ⟨by linarith, le_rfl⟩
  have e1 : d + Real.pi / n - d = Real.pi / n := by ring
  have e2 : τ - 1.5 * n * -r * (d - t0) = τ + 1.5 * n * r * (d - t0) := by ring
  have e3 : -(1.5 * n * -r) = 1.5 * n * r := by ring
  simp only [cwPropagate, cwPropagate.go, if_pos c1, if_pos c2, cwStep, Bool.false_eq_true, if_false, sub_self, e1, z3]
  rw [coelliptic_drift n hn' (-r) τ (d - t0), e2, e3, hohmann_moves n hn' r, cw_zero n hn']

/-- **Hohmann transfer, continuous, end to end** (one burn of a full period) -/
theorem hohmann_continuous_end_to_end (n : ℝ) (hn : 0 < n) (r τ d t0 : ℝ) (h0 : t0 < d) :
    cwPropagate false n (helperHohmann id3 n r d true) (d + helperPeriod n) t0 (helperCoelliptic id6 n t0 (-r) τ)
      = [0, τ + 1.5 * n * r * (d - t0) + helperHohmannDistance r true, 0, 0, 0, 0] := by
  have hn' : n ≠ 0 := hn.ne'
  have hp : 0 < 2 * Real.pi / n := div_pos (by positivity) hn
  rw [hohmann_continuous_formula, coelliptic_formula, period_formula, (hohmann_distance_formula r).2,
    continuous_after false n _ t0 d _ _ _ h0.le (by linarith) le_rfl]
  have e1 : d + 2 * Real.pi / n - d = 2 * Real.pi / n := by ring
  have e2 : τ - 1.5 * n * -r * (d - t0) = τ + 1.5 * n * r * (d - t0) := by ring
  have e3 : -(1.5 * n * -r) = 1.5 * n * r := by ring
  simp only [cwStep, Bool.false_eq_true, if_false, sub_self, e1, z3]
  rw [coelliptic_drift n hn' (-r) τ (d - t0), e2, e3, hohmann_continuous_moves n hn' r, cw_zero n hn']

/-- **Eccentric boost, end to end**: from rest on the V-bar at `τ`, the maneuvers of `CWHelper.eccentric_boost(tangential, d)`
leave the chaser at rest on the V-bar at `τ + tangential` at the date of the second impulse. -/
theorem eccentric_boost_end_to_end (n : ℝ) (hn : 0 < n) (dist τ d t0 : ℝ) (h0 : t0 < d) :
    cwPropagate false n (helperEccentricBoost id3 n dist d false) (d + helperPeriod n / 2) t0 [0, τ, 0, 0, 0, 0]
      = [0, τ + dist, 0, 0, 0, 0] := by
  have hn' : n ≠ 0 := hn.ne'
  have hp : 0 < Real.pi / n := div_pos Real.pi_pos hn
  rw [eccentric_boost_formula n hn', half_period n hn']
  have c1 : t0 < d ∧ d ≤ d + Real.pi / n := ⟨h0, by linarith⟩
  have c2 : t0 < d + Real.pi / n ∧ d + Real.pi / n ≤ d + Real.pi / n := ⟨by linarith, le_rfl⟩
  have e1 : d + Real.pi / n - d = Real.pi / n := by ring
  simp only [cwPropagate, cwPropagate.go, if_pos c1, if_pos c2, cwStep, Bool.false_eq_true, if_false, sub_self, e1, z3]
  rw [vbar_rest n hn', eccentric_boost_moves n hn' dist, cw_zero n hn']

/-- **Tangential boost, end to end** (two opposite impulses one period apart) -/
theorem tangential_boost_end_to_end (n : ℝ) (hn : 0 < n) (dist τ d t0 : ℝ) (h0 : t0 < d) :
    cwPropagate false n (helperTangentialBoost id3 n dist d) (d + helperPeriod n) t0 [0, τ, 0, 0, 0, 0]
      = [0, τ + dist, 0, 0, 0, 0] := by
  have hn' : n ≠ 0 := hn.ne'
  have hp : 0 < 2 * Real.pi / n := div_pos (by positivity) hn
  rw [tangential_boost_formula, period_formula]
  have c1 : t0 < d ∧ d ≤ d + 2 * Real.pi / n := ⟨h0, by linarith⟩
  have c2 : t0 < d + 2 * Real.pi / n ∧ d + 2 * Real.pi / n ≤ d + 2 * Real.pi / n := ⟨by linarith, le_rfl⟩
  have e1 : d + 2 * Real.pi / n - d = 2 * Real.pi / n := by ring
  simp only [cwPropagate, cwPropagate.go, if_pos c1, if_pos c2, cwStep, Bool.false_eq_true, if_false, sub_self, e1, z3]
  rw [vbar_rest n hn', tangential_boost_moves n hn' dist, cw_zero n hn']

theorem signR_mul_abs (x : ℝ) : signR x * |x| = x := by
  rcases lt_trichotomy x 0 with h | h | h
  · simp [signR, h, not_lt.mpr h.le, abs_of_neg h]
  · simp [signR, h]
  · simp [signR, h, abs_of_pos h]

/-- **Linear V-bar approach, end to end**: from rest on the V-bar at `τ`, the three maneuvers of
`CWHelper.vbar_linear(tangential, d, v)` (`v > 0`, `tangential ≠ 0`, either sign) leave the chaser, at the date of the closing
impulse, at rest on the V-bar at exactly `τ + tangential` — the impulse and the burn start at the same date, the closing impulse
is dated exactly at the stop of the burn. -/
theorem vbar_linear_end_to_end (n : ℝ) (hn : n ≠ 0) (dist v τ d t0 : ℝ) (h0 : t0 < d) (hv : 0 < v) (hd : dist ≠ 0) :
    cwPropagate false n (helperVbarLinear id3 n dist d v) (d + |dist / v|) t0 [0, τ, 0, 0, 0, 0]
      = [0, τ + dist, 0, 0, 0, 0] := by
  have hT : 0 < |dist / v| := abs_pos.mpr (div_ne_zero hd hv.ne')
  rw [vbar_linear_formula]
  have c1 : t0 < d ∧ d ≤ d + |dist / v| := ⟨h0, by linarith⟩
  have c2 : t0 < d + |dist / v| ∧ d + |dist / v| ≤ d + |dist / v| := ⟨by linarith, le_rfl⟩
  have c3 : d + |dist / v| > t0 ∧ d + |dist / v| ≥ d := ⟨by linarith, by linarith⟩
  have c4 : ¬ (d ≤ d + |dist / v| ∧ d + |dist / v| < d + |dist / v|) := fun h => lt_irrefl _ h.2
  have c5 : d ≥ t0 := h0.le
  have e1 : d + |dist / v| - d = |dist / v| := by ring
  simp only [cwPropagate, cwPropagate.go, if_pos c1, if_pos c2, if_pos c3, if_neg c4, if_pos c5, cwStep, Bool.false_eq_true,
    if_false, sub_self, e1, z3]
  rw [vbar_rest n hn]
  have key := vbar_linear_moves n hn (signR dist * v) τ |dist / v|
  have e2 : signR dist * v * |dist / v| = dist := by
    rw [abs_div, abs_of_pos hv]
    have := signR_mul_abs dist
    field_simp
    linarith [this]
  rw [e2] at key
  -- the three zero-length coasts (to the start of the burn, to the closing impulse, to the target date)
  have L1 : (addDv [0, τ, 0, 0, 0, 0] [0, signR dist * v, 0]).length = 6 := by simp [addDv, vadd]
  rw [step_zero n hn L1 rfl, step_zero n hn (step_length ..) rfl, step_zero n hn (addDv_length (step_length ..) rfl) rfl]
  exact key

/-- `CWHelper.eccentric_boost(tangential, continuous=True)`: one radial burn of a full period with total `Δv = 2·dv` -/
theorem eccentric_boost_continuous_moves (n : ℝ) (hn : n ≠ 0) (d τ : ℝ) :
    cwStepQSW n (2 * Real.pi / n) [0, τ, 0, 0, 0, 0] [2 * (-(d * n / 4)) / (2 * Real.pi / n), 0, 0]
      = [0, τ + d, 0, 0, 0, 0] := by
  have hpi : Real.pi ≠ 0 := Real.pi_ne_zero
  have n2pi : n * (2 * Real.pi / n) = 2 * Real.pi := by field_simp
  simp only [cwStepQSW, cwMats, matVec, dot, vadd, List.map, powi, n2pi, Real.cos_two_pi, Real.sin_two_pi,
    List.cons.injEq, and_true]
  refine ⟨?_, ?_, ?_, ?_, ?_, ?_⟩ <;> field_simp <;> ring

theorem eccentric_boost_continuous_end_to_end (n : ℝ) (hn : 0 < n) (dist τ d t0 : ℝ) (h0 : t0 < d) :
    cwPropagate false n (helperEccentricBoost id3 n dist d true) (d + helperPeriod n) t0 [0, τ, 0, 0, 0, 0]
      = [0, τ + dist, 0, 0, 0, 0] := by
  have hn' : n ≠ 0 := hn.ne'
  have hp : 0 < 2 * Real.pi / n := div_pos (by positivity) hn
  rw [eccentric_boost_continuous_formula, period_formula,
    continuous_after false n _ t0 d _ _ _ h0.le (by linarith) le_rfl]
  have e1 : d + 2 * Real.pi / n - d = 2 * Real.pi / n := by ring
  simp only [cwStep, Bool.false_eq_true, if_false, sub_self, e1, z3]
  rw [vbar_rest n hn', eccentric_boost_continuous_moves n hn' dist, cw_zero n hn']

/-! ## TNW orientation in every helper -/

/-- the TNW outcome of a maneuver list that is the axis permutation of a QSW list is the axis permutation of the QSW outcome -/
theorem tnw_outcome {mansT mansQ : List Man} (h : mansT = mansQ.map permMan) (hwf : WF mansQ) (n t t0 : ℝ) {x y : List ℝ}
    (hx : x.length = 6) (hq : cwPropagate false n mansQ t t0 x = y) :
    cwPropagate true n mansT t t0 (perm6 x) = perm6 y := by
  rw [h, propagate_tnw_is_permuted_qsw n mansQ hwf t t0 x hx, hq]

theorem wf_two_imp (a b : ℝ) (u v w u' v' w' : ℝ) : WF [Man.imp a [u, v, w], Man.imp b [u', v', w']] := by
  intro m hm; simp at hm; rcases hm with rfl | rfl <;> rfl

theorem wf_one_cont (a b : ℝ) (u v w : ℝ) : WF [Man.cont a b [u, v, w]] := by
  intro m hm; simp at hm; subst hm; rfl

/-- Hohmann transfer with a TNW propagator: same outcome, in TNW axes -/
theorem hohmann_end_to_end_tnw (n : ℝ) (hn : 0 < n) (r τ d t0 : ℝ) (h0 : t0 < d) (c : Bool) :
    cwPropagate true n (helperHohmann qsw2tnw n r d c) (d + (if c then helperPeriod n else helperPeriod n / 2)) t0
        (helperCoelliptic qsw2tnw6 n t0 (-r) τ)
      = perm6 [0, τ + 1.5 * n * r * (d - t0) + helperHohmannDistance r c, 0, 0, 0, 0] := by
  rw [coelliptic_tnw]
  cases c
  · refine tnw_outcome (hohmann_tnw n r d false) ?_ n _ t0 (by rw [coelliptic_formula]; rfl) (hohmann_end_to_end n hn r τ d t0 h0)
    rw [hohmann_formula n hn.ne']; exact wf_two_imp _ _ _ _ _ _ _ _
  · refine tnw_outcome (hohmann_tnw n r d true) ?_ n _ t0 (by rw [coelliptic_formula]; rfl)
      (hohmann_continuous_end_to_end n hn r τ d t0 h0)
    rw [hohmann_continuous_formula]; exact wf_one_cont _ _ _ _ _

/-- eccentric boost with a TNW propagator -/
theorem eccentric_boost_end_to_end_tnw (n : ℝ) (hn : 0 < n) (dist τ d t0 : ℝ) (h0 : t0 < d) (c : Bool) :
    cwPropagate true n (helperEccentricBoost qsw2tnw n dist d c) (d + (if c then helperPeriod n else helperPeriod n / 2)) t0
        (perm6 [0, τ, 0, 0, 0, 0])
      = perm6 [0, τ + dist, 0, 0, 0, 0] := by
  cases c
  · refine tnw_outcome (eccentric_boost_tnw n dist d false) ?_ n _ t0 rfl (eccentric_boost_end_to_end n hn dist τ d t0 h0)
    rw [eccentric_boost_formula n hn.ne']; exact wf_two_imp _ _ _ _ _ _ _ _
  · refine tnw_outcome (eccentric_boost_tnw n dist d true) ?_ n _ t0 rfl (eccentric_boost_continuous_end_to_end n hn dist τ d t0 h0)
    rw [eccentric_boost_continuous_formula]; exact wf_one_cont _ _ _ _ _

/-- tangential boost with a TNW propagator -/
theorem tangential_boost_end_to_end_tnw (n : ℝ) (hn : 0 < n) (dist τ d t0 : ℝ) (h0 : t0 < d) :
    cwPropagate true n (helperTangentialBoost qsw2tnw n dist d) (d + helperPeriod n) t0 (perm6 [0, τ, 0, 0, 0, 0])
      = perm6 [0, τ + dist, 0, 0, 0, 0] := by
  refine tnw_outcome (tangential_boost_tnw n dist d) ?_ n _ t0 rfl (tangential_boost_end_to_end n hn dist τ d t0 h0)
  rw [tangential_boost_formula]; exact wf_two_imp _ _ _ _ _ _ _ _

/-- linear V-bar approach with a TNW propagator -/
theorem vbar_linear_end_to_end_tnw (n : ℝ) (hn : n ≠ 0) (dist v τ d t0 : ℝ) (h0 : t0 < d) (hv : 0 < v) (hd : dist ≠ 0) :
    cwPropagate true n (helperVbarLinear qsw2tnw n dist d v) (d + |dist / v|) t0 (perm6 [0, τ, 0, 0, 0, 0])
      = perm6 [0, τ + dist, 0, 0, 0, 0] := by
  refine tnw_outcome (vbar_linear_tnw n dist d v) ?_ n _ t0 rfl (vbar_linear_end_to_end n hn dist v τ d t0 h0 hv hd)
  rw [vbar_linear_formula]
  intro m hm; simp at hm; rcases hm with rfl | rfl | rfl <;> rfl

/-- non-vacuity: a LEO mean motion, 300 m below, transfer starting one minute after the orbit's date, backwards approach -/
example : (0 : ℝ) < 0.0011 ∧ (0 : ℝ) < 60 ∧ (0 : ℝ) < 0.5 ∧ (-200 : ℝ) ≠ 0 := by norm_num

end BeyondVerif.C16
