import BeyondVerif.Generated.JplArgR
import BeyondVerif.Props.C03
/-!
# C18 — part 4: the TDB argument handed to the kernel

`Generated/JplArgR.lean` is written on every run from the ASTs of `JplPropagator.propagate` (the argument of
`segment.compute_and_differentiate(…)`, names followed through the assignments of the method) and of `Date.mjd` /
`Date.jd`: `kernelArg caller tdb`, where `caller` is the date the method received — in whatever scale its owner
expressed it — and `tdb` its conversion `date.change_scale("TDB")`.

* `kernel_arg_is_tdb_jd` — the argument is the Julian date of the TDB conversion: TDB day number + TDB seconds of the
  day / 86400 + 2400000.5.  A mixed expression (day number of the caller's date, seconds of the TDB date) does not
  satisfy it: the build fails.
* `kernel_arg_label_free` — it does not read the caller's date at all.
* `kernel_arg_of_instant` — on C03's model of `Date` (`Model/Date.lean`, `change_scale` included): two caller dates
  with ANY labels (scale, day number, clock reading) whose TDB conversions denote the same instant give the same
  kernel argument — the argument is a function of the instant, `jd_tdb(inst)`.  (That `change_scale` keeps the instant,
  to 1.5 µs of `timedelta` rounding, is C03's `changeScale_instant`.)
-/
namespace BeyondVerif.C18
open BeyondVerif.R.JplArg BeyondVerif.NumReal

/-- **The kernel is asked at the TDB Julian date**: day number and seconds of the day of the TDB conversion only. -/
theorem kernel_arg_is_tdb_jd (caller tdb : DateView) :
    kernelArg caller tdb = tdb.d + tdb.s / 86400 + 2400000.5 := by
  simp only [kernelArg, dateJd, dateMjd]
  norm_num

/-- **Independent of the label of the caller's date**: whatever day number and clock reading the caller's date shows in
its own scale, the argument is the same. -/
theorem kernel_arg_label_free (c c' tdb : DateView) : kernelArg c tdb = kernelArg c' tdb := by
  rw [kernel_arg_is_tdb_jd, kernel_arg_is_tdb_jd]

open BeyondVerif.Date in
/-- what `Date.d` / `Date.s` show of a model date: `_convert_to_scale`, ticks of 10⁻⁷ s turned into seconds -/
noncomputable def viewOf (x : BeyondVerif.Date.Date) : DateView :=
  ⟨(x.toScale.1 : ℝ), (x.toScale.2 : ℝ) / 10000000⟩

open BeyondVerif.Date in
/-- **A function of the instant**: two caller dates — any scales, any clock readings — whose conversions to TDB denote
the same instant (with the same TDB−TAI offset) make `JplPropagator.propagate` ask the kernel at the same argument. -/
theorem kernel_arg_of_instant {env : Env} {x y tx ty : BeyondVerif.Date.Date} {tdb : Nat}
    (hx : WF cfg env x) (hy : WF cfg env y)
    (hcx : changeScale cfg env x tdb = .ok tx) (hcy : changeScale cfg env y tdb = .ok ty)
    (hi : tx.inst = ty.inst) (ho : tx.off = ty.off) :
    kernelArg (viewOf x) (viewOf tx) = kernelArg (viewOf y) (viewOf ty) := by
  obtain ⟨_, _, _, hwx, _⟩ := C03.changeScale_instant hx hcx
  obtain ⟨_, _, _, hwy, _⟩ := C03.changeScale_instant hy hcy
  have h1 := hwx.s_nonneg; have h2 := hwx.s_lt; have h3 := hwy.s_nonneg; have h4 := hwy.s_lt
  have hs : tx.s = ty.s ∧ tx.d = ty.d := by
    simp only [Date.inst, D] at hi h2 h4
    omega
  have hv : viewOf tx = viewOf ty := by
    simp only [viewOf, Date.toScale, hs.1, hs.2, ho]
  rw [kernel_arg_label_free (viewOf x) (viewOf y), hv]

/-! ## Non-vacuity -/

/-- 23:59:45 UTC on one day is 00:00:49.184 TDB on the next: the two day numbers differ, the argument follows TDB -/
example : kernelArg ⟨55362, 86385⟩ ⟨55363, 49.184⟩ = 55363 + 49.184 / 86400 + 2400000.5 := by
  rw [kernel_arg_is_tdb_jd]

end BeyondVerif.C18
