import BeyondVerif.Props.C14
import BeyondVerif.Lemmas.CovHeap

/-!
# C14 — several covariances in one process

The property says the result of a frame change "depends only on the target frame, not on the
sequence of frames visited before" and that QSW/TNW are "defined by that inertial position and
velocity" — of THAT state.  With several `Cov` objects alive (several states sharing date and
frame, the same state twice, covariances derived by numpy operations, copies, pickles) this is a
statement about the heap of Model/CovHeap.lean: whatever is done, in whatever order, to the other
objects, the matrix of each covariance is `Mt C0 Mtᵀ` with `Mt` a function of ITS OWN state, ITS
OWN original matrix and the last target addressed to IT.

Frame lemmas for every matrix type are in Lemmas/CovHeap.lean (`hop_other`, `hop_self`,
`hops_project`, `derive_spec`, …); here they are combined with `path_independent` of Props/C14.lean
over real matrices.
-/
namespace BeyondVerif.C14
open BeyondVerif.Cov BeyondVerif.CovHeap Matrix

set_option linter.unusedSectionVars false

variable {F D : Type} [DecidableEq F] {n : Type} [Fintype n] [DecidableEq n]

/-- numeric parameters of the heap model: orientation conversions at each date, `to_local` -/
structure RealHEnv (F D n : Type) where
  convAt : D → F → F → Matrix n n ℝ
  toLocal : Loc → (n → ℝ) → Matrix n n ℝ

/-- the single-object parameters at date `d` -/
def RealHEnv.at (E : RealHEnv F D n) (d : D) : RealEnv F n := { conv := E.convAt d, toLocal := E.toLocal }

/-- the heap environment over Mathlib's real matrices -/
def RealHEnv.henv (E : RealHEnv F D n) : HEnv F D (Matrix n n ℝ) (n → ℝ) where
  base := ({ conv := fun _ _ => 1, toLocal := E.toLocal } : RealEnv F n).env
  convAt := E.convAt

theorem RealHEnv.henv_at (E : RealHEnv F D n) (d : D) : E.henv.at d = (E.at d).env := rfl

theorem RealHEnv.tr_tr (E : RealHEnv F D n) (m : Matrix n n ℝ) : E.henv.base.tr (E.henv.base.tr m) = m :=
  transpose_transpose m

/-- **Every covariance is a function of its own state, its own matrix and its own last target.**
On any heap, let object `j` be a covariance in a state reachable from `Cov(sv, C0, sv.frame)` for a
state `x0` in frame `F0` at date `d` (invariant `Inv`, e.g. right after construction: `heap_init`).
Run ANY interleaving `ops` of frame assignments addressed to any objects — other covariances of the
same state, covariances of other states with the same date and frame, arrays derived by numpy —
as long as those other objects share neither memory nor dict with `j` (which `newCov_spec`,
`copyCov_spec`, `pickle_spec`, `derive_spec` establish for everything that is not a numpy view).
If the targets addressed to `j` are `ts` followed by `t`, then `j` is tagged `t` and its matrix is
`Mt C0 Mtᵀ` with `Mt = Mt (conversions at d) F0 x0 t`: the conversion `F0 → t`, or the QSW/TNW
axes of `x0`.  Nothing about the other objects, and nothing about `ts`, enters. -/
theorem heap_path_independent (E : RealHEnv F D n) (hL : ∀ d, Laws (E.at d)) (h : Heap F D (Matrix n n ℝ) (n → ℝ)) (j : Nat)
    (d : D) (F0 : F) (x0 : n → ℝ) (C0 : Matrix n n ℝ) (hO : LocOrth (E.at d) x0)
    (hd : (h.view E.henv j).date = d) (hf : (h.view E.henv j).orbFrame = some F0)
    (hinv : Inv (E.at d) F0 x0 C0 (h.view E.henv j).st)
    (ops : List (Nat × Tag F)) (hsep : ∀ op ∈ ops, op.1 ≠ j → Sep h op.1 j)
    (ts : List (Tag F)) (t : Tag F) (hts : targetsOf ops j = ts ++ [t]) :
    ((h.hops E.henv ops).view E.henv j).tag = t ∧
    ((h.hops E.henv ops).view E.henv j).mat = Mt (E.at d) F0 x0 t * C0 * (Mt (E.at d) F0 x0 t)ᵀ := by
  have hp := hops_project E.henv E.tr_tr ops j h hsep
  obtain ⟨hrun, _⟩ := foldl_set_full E.henv (targetsOf ops j) (h.view E.henv j) F0 hf
  rw [← hp, hd, E.henv_at, hts] at hrun
  have hi := inv_run (hL d) hO (ts ++ [t]) hinv
  have htag : (run (E.at d).env (h.view E.henv j).st (ts ++ [t])).tag = t := run_tag _ _ _ _
  have hmat := hi.mat
  rw [htag] at hmat
  constructor
  · have : ((h.hops E.henv ops).view E.henv j).st.tag = t := by rw [hrun]; exact htag
    exact this
  · have : ((h.hops E.henv ops).view E.henv j).st.mat = Mt (E.at d) F0 x0 t * C0 * (Mt (E.at d) F0 x0 t)ᵀ := by
      rw [hrun]; exact hmat
    exact this

/-- the hypothesis of `heap_path_independent` right after `Cov(sv_s, C0, sv_s.frame)` on any
well-formed heap: the new object satisfies the invariant for ITS state, and shares nothing with
the objects that existed -/
theorem heap_init (E : RealHEnv F D n) (hL : ∀ d, Laws (E.at d)) (h : Heap F D (Matrix n n ℝ) (n → ℝ)) (hw : WF h) (s : Nat) (C0 : Matrix n n ℝ) :
    let h' := h.newCov s (.frame (h.sv s).frame) C0
    (h'.view E.henv h.nobj).date = (h.sv s).date ∧ (h'.view E.henv h.nobj).orbFrame = some (h.sv s).frame ∧
    Inv (E.at (h.sv s).date) (h.sv s).frame (h.sv s).x C0 (h'.view E.henv h.nobj).st ∧
    (∀ j, j < h.nobj → Sep h' h.nobj j) ∧ (∀ j, j < h.nobj → h'.view E.henv j = h.view E.henv j) := by
  intro h'
  obtain ⟨_, _, old, sep, v⟩ := newCov_spec E.henv h hw s (.frame (h.sv s).frame) C0
  refine ⟨by rw [v], by rw [v], ?_, sep, old⟩
  rw [v]
  exact inv_init (hL _) _ _ _

/-- **Two covariances of two states with the same date and the same frame** (the situation a memo
keyed by date and frames would confuse): after any interleaving of frame assignments, each one has
the matrix of its own state's axes. -/
theorem two_states_same_epoch (E : RealHEnv F D n) (hL : ∀ d, Laws (E.at d)) (h : Heap F D (Matrix n n ℝ) (n → ℝ)) (a b : Nat)
    (d : D) (F0 : F) (xa xb : n → ℝ) (Ca Cb : Matrix n n ℝ) (hOa : LocOrth (E.at d) xa) (hOb : LocOrth (E.at d) xb)
    (hsep : Sep h a b)
    (hda : (h.view E.henv a).date = d) (hfa : (h.view E.henv a).orbFrame = some F0) (hia : Inv (E.at d) F0 xa Ca (h.view E.henv a).st)
    (hdb : (h.view E.henv b).date = d) (hfb : (h.view E.henv b).orbFrame = some F0) (hib : Inv (E.at d) F0 xb Cb (h.view E.henv b).st)
    (ops : List (Nat × Tag F)) (hops : ∀ op ∈ ops, op.1 = a ∨ op.1 = b)
    (tsa tsb : List (Tag F)) (k : Loc) (hta : targetsOf ops a = tsa ++ [.loc k]) (htb : targetsOf ops b = tsb ++ [.loc k]) :
    ((h.hops E.henv ops).view E.henv a).mat = E.toLocal k xa * Ca * (E.toLocal k xa)ᵀ ∧
    ((h.hops E.henv ops).view E.henv b).mat = E.toLocal k xb * Cb * (E.toLocal k xb)ᵀ := by
  have sa : ∀ op ∈ ops, op.1 ≠ a → Sep h op.1 a := by
    intro op hm hne
    rcases hops op hm with h1 | h1
    · exact absurd h1 hne
    · rw [h1]; exact ⟨Ne.symm hsep.1, Ne.symm hsep.2⟩
  have sb : ∀ op ∈ ops, op.1 ≠ b → Sep h op.1 b := by
    intro op hm hne
    rcases hops op hm with h1 | h1
    · rw [h1]; exact hsep
    · exact absurd h1 hne
  exact ⟨(heap_path_independent E hL h a d F0 xa Ca hOa hda hfa hia ops sa tsa _ hta).2,
         (heap_path_independent E hL h b d F0 xb Cb hOb hdb hfb hib ops sb tsb _ htb).2⟩

/-- **An array derived by numpy and its source are independent** (targets of any kind, regular
frames included since /repo c5f38c8): after `e = g(c)` (fresh output
buffer) run any frame assignments on `e` and on other separate objects; the source `c` is exactly
what it was (tag, values), whatever happened to `e` — and the other way round `e` keeps the values
numpy computed and the tag it was born with while `c` moves. -/
theorem derived_independent (E : RealHEnv F D n) (h : Heap F D (Matrix n n ℝ) (n → ℝ)) (hw : WF h) (i : Nat) (hi : i < h.nobj) (val : Matrix n n ℝ)
    (opsE opsC : List (Tag F)) :
    let h' := h.derive i val
    (h'.hops E.henv (opsE.map (fun t => (h.nobj, t)))).view E.henv i = h.view E.henv i ∧
    ((h'.hops E.henv (opsC.map (fun t => (i, t)))).view E.henv h.nobj).mat = val ∧
    ((h'.hops E.henv (opsC.map (fun t => (i, t)))).view E.henv h.nobj).tag = (h.view E.henv i).tag := by
  intro h'
  obtain ⟨_, _, old, sep, v⟩ := derive_spec E.henv h hw i hi val
  have hne : h.nobj ≠ i := Nat.ne_of_gt hi
  refine ⟨?_, ?_, ?_⟩
  · have hp := hops_project E.henv E.tr_tr (opsE.map (fun t => (h.nobj, t))) i h' (by
      intro op hm _
      obtain ⟨t, _, rfl⟩ := List.mem_map.mp hm
      exact sep i hi)
    have ht : targetsOf (opsE.map (fun t => (h.nobj, t))) i = [] := by
      simp [targetsOf, hne]
    rw [hp, ht]; exact old i hi
  · have hp := hops_project E.henv E.tr_tr (opsC.map (fun t => (i, t))) h.nobj h' (by
      intro op hm _
      obtain ⟨t, _, rfl⟩ := List.mem_map.mp hm
      exact ⟨Ne.symm (sep i hi).1, Ne.symm (sep i hi).2⟩)
    have ht : targetsOf (opsC.map (fun t => (i, t))) h.nobj = [] := by
      simp [targetsOf, hne.symm]
    rw [hp, ht, List.foldl_nil, v]
  · have hp := hops_project E.henv E.tr_tr (opsC.map (fun t => (i, t))) h.nobj h' (by
      intro op hm _
      obtain ⟨t, _, rfl⟩ := List.mem_map.mp hm
      exact ⟨Ne.symm (sep i hi).1, Ne.symm (sep i hi).2⟩)
    have ht : targetsOf (opsC.map (fun t => (i, t))) h.nobj = [] := by
      simp [targetsOf, hne.symm]
    rw [hp, ht, List.foldl_nil, v]

/-- **A covariance derived by numpy converts like any other** (since /repo c5f38c8
`__array_finalize__` carries `_orb_frame`): let `c` be a covariance reachable from
`Cov(sv, C0, sv.frame)` and `e = k * c` (fresh buffer: also `c * k`, `c / k`, `-c`, `c + c.copy()`,
copies by numpy with `k = 1`).  After ANY interleaving of frame assignments — to `e`, to `c`, to
other separate objects — in which the targets addressed to `e` are `ts` followed by `t`, regular
frame or QSW/TNW, `e` is tagged `t` and holds `k · Mt C0 Mtᵀ` with `Mt` of the state of `c`. -/
theorem derived_path_independent (E : RealHEnv F D n) (hL : ∀ d, Laws (E.at d)) (h : Heap F D (Matrix n n ℝ) (n → ℝ)) (hw : WF h)
    (i : Nat) (hi : i < h.nobj) (d : D) (F0 : F) (x0 : n → ℝ) (C0 : Matrix n n ℝ) (hO : LocOrth (E.at d) x0)
    (hd : (h.view E.henv i).date = d) (hf : (h.view E.henv i).orbFrame = some F0)
    (hinv : Inv (E.at d) F0 x0 C0 (h.view E.henv i).st) (k : ℝ)
    (ops : List (Nat × Tag F)) (hsep : ∀ op ∈ ops, op.1 < h.nobj)
    (ts : List (Tag F)) (t : Tag F) (hts : targetsOf ops h.nobj = ts ++ [t]) :
    let h' := h.derive i (k • (h.view E.henv i).mat)
    ((h'.hops E.henv ops).view E.henv h.nobj).tag = t ∧
    ((h'.hops E.henv ops).view E.henv h.nobj).mat = k • (Mt (E.at d) F0 x0 t * C0 * (Mt (E.at d) F0 x0 t)ᵀ) := by
  intro h'
  obtain ⟨_, _, _, sep, v⟩ := derive_spec E.henv h hw i hi (k • (h.view E.henv i).mat)
  have hinv' : Inv (E.at d) F0 x0 (k • C0) (h'.view E.henv h.nobj).st := by
    rw [v]
    refine ⟨hinv.orbFrame, hinv.orbCur, hinv.orb, ?_⟩
    show k • (h.view E.henv i).mat = _
    have hm : (h.view E.henv i).mat = _ := hinv.mat
    rw [hm]
    show _ = Mt (E.at d) F0 x0 (h.view E.henv i).tag * (k • C0) * (Mt (E.at d) F0 x0 (h.view E.henv i).tag)ᵀ
    simp only [Matrix.mul_smul, Matrix.smul_mul]
    rfl
  have := heap_path_independent E hL h' h.nobj d F0 x0 (k • C0) hO (by rw [v]; exact hd) (by rw [v]; exact hf) hinv' ops
    (fun op hm _ => sep op.1 (hsep op hm) |> fun s => ⟨Ne.symm s.1, Ne.symm s.2⟩) ts t hts
  refine ⟨this.1, ?_⟩
  rw [this.2]
  simp only [Matrix.mul_smul, Matrix.smul_mul]

/-! ## Non-vacuity -/

/-- the environment `exEnv` of Props/C14.lean at every date -/
def exHEnv : RealHEnv Bool Unit (Fin 2) where
  convAt _ := exEnv.conv
  toLocal := exEnv.toLocal

/-- an empty heap holding two states with the same date and frame, different coordinates -/
def exHeap : Heap Bool Unit (Matrix (Fin 2) (Fin 2) ℝ) (Fin 2 → ℝ) where
  buf _ := 0
  data _ := { tag := .loc .qsw, orb := 0 }
  orb _ := { date := (), frame := false, x := 0 }
  obj _ := { buf := 0, tr := false, data := 0, orbFrame := none }
  sv k := { date := (), frame := false, x := if k = 0 then ![1, 0] else ![0, 1], cov := none }
  nbuf := 0
  ndata := 0
  norb := 0
  nobj := 0

theorem exHeap_wf : WF exHeap :=
  ⟨fun _ hj => absurd hj (Nat.not_lt_zero _), fun _ hj => absurd hj (Nat.not_lt_zero _), fun _ hk => absurd hk (Nat.not_lt_zero _)⟩

/-- the hypotheses of `heap_path_independent` are met by two covariances built on `exHeap`, and
the conclusion is used on an interleaved sequence -/
example (Ca Cb : Matrix (Fin 2) (Fin 2) ℝ) :
    let h1 := exHeap.newCov 0 (.frame false) Ca
    let h2 := h1.newCov 1 (.frame false) Cb
    ((h2.hops exHEnv.henv [(0, .loc .qsw), (1, .frame true), (0, .frame true), (1, .loc .tnw), (0, .frame false)]).view exHEnv.henv 0).mat = Ca := by
  intro h1 h2
  have hL : ∀ d, Laws (exHEnv.at d) := fun _ => exEnv_laws
  obtain ⟨w1, n1, _, _, v1⟩ := newCov_spec exHEnv.henv exHeap exHeap_wf 0 (.frame false) Ca
  obtain ⟨_, _, old2, sep2, _⟩ := newCov_spec exHEnv.henv h1 w1 1 (.frame false) Cb
  have hv0 : h2.view exHEnv.henv 0 = { tag := .frame false, orbFrame := some false, date := (), orbCur := false, orb := ![1, 0], mat := Ca } := by
    rw [old2 0 (by rw [n1]; exact Nat.zero_lt_one)]; exact v1
  have hs : Sep h2 1 0 := sep2 0 (by rw [n1]; exact Nat.zero_lt_one)
  have := (heap_path_independent exHEnv hL h2 0 () false ![1, 0] Ca (exEnv_locOrth _) (by rw [hv0]) (by rw [hv0])
    (by rw [hv0]; exact inv_init exEnv_laws _ _ _)
    [(0, .loc .qsw), (1, .frame true), (0, .frame true), (1, .loc .tnw), (0, .frame false)]
    (by
      intro op hm hne
      simp only [List.mem_cons, List.mem_nil_iff, or_false] at hm
      rcases hm with rfl | rfl | rfl | rfl | rfl
      · exact absurd rfl hne
      · exact hs
      · exact absurd rfl hne
      · exact hs
      · exact absurd rfl hne)
    [.loc .qsw, .frame true] (.frame false) (by decide)).2
  rw [this]
  simp [Mt, RealHEnv.at, exHEnv, exEnv]

end BeyondVerif.C14
