import BeyondVerif.Model.RegistrySpec

/-!
# C20 — nodes sharing names: small forests, every assignment of names (kernel `decide`)

Kept apart from `Props/C20Registry.lean` so that it is not re-checked when the regenerated registration sites change.
-/
namespace BeyondVerif.C20
open BeyondVerif.Reg

/-- nodes sharing names: every insertion order and orientation of every labelled forest on ≤ 3 nodes under EVERY
assignment of names (27 on 3 nodes), every prefix: each name carried by a connected node is routed along a simple chain
of existing links to a nearest node of that name, every other name is `Unknown` (kernel `decide`; larger cases are
enumerated / sampled on the real code and compared with the model) -/
theorem small_named_forests_exact : (allNamedForestsOK 2 && allNamedForestsOK 3) = true := by
  decide +kernel

/-- non-vacuity: two same-named children of a root, one with a sub-tree (the `Earth`/`Earth`/`Earth` shape) -/
example : namedRoutingExact [0, 0, 0, 5] [(1, 0), (3, 1), (0, 2)] = true := by decide

end BeyondVerif.C20
