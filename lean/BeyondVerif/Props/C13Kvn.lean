import BeyondVerif.Props.C13KvnDict
/-!
C13, `load_dump_id` for whole messages in KVN: **OPM** and **OMM**.

`opm_kvn_load_dump_id`, `omm_kvn_load_dump_id`: every well-formed message is read back from what the KVN writer
produced, with the same normal forms as the XML theorems (`opm_xml_load_dump_id`, `omm_xml_load_dump_id`), hence
`opm_kvn_xml_agree`, `omm_kvn_xml_agree`.  Assembly: the writer's output is `ordinary lines ++ maneuver lines ++
user-defined lines` (`opmKvn_eq`), `kvn2dict` turns it into `finalDict base mans ud` (`kvn2dict_blocks` in
`C13KvnDict.lean`, with `opm_plain_facts` / `omm_plain_facts` for the ordinary lines), and the readers find in that dict
what they look for (`opm_head_kvn`, `read_mans_kvn`, `read_cov_kvn`, `finalDict_kvnUd`, `omm_core_kvn`).
-/
namespace BeyondVerif.C13
open BeyondVerif.Ccsds BeyondVerif.Generated

/-! ### OPM: the lines and the dict -/

/-- everything `opm._dumps_kvn` writes before the maneuvers -/
def opmPlain (m : Opm) (c r : String) : List Line :=
  header "CCSDS_OPM_VERS" "2.0" ++ [.blank] ++ metaKvn true m.name m.id c r m.scale [] ++
    [.comment "State Vector", .kv "EPOCH" m.epoch none] ++
    (svKeys.zip m.state).map (fun (k, v) => Line.kv k v (some (svUnit k))) ++
    (match m.kep with
     | some ks => [Line.blank, .comment "Keplerian elements"] ++ (kepKeys.zip ks).map fun ((k, u), v) => Line.kv k v u
     | none => []) ++
    (match m.cov with | some c => covKvn c | none => [])

theorem opmKvn_eq (m : Opm) (c r : String) (hfo : frameOut m.frame = .ok (c, r)) :
    opmKvn m = .ok (opmPlain m c r ++ m.mans.flatMap (manKvn m.frame) ++ udKvn m.ud) := by
  simp only [opmKvn, hfo, bind, Except.bind, pure, Except.pure, opmPlain]
  rfl

def kvnHeader (versKey version : String) : Dict :=
  [(versKey, .field (.s version) []), ("CREATION_DATE", .field (.s "now") []), ("ORIGINATOR", .field (.s "N/A") [])]

def opmFixed (m : Opm) (c r : String) : Dict :=
  kvnHeader "CCSDS_OPM_VERS" "2.0" ++ [("META_START", .field (.s "") [])] ++ metaDict m.name m.id c r m.scale ++
  [("META_STOP", .field (.s "") [])] ++ svDict m.epoch m.state

def kepPart : Option (List Txt) → Dict
  | some ks => kepDict ks
  | none => []

def covPart : Option CovM → Dict
  | some c => covDict none c
  | none => []

/-- pairs of the ordinary lines of an OPM: header, metadata, state vector, Keplerian block, covariance block -/
def opmBase (m : Opm) (c r : String) : Dict := opmFixed m c r ++ (kepPart m.kep ++ covPart m.cov)

def opmFixedKeys : List String :=
  ["CCSDS_OPM_VERS", "CREATION_DATE", "ORIGINATOR", "META_START", "OBJECT_NAME", "OBJECT_ID", "CENTER_NAME", "REF_FRAME", "TIME_SYSTEM",
   "META_STOP", "EPOCH", "X", "Y", "Z", "X_DOT", "Y_DOT", "Z_DOT"]

/-- keys of the covariance block: with / without frame tag -/
def covPartKeys : Option Bool → List String
  | none => []
  | some tag => (if tag then ["COV_REF_FRAME"] else []) ++ covKeys

def opmKeys (kep : Bool) (cov : Option Bool) : List String :=
  opmFixedKeys ++ ((if kep then kepKeys.map (·.1) else []) ++ covPartKeys cov)

theorem opmKeys_ok : ∀ kep, ∀ cov ∈ [none, some false, some true],
    (opmKeys kep cov).Nodup ∧ "maneuvers" ∉ opmKeys kep cov ∧ "USER_DEFINED" ∉ opmKeys kep cov := by
  decide

/-- the ordinary lines of a well-formed OPM are ordinary, their pairs are `opmBase`, whose keys are those of `opmKeys` -/
theorem opm_plain_facts (m : Opm) (h : OpmWf m) (c r : String) :
    (opmPlain m c r).all linePlain = true ∧ (opmPlain m c r).filterMap linePair = opmBase m c r ∧
    ∃ kep, ∃ cov ∈ [none, some false, some true], (opmBase m c r).map (·.1) = opmKeys kep cov := by
  obtain ⟨x, y, z, vx, vy, vz, hs, -⟩ := h.state
  have hk := h.kep
  have hc := h.cov
  obtain ⟨name, id, frame, scale, epoch, state, kep, cov, mans, ud⟩ := m
  simp only at hs hk hc
  subst hs
  cases kep with
  | none =>
    cases cov with
    | none => exact ⟨rfl, rfl, false, none, by simp, rfl⟩
    | some cv =>
      obtain ⟨⟨a0, a1, a2, a3, a4, a5, a6, a7, a8, a9, a10, a11, a12, a13, a14, a15, a16, a17, a18, a19, a20, htri, -⟩, -⟩ := hc cv rfl
      obtain ⟨cf, tri⟩ := cv
      simp only at htri
      subst htri
      cases cf with
      | none => exact ⟨rfl, rfl, false, some false, by simp, rfl⟩
      | some f => exact ⟨rfl, rfl, false, some true, by simp, rfl⟩
  | some ks =>
    obtain ⟨k1, k2, k3, k4, k5, k6, k7, hks, -⟩ := hk ks rfl
    subst hks
    cases cov with
    | none => exact ⟨rfl, rfl, true, none, by simp, rfl⟩
    | some cv =>
      obtain ⟨⟨a0, a1, a2, a3, a4, a5, a6, a7, a8, a9, a10, a11, a12, a13, a14, a15, a16, a17, a18, a19, a20, htri, -⟩, -⟩ := hc cv rfl
      obtain ⟨cf, tri⟩ := cv
      simp only at htri
      subst htri
      cases cf with
      | none => exact ⟨rfl, rfl, true, some false, by simp, rfl⟩
      | some f => exact ⟨rfl, rfl, true, some true, by simp, rfl⟩

/-! ### lookups in the final dict -/

theorem udEntry_lookup_other (ud : Option (List (String × String))) (k : String) (hk : k ≠ "USER_DEFINED") :
    (udEntry ud).lookup k = none := by
  have : (k == "USER_DEFINED") = false := by simpa using hk
  match ud with
  | none => rfl
  | some [] => rfl
  | some (kv :: r) => simp [udEntry, List.lookup, this]

theorem finalDict_lookup_base (base : Dict) (mans : List Dict) (ud : Option (List (String × String))) (k : String) (v : Val)
    (h : base.lookup k = some v) : (finalDict base mans ud).lookup k = some v :=
  lookup_append_of_some _ _ _ _ h

theorem finalDict_lookup_other (base : Dict) (mans : List Dict) (ud : Option (List (String × String))) (k : String)
    (h1 : k ≠ "maneuvers") (h2 : k ≠ "USER_DEFINED") : (finalDict base mans ud).lookup k = base.lookup k := by
  have e1 : (k == "maneuvers") = false := by simpa using h1
  unfold finalDict
  cases hm : mans.isEmpty <;>
    simp [List.lookup_append, udEntry_lookup_other ud k h2, List.lookup, e1]

theorem finalDict_lookup_mans (base : Dict) (mans : List Dict) (ud : Option (List (String × String)))
    (h : base.lookup "maneuvers" = none) :
    (finalDict base mans ud).lookup "maneuvers" = if mans.isEmpty then none else some (.list (mans.map .dict)) := by
  unfold finalDict
  cases hm : mans.isEmpty <;>
    simp [List.lookup_append, h, udEntry_lookup_other ud "maneuvers" (by decide), List.lookup]

theorem finalDict_kvnUd (base : Dict) (mans : List Dict) (ud : Option (List (String × String)))
    (h : base.lookup "USER_DEFINED" = none) : kvnUd (finalDict base mans ud) = normUd ud := by
  have hl : (finalDict base mans ud).lookup "USER_DEFINED" = (udEntry ud).lookup "USER_DEFINED" := by
    unfold finalDict
    cases hm : mans.isEmpty <;> simp [List.lookup_append, h, List.lookup]
  match ud with
  | none => exact kvnUd_of_none _ (by rw [hl]; rfl)
  | some [] => exact kvnUd_of_none _ (by rw [hl]; rfl)
  | some (kv :: r) => exact kvnUd_of_lookup _ kv r (by rw [hl]; rfl)

/-- the maneuver loop of `opm._loads_kvn` -/
def mansOfKvn (frame : String) (data : Dict) : R (List Man) :=
  (match data.lookup "maneuvers" with
    | some (.list xs) => xs.mapM asDict
    | some _ => .error .typeError
    | none => pure []) >>= fun raws => raws.mapM (loadMan frame)

/-- `if "CX_X" in data: orb.cov = load_cov(orb, data)` of the OPM / OMM KVN readers -/
def covOfKvn (frame : String) (data : Dict) : R (Option CovM) :=
  if (data.lookup "CX_X").isSome then some <$> loadCov frame data else pure none

/-- the maneuver part of the readers on the final dict -/
theorem read_mans_kvn (own : String) (hown : own ∈ frameTable.map (·.1)) (ms : List Man)
    (hwf : ∀ x ∈ ms, ManWf own x ∧ (x.frame = none ∨ x.frame = some "QSW" ∨ x.frame = some "TNW"))
    (D : Dict) (hl : D.lookup "maneuvers" = if (ms.map (manDictKvn own)).isEmpty then none else some (.list ((ms.map (manDictKvn own)).map .dict))) :
    mansOfKvn own D = .ok ms := by
  unfold mansOfKvn
  have hback : (ms.map fun x => { x with frame := manFrameBack own x }) = ms := by
    conv => rhs; rw [← List.map_id ms]
    apply List.map_congr_left
    intro x hx
    rw [manFrameBack_ok own x hown (hwf x hx).2]
    rfl
  have hdv : ∀ x ∈ ms, ∃ a b c, x.dv = [a, b, c] := by
    intro x hx
    obtain ⟨⟨a, b, c, hd, -⟩, -⟩ := (hwf x hx).1
    exact ⟨a, b, c, hd⟩
  rw [hl]
  cases ms with
  | nil => rfl
  | cons x r =>
    simp only [List.map_cons, List.isEmpty_cons, Bool.false_eq_true, if_false]
    have := mapM_asDict (manDictKvn own x :: (r.map (manDictKvn own)))
    simp only [List.map_cons] at this
    rw [this]
    have h2 := mapM_loadManKvn own (x :: r) hdv
    simp only [List.map_cons] at h2 hback
    simp only [bind, Except.bind]
    rw [h2, hback]

theorem covRead_keys_elsewhere : ∀ k ∈ covReadKeys,
    k ∉ opmFixedKeys ∧ k ∉ kepKeys.map (·.1) ∧ k ≠ "maneuvers" ∧ k ≠ "USER_DEFINED" := by decide

/-- the covariance part of the readers on a dict that agrees with the covariance block on the keys `load_cov` reads -/
theorem read_cov_kvn (own : String) (hown : own ∈ frameTable.map (·.1)) (cov : Option CovM) (hwf : ∀ c, cov = some c → CovWf c)
    (D : Dict) (hl : ∀ k ∈ covReadKeys, D.lookup k = (covPart cov).lookup k) :
    covOfKvn own D = .ok cov := by
  unfold covOfKvn
  have h0 := hl "CX_X" (by decide)
  cases cov with
  | none =>
    rw [h0]
    rfl
  | some cv =>
    have hw := hwf cv rfl
    have hload : loadCov own D = .ok cv := by
      rw [loadCov_congr own D (covDict none cv) hl]
      exact (cov_xml_roundtrip' own hown cv hw).2
    have hsome : ((covPart (some cv)).lookup "CX_X").isSome = true := by
      obtain ⟨⟨a0, a1, a2, a3, a4, a5, a6, a7, a8, a9, a10, a11, a12, a13, a14, a15, a16, a17, a18, a19, a20, htri, -⟩, -⟩ := hw
      obtain ⟨cf, tri⟩ := cv
      simp only at htri
      subst htri
      cases cf <;> rfl
    rw [h0, hsome, hload]
    rfl

/-! ### OPM: reading the dict back -/

theorem opmFromKvnDict_eq (data : Dict) : opmFromKvnDict data = (do
    let (name, id, scale, frame, epoch, state) ← opmHeadFromXml data data
    let mans ← mansOfKvn frame data
    let cov ← covOfKvn frame data
    pure { name := name, id := id, frame := frame, scale := scale, epoch := epoch, state := state, kep := none,
           cov := cov, mans := mans, ud := kvnUd data }) := by
  unfold opmFromKvnDict opmHeadFromXml mansOfKvn covOfKvn
  simp only [bind, Except.bind]
  cases keyErrToCcsds _ with
  | error e => rfl
  | ok v =>
    dsimp only
    generalize data.lookup "maneuvers" = L
    generalize (data.lookup "CX_X").isSome = b
    rcases L with _ | (_ | _ | xs) <;> cases b <;> try rfl
    all_goals (dsimp only; cases List.mapM asDict xs <;> try rfl)

/-- the mandatory block of the reader, on any dict that contains the header / metadata / state-vector pairs -/
theorem opm_head_kvn (m : Opm) (h : OpmWf m) (c r : String) (hcr : centreRule c r = .ok m.frame) (D : Dict)
    (hD : ∀ k v, (opmFixed m c r).lookup k = some v → D.lookup k = some v) :
    opmHeadFromXml D D = .ok (m.name, m.id, m.scale, m.frame, m.epoch, m.state) := by
  obtain ⟨x, y, z, vx, vy, vz, hs, -⟩ := h.state
  obtain ⟨name, id, frame, scale, epoch, state, kep, cov, mans, ud⟩ := m
  simp only at hs hcr
  subst hs
  have l1 := hD "OBJECT_NAME" _ rfl
  have l2 := hD "OBJECT_ID" _ rfl
  have l3 := hD "TIME_SYSTEM" _ rfl
  have l4 := hD "REF_FRAME" _ rfl
  have l5 := hD "CENTER_NAME" _ rfl
  have l6 := hD "EPOCH" _ rfl
  have l7 := hD "X" _ rfl
  have l8 := hD "Y" _ rfl
  have l9 := hD "Z" _ rfl
  have l10 := hD "X_DOT" _ rfl
  have l11 := hD "Y_DOT" _ rfl
  have l12 := hD "Z_DOT" _ rfl
  simp [opmHeadFromXml, strOf, textOf, getItem, loadSv, decodeUnit, Val.text, l1, l2, l3, l4, l5, l6, l7, l8, l9, l10, l11, l12,
    bind, Except.bind, pure, Except.pure, hcr, keyErrToCcsds, svUnit, unitNames, List.lookup]

theorem kepPart_lookup_none (kep : Option (List Txt)) (hk : ∀ ks, kep = some ks → KepWf ks) (k : String)
    (h : k ∉ kepKeys.map (·.1)) : (kepPart kep).lookup k = none := by
  cases kep with
  | none => rfl
  | some ks =>
    obtain ⟨k1, k2, k3, k4, k5, k6, k7, hks, -⟩ := hk ks rfl
    subst hks
    exact lookup_none_of_not_mem _ _ h

theorem opmBase_lookup_cov (m : Opm) (h : OpmWf m) (c r : String) (k : String) (hk : k ∈ covReadKeys) :
    (opmBase m c r).lookup k = (covPart m.cov).lookup k := by
  obtain ⟨h1, h2, -, -⟩ := covRead_keys_elsewhere k hk
  have hf : (opmFixed m c r).lookup k = none := by
    obtain ⟨x, y, z, vx, vy, vz, hs, -⟩ := h.state
    apply lookup_none_of_not_mem
    have : (opmFixed m c r).map (·.1) = opmFixedKeys := by
      simp only [opmFixed, hs]
      rfl
    rw [this]
    exact h1
  unfold opmBase
  rw [lookup_append_of_none _ _ _ hf, lookup_append_of_none _ _ _ (kepPart_lookup_none m.kep h.kep k h2)]

/-- **`load_dump_id`, OPM, KVN.**  Every well-formed OPM (any registered frame — the ten Earth-centred ones or one centred on a solar-system / JPL body or a Lagrange point; Keplerian block written or not; covariance
absent or present in the orbit's frame, QSW or TNW; any number of maneuvers of either kind in the orbit's frame, QSW or TNW, with or
without comment; user-defined fields absent, empty, one or many with distinct names) is read back from what the KVN writer produced:
`kvn2dict` groups the `MAN_` lines into one dict per maneuver (a new one at each `MAN_EPOCH_IGNITION`, the comment of the line before
attached).  The result is the same normal form as for XML (`opm_xml_load_dump_id`): the Keplerian block, which the readers ignore,
dropped; an empty user-defined dict read as none. -/
theorem opm_kvn_load_dump_id (m : Opm) (h : OpmWf m) (hud : UdKvnWf m.ud) :
    (opmKvn m >>= loadOpmKvn) = .ok { m with kep := none, ud := normUd m.ud } := by
  obtain ⟨c, r, hfo, hcr, -, -, -⟩ := frameOut_ok m.frame h.frame
  obtain ⟨hplain, hpairs, kep, cov, hcovmem, hkeys⟩ := opm_plain_facts m h c r
  obtain ⟨hnd, hnm, hnu⟩ := opmKeys_ok kep cov hcovmem
  rw [← hkeys] at hnd hnm hnu
  have hdv : ∀ x ∈ m.mans, ∃ a b c, x.dv = [a, b, c] := by
    intro x hx
    obtain ⟨⟨a, b, c, hd, -⟩, -⟩ := (h.mans x hx).1
    exact ⟨a, b, c, hd⟩
  have hdict := kvn2dict_blocks m.frame (opmPlain m c r) m.mans m.ud hplain (by rw [hpairs]; exact hnd) (by rw [hpairs]; exact hnm)
    (by rw [hpairs]; exact hnu) hdv (fun kvs hk => (hud kvs hk).1)
  rw [hpairs] at hdict
  have hbm := lookup_none_of_not_mem _ _ hnm
  have hbu := lookup_none_of_not_mem _ _ hnu
  have hhead := opm_head_kvn m h c r hcr (finalDict (opmBase m c r) (m.mans.map (manDictKvn m.frame)) m.ud)
    (fun k v hkv => finalDict_lookup_base _ _ _ k v (lookup_append_of_some _ _ _ _ hkv))
  have hmans := read_mans_kvn m.frame h.frame m.mans h.mans _ (finalDict_lookup_mans (opmBase m c r) (m.mans.map (manDictKvn m.frame)) m.ud hbm)
  have hcov := read_cov_kvn m.frame h.frame m.cov h.cov (finalDict (opmBase m c r) (m.mans.map (manDictKvn m.frame)) m.ud) (by
    intro k hk
    obtain ⟨-, -, h3, h4⟩ := covRead_keys_elsewhere k hk
    rw [finalDict_lookup_other _ _ _ k h3 h4, opmBase_lookup_cov m h c r k hk])
  have hudk := finalDict_kvnUd (opmBase m c r) (m.mans.map (manDictKvn m.frame)) m.ud hbu
  rw [opmKvn_eq m c r hfo]
  show loadOpmKvn _ = _
  unfold loadOpmKvn
  rw [hdict]
  show opmFromKvnDict _ = _
  rw [opmFromKvnDict_eq]
  simp only [hhead, hmans, hcov, hudk, bind, Except.bind, pure, Except.pure]

/-- the hypotheses are satisfiable by a non-trivial message (one QSW maneuver with a comment, one user-defined field) -/
example : (opmKvn opmEx >>= loadOpmKvn) = .ok opmEx :=
  opm_kvn_load_dump_id opmEx opmEx_wf (by
    intro kvs hk
    cases hk
    exact ⟨by simp, by simp⟩)

def opmEx2 : Opm :=
  { name := "SAT", id := "2020-001A", frame := "GCRF", scale := "TAI", epoch := .s "t0",
    state := [.s "1", .s "2", .s "3", .s "4", .s "5", .s "6"],
    kep := some [.s "7000", .s "0.001", .s "51", .s "10", .s "20", .s "30", .s "398600.4"],
    cov := some ⟨some "TNW", [.s "1", .s "2", .s "3", .s "4", .s "5", .s "6", .s "7", .s "8", .s "9", .s "10", .s "11", .s "12", .s "13",
      .s "14", .s "15", .s "16", .s "17", .s "18", .s "19", .s "20", .s "21"]⟩,
    mans := [⟨0, .s "t1", some "QSW", some "burn", [.s "1", .s "2", .s "3"]⟩, ⟨60000, .s "t2", none, none, [.s "4", .s "5", .s "6"]⟩,
      ⟨0, .s "t3", some "TNW", none, [.s "7", .s "8", .s "9"]⟩],
    ud := some [("FOO", "bar"), ("B", "c")] }

/-- … and by a message with everything in it: Keplerian block, covariance in TNW, three maneuvers (impulsive in QSW with a comment,
continuous in the orbit's frame, impulsive in TNW), two user-defined fields -/
theorem opmEx2_wf : OpmWf opmEx2 :=
  { frame := by decide
    name := by decide
    id := by decide
    scale := by decide
    epoch := by decide
    state := ⟨_, _, _, _, _, _, rfl, by decide, by decide, by decide, by decide, by decide, by decide⟩
    kep := by
      intro ks h
      cases h
      exact ⟨_, _, _, _, _, _, _, rfl, by decide, by decide, by decide, by decide, by decide, by decide, by decide⟩
    cov := by
      intro c hc
      cases hc
      exact ⟨⟨_, _, _, _, _, _, _, _, _, _, _, _, _, _, _, _, _, _, _, _, _, rfl, by decide⟩, Or.inr (Or.inr rfl)⟩
    mans := by
      intro x hx
      simp only [opmEx2, List.mem_cons, List.not_mem_nil, or_false] at hx
      rcases hx with rfl | rfl | rfl
      · exact ⟨⟨⟨_, _, _, rfl, by decide, by decide, by decide⟩, by decide, by decide, by decide⟩, Or.inr (Or.inl rfl)⟩
      · exact ⟨⟨⟨_, _, _, rfl, by decide, by decide, by decide⟩, by decide, by decide, by decide⟩, Or.inl rfl⟩
      · exact ⟨⟨⟨_, _, _, rfl, by decide, by decide, by decide⟩, by decide, by decide, by decide⟩, Or.inr (Or.inr rfl)⟩
    ud := by
      intro kvs h kv hkv
      cases h
      simp only [List.mem_cons, List.not_mem_nil, or_false] at hkv
      rcases hkv with rfl | rfl <;> decide }

example : (opmKvn opmEx2 >>= loadOpmKvn) = .ok { opmEx2 with kep := none } :=
  opm_kvn_load_dump_id opmEx2 opmEx2_wf (by
    intro kvs hk
    cases hk
    exact ⟨by decide, by decide⟩)

/-- **agreement of the two encodings, OPM**: reading the KVN text and reading the XML text of the same well-formed OPM give the same object -/
theorem opm_kvn_xml_agree (m : Opm) (h : OpmWf m) (hud : UdKvnWf m.ud) :
    (opmKvn m >>= loadOpmKvn) = (opmXml m >>= loadOpmXml) := by
  rw [opm_kvn_load_dump_id m h hud, opm_xml_load_dump_id m h]

example : (opmKvn opmEx2 >>= loadOpmKvn) = (opmXml opmEx2 >>= loadOpmXml) :=
  opm_kvn_xml_agree opmEx2 opmEx2_wf (by
    intro kvs hk
    cases hk
    exact ⟨by decide, by decide⟩)

/-! ### OMM -/

/-- everything `omm._dumps_kvn` writes before the user-defined lines -/
def ommPlain (m : Omm) (c r : String) : List Line :=
  header "CCSDS_OMM_VERS" "2.0" ++ [.blank] ++
    metaKvn false m.name m.id c r m.scale [("MEAN_ELEMENT_THEORY", .s "SGP/SGP4")] ++
    [.blank, .kv "EPOCH" m.epoch none] ++ (ommElemKeys.zip m.elems).map (fun ((k, u), v) => Line.kv k v u) ++
    [.kv "GM" (.s "398600.8") (some "km**3/s**2"), .blank, .kv "EPHEMERIS_TYPE" (.s "0") none, .kv "CLASSIFICATION_TYPE" (.s "U") none] ++
    (ommTleKeys.zip m.tle).map (fun ((k, u), v) => Line.kv k v u) ++
    (match m.cov with | some c => covKvn c | none => [])

theorem ommKvn_eq (m : Omm) (c r : String) (hfo : frameOut m.frame = .ok (c, r)) (htle : ommKvnNeedsTle = false ∨ m.hasTle = true) :
    ommKvn m = .ok (ommPlain m c r ++ ([] : List Man).flatMap (manKvn m.frame) ++ udKvn m.ud) := by
  have hno : ¬ (ommKvnNeedsTle = true ∧ ¬ m.hasTle = true) := by
    rcases htle with h | h <;> simp [h]
  simp only [ommKvn, hfo, bind, Except.bind, pure, Except.pure, ommPlain, hno, if_false, List.flatMap_nil, List.append_nil]
  rfl

/-- the TLE parameters as the KVN writer prints them (with units) -/
def tpDictKvn (tle : List Txt) : Dict :=
  [("EPHEMERIS_TYPE", Val.field (.s "0") []), ("CLASSIFICATION_TYPE", Val.field (.s "U") [])] ++
  (ommTleKeys.zip tle).map (fun kuv => (kuv.1.1, Val.field kuv.2 (unitAttrib kuv.1.2)))

def ommFixed (m : Omm) (c r : String) : Dict :=
  kvnHeader "CCSDS_OMM_VERS" "2.0" ++ ommMetaDict m.name m.id c r m.scale ++ meDict m.epoch m.elems ++ tpDictKvn m.tle

/-- pairs of the ordinary lines of an OMM: header, metadata, mean elements, TLE parameters, covariance block -/
def ommBase (m : Omm) (c r : String) : Dict := ommFixed m c r ++ covPart m.cov

def ommFixedKeys : List String :=
  ["CCSDS_OMM_VERS", "CREATION_DATE", "ORIGINATOR", "OBJECT_NAME", "OBJECT_ID", "CENTER_NAME", "REF_FRAME", "TIME_SYSTEM",
   "MEAN_ELEMENT_THEORY", "EPOCH", "MEAN_MOTION", "ECCENTRICITY", "INCLINATION", "RA_OF_ASC_NODE", "ARG_OF_PERICENTER", "MEAN_ANOMALY",
   "GM", "EPHEMERIS_TYPE", "CLASSIFICATION_TYPE", "NORAD_CAT_ID", "ELEMENT_SET_NO", "REV_AT_EPOCH", "BSTAR", "MEAN_MOTION_DOT",
   "MEAN_MOTION_DDOT"]

def ommKeys (cov : Option Bool) : List String := ommFixedKeys ++ covPartKeys cov

theorem ommKeys_ok : ∀ cov ∈ [none, some false, some true],
    (ommKeys cov).Nodup ∧ "maneuvers" ∉ ommKeys cov ∧ "USER_DEFINED" ∉ ommKeys cov := by
  decide

theorem covRead_keys_not_omm : ∀ k ∈ covReadKeys, k ∉ ommFixedKeys := by decide

theorem omm_plain_facts (m : Omm) (h : OmmWf m) (c r : String) :
    (ommPlain m c r).all linePlain = true ∧ (ommPlain m c r).filterMap linePair = ommBase m c r ∧
    (ommFixed m c r).map (·.1) = ommFixedKeys ∧
    ∃ cov ∈ [none, some false, some true], (ommBase m c r).map (·.1) = ommKeys cov := by
  obtain ⟨e1, e2, e3, e4, e5, e6, he, -⟩ := h.elems
  obtain ⟨t1, t2, t3, t4, t5, t6, ht, -⟩ := h.tle
  have hc := h.cov
  obtain ⟨name, id, frame, scale, epoch, elems, tle, cov, ud, hasTle⟩ := m
  simp only at he ht hc
  subst he ht
  cases cov with
  | none => exact ⟨rfl, rfl, rfl, none, by simp, rfl⟩
  | some cv =>
    obtain ⟨⟨a0, a1, a2, a3, a4, a5, a6, a7, a8, a9, a10, a11, a12, a13, a14, a15, a16, a17, a18, a19, a20, htri, -⟩, -⟩ := hc cv rfl
    obtain ⟨cf, tri⟩ := cv
    simp only at htri
    subst htri
    cases cf with
    | none => exact ⟨rfl, rfl, rfl, some false, by simp, rfl⟩
    | some f => exact ⟨rfl, rfl, rfl, some true, by simp, rfl⟩

theorem ommFromKvnDict_eq (data : Dict) : ommFromKvnDict data = (do
    let (name, id, scale, frame, epoch, elems, tle) ← loadOmmCore data data data
    let cov ← covOfKvn frame data
    pure { name := name, id := id, frame := frame, scale := scale, epoch := epoch, elems := elems, tle := tle,
           cov := cov, ud := kvnUd data, hasTle := false }) := by
  unfold ommFromKvnDict covOfKvn
  simp only [bind, Except.bind]
  cases loadOmmCore data data data with
  | error e => rfl
  | ok v =>
    dsimp only
    generalize (data.lookup "CX_X").isSome = b
    cases b <;> rfl

/-- the mandatory block of the reader, on any dict that contains the header / metadata / mean-element / TLE pairs -/
theorem omm_core_kvn (m : Omm) (h : OmmWf m) (c r : String) (hrf : r = m.frame) (D : Dict)
    (hD : ∀ k v, (ommFixed m c r).lookup k = some v → D.lookup k = some v) :
    loadOmmCore D D D = .ok (m.name, m.id, m.scale, m.frame, m.epoch, m.elems, m.tle) := by
  obtain ⟨e1, e2, e3, e4, e5, e6, he, -⟩ := h.elems
  obtain ⟨t1, t2, t3, t4, t5, t6, ht, -⟩ := h.tle
  obtain ⟨name, id, frame, scale, epoch, elems, tle, cov, ud, hasTle⟩ := m
  simp only at he ht hrf
  subst he ht hrf
  have l1 := hD "OBJECT_NAME" _ rfl
  have l2 := hD "OBJECT_ID" _ rfl
  have l3 := hD "TIME_SYSTEM" _ rfl
  have l4 := hD "REF_FRAME" _ rfl
  have l5 := hD "EPOCH" _ rfl
  have l6 := hD "MEAN_ELEMENT_THEORY" _ rfl
  have l7 := hD "MEAN_MOTION" _ rfl
  have l8 := hD "ECCENTRICITY" _ rfl
  have l9 := hD "INCLINATION" _ rfl
  have l10 := hD "RA_OF_ASC_NODE" _ rfl
  have l11 := hD "ARG_OF_PERICENTER" _ rfl
  have l12 := hD "MEAN_ANOMALY" _ rfl
  have l13 := hD "NORAD_CAT_ID" _ rfl
  have l14 := hD "REV_AT_EPOCH" _ rfl
  have l15 := hD "ELEMENT_SET_NO" _ rfl
  have l16 := hD "BSTAR" _ rfl
  have l17 := hD "MEAN_MOTION_DOT" _ rfl
  have l18 := hD "MEAN_MOTION_DDOT" _ rfl
  simp [loadOmmCore, strOf, textOf, getItem, decodeUnit, Val.text, l1, l2, l3, l4, l5, l6, l7, l8, l9, l10, l11, l12, l13, l14, l15,
    l16, l17, l18, bind, Except.bind, pure, Except.pure, keyErrToCcsds, unitAttrib, ommTheories, unitNames, List.lookup]

/-- **`load_dump_id`, OMM, KVN.**  Every well-formed OMM (frame of the table; name, identifier, scale, epoch, the six mean
elements and the six TLE parameters any non-empty texts; covariance absent or present in the orbit's frame, QSW or TNW; user-defined
fields absent, empty, one or many with distinct names; carrying the `Tle` object whenever the writer needs it — it does not, by the
regenerated table) is read back from what the KVN writer produced.  The result is the same normal form as for XML
(`omm_xml_load_dump_id`): without the `Tle` object, which no reader restores; an empty user-defined dict read as none. -/
theorem omm_kvn_load_dump_id (m : Omm) (h : OmmWf m) (hud : UdKvnWf m.ud) (htle : ommKvnNeedsTle = false ∨ m.hasTle = true) :
    (ommKvn m >>= loadOmmKvn) = .ok { m with hasTle := false, ud := normUd m.ud } := by
  obtain ⟨c, r, hfo, -, -, -, hrf⟩ := frameOut_ok_earth m.frame h.frame
  obtain ⟨hplain, hpairs, hfk, cov, hcovmem, hkeys⟩ := omm_plain_facts m h c r
  obtain ⟨hnd, hnm, hnu⟩ := ommKeys_ok cov hcovmem
  rw [← hkeys] at hnd hnm hnu
  have hdict := kvn2dict_blocks m.frame (ommPlain m c r) [] m.ud hplain (by rw [hpairs]; exact hnd) (by rw [hpairs]; exact hnm)
    (by rw [hpairs]; exact hnu) (by simp) (fun kvs hk => (hud kvs hk).1)
  rw [hpairs] at hdict
  have hbu := lookup_none_of_not_mem _ _ hnu
  have hcore := omm_core_kvn m h c r hrf (finalDict (ommBase m c r) (([] : List Man).map (manDictKvn m.frame)) m.ud)
    (fun k v hkv => finalDict_lookup_base _ _ _ k v (lookup_append_of_some _ _ _ _ hkv))
  have hcov := read_cov_kvn m.frame (earthFrames_sub _ h.frame) m.cov h.cov (finalDict (ommBase m c r) (([] : List Man).map (manDictKvn m.frame)) m.ud) (by
    intro k hk
    obtain ⟨-, -, h3, h4⟩ := covRead_keys_elsewhere k hk
    have hf : (ommFixed m c r).lookup k = none :=
      lookup_none_of_not_mem _ _ (by rw [hfk]; exact covRead_keys_not_omm k hk)
    rw [finalDict_lookup_other _ _ _ k h3 h4]
    unfold ommBase
    rw [lookup_append_of_none _ _ _ hf])
  have hudk := finalDict_kvnUd (ommBase m c r) (([] : List Man).map (manDictKvn m.frame)) m.ud hbu
  rw [ommKvn_eq m c r hfo htle]
  show loadOmmKvn _ = _
  unfold loadOmmKvn
  rw [hdict]
  show ommFromKvnDict _ = _
  rw [ommFromKvnDict_eq]
  simp only [hcore, hcov, hudk, bind, Except.bind, pure, Except.pure]

def ommEx : Omm :=
  { name := "SAT", id := "2020-001A", frame := "TEME", scale := "UTC", epoch := .s "t0",
    elems := [.s "15.7", .s "0.0006", .s "51.6", .s "247.4", .s "130.5", .s "325.0"],
    tle := [.s "25544", .s "292", .s "56353", .s "-0.00001", .s "-0.00002", .s "0.0"],
    cov := some ⟨some "QSW", [.s "1", .s "2", .s "3", .s "4", .s "5", .s "6", .s "7", .s "8", .s "9", .s "10", .s "11", .s "12", .s "13",
      .s "14", .s "15", .s "16", .s "17", .s "18", .s "19", .s "20", .s "21"]⟩,
    ud := some [("FOO", "bar"), ("B", "c")], hasTle := false }

/-- the hypotheses are satisfiable by a non-trivial message (covariance in QSW, two user-defined fields, no `Tle` object) -/
theorem ommEx_wf : OmmWf ommEx :=
  { frame := by decide
    name := by decide
    id := by decide
    scale := by decide
    epoch := by decide
    elems := ⟨_, _, _, _, _, _, rfl, by decide, by decide, by decide, by decide, by decide, by decide⟩
    tle := ⟨_, _, _, _, _, _, rfl, by decide, by decide, by decide, by decide, by decide, by decide⟩
    cov := by
      intro c hc
      cases hc
      exact ⟨⟨_, _, _, _, _, _, _, _, _, _, _, _, _, _, _, _, _, _, _, _, _, rfl, by decide⟩, Or.inr (Or.inl rfl)⟩
    ud := by
      intro kvs h kv hkv
      cases h
      simp only [List.mem_cons, List.not_mem_nil, or_false] at hkv
      rcases hkv with rfl | rfl <;> decide }

example : (ommKvn ommEx >>= loadOmmKvn) = .ok ommEx :=
  omm_kvn_load_dump_id ommEx ommEx_wf (by
    intro kvs hk
    cases hk
    exact ⟨by decide, by decide⟩) (Or.inl (by decide))

/-- **agreement of the two encodings, OMM** -/
theorem omm_kvn_xml_agree (m : Omm) (h : OmmWf m) (hud : UdKvnWf m.ud) (htle : ommKvnNeedsTle = false ∨ m.hasTle = true) :
    (ommKvn m >>= loadOmmKvn) = (ommXml m >>= loadOmmXml) := by
  rw [omm_kvn_load_dump_id m h hud htle, omm_xml_load_dump_id m h]

example : (ommKvn ommEx >>= loadOmmKvn) = (ommXml ommEx >>= loadOmmXml) :=
  omm_kvn_xml_agree ommEx ommEx_wf (by
    intro kvs hk
    cases hk
    exact ⟨by decide, by decide⟩) (Or.inl (by decide))

end BeyondVerif.C13
