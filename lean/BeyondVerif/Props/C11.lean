import BeyondVerif.Model.StationR
import Mathlib.Tactic.Ring
import Mathlib.Tactic.FieldSimp
import Mathlib.Tactic.Linarith
import Mathlib.Tactic.NormNum
import Mathlib.Tactic.LinearCombination
import Mathlib.Tactic.IntervalCases

/-!
# C11 — ground-station geometry matches independent geodesy

Theorems over ℝ about the model `Model/StationR.lean`, which is built on formulas **translated from the Python
source on every run** (Generated/StationGeoR.lean): `geodeticToCartesian` (stations.py), `rot2`, `rot3`
(utils/matrix.py), `topoM` (the matrix expression of `TopocentricOrientation.__init__`, orient.py), `sphericalOf`
(forms.py), `measRange/Azimut/Elevation/Doppler` (measures.py), `earthR/F/E` (constants.py).  A changed sign,
factor or constant in the source changes the regenerated term and these proofs are re-checked against it.

The reference is the independent geodetic east / north / up triad defined here (`eastV`, `northV`, `upV`).
The horizon mask is in Props/C11Mask.lean.
-/
noncomputable section
namespace BeyondVerif.C11
open BeyondVerif.R BeyondVerif.NumReal

/-! ## The reference: WGS-84-style east / north / up triad at geodetic latitude `lat`, longitude `lon` -/

/-- a 3-vector as a list, so that it can be compared with the model's lists -/
def eastV (lon : ℝ) : List ℝ := [-Real.sin lon, Real.cos lon, 0]
def westV (lon : ℝ) : List ℝ := [Real.sin lon, -Real.cos lon, 0]
def northV (lat lon : ℝ) : List ℝ := [-(Real.sin lat * Real.cos lon), -(Real.sin lat * Real.sin lon), Real.cos lat]
def upV (lat lon : ℝ) : List ℝ := [Real.cos lat * Real.cos lon, Real.cos lat * Real.sin lon, Real.sin lat]
def dot3 (a b : List ℝ) : ℝ := a.getD 0 0 * b.getD 0 0 + a.getD 1 0 * b.getD 1 0 + a.getD 2 0 * b.getD 2 0

/-- **Constants regenerated from constants.py**: flattening in (0,1), `e² = 2f − f²` (so that
`b² = a²(1−e²)` for `b = a(1−f)`), `e² < 1`, positive radius. -/
theorem earth_constants :
    0 < earthF ∧ earthF < 1 ∧ earthE ^ 2 = 2 * earthF - earthF ^ 2 ∧ 0 ≤ earthE ^ 2 ∧ earthE ^ 2 < 1 ∧ 0 < earthR := by
  have hf : earthF = 1 / 298.257223563 := by simp [earthF]
  have h0 : (0:ℝ) ≤ earthF * 2 - earthF ^ 2 := by rw [hf]; norm_num
  have he : earthE ^ 2 = 2 * earthF - earthF ^ 2 := by
    simp only [earthE, powi, sqrt]
    rw [Real.sq_sqrt h0]; ring
  refine ⟨by rw [hf]; norm_num, by rw [hf]; norm_num, he, sq_nonneg _, ?_, by simp [earthR]; norm_num⟩
  rw [he, hf]; norm_num

theorem ellipsoid_aux (a f e2 w sl cl so co : ℝ) (ha : a ≠ 0) (hf : 1 - f ≠ 0) (hw : w ≠ 0)
    (hw2 : w ^ 2 = 1 - e2 * sl ^ 2) (he : e2 = 2 * f - f ^ 2) (h1 : sl ^ 2 + cl ^ 2 = 1) (h2 : so ^ 2 + co ^ 2 = 1) :
    ((a / w + 0) * cl * co) ^ 2 / a ^ 2 + ((a / w + 0) * cl * so) ^ 2 / a ^ 2
      + ((a / w * (1 - e2) + 0) * sl) ^ 2 / (a * (1 - f)) ^ 2 = 1 := by
  have h3 : (1 - f) ^ 2 = 1 - e2 := by rw [he]; ring
  have h4 : (1:ℝ) - e2 ≠ 0 := by rw [← h3]; exact pow_ne_zero _ hf
  have hx : ((a / w + 0) * cl * co) ^ 2 / a ^ 2 = cl ^ 2 * co ^ 2 / w ^ 2 := by field_simp; ring
  have hy : ((a / w + 0) * cl * so) ^ 2 / a ^ 2 = cl ^ 2 * so ^ 2 / w ^ 2 := by field_simp; ring
  have hz : ((a / w * (1 - e2) + 0) * sl) ^ 2 / (a * (1 - f)) ^ 2 = (1 - e2) * sl ^ 2 / w ^ 2 := by
    rw [mul_pow a, h3]; field_simp; ring
  rw [hx, hy, hz, ← add_div, ← add_div, div_eq_one_iff_eq (pow_ne_zero _ hw), hw2]
  linear_combination (cl ^ 2) * h2 + h1


/-- the radicand of `C = a / sqrt(1 − (e sin lat)²)` is positive for every latitude -/
theorem radicand_pos (lat : ℝ) : 0 < 1 - (earthE * Real.sin lat) ^ 2 := by
  obtain ⟨_, _, _, h0, h1, _⟩ := earth_constants
  have hs : Real.sin lat ^ 2 ≤ 1 := Real.sin_sq_le_one lat
  rw [mul_pow]; nlinarith

/-- **The station sits on the ellipsoid** (clause "the station sits on the ellipsoid at the given height",
height 0): for every latitude and longitude the point `_geodetic_to_cartesian(lat, lon, 0)` satisfies
`x²/a² + y²/a² + z²/b² = 1` with `a = Earth.r`, `b = a (1 − f)`, the constants being those regenerated from
constants.py.

`_partial`: the full statement of the property has the **WGS-84** ellipsoid, i.e. the same equation with
`a = 6378137`:
    `x ^ 2 / 6378137 ^ 2 + y ^ 2 / 6378137 ^ 2 + z ^ 2 / (6378137 * (1 - 1 / 298.257223563)) ^ 2 = 1`.
That is false of the current code: `earthR = 6378136.3` (Witness/C11.lean `earth_radius_is_not_wgs84`,
`equator_station_position`; known finding C11-station-ellipsoid-radius).  The flattening is WGS-84's.  What is
missing is exactly `earthR = 6378137`; with the proposed fix the regenerated constant makes this the full statement. -/
theorem station_on_ellipsoid_partial (lat lon : ℝ) :
    ∃ x y z, geodeticToCartesian lat lon 0 = [x, y, z] ∧
      x ^ 2 / earthR ^ 2 + y ^ 2 / earthR ^ 2 + z ^ 2 / (earthR * (1 - earthF)) ^ 2 = 1 := by
  obtain ⟨hf0, hf1, he, _, _, hr⟩ := earth_constants
  refine ⟨_, _, _, rfl, ?_⟩
  have hD := radicand_pos lat
  simp only [powi, sqrt, sin, cos]
  exact ellipsoid_aux earthR earthF (earthE ^ 2) (Real.sqrt (1 - (earthE * Real.sin lat) ^ 2)) (Real.sin lat) (Real.cos lat)
    (Real.sin lon) (Real.cos lon) hr.ne' (by linarith) (Real.sqrt_pos.mpr hD).ne'
    (by rw [Real.sq_sqrt hD.le]; ring) he (Real.sin_sq_add_cos_sq lat) (Real.sin_sq_add_cos_sq lon)

example : ∃ x y z, geodeticToCartesian (Real.pi / 4) (-1) 0 = [x, y, z] ∧
    x ^ 2 / earthR ^ 2 + y ^ 2 / earthR ^ 2 + z ^ 2 / (earthR * (1 - earthF)) ^ 2 = 1 := station_on_ellipsoid_partial _ _

/-- **… at the given height**: the station at altitude `alt` is the foot point (altitude 0) moved by `alt`
along the unit vector `up = (cos lat cos lon, cos lat sin lon, sin lat)`. -/
theorem station_height (lat lon alt : ℝ) :
    geodeticToCartesian lat lon alt
      = add3 (geodeticToCartesian lat lon 0) ((upV lat lon).map (alt * ·)) := by
  simp only [geodeticToCartesian, add3, upV, List.map, List.getD_cons_zero, List.getD_cons_succ, sin, cos,
    List.cons.injEq, and_true]
  refine ⟨?_, ?_, ?_⟩ <;> ring

/-- `up` is a unit vector … -/
theorem up_unit (lat lon : ℝ) : dot3 (upV lat lon) (upV lat lon) = 1 := by
  simp only [dot3, upV, List.getD_cons_zero, List.getD_cons_succ]
  have h1 := Real.sin_sq_add_cos_sq lat
  have h2 := Real.sin_sq_add_cos_sq lon
  linear_combination (Real.cos lat ^ 2) * h2 + h1

/-- … **and it is the normal of the ellipsoid at the foot point**: the gradient of
`x²/a² + y²/a² + z²/b²` there, `(x/a², y/a², z/b²)` (up to the factor 2), is a positive multiple of `up`. -/
theorem normal_is_ellipsoid_normal (lat lon : ℝ) :
    ∃ x y z k, geodeticToCartesian lat lon 0 = [x, y, z] ∧ 0 < k ∧
      [x / earthR ^ 2, y / earthR ^ 2, z / (earthR * (1 - earthF)) ^ 2] = (upV lat lon).map (k * ·) := by
  obtain ⟨hf0, hf1, he, _, he1, hr⟩ := earth_constants
  have hD := radicand_pos lat
  have hw := (Real.sqrt_pos.mpr hD)
  refine ⟨_, _, _, 1 / (earthR * Real.sqrt (1 - (earthE * Real.sin lat) ^ 2)), rfl, by positivity, ?_⟩
  have h3 : (1 - earthF) ^ 2 = 1 - earthE ^ 2 := by rw [he]; ring
  have h4 : (1:ℝ) - earthE ^ 2 ≠ 0 := by linarith
  simp only [upV, List.map, powi, sqrt, sin, cos, List.cons.injEq, and_true]
  have hw' : Real.sqrt (1 - earthE ^ 2 * Real.sin lat ^ 2) ≠ 0 := by rw [← mul_pow]; exact hw.ne'
  refine ⟨?_, ?_, ?_⟩
  · field_simp; ring
  · field_simp; ring
  · rw [mul_pow earthR, h3]; field_simp; ring


/-! ## Orientation of the station frame -/

/-- the matrix expression of `TopocentricOrientation.__init__`, multiplied out -/
theorem topoM_eq (lat lon : ℝ) :
    topoM lat lon =
      [[-(Real.sin lat * Real.cos lon), Real.sin lon, Real.cos lat * Real.cos lon],
       [-(Real.sin lat * Real.sin lon), -Real.cos lon, Real.cos lat * Real.sin lon],
       [Real.cos lat, 0, Real.sin lat]] := by
  have h2 : (2.0 : ℝ) = 2 := by norm_num
  simp only [topoM, matMul3, rot2, rot3, List.map, List.getD_cons_zero, List.getD_cons_succ, sin, cos, pi, h2,
    Real.cos_pi, Real.sin_pi, Real.cos_neg, Real.sin_neg, Real.cos_sub_pi_div_two, Real.sin_sub_pi_div_two,
    List.cons.injEq, and_true]
  refine ⟨⟨?_, ?_, ?_⟩, ⟨?_, ?_, ?_⟩, ⟨?_, ?_, ?_⟩⟩ <;> ring

/-- the columns of a 3x3 matrix -/
def columns (m : List (List ℝ)) : List (List ℝ) := [0, 1, 2].map (fun j => m.map (fun row => row.getD j 0))

/-- **Axes of the station frame** (clause "x north / y west / z up"): for every latitude and longitude the
columns of the station-to-ITRF rotation `rot3(−lon) @ rot2(lat − π/2) @ rot3(π)` — i.e. the station's x, y, z
axes expressed in the Earth-fixed frame — are the north, **west** and up vectors of the geodetic ENU triad. -/
theorem topo_axes (lat lon : ℝ) :
    columns (topoM lat lon) = [northV lat lon, westV lon, upV lat lon] := by
  rw [topoM_eq]; simp [columns, northV, westV, upV]

/-- west = −east -/
theorem west_is_minus_east (lon : ℝ) : westV lon = (eastV lon).map (fun c => -c) := by
  simp [westV, eastV]

/-- **… orthonormal** : `Mᵀ M = I` -/
theorem topo_orthonormal (lat lon : ℝ) :
    let c := columns (topoM lat lon)
    (∀ i < 3, dot3 (c.getD i []) (c.getD i []) = 1) ∧
    (∀ i < 3, ∀ j < 3, i ≠ j → dot3 (c.getD i []) (c.getD j []) = 0) := by
  have h1 := Real.sin_sq_add_cos_sq lat
  have h2 := Real.sin_sq_add_cos_sq lon
  rw [topo_axes]
  refine ⟨fun i hi => ?_, fun i hi j hj hij => ?_⟩
  · interval_cases i <;> simp only [dot3, northV, westV, upV, List.getD_cons_zero, List.getD_cons_succ]
    · linear_combination (Real.sin lat ^ 2) * h2 + h1
    · linear_combination h2
    · linear_combination (Real.cos lat ^ 2) * h2 + h1
  · interval_cases i <;> interval_cases j <;>
      simp only [dot3, northV, westV, upV, List.getD_cons_zero, List.getD_cons_succ] <;>
      first | (exact absurd rfl hij) | ring1 | linear_combination (-(Real.sin lat * Real.cos lat)) * h2

/-- **… right-handed**: the determinant of the rotation is +1 (north × west = up) -/
theorem topo_det_one (lat lon : ℝ) :
    let m := topoM lat lon
    mAt m 0 0 * (mAt m 1 1 * mAt m 2 2 - mAt m 1 2 * mAt m 2 1)
      - mAt m 0 1 * (mAt m 1 0 * mAt m 2 2 - mAt m 1 2 * mAt m 2 0)
      + mAt m 0 2 * (mAt m 1 0 * mAt m 2 1 - mAt m 1 1 * mAt m 2 0) = 1 := by
  have h1 := Real.sin_sq_add_cos_sq lat
  have h2 := Real.sin_sq_add_cos_sq lon
  simp only [topoM_eq, mAt, List.getD_cons_zero, List.getD_cons_succ]
  linear_combination (Real.sin lat ^ 2 + Real.cos lat ^ 2) * h2 + h1


/-! ## Topocentric coordinates of a target = its east / north / up components -/

/-- the station position is a 3-vector -/
theorem stationPos_shape (lat lon alt : ℝ) : ∃ sx sy sz, stationPos lat lon alt = [sx, sy, sz] := ⟨_, _, _, rfl⟩

/-- line of sight in the Earth-fixed frame: target position minus station position -/
def los (lat lon alt x y z : ℝ) : List ℝ := sub3 [x, y, z] (stationPos lat lon alt)

/-- **Cartesian coordinates in the station frame** (`Frame.transform`): for every station and every target
state `[x,y,z,vx,vy,vz]` of the Earth-fixed frame, the station-frame position is (north, west, up)·(r − s) and
the station-frame velocity is (north, west, up)·v — the station being at rest in that frame. -/
theorem topo_is_enu_components (lat lon alt x y z vx vy vz : ℝ) :
    toStation lat lon alt [x, y, z, vx, vy, vz] =
      [dot3 (northV lat lon) (los lat lon alt x y z), dot3 (westV lon) (los lat lon alt x y z),
       dot3 (upV lat lon) (los lat lon alt x y z),
       dot3 (northV lat lon) [vx, vy, vz], dot3 (westV lon) [vx, vy, vz], dot3 (upV lat lon) [vx, vy, vz]] := by
  obtain ⟨sx, sy, sz, hs⟩ := stationPos_shape lat lon alt
  simp only [toStation, los, hs, topoM_eq, mulVecT3, mAt, sub3, dot3, northV, westV, upV, List.map, List.take, List.drop,
    List.getD_cons_zero, List.getD_cons_succ, List.cons_append, List.nil_append, List.cons.injEq, and_true]
  refine ⟨?_, ?_, ?_⟩ <;> ring

/-- velocity part of the previous theorem on its own -/
theorem topo_velocity_is_enu_components (lat lon alt x y z vx vy vz : ℝ) :
    (toStation lat lon alt [x, y, z, vx, vy, vz]).drop 3 =
      [dot3 (northV lat lon) [vx, vy, vz], dot3 (westV lon) [vx, vy, vz], dot3 (upV lat lon) [vx, vy, vz]] := by
  rw [topo_is_enu_components]; rfl

/-- rotation invariance of the scalar product in the ENU basis -/
theorem enu_dot (lat lon a b c p q r : ℝ) :
    dot3 (northV lat lon) [a, b, c] * dot3 (northV lat lon) [p, q, r] + dot3 (westV lon) [a, b, c] * dot3 (westV lon) [p, q, r]
      + dot3 (upV lat lon) [a, b, c] * dot3 (upV lat lon) [p, q, r] = a * p + b * q + c * r := by
  have h1 := Real.sin_sq_add_cos_sq lat
  have h2 := Real.sin_sq_add_cos_sq lon
  simp only [dot3, northV, westV, upV, List.getD_cons_zero, List.getD_cons_succ]
  linear_combination (Real.cos lon ^ 2 * a * p + Real.sin lon ^ 2 * b * q + c * r
    + Real.cos lon * Real.sin lon * (a * q + b * p)) * h1 + (a * p + b * q) * h2

theorem los_shape (lat lon alt x y z : ℝ) : ∃ dx dy dz, los lat lon alt x y z = [dx, dy, dz] := ⟨_, _, _, rfl⟩

/-- **Range**: the `r` of `copy(frame=station, form="spherical")` is the Euclidean length of the line of sight
(= the ENU range `sqrt(e² + n² + u²)`), for every station and target. -/
theorem range_is_enu_range (lat lon alt x y z vx vy vz : ℝ) :
    (stationSpherical lat lon alt [x, y, z, vx, vy, vz]).getD 0 0
      = Real.sqrt (dot3 (los lat lon alt x y z) (los lat lon alt x y z)) := by
  obtain ⟨dx, dy, dz, hd⟩ := los_shape lat lon alt x y z
  simp only [stationSpherical, topo_is_enu_components, hd, toSpherical, sphericalOf, norm3, sqrt,
    List.getD_cons_zero, List.getD_cons_succ]
  congr 1
  have := enu_dot lat lon dx dy dz dx dy dz
  simp only [dot3, List.getD_cons_zero, List.getD_cons_succ] at this ⊢
  linarith

/-- **Elevation**: `φ = asin(up·d / |d|)`, the ENU elevation. -/
theorem elevation_is_enu_elevation (lat lon alt x y z vx vy vz : ℝ) :
    (stationSpherical lat lon alt [x, y, z, vx, vy, vz]).getD 2 0
      = Real.arcsin (dot3 (upV lat lon) (los lat lon alt x y z)
          / Real.sqrt (dot3 (los lat lon alt x y z) (los lat lon alt x y z))) := by
  have hr := range_is_enu_range lat lon alt x y z vx vy vz
  simp only [stationSpherical, toSpherical, sphericalOf, List.getD_cons_zero, List.getD_cons_succ] at hr ⊢
  rw [hr]
  simp only [topo_is_enu_components, asin, List.getD_cons_zero, List.getD_cons_succ]

/-- `atan2 (−y) x = −atan2 y x`, except on the negative x axis where both are `π` -/
theorem atan2_neg (y x : ℝ) :
    (¬ (x < 0 ∧ y = 0) → atan2 (-y) x = - atan2 y x) ∧ ((x < 0 ∧ y = 0) → atan2 (-y) x = Real.pi ∧ atan2 y x = Real.pi) := by
  have hc : (⟨x, -y⟩ : ℂ) = (starRingEnd ℂ) ⟨x, y⟩ := by apply Complex.ext <;> simp
  have hpi : Complex.arg ⟨x, y⟩ = Real.pi ↔ (x < 0 ∧ y = 0) := by rw [Complex.arg_eq_pi_iff]
  unfold atan2
  rw [hc, Complex.arg_conj]
  constructor
  · intro h; rw [if_neg (fun hh => h (hpi.mp hh))]
  · intro h; rw [if_pos (hpi.mpr h)]; exact ⟨rfl, hpi.mpr h⟩

/-- **Azimuth = −θ**: the azimuth of the independent ENU computation, `atan2(east·d, north·d)` (clockwise from
north), is minus the `θ` of the station frame's spherical form; due south, where `θ = π`, both are `π`
(equal modulo 2π). -/
theorem azimuth_is_minus_theta (lat lon alt x y z vx vy vz : ℝ) :
    let d := los lat lon alt x y z
    let θ := (stationSpherical lat lon alt [x, y, z, vx, vy, vz]).getD 1 0
    let az := atan2 (dot3 (eastV lon) d) (dot3 (northV lat lon) d)
    (¬ (dot3 (northV lat lon) d < 0 ∧ dot3 (westV lon) d = 0) → az = -θ) ∧
    ((dot3 (northV lat lon) d < 0 ∧ dot3 (westV lon) d = 0) → az = Real.pi ∧ θ = Real.pi) := by
  intro d θ az
  have hθ : θ = atan2 (dot3 (westV lon) d) (dot3 (northV lat lon) d) := by
    simp only [θ, d, stationSpherical, topo_is_enu_components, toSpherical, sphericalOf, List.getD_cons_zero, List.getD_cons_succ]
  have he : dot3 (eastV lon) d = - dot3 (westV lon) d := by
    simp only [dot3, eastV, westV, List.getD_cons_zero, List.getD_cons_succ]; ring
  simp only [az, hθ, he]
  exact atan2_neg _ _

/-- **Range rate**: `ṙ` of the station-frame spherical form is `d·v / |d|` computed in the Earth-fixed frame
(`v` the target's Earth-fixed velocity; the station is at rest there). -/
theorem range_rate_is_enu_range_rate (lat lon alt x y z vx vy vz : ℝ) :
    (stationSpherical lat lon alt [x, y, z, vx, vy, vz]).getD 3 0
      = dot3 (los lat lon alt x y z) [vx, vy, vz] / Real.sqrt (dot3 (los lat lon alt x y z) (los lat lon alt x y z)) := by
  have hr := range_is_enu_range lat lon alt x y z vx vy vz
  obtain ⟨dx, dy, dz, hd⟩ := los_shape lat lon alt x y z
  simp only [stationSpherical, toSpherical, sphericalOf, List.getD_cons_zero, List.getD_cons_succ] at hr ⊢
  rw [hr]
  simp only [topo_is_enu_components, hd, List.getD_cons_zero, List.getD_cons_succ]
  congr 1
  have := enu_dot lat lon dx dy dz vx vy vz
  simp only [dot3, List.getD_cons_zero, List.getD_cons_succ] at this ⊢
  linarith


example : ¬ (dot3 (northV 0 0) [0, 1, 0] < 0 ∧ dot3 (westV 0) [0, 1, 0] = 0) := by
  simp [dot3, northV, westV]

/-! ## The station in the Earth-fixed and in inertial frames -/

/-- **The station is at rest in the Earth-fixed frame, at the geodetic position**: the origin of the station
frame (zero position, zero velocity), changed to the parent frame, is `_geodetic_to_cartesian(lat, lon, alt)`
with velocity exactly 0 — for every date (no date enters). -/
theorem station_fixed_in_itrf (lat lon alt : ℝ) :
    fromStation lat lon alt [0, 0, 0, 0, 0, 0] = stationPos lat lon alt ++ [0, 0, 0] := by
  obtain ⟨sx, sy, sz, hs⟩ := stationPos_shape lat lon alt
  simp [fromStation, hs, topoM_eq, mulVec3, mAt, add3]

/-- conversely the station's own Earth-fixed state is the origin of its frame -/
theorem station_origin_maps_to_zero (lat lon alt : ℝ) :
    toStation lat lon alt (stationPos lat lon alt ++ [0, 0, 0]) = [0, 0, 0, 0, 0, 0] := by
  obtain ⟨sx, sy, sz, hs⟩ := stationPos_shape lat lon alt
  simp [toStation, hs, topoM_eq, mulVecT3, mAt, sub3]

/-- the two directions of the frame change are inverse of each other (the code inverts the 6x6 matrix
numerically; the model uses the transpose — this is why that is the same) -/
theorem topo_round_trip (lat lon alt x y z vx vy vz : ℝ) :
    toStation lat lon alt (fromStation lat lon alt [x, y, z, vx, vy, vz]) = [x, y, z, vx, vy, vz] := by
  obtain ⟨sx, sy, sz, hs⟩ := stationPos_shape lat lon alt
  have h1 := Real.sin_sq_add_cos_sq lat
  have h2 := Real.sin_sq_add_cos_sq lon
  simp only [toStation, fromStation, hs, topoM_eq, mulVecT3, mulVec3, mAt, sub3, add3, List.map, List.take, List.drop,
    List.getD_cons_zero, List.getD_cons_succ, List.cons_append, List.nil_append, List.cons.injEq, and_true]
  refine ⟨?_, ?_, ?_, ?_, ?_, ?_⟩
  · linear_combination x * h1 + (Real.sin lat ^ 2 * x - Real.sin lat * Real.cos lat * z) * h2
  · linear_combination y * h2
  · linear_combination z * h1 + (Real.cos lat ^ 2 * z - Real.sin lat * Real.cos lat * x) * h2
  · linear_combination vx * h1 + (Real.sin lat ^ 2 * vx - Real.sin lat * Real.cos lat * vz) * h2
  · linear_combination vy * h2
  · linear_combination vz * h1 + (Real.cos lat ^ 2 * vz - Real.sin lat * Real.cos lat * vx) * h2

/-- **The station moves with the Earth's rotation in inertial frames**: `expand(m, rate)` as the code calls it
for the step from the rotating to the pseudo-inertial frame (`rate = −ω`, e.g. `PEF_to_TOD` returns
`(m, -iau1980.rate(date))`) maps a point at rest `(s, 0)` to position `p = m s` and velocity `ω × p`,
for every rotation matrix `m`, every rotation vector `ω` and every point `s`. -/
theorem station_inertial_velocity (a b c d e f g h i w0 w1 w2 sx sy sz : ℝ) :
    let m := [[a, b, c], [d, e, f], [g, h, i]]
    let p := mulVec3 m [sx, sy, sz]
    expandApply m [-w0, -w1, -w2] [sx, sy, sz, 0, 0, 0]
      = p ++ [w1 * p.getD 2 0 - w2 * p.getD 1 0, w2 * p.getD 0 0 - w0 * p.getD 2 0, w0 * p.getD 1 0 - w1 * p.getD 0 0] := by
  simp only [expandApply, mulVec3, mAt, List.map, List.take, List.drop, List.getD_cons_zero, List.getD_cons_succ,
    List.cons_append, List.nil_append, List.cons.injEq, and_true, true_and]
  refine ⟨?_, ?_, ?_⟩ <;> ring

/-- Earth case of the previous theorem: `ω = (0, 0, ω)` gives the velocity `(−ω p_y, ω p_x, 0)` -/
example (a b c d e f g h i w sx sy sz : ℝ) :
    (expandApply [[a, b, c], [d, e, f], [g, h, i]] [-0, -0, -w] [sx, sy, sz, 0, 0, 0]).drop 3
      = [-(w * (d * sx + e * sy + f * sz)), w * (a * sx + b * sy + c * sz), 0] := by
  rw [station_inertial_velocity]
  simp [mulVec3, mAt]

/-! ## From the caller's coordinates (degrees, any numeric kind) to the station -/

/-- **A station created from geodetic latitude, longitude (degrees) and altitude** is the station of the theorems
above at `lat = lat_deg·π/180`, `lon = lon_deg·π/180`, for every real value of the three coordinates — whole numbers
included (the conversion is translated from `create_station`; that the code applies it in double precision to
coordinates given as Python or numpy integers, floats, mixed tuples, lists and arrays is the `create` operation of the
correspondence run). -/
theorem create_station_from_degrees (latd lond alt : ℝ) :
    createStation latd lond alt =
      (geodeticToCartesian (latd * Real.pi / 180) (lond * Real.pi / 180) alt,
       topoM (latd * Real.pi / 180) (lond * Real.pi / 180),
       [latd * Real.pi / 180, lond * Real.pi / 180, alt]) := by
  simp [createStation, stationRadians, stationPos]

/-- e.g. integer coordinates: 90° east on the equator puts the station on the +y axis, x axis (north) = +z -/
example : (createStation 0 90 0).2.1 = [[0, 1, 0], [0, 0, 1], [1, 0, 0]] := by
  rw [create_station_from_degrees, topoM_eq]
  have h : (90 : ℝ) * Real.pi / 180 = Real.pi / 2 := by ring
  simp [h]

/-! ## Measurements -/

/-- **Range is counted once per leg of the signal path**: `Range.from_orbit(orb).value` is the station-frame `r`
times `len(path) − 1`, for every path length, station and orbit. -/
theorem range_per_leg (npath lat lon alt : ℝ) (st : List ℝ) :
    stationMeasure 0 npath lat lon alt st = (stationSpherical lat lon alt st).getD 0 0 * (npath - 1) := by
  simp [stationMeasure, measRange]

/-- **Azimut, Elevation and Doppler measurements are exactly the station-frame `θ` (= −azimuth), `φ`, `ṙ`** -/
theorem measures_are_spherical_components (npath lat lon alt : ℝ) (st : List ℝ) :
    stationMeasure 1 npath lat lon alt st = (stationSpherical lat lon alt st).getD 1 0 ∧
    stationMeasure 2 npath lat lon alt st = (stationSpherical lat lon alt st).getD 2 0 ∧
    stationMeasure 3 npath lat lon alt st = (stationSpherical lat lon alt st).getD 3 0 := by
  simp [stationMeasure, measAzimut, measElevation, measDoppler]

example : stationMeasure 0 3 0 0 0 [7000000, 0, 0, 0, 0, 0]
    = (stationSpherical 0 0 0 [7000000, 0, 0, 0, 0, 0]).getD 0 0 * 2 := by
  rw [range_per_leg]; norm_num

end BeyondVerif.C11
