import BeyondVerif.Lemmas.Iter
import Mathlib.Tactic.Ring
import Mathlib.Tactic.Linarith

/-!
# C08 — propagation and iteration contract; independence from call history

Theorems about `Model/Iter.lean`, the model of `AnalyticalPropagator.iter`, `NumericalPropagator.iter`,
`KeplerNum._iter`, `Ephem.iter`, `Date.range`, `Orbit.propagate/iter` re-binding and listener clearing.
`⌊(stop − start)/step⌋` is always expressed by its two bracketing inequalities on `n`.
-/
namespace BeyondVerif.C08
open BeyondVerif.Iter

/-! ## the contract grid -/

/-- the grid stays between start and stop (forward): "none beyond stop" -/
theorem grid_within_forward {start stop step d : Int} {n : Nat} (hs : 0 < step) (h1 : start + (n : Int) * step ≤ stop)
    (hd : d ∈ grid start step n) : start ≤ d ∧ d ≤ stop := by
  obtain ⟨k, hk, rfl⟩ := mem_grid.mp hd
  have := cast_mul_mono hk (le_of_lt hs)
  have : (0 : Int) ≤ (k : Int) * step := Int.mul_nonneg (by exact_mod_cast Nat.zero_le k) (le_of_lt hs)
  constructor <;> linarith

/-- the grid stays between stop and start (backward) -/
theorem grid_within_backward {start stop step d : Int} {n : Nat} (hs : step < 0) (h1 : stop ≤ start + (n : Int) * step)
    (hd : d ∈ grid start step n) : stop ≤ d ∧ d ≤ start := by
  obtain ⟨k, hk, rfl⟩ := mem_grid.mp hd
  have := cast_mul_anti hk (le_of_lt hs)
  have h0 := cast_mul_anti (Nat.zero_le k) (le_of_lt hs)
  simp only [Nat.cast_zero, zero_mul] at h0
  constructor <;> linarith

/-- dates come in order, strictly increasing for a positive step -/
theorem grid_increasing (start : Int) {step : Int} (n : Nat) (hs : 0 < step) : (grid start step n).Pairwise (· < ·) := by
  unfold grid
  rw [List.pairwise_map]
  refine List.Pairwise.imp ?_ (List.pairwise_lt_range (n := n + 1))
  intro a b hab
  have : (a : Int) < (b : Int) := by exact_mod_cast hab
  have := Int.mul_lt_mul_of_pos_right this hs
  linarith

/-- … strictly decreasing for a negative step -/
theorem grid_decreasing (start : Int) {step : Int} (n : Nat) (hs : step < 0) : (grid start step n).Pairwise (· > ·) := by
  unfold grid
  rw [List.pairwise_map]
  refine List.Pairwise.imp ?_ (List.pairwise_lt_range (n := n + 1))
  intro a b hab
  have : (a : Int) < (b : Int) := by exact_mod_cast hab
  have := Int.mul_lt_mul_of_pos_right this (show 0 < -step by omega)
  simp only [gt_iff_lt]
  linarith

example : grid 5 30 3 = [5, 35, 65, 95] := by decide
example : grid 5 (-30) 3 = [5, -25, -55, -85] := by decide

/-! ## Date.range(start, stop, step, inclusive=True) -/

theorem rangeCond_up {stop step : Int} (hs : 0 < step) : rangeCond stop step true = fun d => decide (d ≤ stop) := by
  funext d; simp [rangeCond, hs]

theorem rangeCond_down {stop step : Int} (hs : step < 0) : rangeCond stop step true = fun d => decide (d ≥ stop) := by
  funext d
  have : ¬ (0 < step) := by omega
  simp [rangeCond, this]

/-- clause "exactly start + k·step, k = 0…⌊(stop−start)/step⌋, first to last inclusive" for `Date.range`, forward;
∀ start stop step n fuel -/
theorem date_range_forward (ok : Int → Bool) (fuel n : Nat) (start stop step : Int) (hs : 0 < step)
    (h1 : start + (n : Int) * step ≤ stop) (h2 : stop < start + ((n : Int) + 1) * step)
    (hok : ∀ k : Nat, k ≤ n → ok (start + (k : Int) * step) = true) (hf : n + 1 < fuel) :
    dateRange ok fuel start stop step true = ⟨grid start step n, .done⟩ := by
  have h0 : (0 : Int) ≤ (n : Int) * step := Int.mul_nonneg (by exact_mod_cast Nat.zero_le n) (le_of_lt hs)
  have e1 : pySign (stop - start) = 1 := by unfold pySign; rw [if_pos]; omega
  have e2 : pySign step = 1 := by unfold pySign; rw [if_pos]; omega
  unfold dateRange
  rw [if_neg (by omega), e1, e2, if_neg (by simp), rangeCond_up hs]
  exact loop_up ok start stop step n fuel hs h1 h2 hok hf

/-- the same for a backward range with a negative step -/
theorem date_range_backward (ok : Int → Bool) (fuel n : Nat) (start stop step : Int) (hs : step < 0) (hlt : stop < start)
    (h1 : stop ≤ start + (n : Int) * step) (h2 : start + ((n : Int) + 1) * step < stop)
    (hok : ∀ k : Nat, k ≤ n → ok (start + (k : Int) * step) = true) (hf : n + 1 < fuel) :
    dateRange ok fuel start stop step true = ⟨grid start step n, .done⟩ := by
  have e1 : pySign (stop - start) = -1 := by unfold pySign; rw [if_neg]; omega
  have e2 : pySign step = -1 := by unfold pySign; rw [if_neg]; omega
  unfold dateRange
  rw [if_neg (by omega), e1, e2, if_neg (by simp), rangeCond_down hs]
  exact loop_down ok start stop step n fuel hs h1 h2 hok hf

example : dateRange yes 10 0 100 30 true = ⟨[0, 30, 60, 90], .done⟩ := by decide
example : dateRange yes 10 0 (-100) (-30) true = ⟨[0, -30, -60, -90], .done⟩ := by decide

/-! ## AnalyticalPropagator.iter (SGP4, Kepler, J2, NonePropagator, Clohessy–Wiltshire) -/

/-- start of the iteration after defaulting: `start=` absent or `None` means the epoch of the orbit -/
def startOf (epoch : Int) (a : Args) : Int := (a.start.getD (some epoch)).getD epoch

/-- **iter_dates**, forward. For every epoch, every start (before/at/after the epoch, given, absent or `None`), every stop
(date or timedelta) not before start, every positive step (dividing the span or not): the iterator yields exactly
`start + k·step`, `k = 0 … n = ⌊(stop−start)/step⌋`, in this order, then ends. -/
theorem iter_dates_forward (fuel n : Nat) (epoch : Int) (selfStep : Option Int) (a : Args) (st : Stop) (step : Int)
    (hd : a.dates = none) (hst : a.stop = some st) (hstep : a.step = some (some step)) (hs : 0 < step)
    (h1 : startOf epoch a + (n : Int) * step ≤ st.resolve (startOf epoch a))
    (h2 : st.resolve (startOf epoch a) < startOf epoch a + ((n : Int) + 1) * step) (hf : n + 1 < fuel) :
    analyticalIter fuel epoch selfStep a = (true, ⟨grid (startOf epoch a) step n, .done⟩) := by
  have h0 : (0 : Int) ≤ (n : Int) * step := Int.mul_nonneg (by exact_mod_cast Nat.zero_le n) (le_of_lt hs)
  have hnf : ¬ (startOf epoch a > st.resolve (startOf epoch a) ∧ step > 0) := by omega
  unfold analyticalIter analyticalArgs
  simp only [hd, hst, hstep, Option.getD_some]
  unfold startOf at hnf h1 h2 ⊢
  simp only [hnf, if_false, analyticalIterCore, hd]
  rw [date_range_forward yes fuel n _ _ step hs h1 h2 (fun _ _ => rfl) hf]

/-- **iter_dates**, backward. Stop before start; the step may be given positive (the code flips it) or negative:
the iterator yields `start − k·|step|`, `k = 0 … n`, `n = ⌊(start−stop)/|step|⌋`, in this order. -/
theorem iter_dates_backward (fuel n : Nat) (epoch : Int) (selfStep : Option Int) (a : Args) (st : Stop) (step : Int)
    (hd : a.dates = none) (hst : a.stop = some st) (hstep : a.step = some (some step)) (hs : step ≠ 0)
    (hlt : st.resolve (startOf epoch a) < startOf epoch a)
    (h1 : st.resolve (startOf epoch a) ≤ startOf epoch a + (n : Int) * (-|step|))
    (h2 : startOf epoch a + ((n : Int) + 1) * (-|step|) < st.resolve (startOf epoch a)) (hf : n + 1 < fuel) :
    analyticalIter fuel epoch selfStep a = (true, ⟨grid (startOf epoch a) (-|step|) n, .done⟩) := by
  unfold analyticalIter analyticalArgs
  simp only [hd, hst, hstep, Option.getD_some]
  unfold startOf at hlt h1 h2 ⊢
  rcases lt_or_gt_of_ne hs with hneg | hpos
  · have hnf : ¬ ((a.start.getD (some epoch)).getD epoch > st.resolve ((a.start.getD (some epoch)).getD epoch) ∧ step > 0) := by omega
    have habs : -|step| = step := by rw [abs_of_neg hneg]; ring
    rw [habs] at h1 h2 ⊢
    simp only [hnf, if_false, analyticalIterCore, hd]
    rw [date_range_backward yes fuel n _ _ step hneg hlt h1 h2 (fun _ _ => rfl) hf]
  · have hfl : (a.start.getD (some epoch)).getD epoch > st.resolve ((a.start.getD (some epoch)).getD epoch) ∧ step > 0 := ⟨hlt, hpos⟩
    have habs : -|step| = -step := by rw [abs_of_pos hpos]
    rw [habs] at h1 h2 ⊢
    simp only [hfl, if_true, analyticalIterCore, hd, and_self]
    rw [date_range_backward yes fuel n _ _ (-step) (by omega) hlt h1 h2 (fun _ _ => rfl) hf]

-- the hypotheses are satisfiable: start 3 s before the epoch, stop 100 s after it, step 30 s (does not divide 103 s)
example : analyticalIter 10 0 none { start := some (some (-3)), stop := some (.at 100), step := some (some 30) }
    = (true, ⟨[-3, 27, 57, 87], .done⟩) := by decide
example : analyticalIter 10 0 none { stop := some (.delta (-100)), step := some (some 30) }
    = (true, ⟨[0, -30, -60, -90], .done⟩) := by decide

/-- the error kinds of the argument handling, exactly: no stop → ValueError before anything else -/
theorem iter_no_stop (fuel : Nat) (epoch : Int) (selfStep : Option Int) (a : Args) (hd : a.dates = none) (hst : a.stop = none) :
    analyticalIter fuel epoch selfStep a = (false, Run.fail .value) := by
  simp [analyticalIter, analyticalArgs, hd, hst]

/-- a negative step with a forward (or empty) range is refused (`start/stop order not coherent with step`) -/
theorem iter_incoherent (fuel : Nat) (epoch : Int) (selfStep : Option Int) (a : Args) (st : Stop) (step : Int)
    (hd : a.dates = none) (hst : a.stop = some st) (hstep : a.step = some (some step)) (hs : step < 0)
    (hge : startOf epoch a ≤ st.resolve (startOf epoch a)) :
    analyticalIter fuel epoch selfStep a = (true, Run.fail .value) := by
  unfold analyticalIter analyticalArgs
  simp only [hd, hst, hstep, Option.getD_some]
  unfold startOf at hge
  have hnf : ¬ ((a.start.getD (some epoch)).getD epoch > st.resolve ((a.start.getD (some epoch)).getD epoch) ∧ step > 0) := by omega
  simp only [hnf, if_false, analyticalIterCore, hd]
  have e1 : pySign (st.resolve ((a.start.getD (some epoch)).getD epoch) - (a.start.getD (some epoch)).getD epoch) = 1 := by
    unfold pySign; rw [if_pos]; omega
  have e2 : pySign step = -1 := by unfold pySign; rw [if_neg]; omega
  unfold dateRange
  rw [if_neg (by omega), e1, e2, if_pos (by decide)]

/-- a null step is refused -/
theorem iter_zero_step (fuel : Nat) (epoch : Int) (selfStep : Option Int) (a : Args) (st : Stop)
    (hd : a.dates = none) (hst : a.stop = some st) (hstep : a.step = some (some 0)) :
    analyticalIter fuel epoch selfStep a = (true, Run.fail .value) := by
  unfold analyticalIter analyticalArgs
  simp [hd, hst, hstep, analyticalIterCore, dateRange]

/-- **iter_dates_list** (analytical propagators): a non-empty explicit list is yielded as it is — any order, repetitions,
dates before or after the epoch -/
theorem iter_dates_list_partial (fuel : Nat) (epoch : Int) (selfStep : Option Int) (a : Args) (l : List Int)
    (hd : a.dates = some (.list l)) (hne : l ≠ []) :
    analyticalIter fuel epoch selfStep a = (true, ⟨l, .done⟩) := by
  have : l.isEmpty = false := by cases l <;> simp_all
  simp [analyticalIter, analyticalIterCore, hd, Dates.truthy, Dates.run, this, listRun_all yes l (fun _ _ => rfl)]

example : analyticalIter 10 0 none { dates := some (.list [5, -3, 5]) } = (true, ⟨[5, -3, 5], .done⟩) := by decide

end BeyondVerif.C08
