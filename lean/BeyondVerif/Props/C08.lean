import BeyondVerif.Lemmas.Iter
import BeyondVerif.Generated.IterConst
import Mathlib.Tactic.Ring
import Mathlib.Tactic.Linarith

/-!
# C08 — propagation and iteration contract; independence from call history

Theorems about `Model/Iter.lean`, the model of `AnalyticalPropagator.iter`, `NumericalPropagator.iter`,
`KeplerNum._iter`, `Ephem.iter`, `Date.range`, `Orbit.propagate/iter` re-binding and listener clearing.
`⌊(stop − start)/step⌋` is always expressed by its two bracketing inequalities on `n`.
Histories consist of `propagate`, `iter` (consumed fully, partly, not at all) and in-place modifications of an orbit by the user;
`propagate_pure` holds for every such history and every propagator kind; for Sgp4 the orbit VALUE of the model has to be what
`Sgp4._state` compares (coordinates, date, form, frame, drag terms — `Faithful`).
-/
namespace BeyondVerif.C08
open BeyondVerif.Iter

/-! ## the contract grid -/

/-- the grid stays between start and stop (forward): "none beyond stop" -/
theorem grid_within_forward {start stop step d : Int} {n : Nat} (hs : 0 < step) (h1 : start + (n : Int) * step ≤ stop)
    (hd : d ∈ grid start step n) : start ≤ d ∧ d ≤ stop := by
  obtain ⟨k, hk, rfl⟩ := mem_grid.mp hd
  have := cast_mul_mono hk (le_of_lt hs)
  have : (0 : Int) ≤ (k : Int) * step := Int.mul_nonneg (by exact_mod_cast Nat.zero_le k) (le_of_lt hs)
  constructor <;> linarith

/-- the grid stays between stop and start (backward) -/
theorem grid_within_backward {start stop step d : Int} {n : Nat} (hs : step < 0) (h1 : stop ≤ start + (n : Int) * step)
    (hd : d ∈ grid start step n) : stop ≤ d ∧ d ≤ start := by
  obtain ⟨k, hk, rfl⟩ := mem_grid.mp hd
  have := cast_mul_anti hk (le_of_lt hs)
  have h0 := cast_mul_anti (Nat.zero_le k) (le_of_lt hs)
  simp only [Nat.cast_zero, zero_mul] at h0
  constructor <;> linarith

/-- dates come in order, strictly increasing for a positive step -/
theorem grid_increasing (start : Int) {step : Int} (n : Nat) (hs : 0 < step) : (grid start step n).Pairwise (· < ·) := by
  unfold grid
  rw [List.pairwise_map]
  refine List.Pairwise.imp ?_ (List.pairwise_lt_range (n := n + 1))
  intro a b hab
  have : (a : Int) < (b : Int) := by exact_mod_cast hab
  have := Int.mul_lt_mul_of_pos_right this hs
  linarith

/-- … strictly decreasing for a negative step -/
theorem grid_decreasing (start : Int) {step : Int} (n : Nat) (hs : step < 0) : (grid start step n).Pairwise (· > ·) := by
  unfold grid
  rw [List.pairwise_map]
  refine List.Pairwise.imp ?_ (List.pairwise_lt_range (n := n + 1))
  intro a b hab
  have : (a : Int) < (b : Int) := by exact_mod_cast hab
  have := Int.mul_lt_mul_of_pos_right this (show 0 < -step by omega)
  simp only [gt_iff_lt]
  linarith

example : grid 5 30 3 = [5, 35, 65, 95] := by decide
example : grid 5 (-30) 3 = [5, -25, -55, -85] := by decide

/-! ## Date.range(start, stop, step, inclusive=True) -/

/-- clause "exactly start + k·step, k = 0…⌊(stop−start)/step⌋, first to last inclusive" for `Date.range`, forward;
∀ start stop step n fuel -/
theorem date_range_forward (ok : Int → Bool) (fuel n : Nat) (start stop step : Int) (hs : 0 < step)
    (h1 : start + (n : Int) * step ≤ stop) (h2 : stop < start + ((n : Int) + 1) * step)
    (hok : ∀ k : Nat, k ≤ n → ok (start + (k : Int) * step) = true) (hf : n + 1 < fuel) :
    dateRange ok fuel start stop step true = ⟨grid start step n, .done⟩ := by
  have h0 : (0 : Int) ≤ (n : Int) * step := Int.mul_nonneg (by exact_mod_cast Nat.zero_le n) (le_of_lt hs)
  have e1 : pySign (stop - start) = 1 := by unfold pySign; rw [if_pos]; omega
  have e2 : pySign step = 1 := by unfold pySign; rw [if_pos]; omega
  unfold dateRange
  rw [if_neg (by omega), e1, e2, if_neg (by simp), rangeCond_up hs]
  exact loop_up ok start stop step n fuel hs h1 h2 hok hf

/-- the same for a backward range with a negative step -/
theorem date_range_backward (ok : Int → Bool) (fuel n : Nat) (start stop step : Int) (hs : step < 0) (hlt : stop < start)
    (h1 : stop ≤ start + (n : Int) * step) (h2 : start + ((n : Int) + 1) * step < stop)
    (hok : ∀ k : Nat, k ≤ n → ok (start + (k : Int) * step) = true) (hf : n + 1 < fuel) :
    dateRange ok fuel start stop step true = ⟨grid start step n, .done⟩ := by
  have e1 : pySign (stop - start) = -1 := by unfold pySign; rw [if_neg]; omega
  have e2 : pySign step = -1 := by unfold pySign; rw [if_neg]; omega
  unfold dateRange
  rw [if_neg (by omega), e1, e2, if_neg (by simp), rangeCond_down hs]
  exact loop_down ok start stop step n fuel hs h1 h2 hok hf

example : dateRange yes 10 0 100 30 true = ⟨[0, 30, 60, 90], .done⟩ := by decide
example : dateRange yes 10 0 (-100) (-30) true = ⟨[0, -30, -60, -90], .done⟩ := by decide

/-! ## AnalyticalPropagator.iter (SGP4, Kepler, J2, NonePropagator, Clohessy–Wiltshire) -/

/-- start of the iteration after defaulting: `start=` absent or `None` means the epoch of the orbit -/
def startOf (epoch : Int) (a : Args) : Int := (a.start.getD (some epoch)).getD epoch

/-- **iter_dates**, forward. For every epoch, every start (before/at/after the epoch, given, absent or `None`), every stop
(date or timedelta) not before start, every positive step (dividing the span or not): the iterator yields exactly
`start + k·step`, `k = 0 … n = ⌊(stop−start)/step⌋`, in this order, then ends. -/
theorem iter_dates_forward (fuel n : Nat) (epoch : Int) (selfStep : Option Int) (a : Args) (st : Stop) (step : Int)
    (hd : a.dates = none) (hst : a.stop = some st) (hstep : a.step = some (some step)) (hs : 0 < step)
    (h1 : startOf epoch a + (n : Int) * step ≤ st.resolve (startOf epoch a))
    (h2 : st.resolve (startOf epoch a) < startOf epoch a + ((n : Int) + 1) * step) (hf : n + 1 < fuel) :
    analyticalIter fuel epoch selfStep a = (true, ⟨grid (startOf epoch a) step n, .done⟩) := by
  have h0 : (0 : Int) ≤ (n : Int) * step := Int.mul_nonneg (by exact_mod_cast Nat.zero_le n) (le_of_lt hs)
  have hnf : ¬ (startOf epoch a > st.resolve (startOf epoch a) ∧ step > 0) := by omega
  unfold analyticalIter analyticalArgs
  simp only [hd, hst, hstep, Option.getD_some]
  unfold startOf at hnf h1 h2 ⊢
  simp only [hnf, if_false, analyticalIterCore, hd]
  rw [date_range_forward yes fuel n _ _ step hs h1 h2 (fun _ _ => rfl) hf]

/-- **iter_dates**, backward. Stop before start; the step may be given positive (the code flips it) or negative:
the iterator yields `start − k·|step|`, `k = 0 … n`, `n = ⌊(start−stop)/|step|⌋`, in this order. -/
theorem iter_dates_backward (fuel n : Nat) (epoch : Int) (selfStep : Option Int) (a : Args) (st : Stop) (step : Int)
    (hd : a.dates = none) (hst : a.stop = some st) (hstep : a.step = some (some step)) (hs : step ≠ 0)
    (hlt : st.resolve (startOf epoch a) < startOf epoch a)
    (h1 : st.resolve (startOf epoch a) ≤ startOf epoch a + (n : Int) * (-|step|))
    (h2 : startOf epoch a + ((n : Int) + 1) * (-|step|) < st.resolve (startOf epoch a)) (hf : n + 1 < fuel) :
    analyticalIter fuel epoch selfStep a = (true, ⟨grid (startOf epoch a) (-|step|) n, .done⟩) := by
  unfold analyticalIter analyticalArgs
  simp only [hd, hst, hstep, Option.getD_some]
  unfold startOf at hlt h1 h2 ⊢
  rcases lt_or_gt_of_ne hs with hneg | hpos
  · have hnf : ¬ ((a.start.getD (some epoch)).getD epoch > st.resolve ((a.start.getD (some epoch)).getD epoch) ∧ step > 0) := by omega
    have habs : -|step| = step := by rw [abs_of_neg hneg]; ring
    rw [habs] at h1 h2 ⊢
    simp only [hnf, if_false, analyticalIterCore, hd]
    rw [date_range_backward yes fuel n _ _ step hneg hlt h1 h2 (fun _ _ => rfl) hf]
  · have hfl : (a.start.getD (some epoch)).getD epoch > st.resolve ((a.start.getD (some epoch)).getD epoch) ∧ step > 0 := ⟨hlt, hpos⟩
    have habs : -|step| = -step := by rw [abs_of_pos hpos]
    rw [habs] at h1 h2 ⊢
    simp only [hfl, if_true, analyticalIterCore, hd, and_self]
    rw [date_range_backward yes fuel n _ _ (-step) (by omega) hlt h1 h2 (fun _ _ => rfl) hf]

-- the hypotheses are satisfiable: start 3 s before the epoch, stop 100 s after it, step 30 s (does not divide 103 s)
example : analyticalIter 10 0 none { start := some (some (-3)), stop := some (.at 100), step := some (some 30) }
    = (true, ⟨[-3, 27, 57, 87], .done⟩) := by decide
example : analyticalIter 10 0 none { stop := some (.delta (-100)), step := some (some 30) }
    = (true, ⟨[0, -30, -60, -90], .done⟩) := by decide

/-- the error kinds of the argument handling, exactly: no stop → ValueError before anything else -/
theorem iter_no_stop (fuel : Nat) (epoch : Int) (selfStep : Option Int) (a : Args) (hd : a.dates = none) (hst : a.stop = none) :
    analyticalIter fuel epoch selfStep a = (false, Run.fail .value) := by
  simp [analyticalIter, analyticalArgs, hd, hst]

/-- a negative step with a forward (or empty) range is refused (`start/stop order not coherent with step`) -/
theorem iter_incoherent (fuel : Nat) (epoch : Int) (selfStep : Option Int) (a : Args) (st : Stop) (step : Int)
    (hd : a.dates = none) (hst : a.stop = some st) (hstep : a.step = some (some step)) (hs : step < 0)
    (hge : startOf epoch a ≤ st.resolve (startOf epoch a)) :
    analyticalIter fuel epoch selfStep a = (true, Run.fail .value) := by
  unfold analyticalIter analyticalArgs
  simp only [hd, hst, hstep, Option.getD_some]
  unfold startOf at hge
  have hnf : ¬ ((a.start.getD (some epoch)).getD epoch > st.resolve ((a.start.getD (some epoch)).getD epoch) ∧ step > 0) := by omega
  simp only [hnf, if_false, analyticalIterCore, hd]
  have e1 : pySign (st.resolve ((a.start.getD (some epoch)).getD epoch) - (a.start.getD (some epoch)).getD epoch) = 1 := by
    unfold pySign; rw [if_pos]; omega
  have e2 : pySign step = -1 := by unfold pySign; rw [if_neg]; omega
  unfold dateRange
  rw [if_neg (by omega), e1, e2, if_pos (by decide)]

/-- a null step is refused -/
theorem iter_zero_step (fuel : Nat) (epoch : Int) (selfStep : Option Int) (a : Args) (st : Stop)
    (hd : a.dates = none) (hst : a.stop = some st) (hstep : a.step = some (some 0)) :
    analyticalIter fuel epoch selfStep a = (true, Run.fail .value) := by
  unfold analyticalIter analyticalArgs
  simp [hd, hst, hstep, analyticalIterCore, dateRange]

/-- **iter_dates_list** (analytical propagators): an explicit list is yielded as it is — any order, repetitions,
dates before or after the epoch, and nothing at all for the empty list -/
theorem iter_dates_list (fuel : Nat) (epoch : Int) (selfStep : Option Int) (a : Args) (l : List Int)
    (hd : a.dates = some (.list l)) :
    analyticalIter fuel epoch selfStep a = (true, ⟨l, .done⟩) := by
  simp [analyticalIter, analyticalIterCore, hd, Dates.run, listRun_all yes l (fun _ _ => rfl)]

example : analyticalIter 10 0 none { dates := some (.list [5, -3, 5]) } = (true, ⟨[5, -3, 5], .done⟩) := by decide
example : analyticalIter 10 0 none { dates := some (.list []) } = (true, ⟨[], .done⟩) := by decide

/-! ## Ephem.iter -/

/-- **ephem_iter_dates**, forward: resampling an ephemeris (tabulated at `pts`, at least `order` points) over
`start ≤ stop` (date or timedelta) inside its span with a positive step yields exactly the contract grid -/
theorem ephem_iter_dates_forward (fuel n order : Nat) (pts : List Int) (first last : Int) (hh : pts.head? = some first)
    (hl : pts.getLast? = some last) (hord : order ≤ pts.length) (start : Int) (st : Stop) (step : Int) (strict : Bool) (hs : 0 < step)
    (hfs : first ≤ start) (hsl : st.resolve start ≤ last) (h1 : start + (n : Int) * step ≤ st.resolve start)
    (h2 : st.resolve start < start + ((n : Int) + 1) * step) (hf : n + 1 < fuel) :
    ephemIter fuel order pts none (some start) (some st) (some step) strict = ⟨grid start step n, .done⟩ := by
  have h0 : (0 : Int) ≤ (n : Int) * step := Int.mul_nonneg (by exact_mod_cast Nat.zero_le n) (le_of_lt hs)
  have hnb : ¬ st.resolve start < start := by omega
  have hnl : ¬ start < first := by omega
  have hng : ¬ st.resolve start > last := by omega
  unfold ephemIter
  simp only [hnb, hh, hl, hnl, hng, if_false, Option.getD_none]
  apply loop_up _ start _ step n fuel hs h1 h2 _ hf
  intro k hk
  have hw := grid_within_forward hs h1 (mem_grid.mpr ⟨k, hk, rfl⟩)
  exact interpOk_of hh hl hord (by omega) (by omega)

/-- **ephem_iter_dates**, backward: stop before start, both inside the span; the step may be given positive (the code flips it)
or negative: the iterator yields `start − k·|step|`, `k = 0 … n = ⌊(start−stop)/|step|⌋`, in this order -/
theorem ephem_iter_dates_backward (fuel n order : Nat) (pts : List Int) (first last : Int) (hh : pts.head? = some first)
    (hl : pts.getLast? = some last) (hord : order ≤ pts.length) (start : Int) (st : Stop) (step : Int) (strict : Bool) (hs : step ≠ 0)
    (hlt : st.resolve start < start) (hsl : start ≤ last) (hfs : first ≤ st.resolve start)
    (h1 : st.resolve start ≤ start + (n : Int) * (-|step|)) (h2 : start + ((n : Int) + 1) * (-|step|) < st.resolve start)
    (hf : n + 1 < fuel) :
    ephemIter fuel order pts none (some start) (some st) (some step) strict = ⟨grid start (-|step|) n, .done⟩ := by
  have hnc : ¬ (start > last ∨ st.resolve start < first) := by omega
  have hstep : (if step > 0 then -step else step) = -|step| := by
    rcases lt_or_gt_of_ne hs with hneg | hpos
    · rw [if_neg (by omega), abs_of_neg hneg]; ring
    · rw [if_pos hpos, abs_of_pos hpos]
  have hneg : -|step| < 0 := by have := abs_pos.mpr hs; omega
  unfold ephemIter
  simp only [hlt, if_true]
  unfold ephemIterBackward
  simp only [hh, hl, hnc, if_false, hstep]
  apply loop_down _ start _ (-|step|) n fuel hneg h1 h2 _ hf
  intro k hk
  have hw := grid_within_backward hneg h1 (mem_grid.mpr ⟨k, hk, rfl⟩)
  exact interpOk_of hh hl hord (by omega) (by omega)

example : ephemIter 20 8 [0, 60, 120, 180, 240, 300, 360, 420, 480] none (some 30) (some (.at 400)) (some 90) true
    = ⟨[30, 120, 210, 300, 390], .done⟩ := by decide
example : ephemIter 20 8 [0, 60, 120, 180, 240, 300, 360, 420, 480] none (some 400) (some (.at 30)) (some 90) true
    = ⟨[400, 310, 220, 130, 40], .done⟩ := by decide
example : ephemIter 20 8 [0, 60, 120, 180, 240, 300, 360, 420, 480] none (some 400) (some (.delta (-370))) (some (-90)) true
    = ⟨[400, 310, 220, 130, 40], .done⟩ := by decide

/-- without `step` an ephemeris yields its own points between start and stop (documented behaviour) -/
theorem ephem_iter_own (fuel order : Nat) (pts : List Int) (first last : Int) (hh : pts.head? = some first)
    (hl : pts.getLast? = some last) (start stop : Int) (strict : Bool) (hfs : first ≤ start) (hss : start ≤ stop) (hsl : stop ≤ last) :
    ephemIter fuel order pts none (some start) (some (.at stop)) none strict = ⟨ownPts start stop pts, .done⟩ := by
  have hnb : ¬ stop < start := by omega
  have hnl : ¬ start < first := by omega
  have hng : ¬ stop > last := by omega
  unfold ephemIter
  simp only [Stop.resolve, hnb, hh, hl, hnl, hng, if_false, Option.getD_none]

/-- … and, for a backward range, its own points from the last one not after start down to stop -/
theorem ephem_iter_own_backward (fuel order : Nat) (pts : List Int) (first last : Int) (hh : pts.head? = some first)
    (hl : pts.getLast? = some last) (start stop : Int) (strict : Bool) (hfs : first ≤ stop) (hss : stop < start) (hsl : start ≤ last) :
    ephemIter fuel order pts none (some start) (some (.at stop)) none strict = ⟨ownPtsBack start stop pts.reverse, .done⟩ := by
  have hnc : ¬ (start > last ∨ stop < first) := by omega
  unfold ephemIter
  simp only [Stop.resolve, hss, if_true]
  unfold ephemIterBackward
  simp only [hh, hl, hnc, if_false]

example : ephemIter 20 8 [0, 60, 120, 180, 240] none (some 200) (some (.at 50)) none true = ⟨[180, 120, 60], .done⟩ := by decide

/-- **iter_dates_list** (ephemeris): a list of dates inside the span is yielded as it is; nothing for the empty list -/
theorem ephem_iter_dates_list (fuel order : Nat) (pts : List Int) (first last : Int) (hh : pts.head? = some first)
    (hl : pts.getLast? = some last) (l : List Int) (hord : l ≠ [] → order ≤ pts.length)
    (hin : ∀ d ∈ l, first ≤ d ∧ d ≤ last) (start : Option Int) (stop : Option Stop) (step : Option Int) (strict : Bool) :
    ephemIter fuel order pts (some (.list l)) start stop step strict = ⟨l, .done⟩ := by
  rw [ephemIter_dates]
  exact listRun_all _ l (fun d hd => interpOk_of hh hl (hord (List.ne_nil_of_mem hd)) (hin d hd).1 (hin d hd).2)

example : ephemIter 20 8 [0, 60, 120, 180, 240, 300, 360, 420, 480] (some (.list [])) none none none true = ⟨[], .done⟩ := by decide

/-- without `step`, for an ephemeris whose points are sorted by date (`Ephem.__init__` sorts them): exactly the tabulated dates
within `[start, stop]`, in order -/
theorem ephem_iter_own_sorted (fuel order : Nat) (pts : List Int) (first last : Int) (hh : pts.head? = some first)
    (hl : pts.getLast? = some last) (hsorted : pts.Pairwise (· ≤ ·)) (start stop : Int) (strict : Bool) (hfs : first ≤ start)
    (hss : start ≤ stop) (hsl : stop ≤ last) :
    ephemIter fuel order pts none (some start) (some (.at stop)) none strict
      = ⟨pts.filter (fun d => decide (start ≤ d) && decide (d ≤ stop)), .done⟩ := by
  rw [ephem_iter_own fuel order pts first last hh hl start stop strict hfs hss hsl, ownPts_sorted _ _ _ hsorted]

/-- … and for a backward range the tabulated dates within `[stop, start]`, last first -/
theorem ephem_iter_own_backward_sorted (fuel order : Nat) (pts : List Int) (first last : Int) (hh : pts.head? = some first)
    (hl : pts.getLast? = some last) (hsorted : pts.Pairwise (· ≤ ·)) (start stop : Int) (strict : Bool) (hfs : first ≤ stop)
    (hss : stop < start) (hsl : start ≤ last) :
    ephemIter fuel order pts none (some start) (some (.at stop)) none strict
      = ⟨pts.reverse.filter (fun d => decide (stop ≤ d) && decide (d ≤ start)), .done⟩ := by
  rw [ephem_iter_own_backward fuel order pts first last hh hl start stop strict hfs hss hsl,
    ownPtsBack_sorted _ _ _ (List.pairwise_reverse.mpr hsorted)]

example : ephemIter 20 8 [0, 60, 120, 180, 240] none (some 50) (some (.at 200)) none true = ⟨[60, 120, 180], .done⟩ := by decide

/-! ### start or stop outside the tabulated span: refused when `strict`, clamped otherwise -/

/-- `strict=True` (default): a start before the first point is refused (forward range or no stop) -/
theorem ephem_iter_strict_start_refused (fuel order : Nat) (pts : List Int) (first last : Int) (hh : pts.head? = some first)
    (hl : pts.getLast? = some last) (start : Int) (st : Option Stop) (step : Option Int) (hlt : start < first)
    (hnb : ∀ s, st = some s → ¬ s.resolve start < start) :
    ephemIter fuel order pts none (some start) st step true = Run.fail .value := by
  unfold ephemIter
  cases st with
  | none => simp [hh, hl, hlt, Run.fail]
  | some s =>
    have := hnb s rfl
    simp [this, hh, hl, hlt, Run.fail]

/-- `strict=True`: a stop after the last point is refused -/
theorem ephem_iter_strict_stop_refused (fuel order : Nat) (pts : List Int) (first last : Int) (hh : pts.head? = some first)
    (hl : pts.getLast? = some last) (start : Int) (s : Stop) (step : Option Int) (hfs : first ≤ start)
    (hss : start ≤ s.resolve start) (hgt : last < s.resolve start) :
    ephemIter fuel order pts none (some start) (some s) step true = Run.fail .value := by
  have hnb : ¬ s.resolve start < start := by omega
  have hnl : ¬ start < first := by omega
  unfold ephemIter
  simp [hnb, hh, hl, hnl, hgt, Run.fail]

/-- `strict=True`: a backward range reaching out of the span on either side is refused -/
theorem ephem_iter_strict_backward_refused (fuel order : Nat) (pts : List Int) (first last : Int) (hh : pts.head? = some first)
    (hl : pts.getLast? = some last) (start : Int) (s : Stop) (step : Option Int) (hlt : s.resolve start < start)
    (hout : last < start ∨ s.resolve start < first) :
    ephemIter fuel order pts none (some start) (some s) step true = Run.fail .value := by
  have hout' : start > last ∨ s.resolve start < first := hout
  unfold ephemIter
  simp only [hlt, if_true]
  unfold ephemIterBackward
  simp [hh, hl, hout', Run.fail]

/-- `strict=False`, forward: the range is clamped to the span — the result is that of the strict call on
`[max start first, min stop last]` (when that is not empty) -/
theorem ephem_iter_clamped_forward (fuel order : Nat) (pts : List Int) (first last : Int) (hh : pts.head? = some first)
    (hl : pts.getLast? = some last) (start stop : Int) (step : Option Int) (hss : start ≤ stop)
    (hne : max start first ≤ min stop last) :
    ephemIter fuel order pts none (some start) (some (.at stop)) step false
      = ephemIter fuel order pts none (some (max start first)) (some (.at (min stop last))) step true := by
  have hnb : ¬ stop < start := by omega
  have hnb' : ¬ min stop last < max start first := by omega
  have hnl' : ¬ max start first < first := by omega
  have hng' : ¬ min stop last > last := by omega
  unfold ephemIter
  simp only [Stop.resolve, hnb, hnb', if_false, hh, hl, hnl', hng', Option.getD_none]
  rcases lt_or_ge start first with h1 | h1
  · have e1 : max start first = first := by omega
    rcases lt_or_ge last stop with h2 | h2
    · have e2 : min stop last = last := by omega
      have h2' : stop > last := h2
      simp [h1, h2', e1, e2]
    · have e2 : min stop last = stop := by omega
      have h2' : ¬ stop > last := by omega
      simp [h1, h2', e1, e2]
  · have e1 : max start first = start := by omega
    have h1' : ¬ start < first := by omega
    rcases lt_or_ge last stop with h2 | h2
    · have e2 : min stop last = last := by omega
      have h2' : stop > last := h2
      simp [h1', h2', e1, e2]
    · have e2 : min stop last = stop := by omega
      have h2' : ¬ stop > last := by omega
      simp [h1', h2', e1, e2]

/-- `strict=False`, backward: clamped likewise to `[max stop first, min start last]` -/
theorem ephem_iter_clamped_backward (fuel order : Nat) (pts : List Int) (first last : Int) (hh : pts.head? = some first)
    (hl : pts.getLast? = some last) (start stop : Int) (step : Option Int) (hss : stop < start)
    (hne : max stop first < min start last) :
    ephemIter fuel order pts none (some start) (some (.at stop)) step false
      = ephemIter fuel order pts none (some (min start last)) (some (.at (max stop first))) step true := by
  have hnc' : ¬ (min start last > last ∨ max stop first < first) := by omega
  unfold ephemIter
  simp only [Stop.resolve, hss, hne, if_true]
  unfold ephemIterBackward
  simp only [hh, hl, hnc', if_false]
  by_cases hc : start > last ∨ stop < first
  · simp [hc]
  · have e1 : min start last = start := by omega
    have e2 : max stop first = stop := by omega
    simp [hc, e1, e2]

example : ephemIter 20 3 [0, 60, 120, 180, 240] none (some (-50)) (some (.at 500)) (some 100) false = ⟨[0, 100, 200], .done⟩ := by decide
example : ephemIter 20 3 [0, 60, 120, 180, 240] none (some 500) (some (.at (-50))) (some 100) false = ⟨[240, 140, 40], .done⟩ := by decide
example : ephemIter 20 3 [0, 60, 120, 180, 240] none (some 500) (some (.at (-50))) (some 100) true = Run.fail .value := by decide

/-! ## `dates=` given as a `DateRange` object (`Date.range(s0, s1, st, inclusive=incl)`, built by the caller) -/

/-- what iterating the object itself yields (`DateRange.__iter__`) -/
def rangeRun (fuel : Nat) (s0 s1 st : Int) (incl : Bool) : Run := loop (rangeCond s1 st incl) yes st fuel s0

/-- an inclusive constructible range is the contract grid (forward) -/
theorem rangeRun_inclusive_forward (fuel n : Nat) (s0 s1 st : Int) (hs : 0 < st) (h1 : s0 + (n : Int) * st ≤ s1)
    (h2 : s1 < s0 + ((n : Int) + 1) * st) (hf : n + 1 < fuel) : rangeRun fuel s0 s1 st true = ⟨grid s0 st n, .done⟩ := by
  unfold rangeRun
  rw [rangeCond_up hs]
  exact loop_up yes s0 s1 st n fuel hs h1 h2 (fun _ _ => rfl) hf

/-- … (backward) -/
theorem rangeRun_inclusive_backward (fuel n : Nat) (s0 s1 st : Int) (hs : st < 0) (h1 : s1 ≤ s0 + (n : Int) * st)
    (h2 : s0 + ((n : Int) + 1) * st < s1) (hf : n + 1 < fuel) : rangeRun fuel s0 s1 st true = ⟨grid s0 st n, .done⟩ := by
  unfold rangeRun
  rw [rangeCond_down hs]
  exact loop_down yes s0 s1 st n fuel hs h1 h2 (fun _ _ => rfl) hf

/-- an exclusive forward range stops before its stop: `s0 + k·st`, `k = 0 … n`, `n` the last with `s0 + n·st < s1` -/
theorem rangeRun_exclusive_forward (fuel n : Nat) (s0 s1 st : Int) (hs : 0 < st) (h1 : s0 + (n : Int) * st < s1)
    (h2 : s1 ≤ s0 + ((n : Int) + 1) * st) (hf : n + 1 < fuel) : rangeRun fuel s0 s1 st false = ⟨grid s0 st n, .done⟩ := by
  unfold rangeRun
  apply loop_exact _ _ _ _ _ _ _ _ hf
  · intro k hk
    refine ⟨?_, rfl⟩
    have := cast_mul_mono hk (le_of_lt hs)
    simp only [rangeCond, hs, if_true, Bool.false_eq_true, if_false, decide_eq_true_eq]
    linarith
  · simp only [rangeCond, hs, if_true, Bool.false_eq_true, if_false, decide_eq_false_iff_not, not_lt]
    exact h2

/-- **iter_dates_list** for a `DateRange` (analytical propagators): exactly the dates of the object -/
theorem iter_dates_range (fuel : Nat) (epoch : Int) (selfStep : Option Int) (a : Args) (s0 s1 st : Int) (incl : Bool)
    (hd : a.dates = some (.range s0 s1 st incl)) :
    analyticalIter fuel epoch selfStep a = (true, rangeRun fuel s0 s1 st incl) := by
  simp [analyticalIter, analyticalIterCore, hd, Dates.run, rangeRun]

/-- … (ephemeris): a `DateRange` inside the tabulated span, either direction -/
theorem ephem_iter_dates_range (fuel order : Nat) (pts : List Int) (first last : Int) (hh : pts.head? = some first)
    (hl : pts.getLast? = some last) (hord : order ≤ pts.length) (s0 s1 st : Int) (incl : Bool)
    (hdir : (0 < st ∧ first ≤ s0 ∧ s1 ≤ last) ∨ (st < 0 ∧ first ≤ s1 ∧ s0 ≤ last))
    (start : Option Int) (stop : Option Stop) (step : Option Int) (strict : Bool) :
    ephemIter fuel order pts (some (.range s0 s1 st incl)) start stop step strict = rangeRun fuel s0 s1 st incl := by
  rw [ephemIter_dates]
  simp only [Dates.run, rangeRun]
  apply loop_ok_of_yes
  intro d hd
  rcases hdir with ⟨hs, ha, hb⟩ | ⟨hs, ha, hb⟩
  · have := loop_range_mem_up s1 st incl hs fuel s0 d hd
    exact interpOk_of hh hl hord (by omega) (by omega)
  · have := loop_range_mem_down s1 st incl hs fuel s0 d hd
    exact interpOk_of hh hl hord (by omega) (by omega)

/-- … (numerical propagator, every integration method), forward `DateRange`: whatever its step and its start relative to the epoch -/
theorem numerical_iter_dates_range_forward (fuel order m : Nat) (epoch h : Int) (rs : Nat → Int) (ident : Bool) (a : Args)
    (s0 s1 st : Int) (incl listening : Bool)
    (hd : a.dates = some (.range s0 s1 st incl)) (hs : 0 < st) (hfw : s0 ≤ s1) (hm : s1 ≤ endp rs 1 s0 m)
    (hmo : order ≤ m + 1) (hf : m < fuel) :
    numIter fuel order epoch h rs ident a listening = (true, rangeRun fuel s0 s1 st incl) := by
  unfold numIter
  simp only [hd]
  obtain ⟨m', hreach, hord, hcore⟩ := numCore_forward fuel order h rs s0 s1 none (some (.range s0 s1 st incl)) listening m hfw hm hmo hf
  rw [hcore, ephemIter_dates]
  congr 1
  simp only [Dates.run, rangeRun]
  apply loop_ok_of_yes
  intro d hd'
  have := loop_range_mem_up s1 st incl hs fuel s0 d hd'
  exact interpOk_of (path_head _ _ _ _) (path_getLast _ _ _ _) (by rw [path_length]; exact hord (by simp)) this.1 (by omega)

/-- … backward `DateRange` (negative step, stop before start): integrated backward, same dates -/
theorem numerical_iter_dates_range_backward (fuel order m : Nat) (epoch h : Int) (rs : Nat → Int) (ident : Bool) (a : Args)
    (s0 s1 st : Int) (incl listening : Bool)
    (hd : a.dates = some (.range s0 s1 st incl)) (hs : st < 0) (hbw : s1 < s0) (hm : endp (sdelta true rs) 1 s0 m ≤ s1)
    (hmo : order ≤ m + 1) (hf : m < fuel) :
    numIter fuel order epoch h rs ident a listening = (true, rangeRun fuel s0 s1 st incl) := by
  unfold numIter
  simp only [hd]
  obtain ⟨m', hreach, hord, hcore⟩ := numCore_backward_dates fuel order h rs s0 s1 (.range s0 s1 st incl) listening m hbw hm hmo hf
  rw [hcore, ephemIter_dates]
  congr 1
  simp only [Dates.run, rangeRun]
  apply loop_ok_of_yes
  intro d hd'
  have := loop_range_mem_down s1 st incl hs fuel s0 d hd'
  refine interpOk_of (first := endp (sdelta true rs) 1 s0 m') (last := s0) ?_ ?_ ?_ (by omega) this.2
  · rw [List.head?_reverse, path_getLast]
  · rw [List.getLast?_reverse, path_head]
  · rw [List.length_reverse, path_length]; exact hord

example : numIter 20 8 0 60 (fun _ => 60) true { dates := some (.range 100 (-100) (-45) true) } false = (true, ⟨[100, 55, 10, -35, -80], .done⟩) := by decide
example : numIter 20 8 0 60 (fun _ => 60) true { dates := some (.range 0 90 30 false) } false = (true, ⟨[0, 30, 60], .done⟩) := by decide
example : rangeRun 20 100 (-100) (-45) true = ⟨grid 100 (-45) 4, .done⟩ :=
  rangeRun_inclusive_backward 20 4 100 (-100) (-45) (by decide) (by decide) (by decide) (by decide)

/-! ## NumericalPropagator.iter / KeplerNum._iter

`h > 0` is the nominal step (`propagator.step`), `rs len` the LENGTH of the integration step actually taken when `len` points are
tabulated: `h` for euler / rk4, whatever the step-size control arrives at for rkf54 / dopri54 (any function: the theorems
quantify over it). `m` is ANY number of integration steps that reach stop and fill the interpolation order (it only says that
`fuel`, the bound on the length of the model's loops, suffices: the code has no bound). `ident = true`: `_iter` recognises the
default step by IDENTITY (`step is self.step`), as read from the source on this run (`step_test_matches`). -/

/-- step of the iteration after defaulting: `step=` absent or `None` means the nominal step of the propagator -/
def stepOf (h : Int) (a : Args) : Int := (a.step.getD (some h)).getD h

/-- `NumericalPropagator.iter` with `stop`, without `dates`, `start` not passed as `None`: the call of `KeplerNum._iter` it ends in -/
theorem numIter_eq_numCore (fuel order : Nat) (epoch h : Int) (rs : Nat → Int) (ident : Bool) (a : Args) (st : Stop) (listening : Bool)
    (hd : a.dates = none) (hst : a.stop = some st) (hstart : a.start ≠ some none) :
    numIter fuel order epoch h rs ident a listening = numCore fuel order h rs (startOf epoch a) (st.resolve (startOf epoch a))
      (if startOf epoch a > st.resolve (startOf epoch a) ∧ stepOf h a > 0 then some (-stepOf h a) else
        match a.step with
        | none => none
        | some none => none
        | some (some s) => if a.stepSame || (!ident && s == h) then none else some s) none listening := by
  unfold numIter startOf stepOf
  simp only [hd, hst]
  cases hs' : a.start with
  | none => rfl
  | some v =>
    cases v with
    | none => exact absurd hs' hstart
    | some x => rfl

/-- **numerical_iter_dates**, forward, explicit step. For every integration method (any step lengths `rs`), every epoch, every
start (before/at/after the epoch), every stop (date or timedelta) not before start — on the integration grid or not, any span
however short —, every positive `step=` given by the caller as an object of its own — smaller than, larger than,
incommensurate with or EQUAL IN VALUE to the propagator's step —, with or without listeners: exactly `start + k·step`,
`k = 0 … n = ⌊(stop−start)/step⌋`, in this order, none beyond stop. -/
theorem numerical_iter_dates_forward (fuel order n m : Nat) (epoch h : Int) (rs : Nat → Int) (a : Args) (st : Stop) (step : Int)
    (listening : Bool) (hd : a.dates = none) (hst : a.stop = some st) (hstart : a.start ≠ some none)
    (hstep : a.step = some (some step)) (hown : a.stepSame = false) (hs : 0 < step)
    (h1 : startOf epoch a + (n : Int) * step ≤ st.resolve (startOf epoch a))
    (h2 : st.resolve (startOf epoch a) < startOf epoch a + ((n : Int) + 1) * step)
    (hm : st.resolve (startOf epoch a) ≤ endp rs 1 (startOf epoch a) m) (hmo : order ≤ m + 1)
    (hf : m < fuel) (hf2 : n + 1 < fuel) :
    numIter fuel order epoch h rs true a listening = (true, ⟨grid (startOf epoch a) step n, .done⟩) := by
  have h0 : (0 : Int) ≤ (n : Int) * step := Int.mul_nonneg (by exact_mod_cast Nat.zero_le n) (le_of_lt hs)
  have hfw : startOf epoch a ≤ st.resolve (startOf epoch a) := by omega
  have hso : stepOf h a = step := by simp [stepOf, hstep]
  have hnf : ¬ (startOf epoch a > st.resolve (startOf epoch a) ∧ stepOf h a > 0) := by omega
  rw [numIter_eq_numCore fuel order epoch h rs true a st listening hd hst hstart, if_neg hnf]
  simp only [hstep, hown, Bool.false_or, Bool.not_true, Bool.false_and, Bool.false_eq_true, if_false]
  obtain ⟨m', hreach, hord, hcore⟩ := numCore_forward fuel order h rs _ _ (some step) none listening m hfw hm hmo hf
  rw [hcore]
  simp only [Option.isNone_none, if_true]
  congr 1
  exact ephemIter_resample_up fuel order _ _ _ _ _ n (path_head _ _ _ _) (path_getLast _ _ _ _)
    (by rw [path_length]; exact hord (by simp)) hs hreach h1 h2 hf2

/- **numerical_iter_dates**, forward, DEFAULT step (`step=` absent, `None`, or `propagator.step` itself), full statement: for
every integration method the dates are `start + k·h`, `k = 0 … ⌊(stop−start)/h⌋`.  FALSE of the current code for the adaptive
methods (rkf54, dopri54): the raw integration points are yielded (`Witness/C08.lean: numerical_default_step_raw_points`; known
finding C08-num-adaptive-default-step, proposed_fixes/C08-i-keplernum-adaptive-default-step.diff).  Proved for the fixed-step
methods (`∀ k, rs k = h`): -/

/-- `numerical_iter_dates_forward_default_partial`: default step, fixed-step methods (euler, rk4) -/
theorem numerical_iter_dates_forward_default_partial (fuel order n m : Nat) (epoch h : Int) (rs : Nat → Int) (ident : Bool)
    (a : Args) (st : Stop) (listening : Bool) (hd : a.dates = none) (hst : a.stop = some st) (hstart : a.start ≠ some none)
    (hdef : a.step = none ∨ a.step = some none ∨ (a.step = some (some h) ∧ a.stepSame = true)) (hfix : ∀ k, rs k = h) (hh : 0 < h)
    (h1 : startOf epoch a + (n : Int) * h ≤ st.resolve (startOf epoch a))
    (h2 : st.resolve (startOf epoch a) < startOf epoch a + ((n : Int) + 1) * h)
    (hm : st.resolve (startOf epoch a) ≤ startOf epoch a + (m : Int) * h) (hmo : order ≤ m + 1)
    (hf : m < fuel) :
    numIter fuel order epoch h rs ident a listening = (true, ⟨grid (startOf epoch a) h n, .done⟩) := by
  have h0 : (0 : Int) ≤ (n : Int) * h := Int.mul_nonneg (by exact_mod_cast Nat.zero_le n) (le_of_lt hh)
  have hfw : startOf epoch a ≤ st.resolve (startOf epoch a) := by omega
  obtain rfl : rs = fun _ => h := funext hfix
  have hso : stepOf h a = h := by
    rcases hdef with e | e | ⟨e, _⟩ <;> simp [stepOf, e]
  have hnf : ¬ (startOf epoch a > st.resolve (startOf epoch a) ∧ stepOf h a > 0) := by omega
  rw [numIter_eq_numCore fuel order epoch h _ ident a st listening hd hst hstart, if_neg hnf]
  have hk : (match a.step with
      | none => none
      | some none => none
      | some (some s) => if a.stepSame || (!ident && s == h) then none else some s) = (none : Option Int) := by
    rcases hdef with e | e | ⟨e, e'⟩
    · simp [e]
    · simp [e]
    · simp [e, e']
  rw [hk]
  obtain ⟨m', hreach, hord, hcore⟩ := numCore_forward fuel order h (fun _ => h) _ _ none none listening m hfw
    (by rw [endp_const]; exact hm) hmo hf
  rw [hcore]
  simp only [Option.isNone_none, if_true]
  congr 1
  rw [path_const, endp_const] at *
  rw [ephemIter_own_up fuel order _ _ _ _ (grid_head _ _ _) (grid_getLast _ _ _) hreach]
  have hnm : n ≤ m' := by
    by_contra hc
    have := cast_mul_mono (show m' + 1 ≤ n by omega) (le_of_lt hh)
    push_cast at this
    linarith
  rw [ownPts_grid _ _ h hh m' _ n (le_refl _) hnm h1 h2]

/-- **numerical_iter_dates**, backward. Every integration method; stop before start; the step may be absent (the nominal step), given
positive (the code flips it) or negative: exactly `start − k·|step|`, `k = 0 … n = ⌊(start−stop)/|step|⌋`, in this order, none
beyond stop. -/
theorem numerical_iter_dates_backward (fuel order n m : Nat) (epoch h : Int) (rs : Nat → Int) (ident : Bool) (a : Args) (st : Stop)
    (listening : Bool) (hd : a.dates = none) (hst : a.stop = some st) (hstart : a.start ≠ some none) (hh : 0 < h)
    (hs : stepOf h a ≠ 0) (hsame : a.stepSame = true → a.step = some (some h))
    (hlt : st.resolve (startOf epoch a) < startOf epoch a)
    (h1 : st.resolve (startOf epoch a) ≤ startOf epoch a + (n : Int) * (-|stepOf h a|))
    (h2 : startOf epoch a + ((n : Int) + 1) * (-|stepOf h a|) < st.resolve (startOf epoch a))
    (hm : endp (sdelta true rs) 1 (startOf epoch a) m ≤ st.resolve (startOf epoch a)) (hmo : order ≤ m + 1)
    (hf : m < fuel) (hf2 : n + 1 < fuel) :
    numIter fuel order epoch h rs ident a listening = (true, ⟨grid (startOf epoch a) (-|stepOf h a|) n, .done⟩) := by
  have hneg : -|stepOf h a| < 0 := by have := abs_pos.mpr hs; omega
  have key : numCore fuel order h rs (startOf epoch a) (st.resolve (startOf epoch a)) (some (-|stepOf h a|)) none listening
        = (true, ⟨grid (startOf epoch a) (-|stepOf h a|) n, .done⟩) := by
    obtain ⟨m', hreach, hord, hcore⟩ := numCore_backward fuel order h rs _ _ (-|stepOf h a|) listening m hlt hneg hm hmo hf
    rw [hcore, ephemIter_dates]
    congr 1
    simp only [Dates.run, rangeCond_down hneg]
    apply loop_down _ _ _ _ n fuel hneg h1 h2 _ hf2
    intro k hk
    have hw := grid_within_backward hneg h1 (mem_grid.mpr ⟨k, hk, rfl⟩)
    refine interpOk_of (first := endp (sdelta true rs) 1 (startOf epoch a) m') (last := startOf epoch a) ?_ ?_ ?_ (by omega) (by omega)
    · rw [List.head?_reverse, path_getLast]
    · rw [List.getLast?_reverse, path_head]
    · rw [List.length_reverse, path_length]; exact hord
  -- the step `_iter` receives: flipped when positive, as given when negative
  rw [numIter_eq_numCore fuel order epoch h rs ident a st listening hd hst hstart]
  rcases lt_or_gt_of_ne hs with hn | hp
  · have hnf : ¬ (startOf epoch a > st.resolve (startOf epoch a) ∧ stepOf h a > 0) := by omega
    rw [if_neg hnf]
    rw [abs_of_neg hn, neg_neg] at key ⊢
    unfold stepOf at hn key ⊢
    cases hstep : a.step with
    | none => simp [hstep] at hn; omega
    | some v =>
      cases v with
      | none => simp [hstep] at hn; omega
      | some s =>
        simp only [hstep, Option.getD_some] at hn key ⊢
        have hns : a.stepSame = false := by
          cases hss : a.stepSame with
          | false => rfl
          | true =>
            have := hsame hss
            rw [hstep] at this
            simp only [Option.some.injEq] at this
            omega
        have hne : (s == h) = false := by simp; omega
        simp only [hns, hne, Bool.false_or, Bool.and_false, Bool.false_eq_true, if_false]
        exact key
  · rw [if_pos ⟨hlt, hp⟩]
    rw [abs_of_pos hp] at key ⊢
    exact key

-- start at the epoch, stop 90 s later, integration step 60 s, no `step`: nothing beyond stop
example : numIter 20 8 0 60 (fun _ => 60) true { stop := some (.at 90) } false = (true, ⟨[0, 60], .done⟩) := by decide
-- a span of 200 s (4 integration points < order 8) resampled at 45 s
example : numIter 20 8 0 60 (fun _ => 60) true { stop := some (.at 200), step := some (some 45) } false = (true, ⟨[0, 45, 90, 135, 180], .done⟩) := by decide
-- an adaptive method taking steps of 33 s; the caller asks for one point per 60 s, the value of the propagator's own step
example : numIter 20 8 0 60 (fun _ => 33) true { stop := some (.at 200), step := some (some 60) } false = (true, ⟨[0, 60, 120, 180], .done⟩) := by decide
-- backward, start before the epoch, step given positive
example : numIter 20 8 0 60 (fun _ => 60) true { start := some (some (-30)), stop := some (.delta (-200)), step := some (some 45) } true
    = (true, ⟨[-30, -75, -120, -165, -210], .done⟩) := by decide
-- the hypotheses of the theorems are satisfiable (m = 7 integration steps of 33 s: 231 s ≥ 200 s and 8 points)
example : numIter 20 8 0 60 (fun _ => 33) true { stop := some (.at 200), step := some (some 60) } false = (true, ⟨grid 0 60 3, .done⟩) :=
  numerical_iter_dates_forward 20 8 3 7 0 60 _ _ (.at 200) 60 false rfl rfl (by decide) rfl rfl (by decide) (by decide) (by decide)
    (by decide) (by decide) (by decide) (by decide)
example : numIter 20 8 0 60 (fun _ => 60) true { stop := some (.at 200) } false = (true, ⟨grid 0 60 3, .done⟩) :=
  numerical_iter_dates_forward_default_partial 20 8 3 7 0 60 _ true _ (.at 200) false rfl rfl (by decide) (Or.inl rfl) (fun _ => rfl)
    (by decide) (by decide) (by decide) (by decide) (by decide) (by decide)
example : numIter 20 8 0 60 (fun _ => 33) true { stop := some (.delta (-200)) } false = (true, ⟨grid 0 (-60) 3, .done⟩) :=
  numerical_iter_dates_backward 20 8 3 7 0 60 _ true _ (.delta (-200)) false rfl rfl (by decide) (by decide) (by decide) (by decide)
    (by decide) (by decide) (by decide) (by decide) (by decide) (by decide) (by decide)

/-- **iter_dates_list** (numerical propagator, every integration method): an explicit list — any order, repetitions, dates before
or after the epoch, of any length — is yielded as it is; nothing for the empty list. `m` integration steps cover the span of the list. -/
theorem numerical_iter_dates_list (fuel order m : Nat) (epoch h : Int) (rs : Nat → Int) (ident : Bool) (a : Args) (l : List Int)
    (listening : Bool) (hd : a.dates = some (.list l)) (hspan : ∀ x ∈ l, ∀ y ∈ l, y ≤ endp rs 1 x m) (hmo : order ≤ m + 1)
    (hf : m < fuel) :
    (numIter fuel order epoch h rs ident a listening).2 = ⟨l, .done⟩ := by
  unfold numIter
  cases l with
  | nil => simp only [hd]
  | cons d r =>
    simp only [hd]
    have hlo := listMin_le d r
    have hhi := le_listMax d r
    obtain ⟨m', hreach, hord, hcore⟩ := numCore_forward fuel order h rs (listMin d r) (listMax d r) none (some (.list (d :: r))) listening m
      (by have := hlo d (by simp); have := hhi d (by simp); omega) (hspan _ (listMin_mem d r) _ (listMax_mem d r)) hmo hf
    rw [hcore, ephemIter_dates]
    simp only [Dates.run]
    apply listRun_all
    intro x hx
    exact interpOk_of (path_head _ _ _ _) (path_getLast _ _ _ _) (by rw [path_length]; exact hord (by simp))
      (hlo x hx) (by have := hhi x hx; omega)

example : numIter 20 8 0 60 (fun _ => 60) true { dates := some (.list [100, -30, 100, 45]) } false = (true, ⟨[100, -30, 100, 45], .done⟩) := by decide
example : numIter 20 8 0 60 (fun _ => 60) true { dates := some (.list []) } false = (false, ⟨[], .done⟩) := by decide

/-! ## independence from call history -/

/-- nothing is ever bound for an ephemeris (it has no propagator). Nothing else has to be maintained from call to call:
what the propagator derived from an orbit is re-derived at each call by the copying setters (Kepler, J2, KeplerNum, CW),
read from the object itself (NonePropagator) or checked against the object before use (Sgp4, `refresh` — as far as `Sgp4._state` sees: `Faithful`). -/
def Inv {V : Type} (w : World V) (s : St V) : Prop :=
  match s.bound with
  | none => True
  | some _ => w.kind ≠ .ephem

/-- adequacy of the abstraction for Sgp4: the abstract orbit value `V` (what the returned states `f v date` depend on) is
determined by what `Sgp4.propagate` compares of the bound orbit with what its record was computed from — since 3d341d9 the
coordinates, date, form, frame AND the drag terms `bstar`, `ndot`, `ndotdot`, i.e. every attribute of the orbit that reaches a
dynamical field of the satellite record (`Tle.from_orbit` → `twoline2rv`). What it still ASSUMES: the other entries of the orbit
(`name`, `norad_id`, `cospar_id`, `element_nb`, `revolutions`, `tle`, `type`, anything the user attached) reach only the labels
of the TLE text and not the trajectory `sgp4` computes from the record — a statement about `Tle.from_orbit` and the `sgp4`
package, not about the iteration code; it is exercised on the real API by the oracle (in-place changes of those entries,
family `…-after-inplace-label-change`). Vacuous for every other propagator. `Witness/C08.lean: stale_when_not_faithful` shows
the hypothesis cannot be dropped (it failed for the drag terms before 3d341d9). -/
def Faithful {V : Type} (w : World V) : Prop :=
  w.kind = .sgp4 → ∀ a b : V, w.sameState a b = true → a = b

theorem faithful_of_not_sgp4 {V : Type} (w : World V) (h : w.kind ≠ .sgp4) : Faithful w := fun hk => absurd hk h

/-- `Faithful` holds whenever the values of the model ARE what is compared (`sameState` is equality): the harness' world -/
theorem faithful_of_beq {V : Type} [BEq V] [LawfulBEq V] (w : World V) (h : w.sameState = fun a b => a == b) : Faithful w := by
  intro _ a b hab
  rw [h] at hab
  exact eq_of_beq hab

theorem inv_fresh {V : Type} (w : World V) (prev : List (Option Int)) (ver : Nat → Nat × Nat) :
    Inv w ({ prev := prev, ver := ver } : St V) := trivial

theorem bind_ver {V : Type} (w : World V) (s : St V) (i : Nat) : (Iter.bind w s i).ver = s.ver := by
  unfold Iter.bind; split
  · rfl
  · split <;> rfl

theorem bind_prev {V : Type} (w : World V) (s : St V) (i : Nat) : (Iter.bind w s i).prev = s.prev := by
  unfold Iter.bind; split
  · rfl
  · split <;> rfl

theorem refresh_ver {V : Type} (w : World V) (s : St V) : (refresh w s).ver = s.ver := by
  unfold refresh; split
  · split
    · split <;> rfl
    · rfl
  · rfl

theorem refresh_prev {V : Type} (w : World V) (s : St V) : (refresh w s).prev = s.prev := by
  unfold refresh; split
  · split
    · split <;> rfl
    · rfl
  · rfl

theorem bind_inv {V : Type} (w : World V) (s : St V) (i : Nat) (h : Inv w s) : Inv w (Iter.bind w s i) := by
  unfold Iter.bind
  split
  · exact h
  · split
    · exact h
    · next hk _ => exact hk

theorem refresh_inv {V : Type} (w : World V) (s : St V) (h : Inv w s) : Inv w (refresh w s) := by
  unfold refresh
  split
  · next hk =>
    split
    · split
      · exact h
      · show w.kind ≠ .ephem
        rw [hk]; decide
    · exact h
  · exact h

/-- after `Orbit.propagate` / `Orbit.iter` have (re)bound the propagator and `propagate` has checked its record, it works from
the CURRENT value of the receiver — whatever was bound before, whatever the user changed in place since, for the setters that
keep the object (Sgp4, NonePropagator) and for those that copy -/
theorem boundVal_bind {V : Type} (w : World V) (s : St V) (i : Nat) (hF : Faithful w) (h : Inv w s) :
    boundVal w (refresh w (Iter.bind w s i)) i = cur w s i := by
  have hcur : ∀ s' : St V, s'.ver = s.ver → ∀ j, cur w s' j = cur w s j := by intro s' e j; simp [cur, e]
  by_cases hn : w.kind = .none
  · unfold boundVal
    simp only [hn, if_true]; exact hcur _ (by rw [refresh_ver, bind_ver]) i
  · by_cases he : w.kind = .ephem
    · have hb : Iter.bind w s i = s := by simp [Iter.bind, he]
      have hr : refresh w s = s := by simp [refresh, he]
      rw [hb, hr]
      unfold boundVal
      simp only [hn, if_false]
      unfold Inv at h
      cases hbd : s.bound with
      | none => rfl
      | some jv => rw [hbd] at h; exact absurd he h
    · by_cases hid : (w.kind.ident && (s.bound.map (·.1) == some i)) = true
      · have hb : Iter.bind w s i = s := by simp [Iter.bind, he, hid]
        rw [hb]
        have hs : w.kind = .sgp4 := by
          have := (Bool.and_eq_true _ _ ▸ hid).1
          cases hk : w.kind <;> simp_all [Kind.ident]
        cases hbd : s.bound with
        | none => rw [hbd] at hid; simp at hid
        | some jv =>
          obtain ⟨j, v⟩ := jv
          rw [hbd] at hid
          simp only [Option.map_some, Bool.and_eq_true, beq_iff_eq, Option.some.injEq] at hid
          obtain rfl : j = i := hid.2
          by_cases hv : w.sameState v (cur w s j) = true
          · have hr : refresh w s = s := by simp [refresh, hs, hbd, hv]
            rw [hr]
            simp [boundVal, hn, hbd, hF hs v _ hv]
          · have hr : refresh w s = { s with bound := some (j, cur w s j) } := by simp [refresh, hs, hbd, hv]
            rw [hr]
            simp [boundVal, hn]
      · have hb : Iter.bind w s i = { s with bound := some (i, cur w s i), rebinds := s.rebinds + 1 } := by
          simp [Iter.bind, he, hid]
        rw [hb]
        have hr : refresh w ({ s with bound := some (i, cur w s i), rebinds := s.rebinds + 1 } : St V)
            = { s with bound := some (i, cur w s i), rebinds := s.rebinds + 1 } := by
          unfold refresh
          split
          · simp only []
            split <;> rfl
          · rfl
        rw [hr]
        simp [boundVal, hn]

/-- every call keeps the invariant — in-place modifications under Sgp4 included -/
theorem exec_inv {V R : Type} (w : World V) (f : V → Int → R) (cross : V → Int → Int → Bool) (fuel : Nat) (s : St V)
    (c : Call) (h : Inv w s) : Inv w (exec w f cross fuel s c).1 := by
  cases c with
  | propagate i d => exact refresh_inv w _ (bind_inv w s i h)
  | iter i a ls consume =>
    unfold exec
    simp only
    split
    · exact bind_inv w s i h
    · have key : ∀ taken : List Int, Inv w (if taken.isEmpty then Iter.bind w s i else refresh w (Iter.bind w s i)) := by
        intro taken
        split
        · exact bind_inv w s i h
        · exact refresh_inv w _ (bind_inv w s i h)
      exact key _
  | modify i =>
    unfold exec Inv at *
    exact h
  | modifyMeta i =>
    unfold exec Inv at *
    exact h

theorem runHist_inv {V R : Type} (w : World V) (f : V → Int → R) (cross : V → Int → Int → Bool) (fuel : Nat)
    (hist : List Call) : ∀ s : St V, Inv w s → Inv w (runHist (R := R) w f cross fuel s hist) := by
  induction hist with
  | nil => intro s h; exact h
  | cons c r ih =>
    intro s h
    exact ih _ (exec_inv w f cross fuel s c h)

theorem getD_setPrev_none (prev : List (Option Int)) (ls : List Nat) (j : Nat) (hj : j ∈ ls) : (setPrev prev ls none).getD j none = none := by
  unfold setPrev
  by_cases hlt : j < prev.length
  · simp [List.getD, hlt, hj]
  · simp [List.getD, hlt]

theorem events_nil (cross : Int → Int → Bool) (p : Option Int) : events cross p [] = [] := by cases p <;> rfl

/-- fresh objects holding the same orbit values: nothing bound, listeners empty -/
def freshOf {V : Type} (s : St V) : St V := { prev := List.replicate s.prev.length none, ver := s.ver }

/-- the observable part of an `iter` call, given the value `v` the states are computed from when there are any -/
theorem iter_result {V R : Type} (w : World V) (f : V → Int → R) (cross : V → Int → Int → Bool) (fuel : Nat) (s : St V)
    (i : Nat) (a : Args) (ls : List Nat) (consume : Nat) (hF : Faithful w) (h : Inv w s) (hc : consume ≠ 0) :
    (exec w f cross fuel s (.iter i a ls consume)).2 =
      (let r := iterRun w fuel i a (!ls.isEmpty)
       let taken := if r.1 then r.2.dates.take consume else []
       let prev0 := if r.1 then setPrev s.prev ls none else s.prev
       ⟨⟨taken, if consume ≤ r.2.dates.length then Fin.fuel else r.2.fin⟩, taken.map (f (cur w s i)),
        ls.map (fun j => events (cross (cur w s i)) (prev0.getD j none) taken)⟩) := by
  unfold exec
  simp only [hc, if_false, bind_prev]
  by_cases ht : (if (iterRun w fuel i a (!ls.isEmpty)).1 then (iterRun w fuel i a (!ls.isEmpty)).2.dates.take consume else []).isEmpty = true
  · rw [if_pos ht]
    rw [List.isEmpty_iff] at ht
    simp only [ht, List.map_nil, events_nil]
  · rw [if_neg ht, boundVal_bind w s i hF h]

/-- **propagate_pure** (one call): the observable result of a `propagate` or `iter` call — dates, end, states, events of every
passed listener — is the same from ANY state of the shared objects (propagator bound to any orbit, record computed from any
earlier value, listeners holding anything) as from fresh objects with the same orbit values. -/
theorem call_result_pure {V R : Type} (w : World V) (f : V → Int → R) (cross : V → Int → Int → Bool) (fuel : Nat)
    (s : St V) (c : Call) (hF : Faithful w) (h : Inv w s) :
    (exec w f cross fuel s c).2 = (exec w f cross fuel (freshOf s) c).2 := by
  have hfresh : Inv w (freshOf s) := trivial
  have hcur : ∀ i, cur w (freshOf s) i = cur w s i := fun i => rfl
  cases c with
  | propagate i d =>
    simp only [exec, boundVal_bind w s i hF h, boundVal_bind w _ i hF hfresh, hcur]
  | modify i => rfl
  | modifyMeta i => rfl
  | iter i a ls consume =>
    by_cases hc : consume = 0
    · simp [exec, hc]
    · rw [iter_result w f cross fuel s i a ls consume hF h hc, iter_result w f cross fuel _ i a ls consume hF hfresh hc]
      simp only [hcur]
      cases hcl : (iterRun w fuel i a (!ls.isEmpty)).1 with
      | true =>
        simp only [if_true]
        congr 1
        apply List.map_congr_left
        intro j hj
        rw [getD_setPrev_none _ _ _ hj, getD_setPrev_none _ _ _ hj]
      | false =>
        simp only [Bool.false_eq_true, if_false, List.map_nil, events_nil]

/-- **propagate_pure**: for EVERY history of `propagate` / `iter` calls and of in-place modifications of the orbits by the user
(their coordinates and, for Sgp4, their drag terms; any orbits sharing the propagator, any listeners, iterators consumed fully,
partly or not at all), for EVERY propagator kind, the result of the next call equals the result of that call on fresh objects
holding the current orbit values. `Faithful w` is the adequacy of the model's orbit values for Sgp4 (see its definition: it
holds when they are what `Sgp4._state` compares, `faithful_of_beq`; nothing is assumed for the other kinds,
`propagate_pure_not_sgp4`). Was `_partial` (false for drag-term changes) before 3d341d9. -/
theorem propagate_pure {V R : Type} (w : World V) (f : V → Int → R) (cross : V → Int → Int → Bool) (fuel nls : Nat)
    (hist : List Call) (c : Call) (hF : Faithful w) :
    let s0 : St V := { prev := List.replicate nls none }
    let s := runHist (R := R) w f cross fuel s0 hist
    (exec w f cross fuel s c).2 = (exec w f cross fuel (freshOf s) c).2 := by
  intro s0 s
  exact call_result_pure w f cross fuel s c hF (runHist_inv w f cross fuel hist s0 trivial)

/-- **propagate_pure** at full strength for every propagator other than Sgp4 (Kepler, J2, NonePropagator, KeplerNum,
Clohessy–Wiltshire, Ephem): no hypothesis on the history at all -/
theorem propagate_pure_not_sgp4 {V R : Type} (w : World V) (f : V → Int → R) (cross : V → Int → Int → Bool) (fuel nls : Nat)
    (hist : List Call) (c : Call) (hk : w.kind ≠ .sgp4) :
    let s0 : St V := { prev := List.replicate nls none }
    let s := runHist (R := R) w f cross fuel s0 hist
    (exec w f cross fuel s c).2 = (exec w f cross fuel (freshOf s) c).2 :=
  propagate_pure w f cross fuel nls hist c (faithful_of_not_sgp4 w hk)

/-- **propagate_pure** for Sgp4 in the world the correspondence runs: orbit values = (object, number of changes of its
elements, number of changes of its drag term), all of it compared -/
theorem propagate_pure_sgp4 {R : Type} (store : Nat → Nat × Nat → Nat × Nat × Nat) (f : Nat × Nat × Nat → Int → R)
    (cross : Nat × Nat × Nat → Int → Int → Bool) (fuel nls : Nat) (hist : List Call) (c : Call) :
    let w : World (Nat × Nat × Nat) := { kind := .sgp4, store := store, sameState := fun a b => a == b, epoch := fun _ => 0 }
    let s0 : St (Nat × Nat × Nat) := { prev := List.replicate nls none }
    let s := runHist (R := R) w f cross fuel s0 hist
    (exec w f cross fuel s c).2 = (exec w f cross fuel (freshOf s) c).2 := by
  intro w
  exact propagate_pure w f cross fuel nls hist c (faithful_of_beq w rfl)

/-- every yielded state is what a direct propagation of the receiver, as it is now, to that date gives
(in the model: `f (current value of orbit i) date`) -/
theorem iter_eq_map_propagate {V R : Type} (w : World V) (f : V → Int → R) (cross : V → Int → Int → Bool) (fuel : Nat)
    (s : St V) (i : Nat) (a : Args) (ls : List Nat) (consume : Nat) (hF : Faithful w) (h : Inv w s) :
    (exec w f cross fuel s (.iter i a ls consume)).2.states
      = (exec w f cross fuel s (.iter i a ls consume)).2.run.dates.map (f (cur w s i)) := by
  by_cases hc : consume = 0
  · simp [exec, hc]
  · rw [iter_result w f cross fuel s i a ls consume hF h hc]

/-! ## interleaved iterations (generators created, then advanced with other calls in between)

Which interleavings are safe in the current code: ALL of them, as long as no two orbit objects involved hold the same propagator
OBJECT (`propOf` injective). That is the situation of every orbit the library itself hands out: `Orbit.copy()` copies the
propagator, Kepler / J2 / NonePropagator return copies of the bound orbit, and every point yielded by `KeplerNum._iter` gets a
propagator copy of its own (`orb.as_orbit(self.copy())` inside the loop: read from the AST, `num_points_own_propagator_matches`).
NOT safe (the generator follows the orbit bound LAST, `Witness/C08.lean: interleaved_shared_propagator_retargeted`): generators of
DIFFERENT orbit objects holding the SAME propagator object — a propagator assigned to two orbits by the user (the points returned
by the Clohessy–Wiltshire propagator shared one before 31423a7; `cw_points_own_propagator_matches`). -/

/-- every generator still runs on the propagator of its receiver, that propagator is bound to the receiver, and the dates it has
left are a tail of the dates a fresh iteration of the receiver yields -/
def IInv (w : IWorld) (fuel : Nat) (s : ISt) : Prop :=
  ∀ i I, s.its i = some I →
    I.prop = w.propOf I.recv ∧ s.bound I.prop = some I.recv ∧ (∀ o, I.locked = some o → o = I.recv) ∧
    (I.started = true → ∃ j, I.remaining = (iterDates w fuel I.recv I.args).dates.drop j)

theorem iinv_init (w : IWorld) (fuel : Nat) : IInv w fuel {} := by
  intro i I h; simp at h

theorem advance_bound (w : IWorld) (fuel : Nat) (s : ISt) (it k : Nat) : (istep w fuel s (.advance it k)).1.bound = s.bound := by
  simp only [istep]
  cases s.its it <;> rfl

theorem istep_inv (w : IWorld) (fuel : Nat) (hinj : Function.Injective w.propOf) (s : ISt) (op : IOp) (h : IInv w fuel s) :
    IInv w fuel (istep w fuel s op).1 := by
  cases op with
  | create o a =>
    intro i I hi
    simp only [istep, setBound] at hi
    by_cases hin : i = s.n
    · simp only [hin, if_true, Option.some.injEq] at hi
      subst hi
      exact ⟨rfl, by simp [istep, setBound], by intro o' h'; simp at h', by intro h'; simp at h'⟩
    · simp only [hin, if_false] at hi
      obtain ⟨h1, h2, h3, h4⟩ := h i I hi
      refine ⟨h1, ?_, h3, h4⟩
      simp only [istep, setBound]
      by_cases hp : I.prop = w.propOf o
      · have : I.recv = o := hinj (h1 ▸ hp)
        simp [hp, this]
      · simp [hp, h2]
  | propagate o d =>
    intro i I hi
    simp only [istep, setBound] at hi
    obtain ⟨h1, h2, h3, h4⟩ := h i I hi
    refine ⟨h1, ?_, h3, h4⟩
    simp only [istep, setBound]
    by_cases hp : I.prop = w.propOf o
    · have : I.recv = o := hinj (h1 ▸ hp)
      simp [hp, this]
    · simp [hp, h2]
  | advance it k =>
    cases hit : s.its it with
    | none => simpa [istep, hit] using h
    | some I0 =>
      obtain ⟨g1, g2, g3, g4⟩ := h it I0 hit
      intro i I hi
      rw [advance_bound]
      simp only [istep, hit] at hi
      by_cases hin : i = it
      · simp only [hin, if_true, Option.some.injEq] at hi
        subst hi
        simp only [g2, Option.getD_some]
        by_cases hst : I0.started = true
        · obtain ⟨j, hj⟩ := g4 hst
          simp only [hst, if_true]
          exact ⟨g1, g2, g3, fun _ => ⟨j + k, by rw [hj, List.drop_drop]⟩⟩
        · simp only [hst, Bool.false_eq_true, if_false]
          refine ⟨g1, g2, ?_, fun _ => ⟨k, rfl⟩⟩
          intro o ho
          by_cases hk : w.kind = .num
          · simp only [hk, if_true, Option.some.injEq] at ho; exact ho.symm
          · simp [hk] at ho
      · simp only [hin, if_false] at hi
        exact h i I hi

theorem irun_inv (w : IWorld) (fuel : Nat) (hinj : Function.Injective w.propOf) (ops : List IOp) :
    ∀ s, IInv w fuel s → IInv w fuel (irun w fuel s ops) := by
  induction ops with
  | nil => intro s h; exact h
  | cons op r ih => intro s h; exact ih _ (istep_inv w fuel hinj s op h)

/-- **interleave_pure**: when every orbit object holds a propagator object of its own, then after ANY sequence of generator
creations, partial advances and `propagate` calls on any of the orbits, advancing generator `it` by `k` returns the next `k` dates
of what a fresh, uninterrupted iteration of ITS receiver with ITS arguments yields, every state lying on the receiver's
trajectory — whatever was done with the other orbits (and with the same orbit) in between -/
theorem interleave_pure (w : IWorld) (fuel : Nat) (hinj : Function.Injective w.propOf) (ops : List IOp) (it k : Nat) (I : Iterator)
    (hI : (irun w fuel {} ops).its it = some I) :
    ∃ j, (istep w fuel (irun w fuel {} ops) (.advance it k)).2.1
      = (((iterDates w fuel I.recv I.args).dates.drop j).take k).map (fun d => (d, I.recv)) := by
  have hinv := irun_inv w fuel hinj ops {} (iinv_init w fuel)
  obtain ⟨g1, g2, g3, g4⟩ := hinv it I hI
  simp only [istep, hI, g2, Option.getD_some]
  by_cases hst : I.started = true
  · obtain ⟨j, hj⟩ := g4 hst
    refine ⟨j, ?_⟩
    simp only [hst, if_true, hj]
    congr 1
    funext d
    cases hl : I.locked with
    | none => rfl
    | some o => simp [g3 o hl]
  · refine ⟨0, ?_⟩
    simp only [hst, Bool.false_eq_true, if_false, List.drop_zero]
    congr 1
    funext d
    by_cases hk : w.kind = .num <;> simp [hk]

-- two sibling points (epochs 60 and 180) with propagators of their own, walked side by side: each starts at its own epoch
example :
    let w : IWorld := { kind := .kepler, propOf := id, epoch := fun o => if o = 0 then 60 else 180 }
    let a : Args := { stop := some (.delta 120), step := some (some 60) }
    let s := irun w 10 {} [.create 0 a, .create 1 a, .advance 0 1, .advance 1 1]
    (istep w 10 s (.advance 0 5)).2.1 = [(120, 0), (180, 0)] ∧ (istep w 10 s (.advance 1 5)).2.1 = [(240, 1), (300, 1)] := by
  decide

/-! ## the object passed as `dates=`: any iterable, walked again and again or single-use

The three iteration sites walk the caller's object exactly once (`Generated.datesWalks`, read from the source on every run):
whatever the object is — a list, a `DateRange`, or a single-use iterator such as a generator expression, `iter(list)`,
`reversed(list)`, `map(...)` or the library's own `Ephem.dates` — the iteration yields the dates the object has to hand out. -/

theorem src_walk_items (x : Src) : x.walk.1 = x.items := by cases x <;> rfl

theorem src_walk_again (l : List Int) : (Src.again l).walk.2 = .again l := rfl

/-- a single-use iterator is empty after one walk -/
theorem src_walk_once_exhausts (l : List Int) : (Src.once l).walk.2 = .once [] := rfl

/-- an object whose `iter()` gives a fresh cursor may be walked any number of times: the last walk sees all its dates -/
theorem src_walkN_again (n : Nat) (l : List Int) : Src.walkN (n + 1) (.again l) = (l, .again l) := by
  induction n with
  | zero => rfl
  | succ n ih =>
    show Src.walkN (n + 1) (Src.again l).walk.2 = _
    exact ih

/-- a single-use iterator hands its dates to the FIRST walk only: an implementation that walks `dates` twice (a check loop
before the propagation loop, `min(dates)` before `for date in dates`, `len(list(dates))` ...) propagates to nothing -/
theorem src_walkN_once_lost (n : Nat) (l : List Int) : Src.walkN (n + 2) (.once l) = ([], .once []) := by
  have h : ∀ m : Nat, Src.walkN (m + 1) (.once []) = ([], .once []) := by
    intro m
    induction m with
    | zero => rfl
    | succ m ih =>
      show Src.walkN (m + 1) (Src.once []).walk.2 = _
      exact ih
  show Src.walkN (n + 1) (Src.once l).walk.2 = _
  exact h n

/-- the number of walks of the caller's `dates` object, per iteration site, as read from the source text on this run -/
theorem dates_walks_match : Generated.datesWalks = [("analytical", 1), ("ephem", 1), ("num", 1)] := by decide

/-- **iter_dates_source** (SGP4, Kepler, J2, None, CW): for EVERY kind of `dates` object the iterator yields exactly the dates
the object has to hand out, in its order, and a single-use object is left exhausted -/
theorem iter_dates_source {V : Type} (w : World V) (hk : w.kind ≠ .ephem) (hn : w.kind ≠ .num) (fuel i : Nat) (a : Args) (x : Src)
    (listening : Bool) :
    iterRunSrc w 1 fuel i a x listening = ((true, ⟨x.items, .done⟩), x.walk.2) := by
  have hl := iter_dates_list fuel (w.epoch i) none { a with dates := some (.list x.walk.1) } x.walk.1 rfl
  unfold iterRunSrc iterRun
  simp only [Src.walkN]
  rw [← src_walk_items]
  cases hkd : w.kind <;> simp_all

/-- … (ephemeris): dates inside the tabulated span -/
theorem ephem_iter_dates_source {V : Type} (w : World V) (hk : w.kind = .ephem) (first last : Int) (hh : w.pts.head? = some first)
    (hl : w.pts.getLast? = some last) (x : Src) (hord : x.items ≠ [] → w.order ≤ w.pts.length)
    (hin : ∀ d ∈ x.items, first ≤ d ∧ d ≤ last) (fuel i : Nat) (a : Args) (listening : Bool) :
    iterRunSrc w 1 fuel i a x listening = ((true, ⟨x.items, .done⟩), x.walk.2) := by
  unfold iterRunSrc iterRun
  simp only [Src.walkN, hk, src_walk_items]
  rw [ephem_iter_dates_list fuel w.order w.pts first last hh hl x.items hord hin]

/-- … (KeplerNum): any integration method, `m` integration steps cover the dates and fill the interpolation order -/
theorem numerical_iter_dates_source {V : Type} (w : World V) (hk : w.kind = .num) (fuel m i : Nat) (a : Args) (x : Src)
    (listening : Bool) (hspan : ∀ p ∈ x.items, ∀ q ∈ x.items, q ≤ endp w.rs 1 p m) (hmo : w.order ≤ m + 1) (hf : m < fuel) :
    (iterRunSrc w 1 fuel i a x listening).1.2 = ⟨x.items, .done⟩ ∧ (iterRunSrc w 1 fuel i a x listening).2 = x.walk.2 := by
  unfold iterRunSrc iterRun
  simp only [Src.walkN, hk, src_walk_items, and_true]
  exact numerical_iter_dates_list fuel w.order m (w.epoch i) w.h w.rs w.stepIdent _ x.items listening rfl hspan hmo hf

/-! ## ties to the source regenerated on every run -/

def kindName : Kind → String
  | .sgp4 => "sgp4" | .kepler => "kepler" | .j2 => "j2" | .none => "none" | .num => "num" | .cw => "cw" | .ephem => "ephem"

/-- which `orbit` setters keep the object and which copy it, as read from the source text on this run -/
theorem ident_table_matches (k : Kind) : Generated.orbitSetterKeepsObject.lookup (kindName k) = some k.ident := by
  cases k <;> decide

/-- the interpolation order the numerical iterator pads to is `Ephem.DEFAULT_ORDER` of the source -/
theorem order_matches : ({ kind := .num, store := fun i _ => i, sameState := fun _ _ => true, epoch := fun _ => 0 } : World Nat).order = Generated.ephemDefaultOrder := by
  decide

/-- `KeplerNum._iter` recognises the default step by identity (`if step is self.step: step = None`), not by value: the explicit
`step=` of `numerical_iter_dates_forward` may have any value, the propagator's own included -/
theorem step_test_matches : ({ kind := .num, store := fun i _ => i, sameState := fun _ _ => true, epoch := fun _ => 0 } : World Nat).stepIdent
    = Generated.numStepTestIsIdentity := by
  decide

/-- every point yielded by `KeplerNum._iter` gets a propagator copy of its own: `self.copy()` is evaluated inside the loop -/
theorem num_points_own_propagator_matches : Generated.numPointsOwnPropagator = true := by decide

/-- every state returned by `ClohessyWiltshire._propagate` gets a propagator copy of its own (`new.propagator = self.copy()`) -/
theorem cw_points_own_propagator_matches : Generated.cwPointsOwnPropagator = true := by decide

/-- `DateRange.__iter__` is a generator function and `DateRange` has no `__next__`: every consumer of a range object gets a
cursor of its own (the model treats a `DateRange` as an immutable description) -/
theorem date_range_iter_fresh_matches : Generated.dateRangeIterIsFreshGenerator = true := by decide

/-- `Ephem.__iter__` returns the ephemeris itself (one cursor on the object): the interleaved use of two iterations over the own
points of one ephemeris is the `shared = true` case of `Iter.curRun` (Witness `ephem_own_points_shared_cursor`, open finding) -/
theorem ephem_cursor_shared_matches : Generated.ephemIterSharesCursor = true := by decide

end BeyondVerif.C08
