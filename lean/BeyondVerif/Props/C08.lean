import BeyondVerif.Lemmas.Iter
import BeyondVerif.Generated.IterConst
import Mathlib.Tactic.Ring
import Mathlib.Tactic.Linarith

/-!
# C08 — propagation and iteration contract; independence from call history

Theorems about `Model/Iter.lean`, the model of `AnalyticalPropagator.iter`, `NumericalPropagator.iter`,
`KeplerNum._iter`, `Ephem.iter`, `Date.range`, `Orbit.propagate/iter` re-binding and listener clearing.
`⌊(stop − start)/step⌋` is always expressed by its two bracketing inequalities on `n`.
Histories consist of `propagate`, `iter` (consumed fully, partly, not at all) and in-place modifications of an orbit by the user;
`propagate_pure` holds for every history except, under Sgp4, those containing a modification (`Witness/C08.lean`).
-/
namespace BeyondVerif.C08
open BeyondVerif.Iter

/-! ## the contract grid -/

/-- the grid stays between start and stop (forward): "none beyond stop" -/
theorem grid_within_forward {start stop step d : Int} {n : Nat} (hs : 0 < step) (h1 : start + (n : Int) * step ≤ stop)
    (hd : d ∈ grid start step n) : start ≤ d ∧ d ≤ stop := by
  obtain ⟨k, hk, rfl⟩ := mem_grid.mp hd
  have := cast_mul_mono hk (le_of_lt hs)
  have : (0 : Int) ≤ (k : Int) * step := Int.mul_nonneg (by exact_mod_cast Nat.zero_le k) (le_of_lt hs)
  constructor <;> linarith

/-- the grid stays between stop and start (backward) -/
theorem grid_within_backward {start stop step d : Int} {n : Nat} (hs : step < 0) (h1 : stop ≤ start + (n : Int) * step)
    (hd : d ∈ grid start step n) : stop ≤ d ∧ d ≤ start := by
  obtain ⟨k, hk, rfl⟩ := mem_grid.mp hd
  have := cast_mul_anti hk (le_of_lt hs)
  have h0 := cast_mul_anti (Nat.zero_le k) (le_of_lt hs)
  simp only [Nat.cast_zero, zero_mul] at h0
  constructor <;> linarith

/-- dates come in order, strictly increasing for a positive step -/
theorem grid_increasing (start : Int) {step : Int} (n : Nat) (hs : 0 < step) : (grid start step n).Pairwise (· < ·) := by
  unfold grid
  rw [List.pairwise_map]
  refine List.Pairwise.imp ?_ (List.pairwise_lt_range (n := n + 1))
  intro a b hab
  have : (a : Int) < (b : Int) := by exact_mod_cast hab
  have := Int.mul_lt_mul_of_pos_right this hs
  linarith

/-- … strictly decreasing for a negative step -/
theorem grid_decreasing (start : Int) {step : Int} (n : Nat) (hs : step < 0) : (grid start step n).Pairwise (· > ·) := by
  unfold grid
  rw [List.pairwise_map]
  refine List.Pairwise.imp ?_ (List.pairwise_lt_range (n := n + 1))
  intro a b hab
  have : (a : Int) < (b : Int) := by exact_mod_cast hab
  have := Int.mul_lt_mul_of_pos_right this (show 0 < -step by omega)
  simp only [gt_iff_lt]
  linarith

example : grid 5 30 3 = [5, 35, 65, 95] := by decide
example : grid 5 (-30) 3 = [5, -25, -55, -85] := by decide

/-! ## Date.range(start, stop, step, inclusive=True) -/

theorem rangeCond_up {stop step : Int} (hs : 0 < step) : rangeCond stop step true = fun d => decide (d ≤ stop) := by
  funext d; simp [rangeCond, hs]

theorem rangeCond_down {stop step : Int} (hs : step < 0) : rangeCond stop step true = fun d => decide (d ≥ stop) := by
  funext d
  have : ¬ (0 < step) := by omega
  simp [rangeCond, this]

/-- clause "exactly start + k·step, k = 0…⌊(stop−start)/step⌋, first to last inclusive" for `Date.range`, forward;
∀ start stop step n fuel -/
theorem date_range_forward (ok : Int → Bool) (fuel n : Nat) (start stop step : Int) (hs : 0 < step)
    (h1 : start + (n : Int) * step ≤ stop) (h2 : stop < start + ((n : Int) + 1) * step)
    (hok : ∀ k : Nat, k ≤ n → ok (start + (k : Int) * step) = true) (hf : n + 1 < fuel) :
    dateRange ok fuel start stop step true = ⟨grid start step n, .done⟩ := by
  have h0 : (0 : Int) ≤ (n : Int) * step := Int.mul_nonneg (by exact_mod_cast Nat.zero_le n) (le_of_lt hs)
  have e1 : pySign (stop - start) = 1 := by unfold pySign; rw [if_pos]; omega
  have e2 : pySign step = 1 := by unfold pySign; rw [if_pos]; omega
  unfold dateRange
  rw [if_neg (by omega), e1, e2, if_neg (by simp), rangeCond_up hs]
  exact loop_up ok start stop step n fuel hs h1 h2 hok hf

/-- the same for a backward range with a negative step -/
theorem date_range_backward (ok : Int → Bool) (fuel n : Nat) (start stop step : Int) (hs : step < 0) (hlt : stop < start)
    (h1 : stop ≤ start + (n : Int) * step) (h2 : start + ((n : Int) + 1) * step < stop)
    (hok : ∀ k : Nat, k ≤ n → ok (start + (k : Int) * step) = true) (hf : n + 1 < fuel) :
    dateRange ok fuel start stop step true = ⟨grid start step n, .done⟩ := by
  have e1 : pySign (stop - start) = -1 := by unfold pySign; rw [if_neg]; omega
  have e2 : pySign step = -1 := by unfold pySign; rw [if_neg]; omega
  unfold dateRange
  rw [if_neg (by omega), e1, e2, if_neg (by simp), rangeCond_down hs]
  exact loop_down ok start stop step n fuel hs h1 h2 hok hf

example : dateRange yes 10 0 100 30 true = ⟨[0, 30, 60, 90], .done⟩ := by decide
example : dateRange yes 10 0 (-100) (-30) true = ⟨[0, -30, -60, -90], .done⟩ := by decide

/-! ## AnalyticalPropagator.iter (SGP4, Kepler, J2, NonePropagator, Clohessy–Wiltshire) -/

/-- start of the iteration after defaulting: `start=` absent or `None` means the epoch of the orbit -/
def startOf (epoch : Int) (a : Args) : Int := (a.start.getD (some epoch)).getD epoch

/-- **iter_dates**, forward. For every epoch, every start (before/at/after the epoch, given, absent or `None`), every stop
(date or timedelta) not before start, every positive step (dividing the span or not): the iterator yields exactly
`start + k·step`, `k = 0 … n = ⌊(stop−start)/step⌋`, in this order, then ends. -/
theorem iter_dates_forward (fuel n : Nat) (epoch : Int) (selfStep : Option Int) (a : Args) (st : Stop) (step : Int)
    (hd : a.dates = none) (hst : a.stop = some st) (hstep : a.step = some (some step)) (hs : 0 < step)
    (h1 : startOf epoch a + (n : Int) * step ≤ st.resolve (startOf epoch a))
    (h2 : st.resolve (startOf epoch a) < startOf epoch a + ((n : Int) + 1) * step) (hf : n + 1 < fuel) :
    analyticalIter fuel epoch selfStep a = (true, ⟨grid (startOf epoch a) step n, .done⟩) := by
  have h0 : (0 : Int) ≤ (n : Int) * step := Int.mul_nonneg (by exact_mod_cast Nat.zero_le n) (le_of_lt hs)
  have hnf : ¬ (startOf epoch a > st.resolve (startOf epoch a) ∧ step > 0) := by omega
  unfold analyticalIter analyticalArgs
  simp only [hd, hst, hstep, Option.getD_some]
  unfold startOf at hnf h1 h2 ⊢
  simp only [hnf, if_false, analyticalIterCore, hd]
  rw [date_range_forward yes fuel n _ _ step hs h1 h2 (fun _ _ => rfl) hf]

/-- **iter_dates**, backward. Stop before start; the step may be given positive (the code flips it) or negative:
the iterator yields `start − k·|step|`, `k = 0 … n`, `n = ⌊(start−stop)/|step|⌋`, in this order. -/
theorem iter_dates_backward (fuel n : Nat) (epoch : Int) (selfStep : Option Int) (a : Args) (st : Stop) (step : Int)
    (hd : a.dates = none) (hst : a.stop = some st) (hstep : a.step = some (some step)) (hs : step ≠ 0)
    (hlt : st.resolve (startOf epoch a) < startOf epoch a)
    (h1 : st.resolve (startOf epoch a) ≤ startOf epoch a + (n : Int) * (-|step|))
    (h2 : startOf epoch a + ((n : Int) + 1) * (-|step|) < st.resolve (startOf epoch a)) (hf : n + 1 < fuel) :
    analyticalIter fuel epoch selfStep a = (true, ⟨grid (startOf epoch a) (-|step|) n, .done⟩) := by
  unfold analyticalIter analyticalArgs
  simp only [hd, hst, hstep, Option.getD_some]
  unfold startOf at hlt h1 h2 ⊢
  rcases lt_or_gt_of_ne hs with hneg | hpos
  · have hnf : ¬ ((a.start.getD (some epoch)).getD epoch > st.resolve ((a.start.getD (some epoch)).getD epoch) ∧ step > 0) := by omega
    have habs : -|step| = step := by rw [abs_of_neg hneg]; ring
    rw [habs] at h1 h2 ⊢
    simp only [hnf, if_false, analyticalIterCore, hd]
    rw [date_range_backward yes fuel n _ _ step hneg hlt h1 h2 (fun _ _ => rfl) hf]
  · have hfl : (a.start.getD (some epoch)).getD epoch > st.resolve ((a.start.getD (some epoch)).getD epoch) ∧ step > 0 := ⟨hlt, hpos⟩
    have habs : -|step| = -step := by rw [abs_of_pos hpos]
    rw [habs] at h1 h2 ⊢
    simp only [hfl, if_true, analyticalIterCore, hd, and_self]
    rw [date_range_backward yes fuel n _ _ (-step) (by omega) hlt h1 h2 (fun _ _ => rfl) hf]

-- the hypotheses are satisfiable: start 3 s before the epoch, stop 100 s after it, step 30 s (does not divide 103 s)
example : analyticalIter 10 0 none { start := some (some (-3)), stop := some (.at 100), step := some (some 30) }
    = (true, ⟨[-3, 27, 57, 87], .done⟩) := by decide
example : analyticalIter 10 0 none { stop := some (.delta (-100)), step := some (some 30) }
    = (true, ⟨[0, -30, -60, -90], .done⟩) := by decide

/-- the error kinds of the argument handling, exactly: no stop → ValueError before anything else -/
theorem iter_no_stop (fuel : Nat) (epoch : Int) (selfStep : Option Int) (a : Args) (hd : a.dates = none) (hst : a.stop = none) :
    analyticalIter fuel epoch selfStep a = (false, Run.fail .value) := by
  simp [analyticalIter, analyticalArgs, hd, hst]

/-- a negative step with a forward (or empty) range is refused (`start/stop order not coherent with step`) -/
theorem iter_incoherent (fuel : Nat) (epoch : Int) (selfStep : Option Int) (a : Args) (st : Stop) (step : Int)
    (hd : a.dates = none) (hst : a.stop = some st) (hstep : a.step = some (some step)) (hs : step < 0)
    (hge : startOf epoch a ≤ st.resolve (startOf epoch a)) :
    analyticalIter fuel epoch selfStep a = (true, Run.fail .value) := by
  unfold analyticalIter analyticalArgs
  simp only [hd, hst, hstep, Option.getD_some]
  unfold startOf at hge
  have hnf : ¬ ((a.start.getD (some epoch)).getD epoch > st.resolve ((a.start.getD (some epoch)).getD epoch) ∧ step > 0) := by omega
  simp only [hnf, if_false, analyticalIterCore, hd]
  have e1 : pySign (st.resolve ((a.start.getD (some epoch)).getD epoch) - (a.start.getD (some epoch)).getD epoch) = 1 := by
    unfold pySign; rw [if_pos]; omega
  have e2 : pySign step = -1 := by unfold pySign; rw [if_neg]; omega
  unfold dateRange
  rw [if_neg (by omega), e1, e2, if_pos (by decide)]

/-- a null step is refused -/
theorem iter_zero_step (fuel : Nat) (epoch : Int) (selfStep : Option Int) (a : Args) (st : Stop)
    (hd : a.dates = none) (hst : a.stop = some st) (hstep : a.step = some (some 0)) :
    analyticalIter fuel epoch selfStep a = (true, Run.fail .value) := by
  unfold analyticalIter analyticalArgs
  simp [hd, hst, hstep, analyticalIterCore, dateRange]

/-- **iter_dates_list** (analytical propagators): a non-empty explicit list is yielded as it is — any order, repetitions,
dates before or after the epoch -/
theorem iter_dates_list_partial (fuel : Nat) (epoch : Int) (selfStep : Option Int) (a : Args) (l : List Int)
    (hd : a.dates = some (.list l)) (hne : l ≠ []) :
    analyticalIter fuel epoch selfStep a = (true, ⟨l, .done⟩) := by
  have : l.isEmpty = false := by cases l <;> simp_all
  simp [analyticalIter, analyticalIterCore, hd, Dates.truthy, Dates.run, this, listRun_all yes l (fun _ _ => rfl)]

example : analyticalIter 10 0 none { dates := some (.list [5, -3, 5]) } = (true, ⟨[5, -3, 5], .done⟩) := by decide

/-! ## Ephem.iter -/

theorem interpOk_of {order : Nat} {pts : List Int} {first last d : Int} (hh : pts.head? = some first)
    (hl : pts.getLast? = some last) (hord : order ≤ pts.length) (h1 : first ≤ d) (h2 : d ≤ last) : interpOk order pts d = true := by
  simp [interpOk, hh, hl, hord, h1, h2]

/-- `ephem_iter_dates_partial`: resampling an ephemeris (tabulated at `pts`, at least `order` points) over
`start ≤ stop` inside its span with a positive step yields exactly the contract grid.
Full statement (same conclusion for `stop < start` with a negative or flipped step) is FALSE of the current code:
a backward range yields nothing (`Witness/C08.lean: ephem_backward_yields_nothing`). -/
theorem ephem_iter_dates_partial (fuel n order : Nat) (pts : List Int) (first last : Int) (hh : pts.head? = some first)
    (hl : pts.getLast? = some last) (hord : order ≤ pts.length) (start stop step : Int) (strict : Bool) (hs : 0 < step)
    (hfs : first ≤ start) (hsl : stop ≤ last) (h1 : start + (n : Int) * step ≤ stop) (h2 : stop < start + ((n : Int) + 1) * step)
    (hf : n + 1 < fuel) :
    ephemIter fuel order pts none (some start) (some (.at stop)) (some step) strict = ⟨grid start step n, .done⟩ := by
  have hnl : ¬ start < first := by omega
  have hng : ¬ stop > last := by omega
  unfold ephemIter
  simp only [hh, hl, hnl, hng, Stop.resolve, if_false, Option.getD_none, Bool.false_eq_true]
  apply loop_up _ start stop step n fuel hs h1 h2 _ hf
  intro k hk
  have hw := grid_within_forward hs h1 (mem_grid.mpr ⟨k, hk, rfl⟩)
  exact interpOk_of hh hl hord (by omega) (by omega)

example : ephemIter 20 8 [0, 60, 120, 180, 240, 300, 360, 420, 480] none (some 30) (some (.at 400)) (some 90) true
    = ⟨[30, 120, 210, 300, 390], .done⟩ := by decide

/-- without `step` an ephemeris yields its own points between start and stop (documented behaviour) -/
theorem ephem_iter_own (fuel order : Nat) (pts : List Int) (first last : Int) (hh : pts.head? = some first)
    (hl : pts.getLast? = some last) (start stop : Int) (strict : Bool) (hfs : first ≤ start) (hsl : stop ≤ last) :
    ephemIter fuel order pts none (some start) (some (.at stop)) none strict = ⟨ownPts start stop pts, .done⟩ := by
  have hnl : ¬ start < first := by omega
  have hng : ¬ stop > last := by omega
  unfold ephemIter
  simp only [hh, hl, hnl, hng, Stop.resolve, if_false, Option.getD_none, Bool.false_eq_true]

/-- **iter_dates_list** (ephemeris): a non-empty list of dates inside the span is yielded as it is -/
theorem ephem_iter_dates_list_partial (fuel order : Nat) (pts : List Int) (first last : Int) (hh : pts.head? = some first)
    (hl : pts.getLast? = some last) (hord : order ≤ pts.length) (l : List Int) (hne : l ≠ [])
    (hin : ∀ d ∈ l, first ≤ d ∧ d ≤ last) (start : Option Int) (stop : Option Stop) (step : Option Int) (strict : Bool) :
    ephemIter fuel order pts (some (.list l)) start stop step strict = ⟨l, .done⟩ := by
  have : l.isEmpty = false := by cases l <;> simp_all
  unfold ephemIter
  simp only [Dates.truthy, this, Bool.not_false, if_true, Dates.run]
  exact listRun_all _ l (fun d hd => interpOk_of hh hl hord (hin d hd).1 (hin d hd).2)

/-! ## NumericalPropagator.iter / KeplerNum._iter -/

/-- what the code does for a forward range without `step`: it yields its own integration grid `start + k·h`
up to the first point at or beyond stop (`m = ⌈(stop−start)/h⌉`) -/
theorem numerical_iter_nostep (fuel order m : Nat) (epoch h : Int) (a : Args) (st : Stop) (hd : a.dates = none)
    (hst : a.stop = some st) (hstep : a.step = none) (hstart : a.start ≠ some none) (hh : 0 < h)
    (hfw : startOf epoch a ≤ st.resolve (startOf epoch a))
    (hlo : ∀ k : Nat, k < m → startOf epoch a + (k : Int) * h < st.resolve (startOf epoch a))
    (hhi : st.resolve (startOf epoch a) ≤ startOf epoch a + (m : Int) * h) (hf : m + 1 < fuel) :
    numIter fuel order epoch h a = (true, ⟨grid (startOf epoch a) h m, .done⟩) := by
  have h0 : (0 : Int) ≤ (m : Int) * h := Int.mul_nonneg (by exact_mod_cast Nat.zero_le m) (le_of_lt hh)
  have hnf : ¬ (startOf epoch a > st.resolve (startOf epoch a) ∧ h > 0) := by omega
  have hm := march_exact h (st.resolve (startOf epoch a)) m (startOf epoch a) fuel hlo hhi (by omega)
  unfold numIter
  unfold startOf at hnf hm hlo hhi hfw ⊢
  simp only [hd, hst, hstep, Option.getD_none, Option.getD_some, hnf, if_false]
  have hcore : numCore fuel order h ((a.start.getD (some epoch)).getD epoch)
      (st.resolve ((a.start.getD (some epoch)).getD epoch)) none none
      = ⟨grid ((a.start.getD (some epoch)).getD epoch) h m, .done⟩ := by
    unfold numCore
    cases hmm : march h (st.resolve ((a.start.getD (some epoch)).getD epoch)) fuel ((a.start.getD (some epoch)).getD epoch) with
    | none => simp [hmm] at hm
    | some more =>
      simp only [hmm, Option.map_some, Option.some.injEq] at hm
      simp only [hm]
      unfold ephemIter
      simp only [grid_head, grid_getLast, Bool.false_eq_true, if_false, Option.getD_none]
      rw [ownPts_all]
      intro d hd
      obtain ⟨k, hk, rfl⟩ := mem_grid.mp hd
      have := cast_mul_mono hk (le_of_lt hh)
      have : (0 : Int) ≤ (k : Int) * h := Int.mul_nonneg (by exact_mod_cast Nat.zero_le k) (le_of_lt hh)
      constructor <;> linarith
  cases hs : a.start with
  | none => simp only [hs] at hcore ⊢; rw [hcore]
  | some v =>
    cases v with
    | none => exact absurd hs hstart
    | some x => simp only [hs] at hcore ⊢; rw [hcore]

/-- `numerical_iter_dates_partial` (no `step`): when the span is a whole number of integration steps the dates are the
contract grid. Full statement (any stop) is FALSE of the current code: `Witness/C08.lean: numerical_beyond_stop`. -/
theorem numerical_iter_dates_partial (fuel order m : Nat) (epoch h : Int) (a : Args) (stop : Int) (hd : a.dates = none)
    (hst : a.stop = some (.at stop)) (hstep : a.step = none) (hstart : a.start ≠ some none) (hh : 0 < h)
    (hgrid : stop = startOf epoch a + (m : Int) * h) (hf : m + 1 < fuel) :
    numIter fuel order epoch h a = (true, ⟨grid (startOf epoch a) h m, .done⟩) := by
  have h0 : (0 : Int) ≤ (m : Int) * h := Int.mul_nonneg (by exact_mod_cast Nat.zero_le m) (le_of_lt hh)
  apply numerical_iter_nostep fuel order m epoch h a (.at stop) hd hst hstep hstart hh _ _ _ hf
  · simp only [Stop.resolve, hgrid]; omega
  · intro k hk
    simp only [Stop.resolve, hgrid]
    have : (k : Int) * h < (m : Int) * h := Int.mul_lt_mul_of_pos_right (by exact_mod_cast hk) hh
    linarith
  · simp only [Stop.resolve, hgrid]; exact le_refl _

example : numIter 20 8 0 60 { stop := some (.at 180) } = (true, ⟨[0, 60, 120, 180], .done⟩) := by decide

/-- `numerical_iter_dates_partial` (explicit positive `step`, forward): when at least `order` integration points are
tabulated (`order ≤ m + 1`) the dates are `start + k·step` up to the END OF THE INTERNAL GRID `start + m·h`;
this is the contract grid exactly when `stop = start + m·h`. Short spans (`m + 1 < order`) and backward ranges raise
(`Witness/C08.lean`). -/
theorem numerical_iter_step_partial (fuel order m n : Nat) (epoch h : Int) (a : Args) (stop step : Int) (hd : a.dates = none)
    (hst : a.stop = some (.at stop)) (hstep : a.step = some (some step)) (hstart : a.start ≠ some none) (hh : 0 < h)
    (hs : 0 < step) (hord : order ≤ m + 1) (hfw : startOf epoch a ≤ stop)
    (hlo : ∀ k : Nat, k < m → startOf epoch a + (k : Int) * h < stop) (hhi : stop ≤ startOf epoch a + (m : Int) * h)
    (h1 : startOf epoch a + (n : Int) * step ≤ startOf epoch a + (m : Int) * h)
    (h2 : startOf epoch a + (m : Int) * h < startOf epoch a + ((n : Int) + 1) * step) (hf : m + 1 < fuel) (hf2 : n + 1 < fuel) :
    numIter fuel order epoch h a = (true, ⟨grid (startOf epoch a) step n, .done⟩) := by
  have h0 : (0 : Int) ≤ (m : Int) * h := Int.mul_nonneg (by exact_mod_cast Nat.zero_le m) (le_of_lt hh)
  have hnf : ¬ (startOf epoch a > stop ∧ step > 0) := by omega
  have hm := march_exact h stop m (startOf epoch a) fuel hlo hhi (by omega)
  unfold numIter
  unfold startOf at hnf hm hlo hhi h1 h2 hfw ⊢
  simp only [hd, hst, hstep, Option.getD_some, Stop.resolve, hnf, if_false]
  have hcore : numCore fuel order h ((a.start.getD (some epoch)).getD epoch) stop (some step) none
      = ⟨grid ((a.start.getD (some epoch)).getD epoch) step n, .done⟩ := by
    unfold numCore
    cases hmm : march h stop fuel ((a.start.getD (some epoch)).getD epoch) with
    | none => simp [hmm] at hm
    | some more =>
      simp only [hmm, Option.map_some, Option.some.injEq] at hm
      simp only [hm]
      unfold ephemIter
      simp only [grid_head, grid_getLast, Bool.false_eq_true, if_false, Option.getD_none]
      apply loop_up _ _ _ step n fuel hs h1 h2 _ hf2
      intro k hk
      have hw := grid_within_forward hs h1 (mem_grid.mpr ⟨k, hk, rfl⟩)
      exact interpOk_of (grid_head _ _ _) (grid_getLast _ _ _) (by rw [grid_length]; exact hord) hw.1 hw.2
  cases hs' : a.start with
  | none => simp only [hs'] at hcore ⊢; rw [hcore]
  | some v =>
    cases v with
    | none => exact absurd hs' hstart
    | some x => simp only [hs'] at hcore ⊢; rw [hcore]

example : numIter 40 8 0 60 { stop := some (.at 420), step := some (some 45) }
    = (true, ⟨[0, 45, 90, 135, 180, 225, 270, 315, 360, 405], .done⟩) := by decide

/-! ## independence from call history -/

/-- what the propagator holds is current: only Sgp4 keeps something derived from the orbit (its satellite record)
across calls without re-deriving it; nothing is bound for an ephemeris -/
def Inv {V : Type} (w : World V) (s : St V) : Prop :=
  match s.bound with
  | none => True
  | some (j, v) => w.kind ≠ .ephem ∧ (w.kind = .sgp4 → v = cur w s j)

theorem inv_fresh {V : Type} (w : World V) (prev : List (Option Int)) (ver : Nat → Nat) :
    Inv w ({ prev := prev, ver := ver } : St V) := trivial

theorem bind_ver {V : Type} (w : World V) (s : St V) (i : Nat) : (Iter.bind w s i).ver = s.ver := by
  unfold Iter.bind; split
  · rfl
  · split <;> rfl

theorem bind_prev {V : Type} (w : World V) (s : St V) (i : Nat) : (Iter.bind w s i).prev = s.prev := by
  unfold Iter.bind; split
  · rfl
  · split <;> rfl

theorem bind_inv {V : Type} (w : World V) (s : St V) (i : Nat) (h : Inv w s) : Inv w (Iter.bind w s i) := by
  unfold Iter.bind
  split
  · exact h
  · split
    · exact h
    · next hk _ => exact ⟨hk, fun _ => rfl⟩

/-- after `Orbit.propagate` / `Orbit.iter` have (re)bound the propagator, it works from the CURRENT value of the receiver —
whatever was bound before, for the setters that keep the object (Sgp4, NonePropagator) and for those that copy -/
theorem boundVal_bind {V : Type} (w : World V) (s : St V) (i : Nat) (h : Inv w s) :
    boundVal w (Iter.bind w s i) i = cur w s i := by
  have hcur : ∀ s' : St V, s'.ver = s.ver → cur w s' i = cur w s i := by intro s' e; simp [cur, e]
  by_cases hn : w.kind = .none
  · unfold boundVal
    simp only [hn, if_true]; exact hcur _ (bind_ver w s i)
  · by_cases he : w.kind = .ephem
    · have hb : Iter.bind w s i = s := by simp [Iter.bind, he]
      rw [hb]
      unfold boundVal
      simp only [hn, if_false]
      unfold Inv at h
      cases hbd : s.bound with
      | none => rfl
      | some jv => rw [hbd] at h; exact absurd he h.1
    · by_cases hid : (w.kind.ident && (s.bound.map (·.1) == some i)) = true
      · have hb : Iter.bind w s i = s := by simp [Iter.bind, he, hid]
        rw [hb]
        unfold boundVal
        simp only [hn, if_false]
        unfold Inv at h
        cases hbd : s.bound with
        | none => rfl
        | some jv =>
          obtain ⟨j, v⟩ := jv
          rw [hbd] at h hid
          simp only [Option.map_some, Bool.and_eq_true, beq_iff_eq, Option.some.injEq] at hid
          have hs : w.kind = .sgp4 := by
            have := hid.1
            cases hk : w.kind <;> simp_all [Kind.ident]
          simp only [h.2 hs, hid.2]
      · have hb : Iter.bind w s i = { s with bound := some (i, cur w s i), rebinds := s.rebinds + 1 } := by
          simp [Iter.bind, he, hid]
        rw [hb]
        simp [boundVal, hn]

/-- calls other than an in-place modification under Sgp4 keep the invariant -/
theorem exec_inv {V R : Type} (w : World V) (f : V → Int → R) (cross : V → Int → Int → Bool) (fuel : Nat) (s : St V) (c : Call)
    (hm : w.kind = .sgp4 → c.isModify = false) (h : Inv w s) : Inv w (exec w f cross fuel s c).1 := by
  cases c with
  | propagate i d => exact bind_inv w s i h
  | iter i a ls consume =>
    unfold exec
    simp only
    split
    · exact bind_inv w s i h
    · have := bind_inv w s i h
      unfold Inv at this ⊢
      exact this
  | modify i =>
    unfold exec Inv at *
    simp only
    cases hb : s.bound with
    | none => trivial
    | some jv =>
      rw [hb] at h
      refine ⟨h.1, fun hs => ?_⟩
      have := hm hs
      simp [Call.isModify] at this

theorem runHist_inv {V R : Type} (w : World V) (f : V → Int → R) (cross : V → Int → Int → Bool) (fuel : Nat) (hist : List Call)
    (hm : w.kind = .sgp4 → ∀ c ∈ hist, c.isModify = false) :
    ∀ s : St V, Inv w s → Inv w (runHist (R := R) w f cross fuel s hist) := by
  induction hist with
  | nil => intro s h; exact h
  | cons c r ih =>
    intro s h
    exact ih (fun hs c' hc' => hm hs c' (by simp [hc'])) _ (exec_inv w f cross fuel s c (fun hs => hm hs c (by simp)) h)

theorem getD_setPrev_none (prev : List (Option Int)) (ls : List Nat) (j : Nat) (hj : j ∈ ls) : (setPrev prev ls none).getD j none = none := by
  unfold setPrev
  by_cases hlt : j < prev.length
  · simp [List.getD, hlt, hj]
  · simp [List.getD, hlt]

theorem events_nil (cross : Int → Int → Bool) (p : Option Int) : events cross p [] = [] := by cases p <;> rfl

/-- fresh objects holding the same orbit values: nothing bound, listeners empty -/
def freshOf {V : Type} (s : St V) : St V := { prev := List.replicate s.prev.length none, ver := s.ver }

/-- **propagate_pure** (one call): the observable result of a `propagate` or `iter` call — dates, end, states, events of every
passed listener — is the same from ANY state of the shared objects (propagator bound to any orbit, listeners holding anything)
as from fresh objects with the same orbit values. -/
theorem call_result_pure {V R : Type} (w : World V) (f : V → Int → R) (cross : V → Int → Int → Bool) (fuel : Nat) (s : St V)
    (c : Call) (h : Inv w s) :
    (exec w f cross fuel s c).2 = (exec w f cross fuel (freshOf s) c).2 := by
  have hfresh : Inv w (freshOf s) := trivial
  have hcur : ∀ i, cur w (freshOf s) i = cur w s i := fun i => rfl
  cases c with
  | propagate i d =>
    simp only [exec, boundVal_bind w s i h, boundVal_bind w _ i hfresh, hcur]
  | modify i => rfl
  | iter i a ls consume =>
    unfold exec
    simp only [boundVal_bind w s i h, boundVal_bind w _ i hfresh, hcur, bind_prev]
    by_cases hc : consume = 0
    · simp [hc]
    · simp only [hc, if_false]
      cases hcl : (iterRun w fuel i a).1 with
      | true =>
        have : iterRun w fuel i a = (true, (iterRun w fuel i a).2) := by rw [← hcl]
        rw [this]
        simp only [if_true]
        congr 1
        apply List.map_congr_left
        intro j hj
        rw [getD_setPrev_none _ _ _ hj, getD_setPrev_none _ _ _ hj]
      | false =>
        have : iterRun w fuel i a = (false, (iterRun w fuel i a).2) := by rw [← hcl]
        rw [this]
        simp only [List.map_nil, Bool.false_eq_true, if_false, events_nil]

/-- **propagate_pure**: for EVERY history of `propagate` / `iter` calls and of in-place modifications of the orbits by the user
(any orbits sharing the propagator, any listeners, iterators consumed fully, partly or not at all) the result of the next call
equals the result of that call on fresh objects holding the current orbit values — provided, for Sgp4, that the history contains
no in-place modification (`Witness/C08.lean: sgp4_stale_after_modify` shows the hypothesis is needed: known finding). -/
theorem propagate_pure {V R : Type} (w : World V) (f : V → Int → R) (cross : V → Int → Int → Bool) (fuel nls : Nat)
    (hist : List Call) (c : Call) (hm : w.kind = .sgp4 → ∀ c ∈ hist, c.isModify = false) :
    let s0 : St V := { prev := List.replicate nls none }
    let s := runHist (R := R) w f cross fuel s0 hist
    (exec w f cross fuel s c).2 = (exec w f cross fuel (freshOf s) c).2 := by
  intro s0 s
  exact call_result_pure w f cross fuel s c (runHist_inv w f cross fuel hist hm s0 trivial)

/-- every yielded state is what a direct propagation of the receiver, as it is now, to that date gives
(in the model: `f (current value of orbit i) date`) -/
theorem iter_eq_map_propagate {V R : Type} (w : World V) (f : V → Int → R) (cross : V → Int → Int → Bool) (fuel : Nat) (s : St V)
    (i : Nat) (a : Args) (ls : List Nat) (consume : Nat) (h : Inv w s) :
    (exec w f cross fuel s (.iter i a ls consume)).2.states
      = (exec w f cross fuel s (.iter i a ls consume)).2.run.dates.map (f (cur w s i)) := by
  unfold exec
  simp only [boundVal_bind w s i h]
  first | rfl | (split <;> rfl)

/-! ## ties to the source regenerated on every run -/

def kindName : Kind → String
  | .sgp4 => "sgp4" | .kepler => "kepler" | .j2 => "j2" | .none => "none" | .num => "num" | .cw => "cw" | .ephem => "ephem"

/-- which `orbit` setters keep the object and which copy it, as read from the source text on this run -/
theorem ident_table_matches (k : Kind) : Generated.orbitSetterKeepsObject.lookup (kindName k) = some k.ident := by
  cases k <;> decide

/-- the interpolation order the numerical iterator pads to is `Ephem.DEFAULT_ORDER` of the source -/
theorem order_matches : ({ kind := .num, store := fun i _ => i, epoch := fun _ => 0 } : World Nat).order = Generated.ephemDefaultOrder := by
  decide

end BeyondVerif.C08
