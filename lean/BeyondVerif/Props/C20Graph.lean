import BeyondVerif.Props.C20Forest
import BeyondVerif.Lemmas.NodeGraph
import Mathlib.Data.List.Perm.Basic

/-!
# C20 — arbitrary graphs (cycles, repeated links) and trees given in ANY order of their edges

What `Node.__add__` / `Node._update` / `Node.path` guarantee when the links do NOT form a forest — the
characterisation of the open finding C20-cyclic-nonshortest — and the reusable corollaries C18 imports.

For EVERY history of `+` without a self-link (any graph, any order, either orientation, links repeated):

* `graph_routes_total`  : **a route is always found, and only then.**  Every connected pair gets a path that is a chain
  of inserted links from `s` to `t` WITHOUT REPEATED NODE; every unconnected pair is `Unknown`.  The `while True` loop of
  `path` terminates (any fuel at least the number of hops returns that path): no `KeyError`, no endless walk.
* `graph_path_simple`   : whatever `path` returns is simple, and has at most `n` nodes (`n - 1` hops) on `n` nodes.
  Hence the detour of a non-shortest route is bounded: hops ≤ n - 1 (and ≥ the graph distance ≥ 2 when it is not shortest),
  stretch ≤ (n - 1) / 2.  `Witness/C20.lean` shows that the bound is attained up to the cases enumerated there.
* `graph_build_succeeds`, `graph_routes_total_bounded` : explicit fuel (`n` nodes: `fuel ≥ n`).
* `graph_steps_bound`   : the walk takes at most as many hops as the `steps` field of the source's entry says
  (the field may be stale, i.e. larger than the walk, which may be larger than the distance).

* `shortest_if_steps_not_stale` : the returned path is a shortest chain whenever the `steps` field of the SOURCE's entry
  is not stale (equals the graph distance); a non-shortest route needs a stale entry at its source.

What is NOT true in general — "the path is a shortest one" — holds for forest histories (`forest_routes_exact`) and for
every history on ≤ 4 nodes (`Props/C20Small.lean`); the 5-ring is the boundary (`Witness/C20.lean`).

Trees in any order (`ForestHist` asks each link to join two components AT THE TIME IT IS INSERTED; the components may be
of any size, so a tree may be assembled from sub-trees, not only grown leaf by leaf):

* `forestHist_perm`              : being a forest history does not depend on the order of the links.
* `tree_any_order_routes_exact`  : for every ordering (and orientation of each `+`) of the links of a forest, routing is
  exact — the corollary C18 uses for an arbitrary tree kernel.
* `tree_any_order_routingExact`  : the same for the executable check.
-/
namespace BeyondVerif.C20
open BeyondVerif.Node

theorem noself_reverse {hist : List (Nat × Nat)} (hns : ∀ e ∈ hist, e.1 ≠ e.2) :
    ∀ e ∈ hist.reverse, e.1 ≠ e.2 := fun e he => hns e (List.mem_reverse.mp he)

theorem path_enough {g : Graph} {fuel s t : Nat} {p : List Nat} (h : path fuel g s t = .ok p) :
    ∀ fuel', p.length ≤ fuel' + 1 → path fuel' g s t = .ok p := by
  intro fuel' hf
  unfold path at h ⊢
  split
  · next hts => rw [if_pos hts] at h; exact h
  · next hts =>
    rw [if_neg hts] at h
    split at h
    · cases h
    · next r hr =>
      exact (walk_enough g t _ s [s] p h).2 fuel' (by simpa using hf)

/-- **A route is always found, and only then — any graph.**  For every history of links without a self-link (cycles,
repeated links, any order, either orientation) and whatever fuel `build` returned with: a connected pair is routed along
a chain of inserted links from `s` to `t` without repeated node, returned for every walk fuel at least its number of
hops; an unconnected pair is reported `Unknown` for every fuel. -/
theorem graph_routes_total (fuel : Nat) (hist : List (Nat × Nat)) (g : Graph)
    (hns : ∀ e ∈ hist, e.1 ≠ e.2) (hb : build fuel hist = some g) (s t : Nat) :
    (Connected hist s t →
      ∃ p : List Nat, p.head? = some s ∧ p.getLast? = some t ∧ p.IsChain (linked hist) ∧ p.Nodup ∧
        ∀ fuel', p.length ≤ fuel' + 1 → path fuel' g s t = .ok p) ∧
    (¬ Connected hist s t → ∀ fuel', path fuel' g s t = .unknown) := by
  have hb' : build fuel hist.reverse.reverse = some g := by rw [List.reverse_reverse]; exact hb
  have hG := ginv_build fuel hist.reverse g (noself_reverse hns) hb'
  obtain ⟨_, hcomp, hsound⟩ := build_total fuel hist.reverse g hb'
  constructor
  · intro hc
    by_cases hts : t = s
    · subst hts
      refine ⟨[t], rfl, rfl, by simp, by simp, ?_⟩
      intro fuel' _
      unfold path; rw [if_pos rfl]
    · obtain ⟨r, hr⟩ := hcomp s t ((conn_reverse hist s t).mpr hc) hts
      obtain ⟨p, h1, h2, h3, _, h5⟩ := path_desc hG.desc s t r hts hr
      have hp := h5 p.length (by omega)
      exact ⟨p, h1, h2, (path_valid_chain fuel _ hist g hb s t p hp).2.2, h3, h5⟩
  · intro hnc fuel'
    have hts : t ≠ s := by
      intro e; subst e; exact hnc Relation.ReflTransGen.refl
    rw [unknown_iff_no_route]
    refine ⟨hts, ?_⟩
    cases hl : lookupRoute (get g s).routes t with
    | none => rfl
    | some r => exact absurd ((conn_reverse hist s t).mp (hsound s t r hl)) hnc

/-- **Enough fuel, any graph.**  If every endpoint occurs in `nodes`, `build` returns for every `fuel ≥ nodes.length`. -/
theorem graph_build_succeeds (hist : List (Nat × Nat)) (nodes : List Nat)
    (hnodes : ∀ e ∈ hist, e.1 ∈ nodes ∧ e.2 ∈ nodes) (fuel : Nat) (hfuel : nodes.length ≤ fuel) :
    ∃ g, build fuel hist = some g := by
  have := build_some_any nodes hfuel hist.reverse (fun e he => hnodes e (List.mem_reverse.mp he))
  rw [List.reverse_reverse] at this
  exact this

theorem chain_lt {hist : List (Nat × Nat)} {n : Nat} (hn : ∀ e ∈ hist, e.1 < n ∧ e.2 < n) {s : Nat} (hs : s < n)
    {p : List Nat} (hh : p.head? = some s) (hc : p.IsChain (linked hist)) : ∀ x ∈ p, x < n := by
  cases p with
  | nil => simp at hh
  | cons s' l =>
    simp only [List.head?_cons, Option.some.injEq] at hh
    subst hh
    intro x hx
    rcases List.mem_cons.mp hx with e | hx
    · rw [e]; exact hs
    · have hc' : (s' :: l).IsChain (Lk hist.reverse) :=
        List.IsChain.imp (fun x y hxy => (lk_reverse hist x y).mpr hxy) hc
      obtain ⟨y, hy⟩ := chain_endpoints l s' hc' x hx
      exact lk_lt (fun e he => hn e (List.mem_reverse.mp he)) hy

/-- **Whatever `path` returns is a simple path** — any graph, any fuels: no node is repeated, so on `n` nodes the path
has at most `n` nodes, i.e. at most `n - 1` hops: the detour of a non-shortest route (finding C20-cyclic-nonshortest) is
bounded by the number of nodes. -/
theorem graph_path_simple (fuel fuel' : Nat) (hist : List (Nat × Nat)) (g : Graph)
    (hns : ∀ e ∈ hist, e.1 ≠ e.2) (hb : build fuel hist = some g) (s t : Nat) (p : List Nat)
    (hp : path fuel' g s t = .ok p) :
    p.Nodup ∧ ∀ n, (∀ e ∈ hist, e.1 < n ∧ e.2 < n) → s < n → p.length ≤ n := by
  obtain ⟨h1, h2⟩ := graph_routes_total fuel hist g hns hb s t
  have hc : Connected hist s t := by
    by_contra hnc
    rw [h2 hnc fuel'] at hp; cases hp
  obtain ⟨p0, _, _, _, hnd, hall⟩ := h1 hc
  have e1 := hall (max p.length p0.length) (by omega)
  have e2 := path_enough hp (max p.length p0.length) (by omega)
  rw [e1] at e2
  cases e2
  refine ⟨hnd, ?_⟩
  intro n hn hs
  obtain ⟨hh, _, hch⟩ := path_valid_chain fuel fuel' hist g hb s t _ hp
  exact nodup_length_le hnd (chain_lt hn hs hh hch)

/-- **Explicit fuel bounds, any graph.**  For a history on nodes `0..n-1` without self-link: `build` returns for every
`fuel ≥ n`, and with walk fuel `fuel' ≥ n - 1` every connected pair gets a simple chain of inserted links, every
unconnected pair `Unknown`. -/
theorem graph_routes_total_bounded (n : Nat) (hist : List (Nat × Nat)) (hns : ∀ e ∈ hist, e.1 ≠ e.2)
    (hn : ∀ e ∈ hist, e.1 < n ∧ e.2 < n) (fuel fuel' : Nat) (hfuel : n ≤ fuel) (hfuel' : n ≤ fuel' + 1) :
    ∃ g, build fuel hist = some g ∧ ∀ s t, s < n →
      (Connected hist s t →
        ∃ p : List Nat, p.head? = some s ∧ p.getLast? = some t ∧ p.IsChain (linked hist) ∧ p.Nodup ∧
          path fuel' g s t = .ok p) ∧
      (¬ Connected hist s t → path fuel' g s t = .unknown) := by
  obtain ⟨g, hb⟩ := graph_build_succeeds hist (List.range n)
    (fun e he => ⟨List.mem_range.mpr (hn e he).1, List.mem_range.mpr (hn e he).2⟩) fuel (by simpa using hfuel)
  refine ⟨g, hb, ?_⟩
  intro s t hs
  obtain ⟨h1, h2⟩ := graph_routes_total fuel hist g hns hb s t
  refine ⟨?_, fun hnc => h2 hnc fuel'⟩
  intro hc
  obtain ⟨p, p1, p2, p3, p4, p5⟩ := h1 hc
  have hlen : p.length ≤ n := nodup_length_le p4 (chain_lt hn hs p1 p3)
  exact ⟨p, p1, p2, p3, p4, p5 fuel' (by omega)⟩

/-- **The walk is never longer than the table says.**  If the table of `s` holds `(t, d, k)` the returned path has at
most `k` hops (it may have fewer: `k` can be stale). -/
theorem graph_steps_bound (fuel fuel' : Nat) (hist : List (Nat × Nat)) (g : Graph)
    (hns : ∀ e ∈ hist, e.1 ≠ e.2) (hb : build fuel hist = some g) (s t : Nat) (r : Route) (hts : t ≠ s)
    (hr : lookupRoute (get g s).routes t = some r) (p : List Nat) (hp : path fuel' g s t = .ok p) :
    p.length ≤ r.steps + 1 := by
  have hG := ginv_build fuel hist.reverse g (noself_reverse hns) (by rw [List.reverse_reverse]; exact hb)
  obtain ⟨p0, _, _, _, hlen, hall⟩ := path_desc hG.desc s t r hts hr
  have e1 := hall (max p.length p0.length) (by omega)
  have e2 := path_enough hp (max p.length p0.length) (by omega)
  rw [e1] at e2
  cases e2
  exact hlen

/-- **When the returned path IS a shortest one, any graph.**  If the `steps` field of the source's entry is not stale —
no chain of links from `s` to `t` has fewer than `steps` hops — the returned path is a shortest chain.  (Always:
hops of the returned path ≤ `steps`, `graph_steps_bound`.  A non-shortest route therefore needs a stale entry at its
SOURCE: one that was computed, when the source was last refreshed, from a neighbour whose own table had not yet been
refreshed after the link that created the shorter chain — `Witness/C20.lean: pentagon_not_shortest`, entry `(3, 0, 3)` of
node 2 at distance 2.)  In a forest no entry is ever stale (`forest_tables_exact`). -/
theorem shortest_if_steps_not_stale (fuel fuel' : Nat) (hist : List (Nat × Nat)) (g : Graph)
    (hns : ∀ e ∈ hist, e.1 ≠ e.2) (hb : build fuel hist = some g) (s t : Nat) (r : Route) (hts : t ≠ s)
    (hr : lookupRoute (get g s).routes t = some r)
    (hfresh : ∀ q : List Nat, q.head? = some s → q.getLast? = some t → q.IsChain (linked hist) → r.steps + 1 ≤ q.length)
    (p : List Nat) (hp : path fuel' g s t = .ok p) :
    ∀ q : List Nat, q.head? = some s → q.getLast? = some t → q.IsChain (linked hist) → p.length ≤ q.length := by
  intro q q1 q2 q3
  have := graph_steps_bound fuel fuel' hist g hns hb s t r hts hr p hp
  have := hfresh q q1 q2 q3
  omega

/-! ## trees (forests) given in any order of their links -/

theorem lk_perm {h h' : List (Nat × Nat)} (hp : h.Perm h') (u v : Nat) : Lk h u v ↔ Lk h' u v := by
  unfold Lk; rw [hp.mem_iff, hp.mem_iff]

theorem conn_perm {h h' : List (Nat × Nat)} (hp : h.Perm h') (u v : Nat) : Conn h u v ↔ Conn h' u v := by
  constructor
  · exact Relation.ReflTransGen.mono (fun x y hxy => (lk_perm hp x y).mp hxy) u v
  · exact Relation.ReflTransGen.mono (fun x y hxy => (lk_perm hp x y).mpr hxy) u v

theorem forest_perm {h h' : List (Nat × Nat)} (hp : h.Perm h') : Forest h → Forest h' := by
  induction hp with
  | nil => exact id
  | cons x hp ih =>
    intro hf
    exact ⟨fun hc => hf.1 ((conn_perm hp _ _).mpr hc), ih hf.2⟩
  | swap x y l =>
    obtain ⟨x1, x2⟩ := x
    obtain ⟨y1, y2⟩ := y
    intro hf
    obtain ⟨hy, hx, hl⟩ := hf
    simp only at hy hx
    refine ⟨?_, ?_, hl⟩
    · simp only
      intro hc
      rcases conn_cons.mp hc with h0 | ⟨h1, h2⟩ | ⟨h1, h2⟩
      · exact hx h0
      · exact hy (conn_cons.mpr (Or.inr (Or.inl ⟨h1.symm, h2.symm⟩)))
      · exact hy (conn_cons.mpr (Or.inr (Or.inr ⟨h2, h1⟩)))
    · simp only
      intro hc
      exact hy hc.mono
  | trans _ _ ih1 ih2 => exact fun hf => ih2 (ih1 hf)

/-- **Being a forest history does not depend on the order of the links**: if each link of `h` joined two components
when it was inserted, the same holds for the links taken in any other order. -/
theorem forestHist_perm {h h' : List (Nat × Nat)} (hp : h.Perm h') (hf : ForestHist h) : ForestHist h' := by
  have hp' : h.reverse.Perm h'.reverse := (List.reverse_perm h).trans (hp.trans (List.reverse_perm h').symm)
  have := forestHist_of_forest h'.reverse (forest_perm hp' (forest_reverse hf))
  rw [List.reverse_reverse] at this
  exact this

theorem connected_perm {h h' : List (Nat × Nat)} (hp : h.Perm h') (s t : Nat) :
    Connected h s t ↔ Connected h' s t := by
  rw [← conn_reverse, ← conn_reverse]
  exact conn_perm ((List.reverse_perm h).trans (hp.trans (List.reverse_perm h').symm)) s t

/-- **A tree (forest) may be registered in ANY order of its links.**  `es` is a forest history in one order (e.g. grown
leaf by leaf from a root); `es'` is any permutation of it — sub-trees assembled separately and joined later, children
before parents — with either orientation fixed per link.  Then routing on `es'` is exact: every connected pair is routed
along the simple chain of links (unique, `forest_path_unique`), every unconnected pair is `Unknown`. -/
theorem tree_any_order_routes_exact (fuel : Nat) (es es' : List (Nat × Nat)) (g : Graph)
    (hf : ForestHist es) (hp : es'.Perm es) (hb : build fuel es' = some g) (s t : Nat) :
    (Connected es s t →
      ∃ p : List Nat, p.head? = some s ∧ p.getLast? = some t ∧ p.IsChain (linked es) ∧ p.Nodup ∧
        ∀ fuel', p.length ≤ fuel' + 1 → path fuel' g s t = .ok p) ∧
    (¬ Connected es s t → ∀ fuel', path fuel' g s t = .unknown) := by
  obtain ⟨h1, h2⟩ := forest_routes_exact fuel es' g (forestHist_perm hp.symm hf) hb s t
  constructor
  · intro hc
    obtain ⟨p, p1, p2, p3, p4, p5⟩ := h1 ((connected_perm hp s t).mpr hc)
    refine ⟨p, p1, p2, ?_, p4, p5⟩
    refine List.IsChain.imp ?_ p3
    intro x y hxy
    unfold linked at hxy ⊢
    rw [hp.mem_iff, hp.mem_iff] at hxy
    exact hxy
  · intro hnc
    exact h2 (fun hc => hnc ((connected_perm hp s t).mp hc))

/-- the executable exactness check of `Model/NodeSpec.lean` holds for every history that is a forest history on nodes
`0..n-1` -/
theorem routingExact_of_forestHist (n : Nat) (hist : List (Nat × Nat)) (hf : ForestHist hist)
    (hn : ∀ e ∈ hist, e.1 < n ∧ e.2 < n) : routingExact n hist = true := by
  have hF := forest_reverse hf
  have hn' : ∀ e ∈ hist.reverse, e.1 < n ∧ e.2 < n := fun e he => hn e (List.mem_reverse.mp he)
  obtain ⟨g, hb⟩ := build_some (List.range n) (fuel := n + 2) (by simp) hist.reverse hF
    (fun e he => ⟨List.mem_range.mpr (hn' e he).1, List.mem_range.mpr (hn' e he).2⟩)
  have hinv := compInv_components n hist.reverse hn'
  have hex := build_exact (n + 2) hist.reverse g hF hb
  rw [List.reverse_reverse] at hb hinv
  unfold routingExact
  rw [hb]
  simp only [List.all_eq_true, List.mem_range]
  intro s hs t ht
  rw [path_of_exact hF hex]
  split
  · next hcomp =>
    have hc : Conn hist.reverse s t := (hinv.2 s t hs ht).mp hcomp
    unfold pathSpec
    by_cases hts : t = s
    · subst hts
      rw [if_pos rfl]
      simp [goodPath, chainB]
    · have hd := dist_lt hF hn' hs hc
      rw [if_neg hts, if_pos hc, if_neg (by omega)]
      obtain ⟨p1, p2, p3, p4, _⟩ := pathChain_props hF hc
      simp only [goodPath, Bool.and_eq_true, beq_iff_eq, decide_eq_true_eq]
      exact ⟨⟨⟨p1, p2⟩, (chainB_iff hist _).mpr p3⟩, p4⟩
  · next hcomp =>
    have hnc : ¬ Conn hist.reverse s t := fun hc => hcomp ((hinv.2 s t hs ht).mpr hc)
    have hts : ¬ t = s := by
      intro e; subst e; exact hnc (Conn.refl _ _)
    unfold pathSpec
    rw [if_neg hts, if_neg hnc]
    rfl

/-- **the executable check, any order**: if `es` passes the executable forest test on `n` nodes, every permutation of it
passes the executable exactness check (fuel `n + 2`) -/
theorem tree_any_order_routingExact (n : Nat) (es es' : List (Nat × Nat)) (h : isForestHist n es = true)
    (hp : es'.Perm es) : routingExact n es' = true := by
  obtain ⟨hf, hn⟩ := forestHist_of_isForestHist h
  exact routingExact_of_forestHist n es' (forestHist_perm hp.symm hf) (fun e he => hn e (hp.mem_iff.mp he))

/-! ### non-vacuity -/

/-- a 5-ring with a chord and a repeated link: hypotheses of `graph_routes_total` (no self-link) -/
example : ∃ g, build 7 [(0, 1), (0, 2), (1, 3), (2, 4), (3, 4), (4, 0), (0, 1)] = some g ∧
    path 6 g 2 3 = .ok [2, 4, 3] ∧ (∀ e ∈ [(0, 1), (0, 2), (1, 3), (2, 4), (3, 4), (4, 0), (0, 1)], e.1 ≠ e.2) := by
  refine ⟨_, rfl, ?_, ?_⟩ <;> decide

/-- the tree 0–1–2–3 with a branch 1–4, registered children first: a permutation of a leaf-by-leaf history -/
example : ForestHist [(0, 1), (1, 2), (2, 3), (1, 4)] ∧
    [(2, 3), (1, 4), (0, 1), (1, 2)].Perm [(0, 1), (1, 2), (2, 3), (1, 4)] := by
  refine ⟨(forestHist_of_isForestHist (n := 5) (by decide)).1, ?_⟩
  decide

end BeyondVerif.C20
