import BeyondVerif.Lemmas.Tle

/-!
# C12 — TLE text round-trips and is validated

Property theorems about the model `Model/Tle.lean` of `beyond/io/tle.py` (column slices, checksum constants and the
writer's field layout regenerated from the source into `Generated/TleColumns.lean` on every run; the model is tied
to the code by an exact differential correspondence run).
-/
namespace BeyondVerif.C12
open BeyondVerif.Tle

/-! ## Clause 3 — a line whose checksum, length or line number is wrong is rejected -/

/-- **checksum detects every single-digit error**: for EVERY line, every position below 68 that holds a digit and
every different digit put there, the modulo-10 checksum changes. -/
theorem checksum_detects_digit_error (line : Str) (i : Nat) (c d : Char) (k : Nat)
    (hi : i < 68) (hc : line[i]? = some c) (hcd : isDigit c = true) (hd : isDigit d = true) (hne : d ≠ c)
    (hk : checksum line = some k) : ∃ k', checksum (line.set i d) = some k' ∧ k' ≠ k := by
  unfold checksum at hk ⊢
  simp only [Generated.Tle.ckLen] at hk ⊢
  rw [List.take_set]
  cases hs : sumVals (List.take 68 line) with
  | none => rw [hs] at hk; simp at hk
  | some s =>
    rw [hs] at hk
    simp at hk
    have hc' : (List.take 68 line)[i]? = some c := by rw [List.getElem?_take]; simp [hi, hc]
    obtain ⟨hle, hset⟩ := sumVals_set _ i c d s hc' hcd hd hs
    refine ⟨(s - digitVal c + digitVal d) % 10, by rw [hset]; rfl, ?_⟩
    have h1 := digitVal_lt hcd
    have h2 := digitVal_lt hd
    have h3 : digitVal d ≠ digitVal c := by
      intro h
      apply hne
      rw [← digitChar_digitVal hd, ← digitChar_digitVal hcd, h]
    omega

example : checksum "1 25544U 98067A   08264.51782528 -.00002182  00000-0 -11606-4 0  2927".toList = some 7 := by decide

/-- what `_check_validity` demands of one line: 69 characters once stripped, and the 69th is the checksum digit -/
def LineOk (l : Str) : Prop :=
  (strip l).length = 69 ∧ ∃ c, checksum (strip l) = some c ∧ natStr c = slice (strip l) (68, 69)

theorem checkLine_ok_iff (i : Nat) (l : Str) : checkLine i l = .ok () ↔ LineOk l := by
  unfold checkLine LineOk
  simp only [Generated.Tle.lineLen, Generated.Tle.ckPos]
  by_cases hlen : (strip l).length = 69
  · simp only [hlen, ne_eq, not_true_eq_false, if_false, true_and]
    cases hck : checksum (strip l) with
    | none => simp
    | some c =>
      simp only [Option.some.injEq, exists_eq_left', Nat.reduceAdd]
      by_cases h : natStr c = slice (strip l) (68, 69) <;> simp [h]
  · simp [hlen]

theorem checkLines_ok_iff (i : Nat) (ls : List Str) : checkLines i ls = .ok () ↔ ∀ l ∈ ls, LineOk l := by
  induction ls generalizing i with
  | nil => simp [checkLines]
  | cons l ls ih =>
    simp only [checkLines, List.mem_cons, forall_eq_or_imp]
    rw [← checkLine_ok_iff i l, ← ih (i + 1)]
    cases h : checkLine i l with
    | error e => simp [bind, Except.bind]
    | ok u => simp [bind, Except.bind]

/-- **length, line number and checksum are all checked**: `_check_validity` accepts a text exactly when it has at
least two lines, the first (second) one starts — blanks aside — with `"1 "` (`"2 "`), and EVERY line of the text is,
once stripped, 69 characters long with its 69th character equal to the checksum of the first 68. -/
theorem valid_iff (text : List Str) : checkValidity text = .ok () ↔
    ∃ t0 t1 rest, text = t0 :: t1 :: rest ∧ startsWith (lstrip t0) ['1', ' '] = true ∧
      startsWith (lstrip t1) ['2', ' '] = true ∧ ∀ l ∈ text, LineOk l := by
  unfold checkValidity
  match text with
  | [] => simp
  | [t0] =>
    simp only [List.cons.injEq, List.nil_eq, reduceCtorEq, and_false, false_and, exists_false, iff_false]
    split <;> simp
  | t0 :: t1 :: rest =>
    by_cases h0 : startsWith (lstrip t0) ['1', ' '] = true
    · by_cases h1 : startsWith (lstrip t1) ['2', ' '] = true
      · simp only [h0, h1, Bool.not_true, Bool.false_eq_true, if_false]
        rw [checkLines_ok_iff]
        constructor
        · intro h; exact ⟨t0, t1, rest, rfl, h0, h1, h⟩
        · rintro ⟨_, _, _, _, _, _, h⟩; exact h
      · simp only [h0, h1, Bool.not_true, Bool.false_eq_true, if_false, Bool.not_false, if_true]
        constructor
        · intro h; cases h
        · rintro ⟨_, _, _, heq, _, h, _⟩; cases heq; exact absurd h h1
    · simp only [h0, Bool.not_false, if_true]
      constructor
      · intro h; cases h
      · rintro ⟨_, _, _, heq, h, _, _⟩; cases heq; exact absurd h h0

/-- wrong **length**: a text in which some line, once stripped, is not 69 characters long is rejected -/
theorem length_checked (text : List Str) (l : Str) (hl : l ∈ text) (hlen : (strip l).length ≠ 69) :
    checkValidity text ≠ .ok () := by
  intro h
  obtain ⟨_, _, _, _, _, _, hall⟩ := (valid_iff text).1 h
  exact hlen (hall l hl).1

/-- wrong **line number**: a first line that does not start with `1 ` or a second line that does not start with `2 ` -/
theorem line_number_checked (t0 t1 : Str) (rest : List Str)
    (h : startsWith (lstrip t0) ['1', ' '] = false ∨ startsWith (lstrip t1) ['2', ' '] = false) :
    checkValidity (t0 :: t1 :: rest) = .error .lineNumber := by
  unfold checkValidity
  rcases h with h | h
  · simp [h]
  · by_cases h0 : startsWith (lstrip t0) ['1', ' '] = true <;> simp [h0, h]

/-- **every corruption of a single digit is rejected**: take ANY 69-character line that passes the per-line check,
ANY of its 69 positions that holds a digit (this includes the line number in column 1 and the checksum in
column 69) and ANY different digit: the corrupted line does not pass. -/
theorem digit_corruption_rejected (l : Str) (i : Nat) (c d : Char)
    (hlen : l.length = 69) (hok : LineOk l) (hc : l[i]? = some c)
    (hcd : isDigit c = true) (hd : isDigit d = true) (hne : d ≠ c) : ¬ LineOk (l.set i d) := by
  obtain ⟨hslen, k, hk, hks⟩ := hok
  obtain ⟨hs, _⟩ := strip_eq_of_length (hslen.trans hlen.symm)
  rw [hs] at hk hks
  have hi : i < 69 := by
    rcases Nat.lt_or_ge i 69 with h | h
    · exact h
    · rw [List.getElem?_eq_none (by omega)] at hc; cases hc
  -- the corrupted line still has no surrounding blank
  have hs' : strip (l.set i d) = l.set i d := by
    rw [strip_eq_iff] at hs ⊢
    obtain ⟨h0, h1⟩ := hs
    have hdw := isWs_of_isDigit hd
    constructor
    · intro x hx
      rw [List.getElem?_set] at hx
      split at hx
      · split at hx
        · cases hx; exact hdw
        · cases hx
      · exact h0 x hx
    · intro x hx
      rw [List.length_set, List.getElem?_set] at hx
      split at hx
      · split at hx
        · cases hx; exact hdw
        · cases hx
      · exact h1 x hx
  rintro ⟨_, k', hk', hks'⟩
  rw [hs'] at hk' hks'
  rw [slice_one] at hks hks'
  rcases Nat.lt_or_ge i 68 with h68 | h68
  · -- a digit inside the summed part: the checksum changes, the check digit does not
    obtain ⟨k2, hk2, hne2⟩ := checksum_detects_digit_error l i c d k h68 hc hcd hd hne hk
    have hkk : k2 = k' := Option.some.inj (hk2.symm.trans hk')
    subst hkk
    rw [List.getElem?_set_ne (by omega)] at hks'
    have hklt : k < 10 := by unfold checksum at hk; cases hsv : sumVals (List.take Generated.Tle.ckLen l) <;> simp_all <;> omega
    have hk2lt : k2 < 10 := by unfold checksum at hk2; cases hsv : sumVals (List.take Generated.Tle.ckLen (l.set i d)) <;> simp_all <;> omega
    rw [natStr_lt10 hklt] at hks
    rw [natStr_lt10 hk2lt, ← hks] at hks'
    simp at hks'
    apply hne2
    rw [← digitVal_digitChar hk2lt, ← digitVal_digitChar hklt, hks']
  · -- the check digit itself
    have : i = 68 := by omega
    subst this
    have hsame : checksum (l.set 68 d) = checksum l := by
      unfold checksum
      simp only [Generated.Tle.ckLen]
      rw [List.take_set]
      congr 2
      apply List.set_eq_of_length_le
      simp only [List.length_take]
      omega
    rw [hsame, hk] at hk'
    cases hk'
    rw [hc] at hks
    rw [List.getElem?_set_self (by omega)] at hks'
    simp at hks hks'
    rw [hks] at hks'
    simp at hks'
    exact hne hks'.symm

example : LineOk "1 25544U 98067A   08264.51782528 -.00002182  00000-0 -11606-4 0  2927".toList := by
  refine ⟨by decide, 7, by decide, by decide⟩

end BeyondVerif.C12
