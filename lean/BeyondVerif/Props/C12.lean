import BeyondVerif.Lemmas.Tle
import BeyondVerif.Lemmas.TleWrite
import BeyondVerif.Lemmas.TleRead

/-!
# C12 — TLE text round-trips and is validated

Property theorems about the model `Model/Tle.lean` of `beyond/io/tle.py` (column slices, checksum constants and the
writer's field layout regenerated from the source into `Generated/TleColumns.lean` on every run; the model is tied
to the code by an exact differential correspondence run). The model follows the repaired code (1de1dcf, 7d01f12,
900dafc, f1c2a4f, be00355).

* clause 3 (validation): `checksum_detects_digit_error`, `valid_iff`, `too_few_lines_rejected`, `length_checked`,
  `line_number_checked`, `digit_corruption_rejected`
* clause 1 (epoch): `epoch_roundtrip`
* drag terms: `unfloat_float_id`, `unfloat_float_zero`, `float_unfloat_id`
* clause 2: `written_lines_valid`, `parse_write_id`  (∀ records in `InRange`, `Lemmas/TleWrite.lean`)
* clause 1: `write_parse_id` (∀ canonical texts = texts written from a record in range), `reference_tles_roundtrip`
* clause 4: `from_string_yields_valid_entries` (full strength since 7d01f12), `from_string_framed_exact`
-/
namespace BeyondVerif.C12
open BeyondVerif.Tle

/-! ## Clause 3 — a line whose checksum, length or line number is wrong is rejected -/

/-- **checksum detects every single-digit error**: for EVERY line, every position below 68 that holds a digit and
every different digit put there, the modulo-10 checksum changes. -/
theorem checksum_detects_digit_error (line : Str) (i : Nat) (c d : Char) (k : Nat)
    (hi : i < 68) (hc : line[i]? = some c) (hcd : isDigit c = true) (hd : isDigit d = true) (hne : d ≠ c)
    (hk : checksum line = some k) : ∃ k', checksum (line.set i d) = some k' ∧ k' ≠ k := by
  unfold checksum at hk ⊢
  simp only [Generated.Tle.ckLen] at hk ⊢
  rw [List.take_set]
  cases hs : sumVals (List.take 68 line) with
  | none => rw [hs] at hk; simp at hk
  | some s =>
    rw [hs] at hk
    simp at hk
    have hc' : (List.take 68 line)[i]? = some c := by rw [List.getElem?_take]; simp [hi, hc]
    obtain ⟨hle, hset⟩ := sumVals_set _ i c d s hc' hcd hd hs
    refine ⟨(s - digitVal c + digitVal d) % 10, by rw [hset]; rfl, ?_⟩
    have h1 := digitVal_lt hcd
    have h2 := digitVal_lt hd
    have h3 : digitVal d ≠ digitVal c := by
      intro h
      apply hne
      rw [← digitChar_digitVal hd, ← digitChar_digitVal hcd, h]
    omega

example : checksum "1 25544U 98067A   08264.51782528 -.00002182  00000-0 -11606-4 0  2927".toList = some 7 := by decide

/-- what `_check_validity` demands of one line: 69 characters once stripped, and the 69th is the checksum digit -/
def LineOk (l : Str) : Prop :=
  (strip l).length = 69 ∧ ∃ c, checksum (strip l) = some c ∧ natStr c = slice (strip l) (68, 69)

theorem checkLine_ok_iff (i : Nat) (l : Str) : checkLine i l = .ok () ↔ LineOk l := by
  unfold checkLine LineOk
  simp only [Generated.Tle.lineLen, Generated.Tle.ckPos]
  by_cases hlen : (strip l).length = 69
  · simp only [hlen, ne_eq, not_true_eq_false, if_false, true_and]
    cases hck : checksum (strip l) with
    | none => simp
    | some c =>
      simp only [Option.some.injEq, exists_eq_left', Nat.reduceAdd]
      by_cases h : natStr c = slice (strip l) (68, 69) <;> simp [h]
  · simp [hlen]

theorem checkLines_ok_iff (i : Nat) (ls : List Str) : checkLines i ls = .ok () ↔ ∀ l ∈ ls, LineOk l := by
  induction ls generalizing i with
  | nil => simp [checkLines]
  | cons l ls ih =>
    simp only [checkLines, List.mem_cons, forall_eq_or_imp]
    rw [← checkLine_ok_iff i l, ← ih (i + 1)]
    cases h : checkLine i l with
    | error e => simp [bind, Except.bind]
    | ok u => simp [bind, Except.bind]

/-- **length, line number and checksum are all checked**: `_check_validity` accepts a text exactly when it has at
least two lines, the first (second) one starts — blanks aside — with `"1 "` (`"2 "`), and EVERY line of the text is,
once stripped, 69 characters long with its 69th character equal to the checksum of the first 68. -/
theorem valid_iff (text : List Str) : checkValidity text = .ok () ↔
    ∃ t0 t1 rest, text = t0 :: t1 :: rest ∧ startsWith (lstrip t0) ['1', ' '] = true ∧
      startsWith (lstrip t1) ['2', ' '] = true ∧ ∀ l ∈ text, LineOk l := by
  unfold checkValidity
  match text with
  | [] => simp
  | [t0] => simp
  | t0 :: t1 :: rest =>
    by_cases h0 : startsWith (lstrip t0) ['1', ' '] = true
    · by_cases h1 : startsWith (lstrip t1) ['2', ' '] = true
      · simp only [h0, h1, Bool.not_true, Bool.false_eq_true, if_false]
        rw [checkLines_ok_iff]
        constructor
        · intro h; exact ⟨t0, t1, rest, rfl, h0, h1, h⟩
        · rintro ⟨_, _, _, _, _, _, h⟩; exact h
      · simp only [h0, h1, Bool.not_true, Bool.false_eq_true, if_false, Bool.not_false, if_true]
        constructor
        · intro h; cases h
        · rintro ⟨_, _, _, heq, _, h, _⟩; cases heq; exact absurd h h1
    · simp only [h0, Bool.not_false, if_true]
      constructor
      · intro h; cases h
      · rintro ⟨_, _, _, heq, h, _, _⟩; cases heq; exact absurd h h0

/-- a text with fewer than two lines (a missing or empty second line) is a parse error -/
theorem too_few_lines_rejected (text : List Str) (h : text.length < 2) :
    checkValidity text = .error (.lineCount text.length) := by
  match text with
  | [] => rfl
  | [_] => rfl
  | _ :: _ :: _ => simp only [List.length_cons] at h; omega

/-- wrong **length**: a text in which some line, once stripped, is not 69 characters long is rejected -/
theorem length_checked (text : List Str) (l : Str) (hl : l ∈ text) (hlen : (strip l).length ≠ 69) :
    checkValidity text ≠ .ok () := by
  intro h
  obtain ⟨_, _, _, _, _, _, hall⟩ := (valid_iff text).1 h
  exact hlen (hall l hl).1

/-- wrong **line number**: a first line that does not start with `1 ` or a second line that does not start with `2 ` -/
theorem line_number_checked (t0 t1 : Str) (rest : List Str)
    (h : startsWith (lstrip t0) ['1', ' '] = false ∨ startsWith (lstrip t1) ['2', ' '] = false) :
    checkValidity (t0 :: t1 :: rest) = .error .lineNumber := by
  unfold checkValidity
  rcases h with h | h
  · simp [h]
  · by_cases h0 : startsWith (lstrip t0) ['1', ' '] = true <;> simp [h0, h]

/-- **every corruption of a single digit is rejected**: take ANY 69-character line that passes the per-line check,
ANY of its 69 positions that holds a digit (this includes the line number in column 1 and the checksum in
column 69) and ANY different digit: the corrupted line does not pass. -/
theorem digit_corruption_rejected (l : Str) (i : Nat) (c d : Char)
    (hlen : l.length = 69) (hok : LineOk l) (hc : l[i]? = some c)
    (hcd : isDigit c = true) (hd : isDigit d = true) (hne : d ≠ c) : ¬ LineOk (l.set i d) := by
  obtain ⟨hslen, k, hk, hks⟩ := hok
  obtain ⟨hs, _⟩ := strip_eq_of_length (hslen.trans hlen.symm)
  rw [hs] at hk hks
  have hi : i < 69 := by
    rcases Nat.lt_or_ge i 69 with h | h
    · exact h
    · rw [List.getElem?_eq_none (by omega)] at hc; cases hc
  -- the corrupted line still has no surrounding blank
  have hs' : strip (l.set i d) = l.set i d := by
    rw [strip_eq_iff] at hs ⊢
    obtain ⟨h0, h1⟩ := hs
    have hdw := isWs_of_isDigit hd
    constructor
    · intro x hx
      rw [List.getElem?_set] at hx
      split at hx
      · split at hx
        · cases hx; exact hdw
        · cases hx
      · exact h0 x hx
    · intro x hx
      rw [List.length_set, List.getElem?_set] at hx
      split at hx
      · split at hx
        · cases hx; exact hdw
        · cases hx
      · exact h1 x hx
  rintro ⟨_, k', hk', hks'⟩
  rw [hs'] at hk' hks'
  rw [slice_one] at hks hks'
  rcases Nat.lt_or_ge i 68 with h68 | h68
  · -- a digit inside the summed part: the checksum changes, the check digit does not
    obtain ⟨k2, hk2, hne2⟩ := checksum_detects_digit_error l i c d k h68 hc hcd hd hne hk
    have hkk : k2 = k' := Option.some.inj (hk2.symm.trans hk')
    subst hkk
    rw [List.getElem?_set_ne (by omega)] at hks'
    have hklt : k < 10 := by unfold checksum at hk; cases hsv : sumVals (List.take Generated.Tle.ckLen l) <;> simp_all <;> omega
    have hk2lt : k2 < 10 := by unfold checksum at hk2; cases hsv : sumVals (List.take Generated.Tle.ckLen (l.set i d)) <;> simp_all <;> omega
    rw [natStr_lt10 hklt] at hks
    rw [natStr_lt10 hk2lt, ← hks] at hks'
    simp at hks'
    apply hne2
    rw [← digitVal_digitChar hk2lt, ← digitVal_digitChar hklt, hks']
  · -- the check digit itself
    have : i = 68 := by omega
    subst this
    have hsame : checksum (l.set 68 d) = checksum l := by
      unfold checksum
      simp only [Generated.Tle.ckLen]
      rw [List.take_set]
      congr 2
      apply List.set_eq_of_length_le
      simp only [List.length_take]
      omega
    rw [hsame, hk] at hk'
    cases hk'
    rw [hc] at hks
    rw [List.getElem?_set_self (by omega)] at hks'
    simp at hks hks'
    rw [hks] at hks'
    simp at hks'
    exact hne hks'.symm

example : LineOk "1 25544U 98067A   08264.51782528 -.00002182  00000-0 -11606-4 0  2927".toList := by
  refine ⟨by decide, 7, by decide, by decide⟩

/-! ## Clause 1 (epoch part) — the epoch is preserved to 1e-8 day -/

theorem roundDiv_mul (x : Int) (a : Nat) (ha : 0 < a) (c : Int) : roundDiv (x * c * a) a = x * c := by
  unfold roundDiv
  have h1 : x * c * (a : Int) / (a : Int) = x * c := Int.mul_ediv_cancel _ (by omega)
  have h2 : x * c * (a : Int) % (a : Int) = 0 := Int.mul_emod_left _ _
  simp only [h1, h2]
  rw [if_pos (by omega)]

/-- the day-of-year field `day8 · 1e-8` is read as exactly `(day8 − 1e8) · 864` microseconds after 1 January, for every `day8` -/
theorem epochMicros_grid (day8 : Nat) : epochMicros ⟨false, day8, 8⟩ = ((day8 : Int) - 100000000) * 864 := by
  unfold epochMicros
  simp only [Bool.false_eq_true, if_false]
  have : ((8 : Int) ≥ 0) := by omega
  simp only [this, if_true]
  have t8 : (8 : Int).toNat = 8 := rfl
  have p1 : (10 : Int) ^ 8 = 100000000 := by decide
  have p2 : ((10 ^ 8 : Nat) : Int) = 100000000 := by decide
  have e : (((day8 : Int) - (10 : Int) ^ (8 : Int).toNat) * 86400000000) = ((day8 : Int) - 100000000) * 864 * ((10 ^ (8 : Int).toNat : Nat) : Int) := by
    rw [t8, p1, p2]; omega
  rw [e, roundDiv_mul _ _ (by rw [t8]; decide)]

/-- **epoch to 1e-8 day**: the day-of-year field `day8 · 1e-8` of year `y` is read as exactly `(day8 − 1e8) · 864`
microseconds after 1 January (1e-8 day is a whole number, 864, of the microseconds `datetime` counts in), that
instant lies in year `y`, and the writer's day-of-year computation returns `day8`. -/
theorem epoch_roundtrip (y day8 : Nat) (h1 : 100000000 ≤ day8)
    (h2 : day8 < (if isLeap y then 367 else 366) * 100000000) :
    epochMicros ⟨false, day8, 8⟩ = ((day8 : Int) - 100000000) * 864 ∧
    normYear 8 y (((day8 : Int) - 100000000) * 864) = some (y, ((day8 : Int) - 100000000) * 864) ∧
    ((((day8 : Int) - 100000000) * 864) / 86400000000 + 1) * 100000000
      + roundDiv ((((day8 : Int) - 100000000) * 864) % 86400000000 * 100000000) 86400000000 = day8 := by
  refine ⟨?_, ?_, ?_⟩
  · unfold epochMicros
    simp only [Bool.false_eq_true, if_false]
    have : ((8 : Int) ≥ 0) := by omega
    simp only [this, if_true]
    have t8 : (8 : Int).toNat = 8 := rfl
    have p1 : (10 : Int) ^ 8 = 100000000 := by decide
    have p2 : ((10 ^ 8 : Nat) : Int) = 100000000 := by decide
    have e : (((day8 : Int) - (10 : Int) ^ (8 : Int).toNat) * 86400000000) = ((day8 : Int) - 100000000) * 864 * ((10 ^ (8 : Int).toNat : Nat) : Int) := by
      rw [t8, p1, p2]; omega
    rw [e, roundDiv_mul _ _ (by rw [t8]; decide)]
  · show normYear (7 + 1) y _ = _
    unfold normYear
    have hpos : ¬ (((day8 : Int) - 100000000) * 864 < 0) := by omega
    have hlt : ¬ (((day8 : Int) - 100000000) * 864 ≥ yearMicros y) := by
      unfold yearMicros
      split at h2 <;> simp_all <;> omega
    simp [hpos, hlt]
  · have e : (((day8 : Int) - 100000000) * 864) % 86400000000 * 100000000
        = (((day8 : Int) - 100000000) % 100000000) * 1 * ((86400000000 : Nat) : Int) := by omega
    rw [e, roundDiv_mul _ _ (by decide)]
    omega


example : (100000000 : Nat) ≤ 26451782528 ∧ 26451782528 < (if isLeap 2008 then 367 else 366) * 100000000 := by decide

/-! ## Clauses 1 and 2 (drag terms) — the decimal-point-assumed notation round-trips -/

/-- **`_float(_unfloat(x)) = x` and `_unfloat(_float(text)) = text`** on every (sign, mantissa, exponent) triple of the
notation: for a five-digit mantissa `10000 ≤ m5 ≤ 99999`, either sign and EVERY exponent, the written field is read
back as exactly `± 0.m5 · 10^exp`; and (exponent ≥ -9, the range of the one-column exponent) that value is written
again as the same triple. -/
theorem unfloat_float_id (neg : Bool) (m5 : Nat) (exp : Int) (h1 : 10000 ≤ m5) (h2 : m5 < 100000) :
    tleFloat (unfloat (.val neg m5 exp)) = .ok ⟨neg, m5, 5 - exp⟩ ∧
    (-9 ≤ exp → toUnfl ⟨neg, m5, 5 - exp⟩ = .val neg m5 exp) := by
  constructor
  · have hlen : (natStr m5).length = 5 := natStr_length_eq 4 m5 h1 h2
    obtain ⟨c0, hc0, t0, ht0⟩ := natStr_head m5
    obtain ⟨dz, hdz, hlast⟩ := natStr_last exp.natAbs
    -- the written field
    have hu : unfloat (.val neg m5 exp) =
        (if neg then ['-'] else []) ++ natStr m5 ++ ((if exp < 0 then '-' else '+') :: natStr exp.natAbs) := by
      simp only [unfloat]; by_cases he : exp < 0 <;> simp [he]
    generalize hsep : (if exp < 0 then '-' else '+' : Char) = sep at hu
    have hsep' : sep = '+' ∨ sep = '-' := by subst hsep; split <;> simp
    have hstrip : strip (unfloat (.val neg m5 exp)) = unfloat (.val neg m5 exp) := by
      rw [hu]
      have hz : ((if neg then ['-'] else []) ++ natStr m5 ++ sep :: natStr exp.natAbs)[((if neg then ['-'] else []) ++ natStr m5 ++ sep :: natStr exp.natAbs).length - 1]? = some (digitChar dz) := by
        have hp := natStr_length_pos exp.natAbs
        rw [List.getElem?_append_right (by simp; omega)]
        simp only [List.length_append, List.length_cons]
        rw [show (List.length (if neg then ['-'] else []) + (natStr m5).length + ((natStr exp.natAbs).length + 1) - 1 - (List.length (if neg then ['-'] else []) + (natStr m5).length)) = ((natStr exp.natAbs).length - 1) + 1 by omega]
        simpa using hlast
      cases neg with
      | true => exact strip_of_ends (a := '-') (by simp) hz (by decide) (isWs_digitChar hdz)
      | false => exact strip_of_ends (a := c0) (by simp [ht0]) hz (isWs_of_isDigit hc0) (isWs_digitChar hdz)
    have hscale : (if sep = '-' then ((natStr m5).length : Int) + exp.natAbs else ((natStr m5).length : Int) - exp.natAbs) = 5 - exp := by
      rw [hlen]; subst hsep
      by_cases he : exp < 0
      · simp [he]; omega
      · simp [he]; omega
    unfold tleFloat
    rw [hstrip, hu]
    have hdig := isDigit_not_sign hc0
    cases neg with
    | true =>
      simp only [if_true, List.cons_append, List.nil_append, Bool.true_or, decide_true]
      rw [tleFloatSigned_core '-' sep m5 exp.natAbs (Or.inr rfl) hsep', hscale]
      simp
    | false =>
      simp only [Bool.false_eq_true, if_false, List.nil_append]
      rw [ht0]
      simp only [List.cons_append]
      have hc0' : (decide (c0 = '-') || decide (c0 = '+')) = false := by simp [hdig.1, hdig.2.1]
      simp only [hc0', Bool.false_eq_true, if_false]
      rw [← List.cons_append, ← ht0, tleFloatSigned_core '+' sep m5 exp.natAbs (Or.inl rfl) hsep', hscale]
      simp
  · intro he
    unfold toUnfl
    have hm : ¬ m5 = 0 := by omega
    simp only [hm, if_false]
    have hs : sig5 m5 = (m5, 0) := by
      unfold sig5
      rw [if_neg (by omega), if_pos h2]
    rw [hs]
    simp only
    rw [if_neg (by omega)]
    congr 1; omega


/-- the single rendering of zero, `00000-0`, is read as zero and written again as itself -/
theorem unfloat_float_zero : tleFloat (unfloat .zero) = .ok ⟨false, 0, 5⟩ ∧ toUnfl ⟨false, 0, 5⟩ = .zero := by
  constructor
  · rfl
  · rfl

/-- **`_float(_unfloat(x)) = x`** for every value with a five-digit mantissa and an exponent the single column holds
(`x = ± 0.m5 · 10^(5 - scale)`, `5 - scale ≥ -9`) -/
theorem float_unfloat_id (neg : Bool) (m5 : Nat) (scale : Int) (h1 : 10000 ≤ m5) (h2 : m5 < 100000) (hs : scale ≤ 14) :
    tleFloat (unfloat (toUnfl ⟨neg, m5, scale⟩)) = .ok ⟨neg, m5, scale⟩ := by
  obtain ⟨hr, hw⟩ := unfloat_float_id neg m5 (5 - scale) h1 h2
  have e : (5 : Int) - (5 - scale) = scale := by omega
  rw [e] at hr hw
  rw [hw (by omega), hr]

example : tleFloat "-11606-4".toList = .ok ⟨true, 11606, 9⟩ ∧ unfloat (.val true 11606 (-4)) = "-11606-4".toList := by
  constructor <;> rfl


/-! ## Clause 2 — any orbit that can be written yields 69-character lines with correct checksums -/


/-- a 68-character body whose characters all have a checksum value, followed by its check digit, is a valid line -/
theorem lineOk_of_body (body : Str) (a : Char) (t : Str) (hb : body = a :: t) (ha : isWs a = false)
    (hl : body.length = 68) (hok : ∀ c ∈ body, okc c = true) :
    ∃ c, c < 10 ∧ checksum body = some c ∧ LineOk (body ++ natStr c) ∧ (body ++ natStr c).length = 69 ∧
      strip (body ++ natStr c) = body ++ natStr c := by
  obtain ⟨s, hs⟩ := sumVals_some body hok
  have hck : checksum body = some (s % 10) := by
    unfold checksum
    simp only [Generated.Tle.ckLen]
    rw [List.take_of_length_le (by omega), hs]; rfl
  have hc10 : s % 10 < 10 := by omega
  refine ⟨s % 10, hc10, hck, ?_⟩
  rw [natStr_lt10 hc10]
  have hlen : (body ++ [digitChar (s % 10)]).length = 69 := by simp [hl]
  have hstrip : strip (body ++ [digitChar (s % 10)]) = body ++ [digitChar (s % 10)] := by
    apply strip_of_ends (a := a) (z := digitChar (s % 10)) _ _ ha (isWs_digitChar hc10)
    · rw [hb]; simp
    · rw [hlen, List.getElem?_append_right (by omega), hl]; simp
  refine ⟨⟨by rw [hstrip]; exact hlen, s % 10, ?_, ?_⟩, hlen, hstrip⟩
  · rw [hstrip]
    unfold checksum at hck ⊢
    simp only [Generated.Tle.ckLen] at hck ⊢
    rw [List.take_of_length_le (by omega)] at hck
    rw [List.take_left' hl]; exact hck
  · rw [hstrip, natStr_lt10 hc10, slice_one, List.getElem?_append_right (by omega), hl]; simp


theorem sum_map_length_flatten (L : List Str) : L.flatten.length = (L.map List.length).sum := by
  induction L with
  | nil => rfl
  | cons x xs ih => simp [ih]

/-- what `from_orbit` hands to `cls(...)`: the bodies followed by their check digits -/
theorem writeRec_eq (r : Rec) (h : WideRange r) :
    ∃ c1 c2, c1 < 10 ∧ c2 < 10 ∧ checksum (chunks1 r).flatten = some c1 ∧ checksum (chunks2 r).flatten = some c2 ∧
      LineOk ((chunks1 r).flatten ++ natStr c1) ∧ LineOk ((chunks2 r).flatten ++ natStr c2) ∧
      ((chunks1 r).flatten ++ natStr c1).length = 69 ∧ ((chunks2 r).flatten ++ natStr c2).length = 69 ∧
      strip ((chunks1 r).flatten ++ natStr c1) = (chunks1 r).flatten ++ natStr c1 ∧
      strip ((chunks2 r).flatten ++ natStr c2) = (chunks2 r).flatten ++ natStr c2 ∧
      writeRec r = .ok (if r.name.isEmpty then [(chunks1 r).flatten ++ natStr c1, (chunks2 r).flatten ++ natStr c2]
        else [r.name, (chunks1 r).flatten ++ natStr c1, (chunks2 r).flatten ++ natStr c2]) := by
  have hl1 : (chunks1 r).flatten.length = 68 := by rw [sum_map_length_flatten, chunks1_lengths r h]; rfl
  have hl2 : (chunks2 r).flatten.length = 68 := by rw [sum_map_length_flatten, chunks2_lengths r h]; rfl
  have hb1 : (chunks1 r).flatten = '1' :: ((chunks1 r).flatten.drop 1) := by simp [chunks1]
  have hb2 : (chunks2 r).flatten = '2' :: ((chunks2 r).flatten.drop 1) := by simp [chunks2]
  obtain ⟨c1, h1, hk1, ok1, len1, st1⟩ := lineOk_of_body _ '1' _ hb1 (by decide) hl1 (okc_chunks1 r h)
  obtain ⟨c2, h2, hk2, ok2, len2, st2⟩ := lineOk_of_body _ '2' _ hb2 (by decide) hl2 (okc_chunks2 r h)
  refine ⟨c1, c2, h1, h2, hk1, hk2, ok1, ok2, len1, len2, st1, st2, ?_⟩
  unfold writeRec
  have he : r.ecc7 / 10000000 = 0 := by have := h.ecc; omega
  simp only [he, natStr_zero, ne_eq, not_true_eq_false, if_false, render_fmt1, render_fmt2, hk1, hk2]

/-- **any orbit that can be written yields lines of exactly 69 characters with correct checksums**: for EVERY record
inside the ranges of the format — and for the three values just outside them that the rounding of an off-grid orbit
reaches (`WideRange`: an angle printed `360.0000`, the day after the last of the year, a drag term below 1e-10) —
`from_orbit` assembles two lines of 69 characters each, free of surrounding blanks,
starting with `1 ` and `2 `, whose 69th character is the modulo-10 checksum of the first 68 — i.e. a text that
`_check_validity` accepts. -/
theorem written_lines_valid (r : Rec) (h : WideRange r) :
    ∃ l1 l2, writeRec r = .ok (if r.name.isEmpty then [l1, l2] else [r.name, l1, l2]) ∧
      l1.length = 69 ∧ l2.length = 69 ∧ LineOk l1 ∧ LineOk l2 ∧ checkValidity [l1, l2] = .ok () := by
  obtain ⟨c1, c2, _, _, _, _, ok1, ok2, len1, len2, _, _, hw⟩ := writeRec_eq r h
  refine ⟨_, _, hw, len1, len2, ok1, ok2, ?_⟩
  rw [valid_iff]
  refine ⟨_, _, [], rfl, ?_, ?_, ?_⟩
  · have : (chunks1 r).flatten ++ natStr c1 = '1' :: ' ' :: (((chunks1 r).flatten ++ natStr c1).drop 2) := by simp [chunks1]
    rw [this, lstrip_cons_of_not_ws (by decide)]; rfl
  · have : (chunks2 r).flatten ++ natStr c2 = '2' :: ' ' :: (((chunks2 r).flatten ++ natStr c2).drop 2) := by simp [chunks2]
    rw [this, lstrip_cons_of_not_ws (by decide)]; rfl
  · intro l hl
    simp at hl
    rcases hl with rfl | rfl
    · exact ok1
    · exact ok2


def issRec : Rec :=
  { name := "ISS (ZARYA)".toList, norad := 25544, cospar := "98067A".toList, yy := 8, day8 := 26451782528, ndotNeg := true,
    ndot8 := 2182, ndd := .zero, bstar := .val true 11606 (-4), elnb := 2927, inc4 := 516416, raan4 := 2474627, ecc7 := 6703,
    argp4 := 1305360, ma4 := 3250288, mm8 := 1572125391, revs := 56353 }

/-- the reference TLE's record is inside the ranges -/
theorem issRec_inRange : InRange issRec where
  norad := by decide
  cospar := Or.inr ⟨98, "067A".toList, by decide, by decide, by decide, by decide, by decide⟩
  yy := by decide
  day := by decide
  ndot := by decide
  ndd := Or.inl rfl
  bstar := Or.inr ⟨true, 11606, -4, rfl, by decide, by decide, by decide, by decide⟩
  elnb := by decide
  inc := by decide
  raan := by decide
  ecc := by decide
  argp := by decide
  ma := by decide
  mm := by decide
  revs := by decide
  name := Or.inr ⟨by decide, by decide, by decide⟩

/-! ## Clauses 1 and 2 — write → parse gives the same elements, parse → write the identical lines -/


/-- the exact decimal a canonical drag term stands for -/
def decOfUnfl : Unfl → Dec
  | .zero => ⟨false, 0, 5⟩
  | .val neg m5 exp => ⟨neg, m5, 5 - exp⟩
  | .small neg d => ⟨neg, d, 14⟩

theorem canon_read {u : Unfl} (h : CanonUnfl u) :
    tleFloat (padLeft ' ' 8 (unfloat u)) = .ok (decOfUnfl u) ∧ toUnfl (decOfUnfl u) = u := by
  rw [tleFloat_padLeft]
  rcases h with rfl | ⟨neg, m5, exp, rfl, h1, h2, h3, _⟩
  · exact unfloat_float_zero
  · obtain ⟨a, b⟩ := unfloat_float_id neg m5 exp h1 h2
    exact ⟨a, b h3⟩

/-- a drag term below 1e-10, `±ddddd-9` with any five digits, is read as exactly `± d · 10^-14` -/
theorem small_read (neg : Bool) (d : Nat) (hd : d < 100000) :
    tleFloat (unfloat (.small neg d)) = .ok ⟨neg, d, 14⟩ := by
  have hl : (natStr d).length ≤ 5 := natStr_length_le 5 d (by omega) (by omega)
  have hZlen : (padLeft '0' 5 (natStr d)).length = 5 := padLeft_length hl
  have hZd : ∀ c ∈ padLeft '0' 5 (natStr d), isDigit c = true := by
    intro c hc
    simp only [padLeft, List.mem_append, List.mem_replicate] at hc
    rcases hc with ⟨_, rfl⟩ | hc
    · decide
    · exact natStr_all_digits d c hc
  have hZne : padLeft '0' 5 (natStr d) ≠ [] := by
    intro h; rw [h] at hZlen; simp at hZlen
  have hZv : digitsValAux (padLeft '0' 5 (natStr d)) 0 = some d := by
    unfold padLeft; rw [digitsValAux_zeros, digitsValAux_natStr]
  obtain ⟨c0, t0, hZ⟩ : ∃ c0 t0, padLeft '0' 5 (natStr d) = c0 :: t0 := by
    cases h : padLeft '0' 5 (natStr d) with
    | nil => exact absurd h hZne
    | cons c t => exact ⟨c, t, rfl⟩
  have hc0 : isDigit c0 = true := hZd c0 (by rw [hZ]; simp)
  have h9 : natStr 9 = ['9'] := by rw [natStr_lt10 (by omega)]; rfl
  have hu : unfloat (.small neg d) = (if neg then ['-'] else []) ++ padLeft '0' 5 (natStr d) ++ ('-' :: natStr 9) := by
    simp only [unfloat, h9]
  have hstrip : strip (unfloat (.small neg d)) = unfloat (.small neg d) := by
    rw [hu, h9]
    have hlast : ((if neg then ['-'] else []) ++ padLeft '0' 5 (natStr d) ++ ['-', '9'])[((if neg then ['-'] else []) ++ padLeft '0' 5 (natStr d) ++ ['-', '9']).length - 1]? = some '9' := by
      cases neg <;> simp [hZlen]
    cases neg with
    | true => exact strip_of_ends (a := '-') (by simp) hlast (by decide) (by decide)
    | false => exact strip_of_ends (a := c0) (by simp [hZ]) hlast (isWs_of_isDigit hc0) (by decide)
  have hscale : (if ('-' : Char) = '-' then ((padLeft '0' 5 (natStr d)).length : Int) + (9 : Nat) else ((padLeft '0' 5 (natStr d)).length : Int) - (9 : Nat)) = 14 := by
    rw [hZlen]; simp
  unfold tleFloat
  rw [hstrip, hu]
  have hdig := isDigit_not_sign hc0
  cases neg with
  | true =>
    simp only [if_true, List.cons_append, List.nil_append, Bool.true_or, decide_true]
    rw [tleFloatSigned_digits '-' '-' _ d 9 (Or.inr rfl) (Or.inr rfl) hZd hZne hZv, hscale]
    simp
  | false =>
    simp only [Bool.false_eq_true, if_false, List.nil_append]
    rw [hZ]
    simp only [List.cons_append]
    have hc0' : (decide (c0 = '-') || decide (c0 = '+')) = false := by simp [hdig.1, hdig.2.1]
    simp only [hc0', Bool.false_eq_true, if_false]
    rw [← List.cons_append, ← hZ, tleFloatSigned_digits '+' '-' _ d 9 (Or.inl rfl) (Or.inr rfl) hZd hZne hZv, hscale]
    simp

/-- every drag term the writer can print is read as the decimal it stands for -/
theorem wide_read {u : Unfl} (h : WideUnfl u) : tleFloat (padLeft ' ' 8 (unfloat u)) = .ok (decOfUnfl u) := by
  rcases h with h | ⟨neg, d, rfl, hd⟩
  · exact (canon_read h).1
  · rw [tleFloat_padLeft]; exact small_read neg d hd

/-- the columns of a written first line -/
theorem line1_slices (r : Rec) (h : WideRange r) (tl : Str) :
    let l := (chunks1 r).flatten ++ tl
    slice l G.norad = padLeft '0' 5 (intStr r.norad) ∧
    slice l G.classification = ['U'] ∧
    slice l G.cosparTest = padRight ' ' 8 r.cospar ∧
    slice l G.epochYear = fixedDigits 2 r.yy ∧
    slice l G.epochDay = fmtFix true 12 8 r.day8 ∧
    slice l G.ndot = padLeft ' ' 10 (fmtNdot r.ndotNeg r.ndot8) ∧
    slice l G.ndotdot = padLeft ' ' 8 (unfloat r.ndd) ∧
    slice l G.bstar = padLeft ' ' 8 (unfloat r.bstar) ∧
    slice l G.etype = ['0'] ∧
    slice l G.elnb = padLeft ' ' 4 (intStr r.elnb) := by
  intro l
  have hl := chunks1_lengths r h
  simp only [chunks1, List.map_cons, List.map_nil, List.cons.injEq, and_true] at hl
  obtain ⟨_, h1, _, _, h4, _, h6, h7, _, h9, _, h11, _, h13, _, _, _, h17⟩ := hl
  refine ⟨?_, ?_, ?_, ?_, ?_, ?_, ?_, ?_, ?_, ?_⟩
  · exact slice_chunk [['1', ' ']] _ _ tl 2 7 (by simp) (by simp [h1])
  · exact slice_chunk [['1', ' '], padLeft '0' 5 (intStr r.norad)] ['U'] _ tl 7 8 (by simp [h1]) (by simp)
  · exact slice_chunk [['1', ' '], padLeft '0' 5 (intStr r.norad), ['U'], [' ']] _ _ tl 9 17 (by simp [h1]) (by simp [h4])
  · exact slice_chunk [['1', ' '], padLeft '0' 5 (intStr r.norad), ['U'], [' '], padRight ' ' 8 r.cospar, [' ']] _ _ tl 18 20
      (by simp [h1, h4]) (by simp [h6])
  · exact slice_chunk [['1', ' '], padLeft '0' 5 (intStr r.norad), ['U'], [' '], padRight ' ' 8 r.cospar, [' '], fixedDigits 2 r.yy] _ _ tl 20 32
      (by simp [h1, h4, h6]) (by simp [h7])
  · exact slice_chunk [['1', ' '], padLeft '0' 5 (intStr r.norad), ['U'], [' '], padRight ' ' 8 r.cospar, [' '], fixedDigits 2 r.yy,
      fmtFix true 12 8 r.day8, [' ']] _ _ tl 33 43 (by simp [h1, h4, h6, h7]) (by simp [h9])
  · exact slice_chunk [['1', ' '], padLeft '0' 5 (intStr r.norad), ['U'], [' '], padRight ' ' 8 r.cospar, [' '], fixedDigits 2 r.yy,
      fmtFix true 12 8 r.day8, [' '], padLeft ' ' 10 (fmtNdot r.ndotNeg r.ndot8), [' ']] _ _ tl 44 52 (by simp [h1, h4, h6, h7, h9]) (by simp [h11])
  · exact slice_chunk [['1', ' '], padLeft '0' 5 (intStr r.norad), ['U'], [' '], padRight ' ' 8 r.cospar, [' '], fixedDigits 2 r.yy,
      fmtFix true 12 8 r.day8, [' '], padLeft ' ' 10 (fmtNdot r.ndotNeg r.ndot8), [' '], padLeft ' ' 8 (unfloat r.ndd), [' ']] _ _ tl 53 61
      (by simp [h1, h4, h6, h7, h9, h11]) (by simp [h13])
  · exact slice_chunk [['1', ' '], padLeft '0' 5 (intStr r.norad), ['U'], [' '], padRight ' ' 8 r.cospar, [' '], fixedDigits 2 r.yy,
      fmtFix true 12 8 r.day8, [' '], padLeft ' ' 10 (fmtNdot r.ndotNeg r.ndot8), [' '], padLeft ' ' 8 (unfloat r.ndd), [' '],
      padLeft ' ' 8 (unfloat r.bstar), [' ']] ['0'] _ tl 62 63 (by simp [h1, h4, h6, h7, h9, h11, h13]) (by simp)
  · exact slice_chunk [['1', ' '], padLeft '0' 5 (intStr r.norad), ['U'], [' '], padRight ' ' 8 r.cospar, [' '], fixedDigits 2 r.yy,
      fmtFix true 12 8 r.day8, [' '], padLeft ' ' 10 (fmtNdot r.ndotNeg r.ndot8), [' '], padLeft ' ' 8 (unfloat r.ndd), [' '],
      padLeft ' ' 8 (unfloat r.bstar), [' '], ['0'], [' ']] _ [] tl 64 68 (by simp [h1, h4, h6, h7, h9, h11, h13]) (by simp [h17])


theorem padRight_split (a b : Str) (w : Nat) (h : a.length ≤ w) :
    padRight ' ' w (a ++ b) = a ++ padRight ' ' (w - a.length) b := by
  unfold padRight
  rw [List.append_assoc]
  congr 2
  simp; omega

theorem line1_cospar_slices (r : Rec) (h : WideRange r) (tl : Str) (cy : Nat) (piece : Str)
    (hc : r.cospar = fixedDigits 2 cy ++ piece) (hp : piece.length ≤ 6) :
    let l := (chunks1 r).flatten ++ tl
    slice l G.cosparYear = fixedDigits 2 cy ∧ slice l G.cosparPiece = padRight ' ' 6 piece := by
  intro l
  have hl := chunks1_lengths r h
  simp only [chunks1, List.map_cons, List.map_nil, List.cons.injEq, and_true] at hl
  obtain ⟨_, h1, _, _, _, _, _, _, _, _, _, _, _, _, _, _, _, _⟩ := hl
  have hsplit : padRight ' ' 8 r.cospar = fixedDigits 2 cy ++ padRight ' ' 6 piece := by
    rw [hc, padRight_split _ _ _ (by simp [fixedDigits_length])]; simp [fixedDigits_length]
  have hp6 : (padRight ' ' 6 piece).length = 6 := padRight_length hp
  have e : l = ([['1', ' '], padLeft '0' 5 (intStr r.norad), ['U'], [' '], fixedDigits 2 cy, padRight ' ' 6 piece, [' '], fixedDigits 2 r.yy,
      fmtFix true 12 8 r.day8, [' '], padLeft ' ' 10 (fmtNdot r.ndotNeg r.ndot8), [' '], padLeft ' ' 8 (unfloat r.ndd), [' '],
      padLeft ' ' 8 (unfloat r.bstar), [' '], ['0'], [' '], padLeft ' ' 4 (intStr r.elnb)] : List Str).flatten ++ tl := by
    simp [l, chunks1, hsplit]
  rw [e]
  constructor
  · exact slice_chunk [['1', ' '], padLeft '0' 5 (intStr r.norad), ['U'], [' ']] _ _ tl 9 11 (by simp [h1]) (by simp [fixedDigits_length])
  · exact slice_chunk [['1', ' '], padLeft '0' 5 (intStr r.norad), ['U'], [' '], fixedDigits 2 cy] _ _ tl 11 17
      (by simp [h1, fixedDigits_length]) (by simp [hp6])

/-- the columns of a written second line -/
theorem line2_slices (r : Rec) (h : WideRange r) (tl : Str) :
    let l := (chunks2 r).flatten ++ tl
    slice l G.inc = fmtFix false 8 4 r.inc4 ∧
    slice l G.raan = fmtFix false 8 4 r.raan4 ∧
    slice l G.ecc = fixedDigits 7 r.ecc7 ∧
    slice l G.argp = fmtFix false 8 4 r.argp4 ∧
    slice l G.ma = fmtFix false 8 4 r.ma4 ∧
    slice l G.mm = fmtFix false 11 8 r.mm8 ∧
    slice l G.revs = padLeft ' ' 5 (intStr r.revs) := by
  intro l
  have hl := chunks2_lengths r h
  have hecc : padRight ' ' 0 (fmtEcc r.ecc7) = fixedDigits 7 r.ecc7 := by rw [fmtEcc_eq _ h.ecc]; simp [padRight]
  simp only [chunks2, List.map_cons, List.map_nil, List.cons.injEq, and_true] at hl
  obtain ⟨_, h1, _, h3, _, h5, _, h7, _, h9, _, h11, _, h13, h14⟩ := hl
  have e : l = ([['2', ' '], padLeft '0' 5 (intStr r.norad), [' '], fmtFix false 8 4 r.inc4, [' '], fmtFix false 8 4 r.raan4, [' '],
      fixedDigits 7 r.ecc7, [' '], fmtFix false 8 4 r.argp4, [' '], fmtFix false 8 4 r.ma4, [' '],
      fmtFix false 11 8 r.mm8, padLeft ' ' 5 (intStr r.revs)] : List Str).flatten ++ tl := by
    simp [l, chunks2, hecc]
  rw [hecc] at h7
  rw [e]
  refine ⟨?_, ?_, ?_, ?_, ?_, ?_, ?_⟩
  · exact slice_chunk [['2', ' '], padLeft '0' 5 (intStr r.norad), [' ']] _ _ tl 8 16 (by simp [h1]) (by simp [h3])
  · exact slice_chunk [['2', ' '], padLeft '0' 5 (intStr r.norad), [' '], fmtFix false 8 4 r.inc4, [' ']] _ _ tl 17 25 (by simp [h1, h3]) (by simp [h5])
  · exact slice_chunk [['2', ' '], padLeft '0' 5 (intStr r.norad), [' '], fmtFix false 8 4 r.inc4, [' '], fmtFix false 8 4 r.raan4, [' ']] _ _ tl 26 33
      (by simp [h1, h3, h5]) (by simp [h7])
  · exact slice_chunk [['2', ' '], padLeft '0' 5 (intStr r.norad), [' '], fmtFix false 8 4 r.inc4, [' '], fmtFix false 8 4 r.raan4, [' '],
      fixedDigits 7 r.ecc7, [' ']] _ _ tl 34 42 (by simp [h1, h3, h5, h7]) (by simp [h9])
  · exact slice_chunk [['2', ' '], padLeft '0' 5 (intStr r.norad), [' '], fmtFix false 8 4 r.inc4, [' '], fmtFix false 8 4 r.raan4, [' '],
      fixedDigits 7 r.ecc7, [' '], fmtFix false 8 4 r.argp4, [' ']] _ _ tl 43 51 (by simp [h1, h3, h5, h7, h9]) (by simp [h11])
  · exact slice_chunk [['2', ' '], padLeft '0' 5 (intStr r.norad), [' '], fmtFix false 8 4 r.inc4, [' '], fmtFix false 8 4 r.raan4, [' '],
      fixedDigits 7 r.ecc7, [' '], fmtFix false 8 4 r.argp4, [' '], fmtFix false 8 4 r.ma4, [' ']] _ _ tl 52 63
      (by simp [h1, h3, h5, h7, h9, h11]) (by simp [h13])
  · exact slice_chunk [['2', ' '], padLeft '0' 5 (intStr r.norad), [' '], fmtFix false 8 4 r.inc4, [' '], fmtFix false 8 4 r.raan4, [' '],
      fixedDigits 7 r.ecc7, [' '], fmtFix false 8 4 r.argp4, [' '], fmtFix false 8 4 r.ma4, [' '], fmtFix false 11 8 r.mm8] _ [] tl 63 68
      (by simp [h1, h3, h5, h7, h9, h11, h13]) (by simp [h14])


/-- the international designator as `Tle.__init__` stores it -/
def cosparOf (s : Str) : Option (Nat × Str) :=
  if s.isEmpty then none else some (fullYear ((digitsValAux (s.take 2) 0).getD 0), s.drop 2)

/-- what `Tle.__init__` makes of the written lines of `r` -/
def expected (r : Rec) (l1 l2 : Str) : Parsed :=
  { name := [], text := [l1, l2], norad := r.norad, classification := ['U'], cospar := cosparOf r.cospar,
    year := fullYear r.yy, epochUs := ((r.day8 : Int) - 100000000) * 864, ndot := ⟨r.ndotNeg, r.ndot8, 8⟩,
    ndd := decOfUnfl r.ndd, bstar := decOfUnfl r.bstar, elnb := r.elnb, revs := r.revs, etype := 0,
    inc := ⟨false, r.inc4, 4⟩, raan := ⟨false, r.raan4, 4⟩, ecc := ⟨false, r.ecc7, 7⟩, argp := ⟨false, r.argp4, 4⟩,
    ma := ⟨false, r.ma4, 4⟩, mm := ⟨false, r.mm8, 8⟩ }

theorem century_nat (n : Nat) : century (n : Int) = .ok (fullYear n) := by
  unfold century fullYear
  simp [Generated.Tle.pivot]

theorem pyInt_intStr_zero (w : Nat) (i : Int) (h : 0 ≤ i) : pyInt (padLeft '0' w (intStr i)) = .ok i := by
  rw [intStr_nonneg h, pyInt_padLeft_zero]; congr 1; omega

theorem pyInt_intStr_space (w : Nat) (i : Int) (h : 0 ≤ i) : pyInt (padLeft ' ' w (intStr i)) = .ok i := by
  rw [intStr_nonneg h, pyInt_padLeft_space]; congr 1; omega

theorem parse_written (r : Rec) (h : WideRange r) (c1 c2 : Nat)
    (hv : checkValidity [(chunks1 r).flatten ++ natStr c1, (chunks2 r).flatten ++ natStr c2] = .ok ())
    (s1 : strip ((chunks1 r).flatten ++ natStr c1) = (chunks1 r).flatten ++ natStr c1)
    (s2 : strip ((chunks2 r).flatten ++ natStr c2) = (chunks2 r).flatten ++ natStr c2) :
    parseBody [(chunks1 r).flatten ++ natStr c1, (chunks2 r).flatten ++ natStr c2] =
      .ok (expected r ((chunks1 r).flatten ++ natStr c1) ((chunks2 r).flatten ++ natStr c2)) := by
  obtain ⟨a1, a2, a3, a4, a5, a6, a7, a8, a9, a10⟩ := line1_slices r h (natStr c1)
  obtain ⟨b1, b2, b3, b4, b5, b6, b7⟩ := line2_slices r h (natStr c2)
  have f1 := pyInt_intStr_zero 5 r.norad h.norad.1
  have f4 : pyInt (fixedDigits 2 r.yy) = .ok (r.yy : Int) := by
    rw [pyInt_fixedDigits 2 r.yy (by omega), Nat.mod_eq_of_lt (by have := h.yy; omega)]
  have f5 := fmtFix_read true 12 8 r.day8 (by omega)
  have f6 := ndot_read r.ndotNeg r.ndot8 h.ndot
  have f7 := wide_read h.ndd
  have f8 := wide_read h.bstar
  have f9 : pyInt ['0'] = .ok 0 := by rfl
  have f10 := pyInt_intStr_space 4 r.elnb h.elnb.1
  have g1 := fmtFix_read false 8 4 r.inc4 (by omega)
  have g2 := fmtFix_read false 8 4 r.raan4 (by omega)
  have g3 : tleFloat (fixedDigits 7 r.ecc7) = .ok ⟨false, r.ecc7, 7⟩ := by
    rw [ecc_read, Nat.mod_eq_of_lt (by have := h.ecc; omega)]
  have g4 := fmtFix_read false 8 4 r.argp4 (by omega)
  have g5 := fmtFix_read false 8 4 r.ma4 (by omega)
  have g6 := fmtFix_read false 11 8 r.mm8 (by omega)
  have g7 := pyInt_intStr_space 5 r.revs h.revs.1
  have hep : epochMicros ⟨false, r.day8, 8⟩ = ((r.day8 : Int) - 100000000) * 864 := epochMicros_grid r.day8
  -- the international designator
  have hcos : (if (strip (padRight ' ' 8 r.cospar)).isEmpty = true then (pure none : Except Err (Option (Nat × Str)))
      else do
        let y ← pyInt (slice ((chunks1 r).flatten ++ natStr c1) G.cosparYear)
        let y ← century y
        pure (some (y, strip (slice ((chunks1 r).flatten ++ natStr c1) G.cosparPiece)))) = .ok (cosparOf r.cospar) := by
    rcases h.cospar with hc | ⟨cy, piece, hcy, hc, hp, hsp, _⟩
    · have : strip (padRight ' ' 8 r.cospar) = [] := by rw [hc]; decide
      simp [this, hc, cosparOf]; rfl
    · obtain ⟨k1, k2⟩ := line1_cospar_slices r h (natStr c1) cy piece hc hp
      obtain ⟨c, t, hct, hcd, _⟩ := fixedDigits_ends 2 cy (by omega)
      have hstrip : strip r.cospar = r.cospar := by
        rw [hc]
        rcases List.eq_nil_or_concat piece with hpn | ⟨init, z, hpz⟩
        · rw [hpn]; simp; exact strip_fixedDigits 2 cy
        · rw [List.concat_eq_append] at hpz
          have hz : isWs z = false := ((strip_eq_iff piece).1 hsp).2 z (by rw [hpz]; simp)
          rw [hct, hpz]
          have := strip_ends' c z (t ++ init) (isWs_of_isDigit hcd) hz
          simpa using this
      have hne : (strip (padRight ' ' 8 r.cospar)).isEmpty = false := by
        rw [strip_padRight 8 _ hstrip, hc, hct]; rfl
      rw [k1, k2, hne]
      simp only [Bool.false_eq_true, if_false]
      rw [pyInt_fixedDigits 2 cy (by omega), Nat.mod_eq_of_lt (by omega)]
      simp only [bind, Except.bind, century_nat, pure, Except.pure]
      rw [strip_padRight 6 piece hsp]
      have : cosparOf r.cospar = some (fullYear cy, piece) := by
        unfold cosparOf
        have hne' : r.cospar.isEmpty = false := by rw [hc, hct]; rfl
        rw [hne', hc]
        simp only [Bool.false_eq_true, if_false]
        rw [List.take_left' (fixedDigits_length 2 cy), List.drop_left' (fixedDigits_length 2 cy), digitsValAux_fixedDigits]
        simp [Nat.mod_eq_of_lt (show cy < 10 ^ 2 by omega)]
      rw [this]
  unfold parseBody
  rw [hv]
  simp only [bind, Except.bind, List.map, s1, s2, a1, a2, a3, a4, a5, a6, a7, a8, a9, a10, b1, b2, b3, b4, b5, b6, b7,
    f1, f4, f5, f6, f7, f8, f9, f10, g1, g2, g3, g4, g5, g6, g7, century_nat]
  have hcos' := hcos
  simp only [bind, Except.bind] at hcos'
  rw [hcos']
  have hep' : epochMicros { neg := false, mant := r.day8, scale := ((8 : Nat) : Int) } = ((r.day8 : Int) - 100000000) * 864 := hep
  simp only [pure, Except.pure, expected, hep']
  rfl


theorem natStr_fullYear_drop (cy : Nat) (h : cy < 100) : (natStr (fullYear cy)).drop 2 = fixedDigits 2 cy := by
  have hn : 1000 ≤ fullYear cy ∧ fullYear cy < 10000 := by unfold fullYear; split <;> omega
  have hl : (natStr (fullYear cy / 100)).length = 2 := natStr_length_eq 1 _ (by omega) (by omega)
  rw [natStr_eq (fullYear cy), if_neg (by omega), natStr_eq (fullYear cy / 10), if_neg (by omega)]
  have e : fullYear cy / 10 / 10 = fullYear cy / 100 := by omega
  rw [e, List.append_assoc, List.drop_left' hl]
  have d1 : fullYear cy / 10 % 10 = cy / 10 % 10 := by unfold fullYear; split <;> omega
  have d2 : fullYear cy % 10 = cy % 10 := by unfold fullYear; split <;> omega
  simp [fixedDigits, d1, d2]

theorem angle4_grid (v : Nat) (h : v < 3600000) : angle4 ⟨false, v, 4⟩ = .ok v := by
  unfold angle4 decScaled
  have e1 : ¬ ((4 : Int) < 0) := by omega
  have e2 : (4 : Int).toNat = 4 := rfl
  have e3 : (360 : Int) * 10 ^ 4 = 3600000 := by decide
  have e4 : ((v : Int) % 3600000).toNat = v := by omega
  simp [e1, e2, e3, e4]

theorem nonneg_grid (v k : Nat) : nonneg ⟨false, v, k⟩ k = .ok v := by
  unfold nonneg decScaled
  simp

theorem decScaled_grid (neg : Bool) (v k : Nat) : (decScaled ⟨neg, v, k⟩ k).natAbs = v := by
  unfold decScaled
  cases neg <;> simp

theorem nonneg_grid7 (v : Nat) : nonneg ⟨false, v, 7⟩ 7 = .ok v := by have := nonneg_grid v 7; simpa using this
theorem nonneg_grid8 (v : Nat) : nonneg ⟨false, v, 8⟩ 8 = .ok v := by have := nonneg_grid v 8; simpa using this
theorem decScaled_grid8 (neg : Bool) (v : Nat) : (decScaled ⟨neg, v, 8⟩ 8).natAbs = v := by
  have := decScaled_grid neg v 8; simpa using this

/-- `Tle.orbit()` and the numeric prelude of `from_orbit` give the record back -/
theorem toRec_expected (r : Rec) (h : InRange r) (l1 l2 : Str) :
    toRec { expected r l1 l2 with name := r.name } = .ok r := by
  obtain ⟨_, hny, hday⟩ := epoch_roundtrip (fullYear r.yy) r.day8 h.day.1 h.day.2
  have hcq : (cosparOf r.cospar = none ∧ r.cospar = []) ∨
      (∃ cy piece, cy < 100 ∧ cosparOf r.cospar = some (fullYear cy, piece) ∧ r.cospar = fixedDigits 2 cy ++ piece) := by
    rcases h.cospar with hc | ⟨cy, piece, hcy, hc, _, _, _⟩
    · left; rw [hc]; exact ⟨rfl, rfl⟩
    · right
      obtain ⟨c, t, hct, _, _⟩ := fixedDigits_ends 2 cy (by omega)
      refine ⟨cy, piece, hcy, ?_, hc⟩
      unfold cosparOf
      have hne' : r.cospar.isEmpty = false := by rw [hc, hct]; rfl
      rw [hne', hc]
      simp only [Bool.false_eq_true, if_false]
      rw [List.take_left' (fixedDigits_length 2 cy), List.drop_left' (fixedDigits_length 2 cy), digitsValAux_fixedDigits]
      simp [Nat.mod_eq_of_lt (show cy < 10 ^ 2 by omega)]
  have hyy : fullYear r.yy % 100 = r.yy := by have := h.yy; unfold fullYear; split <;> omega
  have hu1 := (canon_read h.ndd).2
  have hu2 := (canon_read h.bstar).2
  unfold toRec
  simp only [expected, hny, bind, Except.bind, pure, Except.pure, angle4_grid _ h.inc, angle4_grid _ h.raan, angle4_grid _ h.argp,
    angle4_grid _ h.ma, nonneg_grid7, nonneg_grid8, decScaled_grid8, hu1, hu2, hyy]
  have hd : (((↑r.day8 - 100000000) * 864 / 86400000000 + 1) * 100000000 +
      roundDiv ((↑r.day8 - 100000000) * 864 % 86400000000 * 100000000) 86400000000 : Int).toNat = r.day8 := by
    rw [hday]; simp
  simp only [hd]
  rcases hcq with ⟨q1, q2⟩ | ⟨cy, piece, hcy, q1, q2⟩
  · rw [q1]
    simp only
    rw [← q2]
  · rw [q1]
    simp only
    rw [natStr_fullYear_drop cy hcy, ← q2]


/-- writing a record the writer can print, constructing the `Tle`, reading it back: the frame shared by `parse_write_id`
(records inside the ranges: `r' = r`) and `wide_roundtrip` of `Props/C12Float.lean` (rounding carries: `r'` = `r` normalised) -/
theorem roundtrip_aux (r : Rec) (h : WideRange r) (r' : Rec)
    (ht : ∀ l1 l2, toRec { expected r l1 l2 with name := r.name } = .ok r') :
    ∃ p lines, writeRec r = .ok lines ∧ fromOrbit r = .ok p ∧ parseTle lines = .ok p ∧ tleStr p = lines ∧
      toRec p = .ok r' := by
  obtain ⟨c1, c2, _, _, _, _, ok1, ok2, _, _, st1, st2, hw⟩ := writeRec_eq r h
  have hv : checkValidity [(chunks1 r).flatten ++ natStr c1, (chunks2 r).flatten ++ natStr c2] = .ok () := by
    rw [valid_iff]
    refine ⟨_, _, [], rfl, ?_, ?_, ?_⟩
    · have : (chunks1 r).flatten ++ natStr c1 = '1' :: ' ' :: (((chunks1 r).flatten ++ natStr c1).drop 2) := by simp [chunks1]
      rw [this, lstrip_cons_of_not_ws (by decide)]; rfl
    · have : (chunks2 r).flatten ++ natStr c2 = '2' :: ' ' :: (((chunks2 r).flatten ++ natStr c2).drop 2) := by simp [chunks2]
      rw [this, lstrip_cons_of_not_ws (by decide)]; rfl
    · intro l hl
      simp at hl
      rcases hl with rfl | rfl
      · exact ok1
      · exact ok2
  have hp := parse_written r h c1 c2 hv st1 st2
  have ht := ht ((chunks1 r).flatten ++ natStr c1) ((chunks2 r).flatten ++ natStr c2)
  rcases h.name with hn | ⟨hne, hns, hn0⟩
  · -- two-line format
    have hemp : r.name.isEmpty = true := by rw [hn]; rfl
    rw [hemp] at hw
    simp only [if_true] at hw
    have hpt : parseTle [(chunks1 r).flatten ++ natStr c1, (chunks2 r).flatten ++ natStr c2] = .ok (expected r ((chunks1 r).flatten ++ natStr c1) ((chunks2 r).flatten ++ natStr c2)) := hp
    have hex : ({ expected r ((chunks1 r).flatten ++ natStr c1) ((chunks2 r).flatten ++ natStr c2) with name := r.name } : Parsed)
        = (expected r ((chunks1 r).flatten ++ natStr c1) ((chunks2 r).flatten ++ natStr c2)) := by rw [hn]; rfl
    refine ⟨(expected r ((chunks1 r).flatten ++ natStr c1) ((chunks2 r).flatten ++ natStr c2)), _, hw, ?_, hpt, ?_, ?_⟩
    · unfold fromOrbit; rw [hw]; exact hpt
    · rfl
    · rw [← hex]; exact ht
  · -- three-line format
    have hemp : r.name.isEmpty = false := by cases hr : r.name with
      | nil => exact absurd hr hne
      | cons _ _ => rfl
    rw [hemp] at hw
    simp only [Bool.false_eq_true, if_false] at hw
    have hname : nameOf r.name = r.name := by unfold nameOf; simp only [hns, hn0]; rfl
    have hpt : parseTle [r.name, (chunks1 r).flatten ++ natStr c1, (chunks2 r).flatten ++ natStr c2] =
        .ok { expected r ((chunks1 r).flatten ++ natStr c1) ((chunks2 r).flatten ++ natStr c2) with name := r.name } := by
      show (parseBody _).map _ = _
      rw [hp, hname]; rfl
    refine ⟨_, _, hw, ?_, hpt, ?_, ht⟩
    · unfold fromOrbit; rw [hw]; exact hpt
    · show (if r.name.isEmpty then _ else _) = _
      rw [hemp]; rfl


/-- **any orbit that can be written parses back to the same elements** (and, read the other way, **every numeric
field is preserved to its printed precision**): for EVERY record `r` inside the ranges of the format — five-digit
catalogue number, empty or full designator, signed/zero drag and ṅ terms with any one-digit exponent, e in [0,1),
angles in [0,360), n < 100, element numbers 0–9999, revolution numbers 0–99999, every day of the years 1957–2056,
with or without name line — `Tle.from_orbit` succeeds, the `Tle` it returns shows exactly the written lines, and
reading that `Tle` back (`orbit()` followed by the writer's numeric prelude) gives `r` again, field for field. -/
theorem parse_write_id (r : Rec) (h : InRange r) :
    ∃ p lines, writeRec r = .ok lines ∧ fromOrbit r = .ok p ∧ parseTle lines = .ok p ∧ tleStr p = lines ∧
      toRec p = .ok r :=
  roundtrip_aux r h.wide r (toRec_expected r h)

/-- **parsing a well-formed TLE and writing the resulting orbit back produces the identical lines, name line
included**: for EVERY text the writer can produce from a record inside the ranges of the format (the canonical
well-formed TLEs), `Tle.from_orbit(Tle(text).orbit())` succeeds and shows exactly `text`. -/
theorem write_parse_id (r : Rec) (h : InRange r) (lines : List Str) (hl : writeRec r = .ok lines) :
    ∃ p, rewrite lines = .ok p ∧ tleStr p = lines := by
  obtain ⟨p, lines', hw, hf, hp, hs, ht⟩ := parse_write_id r h
  rw [hl] at hw
  injection hw with e
  subst e
  refine ⟨p, ?_, hs⟩
  unfold rewrite
  rw [hp]
  simp only [bind, Except.bind]
  rw [ht]
  exact hf


/-- the hypotheses are met by the reference TLE (three-line format, signed drag term, negative ṅ) -/
example : ∃ p lines, writeRec issRec = .ok lines ∧ fromOrbit issRec = .ok p ∧ parseTle lines = .ok p ∧ tleStr p = lines ∧
    toRec p = .ok issRec := parse_write_id issRec issRec_inRange

/-! ## Clause 4 — a multi-TLE text yields exactly its valid entries

(`from_string_yields_valid_entries` was `…_partial` — entries whose lines kept their numbers only — until the
repair 7d01f12 of `Tle.from_string`; the case of a lost line number is now true of the code and proved.) -/

/-- lines that `from_string` skips: blank or starting with the comment mark -/
def skipped (l : Str) : Bool := (strip l).isEmpty || startsWith l ['#']

/-- an entry of a multi-TLE text: optional name line and two element lines (possibly corrupted) -/
structure Block where
  name : Option Str
  l1 : Str
  l2 : Str

def Block.lines (b : Block) : List Str := b.name.toList ++ [b.l1, b.l2]

theorem startsWith_2_not_1 (l : Str) (h : startsWith l ['2', ' '] = true) : startsWith l ['1', ' '] = false := by
  cases l with
  | nil => simp [startsWith, List.isPrefixOf] at h
  | cons c cs =>
    simp only [startsWith, List.isPrefixOf, Bool.and_eq_true, beq_iff_eq] at h
    have : c = '2' := h.1.symm
    subst this
    simp [startsWith, List.isPrefixOf]

/-! ### every failure of the validity check is a `ValueError` (what `from_string` catches) -/

theorem checkLine_error {i : Nat} {l : Str} {e : Err} (h : checkLine i l = .error e) : isValueError e = true := by
  unfold checkLine at h
  simp only at h
  split at h
  · cases h; rfl
  · split at h
    · cases h; rfl
    · split at h
      · cases h
      · cases h; rfl

theorem checkLines_error {i : Nat} {ls : List Str} {e : Err} (h : checkLines i ls = .error e) : isValueError e = true := by
  induction ls generalizing i with
  | nil => simp [checkLines] at h
  | cons l ls ih =>
    simp only [checkLines] at h
    cases hl : checkLine i l with
    | error e' =>
      rw [hl] at h
      simp [bind, Except.bind] at h
      subst h
      exact checkLine_error hl
    | ok u =>
      rw [hl] at h
      simp [bind, Except.bind] at h
      exact ih h

theorem checkValidity_error {t : List Str} {e : Err} (h : checkValidity t = .error e) : isValueError e = true := by
  unfold checkValidity at h
  split at h
  · split at h
    · cases h; rfl
    · split at h
      · cases h; rfl
      · exact checkLines_error h
  · cases h; rfl

theorem parseBody_invalid {t : List Str} (h : checkValidity t ≠ .ok ()) :
    ∃ e, parseBody t = .error e ∧ isValueError e = true := by
  cases hv : checkValidity t with
  | ok u => exact absurd hv h
  | error e =>
    refine ⟨e, ?_, checkValidity_error hv⟩
    unfold parseBody
    rw [hv]
    rfl

theorem bad_pair {a b : Str} (h : ¬ LineOk a ∨ ¬ LineOk b) : checkValidity [a, b] ≠ .ok () := by
  intro hv
  obtain ⟨_, _, _, _, _, _, hall⟩ := (valid_iff _).1 hv
  rcases h with h | h
  · exact h (hall a (by simp))
  · exact h (hall b (by simp))

def unname (p : Parsed) : Parsed := { p with name := [] }

theorem unname_rename (p : Parsed) (n : Str) : unname { p with name := n } = unname p := rfl

/-! ### one step of the generator -/

theorem fs_other (st : FsState) (l : Str) (ha : st.abort = none) (hs : skipped l = false)
    (h1 : startsWith l ['1', ' '] = false) (h2 : startsWith l ['2', ' '] = false) :
    fsStep st l = { st with cache := [l] } := by
  unfold skipped at hs
  unfold fsStep; simp [ha, hs, h1, h2]

theorem fs_one (st : FsState) (l : Str) (ha : st.abort = none) (hs : skipped l = false)
    (h1 : startsWith l ['1', ' '] = true) :
    fsStep st l = { st with cache := (st.cache.getLast?.toList.filter (fun x => !startsWith x ['1', ' '])) ++ [l] } := by
  unfold skipped at hs
  unfold fsStep; simp [ha, hs, h1]

theorem fs_two_ok (st : FsState) (l : Str) (p : Parsed) (ha : st.abort = none) (hs : skipped l = false)
    (h2 : startsWith l ['2', ' '] = true) (hp : parseTle (st.cache ++ [l]) = .ok p) :
    fsStep st l = { st with cache := [], out := st.out ++ [p] } := by
  unfold skipped at hs
  unfold fsStep; simp [ha, hs, startsWith_2_not_1 l h2, h2, hp]

theorem fs_two_err (st : FsState) (l : Str) (e : Err) (ha : st.abort = none) (hs : skipped l = false)
    (h2 : startsWith l ['2', ' '] = true) (hp : parseTle (st.cache ++ [l]) = .error e) (he : isValueError e = true) :
    fsStep st l = { st with cache := [] } := by
  unfold skipped at hs
  unfold fsStep; simp [ha, hs, startsWith_2_not_1 l h2, h2, hp, he]


/-! ### one entry -/

/-- between entries the cache is empty, or holds one line that fails the per-line check (the remains of an entry
whose second line lost its number) -/
def Inv (st : FsState) : Prop := st.abort = none ∧ (st.cache = [] ∨ ∃ x, st.cache = [x] ∧ ¬ LineOk x)

def Block.framed (b : Block) : Bool := startsWith b.l1 ['1', ' '] && startsWith b.l2 ['2', ' ']

/-- what the entry contributes: the `Tle` of its two element lines when both kept their line numbers and the pair is
accepted (name aside) -/
def Block.yield (b : Block) : Option Parsed :=
  if b.framed then ((parseBody [b.l1, b.l2]).toOption).map unname else none

/-- the entries the property quantifies over: no blank or comment line; the name line (if any) does not look like an
element line; at most ONE of the two element lines lost its `1 ` / `2 ` prefix, and that line then fails the per-line
check (true of every single-digit or length corruption, see `digit_corruption_rejected`); constructing an entry from
two properly numbered lines fails, if it fails, with a `ValueError`. -/
structure Block.Shaped (b : Block) : Prop where
  s1 : skipped b.l1 = false
  s2 : skipped b.l2 = false
  hn : ∀ n, b.name = some n → skipped n = false ∧ startsWith n ['1', ' '] = false ∧ startsWith n ['2', ' '] = false
  shape : (startsWith b.l1 ['1', ' '] = true ∧ startsWith b.l2 ['2', ' '] = true) ∨
          (startsWith b.l1 ['1', ' '] = false ∧ ¬ LineOk b.l1 ∧ startsWith b.l2 ['2', ' '] = true) ∨
          (startsWith b.l1 ['1', ' '] = true ∧ startsWith b.l2 ['2', ' '] = false ∧ ¬ LineOk b.l2)
  hv : b.framed = true → ∀ e, parseBody [b.l1, b.l2] = .error e → isValueError e = true

theorem fs_pair (st : FsState) (b : Block) (hb : b.Shaped) (ha : st.abort = none)
    (hc : st.cache = [] ∨ ∃ y, st.cache = [y]) :
    Inv ([b.l1, b.l2].foldl fsStep st) ∧
    ([b.l1, b.l2].foldl fsStep st).out.map unname = st.out.map unname ++ b.yield.toList := by
  obtain ⟨s1, s2, _, shape, hv⟩ := hb
  simp only [List.foldl_cons, List.foldl_nil]
  rcases shape with ⟨h1, h2⟩ | ⟨h1, bad1, h2⟩ | ⟨h1, h2, bad2⟩
  · -- both lines numbered: the pair is tried with at most one line (a name) in front of it
    have hf : b.framed = true := by simp [Block.framed, h1, h2]
    have hy : b.yield = ((parseBody [b.l1, b.l2]).toOption).map unname := by simp [Block.yield, hf]
    have e1 := fs_one st b.l1 ha s1 h1
    generalize fsStep st b.l1 = st1 at e1 ⊢
    have a1 : st1.abort = none := by rw [e1]; exact ha
    have o1 : st1.out = st.out := by rw [e1]
    have hcache : st1.cache = [b.l1] ∨ ∃ y, st1.cache = [y, b.l1] := by
      rw [e1]
      rcases hc with hc | ⟨y, hc⟩
      · left; simp [hc]
      · by_cases hy1 : startsWith y ['1', ' '] = true
        · left; simp [hc, hy1]
        · right; exact ⟨y, by simp [hc, hy1]⟩
    cases hp : parseBody [b.l1, b.l2] with
    | error e =>
      have he := hv hf e hp
      have hatt : parseTle (st1.cache ++ [b.l2]) = .error e := by
        rcases hcache with h | ⟨y, h⟩
        · rw [h]; exact hp
        · rw [h]; show (parseBody [b.l1, b.l2]).map _ = _; rw [hp]; rfl
      rw [fs_two_err st1 b.l2 e a1 s2 h2 hatt he]
      refine ⟨⟨a1, Or.inl rfl⟩, ?_⟩
      simp [hy, hp, Except.toOption, o1]
    | ok p =>
      have hatt : ∃ p', parseTle (st1.cache ++ [b.l2]) = .ok p' ∧ unname p' = unname p := by
        rcases hcache with h | ⟨y, h⟩
        · exact ⟨p, by rw [h]; exact hp, rfl⟩
        · refine ⟨{ p with name := nameOf y }, ?_, unname_rename p _⟩
          rw [h]; show (parseBody [b.l1, b.l2]).map _ = _; rw [hp]; rfl
      obtain ⟨p', hatt, hun⟩ := hatt
      rw [fs_two_ok st1 b.l2 p' a1 s2 h2 hatt]
      refine ⟨⟨a1, Or.inl rfl⟩, ?_⟩
      simp [hy, hp, Except.toOption, hun, o1]
  · -- line 1 lost its number: whatever is tried contains the bad line among its element lines
    have hf : b.framed = false := by simp [Block.framed, h1]
    have hy : b.yield = none := by simp [Block.yield, hf]
    by_cases h12 : startsWith b.l1 ['2', ' '] = true
    · -- it is taken for a line 2
      have hfail : ∃ e, parseTle (st.cache ++ [b.l1]) = .error e ∧ isValueError e = true := by
        rcases hc with hc | ⟨y, hc⟩
        · rw [hc]; exact ⟨.lineCount 1, rfl, rfl⟩
        · rw [hc]; exact parseBody_invalid (bad_pair (Or.inr bad1))
      obtain ⟨e, he1, he2⟩ := hfail
      have e1 := fs_two_err st b.l1 e ha s1 h12 he1 he2
      generalize fsStep st b.l1 = st1 at e1 ⊢
      have a1 : st1.abort = none := by rw [e1]; exact ha
      have o1 : st1.out = st.out := by rw [e1]
      have c1 : st1.cache = [] := by rw [e1]
      have : parseTle (st1.cache ++ [b.l2]) = .error (.lineCount 1) := by rw [c1]; rfl
      rw [fs_two_err st1 b.l2 _ a1 s2 h2 this rfl]
      exact ⟨⟨a1, Or.inl rfl⟩, by simp [hy, o1]⟩
    · -- it is taken for a name line
      have h12' : startsWith b.l1 ['2', ' '] = false := by simpa using h12
      have e1 := fs_other st b.l1 ha s1 h1 h12'
      generalize fsStep st b.l1 = st1 at e1 ⊢
      have a1 : st1.abort = none := by rw [e1]; exact ha
      have o1 : st1.out = st.out := by rw [e1]
      have c1 : st1.cache = [b.l1] := by rw [e1]
      obtain ⟨e, he1, he2⟩ := parseBody_invalid (bad_pair (a := b.l1) (b := b.l2) (Or.inl bad1))
      have hatt : parseTle (st1.cache ++ [b.l2]) = .error e := by rw [c1]; exact he1
      rw [fs_two_err st1 b.l2 e a1 s2 h2 hatt he2]
      exact ⟨⟨a1, Or.inl rfl⟩, by simp [hy, o1]⟩
  · -- line 2 lost its number: it stays alone in the cache
    have hf : b.framed = false := by simp [Block.framed, h2]
    have hy : b.yield = none := by simp [Block.yield, hf]
    have e1 := fs_one st b.l1 ha s1 h1
    generalize fsStep st b.l1 = st1 at e1 ⊢
    have a1 : st1.abort = none := by rw [e1]; exact ha
    have o1 : st1.out = st.out := by rw [e1]
    have hlast : st1.cache.getLast? = some b.l1 := by rw [e1]; simp
    by_cases h21 : startsWith b.l2 ['1', ' '] = true
    · rw [fs_one st1 b.l2 a1 s2 h21]
      refine ⟨⟨a1, Or.inr ⟨b.l2, ?_, bad2⟩⟩, by simp [hy, o1]⟩
      simp [hlast, h1]
    · have h21' : startsWith b.l2 ['1', ' '] = false := by simpa using h21
      rw [fs_other st1 b.l2 a1 s2 h21' h2]
      exact ⟨⟨a1, Or.inr ⟨b.l2, rfl, bad2⟩⟩, by simp [hy, o1]⟩

theorem fs_block_full (st : FsState) (b : Block) (hb : b.Shaped) (hi : Inv st) :
    Inv (b.lines.foldl fsStep st) ∧
    (b.lines.foldl fsStep st).out.map unname = st.out.map unname ++ b.yield.toList := by
  obtain ⟨ha, hc⟩ := hi
  have hc' : st.cache = [] ∨ ∃ y, st.cache = [y] := by
    rcases hc with h | ⟨x, h, _⟩
    · exact Or.inl h
    · exact Or.inr ⟨x, h⟩
  cases hname : b.name with
  | none =>
    have : b.lines = [b.l1, b.l2] := by simp [Block.lines, hname]
    rw [this]
    exact fs_pair st b hb ha hc'
  | some n =>
    obtain ⟨sn, n1, n2⟩ := hb.hn n hname
    have : b.lines = n :: [b.l1, b.l2] := by simp [Block.lines, hname]
    rw [this, List.foldl_cons, fs_other st n ha sn n1 n2]
    exact fs_pair { st with cache := [n] } b hb ha (Or.inr ⟨n, rfl⟩)

/-- **a multi-TLE text yields exactly its valid entries**: for EVERY text made of entries (with or without name
line, in any mix) each of which is intact or corrupted — anywhere in its digits, in its length, or in ONE of its two
line numbers — `from_string` yields, in order and name aside, exactly the `Tle` of every entry whose two lines kept
their numbers and are accepted by `Tle(...)`; nothing else is yielded, no valid entry is lost after a corrupted one,
and the generator does not abort. -/
theorem from_string_yields_valid_entries (blocks : List Block) (hb : ∀ b ∈ blocks, b.Shaped) :
    (fromString (blocks.flatMap Block.lines)).out.map unname = blocks.filterMap Block.yield ∧
    (fromString (blocks.flatMap Block.lines)).abort = none := by
  unfold fromString
  have key : ∀ (bs : List Block) (st : FsState), (∀ b ∈ bs, b.Shaped) → Inv st →
      ((bs.flatMap Block.lines).foldl fsStep st).out.map unname = st.out.map unname ++ bs.filterMap Block.yield ∧
      ((bs.flatMap Block.lines).foldl fsStep st).abort = none := by
    intro bs
    induction bs with
    | nil => intro st _ hi; simp [hi.1]
    | cons b bs ih =>
      intro st hall hi
      obtain ⟨hi', ho⟩ := fs_block_full st b (hall b (by simp)) hi
      simp only [List.flatMap_cons, List.foldl_append]
      obtain ⟨r1, r2⟩ := ih (b.lines.foldl fsStep st) (fun x hx => hall x (by simp [hx])) hi'
      refine ⟨?_, r2⟩
      rw [r1, ho, List.filterMap_cons]
      cases b.yield <;> simp
  have := key blocks {} hb ⟨rfl, Or.inl rfl⟩
  simpa using this


/-- an entry whose two element lines kept their numbers (they may be corrupted anywhere else) -/
structure Block.Framed (b : Block) : Prop where
  h1 : startsWith b.l1 ['1', ' '] = true
  h2 : startsWith b.l2 ['2', ' '] = true
  s1 : skipped b.l1 = false
  s2 : skipped b.l2 = false
  hn : ∀ n, b.name = some n → skipped n = false ∧ startsWith n ['1', ' '] = false ∧ startsWith n ['2', ' '] = false
  hv : ∀ e, parseTle b.lines = .error e → isValueError e = true

theorem fs_block_framed (st : FsState) (b : Block) (hb : b.Framed) (hc : st.cache = []) (ha : st.abort = none) :
    (b.lines.foldl fsStep st).cache = [] ∧ (b.lines.foldl fsStep st).abort = none ∧
    (b.lines.foldl fsStep st).out = st.out ++ ((parseTle b.lines).toOption).toList := by
  obtain ⟨h1, h2, s1, s2, hn, hv⟩ := hb
  have tail : ∀ (st0 : FsState) (pre : List Str), st0.abort = none → st0.out = st.out → b.lines = pre ++ [b.l1, b.l2] →
      st0.cache = pre → (∀ x, pre.getLast? = some x → startsWith x ['1', ' '] = false) → pre.length ≤ 1 →
      ([b.l1, b.l2].foldl fsStep st0).cache = [] ∧ ([b.l1, b.l2].foldl fsStep st0).abort = none ∧
      ([b.l1, b.l2].foldl fsStep st0).out = st.out ++ ((parseTle b.lines).toOption).toList := by
    intro st0 pre a0 o0 hl c0 hpre hlen
    simp only [List.foldl_cons, List.foldl_nil]
    have e1 := fs_one st0 b.l1 a0 s1 h1
    generalize fsStep st0 b.l1 = st1 at e1 ⊢
    have a1 : st1.abort = none := by rw [e1]; exact a0
    have o1 : st1.out = st.out := by rw [e1]; exact o0
    have c1 : st1.cache = pre ++ [b.l1] := by
      rw [e1, c0]
      match pre, hpre, hlen with
      | [], _, _ => simp
      | [x], hpre, _ => simp [hpre x (by simp)]
      | _ :: _ :: _, _, hlen => simp at hlen
    have hatt : parseTle (st1.cache ++ [b.l2]) = parseTle b.lines := by rw [c1, hl]; simp
    cases hp : parseTle b.lines with
    | ok p =>
      rw [fs_two_ok st1 b.l2 p a1 s2 h2 (hatt.trans hp)]
      exact ⟨rfl, a1, by simp [o1, Except.toOption]⟩
    | error e =>
      rw [fs_two_err st1 b.l2 e a1 s2 h2 (hatt.trans hp) (hv e hp)]
      exact ⟨rfl, a1, by simp [o1, Except.toOption]⟩
  cases hname : b.name with
  | none =>
    have hl : b.lines = [] ++ [b.l1, b.l2] := by simp [Block.lines, hname]
    rw [show b.lines.foldl fsStep st = [b.l1, b.l2].foldl fsStep st by rw [hl]; rfl]
    exact tail st [] ha rfl hl hc (by simp) (by simp)
  | some n =>
    obtain ⟨sn, n1, n2⟩ := hn n hname
    have hl : b.lines = [n] ++ [b.l1, b.l2] := by simp [Block.lines, hname]
    rw [show b.lines.foldl fsStep st = [b.l1, b.l2].foldl fsStep (fsStep st n) by rw [hl]; rfl,
      fs_other st n ha sn n1 n2]
    exact tail { st with cache := [n] } [n] ha rfl hl rfl (by intro x hx; simp at hx; subst hx; exact n1) (by simp)

/-- for a text made only of entries whose element lines kept their numbers, the yielded `Tle` objects are exactly,
name line included, what `Tle(...)` makes of each accepted entry -/
theorem from_string_framed_exact (blocks : List Block) (hb : ∀ b ∈ blocks, b.Framed) :
    (fromString (blocks.flatMap Block.lines)).out = blocks.filterMap (fun b => (parseTle b.lines).toOption) ∧
    (fromString (blocks.flatMap Block.lines)).abort = none := by
  unfold fromString
  have key : ∀ (bs : List Block) (st : FsState), (∀ b ∈ bs, b.Framed) → st.cache = [] → st.abort = none →
      ((bs.flatMap Block.lines).foldl fsStep st).out = st.out ++ bs.filterMap (fun b => (parseTle b.lines).toOption) ∧
      ((bs.flatMap Block.lines).foldl fsStep st).abort = none := by
    intro bs
    induction bs with
    | nil => intro st _ _ ha; simp [ha]
    | cons b bs ih =>
      intro st hall hc ha
      obtain ⟨c', a', o'⟩ := fs_block_framed st b (hall b (by simp)) hc ha
      simp only [List.flatMap_cons, List.foldl_append]
      obtain ⟨r1, r2⟩ := ih (b.lines.foldl fsStep st) (fun x hx => hall x (by simp [hx])) c' a'
      refine ⟨?_, r2⟩
      rw [r1, o', List.filterMap_cons]
      cases hp : (parseTle b.lines).toOption with
      | some p => simp
      | none => simp
  have := key blocks {} hb rfl rfl
  simpa using this

def refL1 : Str := "1 25544U 98067A   08264.51782528 -.00002182  00000-0 -11606-4 0  2927".toList
def refL2 : Str := "2 25544  51.6416 247.4627 0006703 130.5360 325.0288 15.72125391563537".toList
def refL2bad : Str := "2 25544  51.6416 247.4627 0006703 130.5360 325.0288 15.72125391563538".toList
def refL2as1 : Str := "1 25544  51.6416 247.4627 0006703 130.5360 325.0288 15.72125391563537".toList

theorem not_lineOk_of_checksum {l : Str} {c : Nat} (hs : strip l = l) (hc : checksum l = some c)
    (hne : natStr c ≠ slice l (68, 69)) : ¬ LineOk l := by
  rintro ⟨_, c', hc', h'⟩
  rw [hs] at hc' h'
  rw [hc] at hc'
  cases hc'
  exact hne h'

/-- the hypotheses of `from_string_yields_valid_entries` are met by a named valid entry, by an unnamed entry with a
wrong checksum and by an entry whose second line number was corrupted from 2 to 1 -/
example : (Block.mk (some "ISS (ZARYA)".toList) refL1 refL2).Shaped ∧ (Block.mk none refL1 refL2bad).Shaped ∧
    (Block.mk none refL1 refL2as1).Shaped := by
  refine ⟨⟨by decide, by decide, ?_, Or.inl ⟨by decide, by decide⟩, ?_⟩,
          ⟨by decide, by decide, ?_, Or.inl ⟨by decide, by decide⟩, ?_⟩,
          ⟨by decide, by decide, ?_, Or.inr (Or.inr ⟨by decide, by decide, ?_⟩), ?_⟩⟩
  · intro n h; cases h; decide
  · intro _ e h
    have hh : (parseBody [refL1, refL2]).toOption.isSome = true := by decide
    rw [h] at hh; simp [Except.toOption] at hh
  · intro n h; cases h
  · intro _ e h
    have hh : (match parseBody [refL1, refL2bad] with | .error e => isValueError e | .ok _ => false) = true := by decide
    rw [h] at hh; exact hh
  · intro n h; cases h
  · exact not_lineOk_of_checksum (c := 6) (by decide) (by decide) (by decide)
  · intro hf; exact absurd hf (by decide)

/-! ## Clause 1 on the reference TLEs of the test-suite (kernel evaluation of the model) -/

/-- parse → orbit → write reproduces the text, name line included, for the three TLEs of tests/io/test_tle.py
(four-digit element numbers, empty designator, negative ṅ, zero and signed drag terms) -/
theorem reference_tles_roundtrip :
    (rewrite ["ISS (ZARYA)".toList, refL1, refL2]).toOption.map tleStr = some ["ISS (ZARYA)".toList, refL1, refL2] ∧
    (rewrite ["UNKNOWN".toList,
      "1 81014U          19071.50347758  .00025823  00000-0  22146-2 0  9998".toList,
      "2 81014  51.3262 117.7468 2910898 126.0686 264.6106  9.45290855184707".toList]).toOption.map tleStr = some ["UNKNOWN".toList,
      "1 81014U          19071.50347758  .00025823  00000-0  22146-2 0  9998".toList,
      "2 81014  51.3262 117.7468 2910898 126.0686 264.6106  9.45290855184707".toList] ∧
    (rewrite [
      "1 00014U          19071.50347758  .00025823  00000-0  22146-2 0  9999".toList,
      "2 00014  51.3262 117.7468 2910898 126.0686 264.6106  9.45290855184708".toList]).toOption.map tleStr = some [
      "1 00014U          19071.50347758  .00025823  00000-0  22146-2 0  9999".toList,
      "2 00014  51.3262 117.7468 2910898 126.0686 264.6106  9.45290855184708".toList] := by decide


end BeyondVerif.C12
