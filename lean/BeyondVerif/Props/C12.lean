import BeyondVerif.Lemmas.Tle

/-!
# C12 — TLE text round-trips and is validated

Property theorems about the model `Model/Tle.lean` of `beyond/io/tle.py` (column slices, checksum constants and the
writer's field layout regenerated from the source into `Generated/TleColumns.lean` on every run; the model is tied
to the code by an exact differential correspondence run).
-/
namespace BeyondVerif.C12
open BeyondVerif.Tle

/-! ## Clause 3 — a line whose checksum, length or line number is wrong is rejected -/

/-- **checksum detects every single-digit error**: for EVERY line, every position below 68 that holds a digit and
every different digit put there, the modulo-10 checksum changes. -/
theorem checksum_detects_digit_error (line : Str) (i : Nat) (c d : Char) (k : Nat)
    (hi : i < 68) (hc : line[i]? = some c) (hcd : isDigit c = true) (hd : isDigit d = true) (hne : d ≠ c)
    (hk : checksum line = some k) : ∃ k', checksum (line.set i d) = some k' ∧ k' ≠ k := by
  unfold checksum at hk ⊢
  simp only [Generated.Tle.ckLen] at hk ⊢
  rw [List.take_set]
  cases hs : sumVals (List.take 68 line) with
  | none => rw [hs] at hk; simp at hk
  | some s =>
    rw [hs] at hk
    simp at hk
    have hc' : (List.take 68 line)[i]? = some c := by rw [List.getElem?_take]; simp [hi, hc]
    obtain ⟨hle, hset⟩ := sumVals_set _ i c d s hc' hcd hd hs
    refine ⟨(s - digitVal c + digitVal d) % 10, by rw [hset]; rfl, ?_⟩
    have h1 := digitVal_lt hcd
    have h2 := digitVal_lt hd
    have h3 : digitVal d ≠ digitVal c := by
      intro h
      apply hne
      rw [← digitChar_digitVal hd, ← digitChar_digitVal hcd, h]
    omega

example : checksum "1 25544U 98067A   08264.51782528 -.00002182  00000-0 -11606-4 0  2927".toList = some 7 := by decide

/-- what `_check_validity` demands of one line: 69 characters once stripped, and the 69th is the checksum digit -/
def LineOk (l : Str) : Prop :=
  (strip l).length = 69 ∧ ∃ c, checksum (strip l) = some c ∧ natStr c = slice (strip l) (68, 69)

theorem checkLine_ok_iff (i : Nat) (l : Str) : checkLine i l = .ok () ↔ LineOk l := by
  unfold checkLine LineOk
  simp only [Generated.Tle.lineLen, Generated.Tle.ckPos]
  by_cases hlen : (strip l).length = 69
  · simp only [hlen, ne_eq, not_true_eq_false, if_false, true_and]
    cases hck : checksum (strip l) with
    | none => simp
    | some c =>
      simp only [Option.some.injEq, exists_eq_left', Nat.reduceAdd]
      by_cases h : natStr c = slice (strip l) (68, 69) <;> simp [h]
  · simp [hlen]

theorem checkLines_ok_iff (i : Nat) (ls : List Str) : checkLines i ls = .ok () ↔ ∀ l ∈ ls, LineOk l := by
  induction ls generalizing i with
  | nil => simp [checkLines]
  | cons l ls ih =>
    simp only [checkLines, List.mem_cons, forall_eq_or_imp]
    rw [← checkLine_ok_iff i l, ← ih (i + 1)]
    cases h : checkLine i l with
    | error e => simp [bind, Except.bind]
    | ok u => simp [bind, Except.bind]

/-- **length, line number and checksum are all checked**: `_check_validity` accepts a text exactly when it has at
least two lines, the first (second) one starts — blanks aside — with `"1 "` (`"2 "`), and EVERY line of the text is,
once stripped, 69 characters long with its 69th character equal to the checksum of the first 68. -/
theorem valid_iff (text : List Str) : checkValidity text = .ok () ↔
    ∃ t0 t1 rest, text = t0 :: t1 :: rest ∧ startsWith (lstrip t0) ['1', ' '] = true ∧
      startsWith (lstrip t1) ['2', ' '] = true ∧ ∀ l ∈ text, LineOk l := by
  unfold checkValidity
  match text with
  | [] => simp
  | [t0] =>
    simp only [List.cons.injEq, List.nil_eq, reduceCtorEq, and_false, false_and, exists_false, iff_false]
    split <;> simp
  | t0 :: t1 :: rest =>
    by_cases h0 : startsWith (lstrip t0) ['1', ' '] = true
    · by_cases h1 : startsWith (lstrip t1) ['2', ' '] = true
      · simp only [h0, h1, Bool.not_true, Bool.false_eq_true, if_false]
        rw [checkLines_ok_iff]
        constructor
        · intro h; exact ⟨t0, t1, rest, rfl, h0, h1, h⟩
        · rintro ⟨_, _, _, _, _, _, h⟩; exact h
      · simp only [h0, h1, Bool.not_true, Bool.false_eq_true, if_false, Bool.not_false, if_true]
        constructor
        · intro h; cases h
        · rintro ⟨_, _, _, heq, _, h, _⟩; cases heq; exact absurd h h1
    · simp only [h0, Bool.not_false, if_true]
      constructor
      · intro h; cases h
      · rintro ⟨_, _, _, heq, h, _, _⟩; cases heq; exact absurd h h0

/-- wrong **length**: a text in which some line, once stripped, is not 69 characters long is rejected -/
theorem length_checked (text : List Str) (l : Str) (hl : l ∈ text) (hlen : (strip l).length ≠ 69) :
    checkValidity text ≠ .ok () := by
  intro h
  obtain ⟨_, _, _, _, _, _, hall⟩ := (valid_iff text).1 h
  exact hlen (hall l hl).1

/-- wrong **line number**: a first line that does not start with `1 ` or a second line that does not start with `2 ` -/
theorem line_number_checked (t0 t1 : Str) (rest : List Str)
    (h : startsWith (lstrip t0) ['1', ' '] = false ∨ startsWith (lstrip t1) ['2', ' '] = false) :
    checkValidity (t0 :: t1 :: rest) = .error .lineNumber := by
  unfold checkValidity
  rcases h with h | h
  · simp [h]
  · by_cases h0 : startsWith (lstrip t0) ['1', ' '] = true <;> simp [h0, h]

/-- **every corruption of a single digit is rejected**: take ANY 69-character line that passes the per-line check,
ANY of its 69 positions that holds a digit (this includes the line number in column 1 and the checksum in
column 69) and ANY different digit: the corrupted line does not pass. -/
theorem digit_corruption_rejected (l : Str) (i : Nat) (c d : Char)
    (hlen : l.length = 69) (hok : LineOk l) (hc : l[i]? = some c)
    (hcd : isDigit c = true) (hd : isDigit d = true) (hne : d ≠ c) : ¬ LineOk (l.set i d) := by
  obtain ⟨hslen, k, hk, hks⟩ := hok
  obtain ⟨hs, _⟩ := strip_eq_of_length (hslen.trans hlen.symm)
  rw [hs] at hk hks
  have hi : i < 69 := by
    rcases Nat.lt_or_ge i 69 with h | h
    · exact h
    · rw [List.getElem?_eq_none (by omega)] at hc; cases hc
  -- the corrupted line still has no surrounding blank
  have hs' : strip (l.set i d) = l.set i d := by
    rw [strip_eq_iff] at hs ⊢
    obtain ⟨h0, h1⟩ := hs
    have hdw := isWs_of_isDigit hd
    constructor
    · intro x hx
      rw [List.getElem?_set] at hx
      split at hx
      · split at hx
        · cases hx; exact hdw
        · cases hx
      · exact h0 x hx
    · intro x hx
      rw [List.length_set, List.getElem?_set] at hx
      split at hx
      · split at hx
        · cases hx; exact hdw
        · cases hx
      · exact h1 x hx
  rintro ⟨_, k', hk', hks'⟩
  rw [hs'] at hk' hks'
  rw [slice_one] at hks hks'
  rcases Nat.lt_or_ge i 68 with h68 | h68
  · -- a digit inside the summed part: the checksum changes, the check digit does not
    obtain ⟨k2, hk2, hne2⟩ := checksum_detects_digit_error l i c d k h68 hc hcd hd hne hk
    have hkk : k2 = k' := Option.some.inj (hk2.symm.trans hk')
    subst hkk
    rw [List.getElem?_set_ne (by omega)] at hks'
    have hklt : k < 10 := by unfold checksum at hk; cases hsv : sumVals (List.take Generated.Tle.ckLen l) <;> simp_all <;> omega
    have hk2lt : k2 < 10 := by unfold checksum at hk2; cases hsv : sumVals (List.take Generated.Tle.ckLen (l.set i d)) <;> simp_all <;> omega
    rw [natStr_lt10 hklt] at hks
    rw [natStr_lt10 hk2lt, ← hks] at hks'
    simp at hks'
    apply hne2
    rw [← digitVal_digitChar hk2lt, ← digitVal_digitChar hklt, hks']
  · -- the check digit itself
    have : i = 68 := by omega
    subst this
    have hsame : checksum (l.set 68 d) = checksum l := by
      unfold checksum
      simp only [Generated.Tle.ckLen]
      rw [List.take_set]
      congr 2
      apply List.set_eq_of_length_le
      simp only [List.length_take]
      omega
    rw [hsame, hk] at hk'
    cases hk'
    rw [hc] at hks
    rw [List.getElem?_set_self (by omega)] at hks'
    simp at hks hks'
    rw [hks] at hks'
    simp at hks'
    exact hne hks'.symm

example : LineOk "1 25544U 98067A   08264.51782528 -.00002182  00000-0 -11606-4 0  2927".toList := by
  refine ⟨by decide, 7, by decide, by decide⟩

/-! ## Clause 1 (epoch part) — the epoch is preserved to 1e-8 day -/

theorem roundDiv_mul (x : Int) (a : Nat) (ha : 0 < a) (c : Int) : roundDiv (x * c * a) a = x * c := by
  unfold roundDiv
  have h1 : x * c * (a : Int) / (a : Int) = x * c := Int.mul_ediv_cancel _ (by omega)
  have h2 : x * c * (a : Int) % (a : Int) = 0 := Int.mul_emod_left _ _
  simp only [h1, h2]
  rw [if_pos (by omega)]

/-- **epoch to 1e-8 day**: the day-of-year field `day8 · 1e-8` of year `y` is read as exactly `(day8 − 1e8) · 864`
microseconds after 1 January (1e-8 day is a whole number, 864, of the microseconds `datetime` counts in), that
instant lies in year `y`, and the writer's day-of-year computation returns `day8`. -/
theorem epoch_roundtrip (y day8 : Nat) (h1 : 100000000 ≤ day8)
    (h2 : day8 < (if isLeap y then 367 else 366) * 100000000) :
    epochMicros ⟨false, day8, 8⟩ = ((day8 : Int) - 100000000) * 864 ∧
    normYear 8 y (((day8 : Int) - 100000000) * 864) = some (y, ((day8 : Int) - 100000000) * 864) ∧
    ((((day8 : Int) - 100000000) * 864) / 86400000000 + 1) * 100000000
      + roundDiv ((((day8 : Int) - 100000000) * 864) % 86400000000 * 100000000) 86400000000 = day8 := by
  refine ⟨?_, ?_, ?_⟩
  · unfold epochMicros
    simp only [Bool.false_eq_true, if_false]
    have : ((8 : Int) ≥ 0) := by omega
    simp only [this, if_true]
    have t8 : (8 : Int).toNat = 8 := rfl
    have p1 : (10 : Int) ^ 8 = 100000000 := by decide
    have p2 : ((10 ^ 8 : Nat) : Int) = 100000000 := by decide
    have e : (((day8 : Int) - (10 : Int) ^ (8 : Int).toNat) * 86400000000) = ((day8 : Int) - 100000000) * 864 * ((10 ^ (8 : Int).toNat : Nat) : Int) := by
      rw [t8, p1, p2]; omega
    rw [e, roundDiv_mul _ _ (by rw [t8]; decide)]
  · show normYear (7 + 1) y _ = _
    unfold normYear
    have hpos : ¬ (((day8 : Int) - 100000000) * 864 < 0) := by omega
    have hlt : ¬ (((day8 : Int) - 100000000) * 864 ≥ yearMicros y) := by
      unfold yearMicros
      split at h2 <;> simp_all <;> omega
    simp [hpos, hlt]
  · have e : (((day8 : Int) - 100000000) * 864) % 86400000000 * 100000000
        = (((day8 : Int) - 100000000) % 100000000) * 1 * ((86400000000 : Nat) : Int) := by omega
    rw [e, roundDiv_mul _ _ (by decide)]
    omega


example : (100000000 : Nat) ≤ 26451782528 ∧ 26451782528 < (if isLeap 2008 then 367 else 366) * 100000000 := by decide

/-! ## Clause 4 — a multi-TLE text yields exactly its valid entries -/

/-- lines that `from_string` skips: blank or starting with the comment mark -/
def skipped (l : Str) : Bool := (strip l).isEmpty || startsWith l ['#']

/-- an entry of a multi-TLE text: optional name line, a line starting with `1 `, a line starting with `2 ` -/
structure Block where
  name : Option Str
  l1 : Str
  l2 : Str

def Block.lines (b : Block) : List Str := b.name.toList ++ [b.l1, b.l2]

/-- the two element lines kept their line numbers (whatever else happened to them), no line is blank or a comment,
and the name line (if any) is not mistaken for an element line -/
structure Block.Framed (b : Block) : Prop where
  h1 : startsWith b.l1 ['1', ' '] = true
  h2 : startsWith b.l2 ['2', ' '] = true
  s1 : skipped b.l1 = false
  s2 : skipped b.l2 = false
  hn : ∀ n, b.name = some n → skipped n = false ∧ startsWith n ['1', ' '] = false ∧ startsWith n ['2', ' '] = false
  /-- constructing the entry fails, if it fails, with a `ValueError` (what `from_string` catches) -/
  hv : ∀ e, parseTle b.lines = .error e → isValueError e = true

theorem startsWith_2_not_1 (l : Str) (h : startsWith l ['2', ' '] = true) : startsWith l ['1', ' '] = false := by
  cases l with
  | nil => simp [startsWith, List.isPrefixOf] at h
  | cons c cs =>
    simp only [startsWith, List.isPrefixOf, Bool.and_eq_true, beq_iff_eq] at h
    have : c = '2' := h.1.symm
    subst this
    simp [startsWith, List.isPrefixOf]

theorem fs_block (st : FsState) (b : Block) (hb : b.Framed) (hc : st.cache = []) (ha : st.abort = none) :
    let st' := b.lines.foldl fsStep st
    st'.cache = [] ∧ st'.abort = none ∧ st'.out = st.out ++ ((parseTle b.lines).toOption).toList := by
  obtain ⟨h1, h2, s1, s2, hn, hv⟩ := hb
  have h21 := startsWith_2_not_1 _ h2
  unfold skipped at s1 s2
  cases hname : b.name with
  | none =>
    have hl : b.lines = [b.l1, b.l2] := by simp [Block.lines, hname]
    rw [hl] at hv ⊢
    simp only [List.foldl_cons, List.foldl_nil]
    have e1 : fsStep st b.l1 = { st with cache := [b.l1] } := by
      unfold fsStep; simp [ha, s1, h1, hc]
    rw [e1]
    unfold fsStep
    simp only [ha, Option.isSome_none, Bool.false_eq_true, if_false, s2, h21, h2, if_true, List.cons_append, List.nil_append]
    cases hp : parseTle [b.l1, b.l2] with
    | ok p => simp [Except.toOption]
    | error e => simp [hv e hp, Except.toOption]
  | some n =>
    obtain ⟨sn, n1, n2⟩ := hn n hname
    unfold skipped at sn
    have hl : b.lines = [n, b.l1, b.l2] := by simp [Block.lines, hname]
    rw [hl] at hv ⊢
    simp only [List.foldl_cons, List.foldl_nil]
    have e0 : fsStep st n = { st with cache := [n] } := by
      unfold fsStep; simp [ha, sn, n1, n2]
    rw [e0]
    have e1 : fsStep { st with cache := [n] } b.l1 = { st with cache := [n, b.l1] } := by
      unfold fsStep; simp [ha, s1, h1]
    rw [e1]
    unfold fsStep
    simp only [ha, Option.isSome_none, Bool.false_eq_true, if_false, s2, h21, h2, if_true, List.cons_append, List.nil_append]
    cases hp : parseTle [n, b.l1, b.l2] with
    | ok p => simp [Except.toOption]
    | error e => simp [hv e hp, Except.toOption]

/-- **a multi-TLE text yields exactly its valid entries** — partial: for every text made of entries whose element
lines kept their `1 ` / `2 ` prefixes (each may be corrupted anywhere else: digits, length, checksum; with or without
name line), `from_string` yields, in order, exactly the entries that `Tle(...)` accepts and nothing else. -/
theorem from_string_yields_valid_entries_partial (blocks : List Block) (hb : ∀ b ∈ blocks, b.Framed) :
    (fromString (blocks.flatMap Block.lines)).out = blocks.filterMap (fun b => (parseTle b.lines).toOption) ∧
    (fromString (blocks.flatMap Block.lines)).abort = none := by
  unfold fromString
  have key : ∀ (bs : List Block) (st : FsState), (∀ b ∈ bs, b.Framed) → st.cache = [] → st.abort = none →
      ((bs.flatMap Block.lines).foldl fsStep st).out = st.out ++ bs.filterMap (fun b => (parseTle b.lines).toOption) ∧
      ((bs.flatMap Block.lines).foldl fsStep st).abort = none := by
    intro bs
    induction bs with
    | nil => intro st _ _ ha; simp [ha]
    | cons b bs ih =>
      intro st hall hc ha
      obtain ⟨c', a', o'⟩ := fs_block st b (hall b (by simp)) hc ha
      simp only [List.flatMap_cons, List.foldl_append]
      obtain ⟨r1, r2⟩ := ih (b.lines.foldl fsStep st) (fun x hx => hall x (by simp [hx])) c' a'
      refine ⟨?_, r2⟩
      rw [r1, o', List.filterMap_cons]
      cases hp : (parseTle b.lines).toOption with
      | some p => simp
      | none => simp
  have := key blocks {} hb rfl rfl
  simpa using this


def refL1 : Str := "1 25544U 98067A   08264.51782528 -.00002182  00000-0 -11606-4 0  2927".toList
def refL2 : Str := "2 25544  51.6416 247.4627 0006703 130.5360 325.0288 15.72125391563537".toList
def refL2bad : Str := "2 25544  51.6416 247.4627 0006703 130.5360 325.0288 15.72125391563538".toList

/-- the hypotheses of `from_string_yields_valid_entries_partial` are met by a named valid entry and by an unnamed
entry with a wrong checksum -/
example : (Block.mk (some "ISS (ZARYA)".toList) refL1 refL2).Framed ∧ (Block.mk none refL1 refL2bad).Framed := by
  refine ⟨⟨by decide, by decide, by decide, by decide, ?_, ?_⟩, ⟨by decide, by decide, by decide, by decide, ?_, ?_⟩⟩
  · intro n h; cases h; decide
  · intro e h
    have hh : (parseTle (Block.mk (some "ISS (ZARYA)".toList) refL1 refL2).lines).toOption.isSome = true := by decide
    rw [h] at hh; simp [Except.toOption] at hh
  · intro n h; cases h
  · intro e h
    have hh : (match parseTle (Block.mk none refL1 refL2bad).lines with
      | .error e => isValueError e | .ok _ => false) = true := by decide
    rw [h] at hh; exact hh

/-! ## Clause 1 on the reference TLEs of the test-suite (kernel evaluation of the model) -/

/-- parse → orbit → write reproduces the text, name line included, for the three TLEs of tests/io/test_tle.py
(four-digit element numbers, empty designator, negative ṅ, zero and signed drag terms) -/
theorem reference_tles_roundtrip :
    (rewrite ["ISS (ZARYA)".toList, refL1, refL2]).toOption.map tleStr = some ["ISS (ZARYA)".toList, refL1, refL2] ∧
    (rewrite ["UNKNOWN".toList,
      "1 81014U          19071.50347758  .00025823  00000-0  22146-2 0  9998".toList,
      "2 81014  51.3262 117.7468 2910898 126.0686 264.6106  9.45290855184707".toList]).toOption.map tleStr = some ["UNKNOWN".toList,
      "1 81014U          19071.50347758  .00025823  00000-0  22146-2 0  9998".toList,
      "2 81014  51.3262 117.7468 2910898 126.0686 264.6106  9.45290855184707".toList] ∧
    (rewrite [
      "1 00014U          19071.50347758  .00025823  00000-0  22146-2 0  9999".toList,
      "2 00014  51.3262 117.7468 2910898 126.0686 264.6106  9.45290855184708".toList]).toOption.map tleStr = some [
      "1 00014U          19071.50347758  .00025823  00000-0  22146-2 0  9999".toList,
      "2 00014  51.3262 117.7468 2910898 126.0686 264.6106  9.45290855184708".toList] := by decide


end BeyondVerif.C12
