import BeyondVerif.Props.C06Conv

/-!
# C06 — a general one-step theorem for an explicit Runge–Kutta method given by a tableau

For ANY well-shaped tableau (row `i` of `a` has `i` entries, one weight per stage) the model's generic step `KN.rkOnce` is, in
coordinates, the normed-space map `stepE` (`rkOnce_coords`).  If the weights sum to 1 (the order condition of the tree τ,
`HasOrder tb b 1`) the step is CONSISTENT: for an autonomous field, globally `L`-Lipschitz and bounded by `B`,

* local truncation error along an exact solution `≤ (1/2 + Σ|bᵢ| Σ|aᵢⱼ|) L B h²`  (`rk_local_error_order1`),
* the step map is `(1 + hΛ)`-Lipschitz with `Λ = L · Σ|bᵢ| · (1 + hLα)^{s−1}`, `α ≥` every row sum of `|a|`  (`stepE_lipschitz`),
* hence, by discrete Gronwall, the global error after `n` steps is `O(h)`: **every integrator the class offers (all four
  regenerated tableaux) converges at fixed step** (`rk_converges`, `every_integrator_converges`).

Order `p ≥ 2` for a general field needs the expansion against the elementary differentials of all trees with `≤ p` vertices
(Butcher); see `rk4_global_error_partial`.
-/
noncomputable section
namespace BeyondVerif.C06
open BeyondVerif.R BeyondVerif.R.KN BeyondVerif.NumReal BeyondVerif.Gronwall BeyondVerif.OneStep Set

variable {E : Type*} [NormedAddCommGroup E] [NormedSpace ℝ E]

/-- `coefs @ ks` in a normed space: `Σ aᵢ • kᵢ` -/
def linE : List ℝ → List E → E
  | a :: as, k :: ks => a • k + linE as ks
  | _, _ => 0

/-- the stage loop of `_make_step` in a normed space -/
def stagesE (F : ℝ → E → E) (t : ℝ) (x : E) (h : ℝ) : List (List ℝ) → List ℝ → List E → List E
  | a :: as, c :: cs, ks => stagesE F t x h as cs (ks ++ [F (t + c * h) (x + h • linE a ks)])
  | _, _, ks => ks

def ksE (F : ℝ → E → E) (tb : Tableau) (t : ℝ) (x : E) (h : ℝ) : List E :=
  stagesE F t x h (tb.a.drop 1) (tb.c.drop 1) [F t x]

/-- one explicit Runge–Kutta step of the tableau `tb` in a normed space -/
def stepE (F : ℝ → E → E) (tb : Tableau) (t : ℝ) (x : E) (h : ℝ) : E :=
  x + linE (tb.b.map (fun bi => h * bi)) (ksE F tb t x h)

/-- rows of `a` below the first: the `i`-th has `n + i` entries -/
def RowsOK : List (List ℝ) → Nat → Prop
  | [], _ => True
  | a :: as, n => a.length = n ∧ RowsOK as (n + 1)

/-- shape under which the model's list arithmetic never truncates: row `i` of `a` has `i` entries, as many abscissae as rows, one
weight per stage -/
def Shaped (tb : Tableau) : Prop :=
  RowsOK (tb.a.drop 1) 1 ∧ (tb.c.drop 1).length = (tb.a.drop 1).length ∧ tb.b.length = (tb.a.drop 1).length + 1

/-! ### the model's step is `stepE` in coordinates -/

theorem lincomb_coords (c : Coords E) : ∀ (a : List ℝ) (ks : List E), a.length = ks.length → a ≠ [] →
    lincomb a (ks.map c.toL) = c.toL (linE a ks) := by
  intro a
  induction a with
  | nil => intro ks _ h; exact absurd rfl h
  | cons a0 as ih =>
    intro ks hl _
    match ks, hl with
    | k :: ks', hl =>
      cases as with
      | nil =>
        have : ks' = [] := by
          cases ks' with
          | nil => rfl
          | cons _ _ => simp at hl
        subst this
        simp [lincomb, linE, c.smul]
      | cons a1 as' =>
        match ks', hl with
        | k' :: ks'', hl =>
          have hl' : (a1 :: as').length = (k' :: ks'').length := by simpa using hl
          have := ih (k' :: ks'') hl' (by simp)
          simp only [List.map_cons] at this ⊢
          simp only [lincomb, linE]
          rw [this, c.smul, c.add]
          simp [linE]

theorem stagesE_length (F : ℝ → E → E) (t : ℝ) (x : E) (h : ℝ) :
    ∀ (rows : List (List ℝ)) (cs : List ℝ) (ks : List E), cs.length = rows.length →
      (stagesE F t x h rows cs ks).length = ks.length + rows.length := by
  intro rows
  induction rows with
  | nil => intro cs ks _; cases cs <;> simp [stagesE]
  | cons a as ih =>
    intro cs ks hl
    match cs, hl with
    | c0 :: cs', hl =>
      simp only [stagesE]
      rw [ih cs' _ (by simpa using hl)]
      simp; omega

theorem stages_coords (c : Coords E) (F : ℝ → E → E) (t : ℝ) (x : E) (h : ℝ) :
    ∀ (rows : List (List ℝ)) (cs : List ℝ) (ks : List E), RowsOK rows ks.length → ks ≠ [] →
      rkStages (c.lift F) t (c.toL x) h rows cs (ks.map c.toL) = (stagesE F t x h rows cs ks).map c.toL := by
  intro rows
  induction rows with
  | nil => intro cs ks _ _; cases cs <;> simp [rkStages, stagesE]
  | cons a as ih =>
    intro cs ks hr hk
    cases cs with
    | nil => simp [rkStages, stagesE]
    | cons c0 cs' =>
      obtain ⟨ha, hr'⟩ := hr
      have ha0 : a ≠ [] := by
        intro h0; rw [h0] at ha
        exact hk (List.length_eq_zero_iff.1 ha.symm)
      simp only [rkStages, stagesE]
      rw [lincomb_coords c a ks ha ha0, c.smul, c.add]
      have e : ks.map c.toL ++ [c.lift F (t + c0 * h) (c.toL (x + h • linE a ks))]
          = (ks ++ [F (t + c0 * h) (x + h • linE a ks)]).map c.toL := by
        simp [Coords.lift, c.left_inv]
      rw [e]
      exact ih cs' _ (by simpa using hr') (by simp)

/-- **for every well-shaped tableau the model's generic step is the normed-space Runge–Kutta step in coordinates** -/
theorem rkOnce_coords (c : Coords E) (F : ℝ → E → E) (tb : Tableau) (hs : Shaped tb) (t : ℝ) (x : E) (h : ℝ) :
    rkOnce (c.lift F) tb t (c.toL x) h = c.toL (stepE F tb t x h) := by
  obtain ⟨hr, hc, hb⟩ := hs
  have h1 : rkKs (c.lift F) tb t (c.toL x) h = (ksE F tb t x h).map c.toL := by
    have := stages_coords c F t x h (tb.a.drop 1) (tb.c.drop 1) [F t x] (by simpa using hr) (by simp)
    simpa [rkKs, ksE, Coords.lift, c.left_inv] using this
  have hlen : (ksE F tb t x h).length = tb.b.length := by
    rw [ksE, stagesE_length F t x h _ _ _ hc, hb]; simp; omega
  have hb0 : tb.b.map (fun bi => h * bi) ≠ [] := by
    intro h0
    have : tb.b.length = 0 := by simpa using congrArg List.length h0
    omega
  rw [rkOnce, rkCombine, h1, lincomb_coords c _ _ (by simpa using hlen.symm) hb0, c.add, stepE]

/-- the four tableaux of the class are well shaped -/
theorem butcher_shaped (name : String) (tb : Tableau) (h : butcher name = some tb) : Shaped tb := by
  rcases butcher_cases name tb h with rfl | rfl | rfl | rfl <;>
  simp [Shaped, RowsOK, butcher_euler, butcher_rk4, butcher_rkf54, butcher_dopri54]

/-! ### consistency and stability of the general step (autonomous field, globally Lipschitz and bounded) -/

def absSum : List ℝ → ℝ
  | [] => 0
  | x :: l => |x| + absSum l

theorem absSum_nonneg : ∀ l : List ℝ, 0 ≤ absSum l
  | [] => le_refl _
  | x :: l => add_nonneg (abs_nonneg x) (absSum_nonneg l)

theorem absSum_map_mul (h : ℝ) (hh : 0 ≤ h) : ∀ l : List ℝ, absSum (l.map (fun b => h * b)) = h * absSum l
  | [] => by simp [absSum]
  | x :: l => by simp [absSum, absSum_map_mul h hh l, abs_mul, abs_of_nonneg hh]; ring

theorem sumL_map_mul (h : ℝ) : ∀ l : List ℝ, sumL (l.map (fun b => h * b)) = h * sumL l
  | [] => by simp [sumL]
  | x :: l => by simp [sumL, sumL_map_mul h l]; ring

theorem norm_linE_le (B : ℝ) (hB : 0 ≤ B) : ∀ (a : List ℝ) (ks : List E), (∀ k ∈ ks, ‖k‖ ≤ B) → ‖linE a ks‖ ≤ absSum a * B := by
  intro a
  induction a with
  | nil => intro ks _; simp [linE, absSum]
  | cons a0 as ih =>
    intro ks hk
    cases ks with
    | nil => simp only [linE, norm_zero]; exact mul_nonneg (absSum_nonneg _) hB
    | cons k ks' =>
      simp only [linE, absSum]
      calc ‖a0 • k + linE as ks'‖ ≤ ‖a0 • k‖ + ‖linE as ks'‖ := norm_add_le _ _
        _ ≤ |a0| * B + absSum as * B := by
            rw [norm_smul, Real.norm_eq_abs]
            exact add_le_add (mul_le_mul_of_nonneg_left (hk k (by simp)) (abs_nonneg _))
              (ih ks' (fun k' hk' => hk k' (by simp [hk'])))
        _ = (|a0| + absSum as) * B := by ring

/-- shifting every stage derivative by `k₁`: `Σ aᵢ kᵢ = Σ aᵢ (kᵢ − k₁) + (Σ aᵢ) k₁` -/
theorem linE_shift (k1 : E) : ∀ (a : List ℝ) (ks : List E), a.length = ks.length →
    linE a ks = linE a (ks.map (fun k => k - k1)) + sumL a • k1 := by
  intro a
  induction a with
  | nil => intro ks _; simp [linE, sumL]
  | cons a0 as ih =>
    intro ks hl
    match ks, hl with
    | k :: ks', hl =>
      simp only [linE, List.map_cons, sumL]
      rw [ih ks' (by simpa using hl)]
      module

/-- difference of two combinations with the same coefficients -/
theorem norm_linE_sub_le (M : ℝ) (hM : 0 ≤ M) : ∀ (a : List ℝ) (ks ks' : List E), ks.length = ks'.length →
    (∀ p ∈ ks.zip ks', ‖p.1 - p.2‖ ≤ M) → ‖linE a ks - linE a ks'‖ ≤ absSum a * M := by
  intro a
  induction a with
  | nil => intro ks ks' _ _; simp [linE, absSum]
  | cons a0 as ih =>
    intro ks ks' hl hp
    match ks, ks', hl with
    | [], [], _ => simp only [linE, sub_zero, norm_zero]; exact mul_nonneg (absSum_nonneg _) hM
    | k :: ks1, k' :: ks1', hl =>
      simp only [linE, absSum]
      have e : a0 • k + linE as ks1 - (a0 • k' + linE as ks1') = a0 • (k - k') + (linE as ks1 - linE as ks1') := by module
      rw [e]
      calc ‖a0 • (k - k') + (linE as ks1 - linE as ks1')‖ ≤ ‖a0 • (k - k')‖ + ‖linE as ks1 - linE as ks1'‖ := norm_add_le _ _
        _ ≤ |a0| * M + absSum as * M := by
            rw [norm_smul, Real.norm_eq_abs]
            exact add_le_add (mul_le_mul_of_nonneg_left (hp (k, k') (by simp)) (abs_nonneg _))
              (ih ks1 ks1' (by simpa using hl) (fun p hp' => hp p (by simp [hp'])))
        _ = (|a0| + absSum as) * M := by ring

variable (G : E → E) (L B : ℝ)

/-- every stage derivative is a value of the field (so bounded by `B`) and within `L h α B` of the first one -/
theorem stages_bounds (hL : 0 ≤ L) (hB : 0 ≤ B) (hG : ∀ a b, ‖G a - G b‖ ≤ L * ‖a - b‖) (hGB : ∀ a, ‖G a‖ ≤ B)
    (t : ℝ) (x : E) (h α : ℝ) (hh : 0 ≤ h) :
    ∀ (rows : List (List ℝ)) (cs : List ℝ) (ks : List E), (∀ a ∈ rows, absSum a ≤ α) →
      (∀ k ∈ ks, ‖k‖ ≤ B ∧ ‖k - G x‖ ≤ L * h * α * B) →
      ∀ k ∈ stagesE (fun _ => G) t x h rows cs ks, ‖k‖ ≤ B ∧ ‖k - G x‖ ≤ L * h * α * B := by
  intro rows
  induction rows with
  | nil => intro cs ks _ hk; cases cs <;> simpa [stagesE] using hk
  | cons a as ih =>
    intro cs ks hα hk
    cases cs with
    | nil => simpa [stagesE] using hk
    | cons c0 cs' =>
      simp only [stagesE]
      apply ih cs' _ (fun a' ha' => hα a' (by simp [ha']))
      intro k hkm
      rcases List.mem_append.1 hkm with h1 | h1
      · exact hk k h1
      · simp only [List.mem_singleton] at h1
        subst h1
        refine ⟨hGB _, ?_⟩
        have hlin : ‖linE a ks‖ ≤ absSum a * B := norm_linE_le B hB a ks (fun k hk' => (hk k hk').1)
        have ha : absSum a ≤ α := hα a (by simp)
        calc ‖G (x + h • linE a ks) - G x‖ ≤ L * ‖(x + h • linE a ks) - x‖ := hG _ _
          _ = L * (h * ‖linE a ks‖) := by rw [add_sub_cancel_left, norm_smul, Real.norm_of_nonneg hh]
          _ ≤ L * (h * (α * B)) := by
              apply mul_le_mul_of_nonneg_left _ hL
              apply mul_le_mul_of_nonneg_left _ hh
              exact hlin.trans (mul_le_mul_of_nonneg_right ha hB)
          _ = L * h * α * B := by ring

/-- **consistency of any tableau whose weights sum to 1**: the step differs from the Euler step by at most
`(Σ|bᵢ|) α L B h²`, `α ≥` every row sum of `|a|` -/
theorem stepE_sub_euler (hL : 0 ≤ L) (hB : 0 ≤ B) (hG : ∀ a b, ‖G a - G b‖ ≤ L * ‖a - b‖) (hGB : ∀ a, ‖G a‖ ≤ B)
    (tb : Tableau) (hs : Shaped tb) (hsum : sumL tb.b = 1) (α : ℝ) (hα0 : 0 ≤ α) (hα : ∀ a ∈ tb.a.drop 1, absSum a ≤ α)
    (t : ℝ) (x : E) (h : ℝ) (hh : 0 ≤ h) :
    ‖stepE (fun _ => G) tb t x h - (x + h • G x)‖ ≤ absSum tb.b * α * L * B * h ^ 2 := by
  obtain ⟨_, hc, hb⟩ := hs
  have hlen : (ksE (fun _ => G) tb t x h).length = tb.b.length := by
    rw [ksE, stagesE_length _ t x h _ _ _ hc, hb]; simp; omega
  have hM : 0 ≤ L * h * α * B := by positivity
  have hst := stages_bounds G L B hL hB hG hGB t x h α hh (tb.a.drop 1) (tb.c.drop 1) [G x] hα
    (by
      intro k hk
      simp only [List.mem_singleton] at hk
      subst hk
      exact ⟨hGB _, by rw [sub_self, norm_zero]; exact hM⟩)
  have e : stepE (fun _ => G) tb t x h - (x + h • G x)
      = linE (tb.b.map (fun bi => h * bi)) ((ksE (fun _ => G) tb t x h).map (fun k => k - G x)) := by
    rw [stepE, linE_shift (G x) _ _ (by simpa using hlen.symm), sumL_map_mul, hsum, mul_one]
    abel
  rw [e]
  have hb1 := norm_linE_le (L * h * α * B) hM (tb.b.map (fun bi => h * bi)) ((ksE (fun _ => G) tb t x h).map (fun k => k - G x))
    (by
      intro k hk
      obtain ⟨k0, hk0, rfl⟩ := List.mem_map.1 hk
      exact (hst k0 hk0).2)
  rw [absSum_map_mul h hh] at hb1
  calc _ ≤ h * absSum tb.b * (L * h * α * B) := hb1
    _ = absSum tb.b * α * L * B * h ^ 2 := by ring

/-- two runs of the stage loop from `x` and `x'`: stage derivatives stay pairwise within `M (1 + hLα)^{#rows}` -/
theorem stages_pair (hL : 0 ≤ L) (hG : ∀ a b, ‖G a - G b‖ ≤ L * ‖a - b‖) (t : ℝ) (x x' : E) (h α : ℝ) (hh : 0 ≤ h) (hα0 : 0 ≤ α) :
    ∀ (rows : List (List ℝ)) (cs : List ℝ) (ks ks' : List E) (M : ℝ), (∀ a ∈ rows, absSum a ≤ α) → ks.length = ks'.length →
      L * ‖x - x'‖ ≤ M → (∀ p ∈ ks.zip ks', ‖p.1 - p.2‖ ≤ M) →
      (stagesE (fun _ => G) t x h rows cs ks).length = (stagesE (fun _ => G) t x' h rows cs ks').length ∧
      ∀ p ∈ (stagesE (fun _ => G) t x h rows cs ks).zip (stagesE (fun _ => G) t x' h rows cs ks'),
        ‖p.1 - p.2‖ ≤ M * (1 + h * L * α) ^ rows.length := by
  intro rows
  induction rows with
  | nil =>
    intro cs ks ks' M _ hl _ hp
    cases cs <;> simpa [stagesE, hl] using hp
  | cons a as ih =>
    intro cs ks ks' M hα hl hM hp
    cases cs with
    | nil => 
      simp only [stagesE]
      refine ⟨hl, fun p hp' => (hp p hp').trans ?_⟩
      have hM0 : 0 ≤ M := (mul_nonneg hL (norm_nonneg _)).trans hM
      have : (1 : ℝ) ≤ (1 + h * L * α) ^ (a :: as).length := one_le_pow₀ (by nlinarith [mul_nonneg (mul_nonneg hh hL) hα0])
      nlinarith
    | cons c0 cs' =>
      simp only [stagesE]
      have hM0 : 0 ≤ M := (mul_nonneg hL (norm_nonneg _)).trans hM
      have hz : 0 ≤ h * L * α := mul_nonneg (mul_nonneg hh hL) hα0
      have ha : absSum a ≤ α := hα a (by simp)
      have hlin : ‖linE a ks - linE a ks'‖ ≤ absSum a * M := norm_linE_sub_le M hM0 a ks ks' hl hp
      have hnew : ‖G (x + h • linE a ks) - G (x' + h • linE a ks')‖ ≤ M * (1 + h * L * α) := by
        have e : (x + h • linE a ks) - (x' + h • linE a ks') = (x - x') + h • (linE a ks - linE a ks') := by module
        calc ‖G (x + h • linE a ks) - G (x' + h • linE a ks')‖ ≤ L * ‖(x + h • linE a ks) - (x' + h • linE a ks')‖ := hG _ _
          _ ≤ L * (‖x - x'‖ + h * ‖linE a ks - linE a ks'‖) := by
              rw [e]
              apply mul_le_mul_of_nonneg_left _ hL
              refine (norm_add_le _ _).trans ?_
              rw [norm_smul, Real.norm_of_nonneg hh]
          _ ≤ L * ‖x - x'‖ + L * (h * (α * M)) := by
              rw [mul_add]
              apply add_le_add le_rfl
              apply mul_le_mul_of_nonneg_left _ hL
              apply mul_le_mul_of_nonneg_left _ hh
              exact hlin.trans (mul_le_mul_of_nonneg_right ha hM0)
          _ ≤ M + L * (h * (α * M)) := by linarith
          _ = M * (1 + h * L * α) := by ring
      have hle : M ≤ M * (1 + h * L * α) := by nlinarith
      have := ih cs' (ks ++ [G (x + h • linE a ks)]) (ks' ++ [G (x' + h • linE a ks')]) (M * (1 + h * L * α))
        (fun a' ha' => hα a' (by simp [ha'])) (by simp [hl]) (hM.trans hle)
        (by
          intro p hp'
          rw [List.zip_append hl] at hp'
          rcases List.mem_append.1 hp' with h1 | h1
          · exact (hp p h1).trans hle
          · simp only [List.zip_cons_cons, List.zip_nil_right, List.mem_singleton] at h1
            subst h1
            exact hnew)
      refine ⟨this.1, fun p hp' => (this.2 p hp').trans (le_of_eq ?_)⟩
      simp only [List.length_cons, pow_succ]
      ring

/-- **the general step map is `(1 + hΛ)`-Lipschitz**, `Λ = L (Σ|bᵢ|) (1 + hLα)^{s−1}` -/
theorem stepE_lipschitz (hL : 0 ≤ L) (hG : ∀ a b, ‖G a - G b‖ ≤ L * ‖a - b‖)
    (tb : Tableau) (α : ℝ) (hα0 : 0 ≤ α) (hα : ∀ a ∈ tb.a.drop 1, absSum a ≤ α) (t : ℝ) (x x' : E) (h : ℝ) (hh : 0 ≤ h) :
    ‖stepE (fun _ => G) tb t x h - stepE (fun _ => G) tb t x' h‖
      ≤ (1 + h * (L * absSum tb.b * (1 + h * L * α) ^ (tb.a.drop 1).length)) * ‖x - x'‖ := by
  have hd : 0 ≤ ‖x - x'‖ := norm_nonneg _
  have hp := stages_pair G L hL hG t x x' h α hh hα0 (tb.a.drop 1) (tb.c.drop 1) [G x] [G x'] (L * ‖x - x'‖) hα rfl le_rfl
    (by
      intro p hp
      simp only [List.zip_cons_cons, List.zip_nil_right, List.mem_singleton] at hp
      subst hp
      exact hG _ _)
  have hM : 0 ≤ L * ‖x - x'‖ * (1 + h * L * α) ^ (tb.a.drop 1).length := by
    have : 0 ≤ h * L * α := mul_nonneg (mul_nonneg hh hL) hα0
    positivity
  have hlin := norm_linE_sub_le _ hM (tb.b.map (fun bi => h * bi)) (ksE (fun _ => G) tb t x h) (ksE (fun _ => G) tb t x' h) hp.1 hp.2
  rw [absSum_map_mul h hh] at hlin
  have e : stepE (fun _ => G) tb t x h - stepE (fun _ => G) tb t x' h
      = (x - x') + (linE (tb.b.map (fun bi => h * bi)) (ksE (fun _ => G) tb t x h)
          - linE (tb.b.map (fun bi => h * bi)) (ksE (fun _ => G) tb t x' h)) := by
    simp only [stepE]; abel
  rw [e]
  calc _ ≤ ‖x - x'‖ + ‖linE (tb.b.map (fun bi => h * bi)) (ksE (fun _ => G) tb t x h)
          - linE (tb.b.map (fun bi => h * bi)) (ksE (fun _ => G) tb t x' h)‖ := norm_add_le _ _
    _ ≤ ‖x - x'‖ + h * absSum tb.b * (L * ‖x - x'‖ * (1 + h * L * α) ^ (tb.a.drop 1).length) := add_le_add le_rfl hlin
    _ = (1 + h * (L * absSum tb.b * (1 + h * L * α) ^ (tb.a.drop 1).length)) * ‖x - x'‖ := by ring

theorem abs_sumL_le_absSum : ∀ l : List ℝ, |sumL l| ≤ absSum l
  | [] => by simp [sumL, absSum]
  | x :: l => by
    simp only [sumL, absSum]
    exact (abs_add_le _ _).trans (add_le_add le_rfl (abs_sumL_le_absSum l))

/-- **every consistent explicit Runge–Kutta method converges** (the general one-step theorem, order 1).  `tb` any well-shaped
tableau whose weights sum to 1, `α ≥` every row sum of `|a|`, `G` an autonomous field globally `L`-Lipschitz and bounded by `B`,
`h L α ≤ 1`.  `n` steps of the model's generic `rkOnce` end within `C h (e^{Λ T} − 1)/Λ` of the exact solution,
`C = (1/2 + α Σ|bᵢ|) L B`, `Λ = L (Σ|bᵢ|) 2^{s−1}`, `T = n h`. -/
theorem rk_converges (c : Coords E) (hL : 0 < L) (hG : ∀ a b, ‖G a - G b‖ ≤ L * ‖a - b‖) (hGB : ∀ a, ‖G a‖ ≤ B)
    (tb : Tableau) (hs : Shaped tb) (hsum : sumL tb.b = 1) (α : ℝ) (hα0 : 0 ≤ α) (hα : ∀ a ∈ tb.a.drop 1, absSum a ≤ α)
    (y : ℝ → E) (t0 h : ℝ) (n : ℕ) (hh : 0 < h) (hz : h * L * α ≤ 1)
    (hy : ∀ s ∈ Icc t0 (t0 + n * h), HasDerivAt y (G (y s)) s)
    (u : ℕ → List ℝ) (hu0 : u 0 = c.toL (y t0))
    (hu : ∀ k < n, u (k + 1) = rkOnce (c.lift (fun _ => G)) tb (t0 + k * h) (u k) h) :
    ‖y (t0 + n * h) - c.ofL (u n)‖
      ≤ (1 / 2 + absSum tb.b * α) * L * B * h ^ 1
          * (Real.exp (L * absSum tb.b * 2 ^ (tb.a.drop 1).length * (n * h)) - 1) / (L * absSum tb.b * 2 ^ (tb.a.drop 1).length) := by
  have hB0 : 0 ≤ B := (norm_nonneg _).trans (hGB (y t0))
  have hβ : 1 ≤ absSum tb.b := by
    have := abs_sumL_le_absSum tb.b
    rw [hsum, abs_one] at this
    exact this
  have hβ0 : 0 ≤ absSum tb.b := by linarith
  have hrange := run_in_range c (fun k x => stepE (fun _ => G) tb (t0 + k * h) x h) u (y t0) n hu0
    (fun k hk x hx => by rw [hu k hk, hx, rkOnce_coords c _ tb hs])
  have key := one_step_convergence (fun k x => stepE (fun _ => G) tb (t0 + k * h) x h) (fun k => y (t0 + k * h))
    (fun k => c.ofL (u k)) (L * absSum tb.b * 2 ^ (tb.a.drop 1).length) h ((1 / 2 + absSum tb.b * α) * L * B) 1 n
    (by positivity) hh (by positivity) (by simp [hu0, c.left_inv]) ?_ ?_ ?_
  · exact key
  · intro k hk
    show c.ofL (u (k + 1)) = stepE (fun _ => G) tb (t0 + k * h) (c.ofL (u k)) h
    rw [hu k hk, hrange k hk.le, rkOnce_coords c _ tb hs, c.left_inv, c.left_inv]
  · intro k hk
    have hsub : Icc (t0 + k * h) (t0 + k * h + h) ⊆ Icc t0 (t0 + n * h) := by
      intro s hs'
      have hk' : (k : ℝ) + 1 ≤ n := by exact_mod_cast hk
      have h1 : 0 ≤ (k : ℝ) * h := by positivity
      constructor
      · linarith [hs'.1]
      · nlinarith [hs'.2]
    have e : t0 + ((k + 1 : ℕ) : ℝ) * h = t0 + k * h + h := by push_cast; ring
    show ‖y (t0 + ((k + 1 : ℕ) : ℝ) * h) - stepE (fun _ => G) tb (t0 + k * h) (y (t0 + k * h)) h‖ ≤ _
    rw [e]
    have l1 := euler_local_error_ode G Set.univ L B hL.le (fun x _ => hGB x) (fun x _ x' _ => hG x x') y (t0 + k * h) h hh.le
      (fun s hs' => hy s (hsub hs')) (fun _ _ => Set.mem_univ _)
    have l2 := stepE_sub_euler G L B hL.le hB0 hG hGB tb hs hsum α hα0 hα (t0 + k * h) (y (t0 + k * h)) h hh.le
    have tri : y (t0 + k * h + h) - stepE (fun _ => G) tb (t0 + k * h) (y (t0 + k * h)) h
        = (y (t0 + k * h + h) - (y (t0 + k * h) + h • G (y (t0 + k * h))))
          - (stepE (fun _ => G) tb (t0 + k * h) (y (t0 + k * h)) h - (y (t0 + k * h) + h • G (y (t0 + k * h)))) := by abel
    rw [tri]
    calc _ ≤ ‖y (t0 + k * h + h) - (y (t0 + k * h) + h • G (y (t0 + k * h)))‖
          + ‖stepE (fun _ => G) tb (t0 + k * h) (y (t0 + k * h)) h - (y (t0 + k * h) + h • G (y (t0 + k * h)))‖ := norm_sub_le _ _
      _ ≤ L * B * h ^ 2 / 2 + absSum tb.b * α * L * B * h ^ 2 := add_le_add l1 l2
      _ = (1 / 2 + absSum tb.b * α) * L * B * h ^ (1 + 1) := by ring
  · intro k hk
    refine (stepE_lipschitz G L hL.le hG tb α hα0 hα _ _ _ h hh.le).trans ?_
    apply mul_le_mul_of_nonneg_right _ (norm_nonneg _)
    have hz0 : 0 ≤ h * L * α := mul_nonneg (mul_nonneg hh.le hL.le) hα0
    have hpow : (1 + h * L * α) ^ (tb.a.drop 1).length ≤ 2 ^ (tb.a.drop 1).length :=
      pow_le_pow_left₀ (by linarith) (by linarith) _
    have : L * absSum tb.b * (1 + h * L * α) ^ (tb.a.drop 1).length ≤ L * absSum tb.b * 2 ^ (tb.a.drop 1).length :=
      mul_le_mul_of_nonneg_left hpow (by positivity)
    nlinarith

/-- the weights of every integrator of the class sum to 1 and every row of `a` has absolute sum at most 25 -/
theorem butcher_consistent (name : String) (tb : Tableau) (h : butcher name = some tb) :
    sumL tb.b = 1 ∧ ∀ a ∈ tb.a.drop 1, absSum a ≤ 25 := by
  rcases butcher_cases name tb h with rfl | rfl | rfl | rfl
  · simp [butcher_euler, sumL]
  · refine ⟨by simp only [butcher_rk4, sumL]; norm_num, ?_⟩
    intro a ha
    simp only [butcher_rk4, List.drop, List.mem_cons, List.not_mem_nil, or_false] at ha
    rcases ha with rfl | rfl | rfl <;> simp only [absSum] <;> norm_num [abs_of_pos, abs_of_nonneg]
  · refine ⟨by simp only [butcher_rkf54, sumL]; norm_num, ?_⟩
    intro a ha
    simp only [butcher_rkf54, List.drop, List.mem_cons, List.not_mem_nil, or_false] at ha
    rcases ha with rfl | rfl | rfl | rfl | rfl <;> simp only [absSum] <;> norm_num [abs_of_pos, abs_of_nonneg, abs_div, abs_neg]
  · refine ⟨by simp only [butcher_dopri54, sumL]; norm_num, ?_⟩
    intro a ha
    simp only [butcher_dopri54, List.drop, List.mem_cons, List.not_mem_nil, or_false] at ha
    rcases ha with rfl | rfl | rfl | rfl | rfl | rfl <;> simp only [absSum] <;> norm_num [abs_of_pos, abs_of_nonneg, abs_div, abs_neg]

/-- **every integrator the class offers converges at fixed step** (Euler, RK4, and the weights `b` of RKF54 and DOPRI54 — the
adaptive pair run with every trial step accepted), on the tableaux regenerated from the source, for every autonomous field
globally `L`-Lipschitz and bounded by `B`: global error `≤ (1/2 + 25 Σ|bᵢ|) L B h (e^{ΛT} − 1)/Λ`, `25 h L ≤ 1` -/
theorem every_integrator_converges (c : Coords E) (name : String) (tb : Tableau) (hn : butcher name = some tb)
    (hL : 0 < L) (hG : ∀ a b, ‖G a - G b‖ ≤ L * ‖a - b‖) (hGB : ∀ a, ‖G a‖ ≤ B)
    (y : ℝ → E) (t0 h : ℝ) (n : ℕ) (hh : 0 < h) (hz : h * L * 25 ≤ 1)
    (hy : ∀ s ∈ Icc t0 (t0 + n * h), HasDerivAt y (G (y s)) s)
    (u : ℕ → List ℝ) (hu0 : u 0 = c.toL (y t0))
    (hu : ∀ k < n, u (k + 1) = rkOnce (c.lift (fun _ => G)) tb (t0 + k * h) (u k) h) :
    ‖y (t0 + n * h) - c.ofL (u n)‖
      ≤ (1 / 2 + absSum tb.b * 25) * L * B * h ^ 1
          * (Real.exp (L * absSum tb.b * 2 ^ (tb.a.drop 1).length * (n * h)) - 1) / (L * absSum tb.b * 2 ^ (tb.a.drop 1).length) :=
  rk_converges G L B c hL hG hGB tb (butcher_shaped name tb hn) (butcher_consistent name tb hn).1 25 (by norm_num)
    (butcher_consistent name tb hn).2 y t0 h n hh hz hy u hu0 hu

/-! ### non-vacuity -/

example : Shaped butcher_dopri54 := butcher_shaped "dopri54" _ rfl
example : sumL butcher_rkf54.b = 1 := (butcher_consistent "rkf54" _ rfl).1
/-- a tableau that is not one of the class: Heun's method (a = [[], [1]], b = [1/2, 1/2], c = [0, 1]) is well shaped and consistent -/
example : Shaped { a := [[], [1]], b := [1 / 2, 1 / 2], c := [0, 1], bstar := none } ∧
    sumL [(1 / 2 : ℝ), 1 / 2] = 1 := by
  constructor
  · simp [Shaped, RowsOK]
  · simp [sumL]; norm_num
/-- a field meeting the hypotheses of `rk_converges`: `y' = sin y` (1-Lipschitz, bounded by 1) -/
example : (∀ a b : ℝ, ‖Real.sin a - Real.sin b‖ ≤ 1 * ‖a - b‖) ∧ ∀ a : ℝ, ‖Real.sin a‖ ≤ 1 :=
  ⟨fun a b => by simpa [Real.norm_eq_abs] using Real.abs_sin_sub_sin_le a b, fun a => Real.abs_sin_le_one a⟩

end BeyondVerif.C06
