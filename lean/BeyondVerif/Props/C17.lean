import BeyondVerif.Lemmas.Vec3
import BeyondVerif.Lemmas.Dkep
import BeyondVerif.Model.ManWin
import BeyondVerif.Model.FrameReg
import Mathlib.Tactic.NormNum

/-!
# C17 — Local orbital frames and maneuvers follow their definitions

Theorems over ℝ about `toQsw`, `toTnw` (translated from beyond/frames/local.py on every run,
Generated/LocalR.lean), `dkep…` (translated from beyond/orbits/man.py `dkep2dv`, `dkep2aol`,
Generated/DkepR.lean), the projection / attached-frame model of templates/Man.tpl, and — over ℤ
(microseconds) — about the maneuver windows `impCheck`, `contCheck` (translated from
`ImpulsiveMan.check`, `ContinuousMan.check`, Generated/ManWindow.lean) met by the step loop of
`KeplerNum` (Model/ManWin.lean).
-/
namespace BeyondVerif.C17
open BeyondVerif.R BeyondVerif.NumReal BeyondVerif.Lemmas.Vec3

/-! ## 1. QSW and TNW are proper rotations with the documented axes -/

/-- non-degenerate state: non-zero angular momentum `r × v` -/
def NonDeg (pos vel : V3) : Prop := V3.cross pos vel ≠ V3.zero

/-- unit vector along `a` -/
noncomputable def unit (a : V3) : V3 := V3.divS a (V3.norm a)

/-- the rows of `m` are orthonormal: `M Mᵀ = 1` entry by entry -/
def Orthonormal (m : M3) : Prop :=
  V3.dot m.r0 m.r0 = 1 ∧ V3.dot m.r1 m.r1 = 1 ∧ V3.dot m.r2 m.r2 = 1 ∧
  V3.dot m.r0 m.r1 = 0 ∧ V3.dot m.r0 m.r2 = 0 ∧ V3.dot m.r1 m.r2 = 0

theorem nondeg_pos {pos vel : V3} (h : NonDeg pos vel) : V3.norm pos ≠ 0 := by
  intro h0
  rw [norm_eq_zero_iff] at h0
  exact h (by rw [h0]; exact cross_zero_left vel)

theorem nondeg_vel {pos vel : V3} (h : NonDeg pos vel) : V3.norm vel ≠ 0 := by
  intro h0
  rw [norm_eq_zero_iff] at h0
  exact h (by rw [h0]; exact cross_zero_right pos)

theorem nondeg_w {pos vel : V3} (h : NonDeg pos vel) : V3.norm (V3.cross pos vel) ≠ 0 := by
  intro h0
  rw [norm_eq_zero_iff] at h0
  exact h h0

/-- **QSW axes**: the rows of `to_qsw` are the radial direction `r̂`, `ŵ × r̂`, and the direction `ŵ` of the
orbital angular momentum `r × v` (read off the translated source; a changed row or a swapped
cross product breaks this). -/
theorem qsw_axes (pos vel : V3) :
    toQsw pos vel = ⟨unit pos, V3.cross (unit (V3.cross pos vel)) (unit pos), unit (V3.cross pos vel)⟩ := rfl

/-- **TNW axes**: velocity direction `v̂`, `ŵ × v̂`, angular momentum direction `ŵ`. -/
theorem tnw_axes (pos vel : V3) :
    toTnw pos vel = ⟨unit vel, V3.cross (unit (V3.cross pos vel)) (unit vel), unit (V3.cross pos vel)⟩ := rfl

theorem qsw_unitPerp {pos vel : V3} (h : NonDeg pos vel) : UnitPerp (unit pos) (unit (V3.cross pos vel)) where
  hq := dot_divS_norm pos (nondeg_pos h)
  hw := dot_divS_norm _ (nondeg_w h)
  hqw := by unfold unit; rw [dot_divS_divS, dot_cross_self_left]; simp

theorem tnw_unitPerp {pos vel : V3} (h : NonDeg pos vel) : UnitPerp (unit vel) (unit (V3.cross pos vel)) where
  hq := dot_divS_norm vel (nondeg_vel h)
  hw := dot_divS_norm _ (nondeg_w h)
  hqw := by unfold unit; rw [dot_divS_divS, dot_cross_self_right]; simp

theorem triad_orthonormal {q w : V3} (h : UnitPerp q w) : Orthonormal (triad q w) :=
  ⟨h.hq, triad_s_unit h, h.hw, triad_qs, h.hqw, triad_sw⟩

/-- **The QSW matrix of any non-degenerate state is a proper rotation**: `M Mᵀ = 1` and `det M = 1`. -/
theorem qsw_proper_rotation (pos vel : V3) (h : NonDeg pos vel) :
    Orthonormal (toQsw pos vel) ∧ M3.det (toQsw pos vel) = 1 :=
  ⟨triad_orthonormal (qsw_unitPerp h), triad_det (qsw_unitPerp h)⟩

/-- **The TNW matrix of any non-degenerate state is a proper rotation**. -/
theorem tnw_proper_rotation (pos vel : V3) (h : NonDeg pos vel) :
    Orthonormal (toTnw pos vel) ∧ M3.det (toTnw pos vel) = 1 :=
  ⟨triad_orthonormal (tnw_unitPerp h), triad_det (tnw_unitPerp h)⟩

/-- non-vacuity: a circular-like state in the x–y plane is non-degenerate -/
example : NonDeg ⟨7000000, 0, 0⟩ ⟨0, 7500, 0⟩ := by
  intro h
  have := congrArg V3.z h
  simp [V3.cross, V3.zero] at this

/-! ## 2. A maneuver given in QSW / TNW / inertial axes contributes exactly its stated vector -/

theorem manProject_eq (t : Tag) (pos vel d : V3) :
    manProject t pos vel d = match t with
      | Tag.qsw => (triad (unit pos) (unit (V3.cross pos vel))).tMulVec d
      | Tag.tnw => (triad (unit vel) (unit (V3.cross pos vel))).tMulVec d
      | Tag.other => d := by
  cases t <;> rfl

/-- **Magnitude**: the Δv (acceleration) contributed by an impulsive (continuous) maneuver has exactly the
stated magnitude, whatever the frame tag. -/
theorem dv_magnitude (t : Tag) (pos vel d : V3) (h : NonDeg pos vel) :
    V3.norm (manProject t pos vel d) = V3.norm d := by
  cases t
  · exact norm_congr (triad_tMul_dot (qsw_unitPerp h) d)
  · exact norm_congr (triad_tMul_dot (tnw_unitPerp h) d)
  · rfl

/-- **Direction**: its components along the three axes of the tagged frame are the stated components
(for `other` the axes are those of the orbit's own frame: `toLocal other = 1`). -/
theorem dv_direction (t : Tag) (pos vel d : V3) (h : NonDeg pos vel) :
    (toLocal t pos vel).mulVec (manProject t pos vel d) = d := by
  cases t
  · exact triad_mul_tMul (qsw_unitPerp h) d
  · exact triad_mul_tMul (tnw_unitPerp h) d
  · ext <;> simp [toLocal, manProject, M3.mulVec, M3.ident, V3.dot]

/-- a continuous maneuver given by its total Δv over `duration` thrusts with `|Δv| / duration` -/
theorem accel_of_dv_magnitude (t : Tag) (pos vel dv : V3) (duration : ℝ) (h : NonDeg pos vel) (hd : 0 < duration) :
    V3.norm (manProject t pos vel (accelOfDv dv duration)) * duration = V3.norm dv := by
  rw [dv_magnitude t pos vel _ h]
  unfold accelOfDv V3.norm V3.divS
  simp only
  have : dv.x / duration * (dv.x / duration) + dv.y / duration * (dv.y / duration) + dv.z / duration * (dv.z / duration)
      = (dv.x * dv.x + dv.y * dv.y + dv.z * dv.z) / duration ^ 2 := by field_simp
  rw [this]
  show Real.sqrt (_ / duration ^ 2) * duration = Real.sqrt _
  rw [Real.sqrt_div (sumsq_nonneg dv), Real.sqrt_sq hd.le]
  field_simp

/-- a Keplerian maneuver `[dv_t, 0, dv_w]` (TNW) has magnitude `√(dv_t² + dv_w²)` in the inertial frame -/
theorem kepManDv_magnitude (pos vel : V3) (dv_t dv_w : ℝ) (h : NonDeg pos vel) :
    V3.norm (kepManDv pos vel dv_t dv_w) = Real.sqrt (dv_t * dv_t + dv_w * dv_w) := by
  have := norm_congr (triad_tMul_dot (tnw_unitPerp h) ⟨dv_t, 0, dv_w⟩)
  unfold kepManDv
  rw [tnw_axes]
  rw [show (⟨unit vel, V3.cross (unit (V3.cross pos vel)) (unit vel), unit (V3.cross pos vel)⟩ : M3)
        = triad (unit vel) (unit (V3.cross pos vel)) from rfl, this]
  unfold V3.norm; simp

/-- a Keplerian continuous maneuver thrusts with `|dkep2dv| / duration`: over its duration it accumulates the Δv of the
impulsive one -/
theorem kepContAccel_magnitude (pos vel : V3) (μ a i v da di dOmega duration : ℝ) (h : NonDeg pos vel) (hd : 0 < duration) :
    V3.norm (kepContAccel pos vel μ a i v da di dOmega duration) * duration
      = Real.sqrt (dkepDvT μ a i v da di dOmega * dkepDvT μ a i v da di dOmega + dkepDvW μ a i v da di dOmega * dkepDvW μ a i v da di dOmega) := by
  unfold kepContAccel
  rw [accel_of_dv_magnitude Tag.tnw pos vel _ duration h hd]
  unfold V3.norm; simp

/-! ## 3. A frame attached to an orbit -/

/-- the orbit a frame is attached to sits at that frame's origin when everything is expressed around one centre -/
theorem orbit_frame_origin_same_centre (t : Tag) (ref : St) : frameTo t ref ref = ⟨V3.zero, V3.zero⟩ := by
  unfold frameTo
  simp only [V3.sub, sub_self, M3.mulVec, V3.dot, mul_zero, add_zero, V3.zero]

section centres
open BeyondVerif.Generated.FrameNames

/-- **The orbit a frame is attached to sits at that frame's origin, whatever body it orbits and whatever the `parent`**:
with the centre of the new frame linked as `orbit2frame` links it (`centreLinkedTo`, read from the `add_link` call of the
source on every run), the reference orbit — given relative to the centre `cRef` of its own frame — maps to zero position and
zero velocity, for every orientation tag, every position of the two centres.  (With the centre linked under `parent.center`
instead this is false as soon as the two centres differ: `origin_displaced_if_linked_to_parent_centre`.) -/
theorem orbit_frame_origin (t : Tag) (cRef cParent ref : St) :
    frameToC centreLinkedTo t cRef cParent cRef ref ref = ⟨V3.zero, V3.zero⟩ := by
  simp only [frameToC, frameOrigin, linkCentre, centreLinkedTo, St.add, St.sub, V3.add, V3.sub, sub_self, M3.mulVec, V3.dot,
    mul_zero, add_zero, V3.zero]

/-- … and a companion of the reference orbit is seen at its relative position (axes of the reference's frame: tag `other`) -/
theorem orbit_frame_relative_position (cRef cParent ref δ : St) :
    frameToC centreLinkedTo Tag.other cRef cParent cRef ref (St.add ref δ) = δ := by
  obtain ⟨⟨a, b, c⟩, ⟨d, e, f⟩⟩ := δ
  simp [frameToC, frameOrigin, linkCentre, centreLinkedTo, St.add, St.sub, V3.add, V3.sub, M3.mulVec, V3.dot, toLocal, M3.ident]

/-- what linking the new centre under `parent.center` would do: the reference orbit is found at the vector between the two
centres (3.8e8 m for a lunar orbiter with the default parent) -/
theorem origin_displaced_if_linked_to_parent_centre (cRef cParent ref : St) :
    frameToC CentreLink.parentCentre Tag.other cRef cParent cRef ref ref = St.sub cRef cParent := by
  obtain ⟨⟨a, b, c⟩, ⟨d, e, f⟩⟩ := cRef
  simp [frameToC, frameOrigin, linkCentre, St.add, St.sub, V3.add, V3.sub, M3.mulVec, V3.dot, toLocal, M3.ident]

/-- around one centre the model with centres is the model without -/
theorem frameToC_same_centre (l : CentreLink) (t : Tag) (c ref x : St) : frameToC l t c c c ref x = frameTo t ref x := by
  have e1 : St.sub (St.add c ref) c = ref := by
    obtain ⟨⟨a, b, c'⟩, ⟨d, e, f⟩⟩ := ref
    simp [St.add, St.sub, V3.add, V3.sub]
  have e2 : St.sub (St.add c x) (frameOrigin l c c ref) = ⟨V3.sub x.p ref.p, V3.sub x.v ref.v⟩ := by
    cases l <;> simp [frameOrigin, linkCentre, St.add, St.sub, V3.add, V3.sub]
  simp only [frameToC, frameTo, e1, e2]

/-- non-vacuity: a lunar orbiter (Moon 3.8e8 m from the Earth), default parent -/
example : frameToC centreLinkedTo Tag.other ⟨⟨380000000, 0, 0⟩, ⟨0, 1000, 0⟩⟩ ⟨V3.zero, V3.zero⟩ ⟨⟨380000000, 0, 0⟩, ⟨0, 1000, 0⟩⟩
    ⟨⟨1838000, 0, 0⟩, ⟨0, 1600, 0⟩⟩ ⟨⟨1838000, 0, 0⟩, ⟨0, 1600, 0⟩⟩ = ⟨V3.zero, V3.zero⟩ := orbit_frame_origin _ _ _ _

end centres

theorem toLocal_tMul_mul (t : Tag) (pos vel y : V3) (h : NonDeg pos vel) :
    (toLocal t pos vel).tMulVec ((toLocal t pos vel).mulVec y) = y := by
  cases t
  · exact triad_tMul_mul (qsw_unitPerp h) y
  · exact triad_tMul_mul (tnw_unitPerp h) y
  · ext <;> simp [toLocal, M3.mulVec, M3.tMulVec, M3.ident, V3.dot]

theorem toLocal_mul_tMul (t : Tag) (pos vel y : V3) (h : NonDeg pos vel) :
    (toLocal t pos vel).mulVec ((toLocal t pos vel).tMulVec y) = y := by
  cases t
  · exact triad_mul_tMul (qsw_unitPerp h) y
  · exact triad_mul_tMul (tnw_unitPerp h) y
  · ext <;> simp [toLocal, M3.mulVec, M3.tMulVec, M3.ident, V3.dot]

theorem add_sub_V3 (a b : V3) : V3.add (V3.sub a b) b = a := by
  ext <;> simp [V3.add, V3.sub]

theorem sub_add_V3 (a b : V3) : V3.sub (V3.add a b) b = a := by
  ext <;> simp [V3.add, V3.sub]

/-- **Conversion to the attached frame and back to the parent loses nothing** (positions and velocities). -/
theorem orbit_frame_roundtrip (t : Tag) (ref x : St) (h : NonDeg ref.p ref.v) :
    frameFrom t ref (frameTo t ref x) = x := by
  unfold frameFrom frameTo
  simp only [toLocal_tMul_mul t _ _ _ h, add_sub_V3]

/-- … and from the attached frame to the parent and back. -/
theorem orbit_frame_roundtrip_back (t : Tag) (ref y : St) (h : NonDeg ref.p ref.v) :
    frameTo t ref (frameFrom t ref y) = y := by
  unfold frameFrom frameTo
  simp only [sub_add_V3, toLocal_mul_tMul t _ _ _ h]

/-! ### Registration of attached frames: a name means its latest registration -/
section registry
open BeyondVerif.FrameReg

/-- **Registering a name again rebinds it**: conversions through `name` use the orbit and orientation of the
latest registration, whatever was registered (or converted) under that name before. -/
theorem reregistration_wins (r : Reg) (name : String) (e : Entry) : lookup (register r name e) name = some e := by
  simp [register, lookup]

/-- … and leaves every other name bound as it was. -/
theorem registration_local (r : Reg) (name other : String) (e : Entry) (h : name ≠ other) :
    lookup (register r name e) other = lookup r other := by
  simp [register, lookup, h]

/-- **Conversions leave no trace**: the binding a conversion uses is the one given by the registrations that precede
it; conversions performed before it (at any date, through any name) do not matter. -/
theorem conversions_leave_no_trace (r : Reg) (ops : List Op) (name : String) :
    run r (ops ++ [Op.conv name]) = run r ops ++ [lookup (state r (ops.filter (fun o => match o with | Op.reg .. => true | Op.conv _ => false))) name] := by
  induction ops generalizing r with
  | nil => simp [run, state]
  | cons o rest ih =>
    cases o with
    | reg n e => simp [run, state, ih]
    | conv n => simp [run, ih]

/-- `_partial` — full statement: *a conversion into frame `name` uses the axes of its latest registration* (`lookupInto =
lookup`).  Proved when every registration of that name hangs equally far from the converted states (in particular: always
the same `parent`, e.g. the default).  Missing: a name registered again under a *farther* parent — false of the code, open
finding C17-reregistered-under-other-parent, witness `C17W.stale_axes_after_reregistration_under_farther_parent`. -/
theorem into_uses_latest_partial (name : String) (d : Nat) : ∀ (r : Reg), (∀ p ∈ r, p.1 = name → p.2.pdist = d) →
    lookupInto r name = lookup r name := by
  have hn : ∀ (r : Reg), (∀ p ∈ r, p.1 = name → p.2.pdist = d) → ∀ e, nearest r name = some e → e.pdist = d := by
    intro r
    induction r with
    | nil => intro _ e h; simp [nearest] at h
    | cons p rest ih =>
      intro hall e h
      obtain ⟨n, e0⟩ := p
      have hrest : ∀ q ∈ rest, q.1 = name → q.2.pdist = d := fun q hq => hall q (by simp [hq])
      unfold nearest at h
      split at h
      · rename_i hc
        have hd0 : e0.pdist = d := hall (n, e0) (by simp) hc.1
        split at h
        · rename_i e' hnr
          split at h
          · injection h with h; subst h; exact ih hrest e' hnr
          · injection h with h; subst h; exact hd0
        · injection h with h; subst h; exact hd0
      · exact ih hrest e h
  intro r hall
  unfold lookupInto
  cases hl : lookup r name with
  | none => rfl
  | some e =>
    by_cases ht : e.tag = "-"
    · simp [ht]
    · simp only [ht, if_false]
      -- the latest registration is a candidate and no candidate is nearer
      induction r with
      | nil => simp [lookup] at hl
      | cons p rest ih =>
        obtain ⟨n, e0⟩ := p
        have hrest : ∀ q ∈ rest, q.1 = name → q.2.pdist = d := fun q hq => hall q (by simp [hq])
        unfold lookup at hl
        split at hl
        · rename_i hnn
          injection hl with hl
          subst hl
          have hd0 : e0.pdist = d := hall (n, e0) (by simp) hnn
          unfold nearest
          rw [if_pos ⟨hnn, ht⟩]
          cases hnr : nearest rest name with
          | none => rfl
          | some e' =>
            have := hn rest hrest e' hnr
            simp only []
            rw [if_neg (by omega)]
        · rename_i hnn
          unfold nearest
          rw [if_neg (fun h => hnn h.1)]
          exact ih hrest hl

/-- non-vacuity: QSW frame on orbit 0, a conversion, the same name re-registered TNW on orbit 1, a conversion -/
example : run [] [Op.reg "tgt" ⟨"QSW", 0, 0⟩, Op.conv "tgt", Op.reg "tgt" ⟨"TNW", 1, 0⟩, Op.conv "tgt"]
    = [some ⟨"QSW", 0, 0⟩, some ⟨"TNW", 1, 0⟩] := by decide

end registry

/-! ## 4. Maneuver windows in a numerical propagation (integer microseconds) -/
section windows
open BeyondVerif.ManWin BeyondVerif.Generated

/-- once the grid has reached the maneuver date, no later step fires -/
theorem countFired_zero_of_le (tm : Int) : ∀ (steps : List Int) (t0 : Int),
    (∀ h ∈ steps, 0 < h) → tm ≤ t0 → countFired tm t0 steps = 0 := by
  intro steps
  induction steps with
  | nil => intros; rfl
  | cons h rest ih =>
    intro t0 hpos hle
    have hh : 0 < h := hpos h (by simp)
    have hr := ih (t0 + h) (fun x hx => hpos x (by simp [hx])) (by omega)
    have hn : ¬ impCheck tm t0 h := by unfold impCheck; omega
    simp [countFired, hn, hr]

/-- **An impulsive maneuver takes effect exactly once**: for every partition of the propagated span into
consecutive positive steps — of any sizes, i.e. fixed or adapted — a maneuver date strictly after the
start and not after the end of the span satisfies `ImpulsiveMan.check(date, step)` for exactly one step. -/
theorem impulse_window_once (tm : Int) : ∀ (steps : List Int) (t0 : Int),
    (∀ h ∈ steps, 0 < h) → t0 < tm → tm ≤ t0 + steps.sum → countFired tm t0 steps = 1 := by
  intro steps
  induction steps with
  | nil => intro t0 _ h1 h2; simp at h2; omega
  | cons h rest ih =>
    intro t0 hpos h1 h2
    have hh : 0 < h := hpos h (by simp)
    have hpos' : ∀ x ∈ rest, 0 < x := fun x hx => hpos x (by simp [hx])
    simp only [List.sum_cons] at h2
    by_cases hc : tm ≤ t0 + h
    · have hf : impCheck tm t0 h := by unfold impCheck; omega
      simp [countFired, hf, countFired_zero_of_le tm rest (t0 + h) hpos' hc]
    · have hn : ¬ impCheck tm t0 h := by unfold impCheck; omega
      have := ih (t0 + h) hpos' (by omega) (by omega)
      simp [countFired, hn, this]

theorem firedSteps_nil_of_le (tm : Int) : ∀ (steps : List Int) (t0 : Int),
    (∀ h ∈ steps, 0 < h) → tm ≤ t0 → firedSteps tm t0 steps = [] := by
  intro steps
  induction steps with
  | nil => intros; rfl
  | cons h rest ih =>
    intro t0 hpos hle
    have hh : 0 < h := hpos h (by simp)
    have hr := ih (t0 + h) (fun x hx => hpos x (by simp [hx])) (by omega)
    have hn : ¬ impCheck tm t0 h := by unfold impCheck; omega
    simp [firedSteps, hn, hr]

/-- **… no later than one integration step after its date**: the single step `(ts, h)` at whose end the Δv is
added contains the maneuver date, `ts < tm ≤ ts + h`; the delay `ts + h − tm` is in `[0, h)`. -/
theorem impulse_applied_within_one_step (tm : Int) : ∀ (steps : List Int) (t0 : Int),
    (∀ h ∈ steps, 0 < h) → t0 < tm → tm ≤ t0 + steps.sum →
    ∃ ts h, firedSteps tm t0 steps = [(ts, h)] ∧ h ∈ steps ∧ t0 ≤ ts ∧ 0 ≤ ts + h - tm ∧ ts + h - tm < h := by
  intro steps
  induction steps with
  | nil => intro t0 _ h1 h2; simp at h2; omega
  | cons h rest ih =>
    intro t0 hpos h1 h2
    have hh : 0 < h := hpos h (by simp)
    have hpos' : ∀ x ∈ rest, 0 < x := fun x hx => hpos x (by simp [hx])
    simp only [List.sum_cons] at h2
    by_cases hc : tm ≤ t0 + h
    · have hf : impCheck tm t0 h := by unfold impCheck; omega
      refine ⟨t0, h, ?_, by simp, le_refl _, by omega, by omega⟩
      simp [firedSteps, hf, firedSteps_nil_of_le tm rest (t0 + h) hpos' hc]
    · have hn : ¬ impCheck tm t0 h := by unfold impCheck; omega
      obtain ⟨ts, h', e, hm, hle, hd0, hd1⟩ := ih (t0 + h) hpos' (by omega) (by omega)
      refine ⟨ts, h', ?_, by simp [hm], by omega, hd0, hd1⟩
      simp [firedSteps, hn, e]

/-- number of steps whose applied-impulse list contains the maneuver index `i` -/
def occurrences (i : Nat) (ls : List (List Nat)) : Nat := (ls.filter (fun l => decide (i ∈ l))).length

/-- several maneuvers per propagation are checked independently: the `i`-th one is applied at the end of exactly
the steps counted by `countFired` for its own date … -/
theorem occurrences_eq_countFired (mans : List Int) (i : Nat) (hi : i < mans.length) : ∀ (steps : List Int) (t0 : Int),
    occurrences i (appliedPerStep mans t0 steps) = countFired (mans.getD i 0) t0 steps := by
  intro steps
  induction steps with
  | nil => intro t0; rfl
  | cons h rest ih =>
    intro t0
    have ihh := ih (t0 + h)
    have hmem : (i ∈ (List.range mans.length).filter (fun j => decide (impCheck (mans.getD j 0) t0 h)))
        ↔ impCheck (mans.getD i 0) t0 h := by
      simp only [List.mem_filter, List.mem_range, decide_eq_true_eq]
      exact ⟨fun x => x.2, fun x => ⟨hi, x⟩⟩
    unfold occurrences at ihh ⊢
    show ((_ :: appliedPerStep mans (t0 + h) rest).filter _).length = (if _ then 1 else 0) + _
    rw [List.filter_cons]
    by_cases hc : impCheck (mans.getD i 0) t0 h
    · rw [if_pos (decide_eq_true (hmem.mpr hc)), List.length_cons, ihh, if_pos hc]; omega
    · rw [if_neg (by rw [decide_eq_true_eq]; exact (not_congr hmem).mpr hc), ihh, if_neg hc]; omega

/-- … hence **each of several maneuvers dated strictly inside the span is applied exactly once**. -/
theorem several_impulses_once (mans : List Int) (steps : List Int) (t0 : Int) (hpos : ∀ h ∈ steps, 0 < h)
    (i : Nat) (hi : i < mans.length) (h1 : t0 < mans.getD i 0) (h2 : mans.getD i 0 ≤ t0 + steps.sum) :
    occurrences i (appliedPerStep mans t0 steps) = 1 := by
  rw [occurrences_eq_countFired mans i hi]
  exact impulse_window_once _ steps t0 hpos h1 h2

/-- a maneuver dated at or before the start of the span, or after its end, is never applied -/
theorem impulse_outside_never (tm : Int) (steps : List Int) (t0 : Int) (hpos : ∀ h ∈ steps, 0 < h)
    (h : tm ≤ t0 ∨ t0 + steps.sum < tm) : countFired tm t0 steps = 0 := by
  rcases h with h | h
  · exact countFired_zero_of_le tm steps t0 hpos h
  · induction steps generalizing t0 with
    | nil => rfl
    | cons s rest ih =>
      have hs : 0 < s := hpos s (by simp)
      simp only [List.sum_cons] at h
      have hn : ¬ impCheck tm t0 s := by
        unfold impCheck
        have : 0 ≤ rest.sum := List.sum_nonneg (fun x hx => (hpos x (by simp [hx])).le)
        omega
      have := ih (t0 + s) (fun x hx => hpos x (by simp [hx])) (by omega)
      simp [countFired, hn, this]

/-- **A continuous maneuver thrusts exactly on `start ≤ t < stop`** (the translated `ContinuousMan.check`) -/
theorem thrust_window (start stop t : Int) : contCheck start stop t ↔ (start ≤ t ∧ t < stop) := Iff.rfl

/-- consecutive burns `[a, b)`, `[b, c)` tile `[a, c)`: at every date exactly one of them thrusts -/
theorem thrust_windows_tile (a b c t : Int) (hab : a ≤ b) (hbc : b ≤ c) :
    (contCheck a c t ↔ (contCheck a b t ∨ contCheck b c t)) ∧ ¬ (contCheck a b t ∧ contCheck b c t) := by
  unfold contCheck; omega

/-- non-vacuity: five adaptive-looking steps, a maneuver date off the grid inside the third -/
example : (∀ h ∈ [60000000, 21929629, 38070371, 60000000, 1], (0 : Int) < h) ∧ (0 : Int) < 100000001 ∧
    (100000001 : Int) ≤ 0 + [60000000, 21929629, 38070371, 60000000, 1].sum ∧
    firedSteps 100000001 0 [60000000, 21929629, 38070371, 60000000, 1] = [(81929629, 38070371)] := by decide

end windows

/-! ## 5. Maneuvers given as increments of Keplerian elements (`dkep2dv`, `dkep2aol`) -/
section dkep
open BeyondVerif.Lemmas.Dkep

/-- **Finite Δv with the requested geometry** (every input, no side condition): the velocity after the maneuver —
`v + dv_t` along the old velocity, `dv_w` along the angular momentum — has magnitude
`v_final = v + µ da / (2 v a²)` and makes the angle `dangle = √(di² + dΩ² sin² i)` with the old one:
`v + dv_t = v_final cos(dangle)`, `dv_w = |v_final sin(dangle)| ≥ 0`; the Δv itself closes the triangle
(law of cosines): `dv_t² + dv_w² = v² + v_final² − 2 v v_final cos(dangle)`. -/
theorem dkep2dv_triangle (μ a i v da di dOmega : ℝ) :
    v + dkepDvT μ a i v da di dOmega = dkepVFinal μ a i v da di dOmega * Real.cos (dkepDangle μ a i v da di dOmega) ∧
    dkepDvW μ a i v da di dOmega = |dkepVFinal μ a i v da di dOmega * Real.sin (dkepDangle μ a i v da di dOmega)| ∧
    (v + dkepDvT μ a i v da di dOmega) ^ 2 + dkepDvW μ a i v da di dOmega ^ 2 = dkepVFinal μ a i v da di dOmega ^ 2 ∧
    dkepDvT μ a i v da di dOmega ^ 2 + dkepDvW μ a i v da di dOmega ^ 2
      = v ^ 2 + dkepVFinal μ a i v da di dOmega ^ 2
        - 2 * v * dkepVFinal μ a i v da di dOmega * Real.cos (dkepDangle μ a i v da di dOmega) := by
  have hw := dkepDvW_eq μ a i v da di dOmega
  have ht : v + dkepDvT μ a i v da di dOmega
      = dkepVFinal μ a i v da di dOmega * Real.cos (dkepDangle μ a i v da di dOmega) := by
    rw [dkepDvT_eq]; ring
  refine ⟨ht, hw, ?_, ?_⟩
  · rw [ht, hw, sq_abs]
    have := Real.sin_sq_add_cos_sq (dkepDangle μ a i v da di dOmega)
    linear_combination (dkepVFinal μ a i v da di dOmega ^ 2) * this
  · rw [hw, sq_abs, radicand, dkepDvT_eq]

/-- no increment requested: no Δv at all (the pre-fix code returned NaN here) -/
theorem dkep2dv_zero (μ a i v : ℝ) : dkepDvT μ a i v 0 0 0 = 0 ∧ dkepDvW μ a i v 0 0 0 = 0 := by
  constructor
  · rw [dvT_pure_a]; simp
  · rw [dkepDvW_eq, dkepDangle_eq]; simp

/-- **An increment `da` is realised to first order, at any point of the orbit**: with `a` and `v` related by
vis-viva at radius `r` (`a = µ / (2µ/r − v²)`), the semi-major axis reached after adding the tangential
`dv_t(da)` of `dkep2dv` (no plane change) is `a + da + o(da)`: the map `da ↦ a(v + dv_t(da))` has derivative 1 at 0. -/
theorem dkep2dv_first_order_a (μ a i v r : ℝ) (hμ : μ ≠ 0) (hv : v ≠ 0) (hE : 2 * μ / r - v ^ 2 ≠ 0)
    (ha : a = smaOfSpeed μ r v) :
    HasDerivAt (fun da => smaOfSpeed μ r (v + dkepDvT μ a i v da 0 0)) 1 0 ∧
    smaOfSpeed μ r (v + dkepDvT μ a i v 0 0 0) = a := by
  constructor
  · have hfun : (fun da => smaOfSpeed μ r (v + dkepDvT μ a i v da 0 0))
        = (fun x => smaOfSpeed μ r (v + (μ / (2 * v * a ^ 2)) * x)) := by
      funext x; rw [dvT_pure_a]; congr 2; ring
    rw [hfun]
    refine (sma_hasDerivAt μ v r (μ / (2 * v * a ^ 2)) hE).congr_deriv ?_
    rw [ha]; unfold smaOfSpeed
    field_simp
  · rw [dvT_pure_a, ha]; simp

/-- the tangential Δv of a pure `da` request times `∂a/∂v = 2a²v/µ` is `da` exactly -/
theorem dkep2dv_dv_a (μ a i v da : ℝ) (hμ : μ ≠ 0) (hv : v ≠ 0) (ha : a ≠ 0) :
    dkepDvT μ a i v da 0 0 * (2 * a ^ 2 * v / μ) = da := by
  rw [dvT_pure_a]; field_simp

/-- **Where to apply a plane change**: at the argument of latitude `u = dkep2aol(di, dΩ)` the out-of-plane impulse
splits as requested: `cos u · dangle = di`, `sin u · dangle = dΩ sin i` (Gauss: `Δi ∝ cos u`, `ΔΩ sin i ∝ sin u`). -/
theorem dkep2aol_splits (μ a i v da di dOmega : ℝ) (h : di ≠ 0 ∨ dOmega * Real.sin i ≠ 0) :
    Real.cos (dkep2aol i di dOmega) * dkepDangle μ a i v da di dOmega = di ∧
    Real.sin (dkep2aol i di dOmega) * dkepDangle μ a i v da di dOmega = dOmega * Real.sin i :=
  aol_cos_sin μ a i v da di dOmega h

end dkep

end BeyondVerif.C17
