import BeyondVerif.Lemmas.Vec3

/-!
# C17 — Local orbital frames and maneuvers follow their definitions

Theorems over ℝ about `toQsw`, `toTnw` (translated from beyond/frames/local.py on every run,
Generated/LocalR.lean), `dkep…` (translated from beyond/orbits/man.py `dkep2dv`, `dkep2aol`,
Generated/DkepR.lean), the projection / attached-frame model of templates/Man.tpl, and — over ℤ
(microseconds) — about the maneuver windows `impCheck`, `contCheck` (translated from
`ImpulsiveMan.check`, `ContinuousMan.check`, Generated/ManWindow.lean) met by the step loop of
`KeplerNum` (Model/ManWin.lean).
-/
namespace BeyondVerif.C17
open BeyondVerif.R BeyondVerif.NumReal BeyondVerif.Lemmas.Vec3

/-! ## 1. QSW and TNW are proper rotations with the documented axes -/

/-- non-degenerate state: non-zero angular momentum `r × v` -/
def NonDeg (pos vel : V3) : Prop := V3.cross pos vel ≠ V3.zero

/-- unit vector along `a` -/
noncomputable def unit (a : V3) : V3 := V3.divS a (V3.norm a)

/-- the rows of `m` are orthonormal: `M Mᵀ = 1` entry by entry -/
def Orthonormal (m : M3) : Prop :=
  V3.dot m.r0 m.r0 = 1 ∧ V3.dot m.r1 m.r1 = 1 ∧ V3.dot m.r2 m.r2 = 1 ∧
  V3.dot m.r0 m.r1 = 0 ∧ V3.dot m.r0 m.r2 = 0 ∧ V3.dot m.r1 m.r2 = 0

theorem nondeg_pos {pos vel : V3} (h : NonDeg pos vel) : V3.norm pos ≠ 0 := by
  intro h0
  rw [norm_eq_zero_iff] at h0
  exact h (by rw [h0]; exact cross_zero_left vel)

theorem nondeg_vel {pos vel : V3} (h : NonDeg pos vel) : V3.norm vel ≠ 0 := by
  intro h0
  rw [norm_eq_zero_iff] at h0
  exact h (by rw [h0]; exact cross_zero_right pos)

theorem nondeg_w {pos vel : V3} (h : NonDeg pos vel) : V3.norm (V3.cross pos vel) ≠ 0 := by
  intro h0
  rw [norm_eq_zero_iff] at h0
  exact h h0

/-- **QSW axes**: the rows of `to_qsw` are the radial direction `r̂`, `ŵ × r̂`, and the direction `ŵ` of the
orbital angular momentum `r × v` (read off the translated source; a changed row or a swapped
cross product breaks this). -/
theorem qsw_axes (pos vel : V3) :
    toQsw pos vel = ⟨unit pos, V3.cross (unit (V3.cross pos vel)) (unit pos), unit (V3.cross pos vel)⟩ := rfl

/-- **TNW axes**: velocity direction `v̂`, `ŵ × v̂`, angular momentum direction `ŵ`. -/
theorem tnw_axes (pos vel : V3) :
    toTnw pos vel = ⟨unit vel, V3.cross (unit (V3.cross pos vel)) (unit vel), unit (V3.cross pos vel)⟩ := rfl

theorem qsw_unitPerp {pos vel : V3} (h : NonDeg pos vel) : UnitPerp (unit pos) (unit (V3.cross pos vel)) where
  hq := dot_divS_norm pos (nondeg_pos h)
  hw := dot_divS_norm _ (nondeg_w h)
  hqw := by unfold unit; rw [dot_divS_divS, dot_cross_self_left]; simp

theorem tnw_unitPerp {pos vel : V3} (h : NonDeg pos vel) : UnitPerp (unit vel) (unit (V3.cross pos vel)) where
  hq := dot_divS_norm vel (nondeg_vel h)
  hw := dot_divS_norm _ (nondeg_w h)
  hqw := by unfold unit; rw [dot_divS_divS, dot_cross_self_right]; simp

theorem triad_orthonormal {q w : V3} (h : UnitPerp q w) : Orthonormal (triad q w) :=
  ⟨h.hq, triad_s_unit h, h.hw, triad_qs, h.hqw, triad_sw⟩

/-- **The QSW matrix of any non-degenerate state is a proper rotation**: `M Mᵀ = 1` and `det M = 1`. -/
theorem qsw_proper_rotation (pos vel : V3) (h : NonDeg pos vel) :
    Orthonormal (toQsw pos vel) ∧ M3.det (toQsw pos vel) = 1 :=
  ⟨triad_orthonormal (qsw_unitPerp h), triad_det (qsw_unitPerp h)⟩

/-- **The TNW matrix of any non-degenerate state is a proper rotation**. -/
theorem tnw_proper_rotation (pos vel : V3) (h : NonDeg pos vel) :
    Orthonormal (toTnw pos vel) ∧ M3.det (toTnw pos vel) = 1 :=
  ⟨triad_orthonormal (tnw_unitPerp h), triad_det (tnw_unitPerp h)⟩

/-- non-vacuity: a circular-like state in the x–y plane is non-degenerate -/
example : NonDeg ⟨7000000, 0, 0⟩ ⟨0, 7500, 0⟩ := by
  intro h
  have := congrArg V3.z h
  simp [V3.cross, V3.zero] at this

/-! ## 2. A maneuver given in QSW / TNW / inertial axes contributes exactly its stated vector -/

theorem manProject_eq (t : Tag) (pos vel d : V3) :
    manProject t pos vel d = match t with
      | Tag.qsw => (triad (unit pos) (unit (V3.cross pos vel))).tMulVec d
      | Tag.tnw => (triad (unit vel) (unit (V3.cross pos vel))).tMulVec d
      | Tag.other => d := by
  cases t <;> rfl

/-- **Magnitude**: the Δv (acceleration) contributed by an impulsive (continuous) maneuver has exactly the
stated magnitude, whatever the frame tag. -/
theorem dv_magnitude (t : Tag) (pos vel d : V3) (h : NonDeg pos vel) :
    V3.norm (manProject t pos vel d) = V3.norm d := by
  cases t
  · exact norm_congr (triad_tMul_dot (qsw_unitPerp h) d)
  · exact norm_congr (triad_tMul_dot (tnw_unitPerp h) d)
  · rfl

/-- **Direction**: its components along the three axes of the tagged frame are the stated components
(for `other` the axes are those of the orbit's own frame: `toLocal other = 1`). -/
theorem dv_direction (t : Tag) (pos vel d : V3) (h : NonDeg pos vel) :
    (toLocal t pos vel).mulVec (manProject t pos vel d) = d := by
  cases t
  · exact triad_mul_tMul (qsw_unitPerp h) d
  · exact triad_mul_tMul (tnw_unitPerp h) d
  · ext <;> simp [toLocal, manProject, M3.mulVec, M3.ident, V3.dot]

/-- a continuous maneuver given by its total Δv over `duration` thrusts with `|Δv| / duration` -/
theorem accel_of_dv_magnitude (t : Tag) (pos vel dv : V3) (duration : ℝ) (h : NonDeg pos vel) (hd : 0 < duration) :
    V3.norm (manProject t pos vel (accelOfDv dv duration)) * duration = V3.norm dv := by
  rw [dv_magnitude t pos vel _ h]
  unfold accelOfDv V3.norm V3.divS
  simp only
  have : dv.x / duration * (dv.x / duration) + dv.y / duration * (dv.y / duration) + dv.z / duration * (dv.z / duration)
      = (dv.x * dv.x + dv.y * dv.y + dv.z * dv.z) / duration ^ 2 := by field_simp
  rw [this]
  show Real.sqrt (_ / duration ^ 2) * duration = Real.sqrt _
  rw [Real.sqrt_div (sumsq_nonneg dv), Real.sqrt_sq hd.le]
  field_simp

/-- a Keplerian maneuver `[dv_t, 0, dv_w]` (TNW) has magnitude `√(dv_t² + dv_w²)` in the inertial frame -/
theorem kepManDv_magnitude (pos vel : V3) (dv_t dv_w : ℝ) (h : NonDeg pos vel) :
    V3.norm (kepManDv pos vel dv_t dv_w) = Real.sqrt (dv_t * dv_t + dv_w * dv_w) := by
  have := norm_congr (triad_tMul_dot (tnw_unitPerp h) ⟨dv_t, 0, dv_w⟩)
  unfold kepManDv
  rw [tnw_axes]
  rw [show (⟨unit vel, V3.cross (unit (V3.cross pos vel)) (unit vel), unit (V3.cross pos vel)⟩ : M3)
        = triad (unit vel) (unit (V3.cross pos vel)) from rfl, this]
  unfold V3.norm; simp

/-! ## 3. A frame attached to an orbit -/

/-- **The orbit a frame is attached to sits at that frame's origin** (any orientation tag, any state). -/
theorem orbit_frame_origin (t : Tag) (ref : St) : frameTo t ref ref = ⟨V3.zero, V3.zero⟩ := by
  unfold frameTo
  simp only [V3.sub, sub_self, M3.mulVec, V3.dot, mul_zero, add_zero, V3.zero]

theorem toLocal_tMul_mul (t : Tag) (pos vel y : V3) (h : NonDeg pos vel) :
    (toLocal t pos vel).tMulVec ((toLocal t pos vel).mulVec y) = y := by
  cases t
  · exact triad_tMul_mul (qsw_unitPerp h) y
  · exact triad_tMul_mul (tnw_unitPerp h) y
  · ext <;> simp [toLocal, M3.mulVec, M3.tMulVec, M3.ident, V3.dot]

theorem toLocal_mul_tMul (t : Tag) (pos vel y : V3) (h : NonDeg pos vel) :
    (toLocal t pos vel).mulVec ((toLocal t pos vel).tMulVec y) = y := by
  cases t
  · exact triad_mul_tMul (qsw_unitPerp h) y
  · exact triad_mul_tMul (tnw_unitPerp h) y
  · ext <;> simp [toLocal, M3.mulVec, M3.tMulVec, M3.ident, V3.dot]

theorem add_sub_V3 (a b : V3) : V3.add (V3.sub a b) b = a := by
  ext <;> simp [V3.add, V3.sub]

theorem sub_add_V3 (a b : V3) : V3.sub (V3.add a b) b = a := by
  ext <;> simp [V3.add, V3.sub]

/-- **Conversion to the attached frame and back to the parent loses nothing** (positions and velocities). -/
theorem orbit_frame_roundtrip (t : Tag) (ref x : St) (h : NonDeg ref.p ref.v) :
    frameFrom t ref (frameTo t ref x) = x := by
  unfold frameFrom frameTo
  simp only [toLocal_tMul_mul t _ _ _ h, add_sub_V3]

/-- … and from the attached frame to the parent and back. -/
theorem orbit_frame_roundtrip' (t : Tag) (ref y : St) (h : NonDeg ref.p ref.v) :
    frameTo t ref (frameFrom t ref y) = y := by
  unfold frameFrom frameTo
  simp only [sub_add_V3, toLocal_mul_tMul t _ _ _ h]

end BeyondVerif.C17
