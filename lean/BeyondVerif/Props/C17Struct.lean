import BeyondVerif.Model.AccelLoop
import BeyondVerif.Generated.AccelLoopSrc
import BeyondVerif.Model.FrameName
import BeyondVerif.Model.FrameReg
import BeyondVerif.Model.ManR
import Mathlib.Algebra.BigOperators.Group.List.Basic
import Mathlib.Algebra.Group.Basic
import Mathlib.Tactic.Abel

/-!
# C17 — structure read from the source: the loops of `_accel`, the frame-name table, the reference objects

* `KeplerNum._accel`: the loop program regenerated from the AST (`Generated/AccelLoopSrc.accelProg`) adds the attraction
  once per body and the thrust once per active maneuver — whatever the number of bodies;
* the name of a maneuver frame: every spelling the constructors accept for a local orbital frame selects that frame's
  matrix, every other name (and `None`) the identity;
* orbit-attached frames: no operation of a session writes to a reference object, and repeated conversions read the same.
-/
namespace BeyondVerif.C17
open BeyondVerif.AccelLoop BeyondVerif.Generated.AccelLoopSrc

section accel
variable {α β μ : Type}

theorem topBodies_grav (add : α → α → α) (g : β → α) (th : μ → Option α) (bodies : List β) (mans : List μ) :
    ∀ (bs : List β) (acc : α), topBodies add g th bodies mans [Inner.leaf Leaf.grav] acc bs = some ((bs.map g).foldl add acc)
  | [], _ => rfl
  | b :: bs, acc => by
    simp [topBodies, runInners, runInner, runLeaf, topBodies_grav add g th bodies mans bs]

theorem topMans_thrust (add : α → α → α) (g : β → α) (th : μ → Option α) (bodies : List β) (mans : List μ) :
    ∀ (ms : List μ) (acc : α), topMans add g th bodies mans [Inner.leaf Leaf.thrust] acc ms = some ((ms.filterMap th).foldl add acc)
  | [], _ => rfl
  | m :: ms, acc => by
    cases hm : th m <;>
      simp [topMans, runInners, runInner, runLeaf, hm, topMans_thrust add g th bodies mans ms]

/-- **`_accel` as the source has it**: for every list of attracting bodies and every list of maneuvers, the
acceleration is accumulated in this order: the attraction of each body once, then the acceleration of each maneuver
whose guard holds once.  No algebraic law is used, so this holds of the Float instantiation as well. -/
theorem accel_program (add : α → α → α) (g : β → α) (th : μ → Option α) (bodies : List β) (mans : List μ) (acc : α) :
    run add g th bodies mans acc accelProg = some ((mans.filterMap th).foldl add ((bodies.map g).foldl add acc)) := by
  simp [accelProg, run, runTop, topBodies_grav, topMans_thrust]

theorem foldl_add_eq_sum [AddCommMonoid α] : ∀ (l : List α) (acc : α), l.foldl (· + ·) acc = acc + l.sum
  | [], acc => by simp
  | x :: l, acc => by simp [foldl_add_eq_sum l, add_assoc]

/-- **The thrust of a continuous maneuver is added once per evaluation, not once per body**: the result is
`Σ_bodies attraction + Σ_active maneuvers thrust` … -/
theorem accel_thrust_once [AddCommMonoid α] (g : β → α) (th : μ → Option α) (bodies : List β) (mans : List μ) :
    run (· + ·) g th bodies mans 0 accelProg = some ((bodies.map g).sum + (mans.filterMap th).sum) := by
  rw [accel_program, foldl_add_eq_sum, foldl_add_eq_sum, zero_add]

/-- … so what the maneuvers contribute (evaluation with them minus evaluation without) is the same for any two lists of
bodies — none, one, three, … -/
theorem thrust_independent_of_bodies [AddCommGroup α] (g : β → α) (th : μ → Option α) (bodies bodies' : List β) (mans : List μ) :
    ∃ a b a' b', run (· + ·) g th bodies mans 0 accelProg = some a ∧ run (· + ·) g th bodies [] 0 accelProg = some b ∧
      run (· + ·) g th bodies' mans 0 accelProg = some a' ∧ run (· + ·) g th bodies' [] 0 accelProg = some b' ∧
      a - b = (mans.filterMap th).sum ∧ a' - b' = (mans.filterMap th).sum := by
  refine ⟨_, _, _, _, accel_thrust_once g th bodies mans, accel_thrust_once g th bodies [], accel_thrust_once g th bodies' mans,
    accel_thrust_once g th bodies' [], ?_, ?_⟩ <;> simp

/-- the ℝ-model `accelOf` (templates/Man.tpl) spelled out -/
theorem accelOf_eq (pos vel : R.V3) (bodies : List (ℝ × R.V3)) (mans : List R.ContMan) :
    R.accelOf pos vel bodies mans = some ((mans.filterMap (fun m => if m.on then some (R.manProject m.tag pos vel m.acc) else none)).foldl R.V3.add
      ((bodies.map (fun b => R.gravTerm b.1 b.2 pos)).foldl R.V3.add R.V3.zero)) := by
  unfold R.accelOf
  exact accel_program _ _ _ _ _ _

/-- non-vacuity: three bodies, two maneuvers of which one is on (over ℤ) -/
example : run (· + ·) (fun b : Int => b) (fun m : Int => if m > 0 then some m else none) [100, 20, 3] [5, -7] 0 accelProg = some 128 := by decide

end accel

/-! ## Names of maneuver frames -/
section names
open BeyondVerif.FrameName BeyondVerif.Generated.FrameNames

/-- **Every accepted spelling of a local orbital frame selects that frame's matrix**: whatever the case of its letters,
a name that upper-cases to ['Q', 'S', 'W'] makes `ImpulsiveMan.dv` and `ContinuousMan.accel` multiply by `to_qsw(orb).T`, one that
upper-cases to ['T', 'N', 'W'] by `to_tnw(orb).T` (tables regenerated from the constructors, the `in (...)` tests and `to_local`). -/
theorem accepted_spelling_selects_local (s : Name) :
    (pyUpper s = ['Q', 'S', 'W'] → impulsiveSel (some s) = Sel.qsw ∧ continuousSel (some s) = Sel.qsw) ∧
    (pyUpper s = ['T', 'N', 'W'] → impulsiveSel (some s) = Sel.tnw ∧ continuousSel (some s) = Sel.tnw) := by
  constructor <;> intro h <;>
    simp [impulsiveSel, continuousSel, manSel, ctorFrame, impCtorUpper, contCtorUpper, impDvTags, contAccelTags, toLocalTable, h] <;> decide

/-- `None`, the name of an inertial frame, an alias the code does not know ("RSW", "LVLH", "RTN") — every name that does
not upper-case to ['Q', 'S', 'W']/['T', 'N', 'W'] — leaves the stated vector in the axes of the orbit's own frame; no name makes the
projection raise. -/
theorem other_names_select_identity :
    impulsiveSel none = Sel.identity ∧ continuousSel none = Sel.identity ∧
    ∀ s : Name, pyUpper s ≠ ['Q', 'S', 'W'] → pyUpper s ≠ ['T', 'N', 'W'] → impulsiveSel (some s) = Sel.identity ∧ continuousSel (some s) = Sel.identity := by
  refine ⟨rfl, rfl, fun s h1 h2 => ?_⟩
  simp [impulsiveSel, continuousSel, manSel, ctorFrame, impCtorUpper, contCtorUpper, impDvTags, contAccelTags, h1, h2]

/-- a Keplerian continuous maneuver thrusts in TNW -/
theorem keplerian_continuous_is_tnw : keplerianContinuousSel = Sel.tnw := by decide

/-- `orbit2frame(orientation=s)`: accepted spellings give the local orientation, `None` the axes of the reference's
frame, anything else is refused -/
theorem orbit2frame_names (s : Name) :
    (pyUpper s = ['Q', 'S', 'W'] → orbit2frameSel (some s) = Sel.qsw) ∧ (pyUpper s = ['T', 'N', 'W'] → orbit2frameSel (some s) = Sel.tnw) ∧
    (pyUpper s ≠ ['Q', 'S', 'W'] → pyUpper s ≠ ['T', 'N', 'W'] → orbit2frameSel (some s) = Sel.valueError) ∧ orbit2frameSel none = Sel.identity := by
  refine ⟨fun h => ?_, fun h => ?_, fun h1 h2 => ?_, rfl⟩ <;>
    simp_all [orbit2frameSel, orbit2frameTags, orbit2frameUpper, toLocalTable, toLocalSel]

example : impulsiveSel (some ['t', 'n', 'w']) = Sel.tnw ∧ continuousSel (some ['Q', 's', 'w']) = Sel.qsw ∧ impulsiveSel (some ['R', 'S', 'W']) = Sel.identity ∧
    impulsiveSel (some ['E', 'M', 'E', '2', '0', '0', '0']) = Sel.identity ∧ orbit2frameSel (some ['l', 'v', 'l', 'h']) = Sel.valueError := by decide

end names

/-! ## Reference objects of orbit-attached frames -/
section world
open BeyondVerif.FrameReg

/-- **The reference object is never modified**: whatever is registered and converted, in whatever order, the store of
reference objects (class, frame, form, coordinates) is the one the session started with. -/
theorem reference_never_modified (w : World) (ops : List Op) : (stateW w ops).refs = w.refs := by
  induction ops generalizing w with
  | nil => rfl
  | cons o rest ih => cases o <;> simp [stateW, stepW, ih]

theorem runW_append (w : World) (a b : List Op) : runW w (a ++ b) = runW w a ++ runW (stateW w a) b := by
  induction a generalizing w with
  | nil => rfl
  | cons o rest ih => cases o <;> simp [runW, stateW, stepW, ih]

theorem stateW_append (w : World) (a b : List Op) : stateW w (a ++ b) = stateW (stateW w a) b := by
  induction a generalizing w with
  | nil => rfl
  | cons o rest ih => simp [stateW, ih]

theorem stateW_convs (w : World) (mid : List Op) (hm : ∀ o ∈ mid, ∃ n, o = Op.conv n) : stateW w mid = w := by
  induction mid with
  | nil => rfl
  | cons o rest ih =>
    obtain ⟨n, rfl⟩ := hm o (by simp)
    simpa [stateW, stepW] using ih (fun o ho => hm o (by simp [ho]))

/-- **Repeated conversions agree**: two conversions through the same name with only conversions (through any names, at
any dates) between them read the same binding and the same reference object — the one given by the registrations
before them. -/
theorem repeated_conversions_agree (w : World) (pre mid : List Op) (name : String) (hm : ∀ o ∈ mid, ∃ n, o = Op.conv n) :
    runW w (pre ++ [Op.conv name] ++ mid ++ [Op.conv name])
      = runW w pre ++ [readConv (stateW w pre) name] ++ runW (stateW w pre) mid ++ [readConv (stateW w pre) name] := by
  have e1 : stateW (stateW w pre) [Op.conv name] = stateW w pre := rfl
  simp only [runW_append, stateW_append, e1, stateW_convs _ mid hm]
  simp [runW, stepW]

/-- the reading of a conversion: the latest registration of the name and the untouched object it points to -/
theorem conversion_reads_latest (w : World) (name : String) (e : Entry) (ops : List Op) (hm : ∀ o ∈ ops, ∃ n, o = Op.conv n) :
    readConv (stateW w (Op.reg name e :: ops)) name = some (e, w.refs[e.orbit]?) := by
  have : stateW w (Op.reg name e :: ops) = ⟨register w.reg name e, w.refs⟩ := by
    simp only [stateW, stepW]; exact stateW_convs _ ops hm
  simp [this, readConv, register, lookup]

example : runW ⟨[], [⟨"StateVector", "TEME", "cartesian", [1, 2, 3, 4, 5, 6]⟩]⟩
      [Op.reg "f" ⟨"QSW", 0, 0⟩, Op.conv "f", Op.conv "f"]
    = [some (⟨"QSW", 0, 0⟩, some ⟨"StateVector", "TEME", "cartesian", [1, 2, 3, 4, 5, 6]⟩),
       some (⟨"QSW", 0, 0⟩, some ⟨"StateVector", "TEME", "cartesian", [1, 2, 3, 4, 5, 6]⟩)] := by decide

end world

end BeyondVerif.C17
