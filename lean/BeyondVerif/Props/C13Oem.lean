import BeyondVerif.Props.C13Wf
/-!
C13, `load_dump_id` for a whole message type: **OEM in XML**.  For every non-empty list of well-formed
segments (`SegWf`: any registered frame (Earth-centred or not), non-empty texts, 1..N points with distinct epochs, each point
with or without a covariance block in the orbit's frame / QSW / TNW, `INTERPOLATION` with or without
`INTERPOLATION_DEGREE`) `loadOemXml (oemXml m)` is `m` again.

Assembly, in the style of `opm_xml_load_dump_id`:
* `seg_meta_xml` / `seg_meta_read`: the `metadata` element becomes the explicit dict `segMetaDict`, and the reader's lookups on it;
* `seg_data_kids`: the `data` element becomes `segDataDict` (the `stateVector` group, then the `covarianceMatrix` group, possibly empty);
* `attachCov_unique`, `fold_attach`: the covariance loop attaches each block to the point of the same epoch — with distinct
  epochs the point list is restored exactly;
* `seg_xml_load_dump_id`: one segment; `oem_xml_load_dump_id`: the `segment` group under `body`, any number ≥ 1.
-/
namespace BeyondVerif.C13
open BeyondVerif.Ccsds BeyondVerif.Generated

/-! Auxiliary definitions and lemmas live in the sub-namespace `OemXml` (no clash with the sibling files of C13). -/
namespace OemXml

/-! ### the attachment of covariance blocks to points -/

/-- a point as the point loop of `oem._loads_xml` creates it: without covariance -/
def strip (p : Point) : Point := { p with cov := none }

theorem findIdx?_first {α : Type} (q : α → Bool) (l : List α) (a : α) (r : List α) (hl : ∀ x ∈ l, q x = false) (ha : q a = true) :
    (l ++ a :: r).findIdx? q = some l.length := by
  induction l with
  | nil => simp [List.findIdx?_cons, ha]
  | cons x l ih =>
    have hx : q x = false := hl x (by simp)
    simp [List.findIdx?_cons, hx, ih (fun y hy => hl y (by simp [hy]))]

theorem setCovAt_append (pre : List Point) (p : Point) (suf : List Point) (c : CovM) :
    setCovAt (pre ++ p :: suf) pre.length c = pre ++ { p with cov := some c } :: suf := by
  induction pre with
  | nil => rfl
  | cons x pre ih => simp [setCovAt, ih]

/-- `orbit_mapping[date]` when no later point has that epoch: the block lands on that very point -/
theorem attachCov_unique (pre suf : List Point) (p : Point) (c : CovM) (hsuf : ∀ x ∈ suf, x.epoch ≠ p.epoch) :
    attachCov (pre ++ p :: suf) p.epoch c = .ok (pre ++ { p with cov := some c } :: suf) := by
  unfold attachCov
  have hany : (pre ++ p :: suf).any (fun x => decide (x.epoch = p.epoch)) = true := by simp
  rw [if_pos hany]
  have hrev : (pre ++ p :: suf).reverse = suf.reverse ++ p :: pre.reverse := by simp
  rw [hrev, findIdx?_first _ _ _ _ (by intro x hx; simp at hx; simpa using hsuf x hx) (by simp)]
  simp only [Option.getD_some, List.length_reverse, List.length_append, List.length_cons]
  have : pre.length + (suf.length + 1) - 1 - suf.length = pre.length := by omega
  rw [this, setCovAt_append]

/-- body of the covariance loop of `oem._loads_xml` (the lambda of `loadSegXml`, named) -/
def covStep (md : Dict) (frame : String) (pts : List Point) (v : Val) : R (List Point) := do
  let c ← asDict v
  let ep ← textOf c "EPOCH"
  let _ ← strOf md "TIME_SYSTEM"
  if pts.any (·.epoch = ep) then
    let cm ← loadCov frame c
    attachCov pts ep cm
  else .error .ccsdsError

/-- covariance block of an OEM (with its EPOCH child), packaged for well-formed covariances -/
theorem cov_xml_roundtrip_ep (own : String) (hown : own ∈ frameTable.map (·.1)) (ep : Txt) (hep : ep ≠ .s "") (c : CovM) (h : CovWf c) :
    recurse (covXml (some ep) c) = some (.dict (covDict (some ep) c)) ∧ loadCov own (covDict (some ep) c) = .ok c := by
  obtain ⟨frame, tri⟩ := c
  obtain ⟨⟨a0, a1, a2, a3, a4, a5, a6, a7, a8, a9, a10, a11, a12, a13, a14, a15, a16, a17, a18, a19, a20, htri, hne⟩, hfr⟩ := h
  simp only at htri hfr
  subst htri
  have := cov_xml_roundtrip own (some ep) frame a0 a1 a2 a3 a4 a5 a6 a7 a8 a9 a10 a11 a12 a13 a14 a15 a16 a17 a18 a19 a20 hne (by simpa using hep)
    (covFrameOut_ne _ hfr)
  refine ⟨this.1, ?_⟩
  rw [this.2, covFrameBack_ok own _ hown hfr]

theorem covDict_epoch (ep : Txt) (c : CovM) : textOf (covDict (some ep) c) "EPOCH" = .ok ep := by
  simp [covDict, textOf, getItem, Val.text, bind, Except.bind]

theorem covStep_ok (md : Dict) (own : String) (hown : own ∈ frameTable.map (·.1)) (hts : ∃ a, strOf md "TIME_SYSTEM" = .ok a)
    (pts : List Point) (ep : Txt) (hep : ep ≠ .s "") (c : CovM) (hc : CovWf c) :
    covStep md own pts (.dict (covDict (some ep) c)) = attachCov pts ep c := by
  obtain ⟨a, ha⟩ := hts
  simp only [covStep, asDict, bind, Except.bind, covDict_epoch, ha, (cov_xml_roundtrip_ep own hown ep hep c hc).2]
  unfold attachCov
  split <;> simp_all

def covPairs (ps : List Point) : List (Txt × CovM) := ps.filterMap fun p => p.cov.map fun c => (p.epoch, c)
def covVals (ps : List Point) : List Val := (covPairs ps).map fun ec => Val.dict (covDict (some ec.1) ec.2)

theorem strip_eq_self (p : Point) (h : p.cov = none) : strip p = p := by
  obtain ⟨e, s, c⟩ := p
  simp only at h
  subst h
  rfl

theorem strip_set (p : Point) (c : CovM) (h : p.cov = some c) : { strip p with cov := some c } = p := by
  obtain ⟨e, s, c'⟩ := p
  simp only at h
  subst h
  rfl

/-- **attachment**: processing the covariance blocks of `rest` on `done ++ (rest with covariances stripped)` restores `done ++ rest` -/
theorem fold_attach (md : Dict) (own : String) (hown : own ∈ frameTable.map (·.1)) (hts : ∃ a, strOf md "TIME_SYSTEM" = .ok a) :
    ∀ (rest done : List Point), (∀ p ∈ rest, p.epoch ≠ .s "" ∧ ∀ c, p.cov = some c → CovWf c) →
      (rest.map (·.epoch)).Nodup →
      (covVals rest).foldlM (covStep md own) (done ++ rest.map strip) = .ok (done ++ rest) := by
  intro rest
  induction rest with
  | nil => intro done _ _; rfl
  | cons p rest ih =>
    intro done hwf hnd
    have hwf' : ∀ q ∈ rest, q.epoch ≠ .s "" ∧ ∀ c, q.cov = some c → CovWf c := fun q hq => hwf q (by simp [hq])
    simp only [List.map_cons, List.nodup_cons] at hnd
    have ih' := ih (done ++ [p]) hwf' hnd.2
    simp only [List.append_assoc, List.cons_append, List.nil_append] at ih'
    cases hc : p.cov with
    | none =>
      have : covVals (p :: rest) = covVals rest := by simp [covVals, covPairs, hc]
      rw [this, List.map_cons, strip_eq_self p hc]
      exact ih'
    | some c =>
      have : covVals (p :: rest) = .dict (covDict (some p.epoch) c) :: covVals rest := by
        simp [covVals, covPairs, hc]
      rw [this, List.foldlM_cons, covStep_ok md own hown hts _ _ (hwf p (by simp)).1 c ((hwf p (by simp)).2 c hc)]
      have hsuf : ∀ x ∈ rest.map strip, x.epoch ≠ (strip p).epoch := by
        intro x hx
        simp only [List.mem_map] at hx
        obtain ⟨y, hy, rfl⟩ := hx
        intro he
        exact hnd.1 (List.mem_map.mpr ⟨y, hy, he⟩)
      have := attachCov_unique done (rest.map strip) (strip p) c hsuf
      rw [strip_set p c hc] at this
      simp only [List.map_cons]
      show (attachCov (done ++ strip p :: rest.map strip) (strip p).epoch c >>= _) = _
      rw [this]
      exact ih'


/-! ### the metadata element -/

/-- the extra metadata lines of an OEM segment, on explicit values -/
def extrasOf (t0 t1 : Txt) (method : String) (order : Option Txt) : List (String × Txt) :=
  [("START_TIME", t0), ("STOP_TIME", t1), ("INTERPOLATION", .s method)] ++
    (match order with | some o => [("INTERPOLATION_DEGREE", o)] | none => [])

/-- the dict `xml2dict` builds for the `metadata` element of an OEM segment -/
def segMetaDict (name id center frame scale : String) (t0 t1 : Txt) (method : String) (order : Option Txt) : Dict :=
  metaDict name id center frame scale ++ (extrasOf t0 t1 method order).map fun kv => (kv.1, Val.field kv.2 [])

theorem seg_meta_xml (name id center frame scale : String) (t0 t1 : Txt) (method : String) (order : Option Txt)
    (h1 : name ≠ "") (h2 : id ≠ "") (h3 : center ≠ "") (h4 : frame ≠ "") (h5 : scale ≠ "")
    (h6 : t0 ≠ .s "") (h7 : t1 ≠ .s "") (h8 : method ≠ "") (h9 : order ≠ some (.s "")) :
    recurse (metaXml name id center frame scale (extrasOf t0 t1 method order)) =
      some (.dict (segMetaDict name id center frame scale t0 t1 method order)) := by
  cases order with
  | none =>
    simp [metaXml, segMetaDict, metaDict, extrasOf, leafS, recurse, recurseKids, addChild, Elem.tag, List.lookup, h1, h2, h3, h4, h5, h6, h7, h8]
  | some o =>
    have h9' : o ≠ .s "" := fun h => h9 (by rw [h])
    simp [metaXml, segMetaDict, metaDict, extrasOf, leafS, recurse, recurseKids, addChild, Elem.tag, List.lookup, h1, h2, h3, h4, h5, h6, h7, h8, h9']

/-- what the reader looks up in the metadata dict -/
theorem seg_meta_read (name id center frame scale : String) (t0 t1 : Txt) (method : String) (order : Option Txt) :
    let MD := segMetaDict name id center frame scale t0 t1 method order
    strOf MD "OBJECT_NAME" = .ok name ∧ strOf MD "OBJECT_ID" = .ok id ∧ strOf MD "CENTER_NAME" = .ok center ∧
    strOf MD "REF_FRAME" = .ok frame ∧ strOf MD "TIME_SYSTEM" = .ok scale ∧
    MD.lookup "INTERPOLATION" = some (.field (.s method) []) ∧
    MD.lookup "INTERPOLATION_DEGREE" = order.map fun o => Val.field o [] := by
  cases order <;>
    simp [segMetaDict, metaDict, extrasOf, strOf, textOf, getItem, Val.text, List.lookup, bind, Except.bind, pure, Except.pure]


/-! ### the `data` element -/

theorem covXml_filterMap (ps : List Point) :
    ps.filterMap (fun p => p.cov.map (covXml (some p.epoch))) = (covPairs ps).map fun ec => covXml (some ec.1) ec.2 := by
  induction ps with
  | nil => rfl
  | cons p r ih =>
    cases hc : p.cov with
    | none => simpa [covPairs, hc] using ih
    | some c => simpa [covPairs, hc] using ih

theorem covPairs_mem (ps : List Point) (ec : Txt × CovM) (h : ec ∈ covPairs ps) : ∃ p ∈ ps, p.epoch = ec.1 ∧ p.cov = some ec.2 := by
  simp only [covPairs, List.mem_filterMap, Option.map_eq_some_iff] at h
  obtain ⟨p, hp, c, hc, rfl⟩ := h
  exact ⟨p, hp, rfl, hc⟩

/-- the dict `xml2dict` builds for the `data` element of an OEM segment -/
def segDataDict (ps : List Point) : Dict :=
  accD "covarianceMatrix" (covVals ps) (accD "stateVector" ((ps.map fun p => svDict p.epoch p.state).map Val.dict) [])

theorem point_xml (p : Point) (h : PointWf p) : recurse (svXml p.epoch p.state) = some (.dict (svDict p.epoch p.state)) := by
  obtain ⟨he, x, y, z, vx, vy, vz, hs, h1, h2, h3, h4, h5, h6⟩ := h
  rw [hs]
  exact (sv_xml_roundtrip p.epoch x y z vx vy vz he h1 h2 h3 h4 h5 h6).1

theorem seg_data_kids (ps : List Point) (hp : ∀ p ∈ ps, PointWf p) (hc : ∀ p ∈ ps, ∀ c, p.cov = some c → CovWf c) :
    recurseKids (ps.map (fun p => svXml p.epoch p.state) ++ ps.filterMap (fun p => p.cov.map (covXml (some p.epoch)))) [] =
      some (segDataDict ps) := by
  rw [recurseKids_group0 "stateVector" [] rfl (ps.map fun p => svXml p.epoch p.state)
    ((ps.map fun p => svDict p.epoch p.state).map Val.dict) _
    (by intro e he; simp only [List.mem_map] at he; obtain ⟨p, _, rfl⟩ := he; rfl)
    (by
      simp only [List.map_map]
      apply List.map_congr_left
      intro p hpm
      simp [point_xml p (hp p hpm)])
    (by intro v hv; simp only [List.mem_map] at hv; obtain ⟨_, _, rfl⟩ := hv; rfl)]
  have := recurseKids_group0 "covarianceMatrix" (accD "stateVector" ((ps.map fun p => svDict p.epoch p.state).map Val.dict) [])
    (by simp [lookup_accD_other, List.lookup]) ((covPairs ps).map fun ec => covXml (some ec.1) ec.2) (covVals ps) []
    (by intro e he; simp only [List.mem_map] at he; obtain ⟨p, _, rfl⟩ := he; rfl)
    (by
      simp only [covVals, List.map_map]
      apply List.map_congr_left
      intro ec hec
      obtain ⟨p, hpm, he, hcov⟩ := covPairs_mem ps ec hec
      have hep : ec.1 ≠ .s "" := he ▸ (hp p hpm).1
      simp [(cov_xml_roundtrip_ep "EME2000" (by decide) ec.1 hep ec.2 (hc p hpm _ hcov)).1])
    (by intro v hv; simp only [covVals, List.mem_map] at hv; obtain ⟨_, _, rfl⟩ := hv; rfl)
  simp only [List.append_nil] at this
  rw [covXml_filterMap, this]
  rfl

theorem seg_data_lookup_sv (ps : List Point) :
    (segDataDict ps).lookup "stateVector" = promote ((ps.map fun p => svDict p.epoch p.state).map Val.dict) := by
  simp only [segDataDict]
  rw [lookup_accD_other _ _ _ _ (by decide), lookup_accD_same _ _ _ rfl]

theorem seg_data_lookup_cov (ps : List Point) : (segDataDict ps).lookup "covarianceMatrix" = promote (covVals ps) := by
  simp only [segDataDict]
  rw [lookup_accD_same _ _ _ (by simp [lookup_accD_other, List.lookup])]

/-- the point loop of `oem._loads_xml` on the data dict -/
theorem seg_read_points (md : Dict) (hmd : ∃ a b c, strOf md "TIME_SYSTEM" = .ok a ∧ strOf md "OBJECT_NAME" = .ok b ∧ strOf md "OBJECT_ID" = .ok c)
    (ps : List Point) (hne : ps ≠ []) (hp : ∀ p ∈ ps, PointWf p) :
    ∃ x, getItem (segDataDict ps) "stateVector" = .ok x ∧ iterGroup wrapOemStateVector .typeError x = .ok ((ps.map fun p => svDict p.epoch p.state).map Val.dict) ∧
      ((ps.map fun p => svDict p.epoch p.state).map Val.dict).mapM (loadPointXml md) = .ok (ps.map strip) := by
  obtain ⟨x, hx⟩ : ∃ x, promote ((ps.map fun p => svDict p.epoch p.state).map Val.dict) = some x := by
    match ps, hne with
    | [p], _ => exact ⟨_, rfl⟩
    | p :: q :: r, _ => exact ⟨_, rfl⟩
  refine ⟨x, by rw [getItem, seg_data_lookup_sv, hx], ?_, mapM_loadPoint md hmd ps hp⟩
  exact iterGroup_promote _ _ _ (by intro v hv; simp only [List.mem_map] at hv; obtain ⟨_, _, rfl⟩ := hv; rfl) (Or.inl (by decide)) x hx

/-- the covariance group lookup of `loadSegXml`, named -/
def readCovGroup (dt : Dict) : R (List Val) :=
  match dt.lookup "covarianceMatrix" with
  | some v => iterGroup wrapOemCov .typeError v
  | none => pure []

/-- the `INTERPOLATION` lookup of `loadSegXml`, named -/
def readMethod (md : Dict) : String :=
  match md.lookup "INTERPOLATION" with
  | some (.field (.s v) _) => v
  | _ => "LAGRANGE"

/-- the `INTERPOLATION_DEGREE` lookup of `loadSegXml`, named -/
def readOrder (md : Dict) : R (Option Txt) :=
  match md.lookup "INTERPOLATION_DEGREE" with
  | some v => some <$> v.text
  | none => pure none

/-- the covariance group of the data dict as the reader iterates over it: none, one or many blocks -/
theorem seg_read_covs (ps : List Point) : readCovGroup (segDataDict ps) = .ok (covVals ps) := by
  unfold readCovGroup
  rw [seg_data_lookup_cov]
  have hnl : ∀ v ∈ covVals ps, v.isList = false := by
    intro v hv; simp only [covVals, List.mem_map] at hv; obtain ⟨_, _, rfl⟩ := hv; rfl
  cases h : covVals ps with
  | nil => rfl
  | cons v r =>
    rw [h] at hnl
    obtain ⟨x, hx⟩ : ∃ x, promote (v :: r) = some x := by
      cases r with
      | nil => exact ⟨_, rfl⟩
      | cons a b => exact ⟨_, rfl⟩
    rw [hx]
    exact iterGroup_promote _ _ _ hnl (Or.inl (by decide)) x hx

/-! ### one segment -/

/-- `loadSegXml` with its anonymous pieces named (the two `match`es of the do-block pulled out of their join points) -/
theorem loadSegXml_eq (seg : Dict) : loadSegXml seg = keyErrToCcsds (do
    let md ← asDict (← getItem seg "metadata")
    let dt ← asDict (← getItem seg "data")
    let frame ← strOf md "REF_FRAME"
    let center ← strOf md "CENTER_NAME"
    let frame ← centreRule center frame
    let svs ← iterGroup wrapOemStateVector .typeError (← getItem dt "stateVector")
    let pts ← svs.mapM (loadPointXml md)
    let covs ← readCovGroup dt
    let pts ← covs.foldlM (covStep md frame) pts
    let order ← readOrder md
    pure { name := ← strOf md "OBJECT_NAME", id := ← strOf md "OBJECT_ID", frame := frame, scale := ← strOf md "TIME_SYSTEM",
           method := readMethod md, order := order, points := pts }) := by
  unfold loadSegXml
  refine congrArg keyErrToCcsds ?_
  refine bind_congr fun x1 => bind_congr fun md => bind_congr fun x2 => bind_congr fun dt => bind_congr fun fr => bind_congr fun ce =>
    bind_congr fun frame => bind_congr fun x3 => bind_congr fun svs => bind_congr fun pts => ?_
  unfold readCovGroup
  generalize List.lookup "covarianceMatrix" dt = o
  cases o with
  | none =>
    dsimp only
    refine bind_congr fun covs => bind_congr fun pts' => ?_
    unfold readOrder
    generalize List.lookup "INTERPOLATION_DEGREE" md = o'
    cases o' <;> rfl
  | some v =>
    dsimp only
    refine bind_congr fun covs => bind_congr fun pts' => ?_
    unfold readOrder
    generalize List.lookup "INTERPOLATION_DEGREE" md = o'
    cases o' <;> rfl

theorem segExtras_eq (s : Seg) :
    segExtras s = extrasOf ((s.points.head?.map (·.epoch)).getD (.s "?")) ((s.points.getLast?.map (·.epoch)).getD (.s "?")) s.method s.order := rfl

theorem head_epoch_ne (ps : List Point) (hne : ps ≠ []) (hp : ∀ p ∈ ps, PointWf p) : (ps.head?.map (·.epoch)).getD (.s "?") ≠ .s "" := by
  cases ps with
  | nil => exact absurd rfl hne
  | cons p r => exact (hp p (by simp)).1

theorem last_epoch_ne (ps : List Point) (hne : ps ≠ []) (hp : ∀ p ∈ ps, PointWf p) : (ps.getLast?.map (·.epoch)).getD (.s "?") ≠ .s "" := by
  rw [List.getLast?_eq_some_getLast hne]
  exact (hp _ (List.getLast_mem hne)).1

theorem recurse_segment (mx : Elem) (MD : Dict) (kids : List Elem) (D : Dict)
    (hm : recurse mx = some (.dict MD)) (hmt : mx.tag = "metadata") (hk : recurseKids kids [] = some D) (hne : kids.isEmpty = false) :
    recurse (.node "segment" [mx, .node "data" kids]) = some (.dict [("metadata", .dict MD), ("data", .dict D)]) := by
  have htn : ∀ t cs, (Elem.node t cs).tag = t := fun _ _ => rfl
  simp [recurseKids, recurse, hm, hmt, hk, hne, htn, addChild, List.lookup]

end OemXml
open OemXml

/-- **One OEM segment, XML** (clause `load_dump_id`, OEM: "1..N ephemeris points, 0..N covariance blocks, interpolation settings",
per segment): what `segXml` writes for a well-formed segment is a `segment` element that `xml2dict` turns into a dict which
`loadSegXml` reads back as the segment itself — metadata (name, id, frame through the centre rule, scale, INTERPOLATION, optional
INTERPOLATION_DEGREE), every point in order, every covariance block attached to the point it was written for. -/
theorem seg_xml_load_dump_id (s : Seg) (h : SegWf s) :
    ∃ e D, segXml s = .ok e ∧ e.tag = "segment" ∧ recurse e = some (.dict D) ∧ loadSegXml D = .ok s := by
  obtain ⟨c, r, hfo, hcr, hc, hr, hrf⟩ := frameOut_ok s.frame h.frame
  have ht0 := head_epoch_ne s.points h.points_ne h.points
  have ht1 := last_epoch_ne s.points h.points_ne h.points
  have hmeta := seg_meta_xml s.name s.id c r s.scale _ _ s.method s.order h.name h.id hc hr h.scale ht0 ht1 h.method h.order
  rw [← segExtras_eq] at hmeta
  have hkids := seg_data_kids s.points h.points h.covs
  obtain ⟨hN, hI, hC, hR, hT, hM, hO⟩ := seg_meta_read s.name s.id c r s.scale
    ((s.points.head?.map (·.epoch)).getD (.s "?")) ((s.points.getLast?.map (·.epoch)).getD (.s "?")) s.method s.order
  generalize hMD : segMetaDict s.name s.id c r s.scale ((s.points.head?.map (·.epoch)).getD (.s "?"))
    ((s.points.getLast?.map (·.epoch)).getD (.s "?")) s.method s.order = MD at hmeta hN hI hC hR hT hM hO
  have hemp : s.points.isEmpty = false := by
    cases hp : s.points with
    | nil => exact absurd hp h.points_ne
    | cons a b => rfl
  refine ⟨.node "segment" [metaXml s.name s.id c r s.scale (segExtras s),
      .node "data" (s.points.map (fun p => svXml p.epoch p.state) ++ s.points.filterMap (fun p => p.cov.map (covXml (some p.epoch))))],
    [("metadata", .dict MD), ("data", .dict (segDataDict s.points))], ?_, rfl, ?_, ?_⟩
  · simp only [segXml, hemp, hfo, bind, Except.bind, pure, Except.pure]
    rfl
  · exact recurse_segment _ MD _ _ hmeta rfl hkids (by
      cases hp : s.points with
      | nil => exact absurd hp h.points_ne
      | cons a b => rfl)
  · obtain ⟨x, hx1, hx2, hx3⟩ := seg_read_points MD ⟨_, _, _, hT, hN, hI⟩ s.points h.points_ne h.points
    have hfold := fold_attach MD s.frame h.frame ⟨_, hT⟩ s.points []
      (fun p hp => ⟨(h.points p hp).1, h.covs p hp⟩) h.nodup
    simp only [List.nil_append] at hfold
    have hmeth : readMethod MD = s.method := by simp [readMethod, hM]
    have hord : readOrder MD = .ok s.order := by
      cases ho : s.order with
      | none => simp [readOrder, hO, ho, pure, Except.pure]
      | some o => simp [readOrder, hO, ho, Val.text, Functor.map, Except.map]
    have hg1 : getItem [("metadata", Val.dict MD), ("data", .dict (segDataDict s.points))] "metadata" = .ok (.dict MD) := by
      simp [getItem, List.lookup]
    have hg2 : getItem [("metadata", Val.dict MD), ("data", .dict (segDataDict s.points))] "data" = .ok (.dict (segDataDict s.points)) := by
      simp [getItem, List.lookup]
    rw [loadSegXml_eq]
    simp only [hg1, hg2, asDict, bind, Except.bind, pure, Except.pure, hR, hC, hcr, hx1, hx2, hx3, seg_read_covs, hfold, hmeth, hord,
      hN, hI, hT, keyErrToCcsds]


/-! ### the whole message -/

namespace OemXml

/-- body of the segment loop of `oemFromXmlDict`, named -/
def loadSegVal (v : Val) : R Seg := do loadSegXml (← asDict v)

theorem loadSegVal_dict (D : Dict) : loadSegVal (.dict D) = loadSegXml D := rfl

/-- per-segment elements and dicts of a whole OEM -/
theorem segs_xml (m : Oem) (h : ∀ s ∈ m, SegWf s) :
    ∃ eds : List (Elem × Dict), m.mapM segXml = .ok (eds.map (·.1)) ∧ (∀ ed ∈ eds, ed.1.tag = "segment") ∧
      (eds.map (·.1)).map recurse = ((eds.map (·.2)).map Val.dict).map some ∧
      ((eds.map (·.2)).map Val.dict).mapM loadSegVal = .ok m ∧ eds.length = m.length := by
  induction m with
  | nil => exact ⟨[], rfl, by simp, rfl, rfl, rfl⟩
  | cons s r ih =>
    obtain ⟨eds, h1, h2, h3, h4, h5⟩ := ih (fun x hx => h x (by simp [hx]))
    obtain ⟨e, D, g1, g2, g3, g4⟩ := seg_xml_load_dump_id s (h s (by simp))
    refine ⟨(e, D) :: eds, ?_, ?_, ?_, ?_, by simp [h5]⟩
    · simp only [List.mapM_cons, g1, h1, bind, Except.bind, pure, Except.pure, List.map_cons]
    · intro ed hed
      simp only [List.mem_cons] at hed
      rcases hed with rfl | hed
      · exact g2
      · exact h2 ed hed
    · simp only [List.map_cons, g3, h3]
    · simp only [List.map_cons, List.mapM_cons, loadSegVal_dict, g4, h4, bind, Except.bind, pure, Except.pure]

/-- shape of the dict of an OEM document: header, body → the `segment` group -/
theorem xml2dict_oem_shape (segs : List Elem) (D : Dict) (hk : recurseKids segs [] = some D) (hne : segs.isEmpty = false) :
    xml2dict (.node "oem" [headerXml, .node "body" segs]) = .ok [("header", headerDict), ("body", .dict D)] := by
  have hh : recurse headerXml = some headerDict := by
    simp [headerXml, headerDict, leafS, recurse, recurseKids, addChild, Elem.tag, List.lookup]
  have hht : headerXml.tag = "header" := rfl
  have htn : ∀ t cs, (Elem.node t cs).tag = t := fun _ _ => rfl
  simp [xml2dict, recurseKids, recurse, hk, hne, hh, hht, htn, addChild, List.lookup]

end OemXml

/-- **`load_dump_id`, OEM, XML.**  Every non-empty list of well-formed segments — each with 1..N points of distinct epochs,
0..N covariance blocks (own frame, QSW or TNW) attached to the point of the same epoch, LINEAR without / LAGRANGE with
`INTERPOLATION_DEGREE`, any registered frame (Earth-centred or not) — is read back from what the XML writer produced: one segment as many
(`wrapOemSegment`), one point as many (`wrapOemStateVector`), no, one or many covariance blocks (`wrapOemCov`). -/
theorem oem_xml_load_dump_id (m : Oem) (hne : m ≠ []) (h : ∀ s ∈ m, SegWf s) : (oemXml m >>= loadOemXml) = .ok m := by
  obtain ⟨eds, h1, h2, h3, h4, h5⟩ := segs_xml m h
  have hne' : eds.map (·.1) ≠ [] := by
    intro hnil
    have : eds.length = 0 := by simpa using congrArg List.length hnil
    rw [h5] at this
    exact hne (List.eq_nil_of_length_eq_zero this)
  obtain ⟨D, x, k1, k2, k3, _⟩ := xml_group_roundtrip "segment" [] rfl (eds.map (·.1)) ((eds.map (·.2)).map Val.dict)
    wrapOemSegment .typeError hne'
    (by intro e he; simp only [List.mem_map] at he; obtain ⟨ed, hed, rfl⟩ := he; exact h2 ed hed) h3
    (by intro v hv; simp only [List.mem_map] at hv; obtain ⟨_, _, rfl⟩ := hv; rfl) (Or.inl (by decide))
  have hemp : (eds.map (·.1)).isEmpty = false := by
    cases he : eds.map (·.1) with
    | nil => exact absurd he hne'
    | cons a b => rfl
  have hx := xml2dict_oem_shape (eds.map (·.1)) D k1 hemp
  simp only [oemXml, h1, bind, Except.bind, pure, Except.pure, loadOemXml, hx]
  have hb : getItem [("header", headerDict), ("body", Val.dict D)] "body" = .ok (.dict D) := by simp [getItem, List.lookup]
  have hs : (Val.dict D).item "segment" = .ok x := by simp [Val.item, getItem, k2]
  unfold oemFromXmlDict
  simp only [hb, hs, k3, bind, Except.bind]
  exact h4

/-! ### a concrete instance: the hypotheses are satisfiable by a non-trivial message -/

namespace OemXml
def st6Ex : List Txt := [.s "1", .s "2", .s "3", .s "4", .s "5", .s "6"]
def covQswEx : CovM :=
  ⟨some "QSW", [.n 1, .n 2, .n 3, .n 4, .n 5, .n 6, .n 7, .n 8, .n 9, .n 10, .n 11, .n 12, .n 13, .n 14, .n 15, .n 16, .n 17, .n 18, .n 19,
    .n 20, .n 21]⟩
def covOwnEx : CovM :=
  ⟨none, [.s "a", .s "b", .s "c", .s "d", .s "e", .s "f", .s "g", .s "h", .s "i", .s "j", .s "k", .s "l", .s "m", .s "n", .s "o", .s "p",
    .s "q", .s "r", .s "s", .s "t", .s "u"]⟩

/-- two segments: a LINEAR one (no `INTERPOLATION_DEGREE`) with a single point, and a LAGRANGE one with three points, two of
which carry a covariance (QSW, own frame) -/
def segEx2 : Seg :=
  ⟨"SAT", "2020-001A", "GCRF", "TAI", "LAGRANGE", some (.s "7"),
    [⟨.s "t1", st6Ex, some covQswEx⟩, ⟨.s "t2", st6Ex, none⟩, ⟨.s "t3", st6Ex, some covOwnEx⟩]⟩
end OemXml
def oemEx : Oem := [⟨"SAT", "2020-001A", "EME2000", "UTC", "LINEAR", none, [⟨.s "t0", st6Ex, none⟩]⟩, segEx2]

namespace OemXml
theorem pointEx_wf (e : String) (he : e ≠ "") (c : Option CovM) : PointWf ⟨.s e, st6Ex, c⟩ :=
  ⟨by simpa using he, _, _, _, _, _, _, rfl, by decide, by decide, by decide, by decide, by decide, by decide⟩

theorem covQswEx_wf : CovWf covQswEx :=
  ⟨⟨_, _, _, _, _, _, _, _, _, _, _, _, _, _, _, _, _, _, _, _, _, rfl, by decide⟩, Or.inr (Or.inl rfl)⟩

theorem covOwnEx_wf : CovWf covOwnEx :=
  ⟨⟨_, _, _, _, _, _, _, _, _, _, _, _, _, _, _, _, _, _, _, _, _, rfl, by decide⟩, Or.inl rfl⟩

end OemXml

/-- the hypotheses are satisfiable by a non-trivial message (two segments, 1 and 3 points, two covariance blocks, LINEAR and LAGRANGE) -/
theorem oemEx_wf : ∀ s ∈ oemEx, SegWf s := by
  intro s hs
  simp only [oemEx, segEx2, List.mem_cons, List.not_mem_nil, or_false] at hs
  rcases hs with rfl | rfl
  · exact
      { frame := by decide, name := by decide, id := by decide, scale := by decide, method := by decide, order := by decide,
        points_ne := by simp,
        points := by
          intro p hp
          simp only [List.mem_cons, List.not_mem_nil, or_false] at hp
          subst hp
          exact pointEx_wf _ (by decide) _
        covs := by
          intro p hp c hc
          simp only [List.mem_cons, List.not_mem_nil, or_false] at hp
          subst hp
          cases hc
        nodup := by simp }
  · exact
      { frame := by decide, name := by decide, id := by decide, scale := by decide, method := by decide, order := by decide,
        points_ne := by simp,
        points := by
          intro p hp
          simp only [List.mem_cons, List.not_mem_nil, or_false] at hp
          rcases hp with rfl | rfl | rfl <;> exact pointEx_wf _ (by decide) _
        covs := by
          intro p hp c hc
          simp only [List.mem_cons, List.not_mem_nil, or_false] at hp
          rcases hp with rfl | rfl | rfl
          · cases hc; exact covQswEx_wf
          · cases hc
          · cases hc; exact covOwnEx_wf
        nodup := by decide }

example : (oemXml oemEx >>= loadOemXml) = .ok oemEx := oem_xml_load_dump_id oemEx (by simp [oemEx]) oemEx_wf

example : ∃ e D, segXml segEx2 = .ok e ∧ e.tag = "segment" ∧ recurse e = some (.dict D) ∧ loadSegXml D = .ok segEx2 :=
  seg_xml_load_dump_id segEx2 (oemEx_wf segEx2 (by simp [oemEx]))

/-- the distinct-epochs hypothesis (`SegWf.nodup`) cannot be dropped: with two points of the same epoch the covariance written for
the first is attached to the last one (`orbit_mapping[date]` keeps the last orbit with that date) -/
example : (oemXml [{ segEx2 with points := [⟨.s "t1", st6Ex, some covQswEx⟩, ⟨.s "t1", st6Ex, none⟩] }] >>= loadOemXml) =
    .ok [{ segEx2 with points := [⟨.s "t1", st6Ex, none⟩, ⟨.s "t1", st6Ex, some covQswEx⟩] }] := by decide

end BeyondVerif.C13
