import BeyondVerif.Props.C03
import BeyondVerif.Model.CcsdsDate
import BeyondVerif.Model.DateIter
import BeyondVerif.Generated.CcsdsDates

/-!
# C04 — results depend on the instant, never on the Date's scale label

The theorems are about C03's faithful integer model of `beyond.dates.Date` (`Model/Date.lean`: constructor with offset
and EOP record looked up by UTC day, `_convert_to_scale`, `change_scale`, `+ timedelta`, `−`, comparisons, `datetime`
readings) instantiated with the configuration regenerated from /repo on every run (`Model/DateCfg.lean`: scale graph,
`_scale_*` methods, IERS tables).  A model date is `(_d, _s, _offset, scale, eop)` — the *instant* is `_d·D + _s`, the
*label* is `scale`, and the date carries an Earth-orientation record `eop` that every frame conversion and every later
`change_scale` reads.  "Label-free" therefore has two halves: the instant AND the record.

* the record is a function of the instant — `RecOK` (the record is the one tabulated for the date's own UTC reading),
  `mk_carries_record_of_utc_day` (every constructed date is `RecOK`), `record_function_of_instant`,
  `record_function_of_instant_post1972` (no hypothesis on leap seconds: the leap table is monotone);
* relabelling — `relabel_keeps_instant_and_record` (uniform scales, exact), `relabel_ut1_within_slack` (UT1: 1.5 µs),
  `relabel_any_within_slack` (TDB: 1.5 µs when the two evaluations of the TDB−TT term agree);
* `date + t` — `add_carries_record_of_utc_day` (the result carries the record of ITS OWN UTC day, not the operand's),
  `add_function_of_instant` (same instant in two labels, same `t` ⇒ same instant and same record),
  `add_after_relabel`, `add_is_constructor`;
* iteration — `range_dates_are_sums`, `range_dates_carry_record` (every date yielded by `DateRange` / `Ephem.iter` is the
  previous one `+ step` and carries the record of its own UTC day);
* what the operations read from a date — `consumers_function_of_instant` (time since epoch, ordering, equality, hash,
  interpolation abscissa), `utc_fields_function_of_instant` (the UTC calendar reading handed to SGP4 / written to a TLE),
  `consumers_within_slack` (UT1 / TDB: 2 µs);
* CCSDS reading — `parse_date_passes_scale`, `parse_date_call_sites_use_time_system` (on the regenerated tables),
  `parseDate_scale_reaches_date`, `parseDate_reading_label_free`; writing then reading —
  `ccsds_writers_convert_to_time_system` (regenerated emission sites of the writers, per segment),
  `ccsds_segments_own_time_system`, `ccsds_epoch_roundtrip` (an epoch
  labelled in any uniform scale, written under any TIME_SYSTEM, reads back as the instant written — since fix aa1842c;
  regression witness `Witness/C04.lean: ccsds_mixed_label_moves_instant`), `ccsds_epoch_roundtrip_slack` (UT1 / TDB: 2.5 µs).

That each public operation uses its dates only through these quantities is established by the oracle sweep of
harness/props/C04.py on the real API (6 labels × 6 labels per operation), not here.
-/
namespace BeyondVerif.C04
open BeyondVerif.Date BeyondVerif.Generated BeyondVerif.C03

/-! ## the record of a date is a function of its instant -/

/-- the UTC clock reading of a date according to its own record, in ticks -/
def utcReading (x : Date) : Int := x.inst - x.eop.taiUtc

/-- the date carries the record that the tables hold for its own UTC reading (UT1−UTC of that UTC day, the leap-second
entry in force at that reading) -/
def RecOK (env : Env) (x : Date) : Prop := eopRaw env (utcReading x) = some x.eop

/-- a clock reading `num` (ticks) of scale `sc` is *clean*: the tables cover it and the UTC reading derived from it, and
the same leap-second entry is in force at both (no leap second between the label reading and the UTC reading) -/
def Clean (env : Env) (sc : Nat) (num : Int) : Prop :=
  ∃ e0 offU eU, eopRaw env num = some e0 ∧ offset cfg env sc cfg.utc num e0 = .ok offU ∧
    eopRaw env (num + offU) = some eU ∧ taiUtcAt env.leap (num + offU) = taiUtcAt env.leap num

theorem utc_is_uniform : cfg.utc ∈ uniformIx := by decide

/-- **every constructed date carries the record of its own UTC day** (UTC, TAI, TT, GPS) -/
theorem mk_carries_record_of_utc_day {env : Env} {sc : Nat} {d s : Int} {x : Date} (hsc : sc ∈ uniformIx)
    (h : mk cfg env sc d s = .ok x) (hc : Clean env sc (d * D + s)) : RecOK env x ∧ x.scale = sc ∧ WF cfg env x := by
  obtain ⟨e0, offU, eU, h0, ho, hU, hl⟩ := hc
  obtain ⟨hw, hs, hi, he⟩ := mk_spec h
  refine ⟨?_, hs, hw⟩
  by_cases hu : sc = cfg.utc
  · -- a UTC date: one lookup, at its own reading
    obtain ⟨eop0, hv, hcase⟩ := eopFor_spec he
    have hv0 : eop0 = e0 := by
      simp only [eopGet, h0, EopRes.value, Option.some.injEq] at hv; exact hv.symm
    subst hv0
    have hx : x.eop = eop0 := by
      rcases hcase with ⟨_, h1⟩ | ⟨hne, _⟩
      · exact h1
      · exact (hne hu).elim
    obtain ⟨n1, hxo⟩ := hw.off_eq
    rw [hs, hu] at hxo
    have hq : coefAB cfg cfg.utc cfg.ref = some ⟨0, 1, 0, 0⟩ := by decide
    rw [offset_eq_eval hq] at hxo
    have hoff := Except.ok.inj hxo
    simp only [Coef.eval, zero_mul, one_mul, zero_add, add_zero] at hoff
    unfold RecOK utcReading
    rw [hi, ← hoff, hx]
    have : d * D + s + eop0.taiUtc - eop0.taiUtc = d * D + s := by ring
    rw [this]; exact h0
  · obtain ⟨hrec, hread⟩ := mk_record_of_utc_day hsc hu h h0 ho hU hl
    unfold RecOK utcReading
    rw [hread, hrec]; exact hU

theorem ofDatetime_carries_record {env : Env} {sc : Nat} {us : Int} {x : Date} (hsc : sc ∈ uniformIx)
    (h : ofDatetime cfg env sc us = .ok x) (hc : Clean env sc (10 * us)) : RecOK env x ∧ x.scale = sc ∧ WF cfg env x := by
  unfold ofDatetime at h
  have e : us / DUS * D + us % DUS * 10 = 10 * us := by simp only [D, DUS]; omega
  rw [← e] at hc
  exact mk_carries_record_of_utc_day hsc h hc

/-- **the record is a function of the instant**: two dates of the same instant, each carrying the record of its own UTC
reading, carry the same record — whatever their labels (when the same TAI−UTC is in force for both) -/
theorem record_function_of_instant {env : Env} {x y : Date} (hx : RecOK env x) (hy : RecOK env y)
    (hi : x.inst = y.inst) (hl : x.eop.taiUtc = y.eop.taiUtc) : x.eop = y.eop := by
  unfold RecOK utcReading at hx hy
  rw [hi, hl, hy] at hx
  exact (Option.some.inj hx).symm

/-! ### … without the leap-second hypothesis: the leap table is monotone -/

/-- scanning a list whose values do not increase along it, a weaker predicate finds a value at least as large -/
theorem find_mono {α : Type} (val : α → Int) (p q : α → Bool) (hpq : ∀ a, p a = true → q a = true) :
    ∀ (L : List α), L.Pairwise (fun a b => val b ≤ val a) → ∀ a b, L.find? p = some a → L.find? q = some b → val a ≤ val b := by
  intro L
  induction L with
  | nil => intro _ a b h; simp at h
  | cons c L ih =>
    intro hP a b ha hb
    rw [List.pairwise_cons] at hP
    by_cases hq : q c = true
    · rw [List.find?_cons_of_pos hq] at hb
      cases hb
      by_cases hp : p c = true
      · rw [List.find?_cons_of_pos hp] at ha; cases ha; exact le_refl _
      · rw [List.find?_cons_of_neg hp] at ha
        exact hP.1 a (List.mem_of_find?_eq_some ha)
    · have hp : ¬ p c = true := fun h => hq (hpq c h)
      rw [List.find?_cons_of_neg hp] at ha
      rw [List.find?_cons_of_neg hq] at hb
      exact ih hP.2 a b ha hb

/-- `tai_utc(mjd)` is monotone in `mjd` for a table whose values do not decrease in file order -/
theorem taiUtcAt_mono {leap : List (Int × Int)} (hm : leap.Pairwise (fun a b => a.2 ≤ b.2)) {n m t u : Int} (hnm : n ≤ m)
    (hn : taiUtcAt leap n = some t) (hmm : taiUtcAt leap m = some u) : t ≤ u := by
  unfold taiUtcAt at hn hmm
  simp only [Option.map_eq_some_iff] at hn hmm
  obtain ⟨a, ha, rfl⟩ := hn
  obtain ⟨b, hb, rfl⟩ := hmm
  refine find_mono (fun e : Int × Int => e.2) _ _ ?_ leap.reverse ?_ a b ha hb
  · intro e he
    simp only [decide_eq_true_eq] at he ⊢
    omega
  · rw [List.pairwise_reverse]
    exact hm

/-- the leap-second entries from 1972 on (the whole-second era) -/
def modernLeap : List (Int × Int) := leapTable.filter (fun e => decide (41317 ≤ e.1))

theorem modernLeap_monotone : modernLeap.Pairwise (fun a b => a.2 ≤ b.2) := by decide

/-- **the record is a function of the instant, leap seconds included**: with a leap table whose values never decrease
(`modernLeap_monotone`: true of the regenerated `tai-utc.dat` from 1972 on) an instant has at most one self-consistent
UTC reading, hence at most one record -/
theorem record_function_of_instant_mono {env : Env} (hm : env.leap.Pairwise (fun a b => a.2 ≤ b.2)) {x y : Date}
    (hx : RecOK env x) (hy : RecOK env y) (hi : x.inst = y.inst) : x.eop = y.eop := by
  have key : ∀ {a b : Date}, RecOK env a → RecOK env b → a.inst = b.inst → a.eop.taiUtc ≤ b.eop.taiUtc := by
    intro a b ha hb hab
    by_contra hlt
    have hlt : b.eop.taiUtc < a.eop.taiUtc := by omega
    -- a's UTC reading is then the earlier one: its leap value cannot be the larger
    have ta : taiUtcAt env.leap (utcReading a) = some a.eop.taiUtc := by
      unfold RecOK eopRaw at ha
      split at ha
      · cases ha
      · split at ha
        · cases ha
        · next t ht => have e := Option.some.inj ha; rw [← e]; exact ht
    have tb : taiUtcAt env.leap (utcReading b) = some b.eop.taiUtc := by
      unfold RecOK eopRaw at hb
      split at hb
      · cases hb
      · split at hb
        · cases hb
        · next t ht => have e := Option.some.inj hb; rw [← e]; exact ht
    have hle : utcReading a ≤ utcReading b := by unfold utcReading; omega
    have := taiUtcAt_mono hm hle ta tb
    omega
  have h1 := key hx hy hi
  have h2 := key hy hx hi.symm
  exact record_function_of_instant hx hy hi (by omega)

/-! ## relabelling keeps the instant and the record -/

/-- a uniform scale's offset to TAI depends on the record only through TAI−UTC -/
theorem uniform_off_eq {env : Env} {x y : Date} (hx : WF cfg env x) (hy : WF cfg env y) (hs : y.scale = x.scale)
    (hsc : x.scale ∈ uniformIx) (hl : y.eop.taiUtc = x.eop.taiUtc) : y.off = x.off := by
  obtain ⟨n1, hxo⟩ := hx.off_eq
  obtain ⟨n2, hyo⟩ := hy.off_eq
  rw [hs] at hyo
  obtain ⟨p, hp, pu, pt, _⟩ := uniform_coef _ hsc _ ref_uniform
  rw [offset_eq_eval hp] at hxo hyo
  have a := Except.ok.inj hxo
  have b := Except.ok.inj hyo
  rw [← a, ← b]
  simp only [Coef.eval, pu, pt, hl, zero_mul, add_zero]

/-- … and is a whole number of microseconds when TAI−UTC is -/
theorem uniform_off_us {env : Env} {x : Date} (hx : WF cfg env x) (hsc : x.scale ∈ uniformIx)
    (htai : x.eop.taiUtc % 10 = 0) : x.off % 10 = 0 := by
  obtain ⟨n1, hxo⟩ := hx.off_eq
  obtain ⟨p, hp, pu, pt, pc⟩ := uniform_coef _ hsc _ ref_uniform
  rw [offset_eq_eval hp] at hxo
  have a := Except.ok.inj hxo
  obtain ⟨k, hk⟩ : ∃ k, x.eop.taiUtc = 10 * k := ⟨x.eop.taiUtc / 10, by omega⟩
  rw [← a]
  simp only [Coef.eval, pu, pt, hk, zero_mul, add_zero]
  have : p.tai * (10 * k) = 10 * (p.tai * k) := by ring
  rw [this]; omega

/-- two well-formed dates of the same instant have the same `(_d, _s)` -/
theorem same_inst_same_ds {x y : Date} (hx : 0 ≤ x.s ∧ x.s < D) (hy : 0 ≤ y.s ∧ y.s < D) (hi : x.inst = y.inst) :
    x.d = y.d ∧ x.s = y.s := by
  obtain ⟨a1, a2⟩ := hx; obtain ⟨b1, b2⟩ := hy
  simp only [Date.inst, D] at *
  omega

/-- **relabelling (change_scale) between UTC, TAI, TT and GPS keeps the instant AND the Earth-orientation record**: for
every date carrying the record of its UTC day and every target label -/
theorem relabel_keeps_instant_and_record {env : Env} {x y : Date} {new : Nat} (hx : WF cfg env x)
    (hsc : x.scale ∈ uniformIx) (hnew : new ∈ uniformIx) (hus : x.s % 10 = 0) (htai : x.eop.taiUtc % 10 = 0)
    (hrx : RecOK env x) (h : changeScale cfg env x new = .ok y) (hleap : y.eop.taiUtc = x.eop.taiUtc)
    (hc : Clean env new (clock y)) :
    y.inst = x.inst ∧ y.scale = new ∧ y.eop = x.eop ∧ RecOK env y ∧ WF cfg env y := by
  obtain ⟨hi, hs⟩ := changeScale_same_instant hx hsc hnew hus htai h hleap
  unfold changeScale at h
  split at h
  · cases h
  · next off ho =>
    obtain ⟨hw, _, hinst⟩ := ofDatetime_spec h
    have hck : clock y = 10 * (x.datetime + roundUs off) := by unfold clock; omega
    rw [hck] at hc
    obtain ⟨hry, _, _⟩ := ofDatetime_carries_record hnew h hc
    exact ⟨hi, hs, (record_function_of_instant hrx hry hi.symm hleap.symm).symm, hry, hw⟩

/-- **relabelling to or from UT1**: when the converted date carries the record of the original one the instant moves
by at most 1.5 µs — the resolution of the conversion (C03 `changeScale_instant_bound`) -/
theorem relabel_ut1_within_slack {env : Env} {x y : Date} {new : Nat} (hx : WF cfg env x)
    (hsc : x.scale ∈ noTdbIx) (hnew : new ∈ noTdbIx) (h : changeScale cfg env x new = .ok y) (hrec : y.eop = x.eop) :
    -15 ≤ y.inst - x.inst ∧ y.inst - x.inst ≤ 15 :=
  changeScale_instant_bound hx hsc hnew h hrec

/-- **relabelling to or from TDB** (every pair of the six scales): when the offsets used by the two constructions agree
(the TDB−TT term is evaluated at two `mjd` arguments 1e-10 s apart: a parameter of the model) the instant moves by at most
1.5 µs (C03 `changeScale_instant_bound_partial`) -/
theorem relabel_any_within_slack {env : Env} {x y : Date} {new : Nat} (hx : WF cfg env x)
    (h : changeScale cfg env x new = .ok y)
    (hdrift : ∀ off, offset cfg env x.scale new x.inst x.eop = .ok off → y.off + off = x.off) :
    -15 ≤ y.inst - x.inst ∧ y.inst - x.inst ≤ 15 :=
  changeScale_instant_bound_partial hx h hdrift

/-! ## `date + timedelta` -/

/-- `date + t` is the constructor applied to the clock reading moved by `t` — there is no other way to make the sum -/
theorem add_is_constructor {env : Env} (x : Date) (t : Int) (hx : 0 ≤ x.s ∧ x.s < D) :
    ∃ d s, d * D + s = clock x + 10 * t ∧ 0 ≤ s ∧ s < D ∧ add cfg env x t = mk cfg env x.scale d s := by
  have hts := toScale_spec x hx.1 hx.2
  refine ⟨x.toScale.1 + (t * 10 + x.toScale.2) / D, (t * 10 + x.toScale.2) % D, ?_, ?_, ?_, rfl⟩
  · simp only [clock, D] at *; omega
  · exact Int.emod_nonneg _ (by decide)
  · exact Int.emod_lt_of_pos _ (by decide)

/-- **`date + t` carries the record of ITS OWN UTC day** (not the operand's), keeps the label, and shows the operand's
clock reading moved by exactly `t` — in UTC, TAI, TT and GPS, for every `t` of either sign -/
theorem add_carries_record_of_utc_day {env : Env} {x y : Date} {t : Int} (hx : WF cfg env x) (hsc : x.scale ∈ uniformIx)
    (h : add cfg env x t = .ok y) (hc : Clean env x.scale (clock x + 10 * t)) :
    RecOK env y ∧ y.scale = x.scale ∧ clock y = clock x + 10 * t ∧ WF cfg env y := by
  obtain ⟨d, s, hds, _, _, hadd⟩ := add_is_constructor (env := env) x t ⟨hx.s_nonneg, hx.s_lt⟩
  rw [hadd] at h
  rw [← hds] at hc
  obtain ⟨hr, hs, hw⟩ := mk_carries_record_of_utc_day hsc h hc
  obtain ⟨_, _, hi, _⟩ := mk_spec h
  refine ⟨hr, hs, ?_, hw⟩
  simp only [clock, D] at *; omega

/-- **the result of `+` depends only on the instant**: the same instant held under two labels (UTC, TAI, TT, GPS), the
same `t` added to both — the two sums are the same instant, `t` later, and carry the same record (no leap second
between the operands and the sums) -/
theorem add_function_of_instant {env : Env} {x x' y y' : Date} {t : Int} (hx : WF cfg env x) (hx' : WF cfg env x')
    (hsc : x.scale ∈ uniformIx) (hsc' : x'.scale ∈ uniformIx) (hi : x.inst = x'.inst)
    (h : add cfg env x t = .ok y) (h' : add cfg env x' t = .ok y')
    (hc : Clean env x.scale (clock x + 10 * t)) (hc' : Clean env x'.scale (clock x' + 10 * t))
    (hl : y.eop.taiUtc = x.eop.taiUtc) (hl' : y'.eop.taiUtc = x'.eop.taiUtc) (hxx : x.eop.taiUtc = x'.eop.taiUtc) :
    y.inst = x.inst + 10 * t ∧ y'.inst = y.inst ∧ y'.eop = y.eop := by
  obtain ⟨hr, hs, hck, hw⟩ := add_carries_record_of_utc_day hx hsc h hc
  obtain ⟨hr', hs', hck', hw'⟩ := add_carries_record_of_utc_day hx' hsc' h' hc'
  have ho := uniform_off_eq hx hw hs hsc hl
  have ho' := uniform_off_eq hx' hw' hs' hsc' hl'
  have e1 : y.inst = x.inst + 10 * t := by unfold clock at hck; omega
  have e2 : y'.inst = x'.inst + 10 * t := by unfold clock at hck'; omega
  refine ⟨e1, by omega, ?_⟩
  exact record_function_of_instant hr' hr (by omega) (by omega)

/-- **relabel, then add = add**: `date.change_scale(l) + t` and `date + t` are the same instant with the same record -/
theorem add_after_relabel {env : Env} {x r y z : Date} {new : Nat} {t : Int} (hx : WF cfg env x)
    (hsc : x.scale ∈ uniformIx) (hnew : new ∈ uniformIx) (hus : x.s % 10 = 0) (htai : x.eop.taiUtc % 10 = 0)
    (hrx : RecOK env x) (hr : changeScale cfg env x new = .ok r) (hleap : r.eop.taiUtc = x.eop.taiUtc)
    (hcr : Clean env new (clock r))
    (h : add cfg env x t = .ok y) (h' : add cfg env r t = .ok z)
    (hc : Clean env x.scale (clock x + 10 * t)) (hc' : Clean env new (clock r + 10 * t))
    (hl : y.eop.taiUtc = x.eop.taiUtc) (hl' : z.eop.taiUtc = x.eop.taiUtc) :
    z.inst = y.inst ∧ z.eop = y.eop ∧ y.inst = x.inst + 10 * t := by
  obtain ⟨hi, hs, he, _, hwr⟩ := relabel_keeps_instant_and_record hx hsc hnew hus htai hrx hr hleap hcr
  have hscr : r.scale ∈ uniformIx := hs ▸ hnew
  have hc'' : Clean env r.scale (clock r + 10 * t) := hs ▸ hc'
  obtain ⟨a, b, c⟩ := add_function_of_instant hx hwr hsc hscr hi.symm h h' hc hc'' hl (by rw [hl', hleap]) hleap.symm
  exact ⟨b, c, a⟩

/-! ## iteration: `DateRange`, `Ephem.iter`, every `date += step` of the propagators -/

/-- **every date an iteration yields after the first is the previous one `+ step`** — made by the constructor, never
patched up from the previous date -/
theorem range_dates_are_sums {env : Env} {stop : Date} {step : Int} {incl : Bool} :
    ∀ (fuel : Nat) (cur : Date) (l : List Date), rangeIter cfg env stop step incl fuel cur = .ok l →
      l.IsChain (fun a b => add cfg env a step = .ok b) ∧ ∀ h ∈ l.head?, h = cur := by
  intro fuel
  induction fuel with
  | zero => intro cur l h; simp [rangeIter] at h
  | succ n ih =>
    intro cur l h
    unfold rangeIter at h
    split at h
    · split at h
      · cases h
      · next nxt hadd =>
        split at h
        · cases h
        · next l' hl' =>
          cases h
          obtain ⟨hc, hh⟩ := ih nxt l' hl'
          refine ⟨?_, by simp⟩
          cases l' with
          | nil => exact List.IsChain.singleton _
          | cons b t =>
            have hb : b = nxt := hh b (by simp)
            subst hb
            exact List.IsChain.cons_cons hadd hc
    · cases h
      exact ⟨List.IsChain.nil, by simp⟩

/-- **every date an iteration yields carries the record of its own UTC day and the label of the start** (UTC, TAI, TT,
GPS; steps of either sign; readings covered by the tables) -/
theorem range_dates_carry_record {env : Env} {stop : Date} {step : Int} {incl : Bool} :
    ∀ (fuel : Nat) (start : Date) (l : List Date), WF cfg env start → start.scale ∈ uniformIx → RecOK env start →
      (∀ k : Nat, Clean env start.scale (clock start + 10 * (k * step))) →
      rangeIter cfg env stop step incl fuel start = .ok l → ∀ x ∈ l, RecOK env x ∧ x.scale = start.scale := by
  intro fuel
  induction fuel with
  | zero => intro start l _ _ _ _ h; simp [rangeIter] at h
  | succ n ih =>
    intro start l hw hsc hr hcl h
    unfold rangeIter at h
    split at h
    · split at h
      · cases h
      · next nxt hadd =>
        split at h
        · cases h
        · next l' hl' =>
          cases h
          have h1 := hcl 1
          simp only [Nat.cast_one, one_mul] at h1
          obtain ⟨hrn, hsn, hck, hwn⟩ := add_carries_record_of_utc_day hw hsc hadd h1
          have hcl' : ∀ k : Nat, Clean env nxt.scale (clock nxt + 10 * (k * step)) := by
            intro k
            have := hcl (k + 1)
            have e : clock start + 10 * (((k + 1 : Nat) : Int) * step) = clock nxt + 10 * (k * step) := by
              rw [hck]; push_cast; ring
            rw [e] at this
            rw [hsn]; exact this
          intro x hx
          rcases List.mem_cons.mp hx with rfl | hx
          · exact ⟨hr, rfl⟩
          · obtain ⟨a, b⟩ := ih nxt l' hwn (hsn ▸ hsc) hrn hcl' hl' x hx
            exact ⟨a, b.trans hsn⟩
    · cases h
      intro x hx; simp at hx

/-! ## what the operations read from a date -/

/-- **time since epoch, ordering, equality, hash key, interpolation abscissa are functions of the instants alone**:
neither `scale`, `_offset` nor `eop` enters (`date − epoch` of Kepler / J2 / numerical / CW / native SGP4, the
comparisons of `DateRange` and the listeners, `_mjd` of the interpolator) -/
theorem consumers_function_of_instant (x x' e e' : Date) (hx : 0 ≤ x.s ∧ x.s < D) (hx' : 0 ≤ x'.s ∧ x'.s < D)
    (he : 0 ≤ e.s ∧ e.s < D) (he' : 0 ≤ e'.s ∧ e'.s < D) (hi : x.inst = x'.inst) (hj : e.inst = e'.inst) :
    subDate x e = subDate x' e' ∧ x.lt e = x'.lt e' ∧ x.le e = x'.le e' ∧ x.eq e = x'.eq e' ∧ x.ge e = x'.ge e' ∧
    x.gt e = x'.gt e' ∧ x.hashKey = x'.hashKey ∧ (x.d, x.s) = (x'.d, x'.s) := by
  obtain ⟨a1, a2⟩ := same_inst_same_ds hx hx' hi
  obtain ⟨b1, b2⟩ := same_inst_same_ds he he' hj
  have hxr : x.datetimeRef = x'.datetimeRef := by simp only [Date.datetimeRef, a1, a2]
  have her : e.datetimeRef = e'.datetimeRef := by simp only [Date.datetimeRef, b1, b2]
  refine ⟨?_, ?_, ?_, ?_, ?_, ?_, ?_, ?_⟩ <;>
    simp only [subDate, Date.lt, Date.le, Date.eq, Date.gt, Date.ge, Date.hashKey, hxr, her, a1, a2]

/-- **the UTC calendar reading handed to the sgp4 library and written into a TLE is a function of the instant**: two
dates of the same instant under two uniform labels, each converted to UTC, show the same UTC clock reading (µs) -/
theorem utc_fields_function_of_instant {env : Env} {x x' u u' : Date} (hx : WF cfg env x) (hx' : WF cfg env x')
    (hsc : x.scale ∈ uniformIx) (hsc' : x'.scale ∈ uniformIx) (hus : x.s % 10 = 0) (htai : x.eop.taiUtc % 10 = 0)
    (hrx : RecOK env x) (hrx' : RecOK env x') (hi : x.inst = x'.inst) (hxx : x.eop.taiUtc = x'.eop.taiUtc)
    (h : changeScale cfg env x cfg.utc = .ok u) (h' : changeScale cfg env x' cfg.utc = .ok u')
    (hl : u.eop.taiUtc = x.eop.taiUtc) (hl' : u'.eop.taiUtc = x'.eop.taiUtc)
    (hc : Clean env cfg.utc (clock u)) (hc' : Clean env cfg.utc (clock u')) :
    u'.datetime = u.datetime ∧ u'.inst = u.inst ∧ u'.eop = u.eop := by
  have hds := same_inst_same_ds ⟨hx.s_nonneg, hx.s_lt⟩ ⟨hx'.s_nonneg, hx'.s_lt⟩ hi
  have hus' : x'.s % 10 = 0 := by rw [← hds.2]; exact hus
  have htai' : x'.eop.taiUtc % 10 = 0 := by rw [← hxx]; exact htai
  obtain ⟨a1, a2, a3, _, a5⟩ := relabel_keeps_instant_and_record hx hsc utc_is_uniform hus htai hrx h hl hc
  obtain ⟨b1, b2, b3, _, b5⟩ := relabel_keeps_instant_and_record hx' hsc' utc_is_uniform hus' htai' hrx' h' hl' hc'
  have hi' : u'.inst = u.inst := by omega
  have hoff : u'.off = u.off :=
    uniform_off_eq a5 b5 (by rw [a2, b2]) (a2 ▸ utc_is_uniform) (by omega)
  obtain ⟨c1, c2⟩ := same_inst_same_ds ⟨b5.s_nonneg, b5.s_lt⟩ ⟨a5.s_nonneg, a5.s_lt⟩ hi'
  refine ⟨?_, hi', ?_⟩
  · simp only [Date.datetime, Date.datetimeRef, c1, c2, hoff]
  · rw [a3, b3]; exact (record_function_of_instant hrx hrx' hi hxx).symm

/-- **within the slack of UT1 / TDB conversions** (instants at most 1.5 µs apart): time since epoch differs by at most 2 µs -/
theorem consumers_within_slack (x x' e : Date) (h1 : -15 ≤ x'.inst - x.inst) (h2 : x'.inst - x.inst ≤ 15) :
    -2 ≤ subDate x' e - subDate x e ∧ subDate x' e - subDate x e ≤ 2 := by
  have a := roundUs_bound x.s
  have b := roundUs_bound x'.s
  simp only [subDate, Date.datetimeRef, Date.inst, D, DUS] at *
  omega

/-! ## tables indexed by dates, and where the consumers take clock readings -/

/-- **an index of dated nodes keyed by what `Date.__hash__` / `__eq__` / `_mjd` see is label-free, and a hit is the node AT
the requested instant**: two requests of one instant get the same answer whatever their labels, and the answer, when there
is one, is the value of a node that `==` the request (`Model/DateIter.lean: nodeLookup`, the idiom
`{key(node): value}.get(key(request))`).  Keyed by the clock reading `.datetime` instead, the index answers a request that
merely SHOWS what a node shows under another label: `C04W.reading_key_confuses_labels`. -/
theorem nodeLookup_by_instant {β : Type} (tbl : List (Date × β)) (q q' : Date) (hq : 0 ≤ q.s ∧ q.s < D)
    (hq' : 0 ≤ q'.s ∧ q'.s < D) (hi : q.inst = q'.inst) :
    nodeLookup Date.hashKey tbl q = nodeLookup Date.hashKey tbl q' ∧
    ∀ v, nodeLookup Date.hashKey tbl q = some v → ∃ n ∈ tbl, n.2 = v ∧ n.1.eq q = true := by
  obtain ⟨a1, a2⟩ := same_inst_same_ds hq hq' hi
  have hk : q.hashKey = q'.hashKey := by simp only [Date.hashKey, Date.datetimeRef, a1, a2]
  refine ⟨by simp only [nodeLookup, hk], ?_⟩
  intro v hv
  unfold nodeLookup at hv
  cases hf : tbl.find? (fun n => decide (Date.hashKey n.1 = Date.hashKey q)) with
  | none => rw [hf] at hv; cases hv
  | some n =>
    rw [hf] at hv
    have hp := List.find?_some hf
    refine ⟨n, List.mem_of_find?_eq_some hf, by simpa using hv, ?_⟩
    exact hp

/-- **no date-consuming module takes a clock reading in the caller's scale** (regenerated from the AST of the propagators,
the ephemeris, the interpolator, maneuvers, listeners, Sun/Moon and the TLE writer): every `.datetime` / `.mjd` / `.jd` /
`.julian_century` / `strftime` / `%`-format of a date there is taken after an explicit `change_scale("<SCALE>")`; the
interpolator, Kepler, J2, numerical, CW and the listeners take none at all (they use `_mjd`, `-` and comparisons: the instant) -/
theorem consumers_take_no_own_scale_reading :
    consumerReadingSites ≠ [] ∧ ∀ s ∈ consumerReadingSites, s.2.2 ≠ "own-scale" := by decide

/-! ## CCSDS: reading an epoch in the message's TIME_SYSTEM -/

/-- **every format branch of `parse_date` hands the scale on to the constructed date** (regenerated cascade) -/
theorem parse_date_passes_scale : ∀ b ∈ parseDateBranches, b.2 = true := by decide

/-- **every reader calls `parse_date` with the message's TIME_SYSTEM** (regenerated call sites: OPM, OEM, OMM, TDM) -/
theorem parse_date_call_sites_use_time_system : parseDateCallSites ≠ [] ∧ ∀ c ∈ parseDateCallSites, c.2 = true := by decide

/-- the cascade of `parse_date` as regenerated from the source -/
def branches : List CcsdsDate.Branch := parseDateBranches.map (fun p => ⟨p.1, p.2⟩)

theorem branches_with_scale : ∀ b ∈ branches, b.withScale = true := by decide

theorem parseText_mem {brs : List CcsdsDate.Branch} {s : String} {b : CcsdsDate.Branch} {us : Int}
    (h : CcsdsDate.parseText brs s = some (b, us)) : b ∈ brs ∧ CcsdsDate.strptime b.fmt s = some us := by
  induction brs with
  | nil => simp [CcsdsDate.parseText] at h
  | cons c rest ih =>
    unfold CcsdsDate.parseText at h
    split at h
    · next v hv =>
      simp only [Option.some.injEq, Prod.mk.injEq] at h
      obtain ⟨rfl, rfl⟩ := h
      exact ⟨List.mem_cons_self, hv⟩
    · obtain ⟨hm, hs⟩ := ih h
      exact ⟨List.mem_cons_of_mem _ hm, hs⟩

/-- **the scale argument reaches the constructed date on every branch**: whatever the spelling of the epoch (with or
without fraction of second, calendar or day-of-year), the date read carries the message's TIME_SYSTEM and denotes the
text's clock reading *in that scale* -/
theorem parseDate_scale_reaches_date {env : Env} {dflt : Nat} {brs : List CcsdsDate.Branch} (hb : ∀ b ∈ brs, b.withScale = true)
    {s : String} {sc : Nat} {x : Date} (h : CcsdsDate.parseDate cfg env dflt brs s sc = some (.ok x)) :
    x.scale = sc ∧ WF cfg env x ∧ ∃ b us, b ∈ brs ∧ CcsdsDate.strptime b.fmt s = some us ∧ x.inst = 10 * us + x.off := by
  unfold CcsdsDate.parseDate at h
  split at h
  · cases h
  · next b us hp =>
    obtain ⟨hm, hs⟩ := parseText_mem hp
    simp only [hb b hm, if_true, Option.some.injEq] at h
    obtain ⟨hw, hsc, hi⟩ := ofDatetime_spec h
    exact ⟨hsc, hw, b, us, hm, hs, hi⟩

/-- **the clock reading read from a text does not depend on the scale**: under two TIME_SYSTEMs the same text is the same
reading, constructed in the respective scale -/
theorem parseDate_reading_label_free {env : Env} {dflt : Nat} {brs : List CcsdsDate.Branch} (hb : ∀ b ∈ brs, b.withScale = true)
    (s : String) (sc₁ sc₂ : Nat) :
    (CcsdsDate.parseDate cfg env dflt brs s sc₁ = none ∧ CcsdsDate.parseDate cfg env dflt brs s sc₂ = none) ∨
    ∃ us, CcsdsDate.parseDate cfg env dflt brs s sc₁ = some (ofDatetime cfg env sc₁ us) ∧
          CcsdsDate.parseDate cfg env dflt brs s sc₂ = some (ofDatetime cfg env sc₂ us) := by
  unfold CcsdsDate.parseDate
  cases hp : CcsdsDate.parseText brs s with
  | none => left; simp
  | some p =>
    obtain ⟨b, us⟩ := p
    right
    have := (parseText_mem hp).1
    exact ⟨us, by simp [hb b this], by simp [hb b this]⟩

/-- the spellings of one epoch the Blue Books allow — with and without fraction of second, calendar and day-of-year,
lower-case separator — are the same clock reading -/
example : CcsdsDate.parseText branches "2016-12-30T14:00:36.000000" = some (⟨"%Y-%m-%dT%H:%M:%S.%f", true⟩, 4989823236000000) ∧
    (CcsdsDate.parseText branches "2016-12-30T14:00:36").map (·.2) = some 4989823236000000 ∧
    (CcsdsDate.parseText branches "2016-365T14:00:36.0").map (·.2) = some 4989823236000000 ∧
    (CcsdsDate.parseText branches "2016-12-30t14:0:36.00").map (·.2) = some 4989823236000000 ∧
    CcsdsDate.parseText branches "2016-12-30 14:00:36" = none ∧ CcsdsDate.parseText branches "2016-02-30T14:00:36" = none := by
  decide

/-! ## CCSDS: writing, then reading -/

/-- **every writer converts the epochs it emits to the TIME_SYSTEM of the segment they belong to** (regenerated emission
sites of the OPM, OEM, OMM and TDM writers): each formatted epoch is the segment's head date itself, an
`in_scale(date, head.scale)` whose scale is that of the SAME segment's head (evaluated in the loop turn that prints the
segment's metadata), or the header's `Date.now()` — never a date printed in its own scale (`raw`), never a date
converted to some other scale, such as the first segment's (`foreign-scale`) -/
theorem ccsds_writers_convert_to_time_system :
    (∃ s ∈ writerEpochSites, s.2.2 = "converted") ∧
    ∀ s ∈ writerEpochSites, s.2.2 = "head" ∨ s.2.2 = "converted" ∨ s.2.2 = "creation" := by decide

/-- **every segment of a message of several objects is written under the scale of its own head**, and each is the
single-object dump of that object — so `ccsds_epoch_roundtrip` applies segment by segment -/
theorem ccsds_segments_own_time_system (env : Env) :
    ∀ (ms : List CcsdsDate.Message) (ws : List (Nat × List Int)), CcsdsDate.dumpSegments cfg env ms = .ok ws →
      List.Forall₂ (fun m w => CcsdsDate.Message.dump cfg env m = .ok w ∧ w.1 = m.head.scale) ms ws := by
  intro ms
  induction ms with
  | nil => intro ws h; simp [CcsdsDate.dumpSegments] at h; subst h; exact List.Forall₂.nil
  | cons m ms ih =>
    intro ws h
    unfold CcsdsDate.dumpSegments at h
    split at h
    · cases h
    · next w hw =>
      split at h
      · cases h
      · next ws' hws =>
        cases h
        refine List.Forall₂.cons ⟨hw, ?_⟩ (ih ws' hws)
        unfold CcsdsDate.Message.dump at hw
        split at hw
        · cases hw; rfl
        · cases hw

/-- an epoch that already carries the label of TIME_SYSTEM is written as its own clock reading and reads back as the
same instant (UTC, TAI, TT, GPS; whole microseconds) -/
theorem ccsds_epoch_roundtrip_same_label {env : Env} {x y : Date} (hx : WF cfg env x) (hsc : x.scale ∈ uniformIx)
    (hus : x.s % 10 = 0) (htai : x.eop.taiUtc % 10 = 0)
    (h : ofDatetime cfg env x.scale (CcsdsDate.written x) = .ok y) (hl : y.eop.taiUtc = x.eop.taiUtc) :
    y.inst = x.inst ∧ y.scale = x.scale := by
  obtain ⟨hw, hs, hi⟩ := ofDatetime_spec h
  have ho := uniform_off_eq hx hw hs hsc hl
  have e1 := roundUs_exact hus
  have e2 := roundUs_exact (uniform_off_us hx hsc htai)
  refine ⟨?_, hs⟩
  simp only [CcsdsDate.written, Date.datetime, Date.datetimeRef, Date.inst, D, DUS] at *
  omega

/-- **an epoch labelled in ANY of UTC, TAI, TT, GPS, written under any such TIME_SYSTEM, reads back as the instant that
was written** — the full statement, true of the code since fix aa1842c: the writer converts the date to TIME_SYSTEM
(`inScale`), prints the converted clock reading, the reader constructs that reading in TIME_SYSTEM.  (No leap second
between the readings: `hl₁`, `hl₂`.)  Before the fix the statement failed for `x.scale ≠ ts`: regression witness
`Witness/C04.lean: ccsds_mixed_label_moves_instant`. -/
theorem ccsds_epoch_roundtrip {env : Env} {x w y : Date} {ts : Nat} (hx : WF cfg env x) (hsc : x.scale ∈ uniformIx)
    (hts : ts ∈ uniformIx) (hus : x.s % 10 = 0) (htai : x.eop.taiUtc % 10 = 0)
    (hwr : CcsdsDate.inScale cfg env x ts = .ok w) (hl₁ : w.eop.taiUtc = x.eop.taiUtc)
    (h : ofDatetime cfg env ts (CcsdsDate.written w) = .ok y) (hl₂ : y.eop.taiUtc = w.eop.taiUtc) :
    y.inst = x.inst ∧ y.scale = ts := by
  unfold CcsdsDate.inScale at hwr
  split at hwr
  · -- another label: change_scale keeps the instant, the converted date carries TIME_SYSTEM
    obtain ⟨hi, hs⟩ := changeScale_same_instant hx hsc hts hus htai hwr hl₁
    obtain ⟨_, _, _, hw, _, _⟩ := changeScale_instant hx hwr
    obtain ⟨_, hds⟩ := same_inst_same_ds ⟨hw.s_nonneg, hw.s_lt⟩ ⟨hx.s_nonneg, hx.s_lt⟩ hi
    have hscw : w.scale ∈ uniformIx := hs ▸ hts
    rw [← hs] at h
    obtain ⟨a, b⟩ := ccsds_epoch_roundtrip_same_label hw hscw (by rw [hds]; exact hus) (by rw [hl₁]; exact htai) h hl₂
    exact ⟨a.trans hi, b.trans hs⟩
  · next heq =>
    have heq : x.scale = ts := by simpa using heq
    cases hwr
    rw [← heq] at h
    obtain ⟨a, b⟩ := ccsds_epoch_roundtrip_same_label hx hsc hus htai h hl₂
    exact ⟨a, b.trans heq⟩

/-- reading back the printed clock reading of ANY date (all six scales) in its own scale: when the constructor finds the
same offset, the instant moves only by the two roundings to the microsecond of `datetime` — at most 1 µs -/
theorem ccsds_reread_within_slack {env : Env} {w y : Date}
    (h : ofDatetime cfg env w.scale (CcsdsDate.written w) = .ok y) (ho : y.off = w.off) :
    -10 ≤ y.inst - w.inst ∧ y.inst - w.inst ≤ 10 := by
  obtain ⟨_, _, hi⟩ := ofDatetime_spec h
  have a := roundUs_bound w.s
  have b := roundUs_bound w.off
  simp only [CcsdsDate.written, Date.datetime, Date.datetimeRef, Date.inst, D, DUS] at *
  omega

/-- **UT1 / TDB labels or TIME_SYSTEM** (every pair of the six scales): within the slack C03 proves for the conversion
(1.5 µs when the offsets of the two constructions agree) plus the 1 µs of re-reading — the instant read back is within
2.5 µs of the instant written -/
theorem ccsds_epoch_roundtrip_slack {env : Env} {x w y : Date} {ts : Nat} (hx : WF cfg env x)
    (hwr : CcsdsDate.inScale cfg env x ts = .ok w)
    (hdrift : ∀ off, offset cfg env x.scale ts x.inst x.eop = .ok off → w.off + off = x.off)
    (h : ofDatetime cfg env w.scale (CcsdsDate.written w) = .ok y) (ho : y.off = w.off) :
    -25 ≤ y.inst - x.inst ∧ y.inst - x.inst ≤ 25 := by
  have h2 := ccsds_reread_within_slack h ho
  unfold CcsdsDate.inScale at hwr
  split at hwr
  · have h1 := changeScale_instant_bound_partial hx hwr hdrift
    omega
  · cases hwr; omega

/-- a whole message: every epoch is read back under the head's label -/
theorem ccsds_message_labels (env : Env) (m : CcsdsDate.Message) (w : Nat × List Int)
    (hd : CcsdsDate.Message.dump cfg env m = .ok w) :
    w.1 = m.head.scale ∧ ∀ r ∈ CcsdsDate.load cfg env w, ∀ y, r = .ok y → y.scale = m.head.scale := by
  unfold CcsdsDate.Message.dump at hd
  split at hd
  · cases hd
    refine ⟨rfl, ?_⟩
    intro r hr y hy
    simp only [CcsdsDate.load, List.mem_map] at hr
    obtain ⟨us, _, rfl⟩ := hr
    exact (ofDatetime_spec hy).2.1
  · cases hd

/-! ## non-vacuity: the hypotheses are met by concrete dates (C03's small database `envEx`)

2015-03-04T00:00:10 TAI = 2015-03-03T23:59:35 UTC: own-scale day 57085, UTC day 57084. Adding 60 s stays in the TAI day
and crosses UTC midnight: the sum carries the record of day 57085, the operand that of day 57084. -/

def xTai : Date := ⟨57085, 100000000, 0, ix "TAI", ⟨350000000, -5341468⟩⟩
def xUtc : Date := ⟨57085, 100000000, 350000000, ix "UTC", ⟨350000000, -5341468⟩⟩
def yTai : Date := ⟨57085, 700000000, 0, ix "TAI", ⟨350000000, -5351835⟩⟩
def yUtc : Date := ⟨57085, 700000000, 350000000, ix "UTC", ⟨350000000, -5351835⟩⟩

example : okOf (ofDatetime cfg envEx (ix "TAI") 4932144010000000) = some xTai ∧
    okOf (changeScale cfg envEx xTai (ix "UTC")) = some xUtc ∧
    okOf (add cfg envEx xTai 60000000) = some yTai ∧ okOf (add cfg envEx xUtc 60000000) = some yUtc ∧
    okOf (changeScale cfg envEx yTai (ix "UTC")) = some yUtc := by decide

example : WF cfg envEx xTai := (ofDatetime_spec (cfg := cfg) (env := envEx) (sc := ix "TAI") (us := 4932144010000000) (x := xTai) (by decide)).1

/-- the hypotheses of `add_function_of_instant` for `xTai`, `xUtc`, `t = 60 s`; the conclusion is visible: same instant,
same record — that of the sum's UTC day, not the operand's -/
example : xTai.scale ∈ uniformIx ∧ xUtc.scale ∈ uniformIx ∧ xTai.inst = xUtc.inst ∧ yTai.inst = xTai.inst + 10 * 60000000 ∧
    yUtc.inst = yTai.inst ∧ yUtc.eop = yTai.eop ∧ yTai.eop ≠ xTai.eop := by decide

example : Clean envEx xTai.scale (clock xTai + 10 * 60000000) :=
  ⟨⟨350000000, -5351835⟩, -350000000, ⟨350000000, -5351835⟩, by decide, by decide, by decide, by decide⟩

example : Clean envEx (ix "TAI") (clock xTai) :=
  ⟨⟨350000000, -5351835⟩, -350000000, ⟨350000000, -5341468⟩, by decide, by decide, by decide, by decide⟩

example : RecOK envEx xTai ∧ RecOK envEx yTai ∧ RecOK envEx xUtc := by
  refine ⟨?_, ?_, ?_⟩ <;> (unfold RecOK; decide)

example : envEx.leap.Pairwise (fun a b => a.2 ≤ b.2) := by decide

/-- `ccsds_epoch_roundtrip` for the TAI-labelled `xTai` written under TIME_SYSTEM = UTC: converted, printed, read back — the same instant -/
example : okOf (CcsdsDate.inScale cfg envEx xTai (ix "UTC")) = some xUtc ∧
    okOf (ofDatetime cfg envEx (ix "UTC") (CcsdsDate.written xUtc)) = some xUtc ∧ xUtc.inst = xTai.inst ∧
    ix "UTC" ∈ uniformIx ∧ xTai.s % 10 = 0 ∧ xTai.eop.taiUtc % 10 = 0 := by decide

end BeyondVerif.C04
