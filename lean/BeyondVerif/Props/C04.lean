import BeyondVerif.Model.DateUse
import Mathlib.Tactic.Ring
import Mathlib.Tactic.Linarith

/-!
# C04 — results depend on the instant, never on the Date's scale label

Theorems about the date-handling layer (`Model/DateUse.lean`): every quantity that the
date-consuming operations derive from a `Date` — time since epoch, the UTC calendar reading handed
to SGP4 and written into a TLE, ordering/equality/hash, the interpolation abscissa — is a function
of the instant alone, for every instant, every pair of labels and every offset table.  The EOP day was the one derived quantity that was not (finding `C04-eop-day-by-label-scale`, fixed by
fc514f7: the record is now looked up by UTC day); the regression witness is kept below.

That each public operation uses its dates only through these quantities is established by the
oracle sweep of harness/props/C04.py on the real API (6 labels × 6 labels per operation), not here.
-/
namespace BeyondVerif.C04
open BeyondVerif.DateUse

variable (off : Nat → Int)

/-- `change_scale` never changes the instant, whatever the offsets -/
theorem relabel_same_instant (d : Date) (l : Nat) : (changeScale off d l).inst = d.inst := by
  simp only [changeScale, ofReading, reading]; ring

theorem relabel_label (d : Date) (l : Nat) : (changeScale off d l).label = l := rfl

/-- two dates denote the same instant iff relabelling one gives the other: the label is free -/
theorem instant_label_free (d : Date) (l₁ l₂ : Nat) :
    (changeScale off (changeScale off d l₁) l₂) = changeScale off d l₂ := by
  simp only [changeScale, ofReading, reading, Date.mk.injEq, and_true]; ring

/-- time since epoch (Kepler, J2, numerical, CW, native SGP4): independent of both labels -/
theorem delta_label_independent (date epoch : Date) (l₁ l₂ : Nat) :
    dt (changeScale off date l₁) (changeScale off epoch l₂) = dt date epoch := by
  simp only [dt, sub, relabel_same_instant]

theorem tdiff_label_independent (date epoch : Date) (l₁ l₂ : Nat) :
    tdiff (changeScale off date l₁) (changeScale off epoch l₂) = tdiff date epoch :=
  delta_label_independent off date epoch l₁ l₂

/-- the UTC reading handed to the sgp4 library does not depend on the label of the requested date -/
theorem utcFields_label_independent (utc : Nat) (d : Date) (l : Nat) :
    utcReading off utc (changeScale off d l) = utcReading off utc d := by
  simp only [utcReading, instant_label_free]

/-- the epoch written into a TLE does not depend on the label of the orbit's date -/
theorem tle_epoch_label_independent (utc : Nat) (d : Date) (l : Nat) :
    tleEpoch off utc (changeScale off d l) = tleEpoch off utc d :=
  utcFields_label_independent off utc d l

/-- ordering, equality, hash key and interpolation abscissa are label-free -/
theorem compare_label_independent (a b : Date) (l₁ l₂ : Nat) :
    le (changeScale off a l₁) (changeScale off b l₂) = le a b ∧
    eq (changeScale off a l₁) (changeScale off b l₂) = eq a b ∧
    hashKey (changeScale off a l₁) = hashKey a ∧ abscissa (changeScale off a l₁) = abscissa a := by
  simp only [le, eq, hashKey, abscissa, relabel_same_instant, and_self]

/-- `date + δ` then `− date` gives δ back, in every scale (constant offset) -/
theorem add_sub (d : Date) (δ : Int) : sub (add off d δ) d = δ := by
  simp only [add, sub, ofReading, reading]; ring

/-- the Earth-orientation record attached to a date is chosen by the UTC day of the instant: label-free
(true of the code since fix fc514f7) -/
theorem eop_day_label_independent (utc : Nat) (d : Date) (l : Nat) :
    eopDay off utc (changeScale off d l) = eopDay off utc d := by
  simp only [eopDay, utcFields_label_independent]

/-- **Regression witness**: the lookup by the day number of the date's own scale (the code before fc514f7) *does*
depend on the label. With TAI − UTC = 35 s, the instant 2014-08-03T23:59:50 UTC has UTC day 56872 but its TAI
reading is already in day 56873. -/
theorem eop_day_own_scale_depends_on_label :
    ∃ (off : Nat → Int) (d : Date) (l : Nat), eopDayOwnScale off (changeScale off d l) ≠ eopDayOwnScale off d := by
  refine ⟨fun l => if l = 0 then 0 else -35000000, ⟨56872 * 86400000000 + 86390000000 + 35000000, 1⟩, 0, ?_⟩
  decide

/-- non-vacuity of the label quantifier: two different labels, one instant -/
example : (changeScale (fun l => if l = 0 then 0 else -35000000) ⟨10, 1⟩ 0).inst = 10 := by decide

end BeyondVerif.C04
