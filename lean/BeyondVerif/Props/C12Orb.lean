import BeyondVerif.Props.C12
import BeyondVerif.Model.TleOrb
/-!
# C12 — the orbit side of `Tle.from_orbit`

* which catalogue numbers are refused, and that EVERY accepted record — whatever its fields — was written as two lines of
  exactly 69 columns (`accepted_writes_69_columns`, `accepted_norad_fits`, `norad_int_accepted_iff`);
* operation histories on one orbit (`Model/TleOrb.lean`): after ANY sequence of in-place modifications, copies, re-reads
  and reads, `Tle.from_orbit` shows the current values and never the `Tle` the orbit still carries
  (`read_reflects_current_values`, `history_independent_of_source`, `reads_do_not_change_the_orbit`), tied to the code by
  `orbit_reads_exact` over the list of uses of `orbit` regenerated from the AST of `Tle.from_orbit`.
-/
namespace BeyondVerif.C12
open BeyondVerif.Tle
open BeyondVerif.Generated.Tle (Seg Fld)

/-! ## the source `Tle` is not read -/

/-- **what `Tle.from_orbit` reads of its argument** (regenerated from the AST on every run): the three identification
attributes behind a `hasattr` probe, a `copy(form="TLE", frame="TEME")` that replaces the argument, the date, the six
elements by unpacking, the drag terms and the two counters — and nothing else: neither `_data` nor the `tle` entry the
orbit carries since `Tle.orbit()`, neither `form` nor `frame`. The state of `OrbState` is exactly this list plus `src`. -/
theorem orbit_reads_exact :
    Generated.Tle.orbitReads = ["hasattr:name", "name", "hasattr:norad_id", "norad_id", "hasattr:cospar_id", "cospar_id", "<assign>", "copy",
      "date", "<unpack6>", "ndot", "ndotdot", "bstar", "element_nb", "revolutions"] ∧
    Generated.Tle.copyExpr = "orbit.copy(form='TLE', frame='TEME')" := by decide

/-- **the epoch is written from the UTC instant** (C04 link): the year, the day of the year and the day fraction of line 1
are all taken from one value, the orbit's date converted to UTC -/
theorem epoch_from_utc_date : Generated.Tle.dateExpr = "orbit.date.change_scale('UTC').datetime" := by decide

/-- **`Tle.orbit()` builds a new orbit on every call and keeps nothing**: as read from the AST on this run, the method is an
assignment (the dictionary of the extra entries) followed by `return Orbit(self.to_list(), self.epoch, 'TLE', 'TEME', 'Sgp4', …)` —
a constructor call on the parsed fields — and stores to no attribute of `self`.  Hence two orbits taken from one `Tle` are
distinct objects holding the parsed values, whatever was done to the first in between (the `src` of `OrbState` is the text, not
an orbit): the in-place histories of `history_independent_of_source` start from the same state at every `orbit()`. -/
theorem tle_orbit_builds_fresh :
    Generated.Tle.tleOrbitShape = ["stmt:Assign", "stmt:Return", "return:Orbit(self.to_list(), self.epoch, 'TLE', 'TEME', 'Sgp4')"] := by
  decide

/-! ## every accepted record was written on 69 columns -/

theorem renderN_lit (nt : Str) (r : Rec) (s : Str) (ss : List Seg) (b : Str) (h : renderN nt r (.lit s :: ss) = some b) :
    ∃ t, b = s ++ t := by
  unfold renderN at h
  simp only [renderSegN] at h
  cases hr : renderN nt r ss with
  | none => rw [hr] at h; simp at h
  | some t => rw [hr] at h; simp at h; exact ⟨t, h.symm⟩

theorem written_strip (body : Str) (a : Char) (t : Str) (c : Nat) (hb : body = a :: t) (ha : isWs a = false) :
    strip (body ++ natStr c) = body ++ natStr c := by
  obtain ⟨d, hd, hlast⟩ := natStr_last c
  have hp := natStr_length_pos c
  apply strip_of_ends (a := a) (z := digitChar d) _ _ ha (isWs_digitChar hd)
  · rw [hb]; simp
  · rw [List.getElem?_append_right (by simp; omega)]
    have : (body ++ natStr c).length - 1 - body.length = (natStr c).length - 1 := by simp; omega
    rw [this]; exact hlast

/-- what `writeRecN` returns when it returns: two bodies starting with `1 ` / `2 `, each followed by its check digit -/
theorem writeRecN_shape (nt : Str) (r : Rec) (t : List Str) (h : writeRecN nt r = .ok t) :
    ∃ l1 l2, t = (if r.name.isEmpty then [l1, l2] else [r.name, l1, l2]) ∧ strip l1 = l1 ∧ strip l2 = l2 := by
  unfold writeRecN at h
  split at h
  · cases h
  · cases h1 : renderN nt r G.fmt1 with
    | none => rw [h1] at h; simp at h
    | some b1 =>
      cases h2 : renderN nt r G.fmt2 with
      | none => rw [h1, h2] at h; simp at h
      | some b2 =>
        rw [h1, h2] at h
        simp only at h
        cases hc1 : checksum b1 with
        | none => rw [hc1] at h; simp at h
        | some c1 =>
          cases hc2 : checksum b2 with
          | none => rw [hc1, hc2] at h; simp at h
          | some c2 =>
            rw [hc1, hc2] at h
            simp only at h
            injection h with h
            have h1' : renderN nt r (Seg.lit ['1', ' '] :: Generated.Tle.fmt1.tail) = some b1 := h1
            have h2' : renderN nt r (Seg.lit ['2', ' '] :: Generated.Tle.fmt2.tail) = some b2 := h2
            obtain ⟨t1, ht1⟩ := renderN_lit nt r ['1', ' '] _ b1 h1'
            obtain ⟨t2, ht2⟩ := renderN_lit nt r ['2', ' '] _ b2 h2'
            refine ⟨b1 ++ natStr c1, b2 ++ natStr c2, h.symm, ?_, ?_⟩
            · exact written_strip b1 '1' (' ' :: t1) c1 (by rw [ht1]; rfl) (by decide)
            · exact written_strip b2 '2' (' ' :: t2) c2 (by rw [ht2]; rfl) (by decide)

theorem bind_ok {α β : Type} {x : Except Err α} {f : α → Except Err β} {b : β} (h : (x >>= f) = .ok b) :
    ∃ a, x = .ok a ∧ f a = .ok b := by
  cases x with
  | error e => cases h
  | ok a => exact ⟨a, rfl, h⟩

/-- what `Tle.__init__` guarantees when it returns: the text passed `_check_validity`, the object shows the stripped
lines, and the catalogue number is `int()` of its columns -/
theorem parseBody_ok_fields {t : List Str} {p : Parsed} (h : parseBody t = .ok p) :
    checkValidity t = .ok () ∧ p.text = t.map strip ∧
    (∀ first second rest, t.map strip = first :: second :: rest → pyInt (slice first G.norad) = .ok p.norad) := by
  unfold parseBody at h
  obtain ⟨u, hv, h⟩ := bind_ok h
  refine ⟨hv, ?_⟩
  dsimp only at h
  split at h
  · next first second rest heq =>
    obtain ⟨norad, hn, h⟩ := bind_ok h
    repeat (obtain ⟨_, _, h⟩ := bind_ok h)
    simp only [pure, Except.pure] at h
    injection h with h
    subst h
    refine ⟨rfl, ?_⟩
    intro f s r' e
    rw [heq] at e
    injection e with e1 e2
    subst e1
    exact hn
  · cases h

theorem parseBody_ok_valid {t : List Str} {p : Parsed} (h : parseBody t = .ok p) :
    checkValidity t = .ok () ∧ p.text = t.map strip := ⟨(parseBody_ok_fields h).1, (parseBody_ok_fields h).2.1⟩

/-- **every accepted record writes 69-column lines**: for EVERY catalogue-number text and EVERY record whatsoever (no
range hypothesis: over-long numbers, alpha-5 strings, negative counters, six-digit revolution numbers …), if
`Tle.from_orbit` returns a `Tle`, then the two lines it formatted — before any stripping — have exactly 69 characters,
carry their checksum, start with `1 ` / `2 `, and are what the returned object shows. Whatever does not fit its columns
is therefore refused, never silently shifted. -/
theorem accepted_writes_69_columns (nt : Str) (r : Rec) (p : Parsed) (h : fromOrbitN nt r = .ok p) :
    ∃ l1 l2, writeRecN nt r = .ok (if r.name.isEmpty then [l1, l2] else [r.name, l1, l2]) ∧
      l1.length = 69 ∧ l2.length = 69 ∧ LineOk l1 ∧ LineOk l2 ∧ p.text = [l1, l2] ∧ checkValidity [l1, l2] = .ok () := by
  unfold fromOrbitN at h
  cases hw : writeRecN nt r with
  | error e => rw [hw] at h; simp [bind, Except.bind] at h
  | ok t =>
    rw [hw] at h
    simp only [bind, Except.bind] at h
    obtain ⟨l1, l2, ht, s1, s2⟩ := writeRecN_shape nt r t hw
    have hb : ∃ p', parseBody [l1, l2] = .ok p' ∧ p'.text = p.text := by
      by_cases hn : r.name.isEmpty = true
      · rw [ht, hn] at h
        exact ⟨p, h, rfl⟩
      · have hn' : r.name.isEmpty = false := by simpa using hn
        rw [ht, hn'] at h
        simp only [Bool.false_eq_true, if_false] at h
        have : (parseBody [l1, l2]).map (fun p => { p with name := nameOf r.name }) = .ok p := h
        cases hp : parseBody [l1, l2] with
        | error e => rw [hp] at this; cases this
        | ok p' =>
          rw [hp] at this
          simp only [Except.map] at this
          injection this with this
          exact ⟨p', rfl, by rw [← this]⟩
    obtain ⟨p', hp', htext⟩ := hb
    obtain ⟨hv, hpt⟩ := parseBody_ok_valid hp'
    obtain ⟨a, b, rest, hab, _, _, hall⟩ := (valid_iff _).1 hv
    have ok1 : LineOk l1 := hall l1 (by simp)
    have ok2 : LineOk l2 := hall l2 (by simp)
    refine ⟨l1, l2, by rw [ht], ?_, ?_, ok1, ok2, ?_, hv⟩
    · have := ok1.1; rw [s1] at this; exact this
    · have := ok2.1; rw [s2] at this; exact this
    · rw [← htext, hpt]; simp [s1, s2]

/-! ## which catalogue numbers are accepted -/

theorem renderSegN_int (r : Rec) (s : Seg) : renderSegN (intStr r.norad) r s = renderSeg r s := by
  cases s with
  | lit s => rfl
  | str name fill right w => cases name <;> rfl
  | fix name zero w p => rfl
  | yy name => cases name <;> rfl

theorem renderN_int (r : Rec) (ss : List Seg) : renderN (intStr r.norad) r ss = render r ss := by
  induction ss with
  | nil => rfl
  | cons s ss ih =>
    show (match renderSegN (intStr r.norad) r s, renderN (intStr r.norad) r ss with
      | some a, some b => some (a ++ b)
      | _, _ => none) = _
    rw [renderSegN_int, ih]; rfl

/-- with the integer of the record as catalogue number, the writer is the one of `Props/C12.lean` -/
theorem writeRecN_int (r : Rec) : writeRecN (intStr r.norad) r = writeRec r := by
  unfold writeRecN writeRec
  simp only [renderN_int]
  rfl

theorem fromOrbitN_int (r : Rec) : fromOrbitN (intStr r.norad) r = fromOrbit r := by
  unfold fromOrbitN fromOrbit
  rw [writeRecN_int]

/-- the first line as a list of chunks, the catalogue number being any text -/
def chunks1N (nt : Str) (r : Rec) : List Str :=
  [ ['1', ' '], padLeft '0' 5 nt, ['U'], [' '], padRight ' ' 8 r.cospar, [' '], fixedDigits 2 r.yy,
    fmtFix true 12 8 r.day8, [' '], padLeft ' ' 10 (fmtNdot r.ndotNeg r.ndot8), [' '], padLeft ' ' 8 (unfloat r.ndd), [' '],
    padLeft ' ' 8 (unfloat r.bstar), [' '], ['0'], [' '], padLeft ' ' 4 (intStr r.elnb) ]

theorem renderN_fmt1 (nt : Str) (r : Rec) : renderN nt r G.fmt1 = some (chunks1N nt r).flatten := by
  simp [renderN, renderSegN, fieldStrN, fieldStr, fieldNum, Generated.Tle.fmt1, chunks1N]

theorem padLeft_length_ge (c : Char) (w : Nat) (s : Str) : w ≤ (padLeft c w s).length ∧ s.length ≤ (padLeft c w s).length := by
  simp [padLeft]; omega

theorem padRight_length_ge (c : Char) (w : Nat) (s : Str) : w ≤ (padRight c w s).length := by
  simp [padRight]; omega

theorem fmtFix_length_ge (z : Bool) (w p v : Nat) : w ≤ (fmtFix z w p v).length := (padLeft_length_ge _ _ _).1

/-- **an accepted catalogue number fits its five columns and is a plain integer**: whatever is given as `norad_id`
(`int` or `str`), if `Tle.from_orbit` returns a `Tle` then the text has at most five characters and, zero-padded, is read
back by `int()` as the catalogue number of the result. Six-digit numbers and alpha-5 numbers (`A0001`: `int()` fails)
are refused. -/
theorem accepted_norad_fits (nt : Str) (r : Rec) (p : Parsed) (h : fromOrbitN nt r = .ok p) :
    nt.length ≤ 5 ∧ pyInt (padLeft '0' 5 nt) = .ok p.norad := by
  obtain ⟨l1, l2, hw, len1, _, _, _, htext, hv⟩ := accepted_writes_69_columns nt r p h
  -- the first line is the chunk list followed by one check digit
  have hl1 : ∃ c, c < 10 ∧ l1 = (chunks1N nt r).flatten ++ natStr c := by
    unfold writeRecN at hw
    split at hw
    · cases hw
    · rw [renderN_fmt1] at hw
      cases h2 : renderN nt r G.fmt2 with
      | none => rw [h2] at hw; simp at hw
      | some b2 =>
        rw [h2] at hw
        simp only at hw
        cases hc1 : checksum (chunks1N nt r).flatten with
        | none => rw [hc1] at hw; simp at hw
        | some c1 =>
          cases hc2 : checksum b2 with
          | none => rw [hc1, hc2] at hw; simp at hw
          | some c2 =>
            rw [hc1, hc2] at hw
            simp only at hw
            injection hw with hw
            have hc : c1 < 10 := by
              unfold checksum at hc1
              cases hs : sumVals (List.take G.ckLen (chunks1N nt r).flatten) with
              | none => rw [hs] at hc1; cases hc1
              | some s => rw [hs] at hc1; simp at hc1; omega
            refine ⟨c1, hc, ?_⟩
            by_cases hn : r.name.isEmpty = true
            · rw [hn] at hw; simp at hw; exact hw.1.symm
            · have hn' : r.name.isEmpty = false := by simpa using hn
              rw [hn'] at hw; simp at hw; exact hw.1.symm
  obtain ⟨c, hc, hl⟩ := hl1
  have hlen : nt.length ≤ 5 := by
    have e := len1
    rw [hl, List.length_append, sum_map_length_flatten, natStr_lt10 hc] at e
    simp only [chunks1N, List.map_cons, List.map_nil, List.sum_cons, List.sum_nil, List.length_cons, List.length_nil] at e
    have a1 := (padLeft_length_ge '0' 5 nt).2
    have a2 := padRight_length_ge ' ' 8 r.cospar
    have a3 := fixedDigits_length 2 r.yy
    have a4 := fmtFix_length_ge true 12 8 r.day8
    have a5 := (padLeft_length_ge ' ' 10 (fmtNdot r.ndotNeg r.ndot8)).1
    have a6 := (padLeft_length_ge ' ' 8 (unfloat r.ndd)).1
    have a7 := (padLeft_length_ge ' ' 8 (unfloat r.bstar)).1
    have a8 := (padLeft_length_ge ' ' 4 (intStr r.elnb)).1
    omega
  refine ⟨hlen, ?_⟩
  -- the catalogue-number columns of the accepted line
  have hs : slice l1 G.norad = padLeft '0' 5 nt := by
    rw [hl]
    exact slice_chunk [['1', ' ']] _ _ (natStr c) 2 7 (by simp) (by simp [padLeft_length hlen])
  -- `Tle.__init__` read them with `int()`
  have hp : ∃ p', parseBody [l1, l2] = .ok p' ∧ p'.norad = p.norad := by
    unfold fromOrbitN at h
    rw [hw] at h
    simp only [bind, Except.bind] at h
    by_cases hn : r.name.isEmpty = true
    · rw [hn] at h; exact ⟨p, h, rfl⟩
    · have hn' : r.name.isEmpty = false := by simpa using hn
      rw [hn'] at h
      simp only [Bool.false_eq_true, if_false] at h
      have : (parseBody [l1, l2]).map (fun p => { p with name := nameOf r.name }) = .ok p := h
      cases hp : parseBody [l1, l2] with
      | error e => rw [hp] at this; cases this
      | ok p' =>
        rw [hp] at this
        simp only [Except.map] at this
        injection this with this
        exact ⟨p', rfl, by rw [← this]⟩
  obtain ⟨p', hp', hnor⟩ := hp
  have s1 : strip l1 = l1 := by
    rw [hl]; exact written_strip _ '1' ((chunks1N nt r).flatten.drop 1) c (by simp [chunks1N]) (by decide)
  have := (parseBody_ok_fields hp').2.2 (strip l1) (strip l2) [] rfl
  rw [s1, hs, hnor] at this
  exact this

theorem natStr_length_bound : ∀ (k n : Nat), (natStr n).length ≤ k → n < 10 ^ k := by
  intro k
  induction k with
  | zero => intro n hn; have := natStr_length_pos n; omega
  | succ k ih =>
    intro n hn
    rw [natStr_eq] at hn
    split at hn
    · next h10 =>
      have : 1 ≤ 10 ^ k := Nat.one_le_pow _ _ (by omega)
      rw [Nat.pow_succ]; omega
    · simp at hn
      have := ih (n / 10) (by omega)
      rw [Nat.pow_succ]; omega

/-- **a non-negative integer catalogue number is accepted only below 100000**, and is then the catalogue number of the
result (0 included: written `00000`, not replaced by the default) -/
theorem norad_int_accepted_only (i : Int) (hi : 0 ≤ i) (r : Rec) (p : Parsed) (h : fromOrbitN (intStr i) r = .ok p) :
    p.norad = i ∧ i < 100000 := by
  obtain ⟨hlen, hp⟩ := accepted_norad_fits _ r p h
  rw [intStr_nonneg hi] at hlen hp
  rw [pyInt_padLeft_zero] at hp
  injection hp with hp
  have := natStr_length_bound 5 i.natAbs hlen
  exact ⟨by omega, by omega⟩

/-- **every catalogue number 0 … 99999 is accepted** (with the other fields inside the ranges of the format), given as the
orbit's attribute or as argument; the written text is the one of `parse_write_id` -/
theorem norad_int_accepted (r : Rec) (h : InRange r) (a : Args) (o : Ident)
    (hn : effNorad a o = intStr r.norad) (hname : effName a o = r.name) (hc : effCospar a o = r.cospar) :
    ∃ p lines, fromOrbitArgs a o r = .ok p ∧ writeRec r = .ok lines ∧ tleStr p = lines ∧ toRec p = .ok r := by
  obtain ⟨p, lines, hw, hf, _, hs, ht⟩ := parse_write_id r h
  refine ⟨p, lines, ?_, hw, hs, ht⟩
  unfold fromOrbitArgs
  rw [hn, hname, hc]
  have : ({ r with name := r.name, cospar := r.cospar } : Rec) = r := rfl
  rw [this, fromOrbitN_int, hf]

/-- the hypotheses are met: catalogue number 0 as attribute, 25544 as argument over a different attribute, the default -/
example : effNorad {} ⟨none, some (.int 0), none⟩ = intStr 0 ∧ effNorad { norad := some (.int 25544) } ⟨none, some (.int 7), none⟩ = intStr 25544 ∧
    effNorad {} ⟨none, none, none⟩ = "99999".toList ∧ effCospar {} ⟨none, none, some "1998-067A".toList⟩ = "98067A".toList := by decide

/-! ## histories on one orbit -/

/-- **after ANY history, `Tle.from_orbit` reflects the current values**: whatever sequence of in-place modifications,
copies, re-reads and reads an orbit went through, a read is answered from the values the orbit holds at that moment -/
theorem read_reflects_current_values (ops : List Op) (st : OrbState) (a : Args) :
    (run (ops ++ [.read a]) st).2 = (run ops st).2 ++ [fromOrbitArgs a (run ops st).1.ident (run ops st).1.vals] ∧
    (run (ops ++ [.read a]) st).1 = (run ops st).1 := by
  induction ops generalizing st with
  | nil => simp [run, step]
  | cons op ops ih =>
    simp only [List.cons_append, run]
    obtain ⟨h1, h2⟩ := ih (step st op).1
    constructor
    · rw [h1]; simp [List.append_assoc]
    · exact h2

theorem step_src (st : OrbState) (s' : Option (List Str)) (op : Op) :
    (step { st with src := s' } op).2 = (step st op).2 ∧
    (step { st with src := s' } op).1.ident = (step st op).1.ident ∧
    (step { st with src := s' } op).1.vals = (step st op).1.vals := by
  cases op with
  | reread =>
    simp only [step]
    cases fromOrbitArgs {} st.ident st.vals with
    | error e => simp
    | ok p =>
      dsimp only
      cases toRec p <;> simp
  | _ => exact ⟨rfl, rfl, rfl⟩

/-- two states with the same identification and values answer every history alike, whatever source `Tle` they carry -/
theorem run_src (ops : List Op) : ∀ (st st' : OrbState), st.ident = st'.ident → st.vals = st'.vals →
    (run ops st).2 = (run ops st').2 ∧ (run ops st).1.ident = (run ops st').1.ident ∧ (run ops st).1.vals = (run ops st').1.vals := by
  induction ops with
  | nil => intro st st' h1 h2; exact ⟨rfl, h1, h2⟩
  | cons op ops ih =>
    intro st st' h1 h2
    have e : st = { st' with src := st.src } := by
      cases st; cases st'; simp at h1 h2; simp [h1, h2]
    obtain ⟨s1, s2, s3⟩ := step_src st' st.src op
    rw [← e] at s1 s2 s3
    obtain ⟨r1, r2, r3⟩ := ih (step st op).1 (step st' op).1 s2 s3
    simp only [run]
    exact ⟨by rw [s1, r1], r2, r3⟩

/-- **the source `Tle` an orbit carries is never what is written**: an orbit made by `Tle.orbit()` (which keeps the
parsed object in `_data["tle"]`, through every `copy()`) and a freshly built orbit holding the same values give the same
replies to every history of modifications and reads (the seeded change C12-m3 returned the carried `Tle`). -/
theorem history_independent_of_source (ops : List Op) (st : OrbState) (s' : Option (List Str)) :
    (run ops { st with src := s' }).2 = (run ops st).2 :=
  (run_src ops { st with src := s' } st rfl rfl).1

/-- **reads do not change the orbit**: dropping every read from a history leaves the final state unchanged, and each
remaining… (the replies of a history are those of its reads, in order) -/
theorem reads_do_not_change_the_orbit (ops : List Op) (st : OrbState) :
    (run (ops.filter (fun o => match o with | .read _ => false | _ => true)) st).1 = (run ops st).1 := by
  induction ops generalizing st with
  | nil => rfl
  | cons op ops ih =>
    cases op <;> simp only [List.filter, run, step] <;> first | exact ih _ | skip
    all_goals exact ih _

/-- a concrete history: the reference TLE's orbit (carrying its source), the right ascension and the drag term changed
in place, a copy, two reads: both show the new values -/
example :
    ((run [.setNum .raan4 2000000, .setBstar (.val false 50000 (-4)), .copy, .read {}, .setRevs 56354, .read {}]
        { ident := ⟨some "ISS (ZARYA)".toList, some (.int 25544), some "1998-067A".toList⟩, vals := issRec, src := some [] }).2.map
      (fun r => r.toOption.map (fun p => ((p.raan.mant, p.bstar.mant, p.revs))))) =
    [some (2000000, 50000, 56353), some (2000000, 50000, 56354)] := by decide

end BeyondVerif.C12
